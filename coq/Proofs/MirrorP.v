(** * MirrorP (C16): the reward contract's staking balances mirror the bSei ledger.

    Main theorems
    - [bsei_transfer_mirror], [bsei_burn_mirror], [bsei_mint_mirror], [bsei_send_mirror],
      [bsei_transfer_from_mirror], [bsei_burn_from_mirror], [bsei_send_from_mirror],
      [bsei_allow_mirror]: per bSei handler — the exact list of emitted Increase/DecreaseBalance
      messages (addresses and amounts) and the matching change of the cw20 ledger.
    - [bsei_execute_lag]: for every bSei message, ledger delta = delta announced by the emitted messages.
    - [reward_execute_rbal]: IncreaseBalance / DecreaseBalance change exactly one holder's balance and
      the total by the amount, only when sent by the bSei token; every other reward message changes neither.
    - [step_msg_J]: the stack invariant "reward balance + pending increases = bSei balance + pending
      decreases" (for every address and for the totals) is preserved by EVERY message of every contract.
    - [tx_mirror]: a successful transaction whose root is not a re-wiring owner message, started by
      anyone but the bSei contract address itself, in a wired mirrored world, ends wired and mirrored.
    - [tx_mirror_rewire]: a transaction whose root IS a re-wiring owner message touches neither ledger.
    - [step_mirror], [always_mirror], [mirror_final], [mirror_from_fresh], [mirror_plain_history]:
      from a mirrored world, the mirror holds in every world of every history that keeps the wiring
      (all operations, all principals).
    - [step_mirror_env], [mirror_genesis]: the same from the empty chain, under the envelope
      "ledgers still empty or wiring complete" ([MirrorEnv]) in every visited world.
    - [Fresh_Mirror], [inst_bsei_fresh], [inst_reward_fresh]: a token instantiated without initial
      balances and a freshly instantiated reward contract are mirrored.
    - [step_msg_prefixed], [step_msg_J2], [J2_root], [J2_head_mirror]: the pending mirror messages
      are always on top of the stack, so the mirror is exact whenever any other message (the hub's
      Receive hook, the Burn/Mint of unbond and convert) starts executing inside a transaction.
    - [dec_after_debit_succeeds], [AccrualFits_bound]: after the bSei ledger accepted a debit, the
      DecreaseBalance message it emitted cannot fail (given the holder's accrued reward fits in
      128 bits, [AccrualFits]).
    - [mirror_refuted_by_bsei_sender], [mirror_refuted_by_initial_balances],
      [mirror_refuted_by_reward_reinstantiate]: the three excluded classes are really necessary.
    - [example_mirror_nonvacuous], [example_genesis_nonvacuous], [example_dec_nonvacuous]: a concrete
      wired history (bond, transfer, unbond through Send, allowance + TransferFrom) with non-zero
      balances satisfying the hypotheses of the theorems. *)
From Krp Require Import Tactics Prelude Fixed FMap Types Env Registry Cw20 Reward Dispatcher Hub Exec
     ExecP Hist Inv HubFrame HubAdmin Cw20P MirrorWire.
Open Scope N_scope.

(** ** both ledgers indexed by [o : option addr]: [Some a] = the account of [a], [None] = the total *)
Definition rbal (r : reward) (o : option addr) : N :=
  match o with Some a => ho_bal (holder_of r a) | None => rw_total r end.
Definition lbal (t : token) (o : option addr) : N :=
  match o with Some a => tbal t a | None => tk_supply t end.
(** does a balance change of account [a] concern index [o]? *)
Definition sel (o : option addr) (a : addr) : bool :=
  match o with Some b => b =? a | None => true end.
Definition dl (o : option addr) (a : addr) (x : N) : N := if sel o a then x else 0.

(** amount by which a pending message will raise ([inc = true]) / lower ([inc = false]) index [o] of
    the reward contract: only Increase/DecreaseBalance sent BY the bSei token TO the reward contract count *)
Definition amt_of (inc : bool) (o : option addr) (sm : addr * cmsg) : N :=
  if fst sm =? A_bsei then
    match snd sm with
    | MWasm to (WReward (RInc a x)) _ => if (to =? A_reward) && inc then dl o a x else 0
    | MWasm to (WReward (RDec a x)) _ => if (to =? A_reward) && negb inc then dl o a x else 0
    | _ => 0
    end
  else 0.

Definition pend (inc : bool) (o : option addr) (st : list (addr * cmsg)) : N :=
  sumN (map (amt_of inc o) st).

(** the mirror up to the pending messages of the running transaction *)
Definition Lag (w : world) (st : list (addr * cmsg)) : Prop :=
  forall tb r, w_bsei w = Some tb -> w_reward w = Some r ->
    forall o, rbal r o + pend true o st = lbal tb o + pend false o st.

Lemma Mirror_Lag w : Mirror w <-> Lag w [].
Proof.
  unfold Mirror, Lag, pend. cbn [map sumN]. split.
  - intros H tb r Hb Hr o. destruct (H tb r Hb Hr) as [H1 H2].
    destruct o as [a|]; cbn [rbal lbal]; [rewrite H1|rewrite H2]; lia.
  - intros H tb r Hb Hr. split.
    + intros a. specialize (H tb r Hb Hr (Some a)). cbn [rbal lbal] in H. lia.
    + specialize (H tb r Hb Hr None). cbn [rbal lbal] in H. lia.
Qed.

Lemma pend_app inc o s1 s2 : pend inc o (s1 ++ s2) = pend inc o s1 + pend inc o s2.
Proof. unfold pend. rewrite map_app, sumN_app. reflexivity. Qed.

Lemma pend_cons inc o x st : pend inc o (x :: st) = amt_of inc o x + pend inc o st.
Proof. reflexivity. Qed.

Lemma pend_nil inc o : pend inc o [] = 0.
Proof. reflexivity. Qed.

(** *** which messages count *)
Lemma amt_of_nonwasm inc o s m : (forall to wm f, m <> MWasm to wm f) -> amt_of inc o (s, m) = 0.
Proof.
  intros H. unfold amt_of. cbn [fst snd]. destruct (s =? A_bsei); [|reflexivity].
  destruct m; try reflexivity. exfalso. eapply H. reflexivity.
Qed.

Lemma amt_of_target_other inc o s to wm f : (to =? A_reward) = false -> amt_of inc o (s, MWasm to wm f) = 0.
Proof.
  intros H. unfold amt_of. cbn [fst snd]. destruct (s =? A_bsei); [|reflexivity].
  destruct wm as [hm|rm|dm|gm|cm|sm|]; try reflexivity.
  destruct rm; try reflexivity; rewrite H; reflexivity.
Qed.

Lemma amt_of_sender_other inc o s m : (s =? A_bsei) = false -> amt_of inc o (s, m) = 0.
Proof. intros H. unfold amt_of. cbn [fst]. rewrite H. reflexivity. Qed.

Lemma pend_tag_other inc o to out :
  (to =? A_bsei) = false -> pend inc o (map (fun x => (to, x)) out) = 0.
Proof.
  intros H. induction out as [|x out IH]; cbn [map]; [reflexivity|].
  rewrite pend_cons, IH, amt_of_sender_other by exact H. reflexivity.
Qed.

Lemma amt_of_inc_msg inc o a x f :
  amt_of inc o (A_bsei, MWasm A_reward (WReward (RInc a x)) f) = if inc then dl o a x else 0.
Proof. unfold amt_of. cbn [fst snd]. rewrite !N.eqb_refl. destruct inc; reflexivity. Qed.

Lemma amt_of_dec_msg inc o a x f :
  amt_of inc o (A_bsei, MWasm A_reward (WReward (RDec a x)) f) = if inc then 0 else dl o a x.
Proof. unfold amt_of. cbn [fst snd]. rewrite !N.eqb_refl. destruct inc; reflexivity. Qed.

Lemma amt_of_not_reward inc o s to wm f :
  (forall rm, wm <> WReward rm) -> amt_of inc o (s, MWasm to wm f) = 0.
Proof.
  intros H. unfold amt_of. cbn [fst snd]. destruct (s =? A_bsei); [|reflexivity].
  destruct wm; try reflexivity. exfalso. eapply H. reflexivity.
Qed.

(** ** the cw20 ledger primitives in terms of [lbal] *)
Lemma tok_move_lbal t from to amt t' :
  tok_move t from to amt = Some t' -> forall o, lbal t' o + dl o from amt = lbal t o + dl o to amt.
Proof.
  intros H. apply tok_move_spec in H.
  destruct H as (Hle & _ & Hsup & _ & _ & _ & Hne & Heq & Hoth).
  intros [a|]; unfold dl, sel; cbn [lbal]; [|rewrite Hsup; reflexivity].
  destruct (N.eq_dec from to) as [E|E].
  - subst to. destruct (a =? from) eqn:Ea; [|rewrite N.add_0_r].
    + apply N.eqb_eq in Ea. subst a. rewrite (Heq eq_refl). reflexivity.
    + apply N.eqb_neq in Ea. rewrite Hoth by congruence. rewrite N.add_0_r. reflexivity.
  - destruct (Hne E) as [H1 H2]. clear Hne Heq.
    destruct (a =? from) eqn:Ea; destruct (a =? to) eqn:Eb.
    + apply N.eqb_eq in Ea, Eb. congruence.
    + apply N.eqb_eq in Ea. subst a. rewrite H1. clear - Hle. lia.
    + apply N.eqb_eq in Eb. subst a. rewrite H2. clear. lia.
    + apply N.eqb_neq in Ea, Eb. rewrite Hoth by congruence. reflexivity.
Qed.

Lemma tok_burn_lbal t from amt t' :
  tok_burn_from_acct t from amt = Some t' -> forall o, lbal t' o + dl o from amt = lbal t o.
Proof.
  intros H. apply tok_burn_spec in H.
  destruct H as (Hle & Hle2 & _ & Hsup & _ & _ & _ & H1 & Hoth).
  intros [a|]; unfold dl, sel; cbn [lbal]; [|exact Hsup].
  destruct (a =? from) eqn:Ea.
  - apply N.eqb_eq in Ea. subst a. rewrite H1. clear - Hle. lia.
  - apply N.eqb_neq in Ea. rewrite Hoth by congruence. apply N.add_0_r.
Qed.

Lemma tok_mint_lbal t sender to amt t' :
  tok_mint t sender to amt = Some t' -> forall o, lbal t' o = lbal t o + dl o to amt.
Proof.
  intros H. apply tok_mint_spec in H.
  destruct H as (_ & _ & _ & Hsup & _ & _ & _ & H1 & Hoth).
  intros [a|]; unfold dl, sel; cbn [lbal]; [|exact Hsup].
  destruct (a =? to) eqn:Ea.
  - apply N.eqb_eq in Ea. subst a. exact H1.
  - apply N.eqb_neq in Ea. rewrite Hoth by congruence. symmetry. apply N.add_0_r.
Qed.

Lemma lbal_frame t t' : tk_bal t' = tk_bal t -> tk_supply t' = tk_supply t -> forall o, lbal t' o = lbal t o.
Proof. intros Hb Hs [a|]; cbn [lbal]; unfold tbal; congruence. Qed.

Lemma deduct_allowance_lbal t now ow s amt t' :
  deduct_allowance t now ow s amt = Some t' -> forall o, lbal t' o = lbal t o.
Proof.
  intros H. apply deduct_allowance_spec in H. destruct H as (a & _ & _ & _ & _ & D1 & D2 & _).
  apply lbal_frame; assumption.
Qed.

(** ** one lemma per bSei handler: the emitted reward messages and the ledger change *)
Lemma bsei_transfer_mirror w t sender to amt t' out :
  bsei_execute w t sender (CTransfer to amt) = Some (t', out) ->
  exists rc, query_reward_contract w t = Some rc /\
    out = [m_dec rc sender amt; m_inc rc to amt] /\ amt <= tbal t sender /\
    forall o, lbal t' o + dl o sender amt = lbal t o + dl o to amt.
Proof.
  unfold bsei_execute. intros H. bind_inv H as rc Hrc. check_inv H as Hz. bind_inv H as t1 Hm.
  inversion H; subst. exists rc. repeat split.
  - apply tok_move_spec in Hm. tauto.
  - apply tok_move_lbal. exact Hm.
Qed.

Lemma bsei_burn_mirror w t sender amt t' out :
  bsei_execute w t sender (CBurn amt) = Some (t', out) ->
  exists rc, query_reward_contract w t = Some rc /\
    out = [m_dec rc sender amt] /\ amt <= tbal t sender /\
    forall o, lbal t' o + dl o sender amt = lbal t o.
Proof.
  unfold bsei_execute. intros H. bind_inv H as rc Hrc. check_inv H as Hs. check_inv H as Hz.
  bind_inv H as t1 Hb. inversion H; subst. exists rc. repeat split.
  - apply tok_burn_spec in Hb. tauto.
  - apply tok_burn_lbal. exact Hb.
Qed.

Lemma bsei_mint_mirror w t sender to amt t' out :
  bsei_execute w t sender (CMint to amt) = Some (t', out) ->
  exists rc, query_reward_contract w t = Some rc /\
    out = [m_inc rc to amt] /\ forall o, lbal t' o = lbal t o + dl o to amt.
Proof.
  unfold bsei_execute. intros H. bind_inv H as rc Hrc. bind_inv H as t1 Hm.
  inversion H; subst. exists rc. repeat split. eapply tok_mint_lbal. exact Hm.
Qed.

Lemma bsei_send_mirror w t sender c amt hk t' out :
  bsei_execute w t sender (CSend c amt hk) = Some (t', out) ->
  exists rc, query_reward_contract w t = Some rc /\
    out = [m_dec rc sender amt; m_inc rc c amt; m_receive c sender amt hk] /\ amt <= tbal t sender /\
    forall o, lbal t' o + dl o sender amt = lbal t o + dl o c amt.
Proof.
  unfold bsei_execute. intros H. bind_inv H as rc Hrc. check_inv H as Hz. bind_inv H as t1 Hm.
  inversion H; subst. exists rc. repeat split.
  - apply tok_move_spec in Hm. tauto.
  - apply tok_move_lbal. exact Hm.
Qed.

(** allowance-based: the OWNER's balance is lowered, never the spender's *)
Lemma bsei_transfer_from_mirror w t sender ow to amt t' out :
  bsei_execute w t sender (CTransferFrom ow to amt) = Some (t', out) ->
  exists rc, query_reward_contract w t = Some rc /\
    out = [m_dec rc ow amt; m_inc rc to amt] /\ amt <= tbal t ow /\
    forall o, lbal t' o + dl o ow amt = lbal t o + dl o to amt.
Proof.
  unfold bsei_execute. intros H. bind_inv H as rc Hrc. bind_inv H as t1 Hd. bind_inv H as t2 Hm.
  inversion H; subst. exists rc. pose proof (deduct_allowance_lbal _ _ _ _ _ _ Hd) as Hf. repeat split.
  - apply tok_move_spec in Hm. specialize (Hf (Some ow)). cbn [lbal] in Hf. rewrite <- Hf. tauto.
  - intros o. rewrite <- Hf. apply tok_move_lbal. exact Hm.
Qed.

Lemma bsei_burn_from_mirror w t sender ow amt t' out :
  bsei_execute w t sender (CBurnFrom ow amt) = Some (t', out) ->
  exists rc, query_reward_contract w t = Some rc /\
    out = [m_dec rc ow amt; m_check_slashing (tk_hub t)] /\ amt <= tbal t ow /\
    forall o, lbal t' o + dl o ow amt = lbal t o.
Proof.
  unfold bsei_execute. intros H. bind_inv H as rc Hrc. bind_inv H as t1 Hd. bind_inv H as t2 Hb.
  inversion H; subst. exists rc. pose proof (deduct_allowance_lbal _ _ _ _ _ _ Hd) as Hf. repeat split.
  - apply tok_burn_spec in Hb. specialize (Hf (Some ow)). cbn [lbal] in Hf. rewrite <- Hf. tauto.
  - intros o. rewrite <- Hf. apply tok_burn_lbal. exact Hb.
Qed.

Lemma bsei_send_from_mirror w t sender ow c amt hk t' out :
  bsei_execute w t sender (CSendFrom ow c amt hk) = Some (t', out) ->
  exists rc, query_reward_contract w t = Some rc /\
    out = [m_dec rc ow amt; m_inc rc c amt; m_receive c sender amt hk] /\ amt <= tbal t ow /\
    forall o, lbal t' o + dl o ow amt = lbal t o + dl o c amt.
Proof.
  unfold bsei_execute. intros H. bind_inv H as rc Hrc. bind_inv H as t1 Hd. bind_inv H as t2 Hm.
  inversion H; subst. exists rc. pose proof (deduct_allowance_lbal _ _ _ _ _ _ Hd) as Hf. repeat split.
  - apply tok_move_spec in Hm. specialize (Hf (Some ow)). cbn [lbal] in Hf. rewrite <- Hf. tauto.
  - intros o. rewrite <- Hf. apply tok_move_lbal. exact Hm.
Qed.

(** the allowance bookkeeping messages emit nothing and leave the ledger alone *)
Lemma bsei_allow_mirror w t sender m t' out :
  bsei_execute w t sender m = Some (t', out) ->
  match m with CIncAllow _ _ _ | CDecAllow _ _ _ => True | _ => False end ->
  out = [] /\ forall o, lbal t' o = lbal t o.
Proof.
  unfold bsei_execute. intros H Hm. destruct m; try contradiction.
  - bind_inv H as t1 Ha. inversion H; subst. apply tok_inc_allow_frame in Ha.
    destruct Ha as (A1 & A2 & _). split; [reflexivity | apply lbal_frame; assumption].
  - bind_inv H as t1 Ha. inversion H; subst. apply tok_dec_allow_frame in Ha.
    destruct Ha as (A1 & A2 & _). split; [reflexivity | apply lbal_frame; assumption].
Qed.

Definition tag (to : addr) (out : list cmsg) : list (addr * cmsg) := map (fun x => (to, x)) out.

Lemma amt_of_receive inc o c s a hk : amt_of inc o (A_bsei, m_receive c s a hk) = 0.
Proof. apply amt_of_not_reward. intros rm. discriminate. Qed.
Lemma amt_of_check_slashing inc o h : amt_of inc o (A_bsei, m_check_slashing h) = 0.
Proof. apply amt_of_not_reward. intros rm. discriminate. Qed.
Lemma amt_of_m_dec inc o a x : amt_of inc o (A_bsei, m_dec A_reward a x) = if inc then 0 else dl o a x.
Proof. apply amt_of_dec_msg. Qed.
Lemma amt_of_m_inc inc o a x : amt_of inc o (A_bsei, m_inc A_reward a x) = if inc then dl o a x else 0.
Proof. apply amt_of_inc_msg. Qed.

Ltac pend_compute :=
  unfold tag; cbn [map]; rewrite ?pend_cons, ?pend_nil, ?amt_of_m_dec, ?amt_of_m_inc,
    ?amt_of_receive, ?amt_of_check_slashing.

(** every bSei message: the ledger change is exactly what the emitted messages announce *)
Theorem bsei_execute_lag w t sender m t' out :
  bsei_execute w t sender m = Some (t', out) -> query_reward_contract w t = Some A_reward ->
  forall o, lbal t o + pend true o (tag A_bsei out) = lbal t' o + pend false o (tag A_bsei out).
Proof.
  intros H Hq o. destruct m.
  - apply bsei_transfer_mirror in H. destruct H as (rc & Hrc & -> & _ & Hl).
    assert (rc = A_reward) by congruence. subst rc. specialize (Hl o). pend_compute. lia.
  - apply bsei_burn_mirror in H. destruct H as (rc & Hrc & -> & _ & Hl).
    assert (rc = A_reward) by congruence. subst rc. specialize (Hl o). pend_compute. lia.
  - apply bsei_mint_mirror in H. destruct H as (rc & Hrc & -> & Hl).
    assert (rc = A_reward) by congruence. subst rc. specialize (Hl o). pend_compute. lia.
  - apply bsei_send_mirror in H. destruct H as (rc & Hrc & -> & _ & Hl).
    assert (rc = A_reward) by congruence. subst rc. specialize (Hl o). pend_compute. lia.
  - apply bsei_allow_mirror in H; [|exact I]. destruct H as (-> & Hl). rewrite Hl. reflexivity.
  - apply bsei_allow_mirror in H; [|exact I]. destruct H as (-> & Hl). rewrite Hl. reflexivity.
  - apply bsei_transfer_from_mirror in H. destruct H as (rc & Hrc & -> & _ & Hl).
    assert (rc = A_reward) by congruence. subst rc. specialize (Hl o). pend_compute. lia.
  - apply bsei_burn_from_mirror in H. destruct H as (rc & Hrc & -> & _ & Hl).
    assert (rc = A_reward) by congruence. subst rc. specialize (Hl o). pend_compute. lia.
  - apply bsei_send_from_mirror in H. destruct H as (rc & Hrc & -> & _ & Hl).
    assert (rc = A_reward) by congruence. subst rc. specialize (Hl o). pend_compute. lia.
  - unfold bsei_execute in H. discriminate.
Qed.

(** the debit announced first is covered by the debited account's ledger balance *)
Lemma bsei_dec_head w t sender m t' rc a amt more :
  bsei_execute w t sender m = Some (t', m_dec rc a amt :: more) -> amt <= tbal t a.
Proof.
  intros H. unfold m_dec in H. destruct m.
  - apply bsei_transfer_mirror in H. destruct H as (rc0 & _ & E & Hle & _). unfold m_dec in E. inversion E; subst. exact Hle.
  - apply bsei_burn_mirror in H. destruct H as (rc0 & _ & E & Hle & _). unfold m_dec in E. inversion E; subst. exact Hle.
  - apply bsei_mint_mirror in H. destruct H as (rc0 & _ & E & _). unfold m_inc in E. discriminate E.
  - apply bsei_send_mirror in H. destruct H as (rc0 & _ & E & Hle & _). unfold m_dec in E. inversion E; subst. exact Hle.
  - apply bsei_allow_mirror in H; [|exact I]. destruct H as (E & _). discriminate E.
  - apply bsei_allow_mirror in H; [|exact I]. destruct H as (E & _). discriminate E.
  - apply bsei_transfer_from_mirror in H. destruct H as (rc0 & _ & E & Hle & _). unfold m_dec in E. inversion E; subst. exact Hle.
  - apply bsei_burn_from_mirror in H. destruct H as (rc0 & _ & E & Hle & _). unfold m_dec in E. inversion E; subst. exact Hle.
  - apply bsei_send_from_mirror in H. destruct H as (rc0 & _ & E & Hle & _). unfold m_dec in E. inversion E; subst. exact Hle.
  - unfold bsei_execute in H. discriminate.
Qed.

(** ** the reward contract *)
Lemma holder_of_set r a h b :
  holder_of (set_rw_holder r a h) b = if b =? a then h else holder_of r b.
Proof.
  unfold holder_of, set_rw_holder. cbn [rw_holders]. destruct (b =? a) eqn:E.
  - apply N.eqb_eq in E. subst. rewrite (get_set_same eqbA eqbA_eq). reflexivity.
  - apply N.eqb_neq in E. rewrite (get_set_other eqbA eqbA_eq) by exact E. reflexivity.
Qed.

Lemma rbal_set_holder r a h gi tot prev o :
  rbal (set_rw_state (set_rw_holder r a h) gi tot prev) o =
  match o with Some b => if b =? a then ho_bal h else rbal r (Some b) | None => tot end.
Proof.
  destruct o as [b|]; cbn [rbal]; [|reflexivity].
  change (holder_of (set_rw_state (set_rw_holder r a h) gi tot prev) b)
    with (holder_of (set_rw_holder r a h) b).
  rewrite holder_of_set. destruct (b =? a); reflexivity.
Qed.

Lemma rbal_frame r r' : rw_holders r' = rw_holders r -> rw_total r' = rw_total r -> forall o, rbal r' o = rbal r o.
Proof. intros Hh Ht [a|]; cbn [rbal]; unfold holder_of; [rewrite Hh; reflexivity | exact Ht]. Qed.

(** IncreaseBalance / DecreaseBalance: accepted only from the bSei token; change exactly the named
    holder's balance and the total, by exactly [x]; every other message changes no balance *)
Theorem reward_execute_rbal w r self sender rm r' out :
  query_bsei_addr w (rw_hub r) = Some A_bsei ->
  reward_execute w r self sender rm = Some (r', out) ->
  match rm with
  | RInc a x => sender = A_bsei /\ out = [] /\ forall o, rbal r' o = rbal r o + dl o a x
  | RDec a x => sender = A_bsei /\ out = [] /\ x <= rbal r (Some a) /\ x <= rw_total r /\
                forall o, rbal r' o + dl o a x = rbal r o
  | _ => forall o, rbal r' o = rbal r o
  end.
Proof.
  intros Hq H. destruct rm; cbn [reward_execute] in H.
  - bind_inv H as all Hall. bind_inv H as rewards Hrw. bind_inv H as whole Hwh.
    bind_inv H as decimals Hdec. check_inv H as Hnz. bind_inv H as prev Hprev.
    inversion H; subst. intros [b|]; cbn [rbal]; [|reflexivity].
    rewrite holder_of_set. destruct (b =? sender) eqn:E; [|reflexivity].
    apply N.eqb_eq in E. subst b. reflexivity.
  - check_inv H as Hs. inversion H; subst. apply rbal_frame; reflexivity.
  - check_inv H as Hs. inversion H; subst. apply rbal_frame; reflexivity.
  - check_inv H as Hs. inversion H; subst. apply rbal_frame; reflexivity.
  - bind_inv H as dp Hdp. check_inv H as Hs. inversion H; subst. reflexivity.
  - bind_inv H as dp Hdp. check_inv H as Hs.
    destruct (rw_total r =? 0); [inversion H; subst; reflexivity|].
    bind_inv H as claimed Hc. bind_inv H as q Hqq. bind_inv H as gi Hgi. inversion H; subst.
    apply rbal_frame; reflexivity.
  - rewrite Hq in H. cbn [bind] in H. check_inv H as Hs. apply N.eqb_eq in Hs.
    bind_inv H as rewards Hrw. bind_inv H as pd Hpend.
    bind_inv H as b Hb. unfold add128, narrow128 in Hb. check_inv Hb as Hfit. inversion Hb; subst b; clear Hb.
    bind_inv H as tot Htot. unfold add128, narrow128 in Htot. check_inv Htot as Hfit2. inversion Htot; subst tot; clear Htot.
    inversion H; subst r' out. split; [exact Hs|]. split; [reflexivity|].
    intros o. rewrite rbal_set_holder. unfold dl, sel. destruct o as [b|]; [|reflexivity].
    destruct (b =? a) eqn:E; [|lia]. apply N.eqb_eq in E. subst b. reflexivity.
  - rewrite Hq in H. cbn [bind] in H. check_inv H as Hs. apply N.eqb_eq in Hs.
    check_inv H as Hle. apply N.leb_le in Hle.
    bind_inv H as rewards Hrw. bind_inv H as pd Hpend.
    bind_inv H as b Hb. unfold sub128 in Hb. check_inv Hb as Hle1. inversion Hb; subst b; clear Hb.
    bind_inv H as tot Htot. unfold sub128 in Htot. check_inv Htot as Hle2. apply N.leb_le in Hle2.
    inversion Htot; subst tot; clear Htot.
    inversion H; subst r' out. split; [symmetry; exact Hs|]. split; [reflexivity|].
    split; [exact Hle|]. split; [exact Hle2|].
    intros o. rewrite rbal_set_holder. unfold dl, sel. destruct o as [b|]; [|cbn [rbal]; lia].
    destruct (b =? a) eqn:E; [|lia]. apply N.eqb_eq in E. subst b. cbn [ho_bal rbal]. lia.
  - check_inv H as Hs. inversion H; subst. apply rbal_frame; reflexivity.
Qed.

(** ** wiring facts used while a transaction runs *)
Lemma wired_query_bsei w w1 r :
  Wired w -> w_reward w = Some r -> w_hub w1 = w_hub w ->
  query_bsei_addr w1 (rw_hub r) = Some A_bsei.
Proof.
  intros HW Hr E. destruct (Wired_inv _ HW) as (h & r0 & d & g & tb & ts & Hh & Hr0 & _ & _ & _ & _ &
    _ & _ & Wb & _ & _ & Wr & _).
  assert (r0 = r) by congruence. subst r0.
  unfold query_bsei_addr, hub_at. rewrite Wr, N.eqb_refl, E, Hh. cbn [bind].
  exact Wb.
Qed.

Lemma wired_query_reward w w1 t :
  Wired w -> w_bsei w = Some t -> w_hub w1 = w_hub w -> w_disp w1 = w_disp w ->
  query_reward_contract w1 t = Some A_reward.
Proof.
  intros HW Ht E1 E2. destruct (Wired_inv _ HW) as (h & r & d & g & tb & ts & Hh & _ & Hd & _ & Hb & _ &
    Wd & _ & _ & _ & _ & _ & _ & Wrw & _ & _ & Wt & _).
  assert (tb = t) by congruence. subst tb.
  unfold query_reward_contract. rewrite Wt, N.eqb_refl, E1, Hh. cbn [bind].
  rewrite Wd. cbn [bind]. rewrite N.eqb_refl, E2, Hd. cbn [bind]. rewrite Wrw. reflexivity.
Qed.

(** ** the stack invariant *)

(** generic step: what has to be shown about one executed message *)
Lemma Lag_step w w' hd out rest :
  Lag w (hd :: rest) ->
  (forall tb' r', w_bsei w' = Some tb' -> w_reward w' = Some r' ->
     exists tb r, w_bsei w = Some tb /\ w_reward w = Some r /\
       forall o, rbal r' o + pend true o out + amt_of false o hd + lbal tb o =
                 rbal r o + amt_of true o hd + pend false o out + lbal tb' o) ->
  Lag w' (out ++ rest).
Proof.
  intros HL HX tb' r' Hb Hr o. destruct (HX _ _ Hb Hr) as (tb & r & Hb0 & Hr0 & X).
  specialize (HL tb r Hb0 Hr0 o). specialize (X o). rewrite !pend_app. rewrite !pend_cons in HL. lia.
Qed.

Ltac quiet_case HL :=
  eapply Lag_step; [exact HL|];
  let tb' := fresh "tb'" in let r' := fresh "r'" in let Hb' := fresh "Hb'" in let Hr' := fresh "Hr'" in
  let o := fresh "o" in
  intros tb' r' Hb' Hr'; exists tb', r'; split; [exact Hb'|]; split; [exact Hr'|]; intros o;
  rewrite !pend_tag_other by reflexivity; rewrite !amt_of_target_other by reflexivity; lia.

Theorem step_msg_lag w s m rest w' out :
  Wired w -> Lag w ((s, m) :: rest) -> step_msg w s m = Some (w', out) -> Lag w' (out ++ rest).
Proof.
  intros HW HL H. apply step_msg_inv in H.
  destruct H as [e' -> -> Hnw | to wm funds e1 outc -> Hsend Hc ->].
  - eapply Lag_step; [exact HL|]. intros tb' r' Hb' Hr'. exists tb', r'.
    split; [exact Hb'|]. split; [exact Hr'|]. intros o.
    rewrite !amt_of_nonwasm by exact Hnw. rewrite !pend_nil. lia.
  - destruct Hc as [h hm h' -> -> Hw He -> | r rm r' -> Hrm Hw He -> | d dm d' -> -> Hw He ->
                   | g gm g' -> -> Hw He -> | t cm t' -> -> Hw He -> | t cm t' -> -> Hw He ->
                   | sm e' -> -> He -> -> | -> -> ->].
    + quiet_case HL.
    + (* the reward contract *)
      cbn [w_reward set_env] in Hw.
      pose proof (wired_query_bsei w (set_env w e1) r HW Hw eq_refl) as Hq.
      pose proof (reward_execute_rbal _ _ _ _ _ _ _ Hq He) as Hrb.
      eapply Lag_step; [exact HL|]. intros tb' r'' Hb' Hr'.
      cbn [w_bsei w_reward set_reward set_env] in Hb', Hr'. inversion Hr'; subst r''.
      exists tb', r. split; [exact Hb'|]. split; [exact Hw|]. intros o.
      rewrite !pend_tag_other by reflexivity.
      destruct Hrm as [-> | (n & -> & ->)].
      * destruct rm; try (rewrite !amt_of_sender_other by reflexivity || idtac);
          try (rewrite Hrb; unfold amt_of; cbn [fst snd]; destruct (s =? A_bsei); lia).
        -- destruct Hrb as (-> & _ & Hrb). rewrite Hrb, !amt_of_inc_msg. lia.
        -- destruct Hrb as (-> & _ & _ & _ & Hrb). specialize (Hrb o). rewrite !amt_of_dec_msg. lia.
      * rewrite Hrb. rewrite !amt_of_not_reward by (intros rm; discriminate). lia.
    + quiet_case HL.
    + quiet_case HL.
    + (* the bSei token *)
      cbn [w_bsei set_env] in Hw.
      pose proof (wired_query_reward w (set_env w e1) t HW Hw eq_refl eq_refl) as Hq.
      pose proof (bsei_execute_lag _ _ _ _ _ _ He Hq) as Hlag.
      eapply Lag_step; [exact HL|]. intros tb' r' Hb' Hr'.
      cbn [w_bsei w_reward set_bsei set_env] in Hb', Hr'. inversion Hb'; subst tb'.
      exists t, r'. split; [exact Hw|]. split; [exact Hr'|]. intros o.
      rewrite !amt_of_target_other by reflexivity. specialize (Hlag o). unfold tag in Hlag. lia.
    + quiet_case HL.
    + eapply Lag_step; [exact HL|]. intros tb' r' Hb' Hr'. exists tb', r'.
      split; [exact Hb'|]. split; [exact Hr'|]. intros o.
      cbn [map]. rewrite !pend_nil. rewrite !amt_of_target_other by reflexivity. lia.
    + eapply Lag_step; [exact HL|]. intros tb' r' Hb' Hr'. exists tb', r'.
      split; [exact Hb'|]. split; [exact Hr'|]. intros o.
      cbn [map]. rewrite !pend_nil. rewrite !amt_of_target_other by reflexivity. lia.
Qed.

(** the invariant carried through a transaction: wired, no re-wiring message pending, mirror up to
    the pending Increase/DecreaseBalance messages *)
Definition J (w : world) (st : list (addr * cmsg)) : Prop :=
  Wired w /\ Forall plain_s st /\ Lag w st.

Theorem step_msg_J w s m rest w' out :
  J w ((s, m) :: rest) -> step_msg w s m = Some (w', out) -> J w' (out ++ rest).
Proof.
  intros (HW & HP & HL) H. apply Forall_cons_iff in HP. destruct HP as [Hm Hrest].
  split; [|split].
  - eapply step_msg_wired; eauto.
  - apply Forall_app. split; [eapply step_msg_emits_plain; eauto | exact Hrest].
  - eapply step_msg_lag; eauto.
Qed.

(** ** transactions *)
Theorem tx_mirror w sender target m funds w' tr :
  Wired w -> Mirror w -> sender <> A_bsei -> rewire_wasm m = false ->
  run tx_fuel w [(sender, MWasm target m funds)] [] = Some (w', tr) ->
  Mirror w' /\ Wired w'.
Proof.
  intros HW HM Hs Hm H.
  assert (HJ : J w' []).
  { eapply (run_preserves_stack J); [|
      |exact H].
    - intros x s0 m0 rest x' out. apply step_msg_J.
    - split; [exact HW|]. split; [constructor; [exact Hm|constructor]|].
      apply Mirror_Lag in HM. intros tb r Hb Hr o. specialize (HM tb r Hb Hr o).
      rewrite !pend_cons, !pend_nil in *.
      rewrite !amt_of_sender_other by (apply N.eqb_neq; exact Hs). lia. }
  destruct HJ as (HW' & _ & HL). split; [apply Mirror_Lag; exact HL | exact HW'].
Qed.

(** a world [w'] whose two ledgers are those of [w] *)
Definition SameLedgers (w w' : world) : Prop :=
  w_bsei w' = w_bsei w /\
  match w_reward w', w_reward w with
  | Some r', Some r => forall o, rbal r' o = rbal r o
  | None, None => True
  | _, _ => False
  end.

Lemma SameLedgers_refl w : SameLedgers w w.
Proof. split; [reflexivity|]. destruct (w_reward w); auto. Qed.

Lemma SameLedgers_mirror w w' : SameLedgers w w' -> Mirror w -> Mirror w'.
Proof.
  intros [Hb Hr] HM. apply Mirror_Lag. apply Mirror_Lag in HM.
  intros tb r' Hb' Hr' o. rewrite Hr' in Hr. destruct (w_reward w) as [r|] eqn:Er; [|contradiction].
  rewrite Hb in Hb'. rewrite Hr. apply HM; auto.
Qed.

Definition nonwasm_s (sm : addr * cmsg) : Prop := forall to wm f, snd sm <> MWasm to wm f.

(** the root call of a re-wiring message: ledgers untouched, nothing but SetWithdrawAddress emitted *)
Lemma rewire_call w sender target m funds w' out :
  rewire_wasm m = true -> call_effect w sender target m funds w' out ->
  SameLedgers w w' /\ Forall (fun x => forall to wm f, x <> MWasm to wm f) out.
Proof.
  intros Hm Hc.
  destruct Hc as [h hm h' -> -> Hw He -> | r rm r' -> Hrm Hw He -> | d dm d' -> -> Hw He ->
                 | g gm g' -> -> Hw He -> | t cm t' -> -> Hw He -> | t cm t' -> -> Hw He ->
                 | sm e' -> -> He -> -> | -> -> ->]; try discriminate Hm.
  - destruct hm; try discriminate Hm. unfold hub_execute in He. check_inv He as Hp.
    apply execute_update_config_out in He. subst out. split.
    + split; [reflexivity|]. cbn [w_reward set_hub]. destruct (w_reward w); auto.
    + destruct disp; repeat constructor; congruence.
  - destruct Hrm as [-> | (n & -> & ->)]; [|discriminate Hm].
    destruct rm; try discriminate Hm. cbn [reward_execute] in He. check_inv He as Hs.
    inversion He; subst. split; [|constructor].
    split; [reflexivity|]. cbn [w_reward set_reward]. rewrite Hw. apply rbal_frame; reflexivity.
  - destruct dm; try discriminate Hm. cbn [disp_execute] in He.
    check_inv He as Hs. check_inv He as Hstd. check_inv He as Hrate. inversion He; subst.
    split; [|constructor]. split; [reflexivity|]. cbn [w_reward set_disp]. destruct (w_reward w); auto.
  - destruct gm; try discriminate Hm. cbn [reg_execute] in He. check_inv He as Hs. inversion He; subst.
    split; [|constructor]. split; [reflexivity|]. cbn [w_reward set_reg]. destruct (w_reward w); auto.
  - split; [apply SameLedgers_refl | constructor].
Qed.

Theorem tx_mirror_rewire w sender target m funds w' tr :
  rewire_wasm m = true ->
  run tx_fuel w [(sender, MWasm target m funds)] [] = Some (w', tr) -> SameLedgers w w'.
Proof.
  intros Hm H.
  pose (K := fun (x : world) (st : list (addr * cmsg)) =>
               (x = w /\ st = [(sender, MWasm target m funds)]) \/
               (SameLedgers w x /\ Forall nonwasm_s st)).
  assert (HK : K w' []).
  { eapply (run_preserves_stack K); [| left; split; reflexivity | exact H].
    intros x s0 m0 rest x' out HKx Hstep. right.
    destruct HKx as [[-> E] | [HS HF]].
    - inversion E; subst. apply step_msg_inv in Hstep.
      destruct Hstep as [e' -> -> Hnw | to wm f e1 o E2 Hsend Hc ->].
      + exfalso. eapply Hnw. reflexivity.
      + inversion E2; subst. apply rewire_call in Hc; [|exact Hm]. destruct Hc as [HS HF].
        split; [exact HS|]. rewrite app_nil_r. apply Forall_map. exact HF.
    - apply Forall_cons_iff in HF. destruct HF as [Hhd Hrest]. apply step_msg_inv in Hstep.
      destruct Hstep as [e' -> -> Hnw | to wm f e1 o -> Hsend Hc ->].
      + split; [exact HS | exact Hrest].
      + exfalso. eapply Hhd. reflexivity. }
  destruct HK as [[_ E] | [HS _]]; [discriminate E | exact HS].
Qed.

(** ** histories *)

(** operations under which the mirror is claimed:
    - the root sender of a transaction is not the bSei contract address itself (a contract cannot
      sign transactions; see [mirror_refuted_by_bsei_sender]);
    - the bSei token and the reward contract are not instantiated again once the history started
      (both would reset one ledger while the other keeps its balances; see
      [mirror_refuted_by_reward_reinstantiate]). *)
Definition mirror_ok_op (o : op) : Prop :=
  match o with
  | OTx sender _ _ _ => sender <> A_bsei
  | OInstBsei _ _ _ | OInstReward _ _ _ _ _ => False
  | _ => True
  end.

Lemma Mirror_same w w' : w_bsei w' = w_bsei w -> w_reward w' = w_reward w -> Mirror w -> Mirror w'.
Proof. unfold Mirror. intros -> ->. auto. Qed.

Theorem step_mirror w o : Wired w -> mirror_ok_op o -> Mirror w -> Mirror (fst (step w o)).
Proof.
  intros HW Hok HM. destruct o; cbn [step]; cbn [mirror_ok_op] in Hok; try contradiction;
    try (cbn [fst]; apply (Mirror_same w); [reflexivity|reflexivity|exact HM]).
  - intros tb r E. discriminate E.
  - destruct (e_now (w_env w) + dt <=? 18446744073); exact HM.
  - destruct (ev_slash _ _ _ _ _); exact HM.
  - destruct (ev_accrue _ _ _ _ _); exact HM.
  - destruct (p =? 0); exact HM.
  - destruct (w_hub w); exact HM.
  - destruct (run tx_fuel w _ []) as [[w1 tr1]|] eqn:E; cbn [fst]; [|exact HM].
    destruct (rewire_wasm m) eqn:Hm.
    + eapply SameLedgers_mirror; [|exact HM]. eapply tx_mirror_rewire; eauto.
    + eapply tx_mirror; eauto.
Qed.

(** C16 along histories: wiring maintained ([always Wired], envelope E4) ⇒ mirrored in EVERY
    visited world *)
Theorem always_mirror : forall ops w0,
  always Wired ops w0 -> Forall mirror_ok_op ops -> Mirror w0 -> always Mirror ops w0.
Proof.
  induction ops as [|o ops IH]; intros w0 HA HF HM; cbn [always] in *; [tauto|].
  destruct HA as [HW HA]. apply Forall_cons_iff in HF. destruct HF as [Ho HF].
  split; [exact HM|]. apply IH; [exact HA | exact HF |]. apply step_mirror; assumption.
Qed.

Lemma always_final E : forall ops w0, always E ops w0 -> E (run_ops ops w0).
Proof.
  unfold run_ops. induction ops as [|o ops IH]; intros w0 HA; cbn [fold_left always] in *; [tauto|].
  apply IH. tauto.
Qed.

Theorem mirror_final ops w0 :
  always Wired ops w0 -> Forall mirror_ok_op ops -> Mirror w0 -> Mirror (run_ops ops w0).
Proof. intros HA HF HM. apply always_final. apply always_mirror; assumption. Qed.

(** *** the starting point: a token instantiated without initial balances *)
Definition FreshLedgers (w : world) : Prop :=
  (forall tb, w_bsei w = Some tb -> tk_bal tb = [] /\ tk_supply tb = 0) /\
  (forall r, w_reward w = Some r -> rw_holders r = [] /\ rw_total r = 0).

Theorem Fresh_Mirror w : FreshLedgers w -> Mirror w.
Proof.
  intros [Hb Hr] tb r Etb Er. destruct (Hb tb Etb) as [B1 B2]. destruct (Hr r Er) as [R1 R2].
  split; [|congruence]. intros a. unfold holder_of, tbal, getN. rewrite B1, R1. reflexivity.
Qed.

Lemma inst_bsei_fresh hubaddr t : tok_instantiate false hubaddr 0 [] = Some t -> tk_bal t = [] /\ tk_supply t = 0.
Proof. cbn. intros H. inversion H; subst. split; reflexivity. Qed.

Lemma inst_reward_fresh sender hubaddr d swap denoms :
  rw_holders (reward_instantiate sender hubaddr d swap denoms) = [] /\
  rw_total (reward_instantiate sender hubaddr d swap denoms) = 0.
Proof. split; reflexivity. Qed.

(** instantiating the bSei token without initial balances next to a reward contract without holders
    (or the reward contract next to an empty token) gives fresh ledgers *)
Lemma step_inst_bsei_fresh w sender hubaddr :
  (forall r, w_reward w = Some r -> rw_holders r = [] /\ rw_total r = 0) ->
  FreshLedgers (fst (step w (OInstBsei sender hubaddr []))).
Proof.
  intros Hr. cbn [step fst]. split; cbn [w_bsei w_reward set_w_bsei]; [|exact Hr].
  intros tb E. eapply inst_bsei_fresh. exact E.
Qed.

Lemma step_inst_reward_fresh w sender hubaddr d swap denoms :
  (forall tb, w_bsei w = Some tb -> tk_bal tb = [] /\ tk_supply tb = 0) ->
  FreshLedgers (fst (step w (OInstReward sender hubaddr d swap denoms))).
Proof.
  intros Hb. cbn [step fst]. split; cbn [w_bsei w_reward set_w_reward]; [exact Hb|].
  intros r E. inversion E; subst. apply inst_reward_fresh.
Qed.

(** C16 from genesis: any setup history that ends with fresh ledgers, followed by any history that
    keeps the wiring *)
Theorem mirror_from_fresh ut setup ops :
  let w1 := run_ops setup (empty_world ut) in
  FreshLedgers w1 -> always Wired ops w1 -> Forall mirror_ok_op ops -> always Mirror ops w1.
Proof. intros w1 HF HA Hok. apply always_mirror; [exact HA | exact Hok | apply Fresh_Mirror; exact HF]. Qed.

(** *** variant with purely syntactic hypotheses on the history: no instantiate / reset operations
    and no re-wiring root messages — then the wiring is preserved too *)
Definition plain_op (o : op) : Prop :=
  match o with
  | OTx sender _ m _ => sender <> A_bsei /\ rewire_wasm m = false
  | OReset _ | OInstHub _ _ _ _ _ _ _ _ | OInstReward _ _ _ _ _ | OInstDisp _ _ _ _ _ _ _ _ _ _
  | OInstReg _ _ _ | OInstBsei _ _ _ | OInstStsei _ _ _ _ => False
  | _ => True
  end.

Lemma plain_op_ok o : plain_op o -> mirror_ok_op o.
Proof. destruct o; cbn; tauto. Qed.

Lemma step_wired_plain w o : Wired w -> plain_op o -> Wired (fst (step w o)).
Proof.
  intros HW Hok. destruct o; cbn [step]; cbn [plain_op] in Hok; try contradiction;
    try (cbn [fst]; exact HW).
  - destruct (e_now (w_env w) + dt <=? 18446744073); exact HW.
  - destruct (ev_slash _ _ _ _ _); exact HW.
  - destruct (ev_accrue _ _ _ _ _); exact HW.
  - destruct (p =? 0); exact HW.
  - destruct (w_hub w) as [h|] eqn:Hh; [|exact HW]. cbn [fst].
    eapply Wired_wdata; [|exact HW]. unfold wdata. cbn [w_hub w_reward w_disp w_reg w_bsei w_stsei set_hub].
    rewrite Hh. reflexivity.
  - destruct (run tx_fuel w _ []) as [[w1 tr1]|] eqn:E; cbn [fst]; [|exact HW].
    destruct Hok as [_ Hm]. eapply Wired_wdata; [|exact HW]. eapply tx_wdata; eauto.
Qed.

Theorem mirror_plain_history : forall ops w0,
  Wired w0 -> Mirror w0 -> Forall plain_op ops -> always (fun w => Wired w /\ Mirror w) ops w0.
Proof.
  induction ops as [|o ops IH]; intros w0 HW HM HF; cbn [always]; [tauto|].
  apply Forall_cons_iff in HF. destruct HF as [Ho HF]. split; [tauto|].
  apply IH; [apply step_wired_plain; assumption | | exact HF].
  apply step_mirror; [exact HW | apply plain_op_ok; exact Ho | exact HM].
Qed.

(** *** one statement from genesis.  Envelope along the history ([MirrorEnv]): in every visited
    world either both ledgers are still empty or the wiring is complete (no bSei balance exists
    while the contracts are not wired).  Operations ([ops_ok]): root senders are not the bSei
    contract address, and every (re-)instantiation of the bSei token or of the reward contract
    leaves both ledgers empty (token without initial balances, reward contract without holders). *)
Definition MirrorEnv (w : world) : Prop := FreshLedgers w \/ Wired w.

Definition inst_ok (w : world) (o : op) : Prop :=
  match o with
  | OTx sender _ _ _ => sender <> A_bsei
  | OInstBsei _ _ _ | OInstReward _ _ _ _ _ => FreshLedgers (fst (step w o))
  | _ => True
  end.

Fixpoint ops_ok (ops : list op) (w : world) : Prop :=
  match ops with [] => True | o :: r => inst_ok w o /\ ops_ok r (fst (step w o)) end.

Lemma Mirror_empty ut : Mirror (empty_world ut).
Proof. intros tb r E. discriminate E. Qed.

Theorem step_mirror_env w o :
  MirrorEnv (fst (step w o)) -> inst_ok w o -> Mirror w -> Mirror (fst (step w o)).
Proof.
  intros [HF|HW'] Hok HM; [apply Fresh_Mirror; exact HF|].
  destruct o; cbn [inst_ok] in Hok; try (apply Fresh_Mirror; exact Hok);
    try (cbn [step fst]; apply (Mirror_same w); [reflexivity|reflexivity|exact HM]).
  - apply Mirror_empty.
  - cbn [step]. destruct (e_now (w_env w) + dt <=? 18446744073); exact HM.
  - cbn [step]. destruct (ev_slash _ _ _ _ _); exact HM.
  - cbn [step]. destruct (ev_accrue _ _ _ _ _); exact HM.
  - cbn [step]. destruct (p =? 0); exact HM.
  - cbn [step]. destruct (w_hub w); exact HM.
  - cbn [step] in *. destruct (run tx_fuel w _ []) as [[w1 tr1]|] eqn:E; cbn [fst] in *; [|exact HM].
    destruct (rewire_wasm m) eqn:Hm.
    + eapply SameLedgers_mirror; [|exact HM]. eapply tx_mirror_rewire; eauto.
    + assert (HW : Wired w).
      { eapply Wired_wdata; [|exact HW']. symmetry. eapply tx_wdata; eauto. }
      eapply tx_mirror; eauto.
Qed.

Theorem mirror_genesis_gen : forall ops w0,
  always MirrorEnv ops w0 -> ops_ok ops w0 -> Mirror w0 -> always Mirror ops w0.
Proof.
  induction ops as [|o ops IH]; intros w0 HA Hok HM; cbn [always ops_ok] in *; [tauto|].
  destruct HA as [_ HA]. destruct Hok as [Ho Hok]. split; [exact HM|].
  apply IH; [exact HA | exact Hok |].
  apply step_mirror_env; [eapply always_head; exact HA | exact Ho | exact HM].
Qed.

(** C16: every history from the empty chain *)
Theorem mirror_genesis ut ops :
  always MirrorEnv ops (empty_world ut) -> ops_ok ops (empty_world ut) ->
  always Mirror ops (empty_world ut).
Proof. intros HA Hok. apply mirror_genesis_gen; [exact HA | exact Hok | apply Mirror_empty]. Qed.

(** ** when is the mirror exact inside a transaction?
    The pending Increase/DecreaseBalance messages always sit on TOP of the stack (they are the first
    messages a bSei handler emits and they emit nothing themselves), so the mirror is exact whenever
    any other message — in particular the hub's Receive hook and the Burn it emits — starts executing. *)
Definition quiet_s (sm : addr * cmsg) : Prop := forall inc o, amt_of inc o sm = 0.
Definition mirror_msg (sm : addr * cmsg) : Prop :=
  exists a x f, sm = (A_bsei, MWasm A_reward (WReward (RInc a x)) f) \/
                sm = (A_bsei, MWasm A_reward (WReward (RDec a x)) f).
Definition Prefixed (st : list (addr * cmsg)) : Prop :=
  exists pre rest, st = pre ++ rest /\ Forall mirror_msg pre /\ Forall quiet_s rest.

Lemma quiet_pend inc o st : Forall quiet_s st -> pend inc o st = 0.
Proof.
  induction 1 as [|x st Hx _ IH]; [reflexivity|]. rewrite pend_cons, IH, Hx. reflexivity.
Qed.

Lemma tag_other_quiet to out : (to =? A_bsei) = false -> Forall quiet_s (map (fun x => (to, x)) out).
Proof.
  intros H. apply Forall_map. apply Forall_forall. intros x _ inc o. apply amt_of_sender_other. exact H.
Qed.

Lemma Prefixed_quiet st : Forall quiet_s st -> Prefixed st.
Proof. intros H. exists [], st. split; [reflexivity|]. split; [constructor | exact H]. Qed.

Lemma Prefixed_cons sm st : mirror_msg sm -> Prefixed st -> Prefixed (sm :: st).
Proof.
  intros Hm (pre & rest & -> & Hp & Hr). exists (sm :: pre), rest.
  split; [reflexivity|]. split; [constructor; assumption | exact Hr].
Qed.

Lemma mirror_msg_dec a x : mirror_msg (A_bsei, m_dec A_reward a x).
Proof. exists a, x, []. right. reflexivity. Qed.
Lemma mirror_msg_inc a x : mirror_msg (A_bsei, m_inc A_reward a x).
Proof. exists a, x, []. left. reflexivity. Qed.
Lemma quiet_receive c s a hk : quiet_s (A_bsei, m_receive c s a hk).
Proof. intros inc o. apply amt_of_receive. Qed.
Lemma quiet_check_slashing h : quiet_s (A_bsei, m_check_slashing h).
Proof. intros inc o. apply amt_of_check_slashing. Qed.

(** what the bSei token emits: mirror messages first, then at most one quiet message *)
Lemma bsei_out_prefixed w t sender m t' out rest :
  bsei_execute w t sender m = Some (t', out) -> query_reward_contract w t = Some A_reward ->
  Forall quiet_s rest -> Prefixed (tag A_bsei out ++ rest).
Proof.
  intros H Hq Hr. apply bsei_execute_out in H. unfold tag.
  destruct m; try contradiction; try (subst out; apply Prefixed_quiet; exact Hr);
    destruct H as (rc & Hrc & ->); assert (rc = A_reward) by congruence; subst rc; cbn [map app];
    repeat first [ apply Prefixed_cons; [first [apply mirror_msg_dec | apply mirror_msg_inc]|]
                 | apply Prefixed_quiet; repeat (constructor; [first [apply quiet_receive | apply quiet_check_slashing]|]); exact Hr ].
Qed.

Theorem step_msg_prefixed w s m rest w' out :
  Wired w -> Prefixed ((s, m) :: rest) -> step_msg w s m = Some (w', out) -> Prefixed (out ++ rest).
Proof.
  intros HW (pre & rest0 & E & Hp & Hr) H.
  destruct pre as [|hd pre].
  - (* a quiet message executes: only the bSei token can emit mirror messages *)
    cbn [app] in E. subst rest0. apply Forall_cons_iff in Hr. destruct Hr as [_ Hr].
    apply step_msg_inv in H.
    destruct H as [e' -> -> Hnw | to wm funds e1 outc -> Hsend Hc ->]; [apply Prefixed_quiet; exact Hr|].
    destruct Hc as [h hm h' -> -> Hw He -> | r rm r' -> Hrm Hw He -> | d dm d' -> -> Hw He ->
                   | g gm g' -> -> Hw He -> | t cm t' -> -> Hw He -> | t cm t' -> -> Hw He ->
                   | sm e' -> -> He -> -> | -> -> ->];
      try (apply Prefixed_quiet; apply Forall_app; split; [apply tag_other_quiet; reflexivity | exact Hr]).
    cbn [w_bsei set_env] in Hw.
    eapply bsei_out_prefixed; [exact He | | exact Hr].
    apply (wired_query_reward w); auto.
  - (* a mirror message executes: the reward contract emits nothing *)
    cbn [app] in E. inversion E; subst hd rest. apply Forall_cons_iff in Hp. destruct Hp as [Hm Hp].
    assert (Hout : out = []).
    { destruct Hm as (a & x & f & [Em | Em]); inversion Em; subst s m; clear Em;
        apply step_msg_inv in H;
        (destruct H as [e' _ -> _ | to wm funds e1 outc E2 Hsend Hc ->]; [reflexivity|]);
        inversion E2; subst to wm funds; clear E2;
        (destruct Hc as [h hm h' Et _ _ _ _ | r rm r' _ Hrm Hw He _ | d dm d' Et _ _ _ _
                       | g gm g' Et _ _ _ _ | t cm t' Et _ _ _ _ | t cm t' Et _ _ _ _
                       | sm e' Et _ _ _ _ | Et _ _]; try discriminate Et);
        cbn [w_reward set_env] in Hw;
        pose proof (wired_query_bsei w (set_env w e1) r HW Hw eq_refl) as Hq;
        pose proof (reward_execute_rbal _ _ _ _ _ _ _ Hq He) as Hrb;
        (destruct Hrm as [Erm | (n & Erm & _)]; [|discriminate Erm]); inversion Erm; subst rm.
      - destruct Hrb as (_ & -> & _). reflexivity.
      - destruct Hrb as (_ & -> & _). reflexivity. }
    subst out. cbn [app]. exists pre, rest0. split; [reflexivity|]. split; assumption.
Qed.

(** the full transaction invariant and its two consequences *)
Definition J2 (w : world) (st : list (addr * cmsg)) : Prop := J w st /\ Prefixed st.

Theorem step_msg_J2 w s m rest w' out :
  J2 w ((s, m) :: rest) -> step_msg w s m = Some (w', out) -> J2 w' (out ++ rest).
Proof.
  intros [HJ HP] H. split; [eapply step_msg_J; eauto|].
  eapply step_msg_prefixed; eauto. exact (proj1 HJ).
Qed.

Lemma J2_root w sender target m funds :
  Wired w -> Mirror w -> sender <> A_bsei -> rewire_wasm m = false ->
  J2 w [(sender, MWasm target m funds)].
Proof.
  intros HW HM Hs Hm.
  assert (Hq : quiet_s (sender, MWasm target m funds)).
  { intros inc o. apply amt_of_sender_other. apply N.eqb_neq. exact Hs. }
  split; [|apply Prefixed_quiet; constructor; [exact Hq|constructor]].
  split; [exact HW|]. split; [constructor; [exact Hm|constructor]|].
  apply Mirror_Lag in HM. intros tb r Hb Hr o. specialize (HM tb r Hb Hr o).
  rewrite !pend_cons, !pend_nil in *. rewrite !Hq. lia.
Qed.

(** exact form: the mirror holds as soon as no pending mirror message is left on the stack *)
Theorem J_quiet_stack_mirror w st : J w st -> Forall quiet_s st -> Mirror w.
Proof.
  intros (_ & _ & HL) Hq. apply Mirror_Lag. intros tb r Hb Hr o. specialize (HL tb r Hb Hr o).
  rewrite !quiet_pend in HL by exact Hq. rewrite !pend_nil. exact HL.
Qed.

(** and the stack is of that form whenever its head is not itself a pending Increase/DecreaseBalance
    (e.g. when the hub's Receive hook, or the Burn it emits during unbond / convert, starts executing) *)
Theorem J2_head_mirror w hd rest :
  J2 w (hd :: rest) -> ~ mirror_msg hd -> Mirror w.
Proof.
  intros [HJ (pre & rest0 & E & Hp & Hr)] Hn. eapply J_quiet_stack_mirror; [exact HJ|].
  destruct pre as [|p pre].
  - cbn [app] in E. subst rest0. exact Hr.
  - cbn [app] in E. inversion E; subst p. apply Forall_cons_iff in Hp. tauto.
Qed.

(** ** corollary: DecreaseBalance cannot fail after the ledger accepted the debit *)

(** arithmetic guard: the holder's accrued reward ((gi - idx) * balance + pending) is representable *)
Definition AccrualFits (r : reward) (a : addr) : Prop := exists x, accrued_atomics r a = Some x.

Lemma AccrualFits_bound r a :
  ho_idx (holder_of r a) <= rw_gi r ->
  ho_bal (holder_of r a) * D <= U128MAX ->
  (rw_gi r - ho_idx (holder_of r a)) * ho_bal (holder_of r a) + ho_pend (holder_of r a) <= U128MAX ->
  AccrualFits r a.
Proof.
  intros H1 H2 H3. unfold AccrualFits, accrued_atomics, decimal_rewards, ratio, dec_sub_256,
    dec_mul_256, dec_add_256, narrow128, fits128.
  set (h := holder_of r a) in *.
  change (1 =? 0) with false. cbv iota. rewrite N.div_1_r.
  assert (E1 : (ho_bal h * D <=? U128MAX) = true) by (apply N.leb_le; exact H2).
  rewrite E1. cbn [bind].
  assert (E2 : (ho_idx h <=? rw_gi r) = true) by (apply N.leb_le; exact H1).
  rewrite E2. cbn [bind].
  rewrite N.mul_assoc, N.div_mul by exact D_nz.
  assert (E3 : ((rw_gi r - ho_idx h) * ho_bal h <=? U128MAX) = true) by (apply N.leb_le; lia).
  rewrite E3. cbn [bind].
  assert (E4 : ((rw_gi r - ho_idx h) * ho_bal h + ho_pend h <=? U128MAX) = true) by (apply N.leb_le; exact H3).
  rewrite E4. eauto.
Qed.

Lemma reward_dec_succeeds w r self a amt :
  query_bsei_addr w (rw_hub r) = Some A_bsei ->
  amt <= ho_bal (holder_of r a) -> amt <= rw_total r -> AccrualFits r a ->
  exists r', reward_execute w r self A_bsei (RDec a amt) = Some (r', []).
Proof.
  intros Hq L1 L2 [x Hx]. cbn [reward_execute]. rewrite Hq. cbn [bind]. rewrite N.eqb_refl.
  assert (E1 : (amt <=? ho_bal (holder_of r a)) = true) by (apply N.leb_le; exact L1). rewrite E1.
  unfold accrued_atomics in Hx. bind_inv Hx as rwd Hrwd. cbn [bind]. rewrite Hx. cbn [bind].
  unfold sub128. rewrite E1. cbn [bind].
  assert (E2 : (amt <=? rw_total r) = true) by (apply N.leb_le; exact L2). rewrite E2. cbn [bind].
  eauto.
Qed.

(** Under [Wired] and [Mirror], once the bSei ledger has accepted an operation that debits [amt]
    from [a] (so it announces [DecreaseBalance a amt] first), executing that message in the
    resulting world succeeds and lowers exactly [a]'s mirrored balance and the total by [amt]. *)
Theorem dec_after_debit_succeeds w t sender cm t' a amt more r :
  Wired w -> Mirror w -> w_bsei w = Some t -> w_reward w = Some r -> TInv t ->
  bsei_execute w t sender cm = Some (t', m_dec A_reward a amt :: more) ->
  AccrualFits r a ->
  exists r', step_msg (set_bsei w t') A_bsei (m_dec A_reward a amt)
             = Some (set_reward (set_bsei w t') r', []) /\
             forall o, rbal r' o + dl o a amt = rbal r o.
Proof.
  intros HW HM Hb Hr HT He HA.
  pose proof (bsei_dec_head _ _ _ _ _ _ _ _ _ He) as Hle.
  destruct (HM t r Hb Hr) as [M1 M2].
  assert (L1 : amt <= ho_bal (holder_of r a)) by (rewrite M1; exact Hle).
  assert (L2 : amt <= rw_total r).
  { rewrite M2. unfold TInv in HT. rewrite <- HT. pose proof (tbal_le_sum t a). lia. }
  assert (Hq : query_bsei_addr (set_bsei w t') (rw_hub r) = Some A_bsei)
    by (apply (wired_query_bsei w); auto).
  destruct (reward_dec_succeeds (set_bsei w t') r A_reward a amt Hq L1 L2 HA) as [r' Hr'].
  exists r'. split.
  - unfold step_msg, m_dec. cbn [send_coins foldM bind]. unfold call.
    change (A_reward =? A_hub) with false. change (A_reward =? A_reward) with true. cbv iota.
    cbn [bind w_reward set_env set_bsei w_hub w_disp w_reg w_bsei w_stsei w_env].
    rewrite Hr. cbn [bind]. change (set_env (set_bsei w t') (w_env w)) with (set_bsei w t').
    rewrite Hr'. cbn [bind fst snd map]. reflexivity.
  - pose proof (reward_execute_rbal _ _ _ _ _ _ _ Hq Hr') as (_ & _ & _ & _ & Hrb). exact Hrb.
Qed.

(** ** concrete worlds: non-vacuity and necessity of the excluded classes *)
Definition ex_owner : addr := 10.
Definition ex_alice : addr := 11.
Definition ex_bob : addr := 12.

(** deployment: the six contracts, bSei WITHOUT initial balances, wiring through hub UpdateConfig *)
Definition ex_setup : list op :=
  [ OInstHub ex_owner 30 100 0 D ex_owner usei uusd;
    OInstReward ex_owner A_hub uusd A_swap [uatom];
    OInstDisp ex_owner A_hub A_reward usei uusd ex_owner 0 A_swap A_oracle [usei; uusd];
    OInstReg ex_owner A_hub [0; 1];
    OInstBsei ex_owner A_hub [];
    OInstStsei ex_owner A_hub 2 [];
    OTx ex_owner A_hub (WHub (HConfig (Some A_disp) (Some A_reg) (Some A_bsei) (Some A_stsei) None None None)) [] ].

(** a bond (hub mints), a transfer, an unbond through Send (hub burns inside the Receive hook),
    an allowance and a TransferFrom by the spender *)
Definition ex_acts : list op :=
  [ OGift ex_alice usei 1000;
    OTx ex_alice A_hub (WHub HBond) [(usei, 1000)];
    OTx ex_alice A_bsei (WCw20 (CTransfer ex_bob 300)) [];
    OTx ex_alice A_bsei (WCw20 (CSend A_hub 200 HkUnbond)) [];
    OTx ex_alice A_bsei (WCw20 (CIncAllow ex_bob 50 None)) [];
    OTx ex_bob A_bsei (WCw20 (CTransferFrom ex_alice ex_bob 50)) [] ].

(** the reached worlds, in normal form *)
Definition ex_w1 : world := Eval vm_compute in run_ops ex_setup (empty_world 50).
Definition ex_w2 : world := Eval vm_compute in run_ops ex_acts ex_w1.

Lemma ex_w1_eq : run_ops ex_setup (empty_world 50) = ex_w1.
Proof. vm_compute. reflexivity. Qed.
Lemma ex_w2_eq : run_ops ex_acts ex_w1 = ex_w2.
Proof. vm_compute. reflexivity. Qed.

Lemma ex_w1_fresh : FreshLedgers ex_w1.
Proof.
  split.
  - intros tb E. vm_compute in E. inversion E; subst. split; reflexivity.
  - intros r E. vm_compute in E. inversion E; subst. split; reflexivity.
Qed.

Lemma ex_always_wired : always Wired ex_acts ex_w1.
Proof. vm_compute. repeat split. Qed.

Lemma ex_acts_ok : Forall mirror_ok_op ex_acts.
Proof. repeat constructor; discriminate. Qed.

(** the hypotheses of [mirror_from_fresh] are satisfiable by a history that really moves balances *)
Example example_mirror_nonvacuous :
  Wired ex_w2 /\ Mirror ex_w2 /\
  exists tb r, w_bsei ex_w2 = Some tb /\ w_reward ex_w2 = Some r /\
    tbal tb ex_alice = 450 /\ tbal tb ex_bob = 350 /\ tk_supply tb = 800 /\
    ho_bal (holder_of r ex_alice) = 450 /\ ho_bal (holder_of r ex_bob) = 350 /\ rw_total r = 800.
Proof.
  split; [|split].
  - vm_compute. repeat split.
  - pose proof (mirror_from_fresh 50 ex_setup ex_acts) as H. cbv zeta in H.
    rewrite ex_w1_eq in H. specialize (H ex_w1_fresh ex_always_wired ex_acts_ok).
    apply always_final in H. rewrite ex_w2_eq in H. exact H.
  - vm_compute. do 2 eexists. repeat split.
Qed.

(** the hypotheses of [mirror_genesis] are satisfiable by the same history, from the empty chain *)
Lemma ex_genesis_env : always MirrorEnv (ex_setup ++ ex_acts) (empty_world 50).
Proof.
  vm_compute.
  repeat match goal with
         | |- _ /\ _ => split
         | |- True => exact I
         | |- _ \/ _ =>
             first [ solve [ left; split; intros x E; first [discriminate E | inversion E; subst; split; reflexivity] ]
                   | solve [ right; repeat split ] ]
         end.
Qed.

Lemma ex_genesis_ok : ops_ok (ex_setup ++ ex_acts) (empty_world 50).
Proof.
  vm_compute.
  repeat match goal with
         | |- _ /\ _ => split
         | |- True => exact I
         | |- _ <> _ => discriminate
         | |- _ = _ -> False => discriminate
         | |- forall x, _ = Some x -> _ =>
             intros x E; first [discriminate E | inversion E; subst; split; reflexivity]
         end.
Qed.

Example example_genesis_nonvacuous : Mirror (run_ops (ex_setup ++ ex_acts) (empty_world 50)).
Proof. apply always_final. apply mirror_genesis; [exact ex_genesis_env | exact ex_genesis_ok]. Qed.

(** the hypotheses of [dec_after_debit_succeeds] are satisfiable (with [Wired ex_w2], [Mirror ex_w2]
    from [example_mirror_nonvacuous]): alice transfers 100 to bob in [ex_w2] *)
Example example_dec_nonvacuous :
  forall t r, w_bsei ex_w2 = Some t -> w_reward ex_w2 = Some r ->
    TInv t /\ AccrualFits r ex_alice /\
    exists t' more,
      bsei_execute ex_w2 t ex_alice (CTransfer ex_bob 100) = Some (t', m_dec A_reward ex_alice 100 :: more).
Proof.
  intros t r Et Er. vm_compute in Et, Er. inversion Et; inversion Er; subst t r; clear Et Er.
  split; [vm_compute; reflexivity|]. split; [eexists; vm_compute; reflexivity|].
  vm_compute. do 2 eexists. reflexivity.
Qed.

(** *** necessity of the excluded classes (each is outside the real chain's behaviour:
    a contract address cannot sign a transaction, and instantiation creates a NEW address) *)

(** a root message "signed" by the bSei contract address itself can raise a reward balance *)
Lemma mirror_refuted_by_bsei_sender :
  exists tb r,
    let w' := fst (step ex_w2 (OTx A_bsei A_reward (WReward (RInc 77 5)) [])) in
    w_bsei w' = Some tb /\ w_reward w' = Some r /\ rw_total r = 805 /\ tk_supply tb = 800.
Proof. vm_compute. do 2 eexists. repeat split. Qed.

(** a bSei token instantiated WITH initial balances is not mirrored *)
Lemma mirror_refuted_by_initial_balances :
  exists tb r,
    let w' := fst (step ex_w1 (OInstBsei ex_owner A_hub [(ex_alice, 5)])) in
    Wired w' /\ w_bsei w' = Some tb /\ w_reward w' = Some r /\ rw_total r = 0 /\ tk_supply tb = 5.
Proof. vm_compute. do 2 eexists. repeat split. Qed.

(** re-instantiating the reward contract while bSei holders exist breaks the mirror *)
Lemma mirror_refuted_by_reward_reinstantiate :
  exists tb r,
    let w' := fst (step ex_w2 (OInstReward ex_owner A_hub uusd A_swap [uatom])) in
    Wired w' /\ w_bsei w' = Some tb /\ w_reward w' = Some r /\ rw_total r = 0 /\ tk_supply tb = 800.
Proof. vm_compute. do 2 eexists. repeat split. Qed.
