(** * RateHistLegs (helper of Proofs/RateHist.v, property C04 at history level).

    The messages a pricing hub handler emits, executed as a sub-tree.

    - [du_legs]      : hub-signed Delegate / Undelegate messages change only the environment and move
                       the hub's delegated total by (sum delegated - sum undelegated);
    - [tokprim] / [tok_legs] : hub-signed cw20 Mint / Burn messages to the two tokens (with their
                       children: the reward contract's Increase/DecreaseBalance, the stSei token's
                       CheckSlashing call-back) move the two supplies by exactly the minted / burnt
                       amounts and leave pools, open batch, configuration and delegations alone
                       (the CheckSlashing call-back finds the books within the delegations);
    - [final_report] : what the State query reports in a world whose books are within the delegations. *)
From Krp Require Import Tactics Prelude Fixed FMap Types Env Registry Cw20 Reward Dispatcher Hub Exec
     ExecP Hist Inv RegistryP HubFrame HubAdmin Cw20P MirrorWire MirrorP HubRates
     BooksEnv BooksHub BooksP IndexRun RateTxLegs RateTx RateTxConvert RateHistBase RateHistInert.
Open Scope N_scope.

(** ** staking legs *)
Lemma du_legs : forall (ms : list cmsg) w w' n,
  AllDU ms -> DelWf (w_env w) ->
  Exec w (map (fun m => (A_hub, m)) ms) w' n ->
  exists e', w' = set_env w e' /\ DelWf e' /\
    delegated e' A_hub + usum ms = delegated (w_env w) A_hub + dsum ms.
Proof.
  induction ms as [|m ms IH]; intros w w' n Hall Hwf H.
  - cbn [map] in H. apply Exec_nil_inv in H. subst w'. exists (w_env w).
    rewrite rt_set_env_same. unfold usum, dsum. cbn [map sumN]. auto.
  - cbn [map] in H. apply Exec_cons_inv in H.
    destruct H as (w1 & out & w2 & n1 & n2 & Hs & H1 & H2 & _).
    apply Forall_cons_iff in Hall. destruct Hall as [Hm Hall].
    destruct m; try discriminate Hm.
    + cbn [step_msg] in Hs. bind_inv Hs as e1 He1. inversion Hs; subst w1 out; clear Hs.
      apply Exec_nil_inv in H1. subst w2.
      apply do_delegate_spec in He1.
      destruct He1 as (_ & _ & _ & _ & _ & _ & D7 & _ & _ & _ & _ & _ & _ & _ & _ & _ & D17).
      destruct (IH (set_env w e1) _ _ Hall (D17 Hwf) H2) as (e' & -> & W' & E).
      cbn [w_env set_env] in *. exists e'. rewrite rt_set_env_twice.
      split; [reflexivity|]. split; [exact W'|].
      unfold usum, dsum in *. cbn [map sumN dmsg_amt umsg_amt]. lia.
    + cbn [step_msg] in Hs. bind_inv Hs as e1 He1. inversion Hs; subst w1 out; clear Hs.
      apply Exec_nil_inv in H1. subst w2.
      apply do_undelegate_spec in He1; [|exact Hwf].
      destruct He1 as (_ & _ & _ & _ & _ & _ & D7 & _ & _ & _ & _ & _ & _ & _ & _ & D16).
      destruct (IH (set_env w e1) _ _ Hall D16 H2) as (e' & -> & W' & E).
      cbn [w_env set_env] in *. exists e'. rewrite rt_set_env_twice.
      split; [reflexivity|]. split; [exact W'|].
      unfold usum, dsum in *. cbn [map sumN dmsg_amt umsg_amt]. lia.
Qed.

(** ** token legs *)
Inductive tokprim : cmsg -> Prop :=
| TP_mint_b u a : tokprim (MWasm A_bsei (WCw20 (CMint u a)) [])
| TP_burn_b a : tokprim (MWasm A_bsei (WCw20 (CBurn a)) [])
| TP_mint_s u a : tokprim (MWasm A_stsei (WCw20 (CMint u a)) [])
| TP_burn_s a : tokprim (MWasm A_stsei (WCw20 (CBurn a)) []).

Definition tp_amt (tok : addr) (mint : bool) (m : cmsg) : N :=
  match m with
  | MWasm to (WCw20 (CMint _ a)) _ => if (to =? tok) && mint then a else 0
  | MWasm to (WCw20 (CBurn a)) _ => if (to =? tok) && negb mint then a else 0
  | _ => 0
  end.
Definition tp_sum (tok : addr) (mint : bool) (l : list cmsg) : N := sumN (map (tp_amt tok mint) l).

Definition hub_core_eq (h h' : hub) : Prop :=
  hs_bb (h_state h') = hs_bb (h_state h) /\ hs_bst (h_state h') = hs_bst (h_state h) /\
  h_batch h' = h_batch h /\ h_cfg h' = h_cfg h /\ h_params h' = h_params h.

Lemma hub_core_eq_refl h : hub_core_eq h h.
Proof. repeat split. Qed.

Lemma hub_core_eq_trans a b c : hub_core_eq a b -> hub_core_eq b c -> hub_core_eq a c.
Proof. intros (A1 & A2 & A3 & A4 & A5) (B1 & B2 & B3 & B4 & B5). repeat split; congruence. Qed.

(** the state in which token legs run: wired, books within the delegations *)
Definition LegsOk (w : world) : Prop := Wired w /\ DelWf (w_env w) /\ Books w.

(** effect of token legs with net amounts (minted b, burnt b, minted st, burnt st) *)
Definition TokEff (w w' : world) (mb bb ms bs : N) : Prop :=
  exists h h' tb tb' ts ts',
    w_hub w = Some h /\ w_hub w' = Some h' /\ hub_core_eq h h' /\
    w_bsei w = Some tb /\ w_bsei w' = Some tb' /\ w_stsei w = Some ts /\ w_stsei w' = Some ts' /\
    tk_supply tb' + bb = tk_supply tb + mb /\ tk_supply ts' + bs = tk_supply ts + ms /\
    tk_minter tb' = tk_minter tb /\ tk_minter ts' = tk_minter ts /\
    w_env w' = w_env w.

Lemma LegsOk_inv w : LegsOk w ->
  exists h tb ts, w_hub w = Some h /\ w_bsei w = Some tb /\ w_stsei w = Some ts.
Proof.
  intros (HW & _). destruct (Wired_inv _ HW) as (h & r & d & g & tb & ts & Hh & _ & _ & _ & Hb & Hs & _).
  eauto 10.
Qed.

Lemma TokEff_refl w : LegsOk w -> TokEff w w 0 0 0 0.
Proof.
  intros H. destruct (LegsOk_inv _ H) as (h & tb & ts & Hh & Hb & Hs).
  exists h, h, tb, tb, ts, ts. repeat split; auto.
Qed.

Lemma TokEff_trans a b c m1 b1 s1 t1 m2 b2 s2 t2 :
  TokEff a b m1 b1 s1 t1 -> TokEff b c m2 b2 s2 t2 -> TokEff a c (m1 + m2) (b1 + b2) (s1 + s2) (t1 + t2).
Proof.
  intros (h & h' & tb & tb' & ts & ts' & A1 & A2 & A3 & A4 & A5 & A6 & A7 & A8 & A9 & A10 & A11 & A12)
         (k & k' & ub & ub' & us & us' & B1 & B2 & B3 & B4 & B5 & B6 & B7 & B8 & B9 & B10 & B11 & B12).
  rewrite A2 in B1. inversion B1; subst k. rewrite A5 in B4. inversion B4; subst ub.
  rewrite A7 in B6. inversion B6; subst us.
  exists h, k', tb, ub', ts, us'. repeat split; auto; try congruence; try lia.
  - destruct A3 as (X1 & _), B3 as (Y1 & _). congruence.
  - destruct A3 as (_ & X1 & _), B3 as (_ & Y1 & _). congruence.
  - destruct A3 as (_ & _ & X1 & _), B3 as (_ & _ & Y1 & _). congruence.
  - destruct A3 as (_ & _ & _ & X1 & _), B3 as (_ & _ & _ & Y1 & _). congruence.
  - destruct A3 as (_ & _ & _ & _ & X1), B3 as (_ & _ & _ & _ & Y1). congruence.
Qed.

Lemma LegsOk_TokEff w w' mb bb ms bs : LegsOk w -> Wired w' -> TokEff w w' mb bb ms bs -> LegsOk w'.
Proof.
  intros (HW & Hwf & HB) HW' (h & h' & tb & tb' & ts & ts' & A1 & A2 & A3 & _ & _ & _ & _ & _ & _ & _ & _ & A12).
  split; [exact HW'|]. rewrite A12. split; [exact Hwf|].
  intros k Hk. rewrite A2 in Hk. inversion Hk; subst k. specialize (HB h A1).
  destruct A3 as (X1 & X2 & _). unfold booked in *. rewrite X1, X2, A12. exact HB.
Qed.

(** bSei burn by the hub: token, then the reward contract's DecreaseBalance *)
Lemma burn_b_leg w a w' n tb :
  Wired w -> w_bsei w = Some tb ->
  Exec w [(A_hub, MWasm A_bsei (WCw20 (CBurn a)) [])] w' n ->
  exists tb' r', w' = set_reward (set_bsei w tb') r' /\ tok_burn_from_acct tb A_hub a = Some tb'.
Proof.
  intros HW Hb H. apply Exec_cons_inv in H.
  destruct H as (w1 & out & w2 & n1 & n2 & Hs & H1 & H2 & _).
  apply Exec_nil_inv in H2. subst w'.
  assert (HW1 : Wired w1) by (eapply step_msg_wired; [exact Hs|reflexivity|exact HW]).
  apply (rt_bsei_step_inv _ _ _ _ _ tb Hb) in Hs. destruct Hs as (tb' & o & He & -> & ->).
  destruct (bsei_burn_mirror _ _ _ _ _ _ He) as (rc & Hrc & -> & _ & _).
  rewrite (wired_query_reward w w tb HW Hb eq_refl eq_refl) in Hrc. inversion Hrc; subst rc; clear Hrc.
  unfold bsei_execute in He. bind_inv He as rc Hrc. check_inv He as Hsd. check_inv He as Hz.
  bind_inv He as t1 Hburn. inversion He; subst t1; clear He.
  cbn [map] in H1. apply Exec_cons_inv in H1.
  destruct H1 as (w3 & out3 & w4 & n3 & n4 & Hs3 & H3 & H4 & _).
  apply Exec_nil_inv in H4. subst w2.
  apply rt_reward_step_inv in Hs3; [|exact HW1|eauto].
  destruct Hs3 as (-> & r0 & r' & Hr0 & ->). apply Exec_nil_inv in H3. subst w4.
  exists tb', r'. split; reflexivity.
Qed.

(** stSei burn by the hub: token, then the hub's CheckSlashing *)
Lemma burn_s_leg w a w' n ts h :
  Wired w -> w_stsei w = Some ts -> w_hub w = Some h ->
  Exec w [(A_hub, MWasm A_stsei (WCw20 (CBurn a)) [])] w' n ->
  exists ts' h1, w' = set_hub (set_stsei w ts') h1 /\ tok_burn_from_acct ts A_hub a = Some ts' /\
    slashing (set_stsei w ts') A_hub h = Some h1.
Proof.
  intros HW Hs Hh H. apply Exec_cons_inv in H.
  destruct H as (w1 & out & w2 & n1 & n2 & Hst & H1 & H2 & _).
  apply Exec_nil_inv in H2. subst w'.
  apply (rt_stsei_step_inv _ _ _ _ _ ts Hs) in Hst. destruct Hst as (ts' & o & He & -> & ->).
  destruct (Wired_inv _ HW) as (h0 & r & d & g & tb0 & ts0 & _ & _ & _ & _ & _ & Hs0 &
                                _ & _ & _ & _ & _ & _ & _ & _ & _ & _ & _ & Wts).
  rewrite Hs in Hs0. inversion Hs0; subst ts0.
  unfold stsei_execute in He. check_inv He as Hsd. check_inv He as Hz.
  bind_inv He as t1 Hburn. inversion He; subst t1 o; clear He.
  rewrite Wts in H1. cbn [map] in H1. apply Exec_cons_inv in H1.
  destruct H1 as (w3 & out3 & w4 & n3 & n4 & Hs3 & H3 & H4 & _).
  apply Exec_nil_inv in H4. subst w2.
  unfold m_check_slashing in Hs3. apply rt_root_inv in Hs3.
  destruct Hs3 as (hx & e1 & h' & o & Hh0 & Hsend & Hex & -> & ->).
  cbn [w_hub set_stsei] in Hh0. rewrite Hh in Hh0. inversion Hh0; subst hx; clear Hh0.
  change (send_coins (w_env (set_stsei w ts')) A_stsei A_hub []) with (Some (w_env (set_stsei w ts'))) in Hsend.
  inversion Hsend; subst e1; clear Hsend. rewrite ?rt_set_env_same in *.
  cbn [hub_execute] in Hex. check_inv Hex as Hp. bind_inv Hex as h1 Hsl. inversion Hex; subst h' o; clear Hex.
  cbn [map] in H3. apply Exec_nil_inv in H3. subst w4.
  exists ts', h1. split; [reflexivity|]. split; [reflexivity|exact Hsl].
Qed.

Lemma tp_amt_other tok mint to cm f : (to =? tok) = false -> tp_amt tok mint (MWasm to (WCw20 cm) f) = 0.
Proof. intros E. unfold tp_amt. destruct cm; try reflexivity; rewrite E; reflexivity. Qed.

(** one token leg *)
Lemma tokprim_leg w m w' n :
  tokprim m -> LegsOk w -> Exec w [(A_hub, m)] w' n ->
  TokEff w w' (tp_amt A_bsei true m) (tp_amt A_bsei false m) (tp_amt A_stsei true m) (tp_amt A_stsei false m).
Proof.
  intros Hp HL H. pose proof HL as (HW & Hwf & HB).
  destruct (Wired_inv _ HW) as (h & r & d & g & tb & ts & Hh & Hr & Hd & Hg & Hb & Hs &
                                Wd & Wr & Wb & Ws & Wu & _).
  destruct Hp as [u a | a | u a | a].
  - apply (rt_bsei_mint_inv _ _ _ _ _ tb HW Hb) in H. destruct H as (tb' & r0 & r' & _ & -> & Hm & _).
    apply tok_mint_spec in Hm. destruct Hm as (_ & _ & _ & S & M & _).
    exists h, h, tb, tb', ts, ts. cbn [w_hub w_bsei w_stsei w_env set_reward set_bsei tp_amt].
    change (A_bsei =? A_bsei) with true. change (A_bsei =? A_stsei) with false. cbn [andb negb].
    repeat split; auto; lia.
  - apply (burn_b_leg _ _ _ _ tb HW Hb) in H. destruct H as (tb' & r' & -> & Hm).
    apply tok_burn_spec in Hm. destruct Hm as (_ & _ & _ & S & M & _).
    exists h, h, tb, tb', ts, ts. cbn [w_hub w_bsei w_stsei w_env set_reward set_bsei tp_amt].
    change (A_bsei =? A_bsei) with true. change (A_bsei =? A_stsei) with false. cbn [andb negb].
    repeat split; auto; lia.
  - apply (rt_stsei_mint_inv _ _ _ _ _ ts Hs) in H. destruct H as (ts' & -> & Hm).
    apply tok_mint_spec in Hm. destruct Hm as (_ & _ & _ & S & M & _).
    exists h, h, tb, tb, ts, ts'. cbn [w_hub w_bsei w_stsei w_env set_stsei tp_amt].
    change (A_stsei =? A_stsei) with true. change (A_stsei =? A_bsei) with false. cbn [andb negb].
    repeat split; auto; lia.
  - apply (burn_s_leg _ _ _ _ ts h HW Hs Hh) in H. destruct H as (ts' & h1 & -> & Hm & Hsl).
    apply tok_burn_spec in Hm. destruct Hm as (_ & _ & _ & S & M & _).
    pose proof (slashing_frame _ _ _ _ Hsl) as (F1 & F2 & F3 & _).
    assert (Hno : hs_bb (h_state h1) = hs_bb (h_state h) /\ hs_bst (h_state h1) = hs_bst (h_state h)).
    { apply (slashing_noop _ _ _ _ Hsl Wu). cbn [w_env set_stsei]. apply HB. exact Hh. }
    destruct Hno as [N1 N2].
    exists h, h1, tb, tb, ts, ts'. cbn [w_hub w_bsei w_stsei w_env set_hub set_stsei tp_amt].
    change (A_stsei =? A_stsei) with true. change (A_stsei =? A_bsei) with false. cbn [andb negb].
    repeat split; auto; lia.
Qed.

(** all token legs *)
Lemma tok_legs : forall (tk : list cmsg) w w' n,
  Forall tokprim tk -> LegsOk w -> Exec w (map (fun m => (A_hub, m)) tk) w' n ->
  TokEff w w' (tp_sum A_bsei true tk) (tp_sum A_bsei false tk) (tp_sum A_stsei true tk) (tp_sum A_stsei false tk)
  /\ LegsOk w'.
Proof.
  induction tk as [|m tk IH]; intros w w' n Hall HL H.
  - cbn [map] in H. apply Exec_nil_inv in H. subst w'. split; [apply TokEff_refl; exact HL|exact HL].
  - apply Forall_cons_iff in Hall. destruct Hall as [Hm Hall].
    change (map (fun m0 => (A_hub, m0)) (m :: tk)) with ([(A_hub, m)] ++ map (fun m0 => (A_hub, m0)) tk) in H.
    apply Exec_app_inv in H. destruct H as (w1 & n1 & n2 & H1 & H2).
    pose proof (tokprim_leg _ _ _ _ Hm HL H1) as E1.
    assert (HW1 : Wired w1).
    { eapply rt_exec_wired; [|exact H1|apply HL]. constructor; [|constructor].
      destruct Hm; reflexivity. }
    pose proof (LegsOk_TokEff _ _ _ _ _ _ HL HW1 E1) as HL1.
    destruct (IH _ _ _ Hall HL1 H2) as [E2 HL2].
    split; [|exact HL2]. unfold tp_sum. cbn [map sumN]. eapply TokEff_trans; eauto.
Qed.

(** ** what the query reports when the books are within the delegations *)
Lemma final_report w h tb ts s :
  hc_bsei (h_cfg h) = Some A_bsei -> hc_stsei (h_cfg h) = Some A_stsei ->
  hp_underlying (h_params h) = usei ->
  w_hub w = Some h -> w_bsei w = Some tb -> w_stsei w = Some ts ->
  booked h <= delegated (w_env w) A_hub ->
  hub_query_state w A_hub = Some s ->
  hs_bb s = hs_bb (h_state h) /\ hs_bst s = hs_bst (h_state h) /\
  (0 < booked h ->
   hs_ber s = rate_of (hs_bb (h_state h)) (claims_b h tb) /\
   hs_ser s = rate_of (hs_bst (h_state h)) (claims_st h ts)).
Proof.
  intros Wb Ws Wu Hh Hb Hs HB Hq. unfold hub_query_state in Hq. rewrite Hh in Hq. cbn [bind] in Hq.
  destruct (N.eq_dec (booked h) 0) as [Z|NZ].
  - apply reported_rate_unbooked in Hq; [|exact Z]. subst s. split; [reflexivity|]. split; [reflexivity|]. lia.
  - destruct (rt_supplies w h tb ts Wb Ws Hb Hs) as [S1 S2].
    destruct (rt_query_nosync w h s _ _ Wu S1 S2 Hq) as (Q1 & Q2 & Q3 & Q4); [lia|exact HB|].
    split; [exact Q1|]. split; [exact Q2|]. intros _. split; assumption.
Qed.
