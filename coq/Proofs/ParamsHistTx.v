(** * ParamsHistTx (helper of ParamsHist, C20 at transaction level): the EXACT world after a successful
    root configuration transaction, ranges at the moment of acceptance, rejections, instantiate.

    For every world [w] (no reachability hypothesis):
    - [tx_success_root]: a successful transaction = its root message, then white-listed messages;
    - [hub_params_tx]: successful root UpdateParams: signed by the owner, supplied peg fee <= 1, the new
      world is given explicitly (only the hub's parameter record and the bank transfer of the funds
      differ; omitted fields keep their value, threshold clamped to 1, pause flag := the option), the
      trace is the root alone; [hub_params_tx_reachable]: in a reachable world an omitted threshold is
      unchanged too;
    - [hub_config_tx]: successful root UpdateConfig of the hub (the only configuration message that
      emits something: SetWithdrawAddress when a dispatcher address is supplied);
    - [disp_config_tx], [disp_swapdenom_tx], [disp_swapcontract_tx], [disp_oracle_tx],
      [reward_config_tx], [reward_swapdenom_tx], [reg_config_tx]: the same for the other contracts;
    - [hub_params_fee_rejected], [hub_config_token_rejected], [disp_config_rate_rejected],
      [disp_config_std_rejected]: out-of-range / forbidden updates are rejected, world unchanged;
    - [thr_stored_clamped] and [thr_above_one_accepted_witness]: a threshold above 1 is NOT rejected
      but stored as 1;
    - [inst_hub_step], [inst_disp_step]: what the instantiate operations do, as one equation each. *)
From Krp Require Import Tactics Prelude Fixed FMap Types Env Registry Cw20 Reward Dispatcher Hub Exec
     ExecP Hist HubFrame HubAdmin DispatcherP Params MirrorWire TokenTx AuthHistEmit AuthHistOwn
     ParamsHistBase.
Open Scope N_scope.

Lemma step_tx_run w s tgt m f w' tr :
  step w (OTx s tgt m f) = (w', (true, tr)) ->
  run tx_fuel w [(s, MWasm tgt m f)] [] = Some (w', tr).
Proof.
  cbn [step]. destruct (run tx_fuel w _ []) as [[w1 tr1]|]; intros H; inversion H; reflexivity.
Qed.

Lemma tx_success_root w s tgt m f w' tr :
  step w (OTx s tgt m f) = (w', (true, tr)) ->
  exists w1 out fu, step_msg w s (MWasm tgt m f) = Some (w1, out) /\
    static_view w' = static_view w1 /\ Forall emitok_s out /\
    run fu w1 out [(s, MWasm tgt m f)] = Some (w', tr) /\
    (out = [] -> w' = w1 /\ tr = [(s, MWasm tgt m f)]).
Proof.
  intros H. apply step_tx_run in H. apply run_root in H.
  destruct H as (w1 & out & fu & Hs & Hv & Hem & _ & Hrun & Hnil). cbn [app] in *.
  exists w1, out, fu. auto 6.
Qed.

Lemma tx_rejected_if w s tgt m f :
  (forall wb out, step_msg w s (MWasm tgt m f) = Some (wb, out) -> False) ->
  step w (OTx s tgt m f) = (w, (false, [])).
Proof.
  intros Hno. cbn [step].
  destruct (run tx_fuel w [(s, MWasm tgt m f)] []) as [[w' tr]|] eqn:E; [|reflexivity].
  exfalso. apply run_root in E. destruct E as (w1 & out & fu & Hs & _). eapply Hno. exact Hs.
Qed.

(** * Hub UpdateParams *)
Theorem hub_params_tx w s epoch unbonding pegfee thr pz rdenom f w' tr :
  step w (OTx s A_hub (WHub (HParams epoch unbonding pegfee thr pz rdenom)) f) = (w', (true, tr)) ->
  exists h e1,
    w_hub w = Some h /\ s = hc_creator (h_cfg h) /\
    send_coins (w_env w) s A_hub f = Some e1 /\
    (forall x, pegfee = Some x -> x <= D) /\
    (pz <> Some true -> h_oldwait h = []) /\
    tr = [(s, MWasm A_hub (WHub (HParams epoch unbonding pegfee thr pz rdenom)) f)] /\
    w' = mkWorld
           (Some (mkHub (h_cfg h) (h_state h)
                    (mkHubParams
                       (match epoch with Some x => x | None => hp_epoch (h_params h) end)
                       (hp_underlying (h_params h))
                       (match unbonding with Some x => x | None => hp_unbonding (h_params h) end)
                       (match pegfee with Some x => x | None => hp_pegfee (h_params h) end)
                       (N.min (match thr with Some x => x | None => hp_thr (h_params h) end) D)
                       (match rdenom with Some x => x | None => hp_rdenom (h_params h) end)
                       pz)
                    (h_batch h) (h_newowner h) (h_wait h) (h_hist h) (h_oldwait h)))
           (w_reward w) (w_disp w) (w_reg w) (w_bsei w) (w_stsei w) e1.
Proof.
  intros H. apply tx_success_root in H. destruct H as (w1 & out & fu & Hs & _ & _ & _ & Hnil).
  apply step_msg_hub_inv in Hs. destruct Hs as (e1 & h & h' & o & Hsend & Hw & He & -> & ->).
  cbn [hub_execute] in He. apply update_params_spec in He.
  destruct He as (Hown & Hfee & Hold & -> & ->). cbn [map] in Hnil.
  destruct (Hnil eq_refl) as [-> ->]. exists h, e1. repeat split; assumption.
Qed.

(** field by field, in a world reached by a history from the empty world (there the stored
    threshold is <= 1, so an omitted threshold keeps its value too) *)
Theorem hub_params_tx_reachable ut ops s epoch unbonding pegfee thr pz rdenom f w' tr :
  step (run_ops ops (empty_world ut))
       (OTx s A_hub (WHub (HParams epoch unbonding pegfee thr pz rdenom)) f) = (w', (true, tr)) ->
  exists h h',
    w_hub (run_ops ops (empty_world ut)) = Some h /\ w_hub w' = Some h' /\ s = hc_creator (h_cfg h) /\
    (epoch = None -> hp_epoch (h_params h') = hp_epoch (h_params h)) /\
    (unbonding = None -> hp_unbonding (h_params h') = hp_unbonding (h_params h)) /\
    (pegfee = None -> hp_pegfee (h_params h') = hp_pegfee (h_params h)) /\
    (thr = None -> hp_thr (h_params h') = hp_thr (h_params h)) /\
    (rdenom = None -> hp_rdenom (h_params h') = hp_rdenom (h_params h)) /\
    (forall x, epoch = Some x -> hp_epoch (h_params h') = x) /\
    (forall x, unbonding = Some x -> hp_unbonding (h_params h') = x) /\
    (forall x, pegfee = Some x -> hp_pegfee (h_params h') = x /\ x <= D) /\
    (forall x, thr = Some x -> hp_thr (h_params h') = N.min x D) /\
    (forall x, rdenom = Some x -> hp_rdenom (h_params h') = x) /\
    hp_paused (h_params h') = pz /\
    hp_underlying (h_params h') = hp_underlying (h_params h) /\
    hp_pegfee (h_params h') <= D /\ hp_thr (h_params h') <= D.
Proof.
  intros H. pose proof (PInv_reachable ut ops) as [HI _].
  apply hub_params_tx in H. destruct H as (h & e1 & Hw & Hown & _ & Hfee & _ & _ & ->).
  specialize (HI _ Hw). destruct HI as [Hpf Hthr].
  eexists h, _. split; [exact Hw|]. split; [reflexivity|]. split; [exact Hown|].
  cbn [h_params hp_epoch hp_unbonding hp_pegfee hp_thr hp_rdenom hp_paused hp_underlying].
  split; [intros ->; reflexivity|]. split; [intros ->; reflexivity|].
  split; [intros ->; reflexivity|]. split; [intros ->; lia|]. split; [intros ->; reflexivity|].
  split; [intros x ->; reflexivity|]. split; [intros x ->; reflexivity|].
  split; [intros x ->; split; [reflexivity|apply Hfee; reflexivity]|].
  split; [intros x ->; reflexivity|]. split; [intros x ->; reflexivity|].
  split; [reflexivity|]. split; [reflexivity|].
  split; [|lia]. destruct pegfee as [x|]; [apply Hfee; reflexivity|exact Hpf].
Qed.

(** * Hub UpdateConfig *)
Theorem hub_config_tx w s a b c d e f0 g f w' tr :
  step w (OTx s A_hub (WHub (HConfig a b c d e f0 g)) f) = (w', (true, tr)) ->
  exists h e1,
    w_hub w = Some h /\ s = hc_creator (h_cfg h) /\ Hub.paused h = false /\
    send_coins (w_env w) s A_hub f = Some e1 /\
    (c <> None -> hc_bsei (h_cfg h) = None) /\ (d <> None -> hc_stsei (h_cfg h) = None) /\
    tr = (s, MWasm A_hub (WHub (HConfig a b c d e f0 g)) f) ::
         match a with Some x => [(A_hub, MSetWithdrawAddr x)] | None => [] end /\
    w' = mkWorld
           (Some (mkHub
                    (mkHubConfig (hc_creator (h_cfg h))
                       (match g with Some x => x | None => hc_updater (h_cfg h) end)
                       (match a with Some x => Some x | None => hc_disp (h_cfg h) end)
                       (match b with Some x => Some x | None => hc_reg (h_cfg h) end)
                       (match c with Some x => Some x | None => hc_bsei (h_cfg h) end)
                       (match d with Some x => Some x | None => hc_stsei (h_cfg h) end)
                       (match e with Some x => Some x | None => hc_airdrop (h_cfg h) end)
                       (match f0 with Some x => Some x | None => hc_rewards (h_cfg h) end))
                    (h_state h) (h_params h) (h_batch h) (h_newowner h) (h_wait h) (h_hist h)
                    (h_oldwait h)))
           (w_reward w) (w_disp w) (w_reg w) (w_bsei w) (w_stsei w)
           (match a with Some x => do_set_withdraw_addr e1 A_hub x | None => e1 end).
Proof.
  intros H. apply tx_success_root in H. destruct H as (w1 & out & fu & Hs & _ & _ & Hrun & Hnil).
  apply step_msg_hub_inv in Hs. destruct Hs as (e1 & h & h' & o & Hsend & Hw & He & -> & ->).
  unfold hub_execute in He. check_inv He as Hp. apply negb_true_iff in Hp.
  pose proof (update_config_spec _ _ _ _ _ _ _ _ _ _ _ He) as (Hown & Hb & Hst & _).
  unfold execute_update_config in He.
  check_inv He as E1. check_inv He as E2. check_inv He as E3. inversion He; subst h' o. clear He.
  exists h, e1. do 6 (split; [assumption|]).
  destruct a as [x|]; cbn [map] in *.
  - destruct fu as [|fu]; cbn [run] in Hrun; [discriminate|].
    cbn [step_msg bind fst snd app] in Hrun. rewrite run_nil in Hrun. inversion Hrun; subst.
    split; reflexivity.
  - destruct (Hnil eq_refl) as [-> ->]. split; reflexivity.
Qed.

(** * Dispatcher owner messages that change the stored configuration *)
Lemma disp_root_tx w s dm f w' tr :
  step w (OTx s A_disp (WDisp dm) f) = (w', (true, tr)) ->
  exists d e1 d' o,
    w_disp w = Some d /\ send_coins (w_env w) s A_disp f = Some e1 /\
    disp_execute (set_env w e1) d A_disp s dm = Some (d', o) /\
    (o = [] -> w' = set_disp (set_env w e1) d' /\ tr = [(s, MWasm A_disp (WDisp dm) f)]).
Proof.
  intros H. apply tx_success_root in H. destruct H as (w1 & out & fu & Hs & _ & _ & _ & Hnil).
  apply step_msg_disp_inv in Hs. destruct Hs as (e1 & d & d' & o & Hsend & Hw & He & -> & ->).
  exists d, e1, d', o. do 3 (split; [assumption|]). intros ->. apply Hnil. reflexivity.
Qed.

Theorem disp_config_tx w s hubaddr rewardaddr std bd keeper rate f w' tr :
  step w (OTx s A_disp (WDisp (DConfig hubaddr rewardaddr std bd keeper rate)) f) = (w', (true, tr)) ->
  exists dp e1,
    w_disp w = Some dp /\ s = dp_owner dp /\ send_coins (w_env w) s A_disp f = Some e1 /\
    std = None /\ (forall r, rate = Some r -> r <= D) /\
    tr = [(s, MWasm A_disp (WDisp (DConfig hubaddr rewardaddr std bd keeper rate)) f)] /\
    w' = mkWorld (w_hub w) (w_reward w)
           (Some (mkDisp (dp_owner dp)
                    (match hubaddr with Some a => a | None => dp_hub dp end)
                    (match rewardaddr with Some a => a | None => dp_reward dp end)
                    (dp_std dp)
                    (match bd with Some x => x | None => dp_bd dp end)
                    (match keeper with Some a => a | None => dp_keeper dp end)
                    (match rate with Some x => x | None => dp_rate dp end)
                    (dp_swap dp) (dp_denoms dp) (dp_oracle dp) (dp_newowner dp)))
           (w_reg w) (w_bsei w) (w_stsei w) e1.
Proof.
  intros H. apply disp_root_tx in H. destruct H as (dp & e1 & d' & o & Hw & Hsend & He & Hnil).
  apply disp_execute_spec in He. destruct He as (Hown & Hstd & Hrate & -> & ->).
  destruct (Hnil eq_refl) as [-> ->]. exists dp, e1. repeat split; assumption.
Qed.

Theorem disp_swapdenom_tx w s dn add f w' tr :
  step w (OTx s A_disp (WDisp (DSwapDenom dn add)) f) = (w', (true, tr)) ->
  exists dp e1,
    w_disp w = Some dp /\ s = dp_owner dp /\ send_coins (w_env w) s A_disp f = Some e1 /\
    tr = [(s, MWasm A_disp (WDisp (DSwapDenom dn add)) f)] /\
    w' = mkWorld (w_hub w) (w_reward w)
           (Some (mkDisp (dp_owner dp) (dp_hub dp) (dp_reward dp) (dp_std dp) (dp_bd dp) (dp_keeper dp)
                    (dp_rate dp) (dp_swap dp)
                    (if add then dp_denoms dp ++ [dn]
                     else filter (fun x => negb (x =? dn)) (dp_denoms dp))
                    (dp_oracle dp) (dp_newowner dp)))
           (w_reg w) (w_bsei w) (w_stsei w) e1.
Proof.
  intros H. apply disp_root_tx in H. destruct H as (dp & e1 & d' & o & Hw & Hsend & He & Hnil).
  apply disp_execute_spec in He. destruct He as (Hown & -> & ->).
  destruct (Hnil eq_refl) as [-> ->]. exists dp, e1. repeat split; assumption.
Qed.

Theorem disp_swapcontract_tx w s a f w' tr :
  step w (OTx s A_disp (WDisp (DSwapContract a)) f) = (w', (true, tr)) ->
  exists dp e1,
    w_disp w = Some dp /\ s = dp_owner dp /\ send_coins (w_env w) s A_disp f = Some e1 /\
    tr = [(s, MWasm A_disp (WDisp (DSwapContract a)) f)] /\
    w' = mkWorld (w_hub w) (w_reward w)
           (Some (mkDisp (dp_owner dp) (dp_hub dp) (dp_reward dp) (dp_std dp) (dp_bd dp) (dp_keeper dp)
                    (dp_rate dp) a (dp_denoms dp) (dp_oracle dp) (dp_newowner dp)))
           (w_reg w) (w_bsei w) (w_stsei w) e1.
Proof.
  intros H. apply disp_root_tx in H. destruct H as (dp & e1 & d' & o & Hw & Hsend & He & Hnil).
  apply disp_execute_spec in He. destruct He as (Hown & -> & ->).
  destruct (Hnil eq_refl) as [-> ->]. exists dp, e1. repeat split; assumption.
Qed.

Theorem disp_oracle_tx w s a f w' tr :
  step w (OTx s A_disp (WDisp (DOracle a)) f) = (w', (true, tr)) ->
  exists dp e1,
    w_disp w = Some dp /\ s = dp_owner dp /\ send_coins (w_env w) s A_disp f = Some e1 /\
    tr = [(s, MWasm A_disp (WDisp (DOracle a)) f)] /\
    w' = mkWorld (w_hub w) (w_reward w)
           (Some (mkDisp (dp_owner dp) (dp_hub dp) (dp_reward dp) (dp_std dp) (dp_bd dp) (dp_keeper dp)
                    (dp_rate dp) (dp_swap dp) (dp_denoms dp) a (dp_newowner dp)))
           (w_reg w) (w_bsei w) (w_stsei w) e1.
Proof.
  intros H. apply disp_root_tx in H. destruct H as (dp & e1 & d' & o & Hw & Hsend & He & Hnil).
  apply disp_execute_spec in He. destruct He as (Hown & -> & ->).
  destruct (Hnil eq_refl) as [-> ->]. exists dp, e1. repeat split; assumption.
Qed.

(** * Reward UpdateConfig / UpdateSwapDenom *)
Lemma reward_root_tx w s rm f w' tr :
  step w (OTx s A_reward (WReward rm) f) = (w', (true, tr)) ->
  exists r e1 r' o,
    w_reward w = Some r /\ send_coins (w_env w) s A_reward f = Some e1 /\
    reward_execute (set_env w e1) r A_reward s rm = Some (r', o) /\
    (o = [] -> w' = set_reward (set_env w e1) r' /\ tr = [(s, MWasm A_reward (WReward rm) f)]).
Proof.
  intros H. apply tx_success_root in H. destruct H as (w1 & out & fu & Hs & _ & _ & _ & Hnil).
  apply step_msg_reward_inv in Hs. destruct Hs as (e1 & r & r' & o & Hsend & Hw & He & -> & ->).
  exists r, e1, r', o. do 3 (split; [assumption|]). intros ->. apply Hnil. reflexivity.
Qed.

Theorem reward_config_tx w s hubaddr dn swap f w' tr :
  step w (OTx s A_reward (WReward (RConfig hubaddr dn swap)) f) = (w', (true, tr)) ->
  exists r e1,
    w_reward w = Some r /\ s = rw_owner r /\ send_coins (w_env w) s A_reward f = Some e1 /\
    tr = [(s, MWasm A_reward (WReward (RConfig hubaddr dn swap)) f)] /\
    w' = mkWorld (w_hub w)
           (Some (mkReward (rw_owner r)
                    (match hubaddr with Some a => a | None => rw_hub r end)
                    (match dn with Some x => x | None => rw_denom r end)
                    (match swap with Some a => a | None => rw_swap r end)
                    (rw_denoms r) (rw_gi r) (rw_total r) (rw_prev r) (rw_holders r) (rw_newowner r)))
           (w_disp w) (w_reg w) (w_bsei w) (w_stsei w) e1.
Proof.
  intros H. apply reward_root_tx in H. destruct H as (r & e1 & r' & o & Hw & Hsend & He & Hnil).
  apply reward_execute_spec in He. destruct He as (Hown & -> & ->).
  destruct (Hnil eq_refl) as [-> ->]. exists r, e1. repeat split; assumption.
Qed.

Theorem reward_swapdenom_tx w s dn add f w' tr :
  step w (OTx s A_reward (WReward (RSwapDenom dn add)) f) = (w', (true, tr)) ->
  exists r e1,
    w_reward w = Some r /\ s = rw_owner r /\ send_coins (w_env w) s A_reward f = Some e1 /\
    tr = [(s, MWasm A_reward (WReward (RSwapDenom dn add)) f)] /\
    w' = mkWorld (w_hub w)
           (Some (mkReward (rw_owner r) (rw_hub r) (rw_denom r) (rw_swap r)
                    (if add then rw_denoms r ++ [dn]
                     else filter (fun x => negb (x =? dn)) (rw_denoms r))
                    (rw_gi r) (rw_total r) (rw_prev r) (rw_holders r) (rw_newowner r)))
           (w_disp w) (w_reg w) (w_bsei w) (w_stsei w) e1.
Proof.
  intros H. apply reward_root_tx in H. destruct H as (r & e1 & r' & o & Hw & Hsend & He & Hnil).
  apply reward_execute_spec in He. destruct He as (Hown & -> & ->).
  destruct (Hnil eq_refl) as [-> ->]. exists r, e1. repeat split; assumption.
Qed.

(** * Registry UpdateConfig *)
Theorem reg_config_tx w s hubaddr f w' tr :
  step w (OTx s A_reg (WReg (GConfig hubaddr)) f) = (w', (true, tr)) ->
  exists g e1,
    w_reg w = Some g /\ s = rg_owner g /\ send_coins (w_env w) s A_reg f = Some e1 /\
    tr = [(s, MWasm A_reg (WReg (GConfig hubaddr)) f)] /\
    w' = mkWorld (w_hub w) (w_reward w) (w_disp w)
           (Some (mkReg (rg_owner g) (match hubaddr with Some a => a | None => rg_hub g end)
                        (rg_vals g) (rg_newowner g)))
           (w_bsei w) (w_stsei w) e1.
Proof.
  intros H. apply tx_success_root in H. destruct H as (w1 & out & fu & Hs & _ & _ & _ & Hnil).
  apply step_msg_reg_inv in Hs. destruct Hs as (e1 & g & g' & o & Hsend & Hw & He & -> & ->).
  apply reg_execute_spec in He. destruct He as (Hown & -> & ->). cbn [map] in Hnil.
  destruct (Hnil eq_refl) as [-> ->]. exists g, e1. repeat split; assumption.
Qed.

(** * Ranges at the moment of acceptance, rejections *)
Theorem pegfee_accepted_in_range w s epoch unbonding x thr pz rdenom f w' tr :
  step w (OTx s A_hub (WHub (HParams epoch unbonding (Some x) thr pz rdenom)) f) = (w', (true, tr)) ->
  x <= D.
Proof.
  intros H. apply hub_params_tx in H. destruct H as (h & e1 & _ & _ & _ & Hfee & _).
  apply Hfee. reflexivity.
Qed.

(** a supplied threshold is stored as min(y, 1): never rejected, never stored above 1 *)
Theorem thr_stored_clamped w s epoch unbonding pegfee y pz rdenom f w' tr :
  step w (OTx s A_hub (WHub (HParams epoch unbonding pegfee (Some y) pz rdenom)) f) = (w', (true, tr)) ->
  exists h', w_hub w' = Some h' /\ hp_thr (h_params h') = N.min y D /\ hp_thr (h_params h') <= D.
Proof.
  intros H. apply hub_params_tx in H. destruct H as (h & e1 & _ & _ & _ & _ & _ & _ & ->).
  eexists. split; [reflexivity|]. cbn [h_params hp_thr]. split; [reflexivity|lia].
Qed.

Theorem rate_accepted_in_range w s hubaddr rewardaddr std bd keeper r f w' tr :
  step w (OTx s A_disp (WDisp (DConfig hubaddr rewardaddr std bd keeper (Some r))) f) = (w', (true, tr)) ->
  r <= D.
Proof.
  intros H. apply disp_config_tx in H. destruct H as (dp & e1 & _ & _ & _ & _ & Hr & _).
  apply Hr. reflexivity.
Qed.

Theorem hub_params_fee_rejected w s epoch unbonding x thr pz rdenom f :
  D < x ->
  step w (OTx s A_hub (WHub (HParams epoch unbonding (Some x) thr pz rdenom)) f) = (w, (false, [])).
Proof.
  intros Hx. apply tx_rejected_if. intros wb out Hs.
  apply step_msg_hub_inv in Hs. destruct Hs as (e1 & h & h' & o & _ & _ & He & _).
  cbn [hub_execute] in He. apply update_params_spec in He. destruct He as (_ & Hfee & _).
  specialize (Hfee x eq_refl). lia.
Qed.

(** a set token address cannot be overwritten, not even by the owner *)
Theorem hub_config_token_rejected w s a b c d e f0 g f h :
  w_hub w = Some h ->
  (c <> None /\ hc_bsei (h_cfg h) <> None) \/ (d <> None /\ hc_stsei (h_cfg h) <> None) ->
  step w (OTx s A_hub (WHub (HConfig a b c d e f0 g)) f) = (w, (false, [])).
Proof.
  intros Hw Hset. apply tx_rejected_if. intros wb out Hs.
  apply step_msg_hub_inv in Hs. destruct Hs as (e1 & h1 & h' & o & _ & Hw1 & He & _).
  rewrite Hw in Hw1. inversion Hw1; subst h1.
  unfold hub_execute in He. check_inv He as Hp. apply update_config_spec in He.
  destruct He as (_ & Hb & Hst & _). destruct Hset as [[Hc Hx] | [Hd Hx]]; auto.
Qed.

Theorem disp_config_rate_rejected w s hubaddr rewardaddr std bd keeper r f :
  D < r ->
  step w (OTx s A_disp (WDisp (DConfig hubaddr rewardaddr std bd keeper (Some r))) f) = (w, (false, [])).
Proof.
  intros Hr. apply tx_rejected_if. intros wb out Hs.
  apply step_msg_disp_inv in Hs. destruct Hs as (e1 & d & d' & o & _ & _ & He & _).
  apply disp_execute_spec in He. destruct He as (_ & _ & Hrate & _).
  specialize (Hrate r eq_refl). lia.
Qed.

(** the stSei reward denomination cannot be named in an update at all *)
Theorem disp_config_std_rejected w s hubaddr rewardaddr x bd keeper rate f :
  step w (OTx s A_disp (WDisp (DConfig hubaddr rewardaddr (Some x) bd keeper rate)) f) = (w, (false, [])).
Proof.
  apply tx_rejected_if. intros wb out Hs.
  apply step_msg_disp_inv in Hs. destruct Hs as (e1 & d & d' & o & _ & _ & He & _).
  apply disp_execute_spec in He. destruct He as (_ & Hstd & _). discriminate Hstd.
Qed.

(** * Instantiate operations, as one equation each.  A failing instantiate REMOVES the instance in
    the model ([Exec.step] stores the [None] result: the harness deploys a fresh instance); it does
    not leave the previous instance in place. *)
Theorem inst_hub_step w sender epoch unbonding pegfee thr upd underlying rdenom :
  step w (OInstHub sender epoch unbonding pegfee thr upd underlying rdenom) =
  if pegfee <=? D
  then (set_w_hub w
          (Some (mkHub (mkHubConfig sender upd None None None None None None)
                       (mkHubState D D 0 0 (e_now (w_env w)) 0 (e_now (w_env w)) 0)
                       (mkHubParams epoch underlying unbonding pegfee (N.min thr D) rdenom (Some false))
                       (mkBatch 1 0 0) sender [] [] [])), (true, []))
  else (set_w_hub w None, (false, [])).
Proof. cbn [step]. unfold hub_instantiate. destruct (pegfee <=? D); reflexivity. Qed.

Theorem inst_disp_step w sender hubaddr rewardaddr std bd keeper rate swap oracle denoms :
  step w (OInstDisp sender hubaddr rewardaddr std bd keeper rate swap oracle denoms) =
  if rate <=? D
  then (set_w_disp w (Some (mkDisp sender hubaddr rewardaddr std bd keeper rate swap denoms oracle
                                   sender)), (true, []))
  else (set_w_disp w None, (false, [])).
Proof. cbn [step]. unfold disp_instantiate. destruct (rate <=? D); reflexivity. Qed.
