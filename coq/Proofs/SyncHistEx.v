(** * SyncHistEx: non-vacuity examples and witnesses for Proofs/SyncHist.v (C06 / C02 at history level).
    - [SyncHist_ex_fresh], [SyncHist_ex_first_check], [SyncHist_ex_recognised], [SyncHist_ex_check_slashing],
      [SyncHist_ex_bond_rewards] : a 10 % slash of one validator after [ExitWorld.genesis_ops], then each
      kind of pricing transaction recognising it, through the theorems and evaluated;
    - [SyncHist_reinst_surplus_witness] : delegated > booked after re-instantiating the hub;
    - [SyncHist_st_rise_reachable] : the +1 rise of the stSei pool in a check, in a reachable world. *)
From Krp Require Import Tactics Prelude Fixed FMap Types Env Registry Cw20 Reward Dispatcher Hub Exec
     ExecP Hist Inv RegistryP HubFrame HubAdmin BooksEnv BooksHub BooksP SlashP ExitWorld SyncHist.
From Coq Require Import ZArith.
Open Scope N_scope.

(** ** 9. non-vacuity: a slash, then each kind of pricing transaction recognising it *)

(** pools and delegated total of a world *)
Definition SyncHist_view (w : world) : option (N * N * N) :=
  option_map (fun h => (hs_bb (h_state h), hs_bst (h_state h), delegated (w_env w) A_hub)) (w_hub w).

Lemma SyncHist_def_view w : SyncHist_view w =
  option_map (fun h => (hs_bb (h_state h), hs_bst (h_state h), delegated (w_env w) A_hub)) (w_hub w).
Proof. reflexivity. Qed.

(** [ExitWorld.genesis_ops] (deploy, wire, alice bonds 1 000 000 for bSei, bob 2 000 000 for stSei over
    three validators), then validator 0 is slashed by 10 % *)
Definition SyncHist_ex_ops : list op := genesis_ops ++ [OSlash 0 1 10 false].
Notation SyncHist_ex_w := (run_ops SyncHist_ex_ops (empty_world 100)) (only parsing).

Definition SyncHist_ex_txs : list op :=
  [ OTx bob A_hub (WHub HCheckSlashing) [];
    OTx alice A_hub (WHub HBond) [(usei, 1000)];
    OTx bob A_hub (WHub HBondSt) [(usei, 1000)];
    OTx alice A_bsei (WCw20 (CSend A_hub 1000 HkUnbond)) [];
    OTx bob A_stsei (WCw20 (CSend A_hub 1000 HkUnbond)) [];
    OTx alice A_bsei (WCw20 (CSend A_hub 1000 HkConvert)) [];
    OTx bob A_stsei (WCw20 (CSend A_hub 1000 HkConvert)) [] ].

(** the envelope holds, 100 000 usei of loss are unrecognised, the books still show 3 000 000 *)
Example SyncHist_ex_fresh :
  SyncHist_fresh SyncHist_ex_ops (empty_world 100) /\
  SyncHist_ufold SyncHist_ex_ops (empty_world 100) 0 = 100000 /\
  SyncHist_gfold SyncHist_ex_ops (empty_world 100) 0 = 100000%Z /\
  SyncHist_view SyncHist_ex_w = Some (1000000, 2000000, 2900000).
Proof. vm_compute. repeat split. Qed.

Lemma SyncHist_ex_hub : exists h, w_hub SyncHist_ex_w = Some h /\ hp_underlying (h_params h) = usei /\
  hs_bb (h_state h) = 1000000 /\ hs_bst (h_state h) = 2000000 /\ delegated (w_env SyncHist_ex_w) A_hub = 2900000.
Proof.
  destruct (w_hub SyncHist_ex_w) as [h|] eqn:Eh; [|vm_compute in Eh; discriminate].
  vm_compute in Eh. inversion Eh; subst h. clear Eh. eexists. split; [reflexivity|].
  repeat split; vm_compute; reflexivity.
Qed.

Lemma SyncHist_ex_synced s1 :
  SyncHist_synced 2900000 1000000 2000000 s1 -> hs_bb s1 = 966666 /\ hs_bst s1 = 1933334.
Proof.
  intros [S _]. destruct S as (A & B & C & _); [lia|].
  assert (E : 2900000 * (1000000 * D / (1000000 + 2000000)) / D = 966666) by (vm_compute; reflexivity).
  rewrite E in B. rewrite B in C. split; [exact B|]. rewrite C. reflexivity.
Qed.

(** every one of the seven transactions succeeds, executes the check, and — by
    [SyncHist_first_check_op] — its first check hands the handler a hub with pools 966 666 / 1 933 334
    (sum 2 900 000 = what survived; exact shares 966 666.67 / 1 933 333.33) *)
Example SyncHist_ex_first_check :
  Forall (fun o =>
    exists pre s hm f post w2 h2 e1 h1 r,
      snd (step SyncHist_ex_w o) = (true, pre ++ (s, MWasm A_hub (WHub hm) f) :: post) /\
      existsb is_pricing_msg pre = false /\ is_pricing hm = true /\
      slashing (set_env w2 e1) A_hub h2 = Some h1 /\
      hub_execute (set_env w2 e1) h1 A_hub s f hm = Some r /\
      hs_bb (h_state h1) = 966666 /\ hs_bst (h_state h1) = 1933334 /\
      hs_bb (h_state h1) + hs_bst (h_state h1) = delegated (w_env SyncHist_ex_w) A_hub)
    SyncHist_ex_txs.
Proof.
  destruct SyncHist_ex_hub as (h & Hh & Hu & Hb & Hs & Hd).
  assert (HE : EntWf SyncHist_ex_w) by apply (EntWf_reachable 100).
  assert (K : forall o, SyncHist_priced SyncHist_ex_w o = true ->
    exists pre s hm f post w2 h2 e1 h1 r,
      snd (step SyncHist_ex_w o) = (true, pre ++ (s, MWasm A_hub (WHub hm) f) :: post) /\
      existsb is_pricing_msg pre = false /\ is_pricing hm = true /\
      slashing (set_env w2 e1) A_hub h2 = Some h1 /\
      hub_execute (set_env w2 e1) h1 A_hub s f hm = Some r /\
      hs_bb (h_state h1) = 966666 /\ hs_bst (h_state h1) = 1933334 /\
      hs_bb (h_state h1) + hs_bst (h_state h1) = delegated (w_env SyncHist_ex_w) A_hub).
  { intros o Hp. destruct (SyncHist_first_check_op _ _ _ HE Hh Hu Hp)
      as (pre & s & hm & f & post & w2 & h2 & e1 & h1 & r & T1 & T2 & T3 & _ & _ & T6 & _ & T8 & T9).
    rewrite Hb, Hs, Hd in T9. destruct (SyncHist_ex_synced _ T9) as [X Y].
    exists pre, s, hm, f, post, w2, h2, e1, h1, r. rewrite X, Y, Hd. repeat split; assumption. }
  repeat (constructor; [apply K; vm_compute; reflexivity|]). constructor.
Qed.

(** ... and — by [SyncHist_pricing_op_exact] — ends with booked = delegated; the final pools and
    delegated totals, computed *)
Example SyncHist_ex_recognised :
  Forall (fun o => forall h', w_hub (fst (step SyncHist_ex_w o)) = Some h' ->
                   booked h' = delegated (w_env (fst (step SyncHist_ex_w o))) A_hub) SyncHist_ex_txs /\
  map (fun o => SyncHist_view (fst (step SyncHist_ex_w o))) SyncHist_ex_txs =
    [ Some (966666, 1933334, 2900000);      (* CheckSlashing *)
      Some (967666, 1933334, 2901000);      (* Bond 1000 *)
      Some (966666, 1934334, 2901000);      (* BondForStSei 1000 *)
      Some (966666, 1933334, 2900000);      (* Unbond 1000 bSei (batch still open) *)
      Some (966666, 1933334, 2900000);      (* Unbond 1000 stSei *)
      Some (965705, 1934295, 2900000);      (* Convert 1000 bSei -> stSei *)
      Some (967632, 1932368, 2900000) ].    (* Convert 1000 stSei -> bSei *)
Proof.
  split; [|vm_compute; reflexivity].
  assert (Hf : SyncHist_fresh SyncHist_ex_ops (empty_world 100)) by (vm_compute; repeat split).
  assert (K : forall o, SyncHist_priced SyncHist_ex_w o = true ->
             forall h', w_hub (fst (step SyncHist_ex_w o)) = Some h' ->
                        booked h' = delegated (w_env (fst (step SyncHist_ex_w o))) A_hub).
  { intros o Hp h' Hh'. pose proof (SyncHist_pricing_op_exact 100 SyncHist_ex_ops o h' Hf) as K.
    cbv zeta in K. apply K; assumption. }
  repeat (constructor; [apply K; vm_compute; reflexivity|]). constructor.
Qed.

(** the explicit CheckSlashing transaction writes off exactly the 100 000 ([SyncHist_check_writes_off_unrecognised]) *)
Example SyncHist_ex_check_slashing :
  exists h w' tr h',
    w_hub SyncHist_ex_w = Some h /\
    step SyncHist_ex_w (OTx bob A_hub (WHub HCheckSlashing) []) = (w', (true, tr)) /\
    w_hub w' = Some h' /\ booked h = 3000000 /\ booked h' = 2900000 /\
    booked h' + SyncHist_ufold SyncHist_ex_ops (empty_world 100) 0 = booked h /\
    booked h' = delegated (w_env w') A_hub /\ hs_bb (h_state h') = 966666 /\ hs_bst (h_state h') = 1933334.
Proof.
  destruct SyncHist_ex_hub as (h & Hh & Hu & Hb & Hs & Hd).
  assert (Hf : SyncHist_fresh SyncHist_ex_ops (empty_world 100)) by (vm_compute; repeat split).
  destruct (step SyncHist_ex_w (OTx bob A_hub (WHub HCheckSlashing) [])) as [w' [b tr]] eqn:E.
  assert (Eb : b = true).
  { apply (f_equal (fun x => fst (snd x))) in E. cbn [fst snd] in E. rewrite <- E. vm_compute. reflexivity. }
  subst b.
  destruct (SyncHist_check_writes_off_unrecognised 100 SyncHist_ex_ops bob w' tr h Hf Hh E)
    as (h' & A & B & C & D1 & D2).
  cbv zeta in D2. rewrite Hb, Hs, Hd in D2. destruct (SyncHist_ex_synced _ D2) as [X Y].
  exists h, w', tr, h'. split; [exact Hh|]. split; [reflexivity|]. split; [exact A|].
  assert (Hbk : booked h = 3000000) by (unfold booked; rewrite Hb, Hs; reflexivity).
  assert (Hbk' : booked h' = 2900000) by (unfold booked; rewrite X, Y; reflexivity).
  repeat split; assumption.
Qed.

(** BondRewards: 100 000 usei and 5 000 uusd of staking rewards accrue on the slashed world, the
    updater calls UpdateGlobalIndex; the dispatcher re-bonds 66 500 usei with BondRewards, whose check
    recognises the loss first: pools 966 666 / 1 933 334 + 66 500, delegated 2 966 500 *)
Definition SyncHist_ex_ops2 : list op := SyncHist_ex_ops ++ [OAccrue 0 usei 100000; OAccrue 1 uusd 5000].
Notation SyncHist_ex_w2 := (run_ops SyncHist_ex_ops2 (empty_world 100)) (only parsing).
Definition SyncHist_ex_tx2 : op := OTx updater A_hub (WHub (HUpdateGlobal 0)) [].

Example SyncHist_ex_bond_rewards :
  SyncHist_fresh SyncHist_ex_ops2 (empty_world 100) /\
  SyncHist_ufold SyncHist_ex_ops2 (empty_world 100) 0 = 100000 /\
  SyncHist_view SyncHist_ex_w2 = Some (1000000, 2000000, 2900000) /\
  In (A_disp, MWasm A_hub (WHub HBondRewards) [(usei, 66500)]) (snd (snd (step SyncHist_ex_w2 SyncHist_ex_tx2))) /\
  SyncHist_priced SyncHist_ex_w2 SyncHist_ex_tx2 = true /\
  (forall h', w_hub (fst (step SyncHist_ex_w2 SyncHist_ex_tx2)) = Some h' ->
              booked h' = delegated (w_env (fst (step SyncHist_ex_w2 SyncHist_ex_tx2))) A_hub) /\
  SyncHist_view (fst (step SyncHist_ex_w2 SyncHist_ex_tx2)) = Some (966666, 1999834, 2966500) /\
  sumN (map SyncHist_pay (snd (snd (step SyncHist_ex_w2 SyncHist_ex_tx2)))) = 66500.
Proof.
  assert (Hf : SyncHist_fresh SyncHist_ex_ops2 (empty_world 100)) by (vm_compute; repeat split).
  split; [exact Hf|]. split; [vm_compute; reflexivity|]. split; [vm_compute; reflexivity|].
  split; [vm_compute; tauto|]. split; [vm_compute; reflexivity|].
  split; [|split; vm_compute; reflexivity].
  assert (K : forall o, SyncHist_priced SyncHist_ex_w2 o = true ->
             forall h', w_hub (fst (step SyncHist_ex_w2 o)) = Some h' ->
                        booked h' = delegated (w_env (fst (step SyncHist_ex_w2 o))) A_hub).
  { intros o Hp h' Hh'. exact (SyncHist_pricing_op_exact 100 SyncHist_ex_ops2 o h' Hf Hp Hh'). }
  apply K. vm_compute. reflexivity.
Qed.

(** the hypotheses of [SyncHist_slash_then_check] are satisfiable: [genesis_ops] is fresh and in sync,
    the slash and the CheckSlashing after it succeed *)
Example SyncHist_ex_slash_then_check_nonvacuous :
  SyncHist_fresh genesis_ops (empty_world 100) /\
  SyncHist_ufold genesis_ops (empty_world 100) 0 = 0 /\
  let w := fst (step (run_ops genesis_ops (empty_world 100)) (OSlash 0 1 10 false)) in
  SyncHist_view w = Some (1000000, 2000000, 2900000) /\
  fst (snd (step w (OTx bob A_hub (WHub HCheckSlashing) []))) = true.
Proof. vm_compute. repeat split. Qed.

(** [SyncHist_step_raise] is tight: on the un-slashed [world0] a Bond of 1000 raises the booked total by
    exactly the payment; a CheckSlashing, an Unbond and a Convert do not raise it *)
Example SyncHist_ex_raise :
  let w := run_ops genesis_ops (empty_world 100) in
  let o := OTx alice A_hub (WHub HBond) [(usei, 1000)] in
  SyncHist_view w = Some (1000000, 2000000, 3000000) /\
  SyncHist_view (fst (step w o)) = Some (1001000, 2000000, 3001000) /\
  sumN (map SyncHist_pay (snd (snd (step w o)))) = 1000 /\
  Forall (fun o' => sumN (map SyncHist_pay (snd (snd (step w o')))) = 0 /\ fst (snd (step w o')) = true)
    [ OTx bob A_hub (WHub HCheckSlashing) [];
      OTx alice A_bsei (WCw20 (CSend A_hub 1000 HkUnbond)) [];
      OTx bob A_stsei (WCw20 (CSend A_hub 1000 HkConvert)) [] ].
Proof.
  cbv zeta. split; [vm_compute; reflexivity|]. split; [vm_compute; reflexivity|]. split; [vm_compute; reflexivity|].
  repeat (constructor; [vm_compute; split; reflexivity|]). constructor.
Qed.

(** [SyncHist_tx_no_pricing_frame] / the "else" branch of [SyncHist_tx_gap] are not vacuous: on the
    slashed world a bSei transfer and a validator removal (whose RedelegateProxy moves the hub's stake
    from validator 2 to the others) succeed, execute no pricing message, and leave pools, delegated
    total and the 100 000 of unrecognised loss as they were *)
Example SyncHist_ex_no_pricing :
  Forall (fun o =>
    fst (snd (step SyncHist_ex_w o)) = true /\ SyncHist_priced SyncHist_ex_w o = false /\
    SyncHist_view (fst (step SyncHist_ex_w o)) = Some (1000000, 2000000, 2900000) /\
    SyncHist_ufold (SyncHist_ex_ops ++ [o]) (empty_world 100) 0 = 100000)
    [ OTx alice A_bsei (WCw20 (CTransfer bob 10)) [];
      OTx A_owner A_reg (WReg (GRemove 2)) [] ] /\
  all_delegations (w_env (fst (step SyncHist_ex_w (OTx A_owner A_reg (WReg (GRemove 2)) [])))) A_hub
    = [(0, 1450000); (1, 1450000)].
Proof.
  split; [|vm_compute; reflexivity].
  repeat (constructor; [vm_compute; repeat split; reflexivity|]). constructor.
Qed.

(** ** 10. witnesses *)

(** (a) delegated > booked arises by re-instantiating the hub over live delegations (here: over the
    3 000 000 of [genesis_ops]); [SyncHist_fresh] fails, the ghost of [SyncHist_gap_exact] is
    -3 000 000, and neither a CheckSlashing nor a later Bond removes the surplus *)
Definition SyncHist_reinst_ops : list op :=
  genesis_ops ++
  [ OInstHub A_owner 30 100 (D / 200) D updater usei uusd;
    OTx A_owner A_hub (WHub (HConfig (Some A_disp) (Some A_reg) (Some A_bsei) (Some A_stsei)
                                     (Some A_airdrop) (Some A_reward) None)) [] ].
Notation SyncHist_reinst_w := (run_ops SyncHist_reinst_ops (empty_world 100)) (only parsing).

Lemma SyncHist_reinst_surplus_witness :
  Forall SyncHist_usei_op SyncHist_reinst_ops /\
  ~ SyncHist_fresh SyncHist_reinst_ops (empty_world 100) /\
  SyncHist_gfold SyncHist_reinst_ops (empty_world 100) 0 = (-3000000)%Z /\
  SyncHist_view SyncHist_reinst_w = Some (0, 0, 3000000) /\
  (let o := OTx bob A_hub (WHub HCheckSlashing) [] in
   SyncHist_priced SyncHist_reinst_w o = true /\
   SyncHist_view (fst (step SyncHist_reinst_w o)) = Some (0, 0, 3000000)) /\
  (let o := OTx alice A_hub (WHub HBond) [(usei, 1000)] in
   SyncHist_priced SyncHist_reinst_w o = true /\
   SyncHist_view (fst (step SyncHist_reinst_w o)) = Some (1000, 0, 3001000)).
Proof.
  split; [repeat constructor|]. split.
  { intros H. vm_compute in H. decompose [and] H. discriminate. }
  split; [vm_compute; reflexivity|]. split; [vm_compute; reflexivity|].
  split; split; vm_compute; reflexivity.
Qed.

(** (b) the one-unit rise of the stSei pool in a check ([C06_sync_st_pool_rise_exists]) happens in a
    REACHABLE world: one validator, alice bonds 10 000 000 000 006 usei for bSei, bob bonds 1 usei for
    stSei, the validator loses one base unit; the next CheckSlashing books 10 000 000 000 004 / 2 : the
    bSei pool bears 2 units, the stSei pool GAINS one and the stSei rate doubles (1.0 -> 2.0) *)
Definition SyncHist_rise_ops : list op :=
  [ OInstHub A_owner 30 100 (D / 200) D updater usei uusd;
    OInstReward A_owner A_hub uusd A_swap [uatom];
    OInstDisp A_owner A_hub A_reward usei uusd keeper (D / 20) A_swap A_oracle [usei; uusd; uatom];
    OInstReg A_owner A_hub [0];
    OInstBsei A_owner A_hub [];
    OInstStsei A_owner A_hub 2 [];
    OTx A_owner A_hub (WHub (HConfig (Some A_disp) (Some A_reg) (Some A_bsei) (Some A_stsei)
                                     (Some A_airdrop) (Some A_reward) None)) [];
    OGift alice usei 10000000000006;
    OGift bob usei 1;
    OTx alice A_hub (WHub HBond) [(usei, 10000000000006)];
    OTx bob A_hub (WHub HBondSt) [(usei, 1)];
    OSlash 0 1 10000000000007 false ].
Notation SyncHist_rise_w := (run_ops SyncHist_rise_ops (empty_world 100)) (only parsing).

Lemma SyncHist_st_rise_reachable :
  SyncHist_fresh SyncHist_rise_ops (empty_world 100) /\
  SyncHist_ufold SyncHist_rise_ops (empty_world 100) 0 = 1 /\
  SyncHist_view SyncHist_rise_w = Some (10000000000006, 1, 10000000000006) /\
  let w' := fst (step SyncHist_rise_w (OTx bob A_hub (WHub HCheckSlashing) [])) in
  SyncHist_view w' = Some (10000000000004, 2, 10000000000006) /\
  option_map (fun h => hs_ser (h_state h)) (w_hub SyncHist_rise_w) = Some D /\
  option_map (fun h => hs_ser (h_state h)) (w_hub w') = Some (2 * D).
Proof. vm_compute. repeat split. Qed.
