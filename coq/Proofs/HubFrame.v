(** * HubFrame: which components of the hub state each handler can change. *)
From Krp Require Import Tactics Prelude Fixed FMap Types Env Registry Cw20 Hub.
Open Scope N_scope.

Lemma slashing_frame w self h h1 :
  slashing w self h = Some h1 ->
  h_cfg h1 = h_cfg h /\ h_params h1 = h_params h /\ h_batch h1 = h_batch h /\
  h_newowner h1 = h_newowner h /\ h_wait h1 = h_wait h /\ h_hist h1 = h_hist h /\
  h_oldwait h1 = h_oldwait h.
Proof.
  unfold slashing. intros H. bind_inv H as s Hs. inversion H; subst. cbn. repeat split.
Qed.

Lemma execute_bond_frame w h self sender funds k h' out :
  execute_bond w h self sender funds k = Some (h', out) ->
  h_cfg h' = h_cfg h /\ h_params h' = h_params h /\ h_batch h' = h_batch h /\
  h_newowner h' = h_newowner h /\ h_wait h' = h_wait h /\ h_hist h' = h_hist h /\
  h_oldwait h' = h_oldwait h.
Proof.
  unfold execute_bond. intros H.
  bind_inv H as dispaddr Hd. check_inv H as Hauth. check_inv H as Hlen.
  bind_inv H as pay Hpay. bind_inv H as h1 Hh1.
  apply slashing_frame in Hh1. destruct Hh1 as (F1 & F2 & F3 & F4 & F5 & F6 & F7).
  bind_inv H as mint Hmint. bind_inv H as supply Hsupply. bind_inv H as s' Hs'.
  bind_inv H as vals Hvals.
  destruct vals as [|v0 vr]; [discriminate|].
  bind_inv H as r Hr.
  destruct k.
  - bind_inv H as tok Htok. inversion H; subst. cbn. repeat split; assumption.
  - bind_inv H as tok Htok. inversion H; subst. cbn. repeat split; assumption.
  - inversion H; subst. cbn. repeat split; assumption.
Qed.

Definition static_eq (h h' : hub) : Prop :=
  h_cfg h' = h_cfg h /\ h_params h' = h_params h /\ h_newowner h' = h_newowner h /\
  h_oldwait h' = h_oldwait h.

Lemma static_eq_refl h : static_eq h h. Proof. repeat split. Qed.

Lemma static_eq_trans a b c : static_eq a b -> static_eq b c -> static_eq a c.
Proof. unfold static_eq. intros (A1 & A2 & A3 & A4) (B1 & B2 & B3 & B4). repeat split; congruence. Qed.

Lemma slashing_static w self h h1 : slashing w self h = Some h1 -> static_eq h h1.
Proof. intros H. apply slashing_frame in H. unfold static_eq. tauto. Qed.

Lemma add_wait_static h u b is_b amt h' : add_wait h u b is_b amt = Some h' -> static_eq h h'.
Proof.
  unfold add_wait. destruct (wait_of h u b) as [x y]. intros H.
  bind_inv H as x' Hx. bind_inv H as y' Hy. inversion H; subst. repeat split.
Qed.

Lemma process_undelegations_static w self h h' out :
  process_undelegations w self h = Some (h', out) -> static_eq h h'.
Proof.
  unfold process_undelegations. intros H.
  bind_inv H as a1 E1. bind_inv H as a2 E2. bind_inv H as a3 E3. bind_inv H as a4 E4.
  bind_inv H as a5 E5. bind_inv H as a6 E6. bind_inv H as a7 E7. inversion H; subst. repeat split.
Qed.

Lemma maybe_undelegate_static w self h h' out :
  maybe_undelegate w self h = Some (h', out) -> static_eq h h'.
Proof.
  unfold maybe_undelegate. intros H. bind_inv H as p Hp.
  destruct (hp_epoch (h_params h) <? p).
  - eapply process_undelegations_static; eauto.
  - inversion H; subst. apply static_eq_refl.
Qed.

Lemma execute_unbond_static w h self amount user h' out :
  execute_unbond w h self amount user = Some (h', out) -> static_eq h h'.
Proof.
  unfold execute_unbond. intros H.
  bind_inv H as h1 Hh1. apply slashing_static in Hh1.
  bind_inv H as supply Hs. bind_inv H as awf Hawf. bind_inv H as reqb Hreqb.
  bind_inv H as h2 Hh2. apply add_wait_static in Hh2.
  bind_inv H as supply' Hs'. bind_inv H as ber Hber. bind_inv H as r Hr. destruct r as [h4 msgs].
  apply maybe_undelegate_static in Hr.
  bind_inv H as tok Htok. inversion H; subst.
  eapply static_eq_trans; [exact Hh1|]. eapply static_eq_trans; [exact Hh2|].
  eapply static_eq_trans; [|exact Hr]. repeat split.
Qed.

Lemma execute_unbond_stsei_static w h self amount user h' out :
  execute_unbond_stsei w h self amount user = Some (h', out) -> static_eq h h'.
Proof.
  unfold execute_unbond_stsei. intros H.
  bind_inv H as h1 Hh1. apply slashing_static in Hh1.
  bind_inv H as reqst Hreq. bind_inv H as h2 Hh2. apply add_wait_static in Hh2.
  bind_inv H as r Hr. destruct r as [h4 msgs]. apply maybe_undelegate_static in Hr.
  bind_inv H as tok Htok. inversion H; subst.
  eapply static_eq_trans; [exact Hh1|]. eapply static_eq_trans; [exact Hh2|].
  eapply static_eq_trans; [|exact Hr]. repeat split.
Qed.

Lemma process_withdraw_rate_static h historical bal h' :
  process_withdraw_rate h historical bal = Some h' -> static_eq h h'.
Proof.
  unfold process_withdraw_rate. intros H.
  destruct (release_group _ _ _ _) as [|g0 gr]; [inversion H; subst; apply static_eq_refl|].
  bind_inv H as tot Htot. destruct tot as [st_total b_total].
  bind_inv H as change Hch. check_inv H as Hneg.
  bind_inv H as both Hboth. bind_inv H as b_ratio Hbr. bind_inv H as b_actual Hba.
  bind_inv H as b_sl Hbsl. bind_inv H as st_actual Hsta. bind_inv H as st_sl Hstsl.
  bind_inv H as hist' Hhist. inversion H; subst. repeat split.
Qed.

Lemma execute_withdraw_static w h self sender h' out :
  execute_withdraw w h self sender = Some (h', out) -> static_eq h h'.
Proof.
  unfold execute_withdraw. intros H.
  bind_inv H as historical Hh. bind_inv H as h1 Hh1. apply process_withdraw_rate_static in Hh1.
  bind_inv H as fa Hfa. destruct fa as [amount batches]. check_inv H as Hnz.
  bind_inv H as prev Hprev. inversion H; subst.
  eapply static_eq_trans; [exact Hh1|]. repeat split.
Qed.

Lemma convert_stsei_bsei_static w h self amount user h' out :
  convert_stsei_bsei w h self amount user = Some (h', out) -> static_eq h h'.
Proof.
  unfold convert_stsei_bsei. intros H.
  bind_inv H as h1 Hh1. apply slashing_static in Hh1.
  bind_inv H as a1 E1. bind_inv H as a2 E2. bind_inv H as a3 E3. bind_inv H as a4 E4.
  bind_inv H as a5 E5. bind_inv H as a6 E6. bind_inv H as a7 E7. bind_inv H as a8 E8.
  bind_inv H as a9 E9. bind_inv H as a10 E10. bind_inv H as a11 E11. bind_inv H as a12 E12.
  bind_inv H as a13 E13. inversion H; subst.
  eapply static_eq_trans; [exact Hh1|]. repeat split.
Qed.

Lemma convert_bsei_stsei_static w h self amount user h' out :
  convert_bsei_stsei w h self amount user = Some (h', out) -> static_eq h h'.
Proof.
  unfold convert_bsei_stsei. intros H.
  bind_inv H as h1 Hh1. apply slashing_static in Hh1.
  bind_inv H as a1 E1. bind_inv H as a2 E2. bind_inv H as a3 E3. bind_inv H as a4 E4.
  bind_inv H as a5 E5. bind_inv H as a6 E6. bind_inv H as a7 E7. bind_inv H as a8 E8.
  bind_inv H as a9 E9. bind_inv H as a10 E10. bind_inv H as a11 E11. bind_inv H as a12 E12.
  bind_inv H as a13 E13. inversion H; subst.
  eapply static_eq_trans; [exact Hh1|]. repeat split.
Qed.

Lemma execute_bond_static w h self sender funds k h' out :
  execute_bond w h self sender funds k = Some (h', out) -> static_eq h h'.
Proof. intros H. apply execute_bond_frame in H. unfold static_eq. tauto. Qed.

Lemma receive_cw20_static w h self sender user amount hk h' out :
  receive_cw20 w h self sender user amount hk = Some (h', out) -> static_eq h h'.
Proof.
  unfold receive_cw20. intros H. bind_inv H as b Hb. bind_inv H as st Hst.
  destruct hk; [| |discriminate].
  - destruct (sender =? b); [eapply execute_unbond_static; eauto|].
    destruct (sender =? st); [eapply execute_unbond_stsei_static; eauto|discriminate].
  - destruct (sender =? b); [eapply convert_bsei_stsei_static; eauto|].
    destruct (sender =? st); [eapply convert_stsei_bsei_static; eauto|discriminate].
Qed.

Lemma execute_update_global_static w h self sender n h' out :
  execute_update_global w h self sender n = Some (h', out) -> static_eq h h'.
Proof.
  unfold execute_update_global. intros H. check_inv H as Hauth.
  bind_inv H as d Hd. bind_inv H as hooks Hhooks. inversion H; subst. repeat split.
Qed.

(** every hub message other than the five configuration messages leaves config, parameters,
    nominee and legacy wait list untouched *)
Definition is_admin_msg (m : hub_msg) : bool :=
  match m with
  | HParams _ _ _ _ _ _ | HConfig _ _ _ _ _ _ _ | HSetOwner _ | HAccept | HMigrate _ => true
  | _ => false
  end.

Lemma hub_execute_static w h self sender funds m h' out :
  hub_execute w h self sender funds m = Some (h', out) -> is_admin_msg m = false -> static_eq h h'.
Proof.
  unfold hub_execute. intros H Hm.
  destruct m; try discriminate Hm; check_inv H as Hp.
  - eapply execute_bond_static; eauto.
  - eapply execute_bond_static; eauto.
  - eapply execute_bond_static; eauto.
  - eapply execute_update_global_static; eauto.
  - eapply execute_withdraw_static; eauto.
  - bind_inv H as h1 Hh1. inversion H; subst. eapply slashing_static; eauto.
  - bind_inv H as reg Hreg. check_inv H as Hs. inversion H; subst. apply static_eq_refl.
  - check_inv H as Hs. bind_inv H as t Ht. check_inv H as Hb. inversion H; subst. apply static_eq_refl.
  - bind_inv H as reg Hreg. check_inv H as Hs. inversion H; subst. apply static_eq_refl.
  - eapply receive_cw20_static; eauto.
Qed.
