(** * BooksP: C02 at transaction and history level — the hub never books more stake than is delegated.

    Main theorems (no envelope hypothesis unless stated; [Books] is defined in Proofs/Inv.v):
    - [step_msg_books]      : the stack-aware invariant [BooksS] (booked + pending hub Undelegate
                              <= delegated + pending hub Delegate) is kept by every executed message,
                              for every interleaving of other contracts' messages and re-entrant calls;
    - [tx_books_preserved]  : a successful transaction keeps [Books];
    - [step_books_preserved]: every operation of a history other than a slashing event keeps [Books];
    - [EntWf_reachable]     : in every reachable world the delegation table is well formed and stake is
                              booked only while the hub has a delegation entry;
    - [tx_books_after_pricing] / [books_after_pricing_reachable] :
                              in every reachable world (any slashing history), after every successful
                              transaction that executed a pricing hub message (Bond, BondForStSei,
                              BondRewards, CheckSlashing, Unbond / Convert receive hooks) [Books] holds;
    - [token_send_reaches_hub] : a successful cw20 Send to the hub executes the Receive hook, so Unbond
                              and Convert transactions are pricing transactions;
    - [tx_gap_preserved]    : (envelope: underlying coin = usei) starting from [Books], every successful
                              transaction changes delegated and booked stake by the same amount
                              (delegated - booked is unchanged);
    - [tx_nosurplus_preserved] / [step_nosurplus_preserved] / [tx_books_exact_after_pricing] :
                              delegated <= booked is kept by every transaction and operation (except
                              re-instantiating the hub), hence after a pricing transaction the booked
                              stake EQUALS the delegated stake.
    Helper files: BooksEnv.v (environment), BooksHub.v (handlers), BooksLiquid.v (liquid balance),
    BooksExamples.v (non-vacuity). *)
From Krp Require Import Tactics Prelude Fixed FMap Types Env Registry Cw20 Reward Dispatcher Hub Exec
     ExecP Hist Inv RegistryP HubFrame HubAdmin BooksEnv BooksHub.
Open Scope N_scope.

(** ** one executed message, by cases *)
Definition is_staking (m : cmsg) : bool :=
  match m with MDelegate _ _ | MUndelegate _ _ | MRedelegate _ _ _ => true | _ => false end.

Inductive step_case (w : world) (s : addr) (m : cmsg) (w' : world) (out : list (addr * cmsg)) : Prop :=
| SC_hub funds hm e1 h h' o :
    m = MWasm A_hub (WHub hm) funds -> send_coins (w_env w) s A_hub funds = Some e1 ->
    w_hub w = Some h -> hub_execute (set_env w e1) h A_hub s funds hm = Some (h', o) ->
    w' = set_hub (set_env w e1) h' -> out = map (fun x => (A_hub, x)) o ->
    step_case w s m w' out
| SC_other :
    w_hub w' = w_hub w -> e_del (w_env w') = e_del (w_env w) ->
    Forall (fun sm => fst sm <> A_hub) out -> is_staking m = false ->
    (forall hm f, m <> MWasm A_hub (WHub hm) f) ->
    step_case w s m w' out
| SC_del v c e' :
    m = MDelegate v c -> do_delegate (w_env w) s v c = Some e' -> w' = set_env w e' -> out = [] ->
    step_case w s m w' out
| SC_und v c e' :
    m = MUndelegate v c -> do_undelegate (w_env w) s v c = Some e' -> w' = set_env w e' -> out = [] ->
    step_case w s m w' out
| SC_red a b c e' :
    m = MRedelegate a b c -> do_redelegate (w_env w) s a b c = Some e' -> w' = set_env w e' -> out = [] ->
    step_case w s m w' out.

Lemma Forall_map_fst_ne {A} (to : addr) (o : list A) :
  to <> A_hub -> Forall (fun sm : addr * A => fst sm <> A_hub) (map (fun x => (to, x)) o).
Proof. intros Hne. apply Forall_forall. intros sm Hi. apply in_map_iff in Hi. destruct Hi as (x & <- & _). exact Hne. Qed.

Ltac neq_addr := let E := fresh "E" in intros E; vm_compute in E; discriminate E.

Lemma step_msg_cases w s m w' out : step_msg w s m = Some (w', out) -> step_case w s m w' out.
Proof.
  intros H. pose proof (step_msg_env_del _ _ _ _ _ H) as Hd. pose proof H as H0. apply step_msg_inv in H0.
  destruct H0 as [e' -> -> Hn | to wm funds e1 o -> Hsend Hc ->].
  - destruct m.
    + exfalso; eapply Hn; reflexivity.
    + apply SC_other; auto; intros; discriminate.
    + cbn [w_env set_env] in Hd. eapply SC_del; eauto.
    + cbn [w_env set_env] in Hd. eapply SC_und; eauto.
    + cbn [w_env set_env] in Hd. eapply SC_red; eauto.
    + apply SC_other; auto; intros; discriminate.
    + apply SC_other; auto; intros; discriminate.
  - destruct Hc as [h hm h' -> -> Hw He -> | r rm r' -> _ Hw He -> | d dm d' -> -> Hw He ->
                   | g gm g' -> -> Hw He -> | t cm t' -> -> Hw He -> | t cm t' -> -> Hw He ->
                   | sm e' -> -> He -> -> | -> -> ->].
    + eapply SC_hub; eauto.
    + apply SC_other; auto; [apply Forall_map_fst_ne; neq_addr | intros hm0 f0 E0; inversion E0].
    + apply SC_other; auto; [apply Forall_map_fst_ne; neq_addr | intros hm0 f0 E0; inversion E0].
    + apply SC_other; auto; [apply Forall_map_fst_ne; neq_addr | intros hm0 f0 E0; inversion E0].
    + apply SC_other; auto; [apply Forall_map_fst_ne; neq_addr | intros hm0 f0 E0; inversion E0].
    + apply SC_other; auto; [apply Forall_map_fst_ne; neq_addr | intros hm0 f0 E0; inversion E0].
    + apply SC_other; auto; [constructor | intros hm0 f0 E0; inversion E0].
    + apply SC_other; auto; [constructor | intros hm0 f0 E0; inversion E0].
Qed.

(** ** pending staking messages of the hub in the work stack *)
Definition hub_d (sm : addr * cmsg) : N := if fst sm =? A_hub then dmsg_amt (snd sm) else 0.
Definition hub_u (sm : addr * cmsg) : N := if fst sm =? A_hub then umsg_amt (snd sm) else 0.
Definition pD (stk : list (addr * cmsg)) : N := sumN (map hub_d stk).
Definition pU (stk : list (addr * cmsg)) : N := sumN (map hub_u stk).

Lemma pD_app a b : pD (a ++ b) = pD a + pD b.
Proof. unfold pD. rewrite map_app, sumN_app. reflexivity. Qed.
Lemma pU_app a b : pU (a ++ b) = pU a + pU b.
Proof. unfold pU. rewrite map_app, sumN_app. reflexivity. Qed.

Lemma pD_hub o : pD (map (fun x => (A_hub, x)) o) = dsum o.
Proof. unfold pD, dsum. rewrite map_map. reflexivity. Qed.
Lemma pU_hub o : pU (map (fun x => (A_hub, x)) o) = usum o.
Proof. unfold pU, usum. rewrite map_map. reflexivity. Qed.

Lemma pDU_nonhub out : Forall (fun sm : addr * cmsg => fst sm <> A_hub) out -> pD out = 0 /\ pU out = 0.
Proof.
  unfold pD, pU. induction 1 as [|sm l Hsm Hl IH]; cbn [map sumN]; [auto|].
  destruct IH as [I1 I2]. unfold hub_d at 1, hub_u at 1.
  assert (E : (fst sm =? A_hub) = false) by (apply N.eqb_neq; exact Hsm). rewrite E. lia.
Qed.

Lemma pDU_cons s m rest :
  pD ((s, m) :: rest) = hub_d (s, m) + pD rest /\ pU ((s, m) :: rest) = hub_u (s, m) + pU rest.
Proof. split; reflexivity. Qed.

(** ** the stack-aware books invariant *)
Definition BooksS (w : world) (stk : list (addr * cmsg)) : Prop :=
  DelWf (w_env w) /\
  forall h, w_hub w = Some h -> booked h + pU stk <= delegated (w_env w) A_hub + pD stk.

Lemma BooksS_nil w : BooksS w [] <-> DelWf (w_env w) /\ Books w.
Proof.
  unfold BooksS, Books, pU, pD. cbn [map sumN]. split; intros [A B]; split; auto; intros h Hh;
    specialize (B h Hh); lia.
Qed.

Theorem step_msg_books w s m rest w' out :
  BooksS w ((s, m) :: rest) -> step_msg w s m = Some (w', out) -> BooksS w' (out ++ rest).
Proof.
  intros [Hwf HB] H. apply step_msg_cases in H.
  destruct (pDU_cons s m rest) as [ED EU]. rewrite ED, EU in HB. clear ED EU.
  unfold BooksS. rewrite pD_app, pU_app.
  destruct H as [funds hm e1 h h' o -> Hsend Hw He -> -> | Hh Hd Hout Hst _
                | v c e' -> He -> -> | v c e' -> He -> -> | a b c e' -> He -> ->].
  - (* hub call *)
    apply send_coins_static in Hsend. destruct Hsend as (_ & _ & Hdel & _).
    cbn [w_env w_hub set_hub set_env]. split; [eapply DelWf_same_del; eauto|].
    intros h0 E. inversion E; subst h0. specialize (HB h Hw).
    apply hub_execute_books_le in He. rewrite pD_hub, pU_hub.
    rewrite (delegated_same_del _ _ A_hub Hdel).
    unfold hub_d, hub_u in HB. cbn [fst snd dmsg_amt umsg_amt] in HB.
    destruct (s =? A_hub); lia.
  - (* anything that touches neither the hub nor the delegation table *)
    split; [eapply DelWf_same_del; eauto|]. intros h E. rewrite Hh in E. specialize (HB h E).
    destruct (pDU_nonhub _ Hout) as [-> ->]. rewrite (delegated_same_del _ _ A_hub Hd).
    assert (Z : hub_d (s, m) = 0 /\ hub_u (s, m) = 0).
    { unfold hub_d, hub_u. cbn [fst snd]. destruct (s =? A_hub); [|auto].
      destruct m; cbn [dmsg_amt umsg_amt is_staking] in *; auto; discriminate. }
    destruct Z as [Z1 Z2]. lia.
  - (* Delegate *)
    cbn [w_env w_hub set_env app]. apply do_delegate_spec in He.
    destruct He as (_ & _ & _ & _ & _ & _ & Hdg & Hoth & _ & _ & _ & _ & _ & _ & _ & _ & Hwf').
    split; [apply Hwf'; exact Hwf|]. intros h E. specialize (HB h E).
    unfold hub_d, hub_u in HB. cbn [fst snd dmsg_amt umsg_amt] in HB.
    destruct (s =? A_hub) eqn:Es.
    + apply N.eqb_eq in Es. subst s. rewrite Hdg. cbn [pD pU map sumN]. lia.
    + apply N.eqb_neq in Es. unfold delegated. rewrite Hoth by congruence. fold (delegated (w_env w) A_hub).
      cbn [pD pU map sumN]. lia.
  - (* Undelegate *)
    cbn [w_env w_hub set_env app]. apply do_undelegate_spec in He; [|exact Hwf].
    destruct He as (_ & _ & _ & _ & _ & _ & Hdg & Hoth & _ & _ & _ & _ & _ & _ & _ & Hwf').
    split; [exact Hwf'|]. intros h E. specialize (HB h E).
    unfold hub_d, hub_u in HB. cbn [fst snd dmsg_amt umsg_amt] in HB.
    destruct (s =? A_hub) eqn:Es.
    + apply N.eqb_eq in Es. subst s. cbn [pD pU map sumN]. lia.
    + apply N.eqb_neq in Es. unfold delegated. rewrite Hoth by congruence. fold (delegated (w_env w) A_hub).
      cbn [pD pU map sumN]. lia.
  - (* Redelegate *)
    cbn [w_env w_hub set_env app]. apply do_redelegate_spec in He; [|exact Hwf].
    destruct He as (_ & _ & _ & _ & _ & _ & _ & _ & _ & Hdg & Hoth & _ & _ & _ & _ & _ & _ & _ & _ & Hwf').
    split; [exact Hwf'|]. intros h E. specialize (HB h E).
    unfold hub_d, hub_u in HB. cbn [fst snd dmsg_amt umsg_amt] in HB.
    assert (Hsame : delegated e' A_hub = delegated (w_env w) A_hub).
    { destruct (s =? A_hub) eqn:Es.
      - apply N.eqb_eq in Es. subst s. exact Hdg.
      - apply N.eqb_neq in Es. unfold delegated. rewrite Hoth by congruence. reflexivity. }
    rewrite Hsame. cbn [pD pU map sumN]. destruct (s =? A_hub); lia.
Qed.

(** C02: a successful transaction never takes the books above the delegations *)
Theorem tx_books_preserved w sender target m funds w' tr :
  DelWf (w_env w) -> Books w ->
  run tx_fuel w [(sender, MWasm target m funds)] [] = Some (w', tr) ->
  DelWf (w_env w') /\ Books w'.
Proof.
  intros Hwf HB H. apply BooksS_nil.
  eapply (run_preserves_stack BooksS); [|
    | exact H].
  - intros. eapply step_msg_books; eauto.
  - split; [exact Hwf|]. intros h Hh. specialize (HB h Hh).
    unfold pU, pD, hub_u, hub_d. cbn [map sumN fst snd dmsg_amt umsg_amt]. destruct (sender =? A_hub); lia.
Qed.

(** ** stake is booked only while the hub has a delegation entry *)
Definition Ent (w : world) : Prop :=
  forall h, w_hub w = Some h -> booked h = 0 \/ all_delegations (w_env w) A_hub <> [].
Definition EntWf (w : world) : Prop := DelWf (w_env w) /\ Ent w.

Lemma Books_Ent w : Books w -> Ent w.
Proof.
  intros HB h Hh. specialize (HB h Hh). destruct (N.eq_dec (booked h) 0) as [Z|NZ]; [left; exact Z|].
  right. apply delegated_pos_entries. lia.
Qed.

Definition hub_du (sm : addr * cmsg) : bool := (fst sm =? A_hub) && is_du (snd sm).
Definition NoHubDU (stk : list (addr * cmsg)) : Prop := Forall (fun sm => hub_du sm = false) stk.

Lemma NoHubDU_sums stk : NoHubDU stk -> pD stk = 0 /\ pU stk = 0.
Proof.
  unfold NoHubDU, pD, pU. induction 1 as [|sm l Hsm Hl IH]; cbn [map sumN]; [auto|].
  destruct IH as [I1 I2]. unfold hub_du in Hsm. unfold hub_d at 1, hub_u at 1.
  destruct (fst sm =? A_hub); [|lia]. cbn [andb] in Hsm.
  destruct (snd sm); cbn [is_du dmsg_amt umsg_amt] in *; try discriminate; lia.
Qed.

Lemma NoHubDU_nonhub out : Forall (fun sm : addr * cmsg => fst sm <> A_hub) out -> NoHubDU out.
Proof.
  unfold NoHubDU. intros H. eapply Forall_impl; [|exact H]. intros sm Hne. unfold hub_du.
  assert (E : (fst sm =? A_hub) = false) by (apply N.eqb_neq; exact Hne). rewrite E. reflexivity.
Qed.

Lemma NoHubDU_hub o : NoDU o -> NoHubDU (map (fun x => (A_hub, x)) o).
Proof.
  unfold NoDU, NoHubDU. intros H. apply Forall_forall. intros sm Hi. apply in_map_iff in Hi.
  destruct Hi as (x & <- & Hx). unfold hub_du. cbn [fst snd].
  rewrite (proj1 (Forall_forall _ _) H x Hx). apply andb_false_r.
Qed.

Definition Phase1 (w : world) (stk : list (addr * cmsg)) : Prop := EntWf w /\ NoHubDU stk.

(** a message that makes the hub run its slashing check *)
Definition is_pricing_msg (sm : addr * cmsg) : bool :=
  match snd sm with
  | MWasm to (WHub hm) _ => (to =? A_hub) && is_pricing hm
  | _ => false
  end.

Lemma step_msg_phase1 w s m rest w' out :
  Phase1 w ((s, m) :: rest) -> step_msg w s m = Some (w', out) ->
  (is_pricing_msg (s, m) = true -> BooksS w' (out ++ rest)) /\
  (is_pricing_msg (s, m) = false -> Phase1 w' (out ++ rest)).
Proof.
  intros [[Hwf HE] Hstk] H. apply step_msg_cases in H.
  inversion Hstk as [|? ? Hhead Hrest]; subst.
  destruct (NoHubDU_sums _ Hrest) as [RD RU].
  destruct H as [funds hm e1 h h' o -> Hsend Hw He -> -> | Hh Hd Hout Hst Hnh
                | v c e' -> He -> -> | v c e' -> He -> -> | a b c e' -> He -> ->].
  - (* hub call *)
    apply send_coins_static in Hsend. destruct Hsend as (_ & _ & Hdel & _).
    assert (Hwf1 : DelWf e1) by (eapply DelWf_same_del; eauto).
    assert (Had : all_delegations e1 A_hub = all_delegations (w_env w) A_hub)
      by (apply all_delegations_same_del; exact Hdel).
    unfold is_pricing_msg. cbn [snd]. rewrite N.eqb_refl. cbn [andb].
    pose proof (hub_execute_books _ _ _ _ _ _ _ _ He) as (P & Q & _).
    split; intros Hp.
    + destruct (P Hp) as (h1 & Hs & Eq).
      apply slashing_restores in Hs;
        [|change (w_env (set_env w e1)) with e1; rewrite Had; apply HE; exact Hw].
      change (w_env (set_env w e1)) with e1 in Hs.
      split; [exact Hwf1|]. cbn [w_env w_hub set_hub set_env]. intros h0 E. inversion E; subst h0.
      rewrite pD_app, pU_app, pD_hub, pU_hub, RD, RU. lia.
    + destruct (Q Hp) as (A & B & C). split; [split|].
      * exact Hwf1.
      * unfold Ent. cbn [w_env w_hub set_hub set_env]. intros h0 E. inversion E; subst h0. rewrite Had.
        unfold booked. rewrite A, B. apply HE. exact Hw.
      * apply Forall_app. split; [apply NoHubDU_hub; exact C|exact Hrest].
  - (* neither hub nor delegation table *)
    assert (Hnp : is_pricing_msg (s, m) = false).
    { unfold is_pricing_msg. cbn [snd]. destruct m as [to [hm| | | | | |] f| | | | | |]; try reflexivity.
      destruct (to =? A_hub) eqn:E; [|reflexivity]. apply N.eqb_eq in E. subst to.
      exfalso. eapply Hnh. reflexivity. }
    rewrite Hnp. split; [discriminate|]. intros _. split; [split|].
    + eapply DelWf_same_del; eauto.
    + intros h E. rewrite Hh in E. rewrite (all_delegations_same_del _ _ A_hub Hd). apply HE. exact E.
    + apply Forall_app. split; [apply NoHubDU_nonhub; exact Hout|exact Hrest].
  - (* Delegate: not sent by the hub in this phase *)
    unfold is_pricing_msg. cbn [snd app]. split; [discriminate|]. intros _.
    unfold hub_du in Hhead. cbn [fst snd is_du] in Hhead. rewrite andb_true_r in Hhead.
    apply N.eqb_neq in Hhead.
    apply do_delegate_spec in He.
    destruct He as (_ & _ & _ & _ & _ & _ & _ & Hoth & _ & _ & _ & _ & _ & _ & _ & _ & Hwf').
    split; [split|exact Hrest]; cbn [w_env w_hub set_env]; [apply Hwf'; exact Hwf|].
    intros h E. rewrite Hoth by congruence. apply HE. exact E.
  - unfold is_pricing_msg. cbn [snd app]. split; [discriminate|]. intros _.
    unfold hub_du in Hhead. cbn [fst snd is_du] in Hhead. rewrite andb_true_r in Hhead.
    apply N.eqb_neq in Hhead.
    apply do_undelegate_spec in He; [|exact Hwf].
    destruct He as (_ & _ & _ & _ & _ & _ & _ & Hoth & _ & _ & _ & _ & _ & _ & _ & Hwf').
    split; [split|exact Hrest]; cbn [w_env w_hub set_env]; [exact Hwf'|].
    intros h E. rewrite Hoth by congruence. apply HE. exact E.
  - (* Redelegate: keeps an entry *)
    unfold is_pricing_msg. cbn [snd app]. split; [discriminate|]. intros _.
    apply do_redelegate_spec in He; [|exact Hwf].
    destruct He as (_ & _ & _ & _ & _ & Hdst & _ & _ & _ & _ & Hoth & Hent & _ & _ & _ & _ & _ & _ & _ & Hwf').
    split; [split|exact Hrest]; cbn [w_env w_hub set_env]; [exact Hwf'|].
    intros h E. destruct (N.eq_dec s A_hub) as [->|Hne].
    + right. intros Hnil. rewrite all_delegations_nil in Hnil.
      apply Hent. apply Hnil. apply is_val_In. exact Hdst.
    + rewrite Hoth by congruence. apply HE. exact E.
Qed.

(** two-phase execution: until the first pricing message [Phase1] holds, from then on [BooksS] *)
Lemma run_two_phase : forall fuel w stk tr w' tr',
  run fuel w stk tr = Some (w', tr') ->
  exists ex, tr' = tr ++ ex /\
    (BooksS w stk -> BooksS w' []) /\
    (Phase1 w stk -> (existsb is_pricing_msg ex = true -> BooksS w' []) /\
                     (existsb is_pricing_msg ex = false -> Phase1 w' [])).
Proof.
  induction fuel as [|f IH]; intros w stk tr w' tr' H.
  - destruct stk as [|[s m] rest]; cbn [run] in H; [|discriminate]. inversion H; subst.
    exists []. rewrite app_nil_r. cbn [existsb].
    split; [reflexivity|]. split; [auto|]. intros HP. split; [discriminate|auto].
  - destruct stk as [|[s m] rest]; cbn [run] in H.
    + inversion H; subst. exists []. rewrite app_nil_r. cbn [existsb].
    split; [reflexivity|]. split; [auto|]. intros HP. split; [discriminate|auto].
    + bind_inv H as r Hr. destruct r as [w1 out]. cbn [fst snd] in H.
      destruct (IH _ _ _ _ _ H) as (ex1 & -> & IB & IP).
      exists ((s, m) :: ex1). rewrite <- app_assoc. split; [reflexivity|]. split.
      * intros HB. apply IB. eapply step_msg_books; eauto.
      * intros HP. destruct (step_msg_phase1 _ _ _ _ _ _ HP Hr) as [S1 S2]. cbn [existsb].
        destruct (is_pricing_msg (s, m)) eqn:Ep; cbn [orb].
        -- split; [intros _; apply IB; apply S1; reflexivity | discriminate].
        -- apply IP. apply S2. reflexivity.
Qed.

Lemma root_phase1 w sender target m funds : EntWf w -> Phase1 w [(sender, MWasm target m funds)].
Proof.
  intros H. split; [exact H|]. constructor; [|constructor]. unfold hub_du. cbn [fst snd is_du]. apply andb_false_r.
Qed.

(** C02: in a world where stake is booked only while the hub has a delegation entry (every reachable
    world, see below) — whatever slashing happened before — a successful transaction that executed a
    pricing hub message ends with booked <= delegated *)
Theorem tx_books_after_pricing w sender target m funds w' tr :
  EntWf w ->
  run tx_fuel w [(sender, MWasm target m funds)] [] = Some (w', tr) ->
  existsb is_pricing_msg tr = true ->
  DelWf (w_env w') /\ Books w'.
Proof.
  intros HE H Hp. destruct (run_two_phase _ _ _ _ _ _ H) as (ex & E & _ & IP).
  cbn [app] in E. subst ex. apply BooksS_nil. apply (IP (root_phase1 _ _ _ _ _ HE)). exact Hp.
Qed.

Lemma tx_entwf w sender target m funds w' tr :
  EntWf w -> run tx_fuel w [(sender, MWasm target m funds)] [] = Some (w', tr) -> EntWf w'.
Proof.
  intros HE H. destruct (run_two_phase _ _ _ _ _ _ H) as (ex & E & _ & IP).
  destruct (IP (root_phase1 _ _ _ _ _ HE)) as [I1 I2].
  destruct (existsb is_pricing_msg ex).
  - apply BooksS_nil in I1; [|reflexivity]. destruct I1 as [A B]. split; [exact A|apply Books_Ent; exact B].
  - apply I2. reflexivity.
Qed.

(** ** histories *)
Lemma step_entwf w o : EntWf w -> EntWf (fst (step w o)).
Proof.
  intros [Hwf HE]. unfold EntWf, Ent. destruct o; cbn [step].
  - (* reset *) split; [apply DelWf_empty|]. intros h Hh. discriminate.
  - destruct (e_now (w_env w) + dt <=? 18446744073); cbn [fst]; [|split; assumption].
    split; cbn [w_env set_env w_hub].
    + eapply DelWf_same_del; [apply ev_advance_del|exact Hwf].
    + intros h Hh. rewrite (all_delegations_same_del _ _ A_hub (ev_advance_del (w_env w) dt)). apply HE. exact Hh.
  - destruct (ev_slash (w_env w) v num den unb) as [e'|] eqn:Es; cbn [fst]; [|split; assumption].
    apply ev_slash_spec in Es. destruct Es as (_ & _ & _ & _ & _ & _ & Hnil & _ & _ & _ & Hwf').
    split; cbn [w_env set_env w_hub]; [apply Hwf'; exact Hwf|].
    intros h Hh. destruct (HE h Hh) as [Z|NZ]; [left; exact Z|right]. intros E. apply NZ. apply Hnil. exact E.
  - destruct (ev_accrue (w_env w) A_hub v d a) as [e'|] eqn:Ea; cbn [fst]; [|split; assumption].
    apply ev_accrue_del in Ea. split; cbn [w_env set_env w_hub]; [eapply DelWf_same_del; eauto|].
    intros h Hh. rewrite (all_delegations_same_del _ _ A_hub Ea). apply HE. exact Hh.
  - split; [exact Hwf|exact HE].
  - destruct (p =? 0); cbn [fst]; split; assumption.
  - split; [exact Hwf|exact HE].
  - split; [exact Hwf|exact HE].
  - split; [exact Hwf|exact HE].
  - destruct (w_hub w) as [h|] eqn:Hh; cbn [fst]; [|split; assumption].
    split; [exact Hwf|]. cbn [w_hub set_hub w_env]. intros h0 E. inversion E; subst h0.
    change (booked (set_h_oldwait h (oldwait_put (h_oldwait h) (a, batch) amt))) with (booked h).
    apply HE. exact Hh.
  - (* instantiate hub *) cbn [fst]. split; [exact Hwf|]. cbn [w_hub set_w_hub w_env]. intros h Hh.
    left. unfold hub_instantiate in Hh. check_inv Hh as Hf. inversion Hh; subst. reflexivity.
  - split; [exact Hwf|exact HE].
  - split; [exact Hwf|exact HE].
  - split; [exact Hwf|exact HE].
  - split; [exact Hwf|exact HE].
  - split; [exact Hwf|exact HE].
  - destruct (run tx_fuel w _ []) as [[w1 tr1]|] eqn:E; cbn [fst]; [|split; assumption].
    eapply tx_entwf; [split; eassumption|exact E].
Qed.

(** in every world reached by ANY history the delegation table is well formed and stake is booked
    only while the hub has a delegation entry *)
Theorem EntWf_reachable ut ops : EntWf (run_ops ops (empty_world ut)).
Proof.
  apply run_ops_preserves.
  - split; [apply DelWf_empty|]. intros h Hh. discriminate.
  - intros w o. apply step_entwf.
Qed.

(** C02 along histories: after any history (any bonds, unbonds, validator changes and slashing
    events), every successful transaction that executed a pricing hub message leaves
    booked <= delegated *)
Theorem books_after_pricing_reachable ut ops sender target m funds w' tr :
  run tx_fuel (run_ops ops (empty_world ut)) [(sender, MWasm target m funds)] [] = Some (w', tr) ->
  existsb is_pricing_msg tr = true ->
  Books w'.
Proof.
  intros H Hp. eapply tx_books_after_pricing; [apply EntWf_reachable|exact H|exact Hp].
Qed.

(** [Books] is kept by every operation of a history except a slashing event *)
Theorem step_books_preserved w o :
  DelWf (w_env w) -> Books w -> (forall v num den unb, o <> OSlash v num den unb) ->
  DelWf (w_env (fst (step w o))) /\ Books (fst (step w o)).
Proof.
  intros Hwf HB Hns. destruct o; cbn [step].
  - split; [apply DelWf_empty|]. intros h Hh. discriminate.
  - destruct (e_now (w_env w) + dt <=? 18446744073); cbn [fst]; [|split; assumption].
    split; cbn [w_env set_env w_hub].
    + eapply DelWf_same_del; [apply ev_advance_del|exact Hwf].
    + intros h Hh. cbn [w_env set_env]. rewrite (delegated_same_del _ _ A_hub (ev_advance_del (w_env w) dt)). apply HB. exact Hh.
  - exfalso. eapply Hns. reflexivity.
  - destruct (ev_accrue (w_env w) A_hub v d a) as [e'|] eqn:Ea; cbn [fst]; [|split; assumption].
    apply ev_accrue_del in Ea. split; cbn [w_env set_env w_hub]; [eapply DelWf_same_del; eauto|].
    intros h Hh. cbn [w_env set_env]. rewrite (delegated_same_del _ _ A_hub Ea). apply HB. exact Hh.
  - split; [exact Hwf|exact HB].
  - destruct (p =? 0); cbn [fst]; split; assumption.
  - split; [exact Hwf|exact HB].
  - split; [exact Hwf|exact HB].
  - split; [exact Hwf|exact HB].
  - destruct (w_hub w) as [h|] eqn:Hh; cbn [fst]; [|split; assumption].
    split; [exact Hwf|]. intros h0 E. cbn [w_hub set_hub] in E. inversion E; subst h0.
    change (booked (set_h_oldwait h (oldwait_put (h_oldwait h) (a, batch) amt))) with (booked h).
    apply HB. exact Hh.
  - cbn [fst]. split; [exact Hwf|]. intros h Hh. cbn [w_hub set_w_hub] in Hh.
    unfold hub_instantiate in Hh. check_inv Hh as Hf. inversion Hh; subst. unfold booked. cbn. lia.
  - split; [exact Hwf|exact HB].
  - split; [exact Hwf|exact HB].
  - split; [exact Hwf|exact HB].
  - split; [exact Hwf|exact HB].
  - split; [exact Hwf|exact HB].
  - destruct (run tx_fuel w _ []) as [[w1 tr1]|] eqn:E; cbn [fst]; [|split; assumption].
    eapply tx_books_preserved; eauto.
Qed.

(** ** which transactions are pricing transactions *)
Lemma run_stack_in_trace : forall fuel w stk tr w' tr',
  run fuel w stk tr = Some (w', tr') -> forall sm, In sm stk \/ In sm tr -> In sm tr'.
Proof.
  induction fuel as [|f IH]; intros w stk tr w' tr' H sm Hi.
  - destruct stk as [|[s m] rest]; cbn [run] in H; [|discriminate]. inversion H; subst.
    destruct Hi as [[]|Hi]; exact Hi.
  - destruct stk as [|[s m] rest]; cbn [run] in H.
    + inversion H; subst. destruct Hi as [[]|Hi]; exact Hi.
    + bind_inv H as r Hr. eapply IH; [exact H|].
      destruct Hi as [[<-|Hi]|Hi].
      * right. apply in_or_app. right. left. reflexivity.
      * left. apply in_or_app. right. exact Hi.
      * right. apply in_or_app. left. exact Hi.
Qed.

Lemma run_S f w s m rest tr :
  run (S f) w ((s, m) :: rest) tr =
  (do r <- step_msg w s m; run f (fst r) (snd r ++ rest) (tr ++ [(s, m)])).
Proof. reflexivity. Qed.

Lemma tx_fuel_S : exists f, tx_fuel = S f.
Proof. exists 399%nat. reflexivity. Qed.

(** every message emitted by the root call of a successful transaction is executed *)
Lemma root_emitted_in_trace w sender target m funds w' tr w1 out :
  run tx_fuel w [(sender, MWasm target m funds)] [] = Some (w', tr) ->
  step_msg w sender (MWasm target m funds) = Some (w1, out) ->
  In (sender, MWasm target m funds) tr /\ forall sm, In sm out -> In sm tr.
Proof.
  intros H Hs. split.
  - eapply run_stack_in_trace; [exact H|]. left. left. reflexivity.
  - destruct tx_fuel_S as [f Ef]. rewrite Ef, run_S, Hs in H. cbn [bind fst snd] in H.
    intros sm Hi. eapply run_stack_in_trace; [exact H|]. left. apply in_or_app. left. exact Hi.
Qed.

Lemma pricing_in_trace tr sm : In sm tr -> is_pricing_msg sm = true -> existsb is_pricing_msg tr = true.
Proof. intros Hi Hp. apply existsb_exists. exists sm. auto. Qed.

(** a successful cw20 Send to a contract executes that contract's Receive hook *)
Theorem token_send_reaches_hub w sender target c amt hk funds w' tr :
  target = A_bsei \/ target = A_stsei ->
  run tx_fuel w [(sender, MWasm target (WCw20 (CSend c amt hk)) funds)] [] = Some (w', tr) ->
  In (target, MWasm c (WHub (HReceive sender amt hk)) []) tr.
Proof.
  intros Ht H.
  assert (Hs : exists w1 out, step_msg w sender (MWasm target (WCw20 (CSend c amt hk)) funds) = Some (w1, out)).
  { destruct tx_fuel_S as [f Ef]. rewrite Ef, run_S in H.
    destruct (step_msg w sender _) as [[w1 out]|]; [eauto|discriminate]. }
  destruct Hs as (w1 & out & Hs).
  apply (root_emitted_in_trace _ _ _ _ _ _ _ _ _ H Hs).
  apply step_msg_inv in Hs. destruct Hs as [e' _ _ Hn | to wm f e1 o Hm Hsend Hc ->]; [exfalso; eapply Hn; reflexivity|].
  inversion Hm; subst to wm f. clear Hm.
  apply in_map_iff. exists (MWasm c (WHub (HReceive sender amt hk)) []). split; [reflexivity|].
  destruct Hc as [h hm h' E1 E2 Hw He -> | r rm r' E1 E2 Hw He -> | d dm d' E1 E2 Hw He ->
                 | g gm g' E1 E2 Hw He -> | t cm t' E1 E2 Hw He -> | t cm t' E1 E2 Hw He ->
                 | sm e' E1 E2 He -> -> | E1 -> ->]; try discriminate E2;
    try (destruct E2 as [E2|(n & E2 & _)]; discriminate E2);
    try (destruct Ht as [Ht|Ht]; rewrite Ht in E1; vm_compute in E1; discriminate E1).
  - (* bSei *) inversion E2; subst cm. unfold bsei_execute in He.
    bind_inv He as rc Hrc. check_inv He as Hz. bind_inv He as t1 Ht1. inversion He; subst.
    right. right. left. reflexivity.
  - (* stSei *) inversion E2; subst cm. unfold stsei_execute in He.
    check_inv He as Hz. bind_inv He as t1 Ht1. inversion He; subst. left. reflexivity.
Qed.

(** C02: Bond / BondForStSei / BondRewards / CheckSlashing transactions *)
Corollary hub_pricing_tx_books w sender hm funds w' tr :
  EntWf w -> is_pricing hm = true ->
  run tx_fuel w [(sender, MWasm A_hub (WHub hm) funds)] [] = Some (w', tr) ->
  Books w'.
Proof.
  intros HE Hp H. eapply tx_books_after_pricing; [exact HE|exact H|].
  eapply pricing_in_trace.
  - eapply run_stack_in_trace; [exact H|]. left. left. reflexivity.
  - unfold is_pricing_msg. cbn [snd]. rewrite N.eqb_refl. exact Hp.
Qed.

(** C02: Unbond and Convert transactions (cw20 Send of bSei / stSei to the hub) *)
Corollary token_send_tx_books w sender target amt hk funds w' tr :
  EntWf w -> target = A_bsei \/ target = A_stsei -> hk = HkUnbond \/ hk = HkConvert ->
  run tx_fuel w [(sender, MWasm target (WCw20 (CSend A_hub amt hk)) funds)] [] = Some (w', tr) ->
  Books w'.
Proof.
  intros HE Ht Hk H. eapply tx_books_after_pricing; [exact HE|exact H|].
  eapply pricing_in_trace; [eapply token_send_reaches_hub; eauto|].
  unfold is_pricing_msg. cbn [snd]. rewrite N.eqb_refl. destruct Hk as [->| ->]; reflexivity.
Qed.

(** ** exact form: delegated - booked is unchanged by every transaction that starts within [Books]
    (envelope E4: the hub's coin is the staking coin) *)
Fixpoint DUFirst (stk : list (addr * cmsg)) : Prop :=
  match stk with
  | [] => True
  | sm :: r => if hub_du sm then DUFirst r else NoHubDU r
  end.

Lemma NoHubDU_DUFirst stk : NoHubDU stk -> DUFirst stk.
Proof.
  induction 1 as [|sm l Hsm Hl IH]; cbn [DUFirst]; [exact I|]. rewrite Hsm. exact Hl.
Qed.

Lemma DUFirst_hub_out o rest : DUFirstL o -> NoHubDU rest -> DUFirst (map (fun x => (A_hub, x)) o ++ rest).
Proof.
  intros (a & b & -> & Ha & Hb) Hr. rewrite map_app, <- app_assoc.
  induction Ha as [|m a Hm Ha IH]; cbn [map app].
  - apply NoHubDU_DUFirst. apply Forall_app. split; [apply NoHubDU_hub; exact Hb|exact Hr].
  - cbn [DUFirst]. unfold hub_du at 1. cbn [fst snd]. rewrite N.eqb_refl, Hm. cbn [andb]. exact IH.
Qed.

Lemma hub_execute_underlying w h self sender funds m h' out :
  hub_execute w h self sender funds m = Some (h', out) ->
  hp_underlying (h_params h') = hp_underlying (h_params h).
Proof.
  intros H. destruct (is_admin_msg m) eqn:Ha.
  - unfold hub_execute in H. destruct m; try discriminate Ha.
    + apply update_params_spec in H. destruct H as (_ & _ & _ & _ & ->). reflexivity.
    + check_inv H as Hp. apply update_config_spec in H. destruct H as (_ & _ & _ & Hpar & _).
      rewrite Hpar. reflexivity.
    + check_inv H as Hp. check_inv H as Hs. inversion H; subst. reflexivity.
    + check_inv H as Hp. check_inv H as Hs. inversion H; subst. reflexivity.
    + destruct (paused h); [|discriminate]. inversion H; subst.
      pose proof (migrate_params h limit) as M. cbn zeta in M. destruct M as (_ & M2 & _). exact M2.
  - apply hub_execute_static in H; [|exact Ha]. destruct H as (_ & Hpar & _). rewrite Hpar. reflexivity.
Qed.

Definition GapS (g : N) (w : world) (stk : list (addr * cmsg)) : Prop :=
  DelWf (w_env w) /\ DUFirst stk /\
  forall h, w_hub w = Some h ->
    hp_underlying (h_params h) = usei /\
    delegated (w_env w) A_hub + pD stk = booked h + pU stk + g.

Lemma step_msg_gap g w s m rest w' out :
  GapS g w ((s, m) :: rest) -> step_msg w s m = Some (w', out) -> GapS g w' (out ++ rest).
Proof.
  intros (Hwf & Hdu & HB) H. apply step_msg_cases in H.
  destruct (pDU_cons s m rest) as [ED EU]. rewrite ED, EU in HB. clear ED EU.
  unfold GapS. rewrite pD_app, pU_app. cbn [DUFirst] in Hdu.
  destruct H as [funds hm e1 h h' o -> Hsend Hw He -> -> | Hh Hd Hout Hst _
                | v c e' -> He -> -> | v c e' -> He -> -> | a b c e' -> He -> ->].
  - (* hub call: no hub staking message is pending, the check is a no-op *)
    assert (Hhd : hub_du (s, MWasm A_hub (WHub hm) funds) = false)
      by (unfold hub_du; cbn [fst snd is_du]; apply andb_false_r).
    rewrite Hhd in Hdu. destruct (NoHubDU_sums _ Hdu) as [RD RU].
    apply send_coins_static in Hsend. destruct Hsend as (_ & _ & Hdel & _).
    destruct (HB h Hw) as [Hu Heq].
    assert (Z : hub_d (s, MWasm A_hub (WHub hm) funds) = 0 /\ hub_u (s, MWasm A_hub (WHub hm) funds) = 0).
    { unfold hub_d, hub_u. cbn [fst snd dmsg_amt umsg_amt]. destruct (s =? A_hub); auto. }
    destruct Z as [Z1 Z2]. rewrite Z1, Z2, RD, RU in Heq.
    pose proof (hub_execute_underlying _ _ _ _ _ _ _ _ He) as Hu'.
    pose proof (hub_execute_books _ _ _ _ _ _ _ _ He) as (P & Q & Hfirst).
    cbn [w_env w_hub set_hub set_env]. split; [eapply DelWf_same_del; eauto|].
    split; [apply DUFirst_hub_out; assumption|].
    intros h0 E. inversion E; subst h0. split; [congruence|].
    rewrite pD_hub, pU_hub, RD, RU, (delegated_same_del _ _ A_hub Hdel).
    destruct (is_pricing hm).
    + destruct (P eq_refl) as (h1 & Hs & Eq).
      apply slashing_noop in Hs; [|exact Hu|cbn [w_env set_env]; rewrite (delegated_same_del _ _ A_hub Hdel); lia].
      destruct Hs as [A B]. unfold booked in *. lia.
    + destruct (Q eq_refl) as (A & B & C). destruct (NoDU_sums _ C) as [-> ->]. unfold booked in *. lia.
  - assert (Hhd : hub_du (s, m) = false).
    { unfold hub_du. cbn [fst snd]. destruct m; cbn [is_du is_staking] in *; try discriminate; apply andb_false_r. }
    rewrite Hhd in Hdu.
    split; [eapply DelWf_same_del; eauto|].
    split; [apply NoHubDU_DUFirst; apply Forall_app; split; [apply NoHubDU_nonhub; exact Hout|exact Hdu]|].
    intros h E. rewrite Hh in E. destruct (HB h E) as [Hu Heq]. split; [exact Hu|].
    destruct (pDU_nonhub _ Hout) as [-> ->]. rewrite (delegated_same_del _ _ A_hub Hd).
    assert (Z : hub_d (s, m) = 0 /\ hub_u (s, m) = 0).
    { unfold hub_d, hub_u. cbn [fst snd]. destruct (s =? A_hub); [|auto].
      destruct m; cbn [dmsg_amt umsg_amt is_staking] in *; auto; discriminate. }
    destruct Z as [Z1 Z2]. lia.
  - (* Delegate *)
    cbn [w_env w_hub set_env app]. apply do_delegate_spec in He.
    destruct He as (_ & _ & _ & _ & _ & _ & Hdg & Hoth & _ & _ & _ & _ & _ & _ & _ & _ & Hwf').
    split; [apply Hwf'; exact Hwf|].
    unfold hub_du in Hdu. unfold hub_d, hub_u in HB. cbn [fst snd is_du dmsg_amt umsg_amt] in *.
    destruct (s =? A_hub) eqn:Es; cbn [andb] in Hdu.
    + apply N.eqb_eq in Es. subst s. split; [exact Hdu|].
      intros h E. destruct (HB h E) as [Hu Heq]. split; [exact Hu|]. rewrite Hdg.
      cbn [pD pU map sumN]. lia.
    + apply N.eqb_neq in Es. split; [apply NoHubDU_DUFirst; exact Hdu|].
      intros h E. destruct (HB h E) as [Hu Heq]. split; [exact Hu|].
      unfold delegated. rewrite Hoth by congruence. fold (delegated (w_env w) A_hub).
      cbn [pD pU map sumN]. lia.
  - (* Undelegate *)
    cbn [w_env w_hub set_env app]. apply do_undelegate_spec in He; [|exact Hwf].
    destruct He as (_ & _ & _ & _ & _ & _ & Hdg & Hoth & _ & _ & _ & _ & _ & _ & _ & Hwf').
    split; [exact Hwf'|].
    unfold hub_du in Hdu. unfold hub_d, hub_u in HB. cbn [fst snd is_du dmsg_amt umsg_amt] in *.
    destruct (s =? A_hub) eqn:Es; cbn [andb] in Hdu.
    + apply N.eqb_eq in Es. subst s. split; [exact Hdu|].
      intros h E. destruct (HB h E) as [Hu Heq]. split; [exact Hu|]. cbn [pD pU map sumN]. lia.
    + apply N.eqb_neq in Es. split; [apply NoHubDU_DUFirst; exact Hdu|].
      intros h E. destruct (HB h E) as [Hu Heq]. split; [exact Hu|].
      unfold delegated. rewrite Hoth by congruence. fold (delegated (w_env w) A_hub).
      cbn [pD pU map sumN]. lia.
  - (* Redelegate *)
    cbn [w_env w_hub set_env app]. apply do_redelegate_spec in He; [|exact Hwf].
    destruct He as (_ & _ & _ & _ & _ & _ & _ & _ & _ & Hdg & Hoth & _ & _ & _ & _ & _ & _ & _ & _ & Hwf').
    split; [exact Hwf'|].
    assert (Hhd : hub_du (s, MRedelegate a b c) = false) by (unfold hub_du; cbn [fst snd is_du]; apply andb_false_r).
    rewrite Hhd in Hdu. split; [apply NoHubDU_DUFirst; exact Hdu|].
    intros h E. destruct (HB h E) as [Hu Heq]. split; [exact Hu|].
    unfold hub_d, hub_u in Heq. cbn [fst snd dmsg_amt umsg_amt] in Heq.
    assert (Hsame : delegated e' A_hub = delegated (w_env w) A_hub).
    { destruct (s =? A_hub) eqn:Es.
      - apply N.eqb_eq in Es. subst s. exact Hdg.
      - apply N.eqb_neq in Es. unfold delegated. rewrite Hoth by congruence. reflexivity. }
    rewrite Hsame. cbn [pD pU map sumN]. destruct (s =? A_hub); lia.
Qed.

(** C02 (exact form) / C13: starting within [Books], a successful transaction changes the delegated
    and the booked stake by the same amount — bonds add the payment to both, undelegations subtract the
    same amount from both, redelegations and conversions change neither *)
Theorem tx_gap_preserved w sender target m funds w' tr h h' :
  DelWf (w_env w) -> w_hub w = Some h -> hp_underlying (h_params h) = usei ->
  booked h <= delegated (w_env w) A_hub ->
  run tx_fuel w [(sender, MWasm target m funds)] [] = Some (w', tr) ->
  w_hub w' = Some h' ->
  booked h' <= delegated (w_env w') A_hub /\
  delegated (w_env w') A_hub - booked h' = delegated (w_env w) A_hub - booked h.
Proof.
  intros Hwf Hh Hu HB H Hh'.
  assert (G : GapS (delegated (w_env w) A_hub - booked h) w' []).
  { eapply (run_preserves_stack (GapS (delegated (w_env w) A_hub - booked h))); [| |exact H].
    - intros. eapply step_msg_gap; eauto.
    - split; [exact Hwf|]. split.
      + cbn [DUFirst]. unfold hub_du. cbn [fst snd is_du]. rewrite andb_false_r. constructor.
      + intros h0 E. rewrite Hh in E. inversion E; subst h0. split; [exact Hu|].
        unfold pD, pU, hub_d, hub_u. cbn [map sumN fst snd dmsg_amt umsg_amt].
        destruct (sender =? A_hub); lia. }
  destruct G as (_ & _ & G). destruct (G h' Hh') as [_ Heq].
  unfold pD, pU in Heq. cbn [map sumN] in Heq. lia.
Qed.

(** ** the converse bound and the equality at synchronisation points (E4: staking coin = usei) *)
Definition GeS (w : world) (stk : list (addr * cmsg)) : Prop :=
  DelWf (w_env w) /\ DUFirst stk /\
  forall h, w_hub w = Some h ->
    hp_underlying (h_params h) = usei /\
    delegated (w_env w) A_hub + pD stk <= booked h + pU stk.

(** the hub never has more delegated than it has booked (slashing only widens the difference) *)
Definition NoSurplus (w : world) : Prop :=
  DelWf (w_env w) /\
  forall h, w_hub w = Some h ->
    hp_underlying (h_params h) = usei /\ delegated (w_env w) A_hub <= booked h.

Lemma step_msg_ge w s m rest w' out :
  GeS w ((s, m) :: rest) -> step_msg w s m = Some (w', out) -> GeS w' (out ++ rest).
Proof.
  intros (Hwf & Hdu & HB) H. apply step_msg_cases in H.
  destruct (pDU_cons s m rest) as [ED EU]. rewrite ED, EU in HB. clear ED EU.
  unfold GeS. rewrite pD_app, pU_app. cbn [DUFirst] in Hdu.
  destruct H as [funds hm e1 h h' o -> Hsend Hw He -> -> | Hh Hd Hout Hst _
                | v c e' -> He -> -> | v c e' -> He -> -> | a b c e' -> He -> ->].
  - assert (Hhd : hub_du (s, MWasm A_hub (WHub hm) funds) = false)
      by (unfold hub_du; cbn [fst snd is_du]; apply andb_false_r).
    rewrite Hhd in Hdu. destruct (NoHubDU_sums _ Hdu) as [RD RU].
    apply send_coins_static in Hsend. destruct Hsend as (_ & _ & Hdel & _).
    destruct (HB h Hw) as [Hu Heq].
    assert (Z : hub_d (s, MWasm A_hub (WHub hm) funds) = 0 /\ hub_u (s, MWasm A_hub (WHub hm) funds) = 0).
    { unfold hub_d, hub_u. cbn [fst snd dmsg_amt umsg_amt]. destruct (s =? A_hub); auto. }
    destruct Z as [Z1 Z2]. rewrite Z1, Z2, RD, RU in Heq.
    pose proof (hub_execute_underlying _ _ _ _ _ _ _ _ He) as Hu'.
    pose proof (hub_execute_books _ _ _ _ _ _ _ _ He) as (P & Q & Hfirst).
    cbn [w_env w_hub set_hub set_env]. split; [eapply DelWf_same_del; eauto|].
    split; [apply DUFirst_hub_out; assumption|].
    intros h0 E. inversion E; subst h0. split; [congruence|].
    rewrite pD_hub, pU_hub, RD, RU, (delegated_same_del _ _ A_hub Hdel).
    destruct (is_pricing hm).
    + destruct (P eq_refl) as (h1 & Hs & Eq).
      apply slashing_spec in Hs. destruct Hs as (act & _ & Hact & Hcase).
      specialize (Hact Hu). cbn [w_env set_env] in Hact. rewrite (delegated_same_del _ _ A_hub Hdel) in Hact.
      destruct Hcase as [(A & B & _)|(A & B)]; unfold booked in *; lia.
    + destruct (Q eq_refl) as (A & B & C). destruct (NoDU_sums _ C) as [-> ->]. unfold booked in *. lia.
  - assert (Hhd : hub_du (s, m) = false).
    { unfold hub_du. cbn [fst snd]. destruct m; cbn [is_du is_staking] in *; try discriminate; apply andb_false_r. }
    rewrite Hhd in Hdu.
    split; [eapply DelWf_same_del; eauto|].
    split; [apply NoHubDU_DUFirst; apply Forall_app; split; [apply NoHubDU_nonhub; exact Hout|exact Hdu]|].
    intros h E. rewrite Hh in E. destruct (HB h E) as [Hu Heq]. split; [exact Hu|].
    destruct (pDU_nonhub _ Hout) as [-> ->]. rewrite (delegated_same_del _ _ A_hub Hd).
    assert (Z : hub_d (s, m) = 0 /\ hub_u (s, m) = 0).
    { unfold hub_d, hub_u. cbn [fst snd]. destruct (s =? A_hub); [|auto].
      destruct m; cbn [dmsg_amt umsg_amt is_staking] in *; auto; discriminate. }
    destruct Z as [Z1 Z2]. lia.
  - cbn [w_env w_hub set_env app]. apply do_delegate_spec in He.
    destruct He as (_ & _ & _ & _ & _ & _ & Hdg & Hoth & _ & _ & _ & _ & _ & _ & _ & _ & Hwf').
    split; [apply Hwf'; exact Hwf|].
    unfold hub_du in Hdu. unfold hub_d, hub_u in HB. cbn [fst snd is_du dmsg_amt umsg_amt] in *.
    destruct (s =? A_hub) eqn:Es; cbn [andb] in Hdu.
    + apply N.eqb_eq in Es. subst s. split; [exact Hdu|].
      intros h E. destruct (HB h E) as [Hu Heq]. split; [exact Hu|]. rewrite Hdg.
      cbn [pD pU map sumN]. lia.
    + apply N.eqb_neq in Es. split; [apply NoHubDU_DUFirst; exact Hdu|].
      intros h E. destruct (HB h E) as [Hu Heq]. split; [exact Hu|].
      unfold delegated. rewrite Hoth by congruence. fold (delegated (w_env w) A_hub).
      cbn [pD pU map sumN]. lia.
  - cbn [w_env w_hub set_env app]. apply do_undelegate_spec in He; [|exact Hwf].
    destruct He as (_ & _ & _ & _ & _ & _ & Hdg & Hoth & _ & _ & _ & _ & _ & _ & _ & Hwf').
    split; [exact Hwf'|].
    unfold hub_du in Hdu. unfold hub_d, hub_u in HB. cbn [fst snd is_du dmsg_amt umsg_amt] in *.
    destruct (s =? A_hub) eqn:Es; cbn [andb] in Hdu.
    + apply N.eqb_eq in Es. subst s. split; [exact Hdu|].
      intros h E. destruct (HB h E) as [Hu Heq]. split; [exact Hu|]. cbn [pD pU map sumN]. lia.
    + apply N.eqb_neq in Es. split; [apply NoHubDU_DUFirst; exact Hdu|].
      intros h E. destruct (HB h E) as [Hu Heq]. split; [exact Hu|].
      unfold delegated. rewrite Hoth by congruence. fold (delegated (w_env w) A_hub).
      cbn [pD pU map sumN]. lia.
  - cbn [w_env w_hub set_env app]. apply do_redelegate_spec in He; [|exact Hwf].
    destruct He as (_ & _ & _ & _ & _ & _ & _ & _ & _ & Hdg & Hoth & _ & _ & _ & _ & _ & _ & _ & _ & Hwf').
    split; [exact Hwf'|].
    assert (Hhd : hub_du (s, MRedelegate a b c) = false) by (unfold hub_du; cbn [fst snd is_du]; apply andb_false_r).
    rewrite Hhd in Hdu. split; [apply NoHubDU_DUFirst; exact Hdu|].
    intros h E. destruct (HB h E) as [Hu Heq]. split; [exact Hu|].
    unfold hub_d, hub_u in Heq. cbn [fst snd dmsg_amt umsg_amt] in Heq.
    assert (Hsame : delegated e' A_hub = delegated (w_env w) A_hub).
    { destruct (s =? A_hub) eqn:Es.
      - apply N.eqb_eq in Es. subst s. exact Hdg.
      - apply N.eqb_neq in Es. unfold delegated. rewrite Hoth by congruence. reflexivity. }
    rewrite Hsame. cbn [pD pU map sumN]. destruct (s =? A_hub); lia.
Qed.

Theorem tx_nosurplus_preserved w sender target m funds w' tr :
  NoSurplus w -> run tx_fuel w [(sender, MWasm target m funds)] [] = Some (w', tr) -> NoSurplus w'.
Proof.
  intros [Hwf HN] H.
  assert (G : GeS w' []).
  { eapply (run_preserves_stack GeS); [| |exact H].
    - intros. eapply step_msg_ge; eauto.
    - split; [exact Hwf|]. split.
      + cbn [DUFirst]. unfold hub_du. cbn [fst snd is_du]. rewrite andb_false_r. constructor.
      + intros h E. destruct (HN h E) as [Hu Hle]. split; [exact Hu|].
        unfold pD, pU, hub_d, hub_u. cbn [map sumN fst snd dmsg_amt umsg_amt].
        destruct (sender =? A_hub); lia. }
  destruct G as (A & _ & G). split; [exact A|]. intros h E. destruct (G h E) as [Hu Hle].
  split; [exact Hu|]. unfold pD, pU in Hle. cbn [map sumN] in Hle. lia.
Qed.

(** C02, exact form at synchronisation points: with no surplus delegation before, after a successful
    transaction that executed a pricing hub message the booked stake EQUALS the delegated stake *)
Theorem tx_books_exact_after_pricing w sender target m funds w' tr h' :
  EntWf w -> NoSurplus w ->
  run tx_fuel w [(sender, MWasm target m funds)] [] = Some (w', tr) ->
  existsb is_pricing_msg tr = true ->
  w_hub w' = Some h' ->
  booked h' = delegated (w_env w') A_hub.
Proof.
  intros HE HN H Hp Hh'.
  destruct (tx_books_after_pricing _ _ _ _ _ _ _ HE H Hp) as [_ HB].
  destruct (tx_nosurplus_preserved _ _ _ _ _ _ _ HN H) as [_ HG].
  specialize (HB h' Hh'). destruct (HG h' Hh') as [_ Hle]. lia.
Qed.

(** [NoSurplus] is kept by every operation of a history except a (re-)instantiation of the hub over
    existing delegations *)
Theorem step_nosurplus_preserved w o :
  NoSurplus w ->
  (forall a b c d e f g i, o <> OInstHub a b c d e f g i) ->
  NoSurplus (fst (step w o)).
Proof.
  intros [Hwf HN] Hni. unfold NoSurplus. destruct o; cbn [step].
  - split; [apply DelWf_empty|]. intros h Hh. discriminate.
  - destruct (e_now (w_env w) + dt <=? 18446744073); cbn [fst]; [|split; assumption].
    split; cbn [w_env set_env w_hub].
    + eapply DelWf_same_del; [apply ev_advance_del|exact Hwf].
    + intros h Hh. rewrite (delegated_same_del _ _ A_hub (ev_advance_del (w_env w) dt)). apply HN. exact Hh.
  - destruct (ev_slash (w_env w) v num den unb) as [e'|] eqn:Es; cbn [fst]; [|split; assumption].
    apply ev_slash_spec in Es. destruct Es as (_ & _ & _ & _ & _ & Hle & _ & _ & _ & _ & Hwf').
    split; cbn [w_env set_env w_hub]; [apply Hwf'; exact Hwf|].
    intros h Hh. destruct (HN h Hh) as [Hu Hl]. split; [exact Hu|]. specialize (Hle A_hub). lia.
  - destruct (ev_accrue (w_env w) A_hub v d a) as [e'|] eqn:Ea; cbn [fst]; [|split; assumption].
    apply ev_accrue_del in Ea. split; cbn [w_env set_env w_hub]; [eapply DelWf_same_del; eauto|].
    intros h Hh. rewrite (delegated_same_del _ _ A_hub Ea). apply HN. exact Hh.
  - split; [exact Hwf|exact HN].
  - destruct (p =? 0); cbn [fst]; split; assumption.
  - split; [exact Hwf|exact HN].
  - split; [exact Hwf|exact HN].
  - split; [exact Hwf|exact HN].
  - destruct (w_hub w) as [h|] eqn:Hh; cbn [fst];
      [|split; [exact Hwf|intros h0 E; rewrite Hh in E; discriminate E]].
    split; [exact Hwf|]. cbn [w_hub set_hub w_env]. intros h0 E. inversion E; subst h0.
    change (booked (set_h_oldwait h (oldwait_put (h_oldwait h) (a, batch) amt))) with (booked h).
    change (h_params (set_h_oldwait h (oldwait_put (h_oldwait h) (a, batch) amt))) with (h_params h).
    apply HN. reflexivity.
  - exfalso. eapply Hni. reflexivity.
  - split; [exact Hwf|exact HN].
  - split; [exact Hwf|exact HN].
  - split; [exact Hwf|exact HN].
  - split; [exact Hwf|exact HN].
  - split; [exact Hwf|exact HN].
  - destruct (run tx_fuel w _ []) as [[w1 tr1]|] eqn:E; cbn [fst]; [|split; assumption].
    eapply tx_nosurplus_preserved; [split; eassumption|exact E].
Qed.
