(** * Hist: generic lifting lemmas for chain-level invariants.
    - [run_preserves_stack]: an invariant over (world, pending message stack) — needed for
      invariants that are broken between two messages of one transaction and restored by a later one
      (e.g. the reward mirror, which lags the cw20 ledger until the Increase/DecreaseBalance
      messages have executed);
    - [always] / [run_ops_under]: invariants along histories in which an environment/config
      predicate (the operating envelope: trusted wiring, E4) holds in every visited world. *)
From Krp Require Import Tactics Prelude Fixed FMap Types Env Registry Cw20 Reward Dispatcher Hub Exec ExecP.
Open Scope N_scope.

Lemma run_preserves_stack (J : world -> list (addr * cmsg) -> Prop) :
  (forall w s m rest w' out,
      J w ((s, m) :: rest) -> step_msg w s m = Some (w', out) -> J w' (out ++ rest)) ->
  forall fuel w stack tr w' tr',
    J w stack -> run fuel w stack tr = Some (w', tr') -> J w' [].
Proof.
  intros Hstep. induction fuel as [|f IH]; intros w stack tr w' tr' HJ H.
  - destruct stack as [|[s m] rest]; cbn [run] in H; [inversion H; subst; exact HJ | discriminate].
  - destruct stack as [|[s m] rest]; cbn [run] in H; [inversion H; subst; exact HJ|].
    bind_inv H as r Hr. destruct r as [w1 out]. cbn [fst snd] in H.
    eapply IH; [|exact H]. eapply Hstep; eauto.
Qed.

(** the trace returned by [run] is the initial trace followed by the executed messages, and every
    executed message satisfied the per-message relation [R] in the world it executed in *)
Lemma run_trace_app : forall fuel w stack tr w' tr',
  run fuel w stack tr = Some (w', tr') -> exists ex, tr' = tr ++ ex.
Proof.
  induction fuel as [|f IH]; intros w stack tr w' tr' H.
  - destruct stack as [|[s m] rest]; cbn [run] in H; [|discriminate].
    inversion H; subst. exists []. rewrite app_nil_r. reflexivity.
  - destruct stack as [|[s m] rest]; cbn [run] in H.
    + inversion H; subst. exists []. rewrite app_nil_r. reflexivity.
    + bind_inv H as r Hr. apply IH in H. destruct H as [ex ->].
      exists ((s, m) :: ex). rewrite <- app_assoc. reflexivity.
Qed.

(** [E] holds in the start world and in every world visited by the history *)
Fixpoint always (E : world -> Prop) (ops : list op) (w : world) : Prop :=
  E w /\ match ops with [] => True | o :: r => always E r (fst (step w o)) end.

Lemma always_head E ops w : always E ops w -> E w.
Proof. destruct ops; cbn [always]; tauto. Qed.

Lemma run_ops_under (E I : world -> Prop) :
  (forall w o, E w -> E (fst (step w o)) -> I w -> I (fst (step w o))) ->
  forall ops w0, always E ops w0 -> I w0 -> I (run_ops ops w0).
Proof.
  intros Hs. unfold run_ops. induction ops as [|o ops IH]; intros w0 HA HI; cbn [fold_left]; [exact HI|].
  cbn [always] in HA. destruct HA as [HE HA].
  apply IH; [exact HA|]. apply Hs; [exact HE | eapply always_head; exact HA | exact HI].
Qed.

(** a transaction either fails (world unchanged) or is a successful [run] *)
Lemma step_tx_cases w sender target m funds :
  (fst (step w (OTx sender target m funds)) = w) \/
  (exists w' tr, run tx_fuel w [(sender, MWasm target m funds)] [] = Some (w', tr) /\
                 fst (step w (OTx sender target m funds)) = w').
Proof.
  cbn [step]. destruct (run tx_fuel w _ []) as [[w' tr]|] eqn:E; cbn [fst]; [right; eauto | left; reflexivity].
Qed.
