(** * TokenWorld: the ledger invariant of both tokens along every history (C18) *)
From Krp Require Import Tactics Prelude Fixed FMap Types Env Registry Cw20 Reward Dispatcher Hub Exec
     ExecP Cw20P.
Open Scope N_scope.

Definition TokInv (w : world) : Prop :=
  (forall t, w_bsei w = Some t -> TInv t) /\ (forall t, w_stsei w = Some t -> TInv t).

Lemma step_msg_tokinv w s m w' out : TokInv w -> step_msg w s m = Some (w', out) -> TokInv w'.
Proof.
  intros HI H. apply step_msg_inv in H. destruct H as [e' -> _ _ | to wm funds e1 o -> Hsend Hc _].
  - exact HI.
  - destruct HI as [Hb Hs]. unfold TokInv.
    destruct Hc as [h hm h' -> -> Hw He -> | r rm r' -> _ Hw He -> | d dm d' -> -> Hw He ->
                   | g gm g' -> -> Hw He -> | t cm t' -> -> Hw He -> | t cm t' -> -> Hw He ->
                   | sm e' -> -> He -> -> | -> -> ->]; cbn [w_bsei w_stsei set_hub set_reward set_disp
                      set_reg set_bsei set_stsei set_env] in *;
      try (split; assumption).
    + split; [|exact Hs]. intros t0 E. inversion E; subst.
      eapply bsei_execute_tinv; eauto.
    + split; [exact Hb|]. intros t0 E. inversion E; subst.
      eapply stsei_execute_tinv; eauto.
Qed.

Lemma step_tokinv w o : TokInv w -> TokInv (fst (step w o)).
Proof.
  intros HI. destruct o; cbn [step]; try exact HI.
  - split; intros x E; discriminate.
  - destruct (e_now (w_env w) + dt <=? 18446744073); exact HI.
  - destruct (ev_slash _ _ _ _ _); exact HI.
  - destruct (ev_accrue _ _ _ _ _); exact HI.
  - destruct (p =? 0); exact HI.
  - destruct (w_hub w); exact HI.
  - (* inst bsei *) cbn [fst]. destruct HI as [Hb Hs]. split; [|exact Hs].
    intros t E. cbn [w_bsei set_w_bsei] in E. apply tok_instantiate_tinv in E. tauto.
  - (* inst stsei *) cbn [fst]. destruct HI as [Hb Hs]. split; [exact Hb|].
    intros t E. cbn [w_stsei set_w_stsei] in E. apply tok_instantiate_tinv in E. tauto.
  - destruct (run tx_fuel w _ []) as [[w1 tr1]|] eqn:E; cbn [fst]; [|exact HI].
    eapply (run_preserves TokInv); [|exact HI|exact E].
    intros. eapply step_msg_tokinv; eauto.
Qed.

(** for every history — any instantiate messages, any token operations by any principals — both
    ledgers balance in every reached world *)
Theorem TokInv_reachable ut ops : TokInv (run_ops ops (empty_world ut)).
Proof.
  apply run_ops_preserves.
  - split; intros x E; discriminate.
  - intros w o. apply step_tokinv.
Qed.

(** record of finding F4 (repaired by a `fix:` commit in /repo): on the code as found, a bSei
    instantiate message repeating an address produced supply 3 / balance 2; the repaired code and
    this model reject it *)
Lemma F4_rejected : tok_instantiate false 1 0 [(14, 1); (14, 2)] = None.
Proof. reflexivity. Qed.
