(** * FeeTxHist: C05 at history level, the counter-example to "dust stays bounded", and the
    non-vacuity examples of Proofs/FeeTx.v / FeeTxUnbond.v.

    [PegBelow w] = the State query of [w] reports bSei backing <= bSei claims and a bSei rate <= 1.
    [PegDust k w] = reported bSei backing <= claims + k.
    [EpochOpen w] = no batch is due for closing in [w] (epoch period not over).

    Main theorems
    - [peg_step_bond], [peg_step_conv_st_b], [peg_step_unbond_open] : one operation of a history
      (successful or not) keeps [PegBelow]: Bond, BondForStSei, Convert stSei -> bSei, and a bSei Unbond
      that does not close the batch.
    - [peg_step_conv_b_st], [peg_step_unbond] : Convert bSei -> stSei and any bSei Unbond take
      [PegBelow] to [PegDust 1] (within E1: claims <= 1e18).
    - [peg_below_history] : along every history of Bond / BondForStSei / Convert stSei -> bSei
      operations [PegBelow] holds in every visited world once it holds.
    - [peg_below_history_open] : the same with bSei Unbond operations added, while no visited world
      has a batch due for closing.
    - [peg_dust_history_refuted] : [PegDust 1] (and any fixed bound) is NOT preserved: a concrete
      history of Bond / Convert operations from the slashed world [worldS] in which backing - claims
      goes  <= 0, +1, +2, +4, +14  (after the one unit of dust left by a bSei -> stSei conversion the
      reported rate is above 1, and every later bond is priced above 1, rounding in the pool's favour).
    - examples: [feetx_example_hypotheses], [feetx_example_bond], [feetx_example_unbond],
      [feetx_example_unbond_closing], [feetx_example_unbond_closing_dust], [feetx_example_conv_st_b],
      [feetx_example_conv_b_st], [peg_below_history_nonvacuous]. *)
From Krp Require Import Tactics Prelude Fixed FMap Types Env Registry Cw20 Reward Dispatcher Hub Exec
     ExecP Hist Inv RegistryP HubFrame HubAdmin Cw20P MirrorWire MirrorP HubRates HubFee
     BooksEnv BooksHub BooksP BooksLiquid IndexRun IndexEnv IndexHandlers IndexPhases ExitWorld ExitP ExitTx
     RateTxLegs RateTx RateTxConvert RateTxExamples FeeTx FeeTxUnbond.
Open Scope N_scope.
Ltac Zify.zify_post_hook ::= Z.div_mod_to_equations.

Definition EpochOpen (w : world) : Prop := forall h, w_hub w = Some h -> epoch_over w h = false.

(** ** one operation *)
Lemma fth_step_wired w sender target m funds :
  Wired w -> rewire_wasm m = false -> Wired (fst (step w (OTx sender target m funds))).
Proof.
  intros HW Hm. destruct (step_tx_cases w sender target m funds) as [E | (w1 & tr & Hrun & E)]; rewrite E.
  - exact HW.
  - eapply Wired_wdata; [|exact HW]. eapply tx_wdata; eauto.
Qed.

Theorem peg_step_bond w user hm funds :
  Wired w -> EntWf w -> hm = HBond \/ hm = HBondSt -> PegBelow w ->
  PegBelow (fst (step w (OTx user A_hub (WHub hm) funds))).
Proof.
  intros HW HE Hk HP.
  destruct (step_tx_cases w user A_hub (WHub hm) funds) as [E | (w1 & tr & Hrun & E)]; rewrite E; [exact HP|].
  destruct (Wired_inv _ HW) as (h & r & d & g & tb & ts & Hh & Hr & _ & _ & Hb & Hs & _).
  intros s' Hq'. destruct Hk as [-> | ->].
  - destruct (feetx_bond_fee w user funds w1 tr h tb HW HE Hh Hb Hrun) as (p & s & tb' & _ & _ & Hq & _).
    destruct (HP s Hq) as [HB HR].
    destruct (feetx_bond_peg w user funds w1 tr s s' HW HE Hrun Hq Hq' HB HR) as (A & B & _). auto.
  - destruct (bondst_tx_effect w user funds w1 tr h tb ts HW HE Hh Hb Hs Hrun)
      as (p & s & h' & ts' & _ & _ & Hq & _ & E1).
    cbv zeta in E1. destruct E1 as (_ & Hh' & Hb' & _ & _ & _ & _ & _ & _ & _ & _ & _ & Hbt & _ & _ & _ & _ & Hrep).
    destruct (Hrep s' Hq') as (Q1 & _ & Q3 & _). destruct (HP s Hq) as [HB HR].
    rewrite (rt_claims_b w h tb Hh Hb) in HB.
    rewrite (rt_claims_b w1 h' tb Hh' Hb'), Hbt, Q1, Q3. split; [exact HB|apply ft_rate_le_one; exact HB].
Qed.

Theorem peg_step_conv_st_b w user amount funds :
  Wired w -> EntWf w -> PegBelow w ->
  PegBelow (fst (step w (OTx user A_stsei (WCw20 (CSend A_hub amount HkConvert)) funds))).
Proof.
  intros HW HE HP.
  destruct (step_tx_cases w user A_stsei (WCw20 (CSend A_hub amount HkConvert)) funds) as [E | (w1 & tr & Hrun & E)];
    rewrite E; [exact HP|].
  destruct (Wired_inv _ HW) as (h & r & d & g & tb & ts & Hh & Hr & _ & _ & Hb & Hs & _).
  intros s' Hq'.
  destruct (feetx_conv_st_b_fee w user amount funds w1 tr h tb HW HE Hh Hb Hrun) as (s & tb' & Hq & _).
  destruct (HP s Hq) as [HB HR].
  destruct (feetx_conv_st_b_peg w user amount funds w1 tr s s' HW HE Hrun Hq Hq' HB HR) as (A & B & _). auto.
Qed.

(** a bSei Unbond that joins the open batch: the fee stays in the pool as backing of the remaining
    claims, never more than the gap *)
Theorem feetx_unbond_open_peg w user a funds w' tr h s s' :
  Wired w -> EntWf w -> w_hub w = Some h -> epoch_over w h = false ->
  run tx_fuel w [(user, MWasm A_bsei (WCw20 (CSend A_hub a HkUnbond)) funds)] [] = Some (w', tr) ->
  hub_query_state w A_hub = Some s -> hub_query_state w' A_hub = Some s' ->
  hs_bb s <= w_claims_b w ->
  hs_bb s' <= w_claims_b w' /\ hs_ber s' <= D.
Proof.
  intros HW HE Hh Hep H Hq Hq' HB.
  destruct (Wired_inv _ HW) as (h0 & r & dp & g & tb & ts & Hh0 & _ & _ & _ & Hb & Hs & _).
  rewrite Hh in Hh0. inversion Hh0; subst h0; clear Hh0.
  assert (HW' : Wired w') by (eapply Wired_wdata; [|exact HW]; eapply tx_wdata; [|exact H]; reflexivity).
  assert (HE' : EntWf w') by (eapply tx_entwf; eauto).
  destruct (unbond_b_tx_effect w user a funds w' tr h tb HW HE Hh Hb H) as (s0 & h' & tb' & Hq0 & E).
  rewrite Hq in Hq0. inversion Hq0; subst s0; clear Hq0.
  cbv zeta in E.
  destruct E as (Hfee & _ & HaS & Hh' & Hb' & _ & T1 & _ & _ & _ & _ & _ & _ & Hno & _ & Hrep).
  specialize (Hrep s' Hq'). destruct (Hno Hep) as (B1 & B2 & _ & B4).
  pose proof (ft_reported_stored w' s' h' HW' HE' Hh' Hq') as Hrep'.
  rewrite (rt_claims_b w h tb Hh Hb) in HB.
  rewrite (rt_claims_b w' h' tb' Hh' Hb') in *.
  assert (T1' : tk_supply tb' = tk_supply tb - a) by lia. rewrite T1' in *.
  destruct (ftu_fee_bounds h s (tk_supply tb) a) as (_ & F2 & _).
  set (fee := unbond_b_fee h s (tk_supply tb) a) in *.
  rewrite B1 in *. cbn [cb_reqb] in *.
  assert (K : hs_bb s' <= tk_supply tb - a + (cb_reqb (h_batch h) + (a - fee))) by lia.
  split; [exact K|].
  destruct Hrep' as [Ex|[Ez Es]].
  - rewrite Ex. apply ft_rate_le_one. exact K.
  - rewrite Es, B4. apply ft_rate_le_one. lia.
Qed.

Theorem peg_step_unbond_open w user a funds :
  Wired w -> EntWf w -> EpochOpen w -> PegBelow w ->
  PegBelow (fst (step w (OTx user A_bsei (WCw20 (CSend A_hub a HkUnbond)) funds))).
Proof.
  intros HW HE HO HP.
  destruct (step_tx_cases w user A_bsei (WCw20 (CSend A_hub a HkUnbond)) funds) as [E | (w1 & tr & Hrun & E)];
    rewrite E; [exact HP|].
  destruct (Wired_inv _ HW) as (h & r & d & g & tb & ts & Hh & Hr & _ & _ & Hb & Hs & _).
  intros s' Hq'.
  destruct (unbond_b_tx_effect w user a funds w1 tr h tb HW HE Hh Hb Hrun) as (s & h' & tb' & Hq & _).
  destruct (HP s Hq) as [HB HR].
  exact (feetx_unbond_open_peg w user a funds w1 tr h s s' HW HE Hh (HO h Hh) Hrun Hq Hq' HB).
Qed.

(** the two operations that can leave one unit of dust *)
Theorem peg_step_conv_b_st w user amount funds :
  Wired w -> EntWf w -> w_claims_b w <= LIM -> PegBelow w ->
  PegDust 1 (fst (step w (OTx user A_bsei (WCw20 (CSend A_hub amount HkConvert)) funds))).
Proof.
  intros HW HE HL HP.
  destruct (step_tx_cases w user A_bsei (WCw20 (CSend A_hub amount HkConvert)) funds) as [E | (w1 & tr & Hrun & E)];
    rewrite E.
  - intros s Hq. destruct (HP s Hq) as [HB _]. lia.
  - destruct (Wired_inv _ HW) as (h & r & d & g & tb & ts & Hh & Hr & _ & _ & Hb & Hs & _).
    intros s' Hq'.
    destruct (feetx_conv_b_st_fee w user amount funds w1 tr h ts HW HE Hh Hs Hrun) as (s & tb0 & ts' & Hq & _).
    destruct (HP s Hq) as [HB _].
    destruct (feetx_conv_b_st_peg w user amount funds w1 tr s s' HW HE HL Hrun Hq Hq' HB) as (A & _). exact A.
Qed.

Theorem peg_step_unbond w user a funds :
  Wired w -> EntWf w -> w_claims_b w <= LIM -> PegBelow w ->
  PegDust 1 (fst (step w (OTx user A_bsei (WCw20 (CSend A_hub a HkUnbond)) funds))).
Proof.
  intros HW HE HL HP.
  destruct (step_tx_cases w user A_bsei (WCw20 (CSend A_hub a HkUnbond)) funds) as [E | (w1 & tr & Hrun & E)];
    rewrite E.
  - intros s Hq. destruct (HP s Hq) as [HB _]. lia.
  - destruct (Wired_inv _ HW) as (h & r & d & g & tb & ts & Hh & Hr & _ & _ & Hb & Hs & _).
    intros s' Hq'.
    destruct (unbond_b_tx_effect w user a funds w1 tr h tb HW HE Hh Hb Hrun) as (s & h' & tb' & Hq & _).
    destruct (HP s Hq) as [HB _].
    destruct (feetx_unbond_peg w user a funds w1 tr h s s' HW HE HL Hh Hrun Hq Hq' HB) as (A & _). exact A.
Qed.

(** ** histories *)
Definition peg_mint_op (o : op) : Prop :=
  (exists user hm funds, o = OTx user A_hub (WHub hm) funds /\ (hm = HBond \/ hm = HBondSt)) \/
  (exists user amount funds, o = OTx user A_stsei (WCw20 (CSend A_hub amount HkConvert)) funds).

Definition peg_open_op (o : op) : Prop :=
  peg_mint_op o \/ (exists user a funds, o = OTx user A_bsei (WCw20 (CSend A_hub a HkUnbond)) funds).

Lemma fth_history (E : world -> Prop) (P : op -> Prop) :
  (forall o, P o -> exists sender target m funds, o = OTx sender target m funds /\ rewire_wasm m = false) ->
  (forall w o, P o -> Wired w -> EntWf w -> E w -> PegBelow w -> PegBelow (fst (step w o))) ->
  forall ops w, Forall P ops -> Wired w -> EntWf w -> always E ops w -> PegBelow w ->
    always PegBelow ops w /\ Wired (run_ops ops w) /\ EntWf (run_ops ops w).
Proof.
  intros Hshape Hstep. induction ops as [|o ops IH]; intros w Hops HW HE HA HP.
  - cbn [always run_ops fold_left]. auto.
  - apply Forall_cons_iff in Hops. destruct Hops as [Ho Hops].
    cbn [always] in HA. destruct HA as [HEw HA].
    change (run_ops (o :: ops) w) with (run_ops ops (fst (step w o))).
    assert (HW1 : Wired (fst (step w o))).
    { destruct (Hshape o Ho) as (sd & tg & m & f & -> & Hm). apply fth_step_wired; assumption. }
    assert (HE1 : EntWf (fst (step w o))) by (apply step_entwf; exact HE).
    assert (HP1 : PegBelow (fst (step w o))) by (apply Hstep; assumption).
    destruct (IH _ Hops HW1 HE1 HA HP1) as (A & B & C).
    cbn [always]. auto.
Qed.

Lemma fth_always_true ops : forall w, always (fun _ => True) ops w.
Proof. induction ops as [|o ops IH]; intros w; cbn [always]; auto. Qed.

Lemma fth_always_final E ops : forall w, always E ops w -> E (run_ops ops w).
Proof.
  induction ops as [|o ops IH]; intros w H.
  - cbn [always] in H. exact (proj1 H).
  - cbn [always] in H. change (run_ops (o :: ops) w) with (run_ops ops (fst (step w o))). apply IH. tauto.
Qed.

Theorem peg_below_history : forall ops w,
  Forall peg_mint_op ops -> Wired w -> EntWf w -> PegBelow w ->
  always PegBelow ops w /\ PegBelow (run_ops ops w).
Proof.
  intros ops w Hops HW HE HP.
  destruct (fth_history (fun _ => True) peg_mint_op) with (ops := ops) (w := w) as (A & _); try assumption.
  - intros o [(u & hm & f & -> & Hk) | (u & a & f & ->)].
    + do 4 eexists. split; [reflexivity|]. destruct Hk as [-> | ->]; reflexivity.
    + do 4 eexists. split; reflexivity.
  - intros w0 o [(u & hm & f & -> & Hk) | (u & a & f & ->)] HW0 HE0 _ HP0.
    + apply peg_step_bond; assumption.
    + apply peg_step_conv_st_b; assumption.
  - apply fth_always_true.
  - split; [exact A|]. apply fth_always_final. exact A.
Qed.

Theorem peg_below_history_open : forall ops w,
  Forall peg_open_op ops -> Wired w -> EntWf w -> always EpochOpen ops w -> PegBelow w ->
  always PegBelow ops w /\ PegBelow (run_ops ops w).
Proof.
  intros ops w Hops HW HE HA HP.
  destruct (fth_history EpochOpen peg_open_op) with (ops := ops) (w := w) as (A & _); try assumption.
  - intros o [[(u & hm & f & -> & Hk) | (u & a & f & ->)] | (u & a & f & ->)].
    + do 4 eexists. split; [reflexivity|]. destruct Hk as [-> | ->]; reflexivity.
    + do 4 eexists. split; reflexivity.
    + do 4 eexists. split; reflexivity.
  - intros w0 o [[(u & hm & f & -> & Hk) | (u & a & f & ->)] | (u & a & f & ->)] HW0 HE0 HO0 HP0.
    + apply peg_step_bond; assumption.
    + apply peg_step_conv_st_b; assumption.
    + apply peg_step_unbond_open; assumption.
  - split; [exact A|]. apply fth_always_final. exact A.
Qed.

(** ** non-vacuity and the counter-example, on the slashed world [worldS] (rates 0.9666.., peg fee
    0.5 %, threshold 1.0; alice holds all 1 000 000 bSei, bob all 2 000 000 stSei) *)
Ltac ft_conc := vm_compute; first [reflexivity | let X := fresh in intro X; discriminate X].
(* solve a conjunction of closed equations left to right (earlier conjuncts instantiate the evars) *)
Ltac ft_steps :=
  repeat match goal with |- _ /\ _ => split; [vm_compute; reflexivity|] end; vm_compute; reflexivity.

Definition ft_obs (w : world) : option (N * N * N) :=
  match hub_query_state w A_hub with
  | Some s => Some (hs_bb s, w_claims_b w, hs_ber s)
  | None => None end.

Lemma ft_obs_peg_below w b c r : ft_obs w = Some (b, c, r) -> b <= c -> r <= D -> PegBelow w.
Proof.
  unfold ft_obs. intros H Hb Hr s Hq. rewrite Hq in H. inversion H; subst. split; assumption.
Qed.

Lemma ft_obs_peg_dust w k b c r : ft_obs w = Some (b, c, r) -> (PegDust k w <-> b <= c + k).
Proof.
  unfold ft_obs. intros H. split.
  - intros HP. destruct (hub_query_state w A_hub) as [s|] eqn:Hq; [|discriminate].
    inversion H; subst. apply HP. exact Hq.
  - intros Hb s Hq. rewrite Hq in H. inversion H; subst. exact Hb.
Qed.

Lemma ft_pegbelow_S : PegBelow worldS.
Proof. apply (ft_obs_peg_below worldS 966666 1000000 966666000000000000); ft_conc. Qed.

Lemma ft_epochopen_S : EpochOpen worldS.
Proof. intros h E. vm_compute in E. inversion E; subst. vm_compute. reflexivity. Qed.

(** [worldS] 31 s later: the epoch period (30 s) is over, the next unbond closes the batch *)
Definition worldSC : world := run_ops [OAdvance 31] worldS.

Lemma ft_wiredSC : Wired worldSC.  Proof. vm_compute. repeat split. Qed.
Lemma ft_entwfSC : EntWf worldSC.
Proof. exact (step_entwf worldS (OAdvance 31) rx_entwfS). Qed.

Example feetx_example_hypotheses :
  Wired worldS /\ EntWf worldS /\ w_claims_b worldS <= LIM /\ PegBelow worldS /\ EpochOpen worldS /\
  hub_query_state worldS A_hub = Some rx_sS /\ hs_ber rx_sS < D /\
  (exists h, w_hub worldS = Some h /\ hs_ber rx_sS < hp_thr (h_params h) /\
             hp_pegfee (h_params h) = D / 200 /\ epoch_over worldS h = false) /\
  Wired worldSC /\ EntWf worldSC /\ w_claims_b worldSC <= LIM /\
  hub_query_state worldSC A_hub = Some rx_sS /\
  (exists h, w_hub worldSC = Some h /\ epoch_over worldSC h = true).
Proof.
  split; [exact rx_wiredS|]. split; [exact rx_entwfS|]. split; [ft_conc|].
  split; [exact ft_pegbelow_S|]. split; [exact ft_epochopen_S|]. split; [exact rx_queryS|]. split; [ft_conc|].
  split; [eexists; split; [vm_compute; reflexivity|]; hf_split; ft_conc|].
  split; [exact ft_wiredSC|]. split; [exact ft_entwfSC|]. split; [ft_conc|]. split; [ft_conc|].
  eexists; split; vm_compute; reflexivity.
Qed.

(** Bond of 500 000 usei by alice: no-fee mint 517 241, fee 2 586 = floor(517 241 x 0.5 %), credited
    514 655; after it 1 466 666 coins back 1 514 655 claims *)
Example feetx_example_bond :
  exists w1 tr tb tb1,
    run tx_fuel worldS [(alice, MWasm A_hub (WHub HBond) [(usei, 500000)])] [] = Some (w1, tr) /\
    w_bsei worldS = Some tb /\ w_bsei w1 = Some tb1 /\
    500000 * D / hs_ber rx_sS = 517241 /\ 517241 * (D / 200) / D = 2586 /\
    tbal tb1 alice = tbal tb alice + (517241 - 2586) /\
    ft_obs w1 = Some (1466666, 1514655, 968316877440737329).
Proof. do 4 eexists. ft_steps. Qed.

(** Unbond of 1 000 bSei by alice, batch stays open: fee 5 = floor(1 000 x 0.5 %), claim 995 recorded,
    1 000 burnt; 966 666 coins back 999 000 + 995 claims.  Unbond of 600 000: fee 3 000. *)
Example feetx_example_unbond :
  exists w1 tr h1 tb tb1,
    run tx_fuel worldS [(alice, MWasm A_bsei (WCw20 (CSend A_hub 1000 HkUnbond)) [])] [] = Some (w1, tr) /\
    w_hub w1 = Some h1 /\ w_bsei worldS = Some tb /\ w_bsei w1 = Some tb1 /\
    1000 * (D / 200) / D = 5 /\
    wait_of h1 alice 1 = (995, 0) /\ tbal tb1 alice + 1000 = tbal tb alice /\
    ft_obs w1 = Some (966666, 999995, 966670833354166770).
Proof. do 5 eexists. ft_steps. Qed.

(** the same 31 s later: the batch is closed, priced at the rate recomputed after the fee; the coins
    of the batch leave the pool: 965 705 coins back the remaining 999 000 claims *)
Example feetx_example_unbond_closing :
  exists w1 tr h1 w2 tr2 h2,
    run tx_fuel worldSC [(alice, MWasm A_bsei (WCw20 (CSend A_hub 1000 HkUnbond)) [])] [] = Some (w1, tr) /\
    w_hub w1 = Some h1 /\ wait_of h1 alice 1 = (995, 0) /\ h_batch h1 = mkBatch 2 0 0 /\
    ft_obs w1 = Some (965705, 999000, 966671671671671671) /\
    run tx_fuel worldSC [(alice, MWasm A_bsei (WCw20 (CSend A_hub 600000 HkUnbond)) [])] [] = Some (w2, tr2) /\
    w_hub w2 = Some h2 /\ wait_of h2 alice 1 = (597000, 0) /\ 600000 * (D / 200) / D = 3000 /\
    ft_obs w2 = Some (387830, 400000, 969575000000000000).
Proof. do 6 eexists. ft_steps. Qed.

(** the + 1 of a closing Unbond is attained: alice unbonds all 1 000 000 bSei when the epoch is over;
    fee 5 000, the batch of 995 000 is priced at floor(966 666 / 995 000) and 966 665 coins leave:
    1 coin backs 0 claims *)
Example feetx_example_unbond_closing_dust :
  exists w1 tr h1,
    run tx_fuel worldSC [(alice, MWasm A_bsei (WCw20 (CSend A_hub 1000000 HkUnbond)) [])] [] = Some (w1, tr) /\
    w_hub w1 = Some h1 /\ wait_of h1 alice 1 = (995000, 0) /\ h_batch h1 = mkBatch 2 0 0 /\
    ft_obs w1 = Some (1, 0, D).
Proof. do 3 eexists. ft_steps. Qed.

(** Convert of 1 000 stSei by bob: 966 coins move, no-fee mint 999, fee 4 = floor(999 x 0.5 %),
    credited 995 bSei *)
Example feetx_example_conv_st_b :
  exists w1 tr tb tb1,
    run tx_fuel worldS [(bob, MWasm A_stsei (WCw20 (CSend A_hub 1000 HkConvert)) [])] [] = Some (w1, tr) /\
    w_bsei worldS = Some tb /\ w_bsei w1 = Some tb1 /\
    1000 * hs_ser rx_sS / D = 966 /\ 966 * D / hs_ber rx_sS = 999 /\ 999 * (D / 200) / D = 4 /\
    tbal tb1 bob = tbal tb bob + (999 - 4) /\
    ft_obs w1 = Some (967632, 1000995, 966670163187628309).
Proof. do 4 eexists. ft_steps. Qed.

(** Convert of 1 000 bSei by alice: fee 5 (proportional cap), 961 coins move, 994 stSei credited.
    Convert of 990 000 bSei: the restoring cap binds (344 < 4 950) and the pool ends exactly at the peg:
    10 000 coins for 10 000 claims, reported rate 1.0 *)
Example feetx_example_conv_b_st :
  exists w1 tr ts ts1 w2 tr2 h tb,
    run tx_fuel worldS [(alice, MWasm A_bsei (WCw20 (CSend A_hub 1000 HkConvert)) [])] [] = Some (w1, tr) /\
    w_stsei worldS = Some ts /\ w_stsei w1 = Some ts1 /\
    1000 * (D / 200) / D = 5 /\ (1000 - 5) * hs_ber rx_sS / D = 961 /\ 961 * D / hs_ser rx_sS = 994 /\
    tbal ts1 alice = tbal ts alice + 994 /\
    ft_obs w1 = Some (965705, 999000, 966671671671671671) /\
    run tx_fuel worldS [(alice, MWasm A_bsei (WCw20 (CSend A_hub 990000 HkConvert)) [])] [] = Some (w2, tr2) /\
    w_hub worldS = Some h /\ w_bsei worldS = Some tb /\
    conv_bst_fee h rx_sS (tk_supply tb) 990000 = 344 /\ 990000 * (D / 200) / D = 4950 /\
    ft_obs w2 = Some (10000, 10000, D).
Proof. do 8 eexists. ft_steps. Qed.

(** *** the counter-example: dust does not stay bounded along a history *)
Definition ft_dust_ops : list op :=
  [ OTx alice A_hub (WHub HBond) [(usei, 12345)];
    OTx alice A_bsei (WCw20 (CSend A_hub 903928 HkConvert)) [];
    OTx alice A_hub (WHub HBond) [(usei, 108779)];
    OTx alice A_hub (WHub HBond) [(usei, 217557)];
    OTx bob A_hub (WHub HBond) [(usei, 1000000)] ].

Lemma ft_dust_ops_rate : Forall rate_op ft_dust_ops.
Proof.
  unfold ft_dust_ops. repeat apply Forall_cons; [| | | | |apply Forall_nil].
  - left. do 3 eexists. split; [reflexivity|left; reflexivity].
  - right. do 4 eexists. split; [reflexivity|left; reflexivity].
  - left. do 3 eexists. split; [reflexivity|left; reflexivity].
  - left. do 3 eexists. split; [reflexivity|left; reflexivity].
  - left. do 3 eexists. split; [reflexivity|left; reflexivity].
Qed.

(** reported (backing, claims, rate) of the bSei pool after 0, 1, .. 5 operations *)
Example ft_dust_trace :
  ft_obs worldS = Some (966666, 1000000, 966666000000000000) /\
  ft_obs (run_ops (firstn 1 ft_dust_ops) worldS) = Some (979011, 1012707, 966726802520373612) /\
  ft_obs (run_ops (firstn 2 ft_dust_ops) worldS) = Some (108780, 108779, 1000009192950845291) /\
  ft_obs (run_ops (firstn 3 ft_dust_ops) worldS) = Some (217559, 217557, 1000009192993100658) /\
  ft_obs (run_ops (firstn 4 ft_dust_ops) worldS) = Some (435116, 435112, 1000009193035356413) /\
  ft_obs (run_ops ft_dust_ops worldS) = Some (1435116, 1435102, 1000009755404145489).
Proof. ft_steps. Qed.

(** a history of Bond / Convert operations (all successful), inside the envelope of C04w, starting
    from a slashed world with [PegBelow]: after the second operation (a bSei -> stSei conversion that
    starts with the rate below 1) the pool is one unit above its claims — as allowed by
    [peg_step_conv_b_st] — and [PegDust 1] holds; after the third it does not hold any more, and
    after the fifth the pool is 14 units above its claims *)
Theorem peg_dust_history_refuted :
  Forall rate_op ft_dust_ops /\ Wired worldS /\ EntWf worldS /\ SoundRates worldS /\
  always RateEnv ft_dust_ops worldS /\ PegBelow worldS /\
  PegBelow (run_ops (firstn 1 ft_dust_ops) worldS) /\
  PegDust 1 (run_ops (firstn 2 ft_dust_ops) worldS) /\ ~ PegDust 0 (run_ops (firstn 2 ft_dust_ops) worldS) /\
  ~ PegDust 1 (run_ops (firstn 3 ft_dust_ops) worldS) /\
  ~ PegDust 3 (run_ops (firstn 4 ft_dust_ops) worldS) /\
  ~ PegDust 13 (run_ops ft_dust_ops worldS).
Proof.
  destruct ft_dust_trace as (T0 & T1 & T2 & T3 & T4 & T5).
  split; [exact ft_dust_ops_rate|]. split; [exact rx_wiredS|]. split; [exact rx_entwfS|].
  split; [exact rx_soundS|].
  split; [vm_compute; repeat split; discriminate|].
  split; [exact ft_pegbelow_S|].
  split; [apply (ft_obs_peg_below _ _ _ _ T1); ft_conc|].
  split; [apply (ft_obs_peg_dust _ 1 _ _ _ T2); ft_conc|].
  split; [intros X; apply (ft_obs_peg_dust _ 0 _ _ _ T2) in X; vm_compute in X; apply X; reflexivity|].
  split; [intros X; apply (ft_obs_peg_dust _ 1 _ _ _ T3) in X; vm_compute in X; apply X; reflexivity|].
  split; [intros X; apply (ft_obs_peg_dust _ 3 _ _ _ T4) in X; vm_compute in X; apply X; reflexivity|].
  intros X; apply (ft_obs_peg_dust _ 13 _ _ _ T5) in X; vm_compute in X; apply X; reflexivity.
Qed.

(** the positive history theorems apply to concrete histories from [worldS] *)
Definition ft_keep_ops : list op :=
  [ OTx alice A_hub (WHub HBond) [(usei, 500000)];
    OTx bob A_stsei (WCw20 (CSend A_hub 1000 HkConvert)) [];
    OTx alice A_bsei (WCw20 (CSend A_hub 1000 HkUnbond)) [];
    OTx bob A_hub (WHub HBondSt) [(usei, 777)] ].

Example peg_below_history_nonvacuous :
  Forall peg_open_op ft_keep_ops /\ always EpochOpen ft_keep_ops worldS /\
  Forall peg_mint_op (firstn 2 ft_keep_ops) /\
  ft_obs (run_ops ft_keep_ops worldS) = Some (1467632, 1515643, 968323015380270947).
Proof.
  split; [|split; [|split]].
  - unfold ft_keep_ops. repeat apply Forall_cons; [| | | |apply Forall_nil].
    + left. left. do 3 eexists. split; [reflexivity|left; reflexivity].
    + left. right. do 3 eexists. reflexivity.
    + right. do 3 eexists. reflexivity.
    + left. left. do 3 eexists. split; [reflexivity|right; reflexivity].
  - cbn [always ft_keep_ops]. repeat split;
      intros h E; vm_compute in E; inversion E; subst; vm_compute; reflexivity.
  - unfold ft_keep_ops. cbn [firstn]. repeat apply Forall_cons; [| |apply Forall_nil].
    + left. do 3 eexists. split; [reflexivity|left; reflexivity].
    + right. do 3 eexists. reflexivity.
  - vm_compute. reflexivity.
Qed.

Lemma def_EpochOpen : forall w, EpochOpen w <-> forall h, w_hub w = Some h -> epoch_over w h = false.
Proof. intros w. reflexivity. Qed.

Lemma def_peg_mint_op : forall o, peg_mint_op o <->
  (exists user hm funds, o = OTx user A_hub (WHub hm) funds /\ (hm = HBond \/ hm = HBondSt)) \/
  (exists user amount funds, o = OTx user A_stsei (WCw20 (CSend A_hub amount HkConvert)) funds).
Proof. intros o. reflexivity. Qed.

Lemma def_peg_open_op : forall o, peg_open_op o <->
  peg_mint_op o \/ (exists user a funds, o = OTx user A_bsei (WCw20 (CSend A_hub a HkUnbond)) funds).
Proof. intros o. reflexivity. Qed.

Lemma def_ft_dust_ops : ft_dust_ops =
  [ OTx alice A_hub (WHub HBond) [(usei, 12345)];
    OTx alice A_bsei (WCw20 (CSend A_hub 903928 HkConvert)) [];
    OTx alice A_hub (WHub HBond) [(usei, 108779)];
    OTx alice A_hub (WHub HBond) [(usei, 217557)];
    OTx bob A_hub (WHub HBond) [(usei, 1000000)] ].
Proof. reflexivity. Qed.

Lemma def_ft_keep_ops : ft_keep_ops =
  [ OTx alice A_hub (WHub HBond) [(usei, 500000)];
    OTx bob A_stsei (WCw20 (CSend A_hub 1000 HkConvert)) [];
    OTx alice A_bsei (WCw20 (CSend A_hub 1000 HkUnbond)) [];
    OTx bob A_hub (WHub HBondSt) [(usei, 777)] ].
Proof. reflexivity. Qed.

Lemma def_ft_obs : forall w, ft_obs w =
  match hub_query_state w A_hub with
  | Some s => Some (hs_bb s, w_claims_b w, hs_ber s)
  | None => None end.
Proof. reflexivity. Qed.

Lemma def_worldSC : worldSC = run_ops [OAdvance 31] worldS.
Proof. reflexivity. Qed.
