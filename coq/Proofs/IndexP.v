(** * IndexP: one UpdateGlobalIndex transaction delivers all staking rewards to the right parties (C19).

    Transaction tree (sender = updater or registry):
      hub.UpdateGlobalIndex -> MWithdrawReward v (every validator the hub delegates to)
                            -> dispatcher.SwapToRewardDenom -> SwapDenom* (swap stub)
                            -> dispatcher.DispatchRewards   -> bank sends (keeper, reward contract, keeper),
                                                               hub.BondRewards -> MDelegate*,
                                                               reward.UpdateGlobalIndex

    Main theorems (helper files: IndexRun, IndexEnv, IndexHandlers, IndexSwap, IndexPhases):
    - [index_prefix_exec]      the hub handler, all withdrawals and the whole swap leg execute
                               (at most 19 messages); only dispatcher/swap bank balances and the
                               pending rewards change;
    - [index_dispatch_exec]    from the pre-dispatch world, DispatchRewards with everything below it
                               executes (at most 21 messages) when the dispatcher's balances are
                               outside finding F2, with the exact end-state accounting;
    - [update_global_index_effect]  chain level: [run tx_fuel w [(sender, UpdateGlobalIndex)] []]
                               SUCCEEDS and the final world has the stated accounting;
    - [update_global_index_effect']  the same with the pre-dispatch world given as a hypothesis;
    - [withdraw_all_effect]    C19.2: the withdrawals zero the pending rewards and credit exactly them
                               to the withdraw address;
    - [bank_part_debits], [dispatch_bank_exact]  C19.3: the bank part of DispatchRewards' messages
                               debits exactly the dispatcher's two reward balances;
    - [index_nonvacuous], [index_success_example], [index_success_example_state]  a concrete wired
                               world (built with [run_ops]) satisfying every hypothesis, on which the
                               transaction succeeds with the predicted end state;
    - [F2_index_witness_*]     finding F2 at chain level: UpdateGlobalIndex FAILS with keeper rate 0,
                               and with dust rewards under a 5% keeper rate. *)
From Coq Require Import Permutation.
From Krp Require Import Tactics Prelude Fixed FMap Types Env Registry Cw20 Reward Dispatcher Hub Exec
     RegistryP DispatcherP Inv IndexRun IndexEnv IndexHandlers IndexSwap IndexPhases.
Open Scope N_scope.
Ltac Zify.zify_post_hook ::= Z.div_mod_to_equations.

Definition root_msg : cmsg := MWasm A_hub (WHub (HUpdateGlobal 0)) [].

(** the world just before DispatchRewards (the last message the hub emits) executes: the hub
    handler, every withdrawal and the whole SwapToRewardDenom subtree have run *)
Definition pre_dispatch (w : world) (sender : addr) : result world :=
  do r <- step_msg w sender root_msg;
  do r2 <- run tx_fuel (fst r) (removelast (snd r)) [];
  Some (fst r2).

(** ** named hypotheses *)

(** E4, the part not in [Wired]: the dispatcher talks to the swap and oracle stubs, its keeper is an
    account outside the protocol, its rate is at most 1 (C17's invariant [DInv]); the registry is
    non-empty and lists real validators without repetition *)
Definition IndexWiring (w : world) : Prop :=
  match w_disp w, w_reg w with
  | Some d, Some g =>
      dp_swap d = A_swap /\ dp_oracle d = A_oracle /\ dp_rate d <= D /\
      dp_keeper d <> A_disp /\ dp_keeper d <> A_hub /\ dp_keeper d <> A_reward /\
      RegOk g
  | _, _ => False
  end.

(** E7: swap and oracle stubs behave, with a positive price of at most 10^18 *)
Definition StubsOk (e : env) : Prop :=
  e_swapmode e = SwOk /\ e_oraclemode e = OrOk /\ 0 < e_price e /\ e_price e <= D * D.

(** E1 magnitudes used by this transaction *)
Definition IndexE1 (w : world) : Prop :=
  match w_hub w, w_reward w, w_bsei w, w_stsei w with
  | Some h, Some r, Some tb, Some ts =>
      let e := w_env w in
      hs_bb (h_state h) + hs_bst (h_state h) <= LIM /\ delegated e A_hub <= LIM /\
      claims_b h tb <= LIM /\ claims_st h ts <= LIM /\
      (forall d, bal e A_disp d + pend_total e A_hub (del_vals e A_hub) d <= LIM) /\
      bal e A_reward (rw_denom r) <= LIM /\ rw_gi r <= D * D
  | _, _, _, _ => False
  end.

(** C14's invariant: the reward contract holds at least what it has accounted for *)
Definition RewardSolvent (w : world) : Prop :=
  match w_reward w with
  | Some r => rw_prev r <= bal (w_env w) A_reward (rw_denom r)
  | None => False
  end.

(** not paused, stake is bonded, and the sender is the updater or the registry *)
Definition HubReady (w : world) (sender : addr) : Prop :=
  match w_hub w with
  | Some h => paused h = false /\ 0 < hs_bb (h_state h) + hs_bst (h_state h) /\
              (sender = hc_updater (h_cfg h) \/ sender = A_reg)
  | None => False
  end.

Lemma set_hub_same w h : w_hub w = Some h -> set_hub w h = w.
Proof. destruct w; cbn. intros ->. reflexivity. Qed.

Lemma removelast_app2 {A} (l : list A) a b : removelast (l ++ [a; b]) = l ++ [a].
Proof. rewrite removelast_app by discriminate. reflexivity. Qed.

(** ** the prefix: hub handler, withdrawals, swap leg *)
Section Prefix.
  Variables (w : world) (sender : addr) (h : hub) (dp : disp).
  Let e := w_env w.
  Let h0 := set_h_state h (touch_lim (h_state h) (e_now e)).
  Let w0 := set_hub w h0.
  Let vs := del_vals e A_hub.
  Let swapm := MWasm A_disp (WDisp (DSwap (hs_bb (h_state h)) (hs_bst (h_state h)))) [].
  Let dispm := MWasm A_disp (WDisp DDispatch) [].

  Definition prefix_stack : list (addr * cmsg) :=
    map (fun v => (A_hub, MWithdrawReward v)) vs ++ [(A_hub, swapm)].

  Hypothesis Hwh : w_hub w = Some h.
  Hypothesis Hwd : w_disp w = Some dp.
  Hypothesis Hcd : hc_disp (h_cfg h) = Some A_disp.
  Hypothesis Hcr : hc_reg (h_cfg h) = Some A_reg.
  Hypothesis Hpz : paused h = false.
  Hypothesis Hauth : sender = hc_updater (h_cfg h) \/ sender = A_reg.

  Lemma root_step :
    step_msg w sender root_msg = Some (w0, prefix_stack ++ [(A_hub, dispm)]).
  Proof.
    unfold root_msg. cbn [step_msg]. rewrite send_coins_nil. cbn [bind]. rewrite set_env_same, call_hub, Hwh.
    cbn [bind]. unfold hub_execute. unfold paused in Hpz. unfold paused. rewrite Hpz. cbn [negb].
    rewrite (update_global_ok w h A_hub sender A_disp); [| | exact Hcd].
    2:{ destruct Hauth as [->| ->]; [left; reflexivity | right; exact Hcr]. }
    cbn [bind fst snd]. f_equal. f_equal.
    unfold prefix_stack, withdraw_msgs, ugi_tail, vs, del_vals. rewrite map_app, !map_map, <- app_assoc. reflexivity.
  Qed.

  Hypothesis Hwdr : withdraw_addr e A_hub = A_disp.
  Hypothesis Hdh : dp_hub dp = A_hub.
  Hypothesis Hdsw : dp_swap dp = A_swap.
  Hypothesis Hdor : dp_oracle dp = A_oracle.
  Hypothesis Hdstd : dp_std dp = usei.
  Hypothesis Hdbd : dp_bd dp <> usei.
  Hypothesis Hstubs : StubsOk e.
  Hypothesis Hbal : forall d, bal e A_disp d + pend_total e A_hub vs d <= LIM.
  Hypothesis Hb0 : 0 < hs_bb (h_state h) + hs_bst (h_state h).
  Hypothesis Hb1 : hs_bb (h_state h) + hs_bst (h_state h) <= LIM.

  (** what the prefix does to the environment *)
  Definition PreEnv (e1 : env) : Prop :=
    same_misc (withdraw_all A_hub vs e) e1 /\ e_del e1 = e_del e /\
    (forall x v d, pending e1 x v d =
       if (x =? A_hub) && (existsb (N.eqb v) vs && in_denoms d) then 0 else pending e x v d) /\
    (forall a d, a <> A_disp -> a <> A_swap -> bal e1 a d = bal e a d).

  Lemma index_prefix_exec :
    exists e1 n, Exec w0 prefix_stack (set_env w0 e1) n /\ (n <= 18)%nat /\ PreEnv e1.
  Proof.
    set (ew := withdraw_all A_hub vs e).
    pose proof (withdraw_all_frame A_hub vs e) as Hfr. cbn zeta in Hfr. fold ew in Hfr.
    destruct Hfr as (F1 & F2 & F3 & F4 & F5 & F6 & F7 & F8 & F9).
    destruct Hstubs as (S1 & S2 & S3 & S4).
    assert (Hvs : forall v, In v vs -> delegation (w_env w0) A_hub v <> None).
    { intros v Hv. apply In_del_vals in Hv. exact (proj2 Hv). }
    pose proof (withdraw_phase vs w0 Hvs) as Hwp. change (w_env w0) with e in Hwp. fold ew in Hwp.
    assert (Hbalw : forall a d, bal ew a d =
              bal e a d + (if (a =? A_disp) && in_denoms d then pend_total e A_hub vs d else 0)).
    { intros a d. unfold ew. rewrite withdraw_all_bal by apply del_vals_NoDup. rewrite Hwdr. reflexivity. }
    destruct (swap_phase (set_env w0 ew) dp (hs_bb (h_state h)) (hs_bst (h_state h)))
      as (e1 & n & Hex & Hn & Hnb & Hoth); cbn [w_env set_env]; try assumption; try congruence.
    { intros d. rewrite Hbalw. specialize (Hbal d). destruct ((A_disp =? A_disp) && in_denoms d); lia. }
    { lia. }
    { lia. }
    exists e1, (length vs + n)%nat. split; [|split].
    - unfold prefix_stack. eapply Exec_app; [exact Hwp | exact Hex].
    - assert (Hl : (length vs <= 12)%nat).
      { unfold vs, del_vals. rewrite map_length, all_delegations_sel. unfold sel.
        assert (G : forall L, (length (flat_map (fun v => match delegation e A_hub v with
                     Some a => [(v, a)] | None => [] end) L) <= length L)%nat).
        { induction L as [|u L IH]; cbn [flat_map length]; [lia|]. rewrite app_length.
          destruct (delegation e A_hub u); cbn [length]; lia. }
        apply (G VALS). }
      lia.
    - destruct (same_nonbank_misc _ _ Hnb) as [Hm Hd].
      split; [exact Hm|]. split; [rewrite Hd; exact F3|]. split.
      + intros x v d. rewrite (same_misc_pending _ _ x v d Hm). unfold ew. apply withdraw_all_pending.
      + intros a d Ha1 Ha2. rewrite Hoth by assumption. rewrite Hbalw.
        assert (E : (a =? A_disp) = false) by lia. rewrite E. cbn [andb]. lia.
  Qed.
End Prefix.

(** ** DispatchRewards and everything below it, from the pre-dispatch world *)
Section Dispatch.
  Variables (w1 : world) (h0 : hub) (r : reward) (dp : disp) (g : registry) (tb ts : token).
  Let e1 := w_env w1.
  Let bd := dp_bd dp.
  Let keeper := dp_keeper dp.
  Let X_b := bal e1 A_disp bd.
  Let X_st := bal e1 A_disp usei.
  Let kb := X_b * dp_rate dp / D.
  Let ks := X_st * dp_rate dp / D.
  Let rb := X_st - ks.

  Hypothesis Hwh : w_hub w1 = Some h0.
  Hypothesis Hwr : w_reward w1 = Some r.
  Hypothesis Hwd : w_disp w1 = Some dp.
  Hypothesis Hwg : w_reg w1 = Some g.
  Hypothesis Hwb : w_bsei w1 = Some tb.
  Hypothesis Hws : w_stsei w1 = Some ts.
  Hypothesis Hcd : hc_disp (h_cfg h0) = Some A_disp.
  Hypothesis Hcr : hc_reg (h_cfg h0) = Some A_reg.
  Hypothesis Hcb : hc_bsei (h_cfg h0) = Some A_bsei.
  Hypothesis Hcs : hc_stsei (h_cfg h0) = Some A_stsei.
  Hypothesis Hu : hp_underlying (h_params h0) = usei.
  Hypothesis Hpz : paused h0 = false.
  Hypothesis Hrh : rw_hub r = A_hub.
  Hypothesis Hrd : rw_denom r = bd.
  Hypothesis Hdh : dp_hub dp = A_hub.
  Hypothesis Hdr : dp_reward dp = A_reward.
  Hypothesis Hdstd : dp_std dp = usei.
  Hypothesis Hdbd : bd <> usei.
  Hypothesis Hrate : dp_rate dp <= D.
  Hypothesis Hk1 : keeper <> A_disp.
  Hypothesis Hk2 : keeper <> A_hub.
  Hypothesis Hk3 : keeper <> A_reward.
  Hypothesis Hgh : rg_hub g = A_hub.
  Hypothesis Hok : RegOk g.
  Hypothesis Hbook : hs_bb (h_state h0) + hs_bst (h_state h0) <= LIM.
  Hypothesis Hdel : delegated e1 A_hub <= LIM.
  Hypothesis Hclb : claims_b h0 tb <= LIM.
  Hypothesis Hcls : claims_st h0 ts <= LIM.
  Hypothesis Hrbal : bal e1 A_reward bd <= LIM.
  Hypothesis Hgi : rw_gi r <= D * D.
  Hypothesis Hsolv : rw_prev r <= bal e1 A_reward bd.
  Hypothesis Hpend : forall v d, is_val v = true -> delegation e1 A_hub v <> None -> In d DENOMS -> pending e1 A_hub v d = 0.
  Hypothesis HXb : X_b <= LIM.
  Hypothesis HXst : X_st <= LIM.
  Hypothesis HF2 : ~ Known_F2 (dp_rate dp) X_b X_st.

  Lemma index_dispatch_exec :
    exists h' e' n,
      Exec w1 [(A_hub, MWasm A_disp (WDisp DDispatch) [])]
           (set_reward (set_env (set_hub w1 h') e')
                       (index_updated r (bal e1 A_reward bd + (X_b - kb)))) n /\ (n <= 21)%nat /\
      (rb = 0 -> h' = h0) /\
      (rb <> 0 -> exists s1 ser,
          query_actual_state w1 A_hub h0 = Some s1 /\
          exchange_rate (hs_bst s1 + rb) (tk_supply ts) (cb_reqst (h_batch h0)) = Some ser /\
          ser = rate_of (hs_bst s1 + rb) (claims_st h0 ts) /\
          h' = set_h_state h0 (bonded_rewards s1 rb ser)) /\
      same_misc e1 e' /\
      (forall a d, bal e' a d =
         if d =? bd then
           (if a =? A_disp then 0
            else bal e1 a d + (if a =? keeper then kb else 0) + (if a =? A_reward then X_b - kb else 0))
         else if d =? usei then
           (if a =? A_disp then 0 else bal e1 a d + (if a =? keeper then ks else 0))
         else bal e1 a d) /\
      delegated e' A_hub = delegated e1 A_hub + rb /\
      (forall y, y <> A_hub -> delegated e' y = delegated e1 y) /\
      (forall v, delegation e1 A_hub v <> None -> delegation e' A_hub v <> None).
  Proof.
    pose proof LIM_fits as HL.
    assert (Hkb : kb <= X_b).
    { unfold kb. apply N.div_le_upper_bound; [exact D_nz|]. rewrite N.mul_comm. apply N.mul_le_mono_r. exact Hrate. }
    assert (Hks : ks <= X_st).
    { unfold ks. apply N.div_le_upper_bound; [exact D_nz|]. rewrite N.mul_comm. apply N.mul_le_mono_r. exact Hrate. }
    assert (Hbnz : X_b <> 0 -> kb <> 0 /\ X_b - kb <> 0).
    { intros Hx. split.
      - intros E. apply HF2. left. split; [lia|]. left. exact E.
      - intros E. apply HF2. left. split; [lia|]. right. fold kb. lia. }
    assert (Hsnz : X_st <> 0 -> ks <> 0).
    { intros Hx E. apply HF2. right. split; [lia | exact E]. }
    (* the handler *)
    destruct (dispatch_succeeds w1 dp A_disp Hrate) as [msgs Hdisp]; [fold e1 bd X_b; lia | rewrite Hdstd; fold e1 X_st; lia |].
    pose proof (dispatch_exact _ _ _ _ _ _ Hdisp) as (_ & _ & Hmsgs).
    rewrite Hdstd in Hmsgs. fold e1 bd X_b X_st in Hmsgs.
    assert (Hshape : map (fun m => (A_disp, m)) msgs =
      map (fun m => (A_disp, m))
          (if X_b =? 0 then [] else [MBank keeper [(bd, kb)]; MBank A_reward [(bd, X_b - kb)]]) ++
      map (fun m => (A_disp, m)) (st_msgs keeper X_st ks) ++
      [(A_disp, MWasm A_reward (WHub (HUpdateGlobal 0)) [])]).
    { rewrite Hmsgs. unfold dispatch_msgs, st_msgs. rewrite Hdr, Hdh, Hdstd. cbn zeta. fold bd keeper kb ks.
      rewrite !map_app. reflexivity. }
    assert (Hstep : step_msg w1 A_hub (MWasm A_disp (WDisp DDispatch) []) =
                    Some (w1, map (fun m => (A_disp, m)) msgs)).
    { cbn [step_msg]. rewrite send_coins_nil. cbn [bind]. rewrite set_env_same, call_disp, Hwd. cbn [bind].
      rewrite Hdh in Hdisp. rewrite Hdisp. cbn [bind fst snd]. rewrite (set_disp_same _ _ Hwd). reflexivity. }
    (* bSei-side transfers *)
    destruct (seg_b w1 e1 keeper bd X_b kb eq_refl Hkb Hbnz Hk1) as (eB & nB & HexB & HnB & HnbB & HbalB).
    unfold e1 in HexB at 1. rewrite set_env_same in HexB.
    destruct (same_nonbank_misc _ _ HnbB) as [HmB HdB].
    (* stSei-side messages *)
    destruct (seg_s w1 h0 g tb ts eB keeper X_st ks Hwh Hwg Hwb Hws Hcd Hcr Hcb Hcs Hu Hpz Hgh Hok)
      as (h' & eS & nS & HexS & HnS & Hh0 & Hh1 & HmS & HbalS & HdlS & HothS & HkeepS);
      try assumption.
    { rewrite HbalB. assert (E : (usei =? bd) = false) by lia. rewrite E. reflexivity. }
    { rewrite (delegated_ext e1 eB A_hub HdB). exact Hdel. }
    { intros v d Hv Hd Hin. rewrite (same_misc_pending _ _ A_hub v d HmB). apply Hpend; [exact Hv| |exact Hin].
      unfold delegation in *. rewrite <- HdB. exact Hd. }
    (* reward index update *)
    assert (Hcfg' : hc_disp (h_cfg h') = Some A_disp).
    { destruct (N.eq_dec (X_st - ks) 0) as [E|E].
      - rewrite (Hh0 E). exact Hcd.
      - destruct (Hh1 E) as (s1 & ser & _ & _ & _ & ->). exact Hcd. }
    assert (HbalR : bal eS A_reward bd = bal e1 A_reward bd + (X_b - kb)).
    { rewrite HbalS. assert (E : (bd =? usei) = false) by lia. rewrite E. rewrite HbalB, N.eqb_refl.
      change (A_reward =? A_disp) with false. rewrite N.eqb_refl.
      assert (E2 : (A_reward =? keeper) = false) by (apply N.eqb_neq; congruence). rewrite E2. lia. }
    pose proof (reward_phase (set_env (set_hub w1 h') eS) h' r) as HexR.
    cbn [w_hub w_reward w_env set_env set_hub] in HexR. rewrite Hrd, HbalR in HexR.
    specialize (HexR eq_refl Hwr Hcfg' Hrh ltac:(lia) ltac:(lia) Hgi).
    exists h', eS, (S ((nB + (nS + 1)) + 0)).
    split; [|split; [lia|split; [exact Hh0|split; [|split; [|split; [|split; [|split]]]]]]].
    - eapply Exec_cons; [exact Hstep | | constructor].
      rewrite Hshape. eapply Exec_app; [exact HexB|]. eapply Exec_app; [exact HexS | exact HexR].
    - intros E. destruct (Hh1 E) as (s1 & ser & Hq & Hser & Hsereq & Hh').
      exists s1, ser. split; [|split; [exact Hser | split; [exact Hsereq | exact Hh']]].
      rewrite <- Hq. apply qas_ext; [|reflexivity|reflexivity].
      cbn [w_env set_env]. apply all_delegations_ext. symmetry. exact HdB.
    - eapply same_misc_trans; [exact HmB | exact HmS].
    - intros a d. rewrite HbalS. destruct (d =? usei) eqn:Eu.
      + apply N.eqb_eq in Eu. subst d. assert (E : (usei =? bd) = false) by lia. rewrite E.
        destruct (a =? A_disp); [reflexivity|]. rewrite HbalB, E. reflexivity.
      + rewrite HbalB. reflexivity.
    - rewrite HdlS. rewrite (delegated_ext e1 eB A_hub HdB). reflexivity.
    - intros y Hy. rewrite HothS by exact Hy. apply delegated_ext. exact HdB.
    - intros v Hd. apply HkeepS. unfold delegation in *. rewrite HdB. exact Hd.
  Qed.
End Dispatch.

(** ** the whole transaction *)
Theorem update_global_index_effect w sender h r dp g tb ts :
  Wired w -> RewardWired w -> RewardsToDispatcher w -> IndexWiring w -> StubsOk (w_env w) ->
  IndexE1 w -> RewardSolvent w -> HubReady w sender ->
  w_hub w = Some h -> w_reward w = Some r -> w_disp w = Some dp -> w_reg w = Some g ->
  w_bsei w = Some tb -> w_stsei w = Some ts ->
  let e := w_env w in
  let now := e_now e in
  let bd := dp_bd dp in
  let keeper := dp_keeper dp in
  exists w1,
    (* the hub handler, all withdrawals and the swap leg always execute *)
    pre_dispatch w sender = Some w1 /\
    let e1 := w_env w1 in
    w_hub w1 = Some (set_h_state h (touch_lim (h_state h) now)) /\ w_reward w1 = Some r /\
    w_disp w1 = Some dp /\ w_reg w1 = Some g /\ w_bsei w1 = Some tb /\ w_stsei w1 = Some ts /\
    e_del e1 = e_del e /\ e_unb e1 = e_unb e /\ e_now e1 = now /\
    (forall v d, In v (del_vals e A_hub) -> In d DENOMS -> pending e1 A_hub v d = 0) /\
    (forall a d, a <> A_disp -> a <> A_swap -> bal e1 a d = bal e a d) /\
    (* and outside finding F2 the whole transaction succeeds *)
    let X_b := bal e1 A_disp bd in
    let X_st := bal e1 A_disp usei in
    let kb := X_b * dp_rate dp / D in
    let ks := X_st * dp_rate dp / D in
    let rb := X_st - ks in
    (X_b <= LIM -> X_st <= LIM -> ~ Known_F2 (dp_rate dp) X_b X_st ->
     exists w' tr,
       run tx_fuel w [(sender, root_msg)] [] = Some (w', tr) /\
       let e' := w_env w' in
       w_bsei w' = Some tb /\ w_stsei w' = Some ts /\ w_disp w' = Some dp /\ w_reg w' = Some g /\
       w_reward w' = Some (index_updated r (bal e A_reward bd + (X_b - kb))) /\
       (exists h', w_hub w' = Some h' /\
          h_cfg h' = h_cfg h /\ h_params h' = h_params h /\ h_batch h' = h_batch h /\
          h_wait h' = h_wait h /\ h_hist h' = h_hist h /\ h_oldwait h' = h_oldwait h /\
          h_newowner h' = h_newowner h /\
          (rb = 0 -> h_state h' = touch_lim (h_state h) now) /\
          (rb <> 0 -> exists s1,
             query_actual_state w A_hub h = Some s1 /\
             h_state h' = mkHubState (hs_ber s1) (rate_of (hs_bst s1 + rb) (claims_st h ts))
                                     (hs_bb s1) (hs_bst s1 + rb) now
                                     (hs_phb (h_state h)) (hs_lut (h_state h)) (hs_lpb (h_state h)))) /\
       bal e' A_disp bd = 0 /\ bal e' A_disp usei = 0 /\
       (forall d, bal e' A_hub d = bal e A_hub d) /\
       bal e' A_reward bd = bal e A_reward bd + (X_b - kb) /\
       bal e' keeper bd = bal e1 keeper bd + kb /\ bal e' keeper usei = bal e1 keeper usei + ks /\
       (forall a d, a <> A_disp -> a <> A_swap -> a <> keeper -> a <> A_reward -> bal e' a d = bal e a d) /\
       delegated e' A_hub = delegated e A_hub + rb /\
       (forall y, y <> A_hub -> delegated e' y = delegated e y) /\
       (forall v d, In v (del_vals e A_hub) -> In d DENOMS -> pending e' A_hub v d = 0) /\
       e_unb e' = e_unb e /\ e_now e' = now).
Proof.
  intros HW HRW HRD HIW HST HE1 HSol HRdy Hwh Hwr Hwd Hwg Hwb Hws e now bd keeper.
  (* unpack the hypotheses *)
  destruct (Wired_inv w HW) as (h_ & r_ & d_ & g_ & tb_ & ts_ & A1 & A2 & A3 & A4 & A5 & A6 & Hcd & Hcr & Hcb & Hcs &
                                Hu & Hrh & Hdh & Hdr & Hdstd & Hgh & _ & _).
  rewrite Hwh in A1. rewrite Hwr in A2. rewrite Hwd in A3. rewrite Hwg in A4. rewrite Hwb in A5. rewrite Hws in A6.
  inversion A1; inversion A2; inversion A3; inversion A4; inversion A5; inversion A6. subst h_ r_ d_ g_ tb_ ts_.
  clear A1 A2 A3 A4 A5 A6.
  unfold RewardWired in HRW. rewrite Hwr, Hwd in HRW. destruct HRW as (Hrd & Hdbd & _).
  unfold RewardsToDispatcher in HRD. fold e in HRD.
  unfold IndexWiring in HIW. rewrite Hwd, Hwg in HIW. destruct HIW as (Hdsw & Hdor & Hrate & Hk1 & Hk2 & Hk3 & Hok).
  unfold IndexE1 in HE1. rewrite Hwh, Hwr, Hwb, Hws in HE1. cbn zeta in HE1. fold e in HE1.
  destruct HE1 as (Hbook & Hdel & Hclb & Hcls & Hdbal & Hrbal & Hgi).
  unfold RewardSolvent in HSol. rewrite Hwr in HSol. fold e in HSol.
  unfold HubReady in HRdy. rewrite Hwh in HRdy. destruct HRdy as (Hpz & Hb0 & Hauth).
  set (h0 := set_h_state h (touch_lim (h_state h) now)).
  set (w0 := set_hub w h0).
  pose proof (root_step w sender h Hwh Hcd Hcr Hpz Hauth) as Hroot. fold e now h0 w0 in Hroot.
  destruct (index_prefix_exec w sender h dp Hwd Hauth HRD Hdh Hdsw Hdor Hdstd Hdbd HST Hdbal Hb0 Hbook)
    as (e1 & n1 & Hex1 & Hn1 & Hpre).
  fold e now h0 w0 in Hex1.
  destruct Hpre as (Hm1 & Hd1 & Hp1 & Hbal1). fold e in Hm1, Hd1, Hp1, Hbal1.
  pose proof (withdraw_all_frame A_hub (del_vals e A_hub) e) as Hfr. cbn zeta in Hfr.
  destruct Hfr as (F1 & F2 & F3 & F4 & F5 & F6 & F7 & F8 & F9).
  destruct Hm1 as (M1 & M2 & M3 & M4 & M5 & M6 & M7 & M8 & M9).
  set (w1 := set_env w0 e1).
  assert (Hpre1 : pre_dispatch w sender = Some w1).
  { unfold pre_dispatch. rewrite Hroot. cbn [bind fst snd]. rewrite removelast_last.
    assert (Hf1 : (n1 <= tx_fuel)%nat) by (clear - Hn1; unfold tx_fuel; lia).
    destruct (Exec_tx _ _ _ _ Hex1 Hf1) as [tr1 Hrun1]. rewrite Hrun1. reflexivity. }
  assert (Hpend1 : forall v d, In v (del_vals e A_hub) -> In d DENOMS -> pending e1 A_hub v d = 0).
  { intros v d Hv Hd. rewrite Hp1. change (A_hub =? A_hub) with true. cbn [andb].
    assert (E1 : existsb (N.eqb v) (del_vals e A_hub) = true).
    { apply existsb_exists. exists v. split; [exact Hv | apply N.eqb_refl]. }
    apply in_denoms_In in Hd. rewrite E1, Hd. reflexivity. }
  exists w1. split; [exact Hpre1|]. cbn zeta.
  change (w_env w1) with e1.
  split; [reflexivity|]. split; [exact Hwr|]. split; [exact Hwd|]. split; [exact Hwg|].
  split; [exact Hwb|]. split; [exact Hws|]. split; [exact Hd1|].
  split; [congruence|]. split; [unfold now; congruence|]. split; [exact Hpend1|]. split; [exact Hbal1|].
  intros HXb HXst HF2.
  (* the dispatch leg *)
  assert (Hdel1 : delegated e1 A_hub = delegated e A_hub) by (apply delegated_ext; exact Hd1).
  destruct (index_dispatch_exec w1 h0 r dp g tb ts) as (h' & e' & n2 & Hex2 & Hn2 & Hh0 & Hh1 & Hm2 & Hbal2 & Hdl2 & Hoth2 & Hkeep2);
    try assumption; try reflexivity.
  { change (w_env w1) with e1. rewrite Hdel1. exact Hdel. }
  { change (w_env w1) with e1. rewrite Hbal1 by discriminate. rewrite <- Hrd. exact Hrbal. }
  { change (w_env w1) with e1. rewrite Hbal1 by discriminate. rewrite <- Hrd. exact HSol. }
  { change (w_env w1) with e1. intros v d Hv Hdv Hd. apply Hpend1; [|exact Hd].
    apply In_del_vals. split; [exact Hv|]. unfold delegation in *. rewrite <- Hd1. exact Hdv. }
  change (w_env w1) with e1 in *. fold bd keeper in Hex2, Hbal2, Hh1.
  set (X_b := bal e1 A_disp bd) in *. set (X_st := bal e1 A_disp usei) in *.
  set (kb := X_b * dp_rate dp / D) in *. set (ks := X_st * dp_rate dp / D) in *.
  set (rb := X_st - ks) in *.
  set (r' := index_updated r (bal e1 A_reward bd + (X_b - kb))) in *.
  set (w' := set_reward (set_env (set_hub w1 h') e') r') in *.
  assert (Hexall : Exec w [(sender, root_msg)] w' (S ((n1 + n2) + 0))).
  { eapply Exec_cons; [exact Hroot | | constructor]. eapply Exec_app; [exact Hex1 | exact Hex2]. }
  assert (Hfall : (S ((n1 + n2) + 0) <= tx_fuel)%nat) by (clear - Hn1 Hn2; unfold tx_fuel; lia).
  destruct (Exec_tx _ _ _ _ Hexall Hfall) as [tr Hrun].
  exists w', tr. split; [exact Hrun|]. cbn zeta. change (w_env w') with e'.
  assert (Hne : bd <> usei) by exact Hdbd.
  assert (Ebu : (bd =? usei) = false) by (apply N.eqb_neq; exact Hdbd).
  assert (Eub : (usei =? bd) = false) by (apply N.eqb_neq; intros E; apply Hdbd; symmetry; exact E).
  destruct Hm2 as (N1 & N2 & N3 & N4 & N5 & N6 & N7 & N8 & N9).
  split; [exact Hwb|]. split; [exact Hws|]. split; [exact Hwd|]. split; [exact Hwg|].
  split. { unfold w'. cbn [w_reward set_reward]. unfold r'. rewrite Hbal1 by discriminate. reflexivity. }
  split.
  { exists h'. split; [reflexivity|].
    destruct (N.eq_dec rb 0) as [Erb|Erb].
    - rewrite (Hh0 Erb). do 7 (split; [reflexivity|]). split; [intros _; reflexivity | intros; contradiction].
    - destruct (Hh1 Erb) as (s1' & ser & Hq & Hser & Hsereq & Hh').
      rewrite Hh'. do 7 (split; [reflexivity|]). split; [intros; contradiction|]. intros _.
      assert (Hq' : query_actual_state w A_hub h0 = Some s1').
      { rewrite <- Hq. symmetry. apply qas_ext; [|reflexivity|reflexivity].
        apply all_delegations_ext. exact Hd1. }
      unfold h0 in Hq'. rewrite qas_touch in Hq'.
      destruct (qas_ok w A_hub h tb ts Hu Hcb Hcs Hwb Hws Hdel Hbook Hclb Hcls)
        as (s1 & Hqs & _ & _ & Q1 & Q2 & Q3 & Q4).
      fold e in Hq'. rewrite Hqs in Hq'. inversion Hq'; subst s1'. clear Hq'.
      exists s1. split; [exact Hqs|].
      cbn [h_state set_h_state]. rewrite Hsereq. change (claims_st h0 ts) with (claims_st h ts).
      unfold bonded_rewards, set_ser, set_rates, set_bonded, touch_lim. cbn [hs_ber hs_ser hs_bb hs_bst hs_lim hs_phb hs_lut hs_lpb].
      rewrite Q2, Q3, Q4. reflexivity. }
  split. { rewrite Hbal2, !N.eqb_refl. reflexivity. }
  split. { rewrite Hbal2, Eub, !N.eqb_refl. reflexivity. }
  split.
  { intros d. rewrite Hbal2. change (A_hub =? A_disp) with false. change (A_hub =? A_reward) with false.
    assert (Ek : (A_hub =? keeper) = false) by (apply N.eqb_neq; intros E; apply Hk2; symmetry; exact E). rewrite Ek.
    rewrite !N.add_0_r. destruct (d =? bd); [|destruct (d =? usei)]; apply Hbal1; discriminate. }
  split.
  { rewrite Hbal2, !N.eqb_refl. change (A_reward =? A_disp) with false.
    assert (Ek : (A_reward =? keeper) = false) by (apply N.eqb_neq; intros E; apply Hk3; symmetry; exact E). rewrite Ek.
    rewrite Hbal1 by discriminate. rewrite N.add_0_r. reflexivity. }
  assert (Ekd : (keeper =? A_disp) = false) by (apply N.eqb_neq; exact Hk1).
  assert (Ekr : (keeper =? A_reward) = false) by (apply N.eqb_neq; exact Hk3).
  split. { rewrite Hbal2, !N.eqb_refl, Ekd, Ekr. rewrite N.add_0_r. reflexivity. }
  split. { rewrite Hbal2, Eub, !N.eqb_refl, Ekd. reflexivity. }
  split.
  { intros a d Ha1 Ha2 Ha3 Ha4. rewrite Hbal2.
    assert (E1 : (a =? A_disp) = false) by (apply N.eqb_neq; exact Ha1).
    assert (E2 : (a =? keeper) = false) by (apply N.eqb_neq; exact Ha3).
    assert (E3 : (a =? A_reward) = false) by (apply N.eqb_neq; exact Ha4). rewrite E1, E2, E3, !N.add_0_r.
    destruct (d =? bd); [|destruct (d =? usei)]; apply Hbal1; assumption. }
  split. { rewrite Hdl2, Hdel1. reflexivity. }
  split. { intros y Hy. rewrite Hoth2 by exact Hy. apply delegated_ext. exact Hd1. }
  split. { intros v d Hv Hd. unfold pending. rewrite N4. apply Hpend1; assumption. }
  split; [congruence | unfold now; congruence].
Qed.

(** the same, with the pre-dispatch world given *)
Theorem update_global_index_effect' w sender h r dp g tb ts w1 :
  Wired w -> RewardWired w -> RewardsToDispatcher w -> IndexWiring w -> StubsOk (w_env w) ->
  IndexE1 w -> RewardSolvent w -> HubReady w sender ->
  w_hub w = Some h -> w_reward w = Some r -> w_disp w = Some dp -> w_reg w = Some g ->
  w_bsei w = Some tb -> w_stsei w = Some ts ->
  pre_dispatch w sender = Some w1 ->
  let e := w_env w in
  let e1 := w_env w1 in
  let X_b := bal e1 A_disp (dp_bd dp) in
  let X_st := bal e1 A_disp usei in
  let rb := X_st - X_st * dp_rate dp / D in
  X_b <= LIM -> X_st <= LIM -> ~ Known_F2 (dp_rate dp) X_b X_st ->
  exists w' tr,
    run tx_fuel w [(sender, root_msg)] [] = Some (w', tr) /\
    let e' := w_env w' in
    bal e' A_disp (dp_bd dp) = 0 /\ bal e' A_disp usei = 0 /\
    (forall d, bal e' A_hub d = bal e A_hub d) /\
    w_bsei w' = Some tb /\ w_stsei w' = Some ts /\
    delegated e' A_hub = delegated e A_hub + rb /\
    (exists h', w_hub w' = Some h' /\ h_batch h' = h_batch h /\ h_wait h' = h_wait h /\ h_hist h' = h_hist h /\
       (rb = 0 -> hs_bb (h_state h') = hs_bb (h_state h) /\ hs_bst (h_state h') = hs_bst (h_state h)) /\
       (rb <> 0 -> exists s1, query_actual_state w A_hub h = Some s1 /\
                   hs_bb (h_state h') = hs_bb s1 /\ hs_bst (h_state h') = hs_bst s1 + rb /\
                   hs_ber (h_state h') = hs_ber s1 /\
                   hs_ser (h_state h') = rate_of (hs_bst s1 + rb) (claims_st h ts))).
Proof.
  intros HW HRW HRD HIW HST HE1 HSol HRdy Hwh Hwr Hwd Hwg Hwb Hws Hpre e e1 X_b X_st rb HXb HXst HF2.
  destruct (update_global_index_effect w sender h r dp g tb ts HW HRW HRD HIW HST HE1 HSol HRdy Hwh Hwr Hwd Hwg Hwb Hws)
    as (w1' & Hpre' & Hrest).
  rewrite Hpre in Hpre'. inversion Hpre'; subst w1'. clear Hpre'. cbn zeta in Hrest.
  destruct Hrest as (_ & _ & _ & _ & _ & _ & _ & _ & _ & _ & _ & Hmain).
  destruct (Hmain HXb HXst HF2) as (w' & tr & Hrun & P1 & P2 & P3 & P4 & P5 & Phub & B1 & B2 & B3 & B4 & B5 & B6 & B7 & D1 & _).
  exists w', tr. split; [exact Hrun|]. cbn zeta.
  split; [exact B1|]. split; [exact B2|]. split; [exact B3|]. split; [exact P1|]. split; [exact P2|].
  split; [exact D1|].
  destruct Phub as (h' & Hh' & _ & _ & G3 & G4 & G5 & _ & _ & G8 & G9).
  exists h'. split; [exact Hh'|]. split; [exact G3|]. split; [exact G4|]. split; [exact G5|]. split.
  - intros E. rewrite (G8 E). split; reflexivity.
  - intros E. destruct (G9 E) as (s1 & Hq & Hst). exists s1. split; [exact Hq|]. rewrite Hst. repeat split.
Qed.

(** ** C19.2 — the withdrawals, stated on the distribution module alone *)
Theorem withdraw_all_effect e x :
  let vs := del_vals e x in
  let e' := withdraw_all x vs e in
  foldM (fun e v => do_withdraw_reward e x v) vs e = Some e' /\
  (forall v d, In v vs -> In d DENOMS -> pending e' x v d = 0) /\
  (forall a d, bal e' a d =
     bal e a d + (if (a =? withdraw_addr e x) && in_denoms d then pend_total e x vs d else 0)) /\
  (forall y v d, (y <> x \/ ~ In v vs \/ ~ In d DENOMS) -> pending e' y v d = pending e y v d) /\
  e_del e' = e_del e /\ e_unb e' = e_unb e /\ e_now e' = e_now e /\ e_wdaddr e' = e_wdaddr e.
Proof.
  intros vs e'. split; [|split; [|split; [|split]]].
  - apply withdraw_all_foldM. intros v Hv. apply In_del_vals in Hv. tauto.
  - intros v d Hv Hd. unfold e'. rewrite withdraw_all_pending, N.eqb_refl. cbn [andb].
    assert (E1 : existsb (N.eqb v) vs = true) by (apply existsb_exists; exists v; split; [exact Hv | apply N.eqb_refl]).
    apply in_denoms_In in Hd. rewrite E1, Hd. reflexivity.
  - intros a d. apply withdraw_all_bal. apply del_vals_NoDup.
  - intros y v d Hc. unfold e'. rewrite withdraw_all_pending.
    destruct ((y =? x) && (existsb (N.eqb v) vs && in_denoms d)) eqn:E; [|reflexivity]. exfalso.
    rewrite !andb_true_iff in E. destruct E as [E1 [E2 E3]]. apply N.eqb_eq in E1.
    apply existsb_exists in E2. destruct E2 as [u [Hu Eu]]. apply N.eqb_eq in Eu. subst u.
    apply in_denoms_In in E3. tauto.
  - pose proof (withdraw_all_frame x vs e) as F. cbn zeta in F. fold e' in F. tauto.
Qed.

(** ** C19.3 — bank level: executing the bank part of a message list from [self] debits exactly what
    the messages carry; hence after the messages of DispatchRewards the dispatcher holds nothing *)
Definition bank_part (self : addr) (e : env) (m : cmsg) : result env :=
  match m with
  | MBank to cs => bank_send e self to cs
  | MWasm to _ fs => send_coins e self to fs
  | _ => Some e
  end.

Definition msg_dest (m : cmsg) : option addr :=
  match m with MBank to _ => Some to | MWasm to _ _ => Some to | _ => None end.

Lemma send_coins_debits self to : self <> to -> forall (cs : list coin) e e',
  send_coins e self to cs = Some e' ->
  forall d, bal e' self d + sumN (map (fun c => if fst c =? d then snd c else 0) cs) = bal e self d.
Proof.
  intros Hne. induction cs as [|c cs IH]; intros e e' H d.
  - cbn in H. inversion H; subst. cbn. lia.
  - unfold send_coins in H. cbn [foldM] in H. bind_inv H as e1 He1. destruct c as [dc x].
    apply send_coin_inv in He1. destruct He1 as (_ & Hle & ->).
    specialize (IH _ _ H d). cbn [map sumN fst snd].
    rewrite bal_xfer in IH by exact Hne. rewrite N.eqb_refl in IH.
    destruct (d =? dc) eqn:E.
    + apply N.eqb_eq in E. subst dc. rewrite N.eqb_refl. lia.
    + assert (E' : (dc =? d) = false) by lia. rewrite E'. lia.
Qed.

Lemma bank_part_debits self : forall msgs e e',
  (forall m, In m msgs -> msg_dest m <> Some self) ->
  foldM (bank_part self) msgs e = Some e' ->
  forall d, bal e' self d + sumN (map (sent_of d) msgs) = bal e self d.
Proof.
  induction msgs as [|m msgs IH]; intros e e' Hd H d.
  - cbn in H. inversion H; subst. cbn. lia.
  - cbn [foldM] in H. bind_inv H as e1 He1.
    specialize (IH e1 e' (fun m0 Hm0 => Hd m0 (or_intror Hm0)) H d). cbn [map sumN].
    specialize (Hd m (or_introl eq_refl)).
    destruct m; cbn [bank_part sent_of msg_dest] in *; try (inversion He1; subst; lia).
    + pose proof (send_coins_debits self to ltac:(congruence) funds e e1 He1 d). lia.
    + unfold bank_send in He1. destruct coins as [|c cs]; [discriminate|].
      pose proof (send_coins_debits self to ltac:(congruence) (c :: cs) e e1 He1 d). lia.
Qed.

Theorem dispatch_bank_exact dp self e e' :
  dp_rate dp <= D -> dp_bd dp <> dp_std dp ->
  dp_keeper dp <> self -> dp_reward dp <> self -> dp_hub dp <> self ->
  foldM (bank_part self) (dispatch_msgs dp (bal e self (dp_bd dp)) (bal e self (dp_std dp))) e = Some e' ->
  bal e' self (dp_bd dp) = 0 /\ bal e' self (dp_std dp) = 0.
Proof.
  intros Hr Hne Hk Hrw Hh H.
  destruct (dispatch_conserves dp (bal e self (dp_bd dp)) (bal e self (dp_std dp)) Hr Hne) as [C1 C2].
  assert (Hd : forall m, In m (dispatch_msgs dp (bal e self (dp_bd dp)) (bal e self (dp_std dp))) ->
               msg_dest m <> Some self).
  { intros m Hm. unfold dispatch_msgs in Hm. cbn zeta in Hm.
    repeat (apply in_app_or in Hm; destruct Hm as [Hm|Hm]).
    - destruct (_ =? 0); [contradiction|]. destruct Hm as [<-|[<-|[]]]; cbn; congruence.
    - destruct (_ =? 0); [contradiction|]. destruct Hm as [<-|Hm]; [cbn; congruence|].
      destruct (_ =? 0); [contradiction|]. destruct Hm as [<-|[]]. cbn. congruence.
    - destruct Hm as [<-|[]]. cbn. congruence. }
  pose proof (bank_part_debits self _ e e' Hd H (dp_bd dp)) as B1.
  pose proof (bank_part_debits self _ e e' Hd H (dp_std dp)) as B2.
  rewrite C1 in B1. rewrite C2 in B2. split; lia.
Qed.

(** ** concrete worlds: non-vacuity and the chain-level witnesses of finding F2 *)

(** six contracts instantiated and wired through the hub's UpdateConfig (which also sets the
    distribution withdraw address), one bSei bond and one stSei bond; addresses as in Model/Types.v
    (owner 10, updater 11, keeper 12, users 14 and 15); [rate] is the keeper rate *)
Definition index_setup (rate : N) : list op :=
  [ OGift 14 usei 10000000; OGift 15 usei 10000000;
    OInstHub 10 30 100 5000000000000000 D 11 usei uusd;
    OInstReward 10 A_hub uusd A_swap [uatom; usei];
    OInstDisp 10 A_hub A_reward usei uusd 12 rate A_swap A_oracle [uatom; usei; uusd];
    OInstReg 10 A_hub [0; 1; 2];
    OInstBsei 10 A_hub [];
    OInstStsei 10 A_hub 2 [];
    OTx 10 A_hub (WHub (HConfig (Some A_disp) (Some A_reg) (Some A_bsei) (Some A_stsei)
                                (Some A_airdrop) (Some A_reward) None)) [];
    OTx 14 A_hub (WHub HBond) [(usei, 1000000)];
    OTx 15 A_hub (WHub HBondSt) [(usei, 2000000)] ].

Definition index_world (rate : N) (accruals : list op) : world :=
  run_ops (index_setup rate ++ accruals) (empty_world 100).

Definition ugi_op : op := OTx 11 A_hub (WHub (HUpdateGlobal 0)) [].

(** 5% keeper, 50000 usei pending at validator 0 and 7000 uusd at validator 1 *)
Definition W_ok : world := index_world 50000000000000000 [OAccrue 0 usei 50000; OAccrue 1 uusd 7000].

(** the transaction succeeds there (non-vacuity of the success theorem) *)
Lemma index_success_example : fst (snd (step W_ok ugi_op)) = true.
Proof. vm_compute. reflexivity. Qed.

(** ... with the end state predicted by the theorem: dispatcher empty, keeper 950 uusd + 1900 usei,
    reward contract 18050 uusd, 36100 usei re-bonded *)
Lemma index_success_example_state :
  let w' := fst (step W_ok ugi_op) in
  bal (w_env w') A_disp uusd = 0 /\ bal (w_env w') A_disp usei = 0 /\
  bal (w_env w') 12 uusd = 950 /\ bal (w_env w') 12 usei = 1900 /\
  bal (w_env w') A_reward uusd = 18050 /\
  delegated (w_env w') A_hub = delegated (w_env W_ok) A_hub + 36100 /\
  bal (w_env w') A_hub usei = bal (w_env W_ok) A_hub usei.
Proof. vm_compute. repeat split. Qed.

(** *** finding F2 at chain level (KNOWN FINDING, genuine defect of execute_dispatch_rewards):
    the same world with keeper rate 0 — the dispatcher emits a zero-coin bank send and the whole
    UpdateGlobalIndex fails *)
Lemma F2_index_witness_zero_rate :
  let w := index_world 0 [OAccrue 0 usei 50000; OAccrue 1 uusd 7000] in
  Wired w /\ fst (snd (step w ugi_op)) = false /\ fst (step w ugi_op) = w.
Proof. cbn zeta. split; [vm_compute; repeat split | split; vm_compute; reflexivity]. Qed.

(** ... and with the 5% keeper rate but dust rewards (10 usei): floor(balance * rate) = 0 *)
Lemma F2_index_witness_dust :
  let w := index_world 50000000000000000 [OAccrue 0 usei 10] in
  Wired w /\ fst (snd (step w ugi_op)) = false /\ fst (step w ugi_op) = w.
Proof. cbn zeta. split; [vm_compute; repeat split | split; vm_compute; reflexivity]. Qed.

(** ... and with keeper rate 1: the zero-coin send goes to the reward contract *)
Lemma F2_index_witness_full_rate :
  let w := index_world D [OAccrue 1 uusd 7000] in
  Wired w /\ fst (snd (step w ugi_op)) = false.
Proof. cbn zeta. split; [vm_compute; repeat split | vm_compute; reflexivity]. Qed.

(** in the failing worlds the pre-dispatch balances are in the class [Known_F2] *)
Lemma F2_index_witness_class :
  let w := index_world 0 [OAccrue 0 usei 50000; OAccrue 1 uusd 7000] in
  exists w1, pre_dispatch w 11 = Some w1 /\
    Known_F2 0 (bal (w_env w1) A_disp uusd) (bal (w_env w1) A_disp usei).
Proof.
  cbn zeta. eexists. split; [vm_compute; reflexivity|].
  left. split; [vm_compute; reflexivity | left; vm_compute; reflexivity].
Qed.

(** *** every hypothesis of [update_global_index_effect] holds in [W_ok] *)
Lemma bal_bound_b e B a d :
  forallb (fun kv : (addr * denom) * N => snd kv <=? B) (e_bank e) = true -> bal e a d <= B.
Proof.
  unfold bal, getN. induction (e_bank e) as [|[k v] m IH]; cbn [forallb get snd]; intros H; [lia|].
  apply andb_true_iff in H. destruct H as [H1 H2]. destruct (eqbNN (a, d) k); [lia | apply IH; exact H2].
Qed.

Lemma pending_bound_b e B x v d :
  forallb (fun kv : (addr * (val * denom)) * N => snd kv <=? B) (e_pend e) = true -> pending e x v d <= B.
Proof.
  unfold pending, getN. induction (e_pend e) as [|[k y] m IH]; cbn [forallb get snd]; intros H; [lia|].
  apply andb_true_iff in H. destruct H as [H1 H2]. destruct (eqbAVD (x, (v, d)) k); [lia | apply IH; exact H2].
Qed.

Lemma pend_total_bound_b e B x vs d :
  forallb (fun kv : (addr * (val * denom)) * N => snd kv <=? B) (e_pend e) = true ->
  pend_total e x vs d <= N.of_nat (length vs) * B.
Proof.
  intros H. unfold pend_total. induction vs as [|v vs IH]; cbn [map sumN length]; [lia|].
  pose proof (pending_bound_b e B x v d H). lia.
Qed.

Definition W_ok_lit : world := Eval vm_compute in W_ok.

Lemma W_ok_eq : W_ok = W_ok_lit.
Proof. vm_compute. reflexivity. Qed.

Lemma index_nonvacuous :
  exists w sender h r dp g tb ts w1,
    Wired w /\ RewardWired w /\ RewardsToDispatcher w /\ IndexWiring w /\ StubsOk (w_env w) /\
    IndexE1 w /\ RewardSolvent w /\ HubReady w sender /\
    w_hub w = Some h /\ w_reward w = Some r /\ w_disp w = Some dp /\ w_reg w = Some g /\
    w_bsei w = Some tb /\ w_stsei w = Some ts /\
    pre_dispatch w sender = Some w1 /\
    0 < bal (w_env w1) A_disp (dp_bd dp) <= LIM /\ 0 < bal (w_env w1) A_disp usei <= LIM /\
    ~ Known_F2 (dp_rate dp) (bal (w_env w1) A_disp (dp_bd dp)) (bal (w_env w1) A_disp usei) /\
    0 < pend_total (w_env w) A_hub (del_vals (w_env w) A_hub) usei.
Proof.
  exists W_ok, 11. rewrite W_ok_eq. unfold W_ok_lit.
  do 6 eexists. eexists.
  split. { unfold Wired. cbn. repeat split. }
  split. { unfold RewardWired. cbn. split; [reflexivity|]. split; [discriminate|]. intros [H|[H|[]]]; discriminate. }
  split. { vm_compute. reflexivity. }
  split. { unfold IndexWiring, RegOk. cbn [w_disp w_reg dp_swap dp_oracle dp_rate dp_keeper rg_vals].
           split; [reflexivity|]. split; [reflexivity|]. split; [apply N.leb_le; vm_compute; reflexivity|].
           split; [discriminate|]. split; [discriminate|]. split; [discriminate|].
           split; [discriminate|]. split.
           - repeat (constructor; [cbn; intros H; repeat (destruct H as [H|H]; [discriminate|]); exact H|]). constructor.
           - intros v Hv. cbn in Hv. repeat (destruct Hv as [<-|Hv]; [reflexivity|]). contradiction. }
  split. { unfold StubsOk. cbn [w_env e_swapmode e_oraclemode e_price].
           split; [reflexivity|]. split; [reflexivity|]. split; [apply N.ltb_lt | apply N.leb_le]; vm_compute; reflexivity. }
  split. { unfold IndexE1. cbn [w_hub w_reward w_bsei w_stsei w_env].
           split; [apply N.leb_le; vm_compute; reflexivity|].
           split; [apply N.leb_le; vm_compute; reflexivity|].
           split; [apply N.leb_le; vm_compute; reflexivity|].
           split; [apply N.leb_le; vm_compute; reflexivity|].
           split; [|split; apply N.leb_le; vm_compute; reflexivity].
           intros d.
           eapply N.le_trans.
           - apply N.add_le_mono.
             + apply (bal_bound_b _ 10000000). vm_compute. reflexivity.
             + apply (pend_total_bound_b _ 50000). vm_compute. reflexivity.
           - apply N.leb_le. vm_compute. reflexivity. }
  split. { unfold RewardSolvent. cbn [w_reward]. apply N.leb_le. vm_compute. reflexivity. }
  split. { unfold HubReady. cbn [w_hub]. split; [reflexivity|]. split; [apply N.ltb_lt; vm_compute; reflexivity|].
           left. reflexivity. }
  do 6 (split; [reflexivity|]).
  split. { vm_compute. reflexivity. }
  split. { split; [apply N.ltb_lt | apply N.leb_le]; vm_compute; reflexivity. }
  split. { split; [apply N.ltb_lt | apply N.leb_le]; vm_compute; reflexivity. }
  split.
  { intros [[_ [H|H]]|[_ H]]; vm_compute in H; discriminate. }
  apply N.ltb_lt. vm_compute. reflexivity.
Qed.

(** ** the vocabulary of Props/C19.v, unfolded (all by computation) *)
Lemma def_touch_lim : forall s t, touch_lim s t =
  mkHubState (hs_ber s) (hs_ser s) (hs_bb s) (hs_bst s) t (hs_phb s) (hs_lut s) (hs_lpb s).
Proof. reflexivity. Qed.

Lemma def_withdraw_msgs : forall e a,
  withdraw_msgs e a = map (fun d => MWithdrawReward (fst d)) (all_delegations e a).
Proof. reflexivity. Qed.

Lemma def_ugi_tail : forall d s, ugi_tail d s =
  [MWasm d (WDisp (DSwap (hs_bb s) (hs_bst s))) []; MWasm d (WDisp DDispatch) []].
Proof. reflexivity. Qed.

Lemma def_del_vals : forall e a, del_vals e a = map fst (all_delegations e a).
Proof. reflexivity. Qed.

Lemma def_withdraw_all : forall a vs e,
  withdraw_all a vs e = fold_left (fun e v => payout e a v) vs e.
Proof. reflexivity. Qed.

Lemma def_pend_total : forall e a vs d,
  pend_total e a vs d = sumN (map (fun v => pending e a v d) vs).
Proof. reflexivity. Qed.

Lemma def_in_denoms : forall d, in_denoms d = true <-> In d DENOMS.
Proof. exact in_denoms_In. Qed.

Lemma def_index_updated : forall r b, index_updated r b =
  if rw_total r =? 0 then r
  else set_rw_state r (rw_gi r + (b - rw_prev r) * D / rw_total r) (rw_total r) b.
Proof. reflexivity. Qed.

Lemma def_bonded_rewards : forall s x q, bonded_rewards s x q =
  mkHubState (hs_ber s) q (hs_bb s) (hs_bst s + x) (hs_lim s) (hs_phb s) (hs_lut s) (hs_lpb s).
Proof. reflexivity. Qed.

Lemma def_delegate_amounts : forall ms, delegate_amounts ms =
  sumN (map (fun m => match m with MDelegate _ c => snd c | _ => 0 end) ms).
Proof. reflexivity. Qed.

Lemma def_root_msg : root_msg = MWasm A_hub (WHub (HUpdateGlobal 0)) [].
Proof. reflexivity. Qed.

Lemma def_pre_dispatch : forall w sender, pre_dispatch w sender =
  (do r <- step_msg w sender root_msg;
   do r2 <- run tx_fuel (fst r) (removelast (snd r)) [];
   Some (fst r2)).
Proof. reflexivity. Qed.

Lemma def_bank_part : forall self e m, bank_part self e m =
  match m with
  | MBank to cs => bank_send e self to cs
  | MWasm to _ fs => send_coins e self to fs
  | _ => Some e
  end.
Proof. reflexivity. Qed.

Lemma def_RegOk : forall g, RegOk g <->
  rg_vals g <> [] /\ NoDup (rg_vals g) /\ (forall v, In v (rg_vals g) -> is_val v = true).
Proof. intros g. reflexivity. Qed.

Lemma def_IndexWiring : forall w, IndexWiring w <->
  match w_disp w, w_reg w with
  | Some d, Some g =>
      dp_swap d = A_swap /\ dp_oracle d = A_oracle /\ dp_rate d <= D /\
      dp_keeper d <> A_disp /\ dp_keeper d <> A_hub /\ dp_keeper d <> A_reward /\ RegOk g
  | _, _ => False
  end.
Proof. intros w. reflexivity. Qed.

Lemma def_StubsOk : forall e, StubsOk e <->
  e_swapmode e = SwOk /\ e_oraclemode e = OrOk /\ 0 < e_price e /\ e_price e <= D * D.
Proof. intros e. reflexivity. Qed.

Lemma def_IndexE1 : forall w, IndexE1 w <->
  match w_hub w, w_reward w, w_bsei w, w_stsei w with
  | Some h, Some r, Some tb, Some ts =>
      let e := w_env w in
      hs_bb (h_state h) + hs_bst (h_state h) <= LIM /\ delegated e A_hub <= LIM /\
      claims_b h tb <= LIM /\ claims_st h ts <= LIM /\
      (forall d, bal e A_disp d + pend_total e A_hub (del_vals e A_hub) d <= LIM) /\
      bal e A_reward (rw_denom r) <= LIM /\ rw_gi r <= D * D
  | _, _, _, _ => False
  end.
Proof. intros w. reflexivity. Qed.

Lemma def_RewardSolvent : forall w, RewardSolvent w <->
  match w_reward w with
  | Some r => rw_prev r <= bal (w_env w) A_reward (rw_denom r)
  | None => False
  end.
Proof. intros w. reflexivity. Qed.

Lemma def_HubReady : forall w sender, HubReady w sender <->
  match w_hub w with
  | Some h => paused h = false /\ 0 < hs_bb (h_state h) + hs_bst (h_state h) /\
              (sender = hc_updater (h_cfg h) \/ sender = A_reg)
  | None => False
  end.
Proof. intros w sender. reflexivity. Qed.

