From Krp Require Import Tactics Prelude Fixed FMap Types Env Registry Cw20 Reward Dispatcher Hub Exec
     Inv HubFrame SlashP.
Open Scope N_scope.

(** ** 11. the check after a slashing event *)

(** one statement for both cases: with at least one delegation entry, the booked total after a
    check is the smaller of the old books and the delegated amount *)
Theorem sync_books_min w self h s' :
  query_actual_state w self h = Some s' ->
  hp_underlying (h_params h) = usei ->
  all_delegations (w_env w) self <> [] ->
  hs_bb s' + hs_bst s' = N.min (booked h) (delegated (w_env w) self).
Proof.
  intros H Hu Hne.
  destruct (N.le_gt_cases (booked h) (delegated (w_env w) self)) as [Hge | Hlt].
  - destruct (sync_noop _ _ _ _ H Hu Hge) as (-> & -> & _). unfold booked in *. lia.
  - destruct (sync_exact _ _ _ _ H Hu Hne Hlt) as (Hsum & _). cbv zeta in Hsum. lia.
Qed.

Lemma Slash_slash_amt_le a num den : den <> 0 -> slash_amt a num den <= a.
Proof.
  intros Hd. unfold slash_amt. apply N.div_le_upper_bound; [exact Hd|].
  rewrite (N.mul_comm den a). apply N.mul_le_mono_l. apply N.le_sub_l.
Qed.

Lemma Slash_get_map_del (f : (addr * val) * N -> N) (l : fmap (addr * val) N) k :
  get eqbNN (map (fun kv => (fst kv, f kv)) l) k =
  match get eqbNN l k with Some a => Some (f (k, a)) | None => None end.
Proof.
  induction l as [|[k' a] l IH]; cbn [map get fst]; [reflexivity|].
  destruct (eqbNN k k') eqn:E; [|exact IH].
  apply eqbNN_eq in E. subst k'. reflexivity.
Qed.

(** the environment's slashing event keeps every delegation entry and lowers no-one's stake below
    zero nor above what it was: the delegated total of every delegator can only fall *)
Theorem slash_lowers_delegated e v num den unb e' x :
  ev_slash e v num den unb = Some e' ->
  map fst (all_delegations e' x) = map fst (all_delegations e x) /\
  delegated e' x <= delegated e x.
Proof.
  unfold ev_slash. intros H. check_inv H as Hle. check_inv H as Hden. inversion H; subst e'. clear H.
  assert (Hd : den <> 0) by lia.
  set (f := fun kv : (addr * val) * N =>
              if snd (fst kv) =? v then slash_amt (snd kv) num den else snd kv).
  unfold delegated, all_delegations, delegation.
  cbn [set_unb set_del e_del].
  match goal with
  | |- context [get eqbNN (map ?g (e_del e))] =>
      assert (Emap : map g (e_del e) = map (fun kv => (fst kv, f kv)) (e_del e))
  end.
  { apply map_ext. intros [[x0 v'] a]. unfold f. cbn [fst snd]. destruct (v' =? v); reflexivity. }
  rewrite Emap. clear Emap.
  induction VALS as [|v0 vs IH]; cbn [flat_map]; [split; [reflexivity | lia]|].
  repeat rewrite map_app. rewrite !sumN_app. destruct IH as [IH1 IH2]. rewrite IH1.
  rewrite Slash_get_map_del.
  destruct (get eqbNN (e_del e) (x, v0)) as [a|]; cbn [map fst snd sumN app]; [|split; [reflexivity | lia]].
  split; [reflexivity|].
  assert (Q : f (x, v0, a) <= a).
  { unfold f. cbn [fst snd]. destruct (v0 =? v); [apply Slash_slash_amt_le; exact Hd | lia]. }
  clearbody f.
  match type of IH2 with ?s1 <= ?s2 => set (S1 := s1) in *; set (S2 := s2) in * end.
  set (fa := f (x, v0, a)) in *. clearbody S1 S2 fa. lia.
Qed.

(** "After validators are slashed, the next check sets the booked stake to exactly the surviving
    delegated amount": if the books did not exceed the delegations before the slash (invariant C02)
    and the hub has a delegation entry, the check in the slashed world books
    min(old books, surviving delegations) -- the surviving amount exactly whenever the slash bit
    into the booked stake *)
Theorem slash_then_check w h v num den unb e' s' :
  ev_slash (w_env w) v num den unb = Some e' ->
  hp_underlying (h_params h) = usei ->
  all_delegations (w_env w) A_hub <> [] ->
  query_actual_state (set_env w e') A_hub h = Some s' ->
  hs_bb s' + hs_bst s' = N.min (booked h) (delegated e' A_hub) /\
  delegated e' A_hub <= delegated (w_env w) A_hub /\
  (delegated e' A_hub < booked h -> hs_bb s' + hs_bst s' = delegated e' A_hub).
Proof.
  intros Hsl Hu Hne Hq.
  destruct (slash_lowers_delegated _ _ _ _ _ _ A_hub Hsl) as [Hk Hl].
  assert (Hne' : all_delegations (w_env (set_env w e')) A_hub <> []).
  { cbn [set_env w_env]. intros E. rewrite E in Hk. cbn [map] in Hk.
    destruct (all_delegations (w_env w) A_hub); [contradiction | discriminate]. }
  pose proof (sync_books_min _ _ _ _ Hq Hu Hne') as Hm. cbn [set_env w_env] in Hm.
  split; [exact Hm|]. split; [exact Hl|]. intros Hlt. lia.
Qed.

Example slash_then_check_nonvacuous :
  ev_slash (w_env Slash_ex_w0) 0 1 100 false =
    Some (Slash_ex_env [(0, 495000000); (1, 500000001)]) /\
  all_delegations (w_env Slash_ex_w0) A_hub <> [] /\
  query_actual_state (set_env Slash_ex_w0 (Slash_ex_env [(0, 495000000); (1, 500000001)])) A_hub Slash_ex_h =
    Some (mkHubState 994999998578571430 995000000000000000 696500000 298500001 0 0 0 0).
Proof. vm_compute. repeat split; discriminate. Qed.
