(** * FeeTx: C05 (peg-recovery fee) at TRANSACTION / observable level — Bond and the two Converts.

    Props/C05.v speaks about the hub HANDLERS and takes "the new supply is S + minted / S - burned"
    and "the stored rate is backing over claims" as explicit arithmetic links.  Here the links are
    closed with the transaction theorems of Proofs/RateTx.v / RateTxConvert.v: every statement is about
    the world before and after [run tx_fuel w [(user, root)] [] = Some (w', tr)], about what the State
    query [hub_query_state _ A_hub] reports in the two worlds, and about token balances.
    (The bSei Unbond transaction is in Proofs/FeeTxUnbond.v, histories and examples in
    Proofs/FeeTxHist.v.)

    Vocabulary
    - [PegBelow w]  : whatever the State query reports in [w]: bSei backing <= bSei claims
                      ([w_claims_b w] = bSei supply + open-batch bSei requests stored in [w]) and the
                      reported bSei rate <= 1.
    - [PegDust k w] : reported bSei backing <= claims + k.

    Main theorems
    - [ft_reported], [ft_reported_stored] : in a wired world with [EntWf] the reported bSei rate IS
                            backing over claims, or the reported bSei pool is empty (and the reported
                            state is the stored one).
    - [ft_below_one]      : hence a reported rate below 1 means backing <= claims.
    - [ft_qas_bb_le]      : the synchronisation never raises the bSei pool.
    - [feetx_bond_fee], [feetx_conv_st_b_fee], [feetx_conv_b_st_fee] :
          what the sender is credited, with the fee [fee]: no fee at/above the threshold,
          fee <= floor(x * peg_fee), credited between (no-fee amount - floor(x * peg_fee)) and
          the no-fee amount.
    - [feetx_bond_peg], [feetx_conv_st_b_peg] : from [backing <= claims /\ rate <= 1] (in particular
          from a reported rate below 1: [feetx_bond_no_overshoot], [feetx_conv_st_b_no_overshoot])
          the new world reports backing <= claims and rate <= 1, exactly (no dust).
    - [feetx_conv_b_st_peg] / [feetx_conv_b_st_no_overshoot] : the same for bSei -> stSei with one
          unit of dust: backing' <= claims' + 1, rate' <= 1 + floor(1e18 / claims'). *)
From Coq Require Import Permutation.
From Krp Require Import Tactics Prelude Fixed FMap Types Env Registry Cw20 Reward Dispatcher Hub Exec
     ExecP Hist Inv RegistryP HubFrame HubAdmin Cw20P MirrorWire MirrorP HubRates HubFee
     BooksEnv BooksHub BooksP BooksLiquid IndexRun IndexEnv IndexHandlers IndexPhases RateTxLegs RateTx
     RateTxConvert.
Open Scope N_scope.
Ltac Zify.zify_post_hook ::= Z.div_mod_to_equations.

(** ** vocabulary *)
Definition PegBelow (w : world) : Prop :=
  forall s, hub_query_state w A_hub = Some s -> hs_bb s <= w_claims_b w /\ hs_ber s <= D.

Definition PegDust (k : N) (w : world) : Prop :=
  forall s, hub_query_state w A_hub = Some s -> hs_bb s <= w_claims_b w + k.

(** ** A. arithmetic *)
Lemma ft_ddiv_ge p r : r <> 0 -> r <= D -> p <= p * D / r.
Proof. apply HubFee.ddiv_ge. Qed.

Lemma ft_frac_mono a b f : a <= b -> a * f / D <= b * f / D.
Proof. intros H. apply N.div_le_mono; [exact D_nz|]. apply N.mul_le_mono_r. exact H. Qed.

(** backing at most [k] above claims: the rate is at most 1 + floor(k * 1e18 / claims) *)
Lemma ft_rate_dust B C k : B <= C + k -> rate_of B C <= D + k * D / C.
Proof.
  intros H. unfold rate_of. destruct ((B =? 0) || (C =? 0)) eqn:E; [apply N.le_add_r|].
  assert (HC : C <> 0) by lia.
  apply N.le_trans with ((D * C + k * D) / C).
  - apply N.div_le_mono; [exact HC|].
    assert (B * D <= (C + k) * D) by (apply N.mul_le_mono_r; exact H). lia.
  - rewrite N.div_add_l by exact HC. apply N.le_refl.
Qed.

Lemma ft_rate_le_one B C : B <= C -> rate_of B C <= D.
Proof. apply HubFee.rate_le_one. Qed.

(** the minting paths (Bond, stSei -> bSei): backing within claims and rate in (0,1] before, the fee
    being at most the restoring cap, give backing within claims after *)
Lemma ft_mint_no_overshoot S Q B p r thr f :
  B <= S + Q -> r <> 0 -> r <= D ->
  let m0 := p * D / r in
  let fee := if r <? thr then N.min (m0 * f / D) (S + m0 + Q - (B + p)) else 0 in
  B + p <= S + (m0 - fee) + Q.
Proof.
  intros HB Hr0 Hr1 m0 fee. assert (Hm : p <= m0) by (apply ft_ddiv_ge; assumption).
  unfold fee. destruct (r <? thr); lia.
Qed.

(** the redeeming path bSei -> stSei: with the exact rate, the fee being at most the restoring cap
    gap * (claims - amount) / backing, the pool ends at most one base unit above its claims *)
Lemma ft_redeem_dust S Q B a r thr f :
  r = rate_of B (S + Q) \/ B = 0 -> B <= S + Q -> a <= S -> a <= D ->
  let c := S + Q in
  let fee := if r <? thr
             then N.min (a * f / D) (if B =? 0 then c - B else (c - B) * (c - a) / B) else 0 in
  fee <= a -> B - (a - fee) * r / D <= (S - a) + Q + 1.
Proof.
  intros Hr HB HaS HaD c fee Hfa.
  destruct (N.eq_dec B 0) as [HB0|HB0]; [rewrite HB0; rewrite N.sub_0_l; apply N.le_0_l|].
  destruct Hr as [Hr|Hr]; [|contradiction].
  assert (Hc0 : c <> 0) by (unfold c; lia).
  assert (Er : r = B * D / c).
  { rewrite Hr. unfold rate_of. fold c. assert (E : ((B =? 0) || (c =? 0)) = false) by lia. rewrite E. reflexivity. }
  assert (Hcap : fee * B <= (c - B) * (c - a)).
  { unfold fee. destruct (r <? thr); [|rewrite N.mul_0_l; apply N.le_0_l].
    assert (Ez : (B =? 0) = false) by lia. rewrite Ez.
    apply N.le_trans with ((c - B) * (c - a) / B * B).
    - apply N.mul_le_mono_r. apply N.le_min_r.
    - rewrite N.mul_comm. apply N.mul_div_le. exact HB0. }
  assert (Hd : B - (a - fee) * (B * D / c) / D <= (c - a) + 1).
  { apply redeem_dust; try (unfold c; lia). replace (a - (a - fee)) with fee by lia. exact Hcap. }
  rewrite Er. unfold c in *. lia.
Qed.

(** closing a batch of [q] requests at the exact rate of a pool that is within its claims *)
Lemma ft_close_dust B c q : B <= c -> q <= c -> q <= D -> B - q * rate_of B c / D <= (c - q) + 1.
Proof.
  intros HB Hq HqD. unfold rate_of. destruct ((B =? 0) || (c =? 0)) eqn:Hz.
  - assert (E : B = 0) by lia. rewrite E, N.sub_0_l. apply N.le_0_l.
  - apply redeem_dust; try lia. rewrite N.sub_diag. apply N.le_0_l.
Qed.

(** ** B. what the State query reports *)

(** the synchronisation (pro-rata split of a slashing loss) never raises the bSei pool *)
Lemma ft_sync_bb_le actual bb bst : fst (sync_pools actual bb bst) <= bb.
Proof.
  destruct (actual <? bb + bst) eqn:E.
  - destruct (sync_pools_sum actual bb bst) as [_ H]; [lia|].
    set (x := fst (sync_pools actual bb bst)) in *.
    assert (H2 : actual * bb <= (bb + bst) * bb) by (apply N.mul_le_mono_r; lia).
    assert (H3 : x * (bb + bst) <= bb * (bb + bst)) by lia.
    apply N.mul_le_mono_pos_r in H3; [exact H3|lia].
  - unfold sync_pools. rewrite E. cbn [fst]. lia.
Qed.

Lemma ft_qas_bb_le w self h s :
  query_actual_state w self h = Some s -> hs_bb s <= hs_bb (h_state h).
Proof.
  intros H. apply qas_inv in H.
  destruct H as [[_ ->]|[_ (actual & _ & [[_ ->]|(_ & sb & ss & _ & _ & ->)])]]; try lia.
  unfold synced_state. cbn [hs_bb]. apply ft_sync_bb_le.
Qed.

(** in a wired world in which stake is booked only while the hub has delegations, the reported bSei
    rate is backing over claims, or the reported bSei pool is empty (and the reported state is the
    stored one) *)
Lemma ft_reported_stored w s h :
  Wired w -> EntWf w -> w_hub w = Some h -> hub_query_state w A_hub = Some s ->
  hs_ber s = rate_of (hs_bb s) (w_claims_b w) \/ (hs_bb s = 0 /\ s = h_state h).
Proof.
  intros HW [_ Hent] Hh0 Hq.
  destruct (Wired_inv _ HW) as (h1 & r & d & g & tb & ts & Hh & _ & _ & _ & Hb & Hs & _ & _ & Wb & Ws & _).
  rewrite Hh0 in Hh. inversion Hh; subst h1. clear Hh. rename Hh0 into Hh.
  unfold hub_query_state in Hq. rewrite Hh in Hq. cbn [bind] in Hq.
  destruct (rt_supplies w h tb ts Wb Ws Hb Hs) as [S1 S2].
  apply qas_inv in Hq.
  destruct Hq as [[He Es]|[Hne (actual & _ & [[Hb0 Es]|(Hpos & sb & ss & E1 & E2 & Es)])]].
  - right. subst s. split; [|reflexivity]. destruct (Hent h Hh) as [Z|Z]; [unfold booked in Z; lia|contradiction].
  - right. subst s. split; [|reflexivity]. unfold booked in Hb0. lia.
  - left. rewrite S1 in E1. inversion E1; subst sb. subst s.
    rewrite (rt_claims_b w h tb Hh Hb). unfold synced_state. cbn [hs_ber hs_bb]. reflexivity.
Qed.

Lemma ft_reported w s :
  Wired w -> EntWf w -> hub_query_state w A_hub = Some s ->
  hs_ber s = rate_of (hs_bb s) (w_claims_b w) \/ hs_bb s = 0.
Proof.
  intros HW HE Hq. destruct (Wired_inv _ HW) as (h & _ & _ & _ & _ & _ & Hh & _).
  destruct (ft_reported_stored w s h HW HE Hh Hq) as [E|[E _]]; auto.
Qed.

(** a reported rate below 1 means: backing within claims *)
Lemma ft_below_one w s :
  Wired w -> EntWf w -> hub_query_state w A_hub = Some s -> hs_ber s < D -> hs_bb s <= w_claims_b w.
Proof.
  intros HW HE Hq Hlt. destruct (ft_reported w s HW HE Hq) as [E|E]; [|lia].
  rewrite E in Hlt. apply rate_below_one in Hlt. lia.
Qed.

Lemma ft_exists_state w s : Wired w -> hub_query_state w A_hub = Some s ->
  exists h tb ts r, w_hub w = Some h /\ w_bsei w = Some tb /\ w_stsei w = Some ts /\ w_reward w = Some r.
Proof.
  intros HW _. destruct (Wired_inv _ HW) as (h & r & d & g & tb & ts & Hh & Hr & _ & _ & Hb & Hs & _).
  exists h, tb, ts, r. auto.
Qed.

(** the peg fees of the two minting paths obey the proportional cap and vanish at/above the threshold *)
Lemma ft_stb_fee_bounds h s sb d m0 :
  conv_stb_fee h s sb d m0 <= m0 * hp_pegfee (h_params h) / D /\
  (hp_thr (h_params h) <= hs_ber s -> conv_stb_fee h s sb d m0 = 0).
Proof.
  unfold conv_stb_fee. destruct (hs_ber s <? hp_thr (h_params h)) eqn:E; split.
  - apply N.le_min_l.
  - intros Ht. exfalso. lia.
  - apply N.le_0_l.
  - reflexivity.
Qed.

Lemma ft_bst_fee_bounds h s sb a :
  conv_bst_fee h s sb a <= a * hp_pegfee (h_params h) / D /\
  (hp_thr (h_params h) <= hs_ber s -> conv_bst_fee h s sb a = 0).
Proof.
  unfold conv_bst_fee. destruct (hs_ber s <? hp_thr (h_params h)) eqn:E; split.
  - apply N.le_min_l.
  - intros Ht. exfalso. lia.
  - apply N.le_0_l.
  - reflexivity.
Qed.

Lemma ft_bond_amount h s sb p :
  bond_b_amount h s sb p = p * D / hs_ber s - conv_stb_fee h s sb p (p * D / hs_ber s).
Proof. reflexivity. Qed.

(** ** C. Bond *)

(** what the sender is credited *)
Theorem feetx_bond_fee w user funds w' tr h tb :
  Wired w -> EntWf w -> w_hub w = Some h -> w_bsei w = Some tb ->
  run tx_fuel w [(user, MWasm A_hub (WHub HBond) funds)] [] = Some (w', tr) ->
  exists p s tb',
    funds = [(usei, p)] /\ 0 < p /\ hub_query_state w A_hub = Some s /\ w_bsei w' = Some tb' /\
    let m0 := p * D / hs_ber s in
    let fee := conv_stb_fee h s (tk_supply tb) p m0 in
    tbal tb' user = tbal tb user + (m0 - fee) /\ tk_supply tb' = tk_supply tb + (m0 - fee) /\
    (forall a, a <> user -> tbal tb' a = tbal tb a) /\
    fee < m0 /\ fee <= m0 * hp_pegfee (h_params h) / D /\
    (hp_thr (h_params h) <= hs_ber s -> fee = 0 /\ tbal tb' user = tbal tb user + m0) /\
    tbal tb user + (m0 - m0 * hp_pegfee (h_params h) / D) <= tbal tb' user /\
    tbal tb' user <= tbal tb user + m0.
Proof.
  intros HW HE Hh Hb H.
  destruct (Wired_inv _ HW) as (h0 & r & d & g & tb0 & ts & _ & Hr & _ & _ & _ & Hs & _).
  destruct (bond_tx_effect w user funds w' tr h tb ts r HW HE Hh Hb Hs Hr H)
    as (p & s & h' & tb' & r' & Hf & Hpos & Hq & Hber & E).
  cbv zeta in E. destruct E as (Hm & _ & Hb' & _ & _ & _ & _ & T1 & T2 & T3 & _).
  exists p, s, tb'. split; [exact Hf|]. split; [exact Hpos|]. split; [exact Hq|]. split; [exact Hb'|].
  cbv zeta. rewrite ft_bond_amount in Hm, T1, T2.
  destruct (ft_stb_fee_bounds h s (tk_supply tb) p (p * D / hs_ber s)) as [F1 F2].
  set (m0 := p * D / hs_ber s) in *. set (fee := conv_stb_fee h s (tk_supply tb) p m0) in *.
  split; [exact T2|]. split; [exact T1|]. split; [exact T3|]. split; [lia|]. split; [exact F1|].
  split; [intros Ht; specialize (F2 Ht); split; [exact F2|rewrite T2, F2; lia]|]. split; lia.
Qed.

(** backing within claims and rate <= 1 before: the same after, exactly *)
Theorem feetx_bond_peg w user funds w' tr s s' :
  Wired w -> EntWf w ->
  run tx_fuel w [(user, MWasm A_hub (WHub HBond) funds)] [] = Some (w', tr) ->
  hub_query_state w A_hub = Some s -> hub_query_state w' A_hub = Some s' ->
  hs_bb s <= w_claims_b w -> hs_ber s <= D ->
  hs_bb s' <= w_claims_b w' /\ hs_ber s' <= D /\ hs_ber s' = rate_of (hs_bb s') (w_claims_b w').
Proof.
  intros HW HE H Hq Hq' HB HR.
  destruct (Wired_inv _ HW) as (h & r & d & g & tb & ts & Hh & Hr & _ & _ & Hb & Hs & _).
  destruct (bond_tx_effect w user funds w' tr h tb ts r HW HE Hh Hb Hs Hr H)
    as (p & s0 & h' & tb' & r' & Hf & Hpos & Hq0 & Hber & E).
  rewrite Hq in Hq0. inversion Hq0; subst s0; clear Hq0.
  cbv zeta in E.
  destruct E as (_ & Hh' & Hb' & _ & _ & _ & _ & T1 & _ & _ & _ & _ & _ & _ & _ & Hbt & _ & _ & _ & _ & _ & Hrep).
  destruct (Hrep s' Hq') as (Q1 & _ & Q3 & _).
  rewrite (rt_claims_b w h tb Hh Hb) in HB.
  rewrite (rt_claims_b w' h' tb' Hh' Hb'), Hbt, T1, Q1, Q3.
  assert (K : hs_bb s + p <= tk_supply tb + bond_b_amount h s (tk_supply tb) p + cb_reqb (h_batch h)).
  { apply (ft_mint_no_overshoot (tk_supply tb) (cb_reqb (h_batch h)) (hs_bb s) p (hs_ber s)
             (hp_thr (h_params h)) (hp_pegfee (h_params h))); assumption. }
  split; [exact K|]. split; [apply ft_rate_le_one; exact K | reflexivity].
Qed.

Theorem feetx_bond_no_overshoot w user funds w' tr s s' :
  Wired w -> EntWf w ->
  run tx_fuel w [(user, MWasm A_hub (WHub HBond) funds)] [] = Some (w', tr) ->
  hub_query_state w A_hub = Some s -> hub_query_state w' A_hub = Some s' ->
  hs_ber s < D ->
  hs_bb s' <= w_claims_b w' /\ hs_ber s' <= D /\ hs_ber s' = rate_of (hs_bb s') (w_claims_b w').
Proof.
  intros HW HE H Hq Hq' Hlt.
  apply (feetx_bond_peg w user funds w' tr s s'); try assumption; [|lia].
  apply ft_below_one; assumption.
Qed.

(** ** D. Convert stSei -> bSei *)
Theorem feetx_conv_st_b_fee w user amount funds w' tr h tb :
  Wired w -> EntWf w -> w_hub w = Some h -> w_bsei w = Some tb ->
  run tx_fuel w [(user, MWasm A_stsei (WCw20 (CSend A_hub amount HkConvert)) funds)] [] = Some (w', tr) ->
  exists s tb',
    hub_query_state w A_hub = Some s /\ w_bsei w' = Some tb' /\
    let d := amount * hs_ser s / D in
    let m0 := d * D / hs_ber s in
    let fee := conv_stb_fee h s (tk_supply tb) d m0 in
    tbal tb' user = tbal tb user + (m0 - fee) /\ tk_supply tb' = tk_supply tb + (m0 - fee) /\
    (forall a, a <> user -> tbal tb' a = tbal tb a) /\
    fee < m0 /\ fee <= m0 * hp_pegfee (h_params h) / D /\
    (hp_thr (h_params h) <= hs_ber s -> fee = 0 /\ tbal tb' user = tbal tb user + m0) /\
    tbal tb user + (m0 - m0 * hp_pegfee (h_params h) / D) <= tbal tb' user /\
    tbal tb' user <= tbal tb user + m0.
Proof.
  intros HW HE Hh Hb H.
  destruct (Wired_inv _ HW) as (h0 & r & dp & g & tb0 & ts & _ & _ & _ & _ & _ & Hs & _).
  destruct (convert_st_b_tx_effect w user amount funds w' tr h tb ts HW HE Hh Hb Hs H)
    as (s & h' & tb' & ts' & Hq & Hber & E).
  cbv zeta in E. destruct E as (Hm & Hfee & _ & _ & _ & Hb' & _ & _ & _ & _ & T1 & T2 & T3 & _).
  exists s, tb'. split; [exact Hq|]. split; [exact Hb'|]. cbv zeta.
  set (d := amount * hs_ser s / D) in *. set (m0 := d * D / hs_ber s) in *.
  destruct (ft_stb_fee_bounds h s (tk_supply tb) d m0) as [F1 F2].
  set (fee := conv_stb_fee h s (tk_supply tb) d m0) in *.
  split; [exact T2|]. split; [exact T1|]. split; [exact T3|]. split; [lia|]. split; [exact F1|].
  split; [intros Ht; specialize (F2 Ht); split; [exact F2|rewrite T2, F2; lia]|]. split; lia.
Qed.

Theorem feetx_conv_st_b_peg w user amount funds w' tr s s' :
  Wired w -> EntWf w ->
  run tx_fuel w [(user, MWasm A_stsei (WCw20 (CSend A_hub amount HkConvert)) funds)] [] = Some (w', tr) ->
  hub_query_state w A_hub = Some s -> hub_query_state w' A_hub = Some s' ->
  hs_bb s <= w_claims_b w -> hs_ber s <= D ->
  hs_bb s' <= w_claims_b w' /\ hs_ber s' <= D /\ hs_ber s' = rate_of (hs_bb s') (w_claims_b w').
Proof.
  intros HW HE H Hq Hq' HB HR.
  destruct (Wired_inv _ HW) as (h & r & dp & g & tb & ts & Hh & _ & _ & _ & Hb & Hs & _).
  destruct (convert_st_b_tx_effect w user amount funds w' tr h tb ts HW HE Hh Hb Hs H)
    as (s0 & h' & tb' & ts' & Hq0 & Hber & E).
  rewrite Hq in Hq0. inversion Hq0; subst s0; clear Hq0.
  cbv zeta in E.
  destruct E as (_ & _ & _ & _ & Hh' & Hb' & _ & _ & _ & _ & T1 & _ & _ & _ & _ & Hbt & _ & _ & _ & _ & Hrep).
  destruct (Hrep s' Hq') as (Q1 & _ & Q3 & _).
  rewrite (rt_claims_b w h tb Hh Hb) in HB.
  rewrite (rt_claims_b w' h' tb' Hh' Hb'), Hbt, T1, Q1, Q3.
  set (d := amount * hs_ser s / D) in *.
  assert (K : hs_bb s + d <= tk_supply tb + (d * D / hs_ber s - conv_stb_fee h s (tk_supply tb) d (d * D / hs_ber s))
                             + cb_reqb (h_batch h)).
  { apply (ft_mint_no_overshoot (tk_supply tb) (cb_reqb (h_batch h)) (hs_bb s) d (hs_ber s)
             (hp_thr (h_params h)) (hp_pegfee (h_params h))); assumption. }
  split; [exact K|]. split; [apply ft_rate_le_one; exact K | reflexivity].
Qed.

Theorem feetx_conv_st_b_no_overshoot w user amount funds w' tr s s' :
  Wired w -> EntWf w ->
  run tx_fuel w [(user, MWasm A_stsei (WCw20 (CSend A_hub amount HkConvert)) funds)] [] = Some (w', tr) ->
  hub_query_state w A_hub = Some s -> hub_query_state w' A_hub = Some s' ->
  hs_ber s < D ->
  hs_bb s' <= w_claims_b w' /\ hs_ber s' <= D /\ hs_ber s' = rate_of (hs_bb s') (w_claims_b w').
Proof.
  intros HW HE H Hq Hq' Hlt.
  apply (feetx_conv_st_b_peg w user amount funds w' tr s s'); try assumption; [|lia].
  apply ft_below_one; assumption.
Qed.

(** ** E. Convert bSei -> stSei *)
Theorem feetx_conv_b_st_fee w user amount funds w' tr h ts :
  Wired w -> EntWf w -> w_hub w = Some h -> w_stsei w = Some ts ->
  run tx_fuel w [(user, MWasm A_bsei (WCw20 (CSend A_hub amount HkConvert)) funds)] [] = Some (w', tr) ->
  exists s tb ts',
    hub_query_state w A_hub = Some s /\ w_bsei w = Some tb /\ w_stsei w' = Some ts' /\
    let fee := conv_bst_fee h s (tk_supply tb) amount in
    let credit x := x * hs_ber s / D * D / hs_ser s in
    tbal ts' user = tbal ts user + credit (amount - fee) /\
    tk_supply ts' = tk_supply ts + credit (amount - fee) /\
    (forall a, a <> user -> tbal ts' a = tbal ts a) /\
    fee <= amount /\ fee <= amount * hp_pegfee (h_params h) / D /\
    (hp_thr (h_params h) <= hs_ber s ->
       fee = 0 /\ tbal ts' user = tbal ts user + credit amount /\
       forall s', hub_query_state w' A_hub = Some s' ->
         hs_bb s' = hs_bb s - amount * hs_ber s / D /\ hs_bst s' = hs_bst s + amount * hs_ber s / D) /\
    tbal ts user + credit (amount - amount * hp_pegfee (h_params h) / D) <= tbal ts' user /\
    tbal ts' user <= tbal ts user + credit amount.
Proof.
  intros HW HE Hh Hs H.
  destruct (Wired_inv _ HW) as (h0 & r & dp & g & tb & ts0 & _ & _ & _ & _ & Hb & _ & _).
  destruct (convert_b_st_tx_effect w user amount funds w' tr h tb ts HW HE Hh Hb Hs H)
    as (s & h' & tb' & ts' & Hq & Hser & E).
  cbv zeta in E.
  destruct E as (Hm & Hfee & _ & _ & _ & _ & Hs' & _ & _ & _ & T1 & T2 & T3 & _ & _ & _ & _ & _ & _ & _ & Hrep).
  exists s, tb, ts'. split; [exact Hq|]. split; [exact Hb|]. split; [exact Hs'|]. cbv zeta.
  destruct (ft_bst_fee_bounds h s (tk_supply tb) amount) as [F1 F2].
  set (fee := conv_bst_fee h s (tk_supply tb) amount) in *.
  assert (Hmono : forall x y, x <= y -> x * hs_ber s / D * D / hs_ser s <= y * hs_ber s / D * D / hs_ser s).
  { intros x y Hxy. apply N.div_le_mono; [exact Hser|]. apply N.mul_le_mono_r.
    apply N.div_le_mono; [exact D_nz|]. apply N.mul_le_mono_r. exact Hxy. }
  split; [exact T2|]. split; [exact T1|]. split; [exact T3|]. split; [exact Hfee|]. split; [exact F1|].
  split.
  { intros Ht. specialize (F2 Ht). split; [exact F2|]. rewrite F2, N.sub_0_r in *.
    split; [exact T2|]. intros s' Hq'. destruct (Hrep s' Hq') as (Q1 & Q2 & _). split; assumption. }
  split.
  - rewrite T2. apply N.add_le_mono_l. apply Hmono. lia.
  - rewrite T2. apply N.add_le_mono_l. apply Hmono. lia.
Qed.

(** backing within claims before (with the reported rate exact, which [ft_reported] provides):
    at most one base unit above the claims after *)
Theorem feetx_conv_b_st_peg w user amount funds w' tr s s' :
  Wired w -> EntWf w -> w_claims_b w <= LIM ->
  run tx_fuel w [(user, MWasm A_bsei (WCw20 (CSend A_hub amount HkConvert)) funds)] [] = Some (w', tr) ->
  hub_query_state w A_hub = Some s -> hub_query_state w' A_hub = Some s' ->
  hs_bb s <= w_claims_b w ->
  hs_bb s' <= w_claims_b w' + 1 /\ hs_ber s' <= D + D / w_claims_b w' /\
  hs_ber s' = rate_of (hs_bb s') (w_claims_b w').
Proof.
  intros HW HE HL H Hq Hq' HB.
  destruct (Wired_inv _ HW) as (h & r & dp & g & tb & ts & Hh & _ & _ & _ & Hb & Hs & _).
  pose proof (ft_reported w s HW HE Hq) as Hrep0.
  destruct (convert_b_st_tx_effect w user amount funds w' tr h tb ts HW HE Hh Hb Hs H)
    as (s0 & h' & tb' & ts' & Hq0 & Hser & E).
  rewrite Hq in Hq0. inversion Hq0; subst s0; clear Hq0.
  cbv zeta in E.
  destruct E as (_ & Hfee & _ & _ & Hh' & Hb' & _ & T1 & _ & _ & _ & _ & _ & _ & _ & Hbt & _ & _ & _ & _ & Hrep).
  destruct (Hrep s' Hq') as (Q1 & _ & Q3 & _).
  rewrite (rt_claims_b w h tb Hh Hb) in HB, HL, Hrep0. unfold LIM in HL.
  assert (T1' : tk_supply tb' = tk_supply tb - amount) by lia.
  rewrite (rt_claims_b w' h' tb' Hh' Hb'), Hbt, T1', Q1, Q3.
  assert (K : hs_bb s - (amount - conv_bst_fee h s (tk_supply tb) amount) * hs_ber s / D
              <= tk_supply tb - amount + cb_reqb (h_batch h) + 1).
  { apply (ft_redeem_dust (tk_supply tb) (cb_reqb (h_batch h)) (hs_bb s) amount (hs_ber s)
             (hp_thr (h_params h)) (hp_pegfee (h_params h))); try assumption; lia. }
  split; [exact K|]. split; [|reflexivity].
  eapply N.le_trans; [apply (ft_rate_dust _ _ 1); exact K|]. rewrite N.mul_1_l. lia.
Qed.

Theorem feetx_conv_b_st_no_overshoot w user amount funds w' tr s s' :
  Wired w -> EntWf w -> w_claims_b w <= LIM ->
  run tx_fuel w [(user, MWasm A_bsei (WCw20 (CSend A_hub amount HkConvert)) funds)] [] = Some (w', tr) ->
  hub_query_state w A_hub = Some s -> hub_query_state w' A_hub = Some s' ->
  hs_ber s < D ->
  hs_bb s' <= w_claims_b w' + 1 /\ hs_ber s' <= D + D / w_claims_b w' /\
  hs_ber s' = rate_of (hs_bb s') (w_claims_b w').
Proof.
  intros HW HE HL H Hq Hq' Hlt.
  apply (feetx_conv_b_st_peg w user amount funds w' tr s s'); try assumption.
  apply ft_below_one; assumption.
Qed.

(** the vocabulary, restated for the property file *)
Lemma def_PegBelow : forall w, PegBelow w <->
  forall s, hub_query_state w A_hub = Some s -> hs_bb s <= w_claims_b w /\ hs_ber s <= D.
Proof. intros w. reflexivity. Qed.

Lemma def_PegDust : forall k w, PegDust k w <->
  forall s, hub_query_state w A_hub = Some s -> hs_bb s <= w_claims_b w + k.
Proof. intros k w. reflexivity. Qed.
