(** * Arrival (C01, arrival identity): in every world reached by a history inside the envelope, the coins
    that [process_withdraw_rate] treats as "arrived" — bank(hub, usei) - prev_hub_balance — are exactly
    the coins the staking module delivered for the batches of the release group (post-slashing
    amounts), plus unsolicited transfers.

    Definitions
    - [Arr_W P w]  coins undelegated for the history batches that are still unbonding in [w]
                   (now < time + chain unbonding time) and whose completion time satisfies [P];
      [Arr_M P w]  the same for the unreleased batches that have matured (time + ut <= now);
      [Arr_U w]    the same for all unreleased batches;  [Arr_phb w] prev_hub_balance (0 while no hub);
      the coins undelegated for a batch = its requests valued at the recorded rates
      = [GR_batch_value] of its unreleased history entry = the sum of its Undelegate messages;
    - [Arr_rel ex x y]  x = y if [ex], x <= y otherwise ([ex] = "no slashing of unbonding entries");
    - [Arr_Inv ex w]    C08 life-cycle invariant + released batches are a full chain unbonding time old +
                        for EVERY window [P] of completion times: the hub's in-flight coins completing
                        in [P] are [Arr_rel ex] the coins undelegated for the batches completing in [P];
    - ghosts [Arr_gfold P ops w g]: [ag_arr] = coins delivered by the staking module to the hub from
      unbonding entries whose completion time satisfies [P] since the last successful
      WithdrawUnbonded; [ag_gift] = usei gifted to the hub ([OGift]) since then;
    - general envelope: [Arr_Env0] (visited worlds: chain unbonding time > 0, hub underlying = usei, hub
      unbonding_period = chain unbonding time) and [Arr_ok0 ex] (operations: no transaction signed by
      the hub, the hub is instantiated once, and if [ex] no slashing of unbonding entries);
      gift-free envelope: [Arr_Env] adds [Arr_NR] (rewards in usei never accrue to the hub), [Arr_ok ex]
      adds [Arr_giftfree] (no executed message hands usei to the hub except a bond payment).

    Main theorems
    - [Arr_inflight_reachable], [Arr_separation]  (2) separation by time and in-flight conservation,
                                 window by window and batch by batch, ghost-free, general envelope;
    - [Arr_conservation]         (1) bal + in-flight (=|<=) prev_hub_balance + coins undelegated for all
                                 unreleased batches + gifts (gift-free envelope);
      [Arr_conservation_ge]      (1) ">=" in the general envelope without unbonding slashing;
    - [Arr_delivered_group], [Arr_delivered_per_batch]  the coins delivered since the last withdrawal
                                 are (=|<=) what the release group expects, window by window, batch by
                                 batch; nothing is delivered for other batches; all of it is in the
                                 balance on top of prev_hub_balance (general envelope);
    - [Arr_arrival_identity]     (3) bal - prev_hub_balance = delivered + gifts (gift-free envelope);
    - [Arr_release_uses_arrival] the release of a WithdrawUnbonded uses exactly that difference;
    - [Arr_release_never_exceeds], [Arr_release_never_exceeds_general], [Arr_release_exact] :
                                 corollaries A and B (composition with GroupRelease.v);
    - [Arr_ex1_nonvacuous] .. [Arr_ex4_intx_gift]  concrete histories (no loss; unbonding slash; earlier
                                 withdrawal + gift + two-batch group; in-transaction gift);
    - [Arr_ut0_witness]          with chain unbonding time 0 the identity fails in the model (a batch is
                                 releasable before the model delivers its coins);
    - [Arr_reinstantiate_witness] so it does if the hub could be instantiated twice at its address. *)
From Krp Require Import Tactics Prelude Fixed FMap Types Env Registry Cw20 Reward Dispatcher Hub Exec
     ExecP Hist Inv RegistryP HubFrame HubAdmin RewardWorld BooksEnv BooksHub BooksP BooksLiquid IndexEnv
     ClaimsStep ClaimsP LifeP LifeLock GroupRelease WithdrawP RewardP FundWorldHub ArrivalEnv ArrivalSums.
Open Scope N_scope.

(** ** 1. definitions *)
Definition Arr_hist (w : world) : fmap N hist_entry :=
  match w_hub w with Some h => h_hist h | None => [] end.
Definition Arr_phb (w : world) : N :=
  match w_hub w with Some h => hs_phb (h_state h) | None => 0 end.
Definition Arr_W (P : N -> bool) (w : world) : N :=
  Arr_hsum (Arr_fW (e_now (w_env w)) (e_ut (w_env w)) P) (Arr_hist w).
Definition Arr_M (P : N -> bool) (w : world) : N :=
  Arr_hsum (Arr_fM (e_now (w_env w)) (e_ut (w_env w)) P) (Arr_hist w).

Definition Arr_rel (ex : bool) (x y : N) : Prop := if ex then x = y else x <= y.

Lemma Arr_rel_add ex a b c d : Arr_rel ex a b -> Arr_rel ex c d -> Arr_rel ex (a + c) (b + d).
Proof. destruct ex; cbn [Arr_rel]; lia. Qed.

Lemma Arr_rel_refl ex a : Arr_rel ex a a.
Proof. destruct ex; cbn [Arr_rel]; lia. Qed.

Lemma Arr_rel_le ex a b : Arr_rel ex a b -> a <= b.
Proof. destruct ex; cbn [Arr_rel]; lia. Qed.

Lemma Arr_rel_weaken ex a b : Arr_rel ex a b -> Arr_rel false a b.
Proof. apply Arr_rel_le. Qed.

(** C08 life cycle + every released batch was undelegated a full chain unbonding time ago *)
Definition Arr_HubInv (w : world) : Prop :=
  forall h, w_hub w = Some h ->
    LifeInv h /\
    forall i e, get N.eqb (h_hist h) i = Some e -> he_released e = true ->
                he_time e + e_ut (w_env w) <= e_now (w_env w).

Definition Arr_Inv (ex : bool) (w : world) : Prop :=
  Arr_HubInv w /\ forall P, Arr_rel ex (Arr_usum P (w_env w)) (Arr_W P w).

(** envelope, per visited world.  [Arr_Env0]: E2 (+ the denom clause of E4) — what the in-flight
    invariant needs; [Arr_Env] adds: staking rewards in usei never accrue to an account whose
    withdraw address is the hub — needed for the exact balance identity only *)
Definition Arr_Env0 (w : world) : Prop :=
  0 < e_ut (w_env w) /\
  forall h, w_hub w = Some h ->
    hp_underlying (h_params h) = usei /\ hp_unbonding (h_params h) = e_ut (w_env w).

Definition Arr_Env (w : world) : Prop := Arr_NR (w_env w) /\ Arr_Env0 w.

(** envelope, per operation.  [Arr_opok0]: no transaction is signed by the hub's own address, the hub
    is instantiated once, and (if [ex]) no slashing event touches unbonding entries;
    [Arr_giftfree]: no executed message of a transaction hands usei to the hub other than as the
    payment of a bond ([no_gift] of BooksLiquid.v) — needed for the exact balance identity only *)
Definition Arr_opok0 (ex : bool) (w : world) (o : op) : Prop :=
  match o with
  | OTx s _ _ _ => s <> A_hub
  | OInstHub _ _ _ _ _ _ _ _ => w_hub w = None
  | OSlash _ _ _ unb => ex = true -> unb = false
  | _ => True
  end.

Definition Arr_giftfree (w : world) (o : op) : Prop :=
  match o with
  | OTx _ _ _ _ => Forall no_gift (snd (snd (step w o)))
  | _ => True
  end.

Definition Arr_opok (ex : bool) (w : world) (o : op) : Prop := Arr_opok0 ex w o /\ Arr_giftfree w o.

Fixpoint Arr_ok0 (ex : bool) (ops : list op) (w : world) : Prop :=
  match ops with
  | [] => True
  | o :: r => Arr_opok0 ex w o /\ Arr_ok0 ex r (fst (step w o))
  end.

Fixpoint Arr_ok (ex : bool) (ops : list op) (w : world) : Prop :=
  match ops with
  | [] => True
  | o :: r => Arr_opok ex w o /\ Arr_ok ex r (fst (step w o))
  end.

Lemma Arr_ok_ok0 ex : forall ops w, Arr_ok ex ops w -> Arr_ok0 ex ops w.
Proof.
  induction ops as [|o r IH]; intros w H; cbn [Arr_ok Arr_ok0] in *; [exact I|].
  destruct H as [[H1 _] H2]. split; [exact H1 | apply IH; exact H2].
Qed.

Lemma Arr_always_env0 : forall ops w, always Arr_Env ops w -> always Arr_Env0 ops w.
Proof.
  induction ops as [|o r IH]; intros w H; cbn [always] in *; destruct H as [[_ H1] H2];
    (split; [exact H1|]); [exact I | apply IH; exact H2].
Qed.

Lemma Arr_opok0_weaken ex w o : Arr_opok0 ex w o -> Arr_opok0 false w o.
Proof. destruct o; cbn [Arr_opok0]; auto. intros _ X. discriminate X. Qed.

Lemma Arr_ok0_weaken ex : forall ops w, Arr_ok0 ex ops w -> Arr_ok0 false ops w.
Proof.
  induction ops as [|o r IH]; intros w H; cbn [Arr_ok0] in *; [exact I|].
  destruct H as [H1 H2]. split; [eapply Arr_opok0_weaken; eauto | apply IH; exact H2].
Qed.

Lemma Arr_ok_weaken ex : forall ops w, Arr_ok ex ops w -> Arr_ok false ops w.
Proof.
  induction ops as [|o r IH]; intros w H; cbn [Arr_ok] in *; [exact I|].
  destruct H as [[H1 H1'] H2]. split; [split; [eapply Arr_opok0_weaken; eauto | exact H1'] | apply IH; exact H2].
Qed.

(** ** 2. hub-level facts *)

(** every hub message other than WithdrawUnbonded keeps prev_hub_balance *)
Lemma Arr_phb_exec w h self sender funds m h' out :
  hub_execute w h self sender funds m = Some (h', out) -> m <> HWithdraw -> HistShape h ->
  hs_phb (h_state h') = hs_phb (h_state h).
Proof.
  intros H Hm Hs. pose proof (FW_open_unreleased h Hs) as Ho.
  unfold hub_execute in H. destruct m.
  - check_inv H as Hp. eapply WD_bond_keeps; eauto.
  - check_inv H as Hp. eapply WD_bond_keeps; eauto.
  - check_inv H as Hp. eapply WD_bond_keeps; eauto.
  - check_inv H as Hp. eapply WD_update_global_keeps; eauto.
  - contradiction.
  - check_inv H as Hp. bind_inv H as h1 Hh1. inversion H; subst h'.
    apply WD_slashing_keeps in Hh1. tauto.
  - unfold execute_update_params in H. check_inv H as Hs1. check_inv H as Hf. check_inv H as Hz.
    inversion H; subst h'. reflexivity.
  - check_inv H as Hp. unfold execute_update_config in H.
    check_inv H as Hs1. check_inv H as Hb1. check_inv H as Hb2. inversion H; subst h'. reflexivity.
  - check_inv H as Hp. check_inv H as Hs1. inversion H; subst h'. reflexivity.
  - check_inv H as Hp. check_inv H as Hs1. inversion H; subst h'. reflexivity.
  - check_inv H as Hp. bind_inv H as reg Hreg. check_inv H as Hs1. inversion H; subst. reflexivity.
  - check_inv H as Hp. check_inv H as Hs1. bind_inv H as t Ht. check_inv H as Hb.
    inversion H; subst. reflexivity.
  - check_inv H as Hp. bind_inv H as reg Hreg. check_inv H as Hs1. inversion H; subst. reflexivity.
  - destruct (paused h); [|discriminate]. inversion H; subst h'.
    pose proof (migrate_params h limit) as M. cbn zeta in M.
    destruct M as (_ & _ & _ & _ & _ & _ & _ & _ & M1 & _). rewrite M1. reflexivity.
  - check_inv H as Hp. eapply WD_receive_keeps; eauto.
Qed.

Lemma Arr_quiet_sum out : quiet_out out -> undelegated_sum out = 0.
Proof.
  unfold undelegated_sum. induction out as [|m out IH]; intros Hq; cbn [map sumN]; [reflexivity|].
  rewrite IH by (intros x Hx; apply Hq; right; exact Hx).
  destruct (Hq m (or_introl eq_refl)) as [Hu _]. destruct m; try reflexivity. discriminate Hu.
Qed.

(** what a hub message other than WithdrawUnbonded does to the history: nothing (and no Undelegate
    is emitted), or it appends the entry of the batch it closes, stamped with the block time,
    unreleased, and the Undelegate messages add up to the value of that entry *)
Lemma Arr_exec_hist w h self sender funds m h' out :
  hub_execute w h self sender funds m = Some (h', out) -> m <> HWithdraw ->
  (h_hist h' = h_hist h /\ undelegated_sum out = 0) \/
  (exists entry, h_hist h' = hist_put (h_hist h) (cb_id (h_batch h)) entry /\
                 he_time entry = e_now (w_env w) /\ he_released entry = false /\
                 GR_batch_value entry = undelegated_sum out).
Proof.
  intros H Hm. apply hub_execute_cases in H.
  destruct H as [_ _ _ (_ & B2 & _) Hq | limit -> -> -> | user amount db dst msgs -> -> _ Hshape | Hw _];
    [| | |contradiction].
  - left. split; [exact B2 | apply Arr_quiet_sum; exact Hq].
  - left. pose proof (migrate_params h limit) as M. cbn zeta in M.
    destruct M as (_ & _ & _ & _ & _ & _ & _ & _ & _ & _ & M3). split; [exact M3 | reflexivity].
  - destruct Hshape as (_ & _ & _ & [(-> & _ & Hh & _) | Hcl]).
    + left. split; [exact Hh | reflexivity].
    + right. destruct Hcl as (_ & _ & _ & _ & _ & entry & bund & sund & Hh & Ht & Hba & Hsa & Hr & Hbw & Hsw
                               & _ & _ & Ms & Mb & Hsum).
      exists entry. split; [exact Hh|]. split; [exact Ht|]. split; [exact Hr|].
      rewrite undelegated_sum_app, Hsum. unfold GR_batch_value. rewrite Hbw, Hsw, Hba, Hsa.
      apply Arr_mulU_val in Ms. apply Arr_mulU_val in Mb. subst bund sund.
      unfold undelegated_sum. cbn [map sumN]. lia.
Qed.

(** ** 3. inside a transaction that executes no WithdrawUnbonded of the hub *)

(** not a call of the hub's WithdrawUnbonded *)
Definition Arr_nwb (m : cmsg) : bool :=
  match m with MWasm to (WHub HWithdraw) _ => negb (to =? A_hub) | _ => true end.
Definition Arr_nw (sm : addr * cmsg) : Prop := Arr_nwb (snd sm) = true.

Lemma Arr_nwb_of_FW m : FW_nwb m = true -> Arr_nwb m = true.
Proof. destruct m as [to wm f| | | | | |]; try reflexivity. destruct wm; try reflexivity. destruct m; try reflexivity. discriminate. Qed.

Lemma Arr_nw_not_withdraw sm : Arr_nw sm -> not_withdraw sm.
Proof.
  unfold Arr_nw, not_withdraw. destruct sm as [s m]. cbn [snd]. intros H f E. subst m.
  cbn [Arr_nwb] in H. rewrite N.eqb_refl in H. discriminate H.
Qed.

Lemma Arr_nwb_false m : Arr_nwb m = false -> exists f, m = MWasm A_hub (WHub HWithdraw) f.
Proof.
  destruct m as [to wm f| | | | | |]; try discriminate. destruct wm; try discriminate.
  destruct m; try discriminate. cbn [Arr_nwb]. intros H. apply negb_false_iff, N.eqb_eq in H. subst. eauto.
Qed.

Lemma Arr_nw_tagged to o : forallb FW_nwb o = true -> Forall Arr_nw (map (fun x => (to, x)) o).
Proof.
  intros H. apply Forall_forall. intros sm Hin. apply in_map_iff in Hin. destruct Hin as (x & <- & Hx).
  rewrite forallb_forall in H. unfold Arr_nw. cbn [snd]. apply Arr_nwb_of_FW. apply H. exact Hx.
Qed.

(** messages emitted by a message that is not the hub's WithdrawUnbonded are not either *)
Lemma Arr_nw_closed w s m w' out :
  Arr_nw (s, m) -> step_msg w s m = Some (w', out) -> Forall Arr_nw out.
Proof.
  unfold Arr_nw at 1. cbn [snd]. intros Hnw H. apply step_msg_inv in H.
  destruct H as [e' _ -> _ | to wm funds e1 o -> Hsend Hc ->]; [constructor|].
  destruct (N.eq_dec to A_hub) as [->|Hne].
  - destruct Hc as [h hm h' _ -> Hw He -> | r rm r' Et _ _ _ _ | d dm d' Et _ _ _ _
                   | g gm g' Et _ _ _ _ | t cm t' Et _ _ _ _ | t cm t' Et _ _ _ _
                   | sm e' Et _ _ _ _ | Et _ _]; try (exfalso; vm_compute in Et; discriminate Et).
    assert (Hm : hm <> HWithdraw) by (intros ->; cbn [Arr_nwb] in Hnw; rewrite N.eqb_refl in Hnw; discriminate Hnw).
    destruct (FW_hub_out _ _ _ _ _ _ _ _ He Hm) as (Hokd & _).
    apply Arr_nw_tagged. rewrite forallb_forall in *. intros x Hx. apply FW_okd_nwb. apply Hokd. exact Hx.
  - destruct (FW_call_other _ _ _ _ _ _ _ Hc Hne) as [_ Ho]. apply Arr_nw_tagged. exact Ho.
Qed.

Definition Arr_PU (stk : list (addr * cmsg)) : N := sumN (map Arr_und_amt stk).

Lemma Arr_PU_app a b : Arr_PU (a ++ b) = Arr_PU a + Arr_PU b.
Proof. unfold Arr_PU. rewrite map_app, sumN_app. reflexivity. Qed.

Lemma Arr_PU_tagged_hub o : Arr_PU (map (fun x => (A_hub, x)) o) = undelegated_sum o.
Proof.
  unfold Arr_PU, undelegated_sum. induction o as [|m o IH]; cbn [map sumN]; [reflexivity|].
  rewrite IH. unfold Arr_und_amt. cbn [fst snd]. rewrite N.eqb_refl. reflexivity.
Qed.

Lemma Arr_PU_tagged_other to o : to <> A_hub -> Arr_PU (map (fun x => (to, x)) o) = 0.
Proof.
  intros Hne. apply N.eqb_neq in Hne. unfold Arr_PU.
  induction o as [|m o IH]; cbn [map sumN]; [reflexivity|].
  rewrite IH. unfold Arr_und_amt. cbn [fst]. rewrite Hne. reflexivity.
Qed.

(** message-level invariant: [phb0], [M0] are prev_hub_balance and the matured sums at the start *)
Definition Arr_J (ex : bool) (phb0 : N) (M0 : (N -> bool) -> N) (w : world) (stk : list (addr * cmsg)) : Prop :=
  Forall Arr_nw stk /\ 0 < e_ut (w_env w) /\ Arr_HubInv w /\
  (forall P, Arr_rel ex (Arr_usum P (w_env w) +
                         (if P (e_now (w_env w) + e_ut (w_env w)) then Arr_PU stk else 0))
                        (Arr_W P w)) /\
  Arr_phb w = phb0 /\ forall P, Arr_M P w = M0 P.

(** worlds with the same hub, block time and chain unbonding time have the same sums *)
Lemma Arr_view_same w w' :
  w_hub w' = w_hub w -> e_now (w_env w') = e_now (w_env w) -> e_ut (w_env w') = e_ut (w_env w) ->
  (Arr_HubInv w -> Arr_HubInv w') /\ Arr_phb w' = Arr_phb w /\
  (forall P, Arr_W P w' = Arr_W P w) /\ (forall P, Arr_M P w' = Arr_M P w).
Proof.
  intros Hh Hn Hu. unfold Arr_HubInv, Arr_phb, Arr_W, Arr_M, Arr_hist. rewrite Hh, Hn, Hu. tauto.
Qed.

(** a hub call other than WithdrawUnbonded, seen from the world *)
Lemma Arr_hub_call ex phb0 M0 w e1 h hm h' s funds o stk :
  e_now e1 = e_now (w_env w) -> e_ut e1 = e_ut (w_env w) -> e_unb e1 = e_unb (w_env w) ->
  w_hub w = Some h -> hm <> HWithdraw ->
  hub_execute (set_env w e1) h A_hub s funds hm = Some (h', o) ->
  Arr_J ex phb0 M0 w stk ->
  Forall Arr_nw (map (fun x => (A_hub, x)) o) ->
  Arr_J ex phb0 M0 (set_hub (set_env w e1) h') (map (fun x => (A_hub, x)) o ++ stk).
Proof.
  intros Hn Hu Hunb Hw Hm He (Hnw & Hut & HI & HU & Hp & HM) Hnwo.
  destruct (HI h Hw) as (HL & HT). pose proof HL as (Hsh & _).
  pose proof (life_inv_execute _ _ _ _ _ _ _ _ HL He) as HL'.
  pose proof (Arr_phb_exec _ _ _ _ _ _ _ _ He Hm Hsh) as Hphb.
  pose proof (Arr_exec_hist _ _ _ _ _ _ _ _ He Hm) as Hhist. cbn [w_env set_env] in Hhist.
  unfold Arr_J. cbn [w_env w_hub set_hub set_env]. rewrite Hn, Hu.
  split; [apply Forall_app; split; assumption|]. split; [exact Hut|].
  unfold Arr_HubInv, Arr_phb, Arr_W, Arr_M, Arr_hist, Arr_usum in *.
  cbn [w_env w_hub set_hub set_env]. rewrite Hw in *. rewrite Hn, Hu, Hunb, Arr_PU_app, Arr_PU_tagged_hub.
  destruct Hhist as [(Hh & Hz) | (entry & Hh & Ht & Hr & Hv)].
  - rewrite Hh, Hz, N.add_0_l. split; [|split; [exact HU | split; [congruence | exact HM]]].
    intros h0 E. inversion E; subst h0. split; [exact HL'|]. rewrite Hh. exact HT.
  - rewrite Hh. split; [|split; [|split; [congruence|]]].
    + intros h0 E. inversion E; subst h0. split; [exact HL'|]. intros i e Hg Hre. rewrite Hh in Hg.
      destruct (N.eq_dec i (cb_id (h_batch h))) as [->|Hi].
      * rewrite hget_put_same in Hg. inversion Hg; subst e. congruence.
      * rewrite hget_put_other in Hg by exact Hi. eapply HT; eauto.
    + intros P. rewrite (Arr_hsum_put_end _ h entry Hsh). specialize (HU P).
      unfold Arr_fW at 2. rewrite Ht, Hn.
      assert (E : (e_now (w_env w) <? e_now (w_env w) + e_ut (w_env w)) = true) by lia.
      rewrite E. cbn [andb]. rewrite Hv.
      destruct (P (e_now (w_env w) + e_ut (w_env w))).
      * replace (Arr_lsumU P (e_unb (w_env w)) + (undelegated_sum o + Arr_PU stk))
          with (Arr_lsumU P (e_unb (w_env w)) + Arr_PU stk + undelegated_sum o) by lia.
        apply Arr_rel_add; [exact HU | apply Arr_rel_refl].
      * rewrite !N.add_0_r. rewrite N.add_0_r in HU. exact HU.
    + intros P. rewrite (Arr_hsum_put_end _ h entry Hsh), <- (HM P).
      unfold Arr_fM at 2. rewrite Ht, Hn, Hr.
      assert (E : (e_now (w_env w) + e_ut (w_env w) <=? e_now (w_env w)) = false) by lia.
      rewrite E. cbn [negb andb]. lia.
Qed.

Theorem Arr_step_J ex phb0 M0 w s m rest w' out :
  Arr_J ex phb0 M0 w ((s, m) :: rest) -> step_msg w s m = Some (w', out) ->
  Arr_J ex phb0 M0 w' (out ++ rest).
Proof.
  intros HJ H. pose proof HJ as (Hnw & Hut & HI & HU & Hp & HM).
  inversion Hnw as [|x l Hhead Hnwr]; subst x l.
  pose proof (Arr_nw_closed _ _ _ _ _ Hhead H) as Hnwo.
  assert (Hstep : forall P, e_now (w_env w') = e_now (w_env w) /\ e_ut (w_env w') = e_ut (w_env w) /\
            Arr_usum P (w_env w') = Arr_usum P (w_env w) +
            (if P (e_now (w_env w) + e_ut (w_env w)) then Arr_und_amt (s, m) else 0))
    by (intros P; eapply Arr_step_usum; eauto).
  destruct (Hstep (fun _ => true)) as (Hn & Hu & _).
  pose proof H as H0. apply step_msg_inv in H0.
  destruct H0 as [e' -> -> Hnm | to wm funds e1 o -> Hsend Hc ->].
  - (* bank / staking message: the hub is untouched *)
    cbn [app]. destruct (Arr_view_same w (set_env w e') eq_refl Hn Hu) as (V1 & V2 & V3 & V4).
    split; [exact Hnwr|]. split; [rewrite Hu; exact Hut|]. split; [apply V1; exact HI|].
    split; [|split; [congruence | intros P; rewrite V4; apply HM]].
    intros P. destruct (Hstep P) as (_ & _ & HS). rewrite HS, V3, Hn, Hu. specialize (HU P).
    unfold Arr_PU in HU. cbn [map sumN] in HU. fold (Arr_PU rest) in HU.
    destruct (P (e_now (w_env w) + e_ut (w_env w))); [|rewrite !N.add_0_r in *; exact HU].
    replace (Arr_usum P (w_env w) + Arr_und_amt (s, m) + Arr_PU rest)
      with (Arr_usum P (w_env w) + (Arr_und_amt (s, m) + Arr_PU rest)) by lia. exact HU.
  - assert (Hz : Arr_und_amt (s, MWasm to wm funds) = 0)
      by (unfold Arr_und_amt; cbn [fst snd]; destruct (s =? A_hub); reflexivity).
    assert (HJr : Arr_J ex phb0 M0 w rest).
    { split; [exact Hnwr|]. split; [exact Hut|]. split; [exact HI|]. split; [|split; assumption].
      intros P. specialize (HU P). unfold Arr_PU in HU. cbn [map sumN] in HU. rewrite Hz, N.add_0_l in HU.
      exact HU. }
    pose proof (send_coins_static _ _ _ _ _ Hsend) as (S1 & S2 & _ & S4 & _).
    destruct (N.eq_dec to A_hub) as [->|Hne].
    + destruct Hc as [h hm h' _ -> Hw He -> | r rm r' Et _ _ _ _ | d dm d' Et _ _ _ _
                     | g gm g' Et _ _ _ _ | t cm t' Et _ _ _ _ | t cm t' Et _ _ _ _
                     | sm e' Et _ _ _ _ | Et _ _]; try (exfalso; vm_compute in Et; discriminate Et).
      cbn [w_hub set_env] in Hw.
      assert (Hm : hm <> HWithdraw).
      { intros ->. unfold Arr_nw in Hhead. cbn [snd Arr_nwb] in Hhead. rewrite N.eqb_refl in Hhead. discriminate. }
      eapply Arr_hub_call; eauto.
    + destruct (FW_call_other _ _ _ _ _ _ _ Hc Hne) as [Hsame _]. cbn [w_hub set_env] in Hsame.
      destruct (Arr_view_same w w' Hsame Hn Hu) as (V1 & V2 & V3 & V4).
      destruct HJr as (_ & _ & _ & HUr & _ & _).
      split; [apply Forall_app; split; assumption|]. split; [rewrite Hu; exact Hut|].
      split; [apply V1; exact HI|]. split; [|split; [congruence | intros P; rewrite V4; apply HM]].
      intros P. destruct (Hstep P) as (_ & _ & HS). specialize (HUr P).
      rewrite HS, Hz, V3, Hn, Hu, Arr_PU_app, (Arr_PU_tagged_other to o Hne).
      destruct (P (e_now (w_env w) + e_ut (w_env w))); rewrite ?N.add_0_r, ?N.add_0_l;
        rewrite ?N.add_0_r in HUr; exact HUr.
Qed.

(** ** 4. one transaction *)
Lemma Arr_J_start ex w s to wm funds :
  Arr_nw (s, MWasm to wm funds) -> 0 < e_ut (w_env w) -> Arr_Inv ex w ->
  Arr_J ex (Arr_phb w) (fun P => Arr_M P w) w [(s, MWasm to wm funds)].
Proof.
  intros Hnw Hut (HI & HU). split; [constructor; [exact Hnw | constructor]|]. split; [exact Hut|].
  split; [exact HI|]. split; [|split; reflexivity].
  intros P. unfold Arr_PU, Arr_und_amt. cbn [map sumN fst snd].
  destruct (s =? A_hub), (P _); rewrite ?N.add_0_r; apply HU.
Qed.

Lemma Arr_J_final ex phb0 M0 w :
  Arr_J ex phb0 M0 w [] -> Arr_Inv ex w /\ Arr_phb w = phb0 /\ forall P, Arr_M P w = M0 P.
Proof.
  intros (_ & _ & HI & HU & Hp & HM). split; [split; [exact HI|]|split; assumption].
  intros P. specialize (HU P). unfold Arr_PU in HU. cbn [map sumN] in HU.
  destruct (P _); rewrite N.add_0_r in HU; exact HU.
Qed.

(** a transaction whose root is not the hub's WithdrawUnbonded executes none, keeps the invariant,
    prev_hub_balance and the matured sums *)
Theorem Arr_tx_N ex w s target m funds w' tr :
  Arr_nwb (MWasm target m funds) = true -> 0 < e_ut (w_env w) -> Arr_Inv ex w ->
  run tx_fuel w [(s, MWasm target m funds)] [] = Some (w', tr) ->
  Arr_Inv ex w' /\ Arr_phb w' = Arr_phb w /\ (forall P, Arr_M P w' = Arr_M P w) /\ Forall Arr_nw tr.
Proof.
  intros Hnw Hut HI H.
  assert (HJ : Arr_J ex (Arr_phb w) (fun P => Arr_M P w) w' []).
  { eapply (run_preserves_stack (Arr_J ex (Arr_phb w) (fun P => Arr_M P w)));
      [|apply Arr_J_start; [exact Hnw | exact Hut | exact HI] | exact H].
    intros. eapply Arr_step_J; eauto. }
  apply Arr_J_final in HJ. destruct HJ as (A & B & C). split; [exact A|]. split; [exact B|]. split; [exact C|].
  eapply (run_trace_closed Arr_nw); [|exact H| |constructor].
  - intros. eapply Arr_nw_closed; eauto.
  - constructor; [exact Hnw | constructor].
Qed.

(** the release leaves the in-flight windows alone: released batches are outside every window *)
Lemma Arr_W_release h h1 now ut P b :
  HistShape h -> ut <= now -> process_withdraw_rate h (now - ut) b = Some h1 ->
  Arr_hsum (Arr_fW now ut P) (h_hist h1) = Arr_hsum (Arr_fW now ut P) (h_hist h).
Proof.
  intros Hsh Hut Hp. apply pwr_spec in Hp.
  destruct Hp as (n & _ & _ & _ & _ & Hnewr & Hoth & Hkeys & _).
  apply Arr_hsum_pointwise; [apply Hkeys; exact Hsh | apply Arr_shape_nodup; exact Hsh|].
  intros k _. unfold Arr_fget.
  destruct (N.ltb_spec (hs_lpb (h_state h)) k) as [L1|L1];
    [destruct (N.leb_spec k (hs_lpb (h_state h) + N.of_nat n)) as [L2|L2]|].
  - destruct (Hnewr k (conj L1 L2)) as (e & e' & G1 & _ & Ht & G3 & (Rt & _)).
    rewrite G1, G3. unfold Arr_fW. rewrite Rt.
    assert (E : (now <? he_time e + ut) = false) by lia. rewrite E. reflexivity.
  - rewrite Hoth by lia. reflexivity.
  - rewrite Hoth by lia. reflexivity.
Qed.

(** a WithdrawUnbonded transaction: afterwards the invariant holds, the hub's balance equals
    prev_hub_balance and no unreleased batch is matured *)
Theorem Arr_tx_W ex w s funds w' tr :
  s <> A_hub -> Arr_Env0 w -> Arr_Inv ex w ->
  run tx_fuel w [(s, MWasm A_hub (WHub HWithdraw) funds)] [] = Some (w', tr) ->
  Arr_Inv ex w' /\ bal (w_env w') A_hub usei = Arr_phb w' /\ forall P, Arr_M P w' = 0.
Proof.
  intros Hs (Hut & HE) (HI & HU) H.
  unfold tx_fuel in H. rewrite run_S in H. bind_inv H as r1 H1. destruct r1 as [w1 out1].
  cbn [fst snd] in H. rewrite app_nil_r in H.
  pose proof H1 as H1'. apply step_msg_inv in H1'.
  destruct H1' as [e' _ _ Hn | to wm f e1 o Em Hsend Hc ->]; [exfalso; eapply Hn; reflexivity|].
  inversion Em; subst to wm f. clear Em.
  destruct Hc as [h hm h' _ Em Hw He -> | r rm r' Et _ _ _ _ | d dm d' Et _ _ _ _
                 | g gm g' Et _ _ _ _ | t cm t' Et _ _ _ _ | t cm t' Et _ _ _ _
                 | sm e' Et _ _ _ _ | Et _ _]; try (exfalso; vm_compute in Et; discriminate Et).
  inversion Em; subst hm. clear Em. cbn [w_hub set_env] in Hw.
  destruct (HE h Hw) as (Husei & Hunb). destruct (HI h Hw) as (HL & HT). pose proof HL as (Hsh & _).
  pose proof (send_coins_static _ _ _ _ _ Hsend) as (S1 & S2 & _ & S4 & _).
  pose proof (life_inv_execute _ _ _ _ _ _ _ _ HL He) as HL'.
  assert (HT' : forall i e, get N.eqb (h_hist h') i = Some e -> he_released e = true ->
                            he_time e + e_ut (w_env w) <= e_now (w_env w)).
  { intros i e Hg Hr.
    destruct (released_origin _ _ _ _ _ _ _ _ _ _ Hsh He Hg Hr) as [X | (_ & e0 & G & _ & Et & Ht)].
    - eapply HT; eauto.
    - cbn [w_env set_env] in Ht. rewrite Et, <- Hunb, <- S1. exact Ht. }
  unfold hub_execute in He. check_inv He as Hpz.
  pose proof (WD_withdraw_exact _ _ _ _ _ _ He) as X. cbv zeta in X. cbn [w_env set_env] in X.
  rewrite Husei, S1, Hunb in X. destruct X as (Hle & h1 & Hpwr & Hnz & Hvle & -> & ->).
  set (v := WD_user_val h1 s) in *. set (balance := bal e1 A_hub usei) in *.
  cbn [map app] in H. rewrite run_S in H. bind_inv H as r2 H2. destruct r2 as [w2 out2].
  cbn [fst snd] in H. cbn [step_msg] in H2. bind_inv H2 as e2 Hbk. inversion H2; subst w2 out2. clear H2.
  cbn [app] in H. rewrite run_nil in H. inversion H; subst w' tr. clear H.
  cbn [w_env set_hub set_env] in Hbk.
  pose proof (bank_send_static _ _ _ _ _ Hbk) as (T1 & T2 & _ & T4 & _).
  unfold bank_send in Hbk.
  pose proof (send_coins_bal _ _ _ _ _ Hbk A_hub usei) as Hb2.
  rewrite N.eqb_refl in Hb2. assert (Es : (A_hub =? s) = false) by (apply N.eqb_neq; congruence).
  rewrite Es in Hb2. unfold BooksEnv.coin_amt in Hb2. cbn [map sumN fst snd] in Hb2.
  rewrite N.eqb_refl in Hb2.
  assert (Hh' : h_hist (WD_paid h1 s balance) = h_hist h1) by reflexivity.
  assert (Hl' : hs_lpb (h_state (WD_paid h1 s balance)) = hs_lpb (h_state h1)) by reflexivity.
  assert (Hp' : hs_phb (h_state (WD_paid h1 s balance)) = balance - v) by reflexivity.
  unfold Arr_Inv, Arr_HubInv, Arr_phb, Arr_W, Arr_M, Arr_hist, Arr_usum.
  cbn [w_env w_hub set_hub set_env]. rewrite T1, T2, T4, S1, S2, S4, Hh', Hp'.
  split; [split|split].
  - intros h0 E. inversion E; subst h0. split; [exact HL' | exact HT'].
  - intros P. rewrite (Arr_W_release h h1 _ _ P _ Hsh Hle Hpwr).
    specialize (HU P). unfold Arr_W, Arr_hist, Arr_usum in HU. rewrite Hw in HU. exact HU.
  - fold balance in Hb2. lia.
  - intros P. rewrite <- Hh'.
    eapply (Arr_M_after_release h h1 (WD_paid h1 s balance)); eauto.
Qed.

(** ** 5. ghosts: coins delivered from unbonding / gifted since the last WithdrawUnbonded *)
Record aghost := mkAG { ag_arr : N; ag_gift : N }.
Definition ag_zero : aghost := mkAG 0 0.

Definition Arr_is_withdraw (target : addr) (m : wasm_msg) : bool :=
  (target =? A_hub) && match m with WHub HWithdraw => true | _ => false end.

(** [ag_arr] counts, at every block-time advance, the current (post-slashing) amounts of the hub's
    unbonding entries that mature in this advance and whose completion time satisfies [P] — these
    are exactly the coins the staking module credits to the hub ([Arr_advance_spec]);
    [ag_gift] counts the usei gifted to the hub's address; a successful WithdrawUnbonded
    transaction restarts both (it absorbs the balance into prev_hub_balance). *)
Definition Arr_gstep (P : N -> bool) (w : world) (o : op) (g : aghost) : aghost :=
  match o with
  | OReset _ => ag_zero
  | OAdvance dt =>
      if e_now (w_env w) + dt <=? 18446744073
      then mkAG (ag_arr g + Arr_usum (fun t => (t <=? e_now (w_env w) + dt) && P t) (w_env w)) (ag_gift g)
      else g
  | OGift a d x => if (a =? A_hub) && (d =? usei) then mkAG (ag_arr g) (ag_gift g + x) else g
  | OTx _ t m _ => if Arr_is_withdraw t m && fst (snd (step w o)) then ag_zero else g
  | _ => g
  end.

Fixpoint Arr_gfold (P : N -> bool) (ops : list op) (w : world) (g : aghost) : aghost :=
  match ops with
  | [] => g
  | o :: r => Arr_gfold P r (fst (step w o)) (Arr_gstep P w o g)
  end.

Definition Arr_all : N -> bool := fun _ => true.

(** the invariant with the window ghost, and the balance identity (ghost for the full window) *)
Definition Arr_All (ex : bool) (P : N -> bool) (w : world) (g : aghost) : Prop :=
  Arr_Inv ex w /\ Arr_rel ex (ag_arr g) (Arr_M P w).

Definition Arr_Bal (w : world) (g : aghost) : Prop :=
  bal (w_env w) A_hub usei = Arr_phb w + ag_arr g + ag_gift g.

Lemma Arr_rel_trans ex a b c : Arr_rel ex a b -> Arr_rel ex b c -> Arr_rel ex a c.
Proof. destruct ex; cbn [Arr_rel]; lia. Qed.

(** operations that keep the hub, the clock and the chain unbonding time *)
Lemma Arr_All_view ex P w w' g :
  w_hub w' = w_hub w -> e_now (w_env w') = e_now (w_env w) -> e_ut (w_env w') = e_ut (w_env w) ->
  (forall Q, Arr_rel ex (Arr_usum Q (w_env w')) (Arr_usum Q (w_env w))) ->
  Arr_All ex P w g -> Arr_All ex P w' g.
Proof.
  intros Hh Hn Hu HQ ((HI & HU) & HG). destruct (Arr_view_same w w' Hh Hn Hu) as (V1 & V2 & V3 & V4).
  split; [split; [apply V1; exact HI|]|rewrite V4; exact HG].
  intros Q. rewrite V3. eapply Arr_rel_trans; [apply HQ | apply HU].
Qed.

Lemma Arr_All_env ex P w e' g :
  e_now e' = e_now (w_env w) -> e_ut e' = e_ut (w_env w) -> e_unb e' = e_unb (w_env w) ->
  Arr_All ex P w g -> Arr_All ex P (set_env w e') g.
Proof.
  intros Hn Hu Hb. apply Arr_All_view; try assumption; try reflexivity.
  intros Q. unfold Arr_usum. cbn [w_env set_env]. rewrite Hb. apply Arr_rel_refl.
Qed.

Lemma Arr_Bal_view w w' g :
  w_hub w' = w_hub w -> bal (w_env w') A_hub usei = bal (w_env w) A_hub usei ->
  Arr_Bal w g -> Arr_Bal w' g.
Proof. unfold Arr_Bal, Arr_phb. intros -> ->. tauto. Qed.

Lemma Arr_empty ex P ut : Arr_All ex P (empty_world ut) ag_zero /\ Arr_Bal (empty_world ut) ag_zero.
Proof.
  split; [split; [split|]|].
  - intros h E. discriminate E.
  - intros Q. apply Arr_rel_refl.
  - apply Arr_rel_refl.
  - reflexivity.
Qed.

(** *** the block-time advance *)
Lemma Arr_advance_All ex P w dt g :
  Arr_All ex P w g ->
  Arr_All ex P (set_env w (ev_advance (w_env w) dt))
    (mkAG (ag_arr g + Arr_usum (fun t => (t <=? e_now (w_env w) + dt) && P t) (w_env w)) (ag_gift g)).
Proof.
  intros ((HI & HU) & HG).
  destruct (Arr_advance_frame (w_env w) dt) as (F1 & F2 & _).
  set (now := e_now (w_env w)) in *. set (ut := e_ut (w_env w)) in *.
  assert (HTL : forall k e, In (k, e) (Arr_hist w) -> he_released e = true -> he_time e + ut <= now).
  { unfold Arr_hist. intros k e Hin Hr. destruct (w_hub w) as [h|] eqn:Hw; [|destruct Hin].
    destruct (HI h Hw) as ((Hsh & _) & HT). eapply HT; [apply (Arr_in_get h k e Hsh Hin) | exact Hr]. }
  unfold Arr_All, Arr_Inv, Arr_HubInv, Arr_W, Arr_M, Arr_hist. cbn [w_env w_hub set_env ag_arr].
  rewrite F1, F2. fold now ut. split; [split|].
  - intros h Hw. destruct (HI h Hw) as (HL & HT). split; [exact HL|].
    intros i e Hg Hr. specialize (HT i e Hg Hr). fold now ut in HT. lia.
  - intros Q. rewrite Arr_advance_usum. fold now.
    eapply Arr_rel_trans; [apply HU|]. unfold Arr_W. fold now ut.
    erewrite Arr_hsum_ext_in; [apply Arr_rel_refl|]. intros k e _. unfold Arr_fW.
    destruct (Q (he_time e + ut)); rewrite ?andb_true_r, ?andb_false_r; [|reflexivity]. cbn [andb].
    destruct (now <? he_time e + ut) eqn:E1, (he_time e + ut <=? now + dt) eqn:E2,
             (now + dt <? he_time e + ut) eqn:E3; cbn [andb negb]; try reflexivity; lia.
  - (* the matured sum grows by exactly the window that matures in this advance *)
    assert (Hsplit : Arr_hsum (Arr_fM (now + dt) ut P) (Arr_hist w)
                     = Arr_hsum (Arr_fM now ut P) (Arr_hist w)
                       + Arr_hsum (Arr_fW now ut (fun t => (t <=? now + dt) && P t)) (Arr_hist w)).
    { rewrite <- Arr_hsum_add. apply Arr_hsum_ext_in. intros k e Hin. unfold Arr_fM, Arr_fW.
      destruct (he_released e) eqn:Er.
      - specialize (HTL k e Hin Er). cbn [negb andb].
        assert (E : (now <? he_time e + ut) = false) by lia. rewrite E. reflexivity.
      - cbn [negb andb]. destruct (P (he_time e + ut)); rewrite ?andb_true_r, ?andb_false_r; [|reflexivity].
        destruct (now <? he_time e + ut) eqn:E1, (he_time e + ut <=? now + dt) eqn:E2,
                 (he_time e + ut <=? now) eqn:E3; cbn [andb]; try reflexivity; lia. }
    unfold Arr_hist in Hsplit. rewrite Hsplit. apply Arr_rel_add; [exact HG | apply HU].
Qed.

(** *** the root message of a successful transaction is the head of its trace *)
Lemma Arr_trace_head w s m w' tr :
  run tx_fuel w [(s, m)] [] = Some (w', tr) -> exists ex, tr = (s, m) :: ex.
Proof.
  unfold tx_fuel. rewrite run_S. intros H. bind_inv H as r Hr.
  apply run_trace_app in H. destruct H as [ex ->]. exists ex. reflexivity.
Qed.

(** ** 6. one operation of a history *)
Lemma Arr_not_withdraw_flag target m f :
  Arr_nwb (MWasm target m f) = true -> Arr_is_withdraw target m = false.
Proof.
  intros Enw. unfold Arr_is_withdraw. destruct (target =? A_hub) eqn:Et; [|reflexivity].
  apply N.eqb_eq in Et. subst target. destruct m as [hm| | | | | |]; try reflexivity.
  destruct hm; try reflexivity. cbn [Arr_nwb] in Enw. rewrite N.eqb_refl in Enw. discriminate Enw.
Qed.

Theorem Arr_step_All ex P w o g :
  Arr_Env0 w -> Arr_opok0 ex w o -> Arr_All ex P w g ->
  Arr_All ex P (fst (step w o)) (Arr_gstep P w o g).
Proof.
  intros HE Hok HA. destruct o; cbn [step Arr_gstep].
  - (* OReset *) cbn [fst]. apply Arr_empty.
  - (* OAdvance *)
    destruct (e_now (w_env w) + dt <=? 18446744073); cbn [fst]; [|exact HA].
    apply Arr_advance_All. exact HA.
  - (* OSlash *)
    destruct (ev_slash (w_env w) v num den unb) as [e'|] eqn:E; cbn [fst]; [|exact HA].
    destruct (Arr_slash_spec _ _ _ _ _ _ E) as (S1 & S2 & _ & S4 & S5 & _).
    apply (Arr_All_view ex P w); try assumption; try reflexivity. intros Q. cbn [w_env set_env].
    destruct ex; cbn [Arr_rel]; [|apply S1].
    cbn [Arr_opok0] in Hok. unfold Arr_usum. rewrite (S2 (Hok eq_refl)). reflexivity.
  - (* OAccrue *)
    destruct (ev_accrue (w_env w) A_hub v d a) as [e'|] eqn:E; cbn [fst]; [|exact HA].
    unfold ev_accrue in E. destruct (delegation (w_env w) A_hub v); [|discriminate]. inversion E; subst e'.
    apply Arr_All_env; try reflexivity. exact HA.
  - (* OGift *) cbn [fst]. destruct ((a =? A_hub) && (d =? usei)); apply Arr_All_env; try reflexivity; exact HA.
  - destruct (p =? 0); cbn [fst]; [exact HA|]. apply Arr_All_env; try reflexivity. exact HA.
  - cbn [fst]. apply Arr_All_env; try reflexivity. exact HA.
  - cbn [fst]. apply Arr_All_env; try reflexivity. exact HA.
  - cbn [fst]. apply Arr_All_env; try reflexivity. exact HA.
  - (* OLegacyWait *)
    destruct (w_hub w) as [h|] eqn:Hw; cbn [fst]; [|exact HA].
    destruct HA as ((HI & HU) & HG).
    unfold Arr_All, Arr_Inv, Arr_HubInv, Arr_W, Arr_M, Arr_hist in *. cbn [w_hub w_env set_hub] in *.
    rewrite Hw in *. cbn [h_hist set_h_oldwait]. split; [split|]; [|exact HU|exact HG].
    intros h0 E. inversion E; subst h0. destruct (HI h eq_refl) as (HL & HT).
    split; [eapply life_inv_ext; [| | | |exact HL]; reflexivity | exact HT].
  - (* OInstHub *)
    cbn [Arr_opok0] in Hok. cbn [fst]. destruct HA as ((HI & HU) & HG).
    unfold Arr_All, Arr_Inv, Arr_HubInv, Arr_W, Arr_M, Arr_hist in *. cbn [w_hub w_env set_w_hub] in *.
    rewrite Hok in *.
    destruct (hub_instantiate sender (e_now (w_env w)) epoch unbonding pegfee thr updater underlying rdenom)
      as [h|] eqn:Eh.
    + assert (Hh : h_hist h = []) by (unfold hub_instantiate in Eh; check_inv Eh as Hf; inversion Eh; reflexivity).
      rewrite Hh. split; [split|]; [|exact HU|exact HG].
      intros h0 E. inversion E; subst h0. split; [eapply life_inv_instantiate; exact Eh|].
      intros i e Hg. rewrite Hh in Hg. discriminate Hg.
    + split; [split|]; [|exact HU|exact HG]. intros h0 E. discriminate E.
  - cbn [fst]. apply (Arr_All_view ex P w); try reflexivity; [intros Q; apply Arr_rel_refl | exact HA].
  - cbn [fst]. apply (Arr_All_view ex P w); try reflexivity; [intros Q; apply Arr_rel_refl | exact HA].
  - cbn [fst]. apply (Arr_All_view ex P w); try reflexivity; [intros Q; apply Arr_rel_refl | exact HA].
  - cbn [fst]. apply (Arr_All_view ex P w); try reflexivity; [intros Q; apply Arr_rel_refl | exact HA].
  - cbn [fst]. apply (Arr_All_view ex P w); try reflexivity; [intros Q; apply Arr_rel_refl | exact HA].
  - (* OTx *)
    cbn [Arr_opok0] in Hok.
    destruct (run tx_fuel w [(sender, MWasm target m funds)] []) as [[w' tr]|] eqn:E; cbn [fst snd] in *;
      [|rewrite andb_false_r; exact HA].
    rewrite andb_true_r. destruct HA as (HI & HG). pose proof HE as (Hut & _).
    destruct (Arr_nwb (MWasm target m funds)) eqn:Enw.
    + rewrite (Arr_not_withdraw_flag _ _ _ Enw).
      destruct (Arr_tx_N ex w sender target m funds w' tr Enw Hut HI E) as (A & _ & C & _).
      split; [exact A | rewrite C; exact HG].
    + apply Arr_nwb_false in Enw. destruct Enw as (f & Em). inversion Em; subst target m f. clear Em.
      unfold Arr_is_withdraw. rewrite N.eqb_refl. cbn [andb].
      destruct (Arr_tx_W ex w sender funds w' tr Hok HE HI E) as (A & _ & C).
      split; [exact A|]. cbn [ag_zero ag_arr]. rewrite C. apply Arr_rel_refl.
Qed.

(** the balance identity ([q] = true, needs the gift-free envelope) / inequality ([q] = false) *)
Definition Arr_BalR (q : bool) (w : world) (g : aghost) : Prop :=
  Arr_rel q (Arr_phb w + ag_arr g + ag_gift g) (bal (w_env w) A_hub usei).

Lemma Arr_BalR_view q w w' g :
  w_hub w' = w_hub w -> bal (w_env w') A_hub usei = bal (w_env w) A_hub usei ->
  Arr_BalR q w g -> Arr_BalR q w' g.
Proof. unfold Arr_BalR, Arr_phb. intros -> ->. tauto. Qed.

Lemma Arr_Bal_BalR w g : Arr_Bal w g <-> Arr_BalR true w g.
Proof. unfold Arr_Bal, Arr_BalR. cbn [Arr_rel]. split; intros H; lia. Qed.

Theorem Arr_step_BalR q ex w o g :
  Arr_Env0 w -> Arr_opok0 ex w o -> (q = true -> Arr_NR (w_env w) /\ Arr_giftfree w o) ->
  Arr_Inv ex w -> Arr_BalR q w g ->
  Arr_BalR q (fst (step w o)) (Arr_gstep Arr_all w o g).
Proof.
  intros HE Hok Hq HI HB. destruct o; cbn [step Arr_gstep].
  - cbn [fst]. unfold Arr_BalR. cbn. apply Arr_rel_refl.
  - (* OAdvance *)
    destruct (e_now (w_env w) + dt <=? 18446744073); cbn [fst]; [|exact HB].
    destruct (Arr_advance_frame (w_env w) dt) as (_ & _ & _ & _ & F5).
    unfold Arr_BalR, Arr_phb in *. cbn [w_env w_hub set_env ag_arr ag_gift]. rewrite F5.
    assert (Ew : Arr_usum (fun t => (t <=? e_now (w_env w) + dt) && Arr_all t) (w_env w)
                 = Arr_fle (w_env w) (e_now (w_env w) + dt)).
    { apply Arr_lsumU_ext. intros t. unfold Arr_all. apply andb_true_r. }
    rewrite Ew. generalize dependent (Arr_fle (w_env w) (e_now (w_env w) + dt)). intros x.
    destruct q; cbn [Arr_rel] in *; lia.
  - destruct (ev_slash (w_env w) v num den unb) as [e'|] eqn:E; cbn [fst]; [|exact HB].
    destruct (Arr_slash_spec _ _ _ _ _ _ E) as (_ & _ & S3 & _).
    apply (Arr_BalR_view q w); [reflexivity | cbn [w_env set_env]; unfold bal; rewrite S3; reflexivity | exact HB].
  - destruct (ev_accrue (w_env w) A_hub v d a) as [e'|] eqn:E; cbn [fst]; [|exact HB].
    unfold ev_accrue in E. destruct (delegation (w_env w) A_hub v); [|discriminate]. inversion E; subst e'.
    apply (Arr_BalR_view q w); [reflexivity | reflexivity | exact HB].
  - (* OGift *)
    cbn [fst]. unfold Arr_BalR, Arr_phb in *. cbn [w_env w_hub set_env].
    destruct (a =? A_hub) eqn:Ea, (d =? usei) eqn:Ed; cbn [andb ag_arr ag_gift].
    + apply N.eqb_eq in Ea, Ed. subst a d. rewrite bal_credit_same. destruct q; cbn [Arr_rel] in *; lia.
    + rewrite bal_credit_other; [exact HB|]. intros X. inversion X. subst. rewrite N.eqb_refl in Ed. discriminate.
    + rewrite bal_credit_other; [exact HB|]. intros X. inversion X. subst. rewrite N.eqb_refl in Ea. discriminate.
    + rewrite bal_credit_other; [exact HB|]. intros X. inversion X. subst. rewrite N.eqb_refl in Ea. discriminate.
  - destruct (p =? 0); cbn [fst]; [exact HB|]. apply (Arr_BalR_view q w); [reflexivity | reflexivity | exact HB].
  - cbn [fst]. apply (Arr_BalR_view q w); [reflexivity | reflexivity | exact HB].
  - cbn [fst]. apply (Arr_BalR_view q w); [reflexivity | reflexivity | exact HB].
  - cbn [fst]. apply (Arr_BalR_view q w); [reflexivity | reflexivity | exact HB].
  - destruct (w_hub w) as [h|] eqn:Hw; cbn [fst]; [|exact HB].
    unfold Arr_BalR, Arr_phb in *. cbn [w_hub w_env set_hub]. rewrite Hw in HB. exact HB.
  - (* OInstHub *)
    cbn [Arr_opok0] in Hok. cbn [fst]. unfold Arr_BalR, Arr_phb in *. cbn [w_hub w_env set_w_hub].
    rewrite Hok in HB.
    destruct (hub_instantiate sender (e_now (w_env w)) epoch unbonding pegfee thr updater underlying rdenom)
      as [h|] eqn:Eh; [|exact HB].
    unfold hub_instantiate in Eh. check_inv Eh as Hf. inversion Eh; subst h. exact HB.
  - cbn [fst]. apply (Arr_BalR_view q w); [reflexivity | reflexivity | exact HB].
  - cbn [fst]. apply (Arr_BalR_view q w); [reflexivity | reflexivity | exact HB].
  - cbn [fst]. apply (Arr_BalR_view q w); [reflexivity | reflexivity | exact HB].
  - cbn [fst]. apply (Arr_BalR_view q w); [reflexivity | reflexivity | exact HB].
  - cbn [fst]. apply (Arr_BalR_view q w); [reflexivity | reflexivity | exact HB].
  - (* OTx *)
    cbn [Arr_opok0] in Hok. cbn [Arr_giftfree step] in Hq.
    destruct (run tx_fuel w [(sender, MWasm target m funds)] []) as [[w' tr]|] eqn:E; cbn [fst snd] in *;
      [|rewrite andb_false_r; exact HB].
    rewrite andb_true_r. pose proof HE as (Hut & HEh).
    destruct (Arr_nwb (MWasm target m funds)) eqn:Enw.
    + rewrite (Arr_not_withdraw_flag _ _ _ Enw).
      destruct (Arr_tx_N ex w sender target m funds w' tr Enw Hut HI E) as (_ & B & _ & Dn).
      unfold Arr_BalR in *. rewrite B. destruct q; cbn [Arr_rel] in *.
      * destruct (Hq eq_refl) as [Hnr Hng].
        assert (Hqq : Forall (fun sm => not_withdraw sm /\ no_gift sm) tr).
        { apply Forall_forall. intros sm Hin. rewrite Forall_forall in Dn, Hng.
          split; [apply Arr_nw_not_withdraw; apply Dn; exact Hin | apply Hng; exact Hin]. }
        destruct (Arr_tx_liquid_eq w sender target m funds w' tr
                    (fun h Hh => proj1 (HEh h Hh)) Hnr ltac:(intros X; contradiction) E Hqq) as [Hb _].
        rewrite Hb. exact HB.
      * assert (Hnw : Forall not_withdraw tr).
        { eapply Forall_impl; [|exact Dn]. intros sm. apply Arr_nw_not_withdraw. }
        pose proof (tx_liquid_ge w sender target m funds w' tr
                      (fun h Hh => proj1 (HEh h Hh)) ltac:(intros X; contradiction) E Hnw). lia.
    + apply Arr_nwb_false in Enw. destruct Enw as (f & Em). inversion Em; subst target m f. clear Em.
      unfold Arr_is_withdraw. rewrite N.eqb_refl. cbn [andb].
      destruct (Arr_tx_W ex w sender funds w' tr Hok HE HI E) as (_ & B & _).
      unfold Arr_BalR. cbn [ag_zero ag_arr ag_gift]. rewrite B, !N.add_0_r. apply Arr_rel_refl.
Qed.

(** ** 7. every history *)
Theorem Arr_history ex P : forall ops w0 g0,
  always Arr_Env0 ops w0 -> Arr_ok0 ex ops w0 -> Arr_All ex P w0 g0 ->
  Arr_All ex P (run_ops ops w0) (Arr_gfold P ops w0 g0).
Proof.
  unfold run_ops. induction ops as [|o ops IH]; intros w0 g0 HA Hok HI; cbn [fold_left Arr_gfold]; [exact HI|].
  cbn [always] in HA. destruct HA as [HE HA]. cbn [Arr_ok0] in Hok. destruct Hok as [Ho Hok].
  apply IH; [exact HA | exact Hok|]. apply Arr_step_All; assumption.
Qed.

(** the balance inequality: any history (in-transaction gifts and rewards to the hub allowed) *)
Theorem Arr_history_bal_ge ex : forall ops w0 g0,
  always Arr_Env0 ops w0 -> Arr_ok0 ex ops w0 -> Arr_Inv ex w0 -> Arr_BalR false w0 g0 ->
  Arr_BalR false (run_ops ops w0) (Arr_gfold Arr_all ops w0 g0).
Proof.
  unfold run_ops. induction ops as [|o ops IH]; intros w0 g0 HA Hok HI HB; cbn [fold_left Arr_gfold]; [exact HB|].
  cbn [always] in HA. destruct HA as [HE HA]. cbn [Arr_ok0] in Hok. destruct Hok as [Ho Hok].
  apply IH; [exact HA | exact Hok | | eapply Arr_step_BalR; try eassumption; intros X; discriminate X].
  assert (X : Arr_All ex Arr_all w0 (mkAG (Arr_M Arr_all w0) 0)) by (split; [exact HI | apply Arr_rel_refl]).
  exact (proj1 (Arr_step_All ex Arr_all w0 o _ HE Ho X)).
Qed.

(** the balance identity: gift-free envelope *)
Theorem Arr_history_bal ex : forall ops w0 g0,
  always Arr_Env ops w0 -> Arr_ok ex ops w0 -> Arr_Inv ex w0 -> Arr_Bal w0 g0 ->
  Arr_Bal (run_ops ops w0) (Arr_gfold Arr_all ops w0 g0).
Proof.
  unfold run_ops. induction ops as [|o ops IH]; intros w0 g0 HA Hok HI HB; cbn [fold_left Arr_gfold]; [exact HB|].
  cbn [always] in HA. destruct HA as [[Hnr HE] HA]. cbn [Arr_ok] in Hok. destruct Hok as [[Ho Hg] Hok].
  apply IH; [exact HA | exact Hok | |].
  - assert (X : Arr_All ex Arr_all w0 (mkAG (Arr_M Arr_all w0) 0)) by (split; [exact HI | apply Arr_rel_refl]).
    exact (proj1 (Arr_step_All ex Arr_all w0 o _ HE Ho X)).
  - apply Arr_Bal_BalR. eapply (Arr_step_BalR true ex); try eassumption; [intros _; split; assumption|].
    apply Arr_Bal_BalR. exact HB.
Qed.

(** the gift ghost does not depend on the window *)
Lemma Arr_gift_indep P Q : forall ops w g g',
  ag_gift g = ag_gift g' -> ag_gift (Arr_gfold P ops w g) = ag_gift (Arr_gfold Q ops w g').
Proof.
  induction ops as [|o ops IH]; intros w g g' H; cbn [Arr_gfold]; [exact H|].
  apply IH. destruct o; cbn [Arr_gstep]; try exact H; try reflexivity.
  - destruct (e_now (w_env w) + dt <=? 18446744073); [cbn [ag_gift]|]; exact H.
  - destruct ((a =? A_hub) && (d =? usei)); [cbn [ag_gift]; rewrite H; reflexivity | exact H].
  - destruct (Arr_is_withdraw target m && fst (snd (step w (OTx sender target m funds)))); [reflexivity | exact H].
Qed.

(** no usei is gifted to the hub's address *)
Definition Arr_nogift (o : op) : bool :=
  match o with OGift a d x => negb ((a =? A_hub) && (d =? usei)) | _ => true end.

Lemma Arr_gift_zero P : forall ops w g,
  forallb Arr_nogift ops = true -> ag_gift g = 0 -> ag_gift (Arr_gfold P ops w g) = 0.
Proof.
  induction ops as [|o ops IH]; intros w g Hf H; cbn [Arr_gfold]; [exact H|].
  cbn [forallb] in Hf. apply andb_true_iff in Hf. destruct Hf as [Ho Hf].
  apply IH; [exact Hf|]. destruct o; cbn [Arr_gstep]; try exact H; try reflexivity.
  - destruct (e_now (w_env w) + dt <=? 18446744073); [cbn [ag_gift]|]; exact H.
  - cbn [Arr_nogift] in Ho. apply negb_true_iff in Ho. rewrite Ho. exact H.
  - destruct (Arr_is_withdraw target m && fst (snd (step w (OTx sender target m funds)))); [reflexivity | exact H].
Qed.

(** ** 8. the theorems *)

(** coins undelegated for all unreleased batches *)
Definition Arr_fU (e : hist_entry) : N := if he_released e then 0 else GR_batch_value e.
Definition Arr_U (w : world) : N := Arr_hsum Arr_fU (Arr_hist w).

Lemma Arr_U_split w : Arr_HubInv w -> Arr_U w = Arr_M Arr_all w + Arr_W Arr_all w.
Proof.
  intros HI. unfold Arr_U, Arr_M, Arr_W. rewrite <- Arr_hsum_add. apply Arr_hsum_ext_in.
  intros k e Hin. unfold Arr_fU, Arr_fM, Arr_fW, Arr_all. rewrite !andb_true_r.
  destruct (he_released e) eqn:Er; cbn [negb andb].
  - unfold Arr_hist in Hin. destruct (w_hub w) as [h|] eqn:Hw; [|destruct Hin].
    destruct (HI h Hw) as ((Hsh & _) & HT). specialize (HT k e (Arr_in_get h k e Hsh Hin) Er).
    assert (E : (e_now (w_env w) <? he_time e + e_ut (w_env w)) = false) by lia. rewrite E. reflexivity.
  - destruct (he_time e + e_ut (w_env w) <=? e_now (w_env w)) eqn:E1,
             (e_now (w_env w) <? he_time e + e_ut (w_env w)) eqn:E2; lia.
Qed.

(** a window that selects one completion time selects one batch (undelegation times are distinct) *)
Lemma Arr_hsum_single_list f : forall (l : list (N * hist_entry)) i e,
  NoDup (map fst l) -> In (i, e) l ->
  (forall k e', In (k, e') l -> k <> i -> f e' = 0) ->
  Arr_hsum f l = f e.
Proof.
  unfold Arr_hsum. induction l as [|[k0 e0] r IH]; intros i e Hnd Hin Hz; [destruct Hin|].
  cbn [map sumN snd fst] in *. inversion Hnd as [|? ? Hni Hnd']; subst.
  assert (Hr : forall k e', In (k, e') r -> k <> k0).
  { intros k e' Hi -> . apply Hni. change k0 with (fst (k0, e')). apply in_map. exact Hi. }
  destruct Hin as [Hin|Hin].
  - inversion Hin; subst k0 e0.
    assert (Z : sumN (map (fun ie : N * hist_entry => f (snd ie)) r) = 0).
    { assert (Hall : forall k e', In (k, e') r -> f e' = 0).
      { intros k e' Hi. apply (Hz k e'); [right; exact Hi | eapply Hr; eauto]. }
      clear - Hall. induction r as [|[k e'] r IHr]; cbn [map sumN snd]; [reflexivity|].
      rewrite (Hall k e' (or_introl eq_refl)), IHr; [reflexivity|]. intros; eapply Hall; right; eauto. }
    rewrite Z. lia.
  - assert (E0 : f e0 = 0).
    { apply (Hz k0 e0); [left; reflexivity|]. intros ->. eapply Hr; eauto. }
    rewrite E0, N.add_0_l. apply (IH i e Hnd' Hin).
    intros k e' Hk Hne. apply (Hz k e'); [right; exact Hk | exact Hne].
Qed.

Lemma Arr_hsum_single f h i e :
  HistShape h -> get N.eqb (h_hist h) i = Some e ->
  (forall k e', get N.eqb (h_hist h) k = Some e' -> k <> i -> f e' = 0) ->
  Arr_hsum f (h_hist h) = f e.
Proof.
  intros Hsh Hg Hz. apply (Arr_hsum_single_list f (h_hist h) i e).
  - apply Arr_shape_nodup. exact Hsh.
  - apply (get_some_in N.eqb Neqb_eq). exact Hg.
  - intros k e' Hin Hne. apply (Hz k e'); [apply Arr_in_get; assumption | exact Hne].
Qed.

Lemma Arr_always_last E : forall ops w0, always E ops w0 -> E (run_ops ops w0).
Proof.
  unfold run_ops. induction ops as [|o ops IH]; intros w0 HA; cbn [fold_left].
  - eapply always_head; exact HA.
  - cbn [always] in HA. apply IH. apply HA.
Qed.

Lemma Arr_rel_zero ex x : Arr_rel ex x 0 -> x = 0.
Proof. destruct ex; cbn [Arr_rel]; lia. Qed.

(** *** (2) separation by time and in-flight conservation — no ghosts *)
Theorem Arr_inflight_reachable ex ut ops :
  always Arr_Env0 ops (empty_world ut) -> Arr_ok0 ex ops (empty_world ut) ->
  Arr_Inv ex (run_ops ops (empty_world ut)).
Proof.
  intros HA Hok.
  exact (proj1 (Arr_history ex Arr_all ops (empty_world ut) ag_zero HA Hok (proj1 (Arr_empty ex Arr_all ut)))).
Qed.

Theorem Arr_separation ex ut ops :
  always Arr_Env0 ops (empty_world ut) -> Arr_ok0 ex ops (empty_world ut) ->
  let w := run_ops ops (empty_world ut) in
  let now := e_now (w_env w) in
  let cut := e_ut (w_env w) in
  (* every matured entry of the hub has been delivered: nothing completed is still held *)
  Arr_fle (w_env w) now = 0 /\
  (* every in-flight coin belongs to a batch of the history that is still unbonding *)
  (forall P, (forall h i e, w_hub w = Some h -> get N.eqb (h_hist h) i = Some e ->
                            now < he_time e + cut -> P (he_time e + cut) = false) ->
             Arr_usum P (w_env w) = 0) /\
  forall h i e, w_hub w = Some h -> get N.eqb (h_hist h) i = Some e ->
    (* the entries of batch i complete at time_i + unbonding time and carry its undelegated coins *)
    Arr_rel ex (Arr_usum (fun t => t =? he_time e + cut) (w_env w))
               (if now <? he_time e + cut then GR_batch_value e else 0) /\
    (* released batches are a full unbonding time old; unreleased ones are the suffix *)
    (he_released e = true -> he_time e + cut <= now) /\
    (he_released e = true <-> i <= hs_lpb (h_state h)).
Proof.
  intros HA Hok w now cut. pose proof (Arr_inflight_reachable ex ut ops HA Hok) as (HI & HU). fold w in HI, HU.
  split; [|split].
  - apply (Arr_rel_zero ex). unfold Arr_fle.
    replace 0 with (Arr_W (fun t => t <=? now) w); [apply HU|].
    unfold Arr_W. apply Arr_hsum_zero. intros k e _. unfold Arr_fW. fold now.
    destruct (now <? he_time e + e_ut (w_env w)) eqn:E1, (he_time e + e_ut (w_env w) <=? now) eqn:E2;
      cbn [andb]; try reflexivity; lia.
  - intros P HP. apply (Arr_rel_zero ex). replace 0 with (Arr_W P w); [apply HU|].
    unfold Arr_W, Arr_hist. destruct (w_hub w) as [h|] eqn:Hw; [|reflexivity].
    destruct (HI h Hw) as ((Hsh & _) & _).
    apply Arr_hsum_zero. intros k e Hin. unfold Arr_fW. fold now cut.
    destruct (now <? he_time e + cut) eqn:E1; cbn [andb]; [|reflexivity].
    rewrite (HP h k e eq_refl (Arr_in_get h k e Hsh Hin)) by lia. reflexivity.
  - intros h i e Hw Hg. destruct (HI h Hw) as (HL & HT). pose proof HL as (Hsh & _ & Hrel & Hmono & _).
    split; [|split; [intros Hr; exact (HT i e Hg Hr) | exact (Hrel i e Hg)]].
    replace (if now <? he_time e + cut then GR_batch_value e else 0)
      with (Arr_W (fun t => t =? he_time e + cut) w); [apply HU|].
    unfold Arr_W, Arr_hist. rewrite Hw. fold now cut.
    rewrite (Arr_hsum_single _ h i e Hsh Hg).
    + unfold Arr_fW. rewrite N.eqb_refl, andb_true_r. reflexivity.
    + intros k e' Hk Hne. unfold Arr_fW.
      assert (Ht : he_time e' <> he_time e).
      { destruct (N.lt_ge_cases k i) as [L|L].
        - pose proof (Hmono _ _ _ _ Hk Hg L). lia.
        - assert (L' : i < k) by lia. pose proof (Hmono _ _ _ _ Hg Hk L'). lia. }
      assert (E : (he_time e' + cut =? he_time e + cut) = false) by lia. rewrite E, andb_false_r. reflexivity.
Qed.

(** *** (1) conservation *)
Lemma Arr_empty_BalR q ut : Arr_BalR q (empty_world ut) ag_zero.
Proof. unfold Arr_BalR. cbn. apply Arr_rel_refl. Qed.

(** gift-free envelope: exact (no slashing of unbonding entries) / upper bound *)
Theorem Arr_conservation ex ut ops :
  always Arr_Env ops (empty_world ut) -> Arr_ok ex ops (empty_world ut) ->
  let w := run_ops ops (empty_world ut) in
  let g := Arr_gfold Arr_all ops (empty_world ut) ag_zero in
  Arr_rel ex (bal (w_env w) A_hub usei + Arr_inflight (w_env w)) (Arr_phb w + Arr_U w + ag_gift g).
Proof.
  intros HA Hok w g.
  destruct (Arr_history ex Arr_all ops (empty_world ut) ag_zero (Arr_always_env0 _ _ HA) (Arr_ok_ok0 _ _ _ Hok)
              (proj1 (Arr_empty ex Arr_all ut))) as ((HI & HU) & HG).
  pose proof (Arr_history_bal ex ops (empty_world ut) ag_zero HA Hok
                (proj1 (proj1 (Arr_empty ex Arr_all ut))) (proj2 (Arr_empty ex Arr_all ut))) as HB.
  fold w in HI, HU, HG, HB. fold g in HG, HB. unfold Arr_Bal in HB.
  rewrite (Arr_U_split w HI). specialize (HU Arr_all). unfold Arr_inflight.
  change (Arr_usum (fun _ : N => true) (w_env w)) with (Arr_usum Arr_all (w_env w)).
  rewrite HB. generalize dependent (Arr_usum Arr_all (w_env w)). intros x HU.
  destruct ex; cbn [Arr_rel] in *; lia.
Qed.

(** any history without slashing of unbonding entries (in-transaction gifts and rewards paid to the
    hub allowed): unsolicited coins only add to the left-hand side *)
Theorem Arr_conservation_ge ut ops :
  always Arr_Env0 ops (empty_world ut) -> Arr_ok0 true ops (empty_world ut) ->
  let w := run_ops ops (empty_world ut) in
  let g := Arr_gfold Arr_all ops (empty_world ut) ag_zero in
  Arr_phb w + Arr_U w + ag_gift g <= bal (w_env w) A_hub usei + Arr_inflight (w_env w).
Proof.
  intros HA Hok w g.
  destruct (Arr_history true Arr_all ops (empty_world ut) ag_zero HA Hok (proj1 (Arr_empty true Arr_all ut)))
    as ((HI & HU) & HG).
  pose proof (Arr_history_bal_ge true ops (empty_world ut) ag_zero HA Hok
                (proj1 (proj1 (Arr_empty true Arr_all ut))) (Arr_empty_BalR false ut)) as HB.
  fold w in HI, HU, HG, HB. fold g in HG, HB. unfold Arr_BalR in HB. cbn [Arr_rel] in *.
  rewrite (Arr_U_split w HI). specialize (HU Arr_all). unfold Arr_inflight.
  change (Arr_usum (fun _ : N => true) (w_env w)) with (Arr_usum Arr_all (w_env w)). lia.
Qed.

(** *** (3) the arrival identity *)

(** the delivered coins are those of the release group — any history *)
Theorem Arr_delivered_group ex ut ops :
  always Arr_Env0 ops (empty_world ut) -> Arr_ok0 ex ops (empty_world ut) ->
  let w := run_ops ops (empty_world ut) in
  let g := Arr_gfold Arr_all ops (empty_world ut) ag_zero in
  forall h, w_hub w = Some h ->
    let grp := GR_group h (e_now (w_env w) - hp_unbonding (h_params h)) in
    (* everything delivered since the last withdrawal (and every gift) is in the balance, on top of
       prev_hub_balance *)
    hs_phb (h_state h) + ag_arr g + ag_gift g <= bal (w_env w) A_hub usei /\
    (* the delivered coins are at most / exactly what the release group expects *)
    (hp_unbonding (h_params h) <= e_now (w_env w) ->
     Arr_rel ex (ag_arr g) (GR_tot_s grp + GR_tot_b grp)) /\
    (* window by window: delivered coins with completion time in P vs. the matured unreleased
       batches with completion time in P *)
    (forall P, Arr_rel ex (ag_arr (Arr_gfold P ops (empty_world ut) ag_zero)) (Arr_M P w)).
Proof.
  intros HA Hok w g h Hw grp.
  assert (HP : forall P, Arr_All ex P w (Arr_gfold P ops (empty_world ut) ag_zero)).
  { intros P. exact (Arr_history ex P ops (empty_world ut) ag_zero HA Hok (proj1 (Arr_empty ex P ut))). }
  pose proof (Arr_history_bal_ge ex ops (empty_world ut) ag_zero HA Hok
                (proj1 (proj1 (Arr_empty ex Arr_all ut))) (Arr_empty_BalR false ut)) as HB.
  fold w g in HB. unfold Arr_BalR, Arr_phb in HB. rewrite Hw in HB. cbn [Arr_rel] in HB.
  split; [exact HB|]. split; [|intros P; exact (proj2 (HP P))].
  intros Hle. destruct (HP Arr_all) as ((HI & _) & HG). fold g in HG.
  destruct (HI h Hw) as (HL & _).
  destruct (Arr_always_last _ _ _ HA) as (_ & HEh). fold w in HEh. destruct (HEh h Hw) as (_ & Hunb).
  unfold Arr_M, Arr_hist in HG. rewrite Hw in HG. unfold grp. rewrite Hunb in *.
  rewrite <- (Arr_M_group h HL _ _ Hle). exact HG.
Qed.

(** gift-free envelope: what the next release treats as arrived IS delivered + gifted *)
Theorem Arr_arrival_identity ex ut ops :
  always Arr_Env ops (empty_world ut) -> Arr_ok ex ops (empty_world ut) ->
  let w := run_ops ops (empty_world ut) in
  let g := Arr_gfold Arr_all ops (empty_world ut) ag_zero in
  forall h, w_hub w = Some h ->
    let grp := GR_group h (e_now (w_env w) - hp_unbonding (h_params h)) in
    bal (w_env w) A_hub usei = hs_phb (h_state h) + ag_arr g + ag_gift g /\
    (hp_unbonding (h_params h) <= e_now (w_env w) ->
     Arr_rel ex (ag_arr g) (GR_tot_s grp + GR_tot_b grp)) /\
    (forall P, Arr_rel ex (ag_arr (Arr_gfold P ops (empty_world ut) ag_zero)) (Arr_M P w)).
Proof.
  intros HA Hok w g h Hw grp.
  pose proof (Arr_history_bal ex ops (empty_world ut) ag_zero HA Hok
                (proj1 (proj1 (Arr_empty ex Arr_all ut))) (proj2 (Arr_empty ex Arr_all ut))) as HB.
  fold w g in HB. unfold Arr_Bal, Arr_phb in HB. rewrite Hw in HB. split; [exact HB|].
  destruct (Arr_delivered_group ex ut ops (Arr_always_env0 _ _ HA) (Arr_ok_ok0 _ _ _ Hok) h Hw) as (_ & A & B).
  split; [exact A | exact B].
Qed.

(** per batch: the coins delivered since the last withdrawal from entries completing at
    time_i + unbonding time are (at most / exactly) the coins undelegated for batch i if it is
    unreleased and matured, and none otherwise; and nothing is delivered outside those times *)
Theorem Arr_delivered_per_batch ex ut ops :
  always Arr_Env0 ops (empty_world ut) -> Arr_ok0 ex ops (empty_world ut) ->
  let w := run_ops ops (empty_world ut) in
  let now := e_now (w_env w) in
  let cut := e_ut (w_env w) in
  (forall h i e, w_hub w = Some h -> get N.eqb (h_hist h) i = Some e ->
     Arr_rel ex (ag_arr (Arr_gfold (fun t => t =? he_time e + cut) ops (empty_world ut) ag_zero))
                (if negb (he_released e) && (he_time e + cut <=? now) then GR_batch_value e else 0)) /\
  (forall P, (forall h i e, w_hub w = Some h -> get N.eqb (h_hist h) i = Some e ->
                            he_released e = false -> he_time e + cut <= now -> P (he_time e + cut) = false) ->
             ag_arr (Arr_gfold P ops (empty_world ut) ag_zero) = 0).
Proof.
  intros HA Hok w now cut.
  assert (HP : forall P, Arr_All ex P w (Arr_gfold P ops (empty_world ut) ag_zero)).
  { intros P. exact (Arr_history ex P ops (empty_world ut) ag_zero HA Hok (proj1 (Arr_empty ex P ut))). }
  split.
  - intros h i e Hw Hg. destruct (HP (fun t => t =? he_time e + cut)) as ((HI & _) & HG).
    destruct (HI h Hw) as (HL & _). pose proof HL as (Hsh & _ & _ & Hmono & _).
    replace (if negb (he_released e) && (he_time e + cut <=? now) then GR_batch_value e else 0)
      with (Arr_M (fun t => t =? he_time e + cut) w); [exact HG|].
    unfold Arr_M, Arr_hist. rewrite Hw. fold now cut. rewrite (Arr_hsum_single _ h i e Hsh Hg).
    + unfold Arr_fM. rewrite N.eqb_refl, andb_true_r. reflexivity.
    + intros k e' Hk Hne. unfold Arr_fM.
      assert (Ht : he_time e' <> he_time e).
      { destruct (N.lt_ge_cases k i) as [L|L].
        - pose proof (Hmono _ _ _ _ Hk Hg L). lia.
        - assert (L' : i < k) by lia. pose proof (Hmono _ _ _ _ Hg Hk L'). lia. }
      assert (E : (he_time e' + cut =? he_time e + cut) = false) by lia. rewrite E, andb_false_r. reflexivity.
  - intros P HPz. destruct (HP P) as ((HI & _) & HG). apply (Arr_rel_zero ex).
    replace 0 with (Arr_M P w); [exact HG|].
    unfold Arr_M, Arr_hist. destruct (w_hub w) as [h|] eqn:Hw; [|reflexivity].
    destruct (HI h Hw) as ((Hsh & _) & _).
    apply Arr_hsum_zero. intros k e Hin. unfold Arr_fM. fold now cut.
    destruct (he_released e) eqn:Er; [reflexivity|]. cbn [negb andb].
    destruct (he_time e + cut <=? now) eqn:E1; cbn [andb]; [|reflexivity].
    rewrite (HPz h k e eq_refl (Arr_in_get h k e Hsh Hin) Er) by lia. reflexivity.
Qed.

(** *** the arriving coins of the theorems are the ones the release uses *)
Theorem Arr_release_uses_arrival w h s funds w1 out :
  w_hub w = Some h -> hp_underlying (h_params h) = usei -> s <> A_hub ->
  BooksEnv.coin_amt usei funds = 0 ->
  step_msg w s (MWasm A_hub (WHub HWithdraw) funds) = Some (w1, out) ->
  let balance := bal (w_env w) A_hub usei in
  let grp := GR_group h (e_now (w_env w) - hp_unbonding (h_params h)) in
  exists h1,
    process_withdraw_rate h (e_now (w_env w) - hp_unbonding (h_params h)) balance = Some h1 /\
    w_hub w1 = Some (WD_paid h1 s balance) /\
    ((grp = [] /\ h1 = h) \/
     (grp <> [] /\ hs_phb (h_state h) <= balance /\ h1 = GR_after h grp (balance - hs_phb (h_state h)))).
Proof.
  intros Hw Husei Hs Hf H1. cbv zeta.
  apply step_msg_inv in H1.
  destruct H1 as [e' _ _ Hn | to wm f e1 o Em Hsend Hc ->]; [exfalso; eapply Hn; reflexivity|].
  inversion Em; subst to wm f. clear Em.
  destruct Hc as [h0 hm h' _ Em Hw0 He -> | r rm r' Et _ _ _ _ | d dm d' Et _ _ _ _
                 | g gm g' Et _ _ _ _ | t cm t' Et _ _ _ _ | t cm t' Et _ _ _ _
                 | sm e' Et _ _ _ _ | Et _ _]; try (exfalso; vm_compute in Et; discriminate Et).
  inversion Em; subst hm. clear Em. cbn [w_hub set_env] in Hw0. rewrite Hw in Hw0. inversion Hw0; subst h0.
  pose proof (send_coins_static _ _ _ _ _ Hsend) as (S1 & _).
  pose proof (send_coins_hub_eq _ _ _ _ _ Hsend ltac:(intros X; contradiction)) as Hb1.
  rewrite N.eqb_refl, Hf, N.add_0_r in Hb1.
  unfold hub_execute in He. check_inv He as Hpz.
  pose proof (WD_withdraw_exact _ _ _ _ _ _ He) as X. cbv zeta in X. cbn [w_env set_env] in X.
  rewrite Husei, S1, Hb1 in X. destruct X as (_ & h1 & Hpwr & _ & _ & _ & ->).
  exists h1. split; [exact Hpwr|]. split; [reflexivity|]. apply GR_pwr_spec. exact Hpwr.
Qed.

(** *** Corollary A: the total value credited to a release group never exceeds the coins that
    arrived from undelegation (after slashing of the unbonding stake) plus unsolicited transfers *)
Theorem Arr_release_never_exceeds ut ops :
  always Arr_Env ops (empty_world ut) -> Arr_ok false ops (empty_world ut) ->
  let w := run_ops ops (empty_world ut) in
  let g := Arr_gfold Arr_all ops (empty_world ut) ag_zero in
  forall h, w_hub w = Some h ->
    let grp := GR_group h (e_now (w_env w) - hp_unbonding (h_params h)) in
    let A := bal (w_env w) A_hub usei - hs_phb (h_state h) in
    hs_phb (h_state h) <= bal (w_env w) A_hub usei /\
    A = ag_arr g + ag_gift g /\
    (hp_unbonding (h_params h) <= e_now (w_env w) -> ag_arr g <= GR_tot_s grp + GR_tot_b grp) /\
    (GR_E1' grp A ->
     sumN (map (fun ie => GR_batch_value (snd ie)) (GR_release grp A)) <= ag_arr g + ag_gift g).
Proof.
  intros HA Hok w g h Hw grp A.
  destruct (Arr_arrival_identity false ut ops HA Hok h Hw) as (HB & HG & _). fold w g grp in HB, HG.
  assert (EA : A = ag_arr g + ag_gift g) by (unfold A; lia).
  split; [lia|]. split; [exact EA|]. split; [exact HG|].
  intros HE1. rewrite <- EA. apply GR_group_paid_le_arrived. exact HE1.
Qed.

(** ... and in any history (in-transaction gifts, rewards paid to the hub): the delivered coins are
    all counted as arrived, and they never exceed what the group expects *)
Theorem Arr_release_never_exceeds_general ut ops :
  always Arr_Env0 ops (empty_world ut) -> Arr_ok0 false ops (empty_world ut) ->
  let w := run_ops ops (empty_world ut) in
  let g := Arr_gfold Arr_all ops (empty_world ut) ag_zero in
  forall h, w_hub w = Some h ->
    let grp := GR_group h (e_now (w_env w) - hp_unbonding (h_params h)) in
    let A := bal (w_env w) A_hub usei - hs_phb (h_state h) in
    hs_phb (h_state h) <= bal (w_env w) A_hub usei /\
    ag_arr g + ag_gift g <= A /\
    (hp_unbonding (h_params h) <= e_now (w_env w) -> ag_arr g <= GR_tot_s grp + GR_tot_b grp) /\
    (GR_E1' grp A -> sumN (map (fun ie => GR_batch_value (snd ie)) (GR_release grp A)) <= A).
Proof.
  intros HA Hok w g h Hw grp A.
  destruct (Arr_delivered_group false ut ops HA Hok h Hw) as (HB & HG & _). fold w g grp in HB, HG.
  split; [lia|]. split; [unfold A; lia|]. split; [exact HG|]. apply GR_group_paid_le_arrived.
Qed.

(** *** Corollary B: absent slashing of unbonding entries and unsolicited transfers the arriving
    coins are exactly the coins the group expects, so the no-loss theorems of C01 apply *)
Theorem Arr_release_exact ut ops :
  always Arr_Env ops (empty_world ut) -> Arr_ok true ops (empty_world ut) ->
  forallb Arr_nogift ops = true ->
  let w := run_ops ops (empty_world ut) in
  forall h, w_hub w = Some h -> hp_unbonding (h_params h) <= e_now (w_env w) ->
    let grp := GR_group h (e_now (w_env w) - hp_unbonding (h_params h)) in
    let A := bal (w_env w) A_hub usei - hs_phb (h_state h) in
    hs_phb (h_state h) <= bal (w_env w) A_hub usei /\
    A = GR_tot_s grp + GR_tot_b grp /\
    (A <= D ->
     GR_release grp A = map (fun ie => (fst ie, GR_rel_exact (snd ie))) grp /\
     ((forall ie, In ie grp -> he_samt (snd ie) <= D /\ he_bamt (snd ie) <= D) ->
      A <= sumN (map (fun ie => GR_batch_value (snd ie)) (GR_release grp A)) + 2 * N.of_nat (length grp))).
Proof.
  intros HA Hok Hng w h Hw Hle grp A.
  destruct (Arr_arrival_identity true ut ops HA Hok h Hw) as (HB & HG & _). fold w grp in HB, HG.
  specialize (HG Hle). cbn [Arr_rel] in HG.
  rewrite (Arr_gift_zero Arr_all ops (empty_world ut) ag_zero Hng eq_refl) in HB.
  assert (EA : A = GR_tot_s grp + GR_tot_b grp) by (unfold A; lia).
  split; [lia|]. split; [exact EA|]. rewrite EA. intros HD.
  split; [apply GR_release_no_loss; exact HD | intros Hamt; apply GR_group_dust; assumption].
Qed.

(** ** 9. computable envelope check (for concrete histories) *)
Definition Arr_NR_b (e : env) : bool :=
  forallb (fun kv : (addr * (val * denom)) * N => negb (snd (snd (fst kv)) =? usei) || (snd kv =? 0)) (e_pend e).

Lemma Arr_NR_check e : Arr_NR_b e = true -> Arr_NR e.
Proof.
  unfold Arr_NR_b, Arr_NR, pending, getN. intros H x v _.
  destruct (get eqbAVD (e_pend e) (x, (v, usei))) as [a|] eqn:E; [|reflexivity].
  apply (get_some_in eqbAVD eqbAVD_eq) in E. rewrite forallb_forall in H. specialize (H _ E).
  cbn [fst snd] in H. rewrite N.eqb_refl in H. cbn [negb orb] in H. apply N.eqb_eq. exact H.
Qed.

Definition Arr_env0_b (w : world) : bool :=
  (0 <? e_ut (w_env w)) &&
  match w_hub w with
  | None => true
  | Some h => (hp_underlying (h_params h) =? usei) && (hp_unbonding (h_params h) =? e_ut (w_env w))
  end.

Definition Arr_env_b (w : world) : bool := Arr_NR_b (w_env w) && Arr_env0_b w.

Lemma Arr_env0_check w : Arr_env0_b w = true -> Arr_Env0 w.
Proof.
  unfold Arr_env0_b, Arr_Env0. intros H. apply andb_true_iff in H. destruct H as [H2 H3].
  split; [lia|].
  intros h Hw. rewrite Hw in H3. apply andb_true_iff in H3. destruct H3 as [A B]. split; lia.
Qed.

Lemma Arr_env_check w : Arr_env_b w = true -> Arr_Env w.
Proof.
  unfold Arr_env_b, Arr_Env. intros H. apply andb_true_iff in H. destruct H as [H1 H2].
  split; [apply Arr_NR_check; exact H1 | apply Arr_env0_check; exact H2].
Qed.

Definition Arr_is_bond_wasm (wm : wasm_msg) : bool :=
  match wm with WHub HBond | WHub HBondSt | WHub HBondRewards => true | _ => false end.

Definition Arr_no_gift_b (sm : addr * cmsg) : bool :=
  match snd sm with
  | MWasm to wm funds =>
      (negb (to =? A_hub) || (BooksEnv.coin_amt usei funds =? 0) || Arr_is_bond_wasm wm) &&
      (negb (to =? A_swap) ||
       match wm with
       | WSwap (SSwapDenom _ target rc) =>
           negb (eqbNN (match rc with Some x => x | None => fst sm end, target) (A_hub, usei))
       | _ => true
       end)
  | MBank to cs => negb (to =? A_hub) || (BooksEnv.coin_amt usei cs =? 0)
  | MSetWithdrawAddr a => negb (a =? A_hub)
  | _ => true
  end.

Lemma Arr_no_gift_check sm : Arr_no_gift_b sm = true -> no_gift sm.
Proof.
  unfold Arr_no_gift_b, no_gift. destruct sm as [s m]. cbn [fst snd]. destruct m; try (intros; exact I).
  - intros H. apply andb_true_iff in H. destruct H as [H1 H2]. split.
    + intros ->. rewrite N.eqb_refl in H1. cbn [negb orb] in H1. apply orb_true_iff in H1.
      destruct H1 as [H1|H1]; [left; lia|]. right.
      destruct m as [hm| | | | | |]; try discriminate H1. exists hm. split; [reflexivity|].
      unfold is_bond_msg. destruct hm; try discriminate H1; auto.
    + intros ->. rewrite N.eqb_refl in H2. cbn [negb orb] in H2.
      destruct m as [| | | | |sm|]; try exact I. destruct sm as [from target rc].
      intros X. apply negb_true_iff in H2. rewrite <- X in H2.
      rewrite (eqb_refl eqbNN eqbNN_eq) in H2. discriminate H2.
  - intros H ->. rewrite N.eqb_refl in H. cbn [negb orb] in H. lia.
  - intros H ->. rewrite N.eqb_refl in H. discriminate H.
Qed.

Definition Arr_opok0_b (ex : bool) (w : world) (o : op) : bool :=
  match o with
  | OTx s _ _ _ => negb (s =? A_hub)
  | OInstHub _ _ _ _ _ _ _ _ => match w_hub w with None => true | Some _ => false end
  | OSlash _ _ _ unb => negb ex || negb unb
  | _ => true
  end.

Definition Arr_giftfree_b (w : world) (o : op) : bool :=
  match o with
  | OTx _ _ _ _ => forallb Arr_no_gift_b (snd (snd (step w o)))
  | _ => true
  end.

Lemma Arr_opok0_check ex w o : Arr_opok0_b ex w o = true -> Arr_opok0 ex w o.
Proof.
  destruct o; cbn [Arr_opok0_b Arr_opok0]; try (intros; exact I).
  - intros H ->. cbn [negb orb] in H. apply negb_true_iff in H. exact H.
  - destruct (w_hub w); [discriminate | reflexivity].
  - intros H ->. discriminate H.
Qed.

Lemma Arr_giftfree_check w o : Arr_giftfree_b w o = true -> Arr_giftfree w o.
Proof.
  destruct o; cbn [Arr_giftfree_b Arr_giftfree]; try (intros; exact I).
  intros H2. apply Forall_forall. intros sm Hin. rewrite forallb_forall in H2.
  apply Arr_no_gift_check. apply H2. exact Hin.
Qed.

(** the whole envelope of a concrete history: [gf] = true checks the gift-free envelope
    ([Arr_Env], [Arr_ok]), [gf] = false the general one ([Arr_Env0], [Arr_ok0]) *)
Fixpoint Arr_check (gf ex : bool) (ops : list op) (w : world) : bool :=
  (if gf then Arr_env_b w else Arr_env0_b w) &&
  match ops with
  | [] => true
  | o :: r => Arr_opok0_b ex w o && (negb gf || Arr_giftfree_b w o) && Arr_check gf ex r (fst (step w o))
  end.

Lemma Arr_check_sound ex : forall ops w,
  Arr_check true ex ops w = true -> always Arr_Env ops w /\ Arr_ok ex ops w.
Proof.
  induction ops as [|o ops IH]; intros w H; cbn [Arr_check always Arr_ok] in *;
    apply andb_true_iff in H; destruct H as [H1 H2].
  - split; [split; [apply Arr_env_check; exact H1 | exact I] | exact I].
  - apply andb_true_iff in H2. destruct H2 as [H2 H3]. apply andb_true_iff in H2. destruct H2 as [H2 H4].
    destruct (IH _ H3) as [I1 I2]. cbn [negb orb] in H4.
    split; [split; [apply Arr_env_check; exact H1 | exact I1]|].
    split; [split; [apply Arr_opok0_check; exact H2 | apply Arr_giftfree_check; exact H4] | exact I2].
Qed.

Lemma Arr_check0_sound ex : forall ops w,
  Arr_check false ex ops w = true -> always Arr_Env0 ops w /\ Arr_ok0 ex ops w.
Proof.
  induction ops as [|o ops IH]; intros w H; cbn [Arr_check always Arr_ok0] in *;
    apply andb_true_iff in H; destruct H as [H1 H2].
  - split; [split; [apply Arr_env0_check; exact H1 | exact I] | exact I].
  - apply andb_true_iff in H2. destruct H2 as [H2 H3]. apply andb_true_iff in H2. destruct H2 as [H2 _].
    destruct (IH _ H3) as [I1 I2].
    split; [split; [apply Arr_env0_check; exact H1 | exact I1]|].
    split; [apply Arr_opok0_check; exact H2 | exact I2].
Qed.

(** ** 10. non-vacuity: concrete histories (deployment and users of ClaimsP.v: epoch 30 s, hub
    unbonding_period = chain unbonding time = 100 s) *)

(** alice bonds 100000 for bSei, bob 50000 for stSei, validator 0 is slashed 1 % (bonded stake only),
    three unbonds, 31 s later a fourth unbond closes batch 1 (35723 usei undelegated in two entries),
    100 s later the entries mature *)
Definition Arr_ex_ops1 : list op := cx_setup ++ cx_acts1 ++ cx_acts2 ++ [OAdvance 100].

(** the same, but half-way through the unbonding period validator 0 is slashed 10 % including its
    unbonding entries *)
Definition Arr_ex_ops2 : list op :=
  cx_setup ++ cx_acts1 ++ cx_acts2 ++ [OAdvance 50; OSlash 0 1 10 true; OAdvance 50].

(** after ops1 alice withdraws (release of batch 1); somebody gifts 7 usei to the hub; bob's next unbond
    closes batch 2, 40 s later alice's closes batch 3; 100 s later both have matured: a release group
    of two batches, with prev_hub_balance = 14907 reserved for bob's released claim *)
Definition Arr_ex_ops3 : list op :=
  cx_setup ++ cx_acts1 ++ cx_acts2 ++ cx_acts3 ++
  [OGift A_hub usei 7; OTx cx_bob A_stsei (WCw20 (CSend A_hub 3000 HkUnbond)) []; OAdvance 40;
   OTx cx_alice A_bsei (WCw20 (CSend A_hub 2000 HkUnbond)) []; OAdvance 100].

Ltac arr_ex_hub :=
  match goal with
  | |- exists h, w_hub ?w = Some h /\ _ =>
      let h := fresh "h" in let E := fresh "E" in
      destruct (w_hub w) as [h|] eqn:E; [|vm_compute in E; discriminate E];
      exists h; split; [reflexivity|]; vm_compute in E; inversion E; subst h; clear E
  end.

Example Arr_ex1_nonvacuous :
  let w := run_ops Arr_ex_ops1 (empty_world 100) in
  always Arr_Env Arr_ex_ops1 (empty_world 100) /\ Arr_ok true Arr_ex_ops1 (empty_world 100) /\
  forallb Arr_nogift Arr_ex_ops1 = true /\
  Arr_gfold Arr_all Arr_ex_ops1 (empty_world 100) ag_zero = mkAG 35723 0 /\
  Arr_inflight (w_env w) = 0 /\ bal (w_env w) A_hub usei = 35723 /\
  exists h, w_hub w = Some h /\
    let grp := GR_group h (e_now (w_env w) - hp_unbonding (h_params h)) in
    hp_unbonding (h_params h) <= e_now (w_env w) /\ hs_phb (h_state h) = 0 /\
    length grp = 1%nat /\ GR_tot_s grp = 9950 /\ GR_tot_b grp = 25773 /\
    GR_E1' grp 35723 /\ 35723 <= D /\
    (forall ie, In ie grp -> he_samt (snd ie) <= D /\ he_bamt (snd ie) <= D) /\
    sumN (map (fun ie => GR_batch_value (snd ie)) (GR_release grp 35723)) = 35722.
Proof.
  cbv zeta. destruct (Arr_check_sound true Arr_ex_ops1 (empty_world 100)) as [HA Hok]; [vm_compute; reflexivity|].
  split; [exact HA|]. split; [exact Hok|]. split; [reflexivity|].
  split; [vm_compute; reflexivity|]. split; [vm_compute; reflexivity|]. split; [vm_compute; reflexivity|].
  arr_ex_hub. cbv zeta.
  split; [apply N.leb_le; vm_compute; reflexivity|]. split; [reflexivity|].
  split; [vm_compute; reflexivity|]. split; [vm_compute; reflexivity|]. split; [vm_compute; reflexivity|].
  split; [unfold GR_E1'; cbv zeta; split; apply N.leb_le; vm_compute; reflexivity|].
  split; [apply N.leb_le; vm_compute; reflexivity|].
  split; [|vm_compute; reflexivity].
  intros ie Hin. vm_compute in Hin. destruct Hin as [<-|[]]. cbn [snd he_samt he_bamt].
  split; apply N.leb_le; vm_compute; reflexivity.
Qed.

Example Arr_ex2_slashed :
  let w := run_ops Arr_ex_ops2 (empty_world 100) in
  always Arr_Env Arr_ex_ops2 (empty_world 100) /\ Arr_ok false Arr_ex_ops2 (empty_world 100) /\
  Arr_check true true Arr_ex_ops2 (empty_world 100) = false /\
  Arr_gfold Arr_all Arr_ex_ops2 (empty_world 100) ag_zero = mkAG 33974 0 /\
  Arr_inflight (w_env w) = 0 /\ bal (w_env w) A_hub usei = 33974 /\
  exists h, w_hub w = Some h /\
    let grp := GR_group h (e_now (w_env w) - hp_unbonding (h_params h)) in
    hp_unbonding (h_params h) <= e_now (w_env w) /\ hs_phb (h_state h) = 0 /\
    GR_tot_s grp + GR_tot_b grp = 35723 /\ GR_E1' grp 33974 /\
    sumN (map (fun ie => GR_batch_value (snd ie)) (GR_release grp 33974)) = 33971.
Proof.
  cbv zeta. destruct (Arr_check_sound false Arr_ex_ops2 (empty_world 100)) as [HA Hok]; [vm_compute; reflexivity|].
  split; [exact HA|]. split; [exact Hok|]. split; [vm_compute; reflexivity|].
  split; [vm_compute; reflexivity|]. split; [vm_compute; reflexivity|]. split; [vm_compute; reflexivity|].
  arr_ex_hub. cbv zeta.
  split; [apply N.leb_le; vm_compute; reflexivity|]. split; [reflexivity|].
  split; [vm_compute; reflexivity|].
  split; [unfold GR_E1'; cbv zeta; split; apply N.leb_le; vm_compute; reflexivity|].
  vm_compute; reflexivity.
Qed.

Example Arr_ex3_two_batches_gift :
  let w := run_ops Arr_ex_ops3 (empty_world 100) in
  let cut := e_ut (w_env w) in
  always Arr_Env Arr_ex_ops3 (empty_world 100) /\ Arr_ok true Arr_ex_ops3 (empty_world 100) /\
  Arr_gfold Arr_all Arr_ex_ops3 (empty_world 100) ag_zero = mkAG 4967 7 /\
  ag_arr (Arr_gfold (fun t => t =? 1000131 + cut) Arr_ex_ops3 (empty_world 100) ag_zero) = 2985 /\
  ag_arr (Arr_gfold (fun t => t =? 1000171 + cut) Arr_ex_ops3 (empty_world 100) ag_zero) = 1982 /\
  ag_arr (Arr_gfold (fun t => t =? 1000031 + cut) Arr_ex_ops3 (empty_world 100) ag_zero) = 0 /\
  bal (w_env w) A_hub usei = 19881 /\
  exists h, w_hub w = Some h /\
    let grp := GR_group h (e_now (w_env w) - hp_unbonding (h_params h)) in
    hs_phb (h_state h) = 14907 /\
    map (fun ie => (fst ie, he_time (snd ie), GR_batch_value (snd ie))) grp
      = [(2, 1000131, 2985); (3, 1000171, 1982)] /\
    GR_tot_s grp + GR_tot_b grp = 4967 /\ GR_E1' grp 4974 /\
    sumN (map (fun ie => GR_batch_value (snd ie)) (GR_release grp 4974)) <= 4974.
Proof.
  cbv zeta. destruct (Arr_check_sound true Arr_ex_ops3 (empty_world 100)) as [HA Hok]; [vm_compute; reflexivity|].
  split; [exact HA|]. split; [exact Hok|].
  split; [vm_compute; reflexivity|]. split; [vm_compute; reflexivity|]. split; [vm_compute; reflexivity|].
  split; [vm_compute; reflexivity|]. split; [vm_compute; reflexivity|].
  arr_ex_hub. cbv zeta. split; [reflexivity|]. split; [vm_compute; reflexivity|].
  split; [vm_compute; reflexivity|].
  split; [unfold GR_E1'; cbv zeta; split; apply N.leb_le; vm_compute; reflexivity|].
  apply N.leb_le. vm_compute. reflexivity.
Qed.

(** the clause [0 < chain unbonding time] of [Arr_Env] is needed in the model: with unbonding time 0
    (hub unbonding_period 0 as well) a closed batch is releasable in the block in which it is
    undelegated, but the model delivers its coins only at the next time advance.  Here 35723 usei
    are completed-but-undelivered ([Arr_fle] at the current block time, which [Arr_separation] shows
    to be 0 inside the envelope), a gift of 1000 usei is all that has "arrived", and alice's
    withdrawal releases batch 1 against it: she is paid 581 instead of about 20800.  (This is the
    model's rendering of the one-block delivery window E3 of DESIGN.md, not a new defect.) *)
Definition Arr_ex_setup0 : list op :=
  [ OInstHub cx_owner 30 0 5000000000000000 D cx_owner usei uusd;
    OInstReward cx_owner A_hub uusd A_swap [uatom];
    OInstDisp cx_owner A_hub A_reward usei uusd cx_owner 0 A_swap A_oracle [usei; uusd];
    OInstReg cx_owner A_hub [0; 1];
    OInstBsei cx_owner A_hub [];
    OInstStsei cx_owner A_hub 2 [];
    OTx cx_owner A_hub (WHub (HConfig (Some A_disp) (Some A_reg) (Some A_bsei) (Some A_stsei) None None None)) [] ].
Definition Arr_ex_ops0 : list op := Arr_ex_setup0 ++ cx_acts1 ++ cx_acts2 ++ [OGift A_hub usei 1000].

Lemma Arr_ut0_witness :
  let w := run_ops Arr_ex_ops0 (empty_world 0) in
  Arr_ok true Arr_ex_ops0 (empty_world 0) /\ e_ut (w_env w) = 0 /\
  Arr_fle (w_env w) (e_now (w_env w)) = 35723 /\ Arr_M Arr_all w = 35723 /\
  bal (w_env w) A_hub usei - Arr_phb w = 1000 /\
  Arr_gfold Arr_all Arr_ex_ops0 (empty_world 0) ag_zero = mkAG 0 1000 /\
  snd (step w (OTx cx_alice A_hub (WHub HWithdraw) []))
  = (true, [(cx_alice, MWasm A_hub (WHub HWithdraw) []); (A_hub, MBank cx_alice [(usei, 581)])]).
Proof.
  cbv zeta. split.
  - assert (H : (fix chk (ops : list op) (w : world) : bool :=
                   match ops with [] => true | o :: r => Arr_opok0_b true w o && Arr_giftfree_b w o && chk r (fst (step w o)) end)
                  Arr_ex_ops0 (empty_world 0) = true) by (vm_compute; reflexivity).
    revert H. generalize (empty_world 0). induction Arr_ex_ops0 as [|o r IH]; intros w0 H; cbn [Arr_ok]; [exact I|].
    apply andb_true_iff in H. destruct H as [H1 H2]. apply andb_true_iff in H1. destruct H1 as [H1 H3].
    split; [split; [apply Arr_opok0_check; exact H1 | apply Arr_giftfree_check; exact H3] | apply IH; exact H2].
  - repeat split; vm_compute; reflexivity.
Qed.

(** a history outside the gift-free envelope but inside the general one: after ops1 alice attaches
    5 usei to a CheckSlashing call of the hub (an unsolicited in-transaction transfer): the balance
    exceeds prev_hub_balance + delivered + gifted by those 5 usei; the delivered coins are still
    exactly what the release group expects *)
Definition Arr_ex_ops4 : list op :=
  Arr_ex_ops1 ++ [OGift cx_alice usei 5; OTx cx_alice A_hub (WHub HCheckSlashing) [(usei, 5)]].

Example Arr_ex4_intx_gift :
  let w := run_ops Arr_ex_ops4 (empty_world 100) in
  always Arr_Env0 Arr_ex_ops4 (empty_world 100) /\ Arr_ok0 true Arr_ex_ops4 (empty_world 100) /\
  Arr_check true true Arr_ex_ops4 (empty_world 100) = false /\
  Arr_gfold Arr_all Arr_ex_ops4 (empty_world 100) ag_zero = mkAG 35723 0 /\
  bal (w_env w) A_hub usei = 35728 /\ Arr_phb w = 0 /\ Arr_M Arr_all w = 35723.
Proof.
  cbv zeta. destruct (Arr_check0_sound true Arr_ex_ops4 (empty_world 100)) as [HA Hok]; [vm_compute; reflexivity|].
  split; [exact HA|]. split; [exact Hok|]. repeat split; vm_compute; reflexivity.
Qed.

(** the clause "the hub is instantiated once" of [Arr_opok0] is needed in the model: if the hub
    contract could be instantiated again at the same address while batch 1 is unbonding, the new
    instance (empty history, prev_hub_balance 0) would receive 35723 usei that no batch of its
    history expects.  (A CosmWasm address is instantiated once, so this is not a behaviour of the
    real chain.) *)
Definition Arr_ex_opsR : list op :=
  cx_setup ++ cx_acts1 ++ cx_acts2 ++
  [OInstHub cx_owner 30 100 5000000000000000 D cx_owner usei uusd; OAdvance 100].

Lemma Arr_reinstantiate_witness :
  let w := run_ops Arr_ex_opsR (empty_world 100) in
  Arr_check false true Arr_ex_opsR (empty_world 100) = false /\
  Arr_check false true (cx_setup ++ cx_acts1 ++ cx_acts2) (empty_world 100) = true /\
  Arr_gfold Arr_all Arr_ex_opsR (empty_world 100) ag_zero = mkAG 35723 0 /\
  bal (w_env w) A_hub usei = 35723 /\ Arr_phb w = 0 /\ Arr_U w = 0 /\ Arr_M Arr_all w = 0.
Proof. cbv zeta. repeat split; vm_compute; reflexivity. Qed.
