(** * RemoveTx: the COMPLETE RemoveValidator transaction (C13 composed with C19).

    The registry appends the hub's UpdateGlobalIndex to the RedelegateProxy it emits on a removal.
    [RemoveP.remove_tx_decompose] analyses a successful removal down to that sub-message;
    [IndexP.update_global_index_effect] is the theorem about an UpdateGlobalIndex sent as a ROOT
    transaction.  This file composes the two, forwards: it PROVES that the removal succeeds and
    describes the final world.

    Vocabulary:
    - [remove_msg v]     = the root message  MWasm A_reg (WReg (GRemove v)) [];
    - [remove_mid w o v] = the world after the registry update, RedelegateProxy and every
                           redelegation have executed, just before the appended UpdateGlobalIndex
                           (computed with [run], like [IndexP.pre_dispatch]);
    - [disp_due e d]     = what the dispatcher holds of coin [d] plus every reward of that coin pending
                           for the hub at any validator (the amount an index update would see);
    - [RemoveE1 w]       = E1 on [disp_due] (the bound of [IndexE1] taken over ALL validators, not only
                           those the hub has a delegation entry with: the redelegations create entries);
    - [PendClean e]      = no reward is pending for the hub at a validator without delegation entry
                           (under it [RemoveE1] is exactly [IndexE1]'s bound: [RemoveE1_of_clean]).

    Main results:
    - [ugi_exec]               the UpdateGlobalIndex tree of C19 has at most 40 messages;
    - [run_trace_shift], [run_trace_forall]  [run] only appends to the trace it is given; a stack
                               invariant constraining the head of the stack constrains the whole trace;
    - [removed_trace_no_redel] after the redelegations the hub sends no further redelegation;
    - [redel_all_ok]           the redelegations planned by the registry all execute;
    - [redel_all_frame]        they keep clock, stubs, withdraw address, [disp_due] and every bank
                               balance except the dispatcher's (reward payouts go to the dispatcher);
    - [reg_remove_ok], [hub_redel_proxy_ok]  the two handlers succeed;
    - [mid_*]                  hypothesis transfer: every hypothesis of C19 holds again in the
                               intermediate world ([mid_hyps] collects them);
    - [remove_tx_effect]       THE THEOREM: for every world in the envelope of C19 (plus [RemoveE1],
                               well-formed delegation table), owner sender, validator with a hub
                               delegation the chain lets be redelegated, not the last one: the prefix
                               always executes, the intermediate world satisfies C19's hypotheses, and
                               outside finding F2 the whole transaction SUCCEEDS with the stated end state;
    - [remove_tx_succeeds]     summary form on the history operation [OTx owner A_reg (GRemove v)];
    - [remove_tx_effect_reachable]  the same at any point of any operation history;
    - [RemoveE1_of_clean]      under [PendClean], [RemoveE1] is the bound already in [IndexE1];
    - [remove_tx_F2_witness]   a removal FAILS (world unchanged) because the appended index update is in
                               the class of finding F2 (dust rewards), every other hypothesis holding;
    - [remove_tx_nonvacuous], [remove_tx_example_state]  a concrete world satisfying every hypothesis
                               (rewards pending on the removed and on a remaining validator). *)
From Krp Require Import Tactics Prelude Fixed FMap Types Env Registry Cw20 Reward Dispatcher Hub Exec
     ExecP Hist Inv RegistryP DispatcherP HubFrame HubAdmin BooksEnv BooksHub BooksP RemoveP RemoveEnd
     IndexRun IndexEnv IndexHandlers IndexSwap IndexPhases IndexP.
Open Scope N_scope.
Ltac Zify.zify_post_hook ::= Z.div_mod_to_equations.

(** ** 1. the executor *)

(** [run] only appends to the trace it is given *)
Lemma run_trace_shift : forall f w l t0 tr,
  run f w l (t0 ++ tr) =
  match run f w l tr with Some (w', t) => Some (w', t0 ++ t) | None => None end.
Proof.
  induction f as [|f IH]; intros w l t0 tr.
  - destruct l as [|[s m] rest]; reflexivity.
  - destruct l as [|[s m] rest]; [rewrite !run_nil; reflexivity|].
    rewrite !run_cons. destruct (step_msg w s m) as [r0|]; cbn [bind]; [|reflexivity].
    rewrite <- app_assoc. apply IH.
Qed.

(** a stack invariant that constrains the head of the stack constrains every executed message *)
Lemma run_trace_forall (J : world -> list (addr * cmsg) -> Prop) (P : addr * cmsg -> Prop) :
  (forall w s m rest w' out,
      J w ((s, m) :: rest) -> step_msg w s m = Some (w', out) -> J w' (out ++ rest)) ->
  (forall w sm rest, J w (sm :: rest) -> P sm) ->
  forall fuel w stack tr w' tr',
    J w stack -> Forall P tr -> run fuel w stack tr = Some (w', tr') -> Forall P tr'.
Proof.
  intros Hstep HP. induction fuel as [|f IH]; intros w stack tr w' tr' HJ Htr H.
  - destruct stack as [|[s m] rest]; cbn [run] in H; [inversion H; subst; exact Htr | discriminate].
  - destruct stack as [|[s m] rest]; cbn [run] in H; [inversion H; subst; exact Htr|].
    bind_inv H as r Hr. destruct r as [w1 out]. cbn [fst snd] in H.
    eapply IH; [| |exact H].
    + eapply Hstep; eauto.
    + apply Forall_app. split; [exact Htr|]. constructor; [|constructor]. eapply HP. exact HJ.
Qed.

(** once the validator is out of the registry and the hub has nothing on it, the hub sends no further
    redelegation in the transaction (stack invariant [RemS] of RemoveEnd) *)
Definition not_hub_redel (sm : addr * cmsg) : Prop :=
  fst sm = A_hub -> forall s d c, snd sm <> MRedelegate s d c.

Lemma removed_trace_no_redel g' v w stack fuel w' tr' :
  ~ In v (rg_vals g') -> dv (w_env w) A_hub v = 0 ->
  RemS g' v (delegation (w_env w) A_hub v) w stack ->
  run fuel w stack [] = Some (w', tr') -> Forall not_hub_redel tr'.
Proof.
  intros Hnin Hdv HR H.
  assert (Hd0 : delegation (w_env w) A_hub v = None \/ delegation (w_env w) A_hub v = Some 0).
  { unfold dv in Hdv. destruct (delegation (w_env w) A_hub v) as [a|]; [right; f_equal; exact Hdv | left; reflexivity]. }
  eapply (run_trace_forall (RemS g' v (delegation (w_env w) A_hub v)) not_hub_redel); [| |exact HR|constructor|exact H].
  - intros. eapply step_msg_removed; eauto.
  - intros w0 sm rest (_ & _ & _ & Hstk). pose proof (Forall_inv Hstk) as [_ Hh].
    intros E s d c Heq. specialize (Hh E). rewrite Heq in Hh. exact Hh.
Qed.

Lemma call_reg w s gm f :
  call w s A_reg (WReg gm) f =
  (do x <- w_reg w; do r <- reg_execute w x s gm; Some (set_reg w (fst r), snd r)).
Proof. reflexivity. Qed.

(** the UpdateGlobalIndex tree of C19 is small: hub handler, at most 18 messages of withdrawals
    (one per chain validator, [length VALS] = 12) and swap leg, at most 21 messages of dispatch leg.  (Same construction as
    [IndexP.update_global_index_effect], keeping the message count that theorem forgets.) *)
Lemma ugi_exec w sender h r dp g tb ts :
  Wired w -> RewardWired w -> RewardsToDispatcher w -> IndexWiring w -> StubsOk (w_env w) ->
  IndexE1 w -> RewardSolvent w -> HubReady w sender ->
  w_hub w = Some h -> w_reward w = Some r -> w_disp w = Some dp -> w_reg w = Some g ->
  w_bsei w = Some tb -> w_stsei w = Some ts ->
  (forall w1, pre_dispatch w sender = Some w1 ->
     bal (w_env w1) A_disp (dp_bd dp) <= LIM /\ bal (w_env w1) A_disp usei <= LIM /\
     ~ Known_F2 (dp_rate dp) (bal (w_env w1) A_disp (dp_bd dp)) (bal (w_env w1) A_disp usei)) ->
  exists w' n, Exec w [(sender, root_msg)] w' n /\ (n <= 40)%nat.
Proof.
  intros HW HRW HRD HIW HST HE1 HSol HRdy Hwh Hwr Hwd Hwg Hwb Hws HX.
  destruct (Wired_inv w HW) as (h_ & r_ & d_ & g_ & tb_ & ts_ & A1 & A2 & A3 & A4 & A5 & A6 & Hcd & Hcr & Hcb & Hcs &
                                Hu & Hrh & Hdh & Hdr & Hdstd & Hgh & _ & _).
  rewrite Hwh in A1. rewrite Hwr in A2. rewrite Hwd in A3. rewrite Hwg in A4. rewrite Hwb in A5. rewrite Hws in A6.
  inversion A1; inversion A2; inversion A3; inversion A4; inversion A5; inversion A6. subst h_ r_ d_ g_ tb_ ts_.
  clear A1 A2 A3 A4 A5 A6.
  unfold RewardWired in HRW. rewrite Hwr, Hwd in HRW. destruct HRW as (Hrd & Hdbd & _).
  unfold RewardsToDispatcher in HRD.
  unfold IndexWiring in HIW. rewrite Hwd, Hwg in HIW. destruct HIW as (Hdsw & Hdor & Hrate & Hk1 & Hk2 & Hk3 & Hok).
  unfold IndexE1 in HE1. rewrite Hwh, Hwr, Hwb, Hws in HE1. cbn zeta in HE1.
  destruct HE1 as (Hbook & Hdel & Hclb & Hcls & Hdbal & Hrbal & Hgi).
  unfold RewardSolvent in HSol. rewrite Hwr in HSol.
  unfold HubReady in HRdy. rewrite Hwh in HRdy. destruct HRdy as (Hpz & Hb0 & Hauth).
  set (e := w_env w) in *. set (now := e_now e).
  set (h0 := set_h_state h (touch_lim (h_state h) now)).
  set (w0 := set_hub w h0).
  pose proof (root_step w sender h Hwh Hcd Hcr Hpz Hauth) as Hroot. fold e now h0 w0 in Hroot.
  destruct (index_prefix_exec w sender h dp Hwd Hauth HRD Hdh Hdsw Hdor Hdstd Hdbd HST Hdbal Hb0 Hbook)
    as (e1 & n1 & Hex1 & Hn1 & Hpre).
  fold e now h0 w0 in Hex1.
  destruct Hpre as (Hm1 & Hd1 & Hp1 & Hbal1). fold e in Hm1, Hd1, Hp1, Hbal1.
  set (w1 := set_env w0 e1).
  assert (Hpre1 : pre_dispatch w sender = Some w1).
  { unfold pre_dispatch. rewrite Hroot. cbn [bind fst snd]. rewrite removelast_last.
    assert (Hf1 : (n1 <= tx_fuel)%nat) by (clear - Hn1; unfold tx_fuel; lia).
    destruct (Exec_tx _ _ _ _ Hex1 Hf1) as [tr1 Hrun1]. rewrite Hrun1. reflexivity. }
  destruct (HX w1 Hpre1) as (HXb & HXst & HF2).
  assert (Hpend1 : forall v d, In v (del_vals e A_hub) -> In d DENOMS -> pending e1 A_hub v d = 0).
  { intros v d Hv Hd. rewrite Hp1. change (A_hub =? A_hub) with true. cbn [andb].
    assert (E1 : existsb (N.eqb v) (del_vals e A_hub) = true).
    { apply existsb_exists. exists v. split; [exact Hv | apply N.eqb_refl]. }
    apply in_denoms_In in Hd. rewrite E1, Hd. reflexivity. }
  assert (Hdel1 : delegated e1 A_hub = delegated e A_hub) by (apply delegated_ext; exact Hd1).
  destruct (index_dispatch_exec w1 h0 r dp g tb ts) as (h' & e' & n2 & Hex2 & Hn2 & _);
    try assumption; try reflexivity.
  { change (w_env w1) with e1. rewrite Hdel1. exact Hdel. }
  { change (w_env w1) with e1. rewrite Hbal1 by discriminate. rewrite <- Hrd. exact Hrbal. }
  { change (w_env w1) with e1. rewrite Hbal1 by discriminate. rewrite <- Hrd. exact HSol. }
  { change (w_env w1) with e1. intros v d Hv Hdv Hd. apply Hpend1; [|exact Hd].
    apply In_del_vals. split; [exact Hv|]. unfold delegation in *. rewrite <- Hd1. exact Hdv. }
  eexists. exists (S ((n1 + n2) + 0)). split.
  - eapply Exec_cons; [exact Hroot | | constructor]. eapply Exec_app; [exact Hex1 | exact Hex2].
  - clear - Hn1 Hn2. lia.
Qed.

(** ** 2. the environment: the redelegations of a removal *)

(** everything a redelegation cannot touch *)
Definition same_cfg (e e' : env) : Prop :=
  e_now e' = e_now e /\ e_ut e' = e_ut e /\ e_unb e' = e_unb e /\ e_wdaddr e' = e_wdaddr e /\
  e_noredel e' = e_noredel e /\ e_price e' = e_price e /\ e_swapmode e' = e_swapmode e /\
  e_oraclemode e' = e_oraclemode e.

Lemma same_cfg_refl e : same_cfg e e.
Proof. unfold same_cfg. repeat split. Qed.

Lemma same_cfg_trans a b c : same_cfg a b -> same_cfg b c -> same_cfg a c.
Proof. unfold same_cfg. intuition congruence. Qed.

Lemma same_cfg_wd e e' x : same_cfg e e' -> withdraw_addr e' x = withdraw_addr e x.
Proof. intros (_ & _ & _ & H & _). unfold withdraw_addr. rewrite H. reflexivity. Qed.

(** what an index update would find at the dispatcher: its balance plus the hub's pending rewards *)
Definition disp_due (e : env) (d : denom) : N := bal e A_disp d + pend_total e A_hub VALS d.

(** dispatcher-side frame of a payout-like step *)
Definition due_frame (e e' : env) : Prop :=
  same_cfg e e' /\ (forall d, disp_due e' d = disp_due e d) /\
  (forall a d, a <> A_disp -> bal e' a d = bal e a d) /\
  (forall a d, bal e a d <= bal e' a d).

Lemma due_frame_refl e : due_frame e e.
Proof. split; [apply same_cfg_refl|]. split; [reflexivity|]. split; [reflexivity|]. intros; lia. Qed.

Lemma due_frame_trans a b c : due_frame a b -> due_frame b c -> due_frame a c.
Proof.
  intros (A1 & A2 & A3 & A4) (B1 & B2 & B3 & B4). split; [eapply same_cfg_trans; eauto|].
  split; [intros d; rewrite B2; apply A2|]. split.
  - intros x d Hx. rewrite B3 by exact Hx. apply A3. exact Hx.
  - intros x d. eapply N.le_trans; [apply A4 | apply B4].
Qed.

Lemma payout_due_frame e v :
  withdraw_addr e A_hub = A_disp -> is_val v = true -> due_frame e (payout e A_hub v).
Proof.
  intros Hwd Hv. pose proof (payout_frame e A_hub v) as F. cbn zeta in F.
  destruct F as (F1 & F2 & F3 & F4 & F5 & F6 & F7 & F8 & F9).
  split; [unfold same_cfg; repeat split; assumption|]. split; [|split].
  - intros d. unfold disp_due. rewrite payout_bal, Hwd, N.eqb_refl. cbn [andb]. unfold pend_total.
    pose proof (sumN_map_upd (fun u => pending e A_hub u d) (fun u => pending (payout e A_hub v) A_hub u d)
                  v VALS VALS_NoDup (proj2 (In_VALS v) Hv)) as U.
    destruct (in_denoms d) eqn:Ed.
    + assert (Ho : forall u, u <> v -> pending (payout e A_hub v) A_hub u d = pending e A_hub u d).
      { intros u Hu. rewrite payout_pending. assert (E : (u =? v) = false) by lia. rewrite E. reflexivity. }
      specialize (U Ho). cbn beta in U. rewrite payout_pending, !N.eqb_refl, Ed in U. cbn [andb] in U. lia.
    + assert (Ho : forall u, u <> v -> pending (payout e A_hub v) A_hub u d = pending e A_hub u d).
      { intros u Hu. rewrite payout_pending, Ed, !andb_false_r. reflexivity. }
      specialize (U Ho). cbn beta in U. rewrite payout_pending, Ed, !andb_false_r in U. lia.
  - intros a d Ha. rewrite payout_bal, Hwd. assert (E : (a =? A_disp) = false) by lia. rewrite E. cbn [andb]. lia.
  - intros a d. rewrite payout_bal. lia.
Qed.

Lemma payout_if_entry_due_frame e v :
  withdraw_addr e A_hub = A_disp -> is_val v = true -> due_frame e (payout_if_entry e A_hub v).
Proof.
  intros Hwd Hv. unfold payout_if_entry. destruct (delegation e A_hub v); [apply payout_due_frame; assumption|].
  apply due_frame_refl.
Qed.

(** a redelegation is two payouts followed by a change of the delegation table *)
Lemma do_redelegate_shape e x s d c e' :
  do_redelegate e x s d c = Some e' ->
  is_val d = true /\ exists dl, e' = set_del (payout_if_entry (payout e x s) x d) dl.
Proof.
  unfold do_redelegate. intros H. check_inv H as H1. check_inv H as H2.
  destruct (delegation e x s) as [cur|]; [|discriminate]. check_inv H as H3.
  destruct (is_val d) eqn:Hd; [|discriminate]. inversion H. split; [reflexivity|]. eexists. reflexivity.
Qed.

Lemma do_redelegate_due_frame e s d c e' :
  do_redelegate e A_hub s d c = Some e' -> withdraw_addr e A_hub = A_disp -> is_val s = true ->
  due_frame e e'.
Proof.
  intros H Hwd Hs. apply do_redelegate_shape in H. destruct H as (Hd & dl & ->).
  pose proof (payout_due_frame e s Hwd Hs) as F1.
  assert (Hwd1 : withdraw_addr (payout e A_hub s) A_hub = A_disp) by (rewrite payout_wd; exact Hwd).
  pose proof (payout_if_entry_due_frame (payout e A_hub s) d Hwd1 Hd) as F2.
  eapply due_frame_trans; [exact F1|]. eapply due_frame_trans; [exact F2|].
  split; [unfold same_cfg; repeat split|]. split; [reflexivity|]. split; [reflexivity|]. intros; apply N.le_refl.
Qed.

Lemma redel_all_frame src : forall l e e2,
  redel_all e A_hub src l = Some e2 -> withdraw_addr e A_hub = A_disp -> is_val src = true ->
  due_frame e e2.
Proof.
  unfold redel_all. induction l as [|p l IH]; intros e e2 H Hwd Hs; cbn [foldM] in H.
  - inversion H; subst. apply due_frame_refl.
  - bind_inv H as e1 He1. pose proof (do_redelegate_due_frame _ _ _ _ _ He1 Hwd Hs) as F1.
    eapply due_frame_trans; [exact F1|]. apply IH; [exact H| |exact Hs].
    rewrite (same_cfg_wd e e1 A_hub (proj1 F1)). exact Hwd.
Qed.

(** the planned redelegations all execute: each is a positive usei amount to a real validator other
    than the source, and together they do not exceed the stake on the source *)
Lemma redel_all_ok x src : forall l e,
  DelWf e -> can_redelegate e src = true ->
  (forall p, In p l -> fst (snd p) = usei /\ 0 < snd (snd p) /\ is_val (fst p) = true /\ fst p <> src) ->
  redel_total l <= dv e x src ->
  exists e2, redel_all e x src l = Some e2.
Proof.
  unfold redel_all, redel_total. induction l as [|[dst [dn amt]] l IH]; intros e Hwf Hcan Hl Hsum; cbn [foldM map sumN snd] in *.
  - eexists. reflexivity.
  - destruct (Hl _ (or_introl eq_refl)) as (Hden & Hpos & Hval & Hne). cbn [fst snd] in Hden, Hpos, Hval, Hne. subst dn.
    assert (Hstep : exists e1, do_redelegate e x src dst (usei, amt) = Some e1).
    { unfold do_redelegate, staking_coin_ok. cbn [fst snd]. change (usei =? usei) with true.
      assert (E0 : (amt =? 0) = false) by lia. rewrite E0. cbn [negb andb]. rewrite Hcan.
      unfold dv in Hsum. destruct (delegation e x src) as [cur|]; [|lia].
      assert (E1 : (amt <=? cur) = true) by lia. rewrite E1, Hval. eexists. reflexivity. }
    destruct Hstep as [e1 He1]. cbn beta. cbn [fst snd]. rewrite He1. cbn [bind].
    pose proof (do_redelegate_spec _ _ _ _ _ _ He1 Hwf) as S.
    destruct S as (_ & _ & _ & _ & _ & _ & Hmove & _ & _ & _ & _ & _ & _ & _ & Hnr & _ & _ & _ & _ & Hwf1).
    cbn [snd] in Hmove. destruct (Hmove (not_eq_sym Hne)) as (M1 & _ & _).
    apply IH; [exact Hwf1 | unfold can_redelegate in *; rewrite Hnr; exact Hcan | |lia].
    intros p Hp. apply Hl. right. exact Hp.
Qed.

(** the executor runs the forwarded redelegations one after the other *)
Lemma run_redels_fwd src : forall l w e2 f rest tr,
  redel_all (w_env w) A_hub src l = Some e2 ->
  run (length l + f) w (redel_stack src l ++ rest) tr = run f (set_env w e2) rest (tr ++ redel_stack src l).
Proof.
  unfold redel_all, redel_stack. induction l as [|p l IH]; intros w e2 f rest tr H; cbn [foldM] in H.
  - inversion H; subst. cbn [length plus map app]. rewrite set_env_same, app_nil_r. reflexivity.
  - bind_inv H as e1 He1. cbn [length plus map app]. rewrite run_cons. cbn [step_msg]. rewrite He1.
    cbn [bind fst snd app].
    rewrite (IH (set_env w e1) e2 f rest _ H). rewrite set_env_set_env, <- app_assoc. reflexivity.
Qed.

(** pending rewards summed over the validators with a delegation entry are part of the sum over all *)
Lemma pend_total_del_vals_le e x d : pend_total e x (del_vals e x) d <= pend_total e x VALS d.
Proof.
  unfold pend_total, del_vals. rewrite all_delegations_sel. induction VALS as [|u l IH]; [cbn; lia|].
  rewrite sel_cons, !map_app, sumN_app. cbn [map sumN]. destruct (delegation e x u); cbn [map fst sumN]; lia.
Qed.

(** no reward pending for the hub where it has no delegation entry (rewards accrue only on entries and
    an entry is paid out, in the chain's denoms, before it disappears; not proved to be an invariant
    here — it is only used to compare [RemoveE1] below with the bound of [IndexE1]) *)
Definition PendClean (e : env) : Prop :=
  forall v d, delegation e A_hub v = None -> pending e A_hub v d = 0.

Lemma pend_total_clean e d : PendClean e -> pend_total e A_hub (del_vals e A_hub) d = pend_total e A_hub VALS d.
Proof.
  intros Hc. unfold pend_total, del_vals. rewrite all_delegations_sel. induction VALS as [|u l IH]; [reflexivity|].
  rewrite sel_cons, !map_app, sumN_app. cbn [map sumN]. destruct (delegation e A_hub u) eqn:E; cbn [map fst sumN].
  - lia.
  - rewrite (Hc u d E). lia.
Qed.

(** ** 3. the two handlers succeed *)
Lemma RegOk_remove g v :
  RegOk g -> remove_val v (rg_vals g) <> [] -> RegOk (set_rg_vals g (remove_val v (rg_vals g))).
Proof.
  intros (_ & Hnd & Hv) Hne. split; [exact Hne|]. cbn [rg_vals set_rg_vals]. split.
  - unfold remove_val. apply NoDup_filter. exact Hnd.
  - intros u Hu. apply remove_val_In in Hu. apply Hv. tauto.
Qed.

Lemma redels_of_length : forall vals xs, (length (redels_of vals xs) <= length vals)%nat.
Proof.
  unfold redels_of. induction vals as [|p vals IH]; intros [|x xs]; cbn [combine flat_map length]; try lia.
  rewrite app_length. specialize (IH xs). cbn [snd].
  set (n := length (flat_map _ (combine vals xs))) in *. clearbody n. destruct (x =? 0); cbn [length]; lia.
Qed.

(** the registry handler: owner, something left, redelegation allowed, E1 on the stake *)
Lemma reg_remove_ok w g v amt :
  let g' := set_rg_vals g (remove_val v (rg_vals g)) in
  rg_hub g = A_hub -> RegOk g' -> delegated (w_env w) A_hub <= LIM -> amt <= LIM ->
  delegation (w_env w) A_hub v = Some amt -> can_redelegate (w_env w) v = true ->
  exists dl, let vals := sort_asc (reg_query_validators w g') in
    length dl = length vals /\ sumN dl = amt /\
    reg_execute w g (rg_owner g) (GRemove v) = Some (g', removal_msgs A_hub v (redels_of vals dl)).
Proof.
  intros g' Hh Hok Hdel Hamt Hd Hc.
  assert (Hh' : rg_hub g' = A_hub) by exact Hh.
  pose proof (vals_facts w g' Hok Hh' Hdel) as F. cbn zeta in F.
  set (vals := sort_asc (reg_query_validators w g')) in *.
  destruct F as (Hne & Hlen & Hnd & Hval & Hsum).
  pose proof LIM_fits as HL.
  destruct (deleg_total amt (map snd vals)) as (dl & Hdl & Hl & Hs).
  { destruct vals; [congruence | discriminate]. }
  { lia. }
  exists dl. cbn zeta. rewrite map_length in Hl. split; [exact Hl|]. split; [exact Hs|].
  cbn [reg_execute]. rewrite N.eqb_refl. fold g'.
  destruct Hok as (Hgne & _). destruct (rg_vals g') as [|u0 ur] eqn:Eg; [congruence|].
  unfold reg_redelegate_msgs. rewrite Hh', Hd, Hc, N.ltb_irrefl. fold vals. rewrite Hdl. reflexivity.
Qed.

(** the hub forwards the proxy message of the registry *)
Lemma hub_redel_proxy_ok w h src l :
  paused h = false -> hc_reg (h_cfg h) = Some A_reg ->
  hub_execute w h A_hub A_reg [] (HRedelProxy src l) =
  Some (h, map (fun p : val * coin => MRedelegate src (fst p) (snd p)) l).
Proof.
  intros Hp Hr. unfold hub_execute. unfold paused in Hp. unfold paused. rewrite Hp. cbn [negb].
  rewrite Hr. reflexivity.
Qed.

(** ** 4. the transaction up to the appended UpdateGlobalIndex *)
Definition remove_msg (v : val) : cmsg := MWasm A_reg (WReg (GRemove v)) [].

(** the world after the registry update, RedelegateProxy and all redelegations, i.e. just before the
    UpdateGlobalIndex the registry appended (the last message it emits) *)
Definition remove_mid (w : world) (owner : addr) (v : val) : result world :=
  do r <- step_msg w owner (remove_msg v);
  do r2 <- run tx_fuel (fst r) (removelast (snd r)) [];
  Some (fst r2).

Lemma remove_step w owner g v g' msgs :
  w_reg w = Some g -> reg_execute w g owner (GRemove v) = Some (g', msgs) ->
  step_msg w owner (remove_msg v) = Some (set_reg w g', map (fun x => (A_reg, x)) msgs).
Proof.
  intros Hg H. unfold remove_msg. cbn [step_msg]. rewrite send_coins_nil. cbn [bind].
  rewrite set_env_same, call_reg, Hg. cbn [bind]. rewrite H. reflexivity.
Qed.

Lemma proxy_step w h v l :
  w_hub w = Some h -> paused h = false -> hc_reg (h_cfg h) = Some A_reg ->
  step_msg w A_reg (MWasm A_hub (WHub (HRedelProxy v l)) []) = Some (w, redel_stack v l).
Proof.
  intros Hh Hp Hr. cbn [step_msg]. rewrite send_coins_nil. cbn [bind].
  rewrite set_env_same, call_hub, Hh. cbn [bind]. rewrite (hub_redel_proxy_ok w h v l Hp Hr).
  cbn [bind fst snd]. rewrite (set_hub_same w h Hh), map_map. reflexivity.
Qed.

Lemma run_from_nil f w l t0 w' t :
  run f w l [] = Some (w', t) -> run f w l t0 = Some (w', t0 ++ t).
Proof. intros H. rewrite <- (app_nil_r t0) at 1. rewrite run_trace_shift, H. reflexivity. Qed.

(** ** 5. hypothesis transfer: the intermediate world satisfies the hypotheses of C19 again *)

(** E1 for the removal: what an index update would find at the dispatcher, counted over ALL validators *)
Definition RemoveE1 (w : world) : Prop := forall d, disp_due (w_env w) d <= LIM.

Lemma RemoveE1_of_clean w h r tb ts :
  w_hub w = Some h -> w_reward w = Some r -> w_bsei w = Some tb -> w_stsei w = Some ts ->
  IndexE1 w -> PendClean (w_env w) -> RemoveE1 w.
Proof.
  intros Hh Hr Hb Hs HE Hc d. unfold IndexE1 in HE. rewrite Hh, Hr, Hb, Hs in HE. cbn zeta in HE.
  destruct HE as (_ & _ & _ & _ & HE & _). unfold disp_due. rewrite <- (pend_total_clean _ d Hc). apply HE.
Qed.

Section Mid.
  Variables (w : world) (g : registry) (l : list val) (e2 : env).
  Let g' := set_rg_vals g l.
  Let w2 := set_env (set_reg w g') e2.

  Lemma mid_Wired : w_reg w = Some g -> Wired w -> Wired w2.
  Proof.
    intros Hg HW.
    destruct (Wired_inv w HW) as (h_ & r_ & d_ & g_ & tb_ & ts_ & A1 & A2 & A3 & A4 & A5 & A6 & F).
    rewrite Hg in A4. inversion A4; subst g_.
    unfold Wired, w2. cbn [w_hub w_reward w_disp w_reg w_bsei w_stsei set_env set_reg].
    rewrite A1, A2, A3, A5, A6. exact F.
  Qed.

  Lemma mid_RewardWired : RewardWired w -> RewardWired w2.
  Proof. intros H. exact H. Qed.

  Lemma mid_RewardsToDispatcher : same_cfg (w_env w) e2 -> RewardsToDispatcher w -> RewardsToDispatcher w2.
  Proof.
    intros Hc H. unfold RewardsToDispatcher, w2 in *. cbn [w_env set_env].
    rewrite (same_cfg_wd _ _ A_hub Hc). exact H.
  Qed.

  Lemma mid_IndexWiring : w_reg w = Some g -> RegOk g' -> IndexWiring w -> IndexWiring w2.
  Proof.
    intros Hg Hok H. unfold IndexWiring, w2 in *. cbn [w_disp w_reg set_env set_reg].
    rewrite Hg in H. destruct (w_disp w) as [d|]; [|contradiction]. intuition.
  Qed.

  Lemma mid_StubsOk : same_cfg (w_env w) e2 -> StubsOk (w_env w) -> StubsOk e2.
  Proof.
    intros (_ & _ & _ & _ & _ & C1 & C2 & C3) (S1 & S2 & S3 & S4). unfold StubsOk.
    rewrite C1, C2, C3. auto.
  Qed.

  Lemma mid_RemoveE1 : due_frame (w_env w) e2 -> RemoveE1 w -> RemoveE1 w2.
  Proof. intros (_ & F & _) H d. unfold w2. cbn [w_env set_env]. rewrite F. apply H. Qed.

  Lemma mid_IndexE1 :
    due_frame (w_env w) e2 -> delegated e2 A_hub = delegated (w_env w) A_hub ->
    RemoveE1 w -> IndexE1 w -> IndexE1 w2.
  Proof.
    intros (_ & F & Fo & _) Hd HR H. unfold IndexE1, w2 in *.
    cbn [w_hub w_reward w_bsei w_stsei w_env set_env set_reg].
    destruct (w_hub w) as [h|]; [|contradiction]. destruct (w_reward w) as [r|]; [|contradiction].
    destruct (w_bsei w) as [tb|]; [|contradiction]. destruct (w_stsei w) as [ts|]; [|contradiction].
    cbn zeta in *. destruct H as (H1 & H2 & H3 & H4 & _ & H6 & H7).
    split; [exact H1|]. split; [rewrite Hd; exact H2|]. split; [exact H3|]. split; [exact H4|].
    split; [|split; [rewrite Fo by discriminate; exact H6 | exact H7]].
    intros d. eapply N.le_trans; [|apply (HR d)]. rewrite <- (F d). unfold disp_due.
    pose proof (pend_total_del_vals_le e2 A_hub d). lia.
  Qed.

  Lemma mid_RewardSolvent : due_frame (w_env w) e2 -> RewardSolvent w -> RewardSolvent w2.
  Proof.
    intros (_ & _ & Fo & _) H. unfold RewardSolvent, w2 in *. cbn [w_reward w_env set_env set_reg].
    destruct (w_reward w) as [r|]; [|contradiction]. rewrite Fo by discriminate. exact H.
  Qed.

  Lemma mid_HubReady s : HubReady w s -> HubReady w2 s.
  Proof. intros H. exact H. Qed.

  (** all of them *)
  Lemma mid_hyps :
    w_reg w = Some g -> RegOk g' ->
    due_frame (w_env w) e2 -> delegated e2 A_hub = delegated (w_env w) A_hub ->
    Wired w -> RewardWired w -> RewardsToDispatcher w -> IndexWiring w -> StubsOk (w_env w) ->
    IndexE1 w -> RemoveE1 w -> RewardSolvent w -> HubReady w A_reg ->
    Wired w2 /\ RewardWired w2 /\ RewardsToDispatcher w2 /\ IndexWiring w2 /\ StubsOk (w_env w2) /\
    IndexE1 w2 /\ RemoveE1 w2 /\ RewardSolvent w2 /\ HubReady w2 A_reg.
  Proof.
    intros Hg Hok Hf Hd H1 H2 H3 H4 H5 H6 H7 H8 H9.
    split; [apply mid_Wired; assumption|]. split; [exact H2|].
    split; [apply mid_RewardsToDispatcher; [exact (proj1 Hf) | exact H3]|].
    split; [apply mid_IndexWiring; assumption|].
    split; [apply mid_StubsOk; [exact (proj1 Hf) | exact H5]|].
    split; [apply mid_IndexE1; assumption|]. split; [apply mid_RemoveE1; assumption|].
    split; [apply mid_RewardSolvent; assumption | exact H9].
  Qed.
End Mid.

(** ** 6. the whole transaction *)
Theorem remove_tx_effect w owner v h r dp g tb ts amt :
  Wired w -> RewardWired w -> RewardsToDispatcher w -> IndexWiring w -> StubsOk (w_env w) ->
  IndexE1 w -> RemoveE1 w -> RewardSolvent w -> HubReady w A_reg -> DelWf (w_env w) ->
  w_hub w = Some h -> w_reward w = Some r -> w_disp w = Some dp -> w_reg w = Some g ->
  w_bsei w = Some tb -> w_stsei w = Some ts ->
  owner = rg_owner g -> remove_val v (rg_vals g) <> [] ->
  delegation (w_env w) A_hub v = Some amt -> can_redelegate (w_env w) v = true ->
  let e := w_env w in
  let g' := set_rg_vals g (remove_val v (rg_vals g)) in
  let bd := dp_bd dp in
  let keeper := dp_keeper dp in
  exists w2,
    (* the registry update, RedelegateProxy and the redelegations always execute *)
    remove_mid w owner v = Some w2 /\
    let e2 := w_env w2 in
    w_reg w2 = Some g' /\ w_hub w2 = Some h /\ w_reward w2 = Some r /\ w_disp w2 = Some dp /\
    w_bsei w2 = Some tb /\ w_stsei w2 = Some ts /\
    DelWf e2 /\ dv e2 A_hub v = 0 /\ (0 < amt -> delegation e2 A_hub v = None) /\
    delegated e2 A_hub = delegated e A_hub /\
    (forall a d, a <> A_disp -> bal e2 a d = bal e a d) /\
    (forall d, disp_due e2 d = disp_due e d) /\
    (* ... into a world that satisfies the hypotheses of C19 again *)
    (Wired w2 /\ RewardWired w2 /\ RewardsToDispatcher w2 /\ IndexWiring w2 /\ StubsOk e2 /\
     IndexE1 w2 /\ RemoveE1 w2 /\ RewardSolvent w2 /\ HubReady w2 A_reg) /\
    (* so the appended UpdateGlobalIndex reaches its pre-dispatch world, and outside finding F2 the
       whole RemoveValidator transaction succeeds *)
    exists w1,
      pre_dispatch w2 A_reg = Some w1 /\
      let X_b := bal (w_env w1) A_disp bd in
      let X_st := bal (w_env w1) A_disp usei in
      let kb := X_b * dp_rate dp / D in
      let rb := X_st - X_st * dp_rate dp / D in
      (X_b <= LIM -> X_st <= LIM -> ~ Known_F2 (dp_rate dp) X_b X_st ->
       exists w' tr redels tr2,
         run tx_fuel w [(owner, remove_msg v)] [] = Some (w', tr) /\
         (* executed messages: removal, proxy, the redelegations, then exactly the root transaction of C19 *)
         tr = (owner, remove_msg v) :: (A_reg, MWasm A_hub (WHub (HRedelProxy v redels)) [])
                :: redel_stack v redels ++ tr2 /\
         run tx_fuel w2 [(A_reg, root_msg)] [] = Some (w', tr2) /\
         Forall not_hub_redel tr2 /\
         redel_total redels = amt /\
         (forall dst c, In (dst, c) redels -> In dst (rg_vals g') /\ fst c = usei /\ 0 < snd c) /\
         let e' := w_env w' in
         (* registry *)
         w_reg w' = Some g' /\ ~ In v (rg_vals g') /\ rg_vals g' <> [] /\
         (* stake *)
         dv e' A_hub v = 0 /\ (0 < amt -> delegation e' A_hub v = None) /\
         delegated e' A_hub = delegated e A_hub + rb /\
         (forall y, y <> A_hub -> delegated e' y = delegated e y) /\
         (* other contracts *)
         w_bsei w' = Some tb /\ w_stsei w' = Some ts /\ w_disp w' = Some dp /\
         w_reward w' = Some (index_updated r (bal e A_reward bd + (X_b - kb))) /\
         (* hub *)
         (exists h', w_hub w' = Some h' /\
            h_cfg h' = h_cfg h /\ h_params h' = h_params h /\ h_batch h' = h_batch h /\
            h_wait h' = h_wait h /\ h_hist h' = h_hist h /\ h_oldwait h' = h_oldwait h /\
            h_newowner h' = h_newowner h /\
            (booked h <= delegated e A_hub ->
               booked h' = booked h + rb /\ booked h' <= delegated e' A_hub /\
               delegated e' A_hub - booked h' = delegated e A_hub - booked h)) /\
         (* bank *)
         bal e' A_disp bd = 0 /\ bal e' A_disp usei = 0 /\
         (forall d, bal e' A_hub d = bal e A_hub d) /\
         bal e' A_reward bd = bal e A_reward bd + (X_b - kb) /\
         (forall a d, a <> A_disp -> a <> A_swap -> a <> keeper -> a <> A_reward -> bal e' a d = bal e a d) /\
         (* distribution, unbonding queue, clock *)
         (forall u d, In u (del_vals e2 A_hub) -> In d DENOMS -> pending e' A_hub u d = 0) /\
         e_unb e' = e_unb e /\ e_now e' = e_now e).
Proof.
  intros HW HRW HRD HIW HST HE1 HR1 HSol HRdy Hwf Hwh Hwr Hwd Hwg Hwb Hws Hown Hne Hdv Hcan e g' bd keeper.
  subst bd keeper. fold e in Hwf, Hdv, Hcan.
  (* what is needed of the hypotheses *)
  destruct (Wired_inv w HW) as (h_ & r_ & d_ & g_ & tb_ & ts_ & A1 & A2 & A3 & A4 & A5 & A6 & _ & Hcr & _ & _ &
                                Hu & _ & _ & _ & _ & Hgh & _ & _).
  rewrite Hwh in A1. rewrite Hwg in A4. inversion A1; inversion A4. subst h_ g_. clear A1 A2 A3 A4 A5 A6.
  assert (Hok : RegOk g).
  { unfold IndexWiring in HIW. rewrite Hwd, Hwg in HIW. tauto. }
  assert (Hdel : delegated e A_hub <= LIM).
  { unfold IndexE1 in HE1. rewrite Hwh, Hwr, Hwb, Hws in HE1. cbn zeta in HE1. tauto. }
  assert (Hpz : paused h = false).
  { unfold HubReady in HRdy. rewrite Hwh in HRdy. tauto. }
  pose proof (RegOk_remove g v Hok Hne) as Hok'. fold g' in Hok'.
  pose proof (DelWf_entry e A_hub v amt Hwf Hdv) as Hv.
  assert (Hamt : amt <= LIM).
  { pose proof (dv_le_delegated e A_hub v Hv) as X. unfold dv in X. rewrite Hdv in X. lia. }
  (* 1. the registry handler *)
  destruct (reg_remove_ok w g v amt Hgh Hok' Hdel Hamt Hdv Hcan) as (dl & Hlen & Hsum & Hreg). cbn zeta in Hlen, Hreg.
  fold g' in Hlen, Hreg. set (vals := sort_asc (reg_query_validators w g')) in *.
  set (redels := redels_of vals dl) in *.
  assert (Htot : redel_total redels = amt) by (unfold redels; rewrite redels_of_sum; assumption).
  assert (Htg : forall dst c, In (dst, c) redels -> In dst (rg_vals g') /\ fst c = usei /\ 0 < snd c).
  { intros dst c Hi. apply redels_of_In in Hi. destruct Hi as (A & B & C). splits; auto.
    apply sort_asc_query_vals in A. exact A. }
  assert (Hnin : ~ In v (rg_vals g')).
  { intros Hi. apply remove_val_In in Hi. destruct Hi as [_ Hi]. congruence. }
  assert (Hk : (length redels <= 12)%nat).
  { eapply Nat.le_trans; [apply redels_of_length|]. unfold vals.
    pose proof (vals_facts w g' Hok' Hgh Hdel) as F. cbn zeta in F. tauto. }
  rewrite <- Hown in Hreg.
  pose proof (remove_step w owner g v g' _ Hwg Hreg) as Hs1. unfold removal_msgs in Hs1. cbn [map] in Hs1.
  (* 2. the hub forwards *)
  assert (Hs2 : step_msg (set_reg w g') A_reg (MWasm A_hub (WHub (HRedelProxy v redels)) []) =
                Some (set_reg w g', redel_stack v redels)).
  { apply (proxy_step (set_reg w g') h v redels); [exact Hwh | exact Hpz | exact Hcr]. }
  (* 3. the redelegations *)
  assert (Hsrc_ne : forall p, In p redels -> fst p <> v).
  { intros [dst c] Hp. cbn [fst]. intros ->. destruct (Htg _ _ Hp) as (A & _). contradiction. }
  destruct (redel_all_ok A_hub v redels e Hwf Hcan) as (e2 & Hall).
  { intros [dst c] Hp. destruct (Htg _ _ Hp) as (A & B & C). cbn [fst snd]. splits; auto.
    - destruct Hok' as (_ & _ & Hval). apply Hval. exact A.
    - apply (Hsrc_ne (dst, c) Hp). }
  { unfold dv. fold e in Hdv. rewrite Hdv. lia. }
  pose proof (redel_all_spec A_hub v redels e e2 Hall Hwf Hsrc_ne) as
    (Hwf2 & Hsrc & Hdst & Hdg & Hothd & Hnone & _ & _ & _ & Hunb2 & _ & _).
  pose proof (redel_all_frame v redels e e2 Hall HRD Hv) as Hfr.
  set (w2 := set_env (set_reg w g') e2).
  assert (Hmid : remove_mid w owner v = Some w2).
  { unfold remove_mid. rewrite Hs1. cbn [bind fst snd removelast].
    replace tx_fuel with (S (length redels + (399 - length redels)))%nat by (unfold tx_fuel; lia).
    rewrite run_cons, Hs2. cbn [bind fst snd].
    rewrite (run_redels_fwd v redels (set_reg w g') e2 _ [] _ Hall). rewrite run_nil. reflexivity. }
  (* 4. the intermediate world satisfies the hypotheses of C19 *)
  pose proof (mid_hyps w g (remove_val v (rg_vals g)) e2 Hwg Hok' Hfr Hdg HW HRW HRD HIW HST HE1 HR1 HSol HRdy) as Hmh.
  fold g' w2 in Hmh.
  destruct Hmh as (HW2 & HRW2 & HRD2 & HIW2 & HST2 & HE12 & HR12 & HSol2 & HRdy2).
  destruct (update_global_index_effect w2 A_reg h r dp g' tb ts HW2 HRW2 HRD2 HIW2 HST2 HE12 HSol2 HRdy2
              Hwh Hwr Hwd eq_refl Hwb Hws) as (w1 & Hpre & _ & _ & _ & _ & _ & _ & _ & _ & _ & _ & _ & Hmain).
  cbn zeta in Hmain. change (w_env w2) with e2 in Hmain.
  destruct Hfr as (Hcfg & Hdue & Hbo & Hbge).
  assert (Hdv2 : dv e2 A_hub v = 0).
  { assert (X : dv e A_hub v = amt) by (unfold dv; fold e in Hdv; rewrite Hdv; reflexivity). lia. }
  assert (Hnone2 : 0 < amt -> delegation e2 A_hub v = None).
  { intros Hpos. apply Hnone.
    - intros E. rewrite E in Htot. unfold redel_total in Htot. cbn in Htot. lia.
    - unfold dv. fold e in Hdv. rewrite Hdv. exact Htot. }
  exists w2. split; [exact Hmid|]. cbn zeta. change (w_env w2) with e2.
  split; [reflexivity|]. split; [exact Hwh|]. split; [exact Hwr|]. split; [exact Hwd|].
  split; [exact Hwb|]. split; [exact Hws|]. split; [exact Hwf2|]. split; [exact Hdv2|].
  split; [exact Hnone2|]. split; [exact Hdg|]. split; [exact Hbo|]. split; [exact Hdue|].
  split; [splits; assumption|].
  exists w1. split; [exact Hpre|]. intros HXb HXst HF2.
  destruct (Hmain HXb HXst HF2) as (w' & tr2 & Hrun2 & P1 & P2 & P3 & P4 & P5 & Phub & B1 & B2 & B3 & B4 & _ & _ &
                                    B7 & D1 & D2 & D3 & U1 & U2).
  (* the index update is a small tree *)
  destruct (ugi_exec w2 A_reg h r dp g' tb ts HW2 HRW2 HRD2 HIW2 HST2 HE12 HSol2 HRdy2 Hwh Hwr Hwd eq_refl Hwb Hws)
    as (w'' & n & Hex & Hn).
  { intros w1' Hp. rewrite Hpre in Hp. inversion Hp; subst w1'. auto. }
  destruct (Exec_run_any _ _ _ _ Hex (398 - length redels)%nat [] ltac:(lia)) as [tr2' Hrun2'].
  assert (Hfl : (398 - length redels <= tx_fuel)%nat) by (unfold tx_fuel; lia).
  pose proof (run_fuel_le _ _ _ _ _ _ Hfl Hrun2') as Hrun2''.
  rewrite Hrun2 in Hrun2''. inversion Hrun2''; subst w'' tr2'. clear Hrun2''.
  (* the whole transaction *)
  set (tr := (owner, remove_msg v) :: (A_reg, MWasm A_hub (WHub (HRedelProxy v redels)) [])
               :: redel_stack v redels ++ tr2).
  assert (Htotal : run tx_fuel w [(owner, remove_msg v)] [] = Some (w', tr)).
  { replace tx_fuel with (S (S (length redels + (398 - length redels))))%nat by (unfold tx_fuel; lia).
    rewrite run_cons, Hs1. cbn [bind fst snd app]. rewrite run_cons, Hs2. cbn [bind fst snd].
    rewrite (run_redels_fwd v redels (set_reg w g') e2 _ _ _ Hall). fold w2.
    rewrite (run_from_nil _ _ _ _ _ _ Hrun2'). reflexivity. }
  pose proof (remove_tx_end w owner v [] w' tr g amt Hwf Hwg Hgh Hdv Hcan Htotal) as
    (g'' & _ & Hreg'' & _ & _ & _ & Hdv' & Hnone').
  exists w', tr, redels, tr2.
  split; [exact Htotal|]. split; [reflexivity|]. split; [exact Hrun2|].
  split.
  { apply (removed_trace_no_redel g' v w2 [(A_reg, root_msg)] tx_fuel w' tr2 Hnin Hdv2); [|exact Hrun2].
    split; [reflexivity|]. split; [exact Hwf2|]. split; [reflexivity|].
    constructor; [|constructor]. split; [exact I|]. cbn [fst snd]. intros _. exact I. }
  split; [exact Htot|]. split; [exact Htg|].
  cbn zeta.
  split; [exact P4|]. split; [exact Hnin|]. split; [destruct Hok' as (X & _); exact X|].
  split; [exact Hdv'|]. split; [exact Hnone'|].
  split; [rewrite D1, Hdg; reflexivity|].
  split.
  { intros y Hy. rewrite (D2 y Hy). unfold delegated. rewrite (Hothd y Hy). reflexivity. }
  split; [exact P1|]. split; [exact P2|]. split; [exact P3|].
  split; [rewrite P5, (Hbo A_reward) by discriminate; reflexivity|].
  split.
  { destruct Phub as (h' & Hh' & G1 & G2 & G3 & G4 & G5 & G6 & G7 & _).
    exists h'. split; [exact Hh'|]. do 7 (split; [assumption|]).
    intros HB. destruct (remove_tx_gap w owner v [] w' tr h h' Hwf Hwh Hu HB Htotal Hh') as (Q1 & Q2).
    rewrite D1, Hdg in Q1, Q2. fold e in Q2. rewrite D1, Hdg. split; [|split; [exact Q1 | exact Q2]].
    fold e in HB. lia. }
  split; [exact B1|]. split; [exact B2|].
  split; [intros d; rewrite B3; apply Hbo; discriminate|].
  split; [rewrite B4, (Hbo A_reward) by discriminate; reflexivity|].
  split; [intros a d Ha1 Ha2 Ha3 Ha4; rewrite B7 by assumption; apply Hbo; exact Ha1|].
  split; [exact D3|].
  destruct Hcfg as (C1 & _ & C3 & _).
  split; [rewrite U1; exact C3 | rewrite U2; exact C1].
Qed.

(** summary form, on the operation [OTx owner A_reg (WReg (GRemove v)) []] of a history, with the
    intermediate and pre-dispatch worlds given *)
Theorem remove_tx_succeeds w owner v h r dp g tb ts amt w2 w1 :
  Wired w -> RewardWired w -> RewardsToDispatcher w -> IndexWiring w -> StubsOk (w_env w) ->
  IndexE1 w -> RemoveE1 w -> RewardSolvent w -> HubReady w A_reg -> DelWf (w_env w) ->
  w_hub w = Some h -> w_reward w = Some r -> w_disp w = Some dp -> w_reg w = Some g ->
  w_bsei w = Some tb -> w_stsei w = Some ts ->
  owner = rg_owner g -> remove_val v (rg_vals g) <> [] ->
  delegation (w_env w) A_hub v = Some amt -> can_redelegate (w_env w) v = true ->
  remove_mid w owner v = Some w2 -> pre_dispatch w2 A_reg = Some w1 ->
  let e := w_env w in
  let X_b := bal (w_env w1) A_disp (dp_bd dp) in
  let X_st := bal (w_env w1) A_disp usei in
  let rb := X_st - X_st * dp_rate dp / D in
  X_b <= LIM -> X_st <= LIM -> ~ Known_F2 (dp_rate dp) X_b X_st ->
  exists w' tr,
    step w (OTx owner A_reg (WReg (GRemove v)) []) = (w', (true, tr)) /\
    let e' := w_env w' in
    (exists gr, w_reg w' = Some gr /\ rg_vals gr = remove_val v (rg_vals g) /\ ~ In v (rg_vals gr) /\
                rg_vals gr <> []) /\
    dv e' A_hub v = 0 /\ (0 < amt -> delegation e' A_hub v = None) /\
    delegated e' A_hub = delegated e A_hub + rb /\
    (forall s src dst c, In (s, MRedelegate src dst c) tr -> s = A_hub -> src = v /\ dst <> v) /\
    w_bsei w' = Some tb /\ w_stsei w' = Some ts /\
    (exists h', w_hub w' = Some h' /\ h_batch h' = h_batch h /\ h_wait h' = h_wait h /\ h_hist h' = h_hist h /\
       (booked h <= delegated e A_hub ->
          booked h' = booked h + rb /\ delegated e' A_hub - booked h' = delegated e A_hub - booked h)) /\
    bal e' A_disp (dp_bd dp) = 0 /\ bal e' A_disp usei = 0 /\
    (forall d, bal e' A_hub d = bal e A_hub d).
Proof.
  intros HW HRW HRD HIW HST HE1 HR1 HSol HRdy Hwf Hwh Hwr Hwd Hwg Hwb Hws Hown Hne Hdv Hcan Hmid Hpre
         e X_b X_st rb HXb HXst HF2.
  destruct (remove_tx_effect w owner v h r dp g tb ts amt HW HRW HRD HIW HST HE1 HR1 HSol HRdy Hwf Hwh Hwr Hwd Hwg
              Hwb Hws Hown Hne Hdv Hcan) as (w2' & Hmid' & Hrest).
  rewrite Hmid in Hmid'. inversion Hmid'; subst w2'. clear Hmid'. cbn zeta in Hrest.
  destruct Hrest as (_ & _ & _ & _ & _ & _ & _ & _ & _ & _ & _ & _ & _ & w1' & Hpre' & Hmain).
  rewrite Hpre in Hpre'. inversion Hpre'; subst w1'. clear Hpre'.
  destruct (Hmain HXb HXst HF2) as (w' & tr & redels & tr2 & Hrun & Htr & Hrun2 & Hnr & Htot & Htg & R1 & R2 & R3 & S1 &
                                    S2 & S3 & _ & T1 & T2 & _ & _ & Phub & B1 & B2 & B3 & _).
  exists w', tr. split.
  { cbn [step]. unfold remove_msg in Hrun. rewrite Hrun. reflexivity. }
  cbn zeta. split.
  { eexists. split; [exact R1|]. split; [reflexivity|]. split; [exact R2 | exact R3]. }
  split; [exact S1|]. split; [exact S2|]. split; [exact S3|].
  split.
  { (* hub redelegations: those forwarded by the proxy, none in the index update *)
    intros s src dst c Hi Hs. subst s. rewrite Htr in Hi.
    destruct Hi as [Hi|[Hi|Hi]]; [discriminate Hi | discriminate Hi |].
    apply in_app_or in Hi. destruct Hi as [Hi|Hi].
    - unfold redel_stack in Hi. apply in_map_iff in Hi. destruct Hi as ([d0 c0] & E & Hp).
      inversion E; subst. split; [reflexivity|]. intros ->. destruct (Htg _ _ Hp) as (A & _). contradiction.
    - exfalso. rewrite Forall_forall in Hnr. exact (Hnr _ Hi eq_refl _ _ _ eq_refl). }
  split; [exact T1|]. split; [exact T2|].
  split.
  { destruct Phub as (h' & Hh' & _ & _ & G3 & G4 & G5 & _ & _ & GB).
    exists h'. split; [exact Hh'|]. split; [exact G3|]. split; [exact G4|]. split; [exact G5|].
    intros HB. destruct (GB HB) as (Q1 & _ & Q3). split; assumption. }
  split; [exact B1|]. split; [exact B2 | exact B3].
Qed.

(** the same at any point of any operation history: the delegation table of a reachable world is
    well formed *)
Theorem remove_tx_effect_reachable ut ops owner v h r dp g tb ts amt :
  let w := run_ops ops (empty_world ut) in
  Wired w -> RewardWired w -> RewardsToDispatcher w -> IndexWiring w -> StubsOk (w_env w) ->
  IndexE1 w -> RemoveE1 w -> RewardSolvent w -> HubReady w A_reg ->
  w_hub w = Some h -> w_reward w = Some r -> w_disp w = Some dp -> w_reg w = Some g ->
  w_bsei w = Some tb -> w_stsei w = Some ts ->
  owner = rg_owner g -> remove_val v (rg_vals g) <> [] ->
  delegation (w_env w) A_hub v = Some amt -> can_redelegate (w_env w) v = true ->
  exists w2 w1,
    remove_mid w owner v = Some w2 /\ pre_dispatch w2 A_reg = Some w1 /\
    let X_b := bal (w_env w1) A_disp (dp_bd dp) in
    let X_st := bal (w_env w1) A_disp usei in
    let rb := X_st - X_st * dp_rate dp / D in
    (X_b <= LIM -> X_st <= LIM -> ~ Known_F2 (dp_rate dp) X_b X_st ->
     exists w' tr,
       step w (OTx owner A_reg (WReg (GRemove v)) []) = (w', (true, tr)) /\
       (exists gr, w_reg w' = Some gr /\ rg_vals gr = remove_val v (rg_vals g) /\ ~ In v (rg_vals gr) /\
                   rg_vals gr <> []) /\
       dv (w_env w') A_hub v = 0 /\
       delegated (w_env w') A_hub = delegated (w_env w) A_hub + rb /\
       (booked h <= delegated (w_env w) A_hub ->
          exists h', w_hub w' = Some h' /\ booked h' = booked h + rb /\
                     delegated (w_env w') A_hub - booked h' = delegated (w_env w) A_hub - booked h)).
Proof.
  intros w HW HRW HRD HIW HST HE1 HR1 HSol HRdy Hwh Hwr Hwd Hwg Hwb Hws Hown Hne Hdv Hcan.
  pose proof (proj1 (EntWf_reachable ut ops)) as Hwf. fold w in Hwf.
  destruct (remove_tx_effect w owner v h r dp g tb ts amt HW HRW HRD HIW HST HE1 HR1 HSol HRdy Hwf Hwh Hwr Hwd Hwg
              Hwb Hws Hown Hne Hdv Hcan) as (w2 & Hmid & Hrest).
  cbn zeta in Hrest.
  destruct Hrest as (_ & _ & _ & _ & _ & _ & _ & _ & _ & _ & _ & _ & _ & w1 & Hpre & _).
  exists w2, w1. split; [exact Hmid|]. split; [exact Hpre|]. cbn zeta. intros HXb HXst HF2.
  destruct (remove_tx_succeeds w owner v h r dp g tb ts amt w2 w1 HW HRW HRD HIW HST HE1 HR1 HSol HRdy Hwf Hwh Hwr Hwd
              Hwg Hwb Hws Hown Hne Hdv Hcan Hmid Hpre HXb HXst HF2)
    as (w' & tr & Hstep & Hg & Hdv0 & _ & Hdel & _ & _ & _ & (h' & Hh' & _ & _ & _ & HB) & _).
  exists w', tr. split; [exact Hstep|]. split; [exact Hg|]. split; [exact Hdv0|]. split; [exact Hdel|].
  intros HBk. exists h'. split; [exact Hh'|]. exact (HB HBk).
Qed.

(** ** 7. concrete worlds: non-vacuity, and the interaction with finding F2

    Worlds of [IndexP] ([index_world]: six contracts wired through UpdateConfig, registry [0; 1; 2]
    owned by 10, a bSei bond of 1 000 000 and a stSei bond of 2 000 000, 5 % keeper):
    - [W_ok]   : 50 000 usei pending at validator 0 and 7 000 uusd at validator 1;
    - [W_dust] : 10 usei pending at validator 1.
    The owner removes validator 1. *)
Definition rm_owner : addr := 10.
Definition rm_op : op := OTx rm_owner A_reg (WReg (GRemove 1)) [].
Definition W_dust : world := index_world 50000000000000000 [OAccrue 1 usei 10].

(** every hypothesis of [remove_tx_effect] *)
Definition RemoveHyps (w : world) (owner : addr) (v : val) h r dp g tb ts amt : Prop :=
  Wired w /\ RewardWired w /\ RewardsToDispatcher w /\ IndexWiring w /\ StubsOk (w_env w) /\
  IndexE1 w /\ RemoveE1 w /\ RewardSolvent w /\ HubReady w A_reg /\ DelWf (w_env w) /\
  w_hub w = Some h /\ w_reward w = Some r /\ w_disp w = Some dp /\ w_reg w = Some g /\
  w_bsei w = Some tb /\ w_stsei w = Some ts /\
  owner = rg_owner g /\ remove_val v (rg_vals g) <> [] /\
  delegation (w_env w) A_hub v = Some amt /\ can_redelegate (w_env w) v = true.

Definition W_dust_lit : world := Eval vm_compute in W_dust.
Lemma W_dust_eq : W_dust = W_dust_lit.
Proof. vm_compute. reflexivity. Qed.

Lemma PendClean_b e :
  forallb (fun kv : (addr * (val * denom)) * N =>
             (snd kv =? 0) || negb (fst (fst kv) =? A_hub) ||
             is_some (delegation e A_hub (fst (snd (fst kv))))) (e_pend e) = true ->
  PendClean e.
Proof.
  intros H v d Hn. unfold pending, getN.
  induction (e_pend e) as [|[k y] m IH]; cbn [get]; [reflexivity|].
  cbn [forallb] in H. apply andb_true_iff in H. destruct H as [H1 H2].
  destruct (eqbAVD (A_hub, (v, d)) k) eqn:E; [|apply IH; exact H2].
  apply eqbAVD_eq in E. subst k. cbn [fst snd] in H1. rewrite Hn, N.eqb_refl in H1. cbn in H1. lia.
Qed.

(** the hypotheses, on a world given as a literal (the delegation table's well-formedness comes from
    reachability) *)
Ltac remove_hyps_tac HD :=
  split; [unfold Wired; cbn; repeat split|];
  split; [unfold RewardWired; cbn; split; [reflexivity|]; split; [discriminate|];
          let H := fresh in intros [H|[H|[]]]; discriminate|];
  split; [vm_compute; reflexivity|];
  split; [unfold IndexWiring, RegOk; cbn [w_disp w_reg dp_swap dp_oracle dp_rate dp_keeper rg_vals];
          split; [reflexivity|]; split; [reflexivity|]; split; [apply N.leb_le; vm_compute; reflexivity|];
          split; [discriminate|]; split; [discriminate|]; split; [discriminate|];
          split; [discriminate|]; split;
          [ repeat (constructor; [cbn; let H := fresh in intros H; repeat (destruct H as [H|H]; [discriminate|]); exact H|]);
            constructor
          | let u := fresh in let Hu := fresh in
            intros u Hu; cbn in Hu; repeat (destruct Hu as [<-|Hu]; [reflexivity|]); contradiction ]|];
  split; [unfold StubsOk; cbn [w_env e_swapmode e_oraclemode e_price];
          split; [reflexivity|]; split; [reflexivity|];
          split; [apply N.ltb_lt | apply N.leb_le]; vm_compute; reflexivity|];
  split; [unfold IndexE1; cbn [w_hub w_reward w_bsei w_stsei w_env];
          split; [apply N.leb_le; vm_compute; reflexivity|];
          split; [apply N.leb_le; vm_compute; reflexivity|];
          split; [apply N.leb_le; vm_compute; reflexivity|];
          split; [apply N.leb_le; vm_compute; reflexivity|];
          split; [|split; apply N.leb_le; vm_compute; reflexivity];
          let d := fresh in intros d; eapply N.le_trans;
          [ apply N.add_le_mono;
            [ apply (bal_bound_b _ 10000000); vm_compute; reflexivity
            | apply (pend_total_bound_b _ 50000); vm_compute; reflexivity ]
          | apply N.leb_le; vm_compute; reflexivity ]|];
  split; [unfold RemoveE1, disp_due; cbn [w_env];
          let d := fresh in intros d; eapply N.le_trans;
          [ apply N.add_le_mono;
            [ apply (bal_bound_b _ 10000000); vm_compute; reflexivity
            | apply (pend_total_bound_b _ 50000); vm_compute; reflexivity ]
          | apply N.leb_le; vm_compute; reflexivity ]|];
  split; [unfold RewardSolvent; cbn [w_reward]; apply N.leb_le; vm_compute; reflexivity|];
  split; [unfold HubReady; cbn [w_hub]; split; [reflexivity|];
          split; [apply N.ltb_lt; vm_compute; reflexivity | right; reflexivity]|];
  split; [exact HD|];
  do 6 (split; [reflexivity|]);
  split; [reflexivity|]; split; [cbn; discriminate|]; split; vm_compute; reflexivity.

Lemma W_ok_delwf : DelWf (w_env W_ok).
Proof. exact (proj1 (EntWf_reachable 100 _)). Qed.

Lemma W_dust_delwf : DelWf (w_env W_dust).
Proof. exact (proj1 (EntWf_reachable 100 _)). Qed.

Lemma W_ok_remove_hyps :
  exists h r dp g tb ts, RemoveHyps W_ok rm_owner 1 h r dp g tb ts 1000000.
Proof.
  pose proof W_ok_delwf as HD. rewrite W_ok_eq in HD. rewrite W_ok_eq. unfold W_ok_lit in *.
  do 6 eexists. unfold RemoveHyps. remove_hyps_tac HD.
Qed.

Lemma W_dust_remove_hyps :
  exists h r dp g tb ts, RemoveHyps W_dust rm_owner 1 h r dp g tb ts 1000000.
Proof.
  pose proof W_dust_delwf as HD. rewrite W_dust_eq in HD. rewrite W_dust_eq. unfold W_dust_lit in *.
  do 6 eexists. unfold RemoveHyps. remove_hyps_tac HD.
Qed.

(** non-vacuity of [remove_tx_effect]: in [W_ok] every hypothesis holds, rewards are pending both on the
    removed validator and on a remaining one, the books are within the delegations, no reward is
    pending without entry, and the pre-dispatch balances of the appended index update are positive,
    within E1 and outside finding F2 *)
Lemma remove_tx_nonvacuous :
  exists w owner v h r dp g tb ts amt w2 w1,
    RemoveHyps w owner v h r dp g tb ts amt /\
    In v (rg_vals g) /\ 0 < amt /\ booked h <= delegated (w_env w) A_hub /\ PendClean (w_env w) /\
    0 < pending (w_env w) A_hub v uusd /\ 0 < pending (w_env w) A_hub 0 usei /\
    remove_mid w owner v = Some w2 /\ pre_dispatch w2 A_reg = Some w1 /\
    0 < bal (w_env w1) A_disp (dp_bd dp) <= LIM /\ 0 < bal (w_env w1) A_disp usei <= LIM /\
    ~ Known_F2 (dp_rate dp) (bal (w_env w1) A_disp (dp_bd dp)) (bal (w_env w1) A_disp usei).
Proof.
  destruct W_ok_remove_hyps as (h & r & dp & g & tb & ts & HH).
  exists W_ok, rm_owner, 1, h, r, dp, g, tb, ts, 1000000.
  assert (E : w_hub W_ok = Some h /\ w_disp W_ok = Some dp /\ w_reg W_ok = Some g) by (unfold RemoveHyps in HH; tauto).
  destruct E as (Eh & Ed & Eg). vm_compute in Eh, Ed, Eg. inversion Eh; inversion Ed; inversion Eg. subst h dp g.
  do 2 eexists. split; [exact HH|].
  split; [cbn; auto|]. split; [lia|].
  split; [apply N.leb_le; vm_compute; reflexivity|].
  split; [apply PendClean_b; vm_compute; reflexivity|].
  split; [apply N.ltb_lt; vm_compute; reflexivity|]. split; [apply N.ltb_lt; vm_compute; reflexivity|].
  split; [vm_compute; reflexivity|]. split; [vm_compute; reflexivity|].
  split; [split; [apply N.ltb_lt | apply N.leb_le]; vm_compute; reflexivity|].
  split; [split; [apply N.ltb_lt | apply N.leb_le]; vm_compute; reflexivity|].
  intros [[_ [H|H]]|[_ H]]; vm_compute in H; discriminate.
Qed.

(** the transaction succeeds there, with the end state predicted by [remove_tx_effect]:
    validator 1 is gone from the registry and holds no stake, 36 100 usei were re-bonded (38 000 at
    the dispatcher minus the 5 % keeper fee) on both sides of the books, dispatcher empty, keeper
    950 uusd + 1 900 usei, reward contract 18 050 uusd, hub's liquid balance unchanged *)
Lemma remove_tx_example_state :
  fst (snd (step W_ok rm_op)) = true /\
  let w' := fst (step W_ok rm_op) in
  (match w_reg w' with Some g => rg_vals g | None => [] end) = [0; 2] /\
  all_delegations (w_env W_ok) A_hub = [(0, 1000000); (1, 1000000); (2, 1000000)] /\
  all_delegations (w_env w') A_hub = [(0, 1518050); (2, 1518050)] /\
  delegated (w_env w') A_hub = delegated (w_env W_ok) A_hub + 36100 /\
  (match w_hub w' with Some h => (hs_bb (h_state h), hs_bst (h_state h)) | None => (0, 0) end) = (1000000, 2036100) /\
  bal (w_env w') A_disp uusd = 0 /\ bal (w_env w') A_disp usei = 0 /\
  bal (w_env w') 12 uusd = 950 /\ bal (w_env w') 12 usei = 1900 /\
  bal (w_env w') A_reward uusd = 18050 /\
  bal (w_env w') A_hub usei = bal (w_env W_ok) A_hub usei.
Proof. vm_compute. repeat split. Qed.

(** *** finding F2 inside a removal (KNOWN FINDING, same root cause as C17 / C19): in [W_dust] every
    hypothesis of [remove_tx_effect] holds; the registry update, the proxy and the redelegations
    execute (validator 1's stake is moved, its 10 usei of rewards are paid to the dispatcher); the
    pre-dispatch balances of the appended UpdateGlobalIndex (4 uusd, 6 usei) are in the class
    [Known_F2] (5 % of them floors to zero), the dispatcher emits a zero-coin bank send, and the WHOLE
    RemoveValidator transaction fails: the validator stays registered with its stake.  The same
    removal succeeds without the dust (no rewards at all), and with the larger rewards of [W_ok]. *)
Lemma remove_tx_F2_witness :
  (exists h r dp g tb ts, RemoveHyps W_dust rm_owner 1 h r dp g tb ts 1000000) /\
  (exists w2 w1,
     remove_mid W_dust rm_owner 1 = Some w2 /\
     all_delegations (w_env w2) A_hub = [(0, 1500000); (2, 1500000)] /\
     pre_dispatch w2 A_reg = Some w1 /\
     bal (w_env w1) A_disp uusd = 4 /\ bal (w_env w1) A_disp usei = 6 /\
     Known_F2 50000000000000000 (bal (w_env w1) A_disp uusd) (bal (w_env w1) A_disp usei)) /\
  fst (snd (step W_dust rm_op)) = false /\ fst (step W_dust rm_op) = W_dust /\
  fst (snd (step (index_world 50000000000000000 []) rm_op)) = true /\
  fst (snd (step W_ok rm_op)) = true.
Proof.
  split; [exact W_dust_remove_hyps|]. split.
  - do 2 eexists. split; [vm_compute; reflexivity|]. split; [vm_compute; reflexivity|].
    split; [vm_compute; reflexivity|]. split; [vm_compute; reflexivity|]. split; [vm_compute; reflexivity|].
    right. split; [vm_compute; reflexivity | vm_compute; reflexivity].
  - split; [vm_compute; reflexivity|]. split; [vm_compute; reflexivity|]. split; vm_compute; reflexivity.
Qed.

(** ** the vocabulary of Props/C13w.v, unfolded *)
Lemma def_remove_msg : forall v, remove_msg v = MWasm A_reg (WReg (GRemove v)) [].
Proof. reflexivity. Qed.

Lemma def_remove_mid : forall w owner v, remove_mid w owner v =
  (do r <- step_msg w owner (remove_msg v);
   do r2 <- run tx_fuel (fst r) (removelast (snd r)) [];
   Some (fst r2)).
Proof. reflexivity. Qed.

Lemma def_disp_due : forall e d, disp_due e d = bal e A_disp d + pend_total e A_hub VALS d.
Proof. reflexivity. Qed.

Lemma def_RemoveE1 : forall w, RemoveE1 w <-> (forall d, disp_due (w_env w) d <= LIM).
Proof. intros w. reflexivity. Qed.

Lemma def_PendClean : forall e, PendClean e <->
  (forall v d, delegation e A_hub v = None -> pending e A_hub v d = 0).
Proof. intros e. reflexivity. Qed.

Lemma def_same_cfg : forall e e', same_cfg e e' <->
  e_now e' = e_now e /\ e_ut e' = e_ut e /\ e_unb e' = e_unb e /\ e_wdaddr e' = e_wdaddr e /\
  e_noredel e' = e_noredel e /\ e_price e' = e_price e /\ e_swapmode e' = e_swapmode e /\
  e_oraclemode e' = e_oraclemode e.
Proof. intros e e'. reflexivity. Qed.

Lemma def_due_frame : forall e e', due_frame e e' <->
  same_cfg e e' /\ (forall d, disp_due e' d = disp_due e d) /\
  (forall a d, a <> A_disp -> bal e' a d = bal e a d) /\
  (forall a d, bal e a d <= bal e' a d).
Proof. intros e e'. reflexivity. Qed.

Lemma def_not_hub_redel : forall sm, not_hub_redel sm <->
  (fst sm = A_hub -> forall s d c, snd sm <> MRedelegate s d c).
Proof. intros sm. reflexivity. Qed.

Lemma def_examples :
  rm_owner = 10 /\ rm_op = OTx rm_owner A_reg (WReg (GRemove 1)) [] /\
  W_dust = index_world 50000000000000000 [OAccrue 1 usei 10] /\
  W_ok = index_world 50000000000000000 [OAccrue 0 usei 50000; OAccrue 1 uusd 7000].
Proof. repeat split. Qed.
