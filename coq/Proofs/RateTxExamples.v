(** * RateTxExamples: non-vacuity of the hypotheses of Proofs/RateTx.v on concrete worlds.
    - [world0] (Proofs/ExitWorld.v): fully wired, alice holds 1 000 000 bSei, bob 2 000 000 stSei,
      3 000 000 usei delegated to three validators, both rates 1.0;
    - [worldS]: [world0] after a 10 % slashing of validator 0: the books are not yet synchronised,
      the State query reports rates below 1.0 and the peg fee applies to a Bond. *)
From Krp Require Import Tactics Prelude Fixed FMap Types Env Registry Cw20 Reward Dispatcher Hub Exec
     ExecP Hist Inv RegistryP HubFrame HubAdmin Cw20P TokenWorld MirrorWire MirrorP HubRates
     BooksEnv BooksHub BooksP BooksLiquid IndexRun IndexEnv IndexHandlers IndexPhases ExitWorld
     RateTxLegs RateTx RateTxConvert.
Open Scope N_scope.

Definition rx_setup : list op := firstn 7 genesis_ops.
Definition rx_acts : list op := skipn 7 genesis_ops.
Definition rx_w1 : world := run_ops rx_setup (empty_world 100).
Definition worldS : world := run_ops [OSlash 0 1 10 false] world0.

Lemma rx_world0_eq : world0 = run_ops rx_acts rx_w1.
Proof. vm_compute. reflexivity. Qed.

Ltac rx_conc := vm_compute; first [reflexivity | let X := fresh in intro X; discriminate X].

Lemma rx_wired0 : Wired world0.  Proof. vm_compute. repeat split. Qed.
Lemma rx_wiredS : Wired worldS.  Proof. vm_compute. repeat split. Qed.

Lemma rx_entwf0 : EntWf world0.  Proof. apply EntWf_reachable. Qed.
Lemma rx_entwfS : EntWf worldS.
Proof. unfold worldS, world0, run_ops. rewrite <- fold_left_app. apply (EntWf_reachable 100). Qed.

Lemma rx_mirror0 : Mirror world0.
Proof.
  rewrite rx_world0_eq.
  assert (H : always (fun w => Wired w /\ Mirror w) rx_acts rx_w1).
  { apply mirror_plain_history.
    - vm_compute. repeat split.
    - apply Fresh_Mirror. split.
      + intros tb E. vm_compute in E. inversion E; subst. split; reflexivity.
      + intros r E. vm_compute in E. inversion E; subst. split; reflexivity.
    - repeat constructor; discriminate. }
  apply (always_final _ _ _ H).
Qed.

Lemma rx_mirrorS : Mirror worldS.
Proof. eapply Mirror_same; [| |exact rx_mirror0]; reflexivity. Qed.

Lemma rx_E1_0 : RateE1 world0.  Proof. vm_compute. repeat split; discriminate. Qed.
Lemma rx_E1_S : RateE1 worldS.  Proof. vm_compute. repeat split; discriminate. Qed.

Definition rx_s0 : hub_state := Eval vm_compute in
  match hub_query_state world0 A_hub with Some s => s | None => mkHubState 0 0 0 0 0 0 0 0 end.
Definition rx_sS : hub_state := Eval vm_compute in
  match hub_query_state worldS A_hub with Some s => s | None => mkHubState 0 0 0 0 0 0 0 0 end.

Lemma rx_query0 : hub_query_state world0 A_hub = Some rx_s0.  Proof. vm_compute. reflexivity. Qed.
Lemma rx_queryS : hub_query_state worldS A_hub = Some rx_sS.  Proof. vm_compute. reflexivity. Qed.

(** what is reported: 1.0 / 1.0 before the slashing; 0.9666... / 0.96666... after it (2 900 000
    delegated against 3 000 000 booked, split pro rata) *)
Lemma rx_reported :
  hs_ber rx_s0 = D /\ hs_ser rx_s0 = D /\ hs_bb rx_s0 = 1000000 /\ hs_bst rx_s0 = 2000000 /\
  hs_ber rx_sS = 966666000000000000 /\ hs_ser rx_sS = 966667000000000000 /\
  hs_bb rx_sS = 966666 /\ hs_bst rx_sS = 1933334.
Proof. vm_compute. repeat split. Qed.

Lemma rx_exact0 : RatesExact world0.
Proof.
  apply rt_exact_of_bonded; [exact rx_wired0 | rx_conc |].
  intros h E. vm_compute in E. inversion E; subst. vm_compute. reflexivity.
Qed.
Lemma rx_exactS : RatesExact worldS.
Proof.
  apply rt_exact_of_bonded; [exact rx_wiredS | rx_conc |].
  intros h E. vm_compute in E. inversion E; subst. vm_compute. reflexivity.
Qed.

Lemma rx_backed0 : BackedW world0.
Proof. intros s E. rewrite rx_query0 in E. inversion E; subst. split; intros _; vm_compute; reflexivity. Qed.
Lemma rx_backedS : BackedW worldS.
Proof. intros s E. rewrite rx_queryS in E. inversion E; subst. split; intros _; vm_compute; reflexivity. Qed.

Lemma rx_sound0 : SoundRates world0.
Proof. apply rt_sound_of_exact; [exact rx_exact0 | exact rx_backed0 | rx_conc | rx_conc]. Qed.
Lemma rx_soundS : SoundRates worldS.
Proof. apply rt_sound_of_exact; [exact rx_exactS | exact rx_backedS | rx_conc | rx_conc]. Qed.

Lemma rx_regok g : w_reg world0 = Some g -> RegOk g.
Proof.
  intros E. vm_compute in E. inversion E; subst. split; [discriminate|]. split.
  - repeat (constructor; [cbn; intros H; repeat (destruct H as [H|H]; [discriminate|]); exact H|]). constructor.
  - intros v H. cbn in H. repeat (destruct H as [<-|H]; [reflexivity|]). contradiction.
Qed.

(** the hypotheses of [bond_tx_succeeds] / [bondst_tx_succeeds] hold for alice paying 500 000 usei
    in the slashed world (peg fee on), and the transactions indeed succeed *)
Example bond_tx_succeeds_nonvacuous :
  exists h g tb ts r,
    Wired worldS /\ EntWf worldS /\ RateE1 worldS /\ Mirror worldS /\
    w_hub worldS = Some h /\ w_reg worldS = Some g /\ w_bsei worldS = Some tb /\
    w_stsei worldS = Some ts /\ w_reward worldS = Some r /\
    paused h = false /\ RegOk g /\ TInv tb /\ TInv ts /\
    tk_minter tb = Some (A_hub, None) /\ tk_minter ts = Some (A_hub, None) /\
    AccrualFits r alice /\ alice <> A_hub /\ 0 < 500000 /\ 500000 <= LIM /\
    500000 <= bal (w_env worldS) alice usei /\
    hub_query_state worldS A_hub = Some rx_sS /\
    hs_ber rx_sS = rate_of (hs_bb rx_sS) (claims_b h tb) /\
    hs_ber rx_sS < hp_thr (h_params h) /\
    bond_b_amount h rx_sS (tk_supply tb) 500000 = 514655 /\
    500000 * D / hs_ser rx_sS = 517241 /\ 0 < hs_ser rx_sS /\ 0 < hs_ber rx_sS.
Proof.
  destruct (w_hub worldS) as [h|] eqn:Hh; [|vm_compute in Hh; discriminate].
  destruct (w_reg worldS) as [g|] eqn:Hg; [|vm_compute in Hg; discriminate].
  destruct (w_bsei worldS) as [tb|] eqn:Hb; [|vm_compute in Hb; discriminate].
  destruct (w_stsei worldS) as [ts|] eqn:Hs; [|vm_compute in Hs; discriminate].
  destruct (w_reward worldS) as [r|] eqn:Hr; [|vm_compute in Hr; discriminate].
  exists h, g, tb, ts, r.
  split; [exact rx_wiredS|]. split; [exact rx_entwfS|]. split; [exact rx_E1_S|]. split; [exact rx_mirrorS|].
  do 5 (split; [reflexivity|]).
  assert (HT : TokInv worldS).
  { unfold worldS, world0, run_ops. rewrite <- fold_left_app. apply (TokInv_reachable 100). }
  destruct HT as [HTb HTs].
  vm_compute in Hh. inversion Hh; subst h. vm_compute in Hr. inversion Hr; subst r.
  split; [reflexivity|]. split; [apply rx_regok; exact Hg|].
  split; [apply HTb; exact Hb|]. split; [apply HTs; exact Hs|].
  vm_compute in Hb. inversion Hb; subst tb. vm_compute in Hs. inversion Hs; subst ts.
  split; [reflexivity|]. split; [reflexivity|].
  split; [eexists; vm_compute; reflexivity|].
  split; [discriminate|]. split; [reflexivity|]. split; [rx_conc|]. split; [rx_conc|].
  split; [exact rx_queryS|]. repeat split; vm_compute; reflexivity.
Qed.

Example bond_tx_runs :
  exists w1 tr1 w2 tr2 s1 s2,
    run tx_fuel worldS [(alice, MWasm A_hub (WHub HBond) [(usei, 500000)])] [] = Some (w1, tr1) /\
    run tx_fuel worldS [(alice, MWasm A_hub (WHub HBondSt) [(usei, 500000)])] [] = Some (w2, tr2) /\
    hub_query_state w1 A_hub = Some s1 /\ hub_query_state w2 A_hub = Some s2 /\
    hs_ber rx_sS <= hs_ber s1 /\ hs_ser rx_sS <= hs_ser s1 /\
    hs_ber rx_sS <= hs_ber s2 /\ hs_ser rx_sS <= hs_ser s2 /\
    length tr1 = 6%nat /\ length tr2 = 5%nat.
Proof.
  do 6 eexists. split; [vm_compute; reflexivity|]. split; [vm_compute; reflexivity|].
  split; [vm_compute; reflexivity|]. split; [vm_compute; reflexivity|].
  repeat split; rx_conc.
Qed.

Lemma rx_nrh e : e_wdaddr e = [(A_hub, A_disp)] -> NoRewardsToHub e.
Proof.
  intros E x. unfold withdraw_addr. rewrite E. cbn [get]. unfold eqbA.
  destruct (x =? A_hub) eqn:Ex; [discriminate | apply N.eqb_neq in Ex; exact Ex].
Qed.

(** hypotheses of the effect / monotonicity / step theorems on both worlds *)
Example rate_tx_nonvacuous :
  Wired world0 /\ EntWf world0 /\ SoundRates world0 /\ Mirror world0 /\ RateE1 world0 /\
  NoRewardsToHub (w_env world0) /\
  Wired worldS /\ EntWf worldS /\ SoundRates worldS /\ Mirror worldS /\ RateE1 worldS /\
  NoRewardsToHub (w_env worldS) /\
  delegated (w_env worldS) A_hub + 500000 <= LIM /\
  0 < w_claims_b worldS /\ 0 < w_claims_st worldS.
Proof.
  split; [exact rx_wired0|]. split; [exact rx_entwf0|]. split; [exact rx_sound0|].
  split; [exact rx_mirror0|]. split; [exact rx_E1_0|].
  split; [apply rx_nrh; vm_compute; reflexivity|].
  split; [exact rx_wiredS|]. split; [exact rx_entwfS|]. split; [exact rx_soundS|].
  split; [exact rx_mirrorS|]. split; [exact rx_E1_S|].
  split; [apply rx_nrh; vm_compute; reflexivity|].
  repeat split; rx_conc.
Qed.

(** the two Convert transactions succeed in the slashed world; reported rates do not fall *)
Example convert_tx_runs :
  exists w1 tr1 w2 tr2 s1 s2,
    run tx_fuel worldS [(alice, MWasm A_bsei (WCw20 (CSend A_hub 1000 HkConvert)) [])] [] = Some (w1, tr1) /\
    run tx_fuel worldS [(bob, MWasm A_stsei (WCw20 (CSend A_hub 1000 HkConvert)) [])] [] = Some (w2, tr2) /\
    hub_query_state w1 A_hub = Some s1 /\ hub_query_state w2 A_hub = Some s2 /\
    hs_ber rx_sS <= hs_ber s1 /\ hs_ser rx_sS <= hs_ser s1 /\
    hs_ber rx_sS <= hs_ber s2 /\ hs_ser rx_sS <= hs_ser s2 /\
    length tr1 = 7%nat /\ length tr2 = 6%nat.
Proof.
  do 6 eexists. split; [vm_compute; reflexivity|]. split; [vm_compute; reflexivity|].
  split; [vm_compute; reflexivity|]. split; [vm_compute; reflexivity|].
  repeat split; rx_conc.
Qed.

(** a history of bonds and conversions satisfying the hypotheses of [rate_monotone_history] *)
Definition rx_ops : list op :=
  [ OTx alice A_hub (WHub HBond) [(usei, 500000)];
    OTx bob A_stsei (WCw20 (CSend A_hub 1000 HkConvert)) [];
    OTx alice A_bsei (WCw20 (CSend A_hub 2000 HkConvert)) [];
    OTx bob A_hub (WHub HBondSt) [(usei, 777)];
    OTx bob A_hub (WHub HBondSt) [(uusd, 5)] ].

Example rate_history_nonvacuous :
  Forall rate_op rx_ops /\ always RateEnv rx_ops worldS /\
  exists s', hub_query_state (run_ops rx_ops worldS) A_hub = Some s' /\
    hs_ber rx_sS < hs_ber s' /\ hs_ser rx_sS < hs_ser s'.
Proof.
  split; [|split].
  - unfold rx_ops. repeat apply Forall_cons; [| | | | |apply Forall_nil].
    + left. do 3 eexists. split; [reflexivity|left; reflexivity].
    + right. do 4 eexists. split; [reflexivity|right; reflexivity].
    + right. do 4 eexists. split; [reflexivity|left; reflexivity].
    + left. do 3 eexists. split; [reflexivity|right; reflexivity].
    + left. do 3 eexists. split; [reflexivity|right; reflexivity].
  - vm_compute. repeat split; discriminate.
  - eexists. split; [vm_compute; reflexivity|]. split; rx_conc.
Qed.
