(** * RateTxConvert: C03 / C04 at TRANSACTION level for the two Convert transactions.

    bSei -> stSei :  user -> bSei.Send{hub, amount, Convert}
                       -> reward.DecreaseBalance user, reward.IncreaseBalance hub      (mirror)
                       -> hub.Receive -> stSei.Mint user m
                                      -> bSei.Burn amount -> reward.DecreaseBalance hub
    stSei -> bSei :  user -> stSei.Send{hub, amount, Convert}
                       -> hub.Receive -> bSei.Mint user m -> reward.IncreaseBalance user
                                      -> stSei.Burn amount -> hub.CheckSlashing

    Main theorems
    - [convert_b_st_tx_effect], [convert_st_b_tx_effect]: the world after a successful transaction:
      both token supplies, the sender's balances, the pools, and what the State query reports;
    - [convert_b_st_tx_rate_mono], [convert_st_b_tx_rate_mono]: neither reported rate is lower
      after the transaction (for a token that still has claims), and the reported rates are again
      exact rates of backed pools;
    - [convert_tx_invariants]: Wired, EntWf, RatesExact, BackedW, (within E1) SoundRates hold again;
    - [rate_monotone_step_convert], [rate_step_invariants_convert]: one Convert operation of a
      history, successful or not;
    - [rate_monotone_history]: along any history of Bond / BondForStSei / Convert operations that
      stays within E1 with both tokens in circulation, the reported rates never fall.
    Not proved here: the success direction for Convert (only effects of successful transactions). *)
From Coq Require Import Permutation.
From Krp Require Import Tactics Prelude Fixed FMap Types Env Registry Cw20 Reward Dispatcher Hub Exec
     ExecP Hist Inv RegistryP HubFrame HubAdmin Cw20P MirrorWire MirrorP HubRates
     BooksEnv BooksHub BooksP BooksLiquid IndexRun IndexEnv IndexHandlers IndexPhases RateTxLegs RateTx.
Open Scope N_scope.
Ltac Zify.zify_post_hook ::= Z.div_mod_to_equations.

(** ** vocabulary: the peg fees of C03_convert_*_prices for reported state [s] *)
Definition conv_bst_fee (h : hub) (s : hub_state) (sb amount : N) : N :=
  let c := sb + cb_reqb (h_batch h) in
  let gap := c - hs_bb s in
  if hs_ber s <? hp_thr (h_params h)
  then N.min (amount * hp_pegfee (h_params h) / D)
             (if hs_bb s =? 0 then gap else gap * (c - amount) / hs_bb s)
  else 0.

Definition conv_stb_fee (h : hub) (s : hub_state) (sb d m0 : N) : N :=
  if hs_ber s <? hp_thr (h_params h)
  then N.min (m0 * hp_pegfee (h_params h) / D) (sb + m0 + cb_reqb (h_batch h) - (hs_bb s + d))
  else 0.

(** ** generic legs *)
Lemma rt_exec_wired w l w' n : Forall plain_s l -> Exec w l w' n -> Wired w -> Wired w'.
Proof.
  intros Hp H HW. destruct (Exec_run_any _ _ _ _ H n [] (le_n n)) as [tr' Hr].
  eapply Wired_wdata; [|exact HW]. eapply run_wdata; eauto.
Qed.

(** an Increase/DecreaseBalance message of the bSei token changes only the reward contract *)
Lemma rt_reward_leg_inv w (m : reward_msg) w' n :
  Wired w -> (exists a x, m = RInc a x \/ m = RDec a x) ->
  Exec w [(A_bsei, MWasm A_reward (WReward m) [])] w' n ->
  exists r r', w_reward w = Some r /\ w' = set_reward w r'.
Proof.
  intros HW (a & x & Hm) H. apply Exec_cons_inv in H.
  destruct H as (w1 & out & w2 & n1 & n2 & Hs & H1 & H2 & _).
  apply Exec_nil_inv in H2. subst w'.
  rewrite rt_step_nofunds, rt_call_reward in Hs.
  bind_inv Hs as rr Hrr. bind_inv Hrr as r Hr. bind_inv Hrr as x0 Hx. destruct x0 as [r' o].
  inversion Hrr; subst rr; clear Hrr. cbn [fst snd] in Hs. inversion Hs; subst w1 out; clear Hs.
  assert (Hq : query_bsei_addr w (rw_hub r) = Some A_bsei) by (apply (wired_query_bsei w); auto).
  pose proof (reward_execute_rbal _ _ _ _ _ _ _ Hq Hx) as Hrb.
  assert (Ho : o = []).
  { destruct Hm as [-> | ->]; [destruct Hrb as (_ & -> & _) | destruct Hrb as (_ & -> & _)]; reflexivity. }
  subst o. cbn [map] in H1. apply Exec_nil_inv in H1. subst w2. exists r, r'. split; reflexivity.
Qed.

(** the query depends on the world only through the hub's delegations and the two supplies *)
Lemma rt_qas_supply w w' h :
  all_delegations (w_env w') A_hub = all_delegations (w_env w) A_hub ->
  hub_bsei_supply w' h = hub_bsei_supply w h -> hub_stsei_supply w' h = hub_stsei_supply w h ->
  query_actual_state w' A_hub h = query_actual_state w A_hub h.
Proof.
  intros H1 H2 H3. unfold query_actual_state, actual_bonded. rewrite H1, H2, H3. reflexivity.
Qed.

(** the hub's Receive hook as root of a sub-tree *)
Lemma rt_receive_inv w tok user amt w1 out :
  step_msg w tok (m_receive A_hub user amt HkConvert) = Some (w1, out) ->
  exists h h' o,
    w_hub w = Some h /\ paused h = false /\
    receive_cw20 w h A_hub tok user amt HkConvert = Some (h', o) /\
    w1 = set_hub w h' /\ out = map (fun x => (A_hub, x)) o.
Proof.
  unfold m_receive. intros H. apply rt_root_inv in H.
  destruct H as (h & e1 & h' & o & Hh & Hsend & He & -> & ->).
  change (send_coins (w_env w) tok A_hub []) with (Some (w_env w)) in Hsend. inversion Hsend; subst e1.
  rewrite rt_set_env_same in *. cbn [hub_execute] in He.
  destruct (paused h) eqn:Hp; [discriminate He|]. cbn [negb] in He.
  exists h, h', o. repeat split; auto.
Qed.

(** one message with its whole sub-tree, keeping track of the wiring *)
Lemma rt_cons_inv_wired w s m rest w' n :
  Wired w -> plain m -> Exec w ((s, m) :: rest) w' n ->
  exists w1 out w2 n1 n2,
    step_msg w s m = Some (w1, out) /\ Wired w1 /\ Exec w1 out w2 n1 /\ Wired w2 /\ Exec w2 rest w' n2.
Proof.
  intros HW Hp H. apply Exec_cons_inv in H.
  destruct H as (w1 & out & w2 & n1 & n2 & Hs & H1 & H2 & _).
  assert (HW1 : Wired w1) by (eapply step_msg_wired; eauto).
  assert (HW2 : Wired w2).
  { eapply rt_exec_wired; [|exact H1|exact HW1]. eapply step_msg_emits_plain; eauto. }
  exists w1, out, w2, n1, n2. auto.
Qed.

Lemma rt_reward_step_inv w (m : reward_msg) w1 out :
  Wired w -> (exists a x, m = RInc a x \/ m = RDec a x) ->
  step_msg w A_bsei (MWasm A_reward (WReward m) []) = Some (w1, out) ->
  out = [] /\ exists r r', w_reward w = Some r /\ w1 = set_reward w r'.
Proof.
  intros HW (a & x & Hm) Hs.
  rewrite rt_step_nofunds, rt_call_reward in Hs.
  bind_inv Hs as rr Hrr. bind_inv Hrr as r Hr. bind_inv Hrr as x0 Hx. destruct x0 as [r' o].
  inversion Hrr; subst rr; clear Hrr. cbn [fst snd] in Hs. inversion Hs; subst w1 out; clear Hs.
  assert (Hq : query_bsei_addr w (rw_hub r) = Some A_bsei) by (apply (wired_query_bsei w); auto).
  pose proof (reward_execute_rbal _ _ _ _ _ _ _ Hq Hx) as Hrb.
  assert (Ho : o = []).
  { destruct Hm as [-> | ->]; [destruct Hrb as (_ & -> & _) | destruct Hrb as (_ & -> & _)]; reflexivity. }
  subst o. split; [reflexivity|]. exists r, r'. split; reflexivity.
Qed.

Lemma rt_bsei_step_inv w s cm w1 out tb :
  w_bsei w = Some tb ->
  step_msg w s (MWasm A_bsei (WCw20 cm) []) = Some (w1, out) ->
  exists tb' o, bsei_execute w tb s cm = Some (tb', o) /\ w1 = set_bsei w tb' /\
                out = map (fun x => (A_bsei, x)) o.
Proof.
  intros Hb Hs. rewrite rt_step_nofunds, rt_call_bsei, Hb in Hs.
  bind_inv Hs as rr Hrr. cbn [bind] in Hrr. bind_inv Hrr as x Hx. destruct x as [tb' o].
  inversion Hrr; subst rr; clear Hrr. cbn [fst snd] in Hs. inversion Hs; subst w1 out; clear Hs.
  exists tb', o. repeat split.
Qed.

Lemma rt_stsei_step_inv w s cm w1 out ts :
  w_stsei w = Some ts ->
  step_msg w s (MWasm A_stsei (WCw20 cm) []) = Some (w1, out) ->
  exists ts' o, stsei_execute w ts s cm = Some (ts', o) /\ w1 = set_stsei w ts' /\
                out = map (fun x => (A_stsei, x)) o.
Proof.
  intros Hb Hs. rewrite rt_step_nofunds, rt_call_stsei, Hb in Hs.
  bind_inv Hs as rr Hrr. cbn [bind] in Hrr. bind_inv Hrr as x Hx. destruct x as [ts' o].
  inversion Hrr; subst rr; clear Hrr. cbn [fst snd] in Hs. inversion Hs; subst w1 out; clear Hs.
  exists ts', o. repeat split.
Qed.

Lemma rt_supplies' w h sb ss tb ts :
  hc_bsei (h_cfg h) = Some A_bsei -> hc_stsei (h_cfg h) = Some A_stsei ->
  w_bsei w = Some tb -> w_stsei w = Some ts -> tk_supply tb = sb -> tk_supply ts = ss ->
  hub_bsei_supply w h = Some sb /\ hub_stsei_supply w h = Some ss.
Proof. intros Hb Hs Htb Hts <- <-. apply rt_supplies; assumption. Qed.

(** ** bSei -> stSei *)
Theorem convert_b_st_tx_effect w user amount funds w' tr h tb ts :
  Wired w -> EntWf w ->
  w_hub w = Some h -> w_bsei w = Some tb -> w_stsei w = Some ts ->
  run tx_fuel w [(user, MWasm A_bsei (WCw20 (CSend A_hub amount HkConvert)) funds)] [] = Some (w', tr) ->
  exists s h' tb' ts',
    hub_query_state w A_hub = Some s /\ hs_ser s <> 0 /\
    let fee := conv_bst_fee h s (tk_supply tb) amount in
    let d := (amount - fee) * hs_ber s / D in
    let m := d * D / hs_ser s in
    0 < m /\ fee <= amount /\ d <= hs_bb s /\ amount <= tbal tb user /\
    w_hub w' = Some h' /\ w_bsei w' = Some tb' /\ w_stsei w' = Some ts' /\
    tk_supply tb' + amount = tk_supply tb /\ tbal tb' user + amount = tbal tb user /\
    (forall a, a <> user -> tbal tb' a = tbal tb a) /\
    tk_supply ts' = tk_supply ts + m /\ tbal ts' user = tbal ts user + m /\
    (forall a, a <> user -> tbal ts' a = tbal ts a) /\
    all_delegations (w_env w') A_hub = all_delegations (w_env w) A_hub /\
    hs_bb s + hs_bst s <= delegated (w_env w) A_hub /\
    h_batch h' = h_batch h /\ h_cfg h' = h_cfg h /\ h_params h' = h_params h /\
    hs_bb (h_state h') = hs_bb s - d /\ hs_bst (h_state h') = hs_bst s + d /\
    (forall s', hub_query_state w' A_hub = Some s' ->
       hs_bb s' = hs_bb s - d /\ hs_bst s' = hs_bst s + d /\
       hs_ber s' = rate_of (hs_bb s - d) (tk_supply tb - amount + cb_reqb (h_batch h)) /\
       hs_ser s' = rate_of (hs_bst s + d) (tk_supply ts + m + cb_reqst (h_batch h))).
Proof.
  intros HW [Hwf Hent] Hh Hb Hs H.
  destruct (Wired_inv _ HW) as (h0 & r & dp & g & tb0 & ts0 & Hh0 & Hr & _ & _ & Hb0 & Hs0 &
                                Wd & Wr & Wb & Ws & Wu & _).
  rewrite Hh in Hh0. inversion Hh0; subst h0; clear Hh0.
  rewrite Hb in Hb0. inversion Hb0; subst tb0; clear Hb0.
  rewrite Hs in Hs0. inversion Hs0; subst ts0; clear Hs0.
  apply run_Exec in H. destruct H as [n H].
  apply rt_cons_inv_wired in H; [|exact HW|reflexivity].
  destruct H as (wb & out & w2 & n1 & n2 & Hroot & HWb & H1 & _ & H2).
  apply Exec_nil_inv in H2. subst w2.
  (* the root: funds, then the token's Send *)
  cbn [step_msg] in Hroot. bind_inv Hroot as e1 Hsend. bind_inv Hroot as rr Hc.
  rewrite rt_call_bsei in Hc. cbn [w_bsei set_env] in Hc. rewrite Hb in Hc. cbn [bind] in Hc.
  bind_inv Hc as x Hx. destruct x as [tb1 o1]. inversion Hc; subst rr; clear Hc.
  cbn [fst snd] in Hroot. inversion Hroot; subst wb out; clear Hroot.
  pose proof (rt_send_del _ _ _ _ _ Hsend) as Hdel1.
  set (wa := set_env w e1) in *.
  assert (HWa : Wired wa) by (eapply Wired_wdata; [apply wdata_set_env|exact HW]).
  destruct (bsei_send_mirror _ _ _ _ _ _ _ _ Hx) as (rc & Hrc & -> & Hle & Hl1).
  rewrite (wired_query_reward wa wa tb HWa Hb eq_refl eq_refl) in Hrc. inversion Hrc; subst rc; clear Hrc.
  assert (Hsup1 : tk_supply tb1 = tk_supply tb) by (specialize (Hl1 None); cbn in Hl1; lia).
  cbn [map] in H1.
  (* DecreaseBalance user, IncreaseBalance hub *)
  apply rt_cons_inv_wired in H1; [|exact HWb|reflexivity].
  destruct H1 as (wc & out & w2 & m1 & m2 & Hst & HWc & Hch & _ & H1).
  apply rt_reward_step_inv in Hst; [|exact HWb|eauto]. destruct Hst as (-> & r0 & r1 & Hr0 & ->).
  apply Exec_nil_inv in Hch. subst w2.
  apply rt_cons_inv_wired in H1; [|exact HWc|reflexivity].
  destruct H1 as (wd & out & w2 & m3 & m4 & Hst & HWd & Hch & _ & H1).
  apply rt_reward_step_inv in Hst; [|exact HWc|eauto]. destruct Hst as (-> & r1' & r2 & Hr1 & ->).
  apply Exec_nil_inv in Hch. subst w2.
  (* the hub's Receive hook *)
  apply rt_cons_inv_wired in H1; [|exact HWd|reflexivity].
  destruct H1 as (we & out & w2 & m5 & m6 & Hst & HWe & Hch & _ & H1).
  apply Exec_nil_inv in H1. subst w2.
  apply rt_receive_inv in Hst. destruct Hst as (h0 & h' & o & Hh0 & Hpz & Hrc & -> & ->).
  cbn [w_hub set_reward set_bsei set_env] in Hh0. unfold wa in Hh0. cbn [w_hub set_env] in Hh0.
  rewrite Hh in Hh0. inversion Hh0; subst h0; clear Hh0.
  unfold receive_cw20 in Hrc. rewrite Wb, Ws in Hrc. cbn [bind] in Hrc.
  change (A_bsei =? A_bsei) with true in Hrc. cbv iota in Hrc.
  match type of Hrc with convert_bsei_stsei ?W _ _ _ _ = _ => set (wd := W) in * end.
  destruct (rt_supplies' wd h (tk_supply tb) (tk_supply ts) tb1 ts Wb Ws eq_refl Hs Hsup1 eq_refl) as [Sb Ss].
  destruct (convert_b_st_prices _ _ _ _ _ _ _ _ _ Hrc Sb Ss) as (h1 & stok & btok & Hsl & Hst & Hbt & E).
  rewrite Ws in Hst. rewrite Wb in Hbt. inversion Hst; inversion Hbt; subst stok btok; clear Hst Hbt.
  cbv zeta in E. destruct E as (Hser & Hfee & Hdle & Hale & Eo & Eh).
  assert (Hdeld : e_del (w_env wd) = e_del (w_env w)) by exact Hdel1.
  assert (Hbk : booked h1 <= delegated (w_env w) A_hub).
  { rewrite <- (delegated_same_del (w_env w) (w_env wd) A_hub Hdeld).
    apply (slashing_restores wd A_hub h h1 Hsl).
    rewrite (all_delegations_same_del (w_env w) (w_env wd) A_hub Hdeld). apply Hent. exact Hh. }
  unfold slashing in Hsl. bind_inv Hsl as s Hq. inversion Hsl; subst h1; clear Hsl.
  cbn [h_state set_h_state] in *.
  assert (Hq0 : query_actual_state w A_hub h = Some s).
  { rewrite <- Hq. symmetry. apply rt_qas_supply.
    - apply all_delegations_same_del. exact Hdeld.
    - rewrite Sb. symmetry. apply (rt_supplies w h tb ts Wb Ws Hb Hs).
    - rewrite Ss. symmetry. apply (rt_supplies w h tb ts Wb Ws Hb Hs). }
  fold (conv_bst_fee h s (tk_supply tb) amount) in Hfee, Hdle, Eo, Eh.
  set (fee := conv_bst_fee h s (tk_supply tb) amount) in *.
  set (d := (amount - fee) * hs_ber s / D) in *.
  set (m := d * D / hs_ser s) in *.
  (* Mint stSei, Burn bSei + DecreaseBalance hub *)
  rewrite Eo in Hch. cbn [map] in Hch.
  apply rt_cons_inv_wired in Hch; [|exact HWe|reflexivity].
  destruct Hch as (wf & out & w2 & m7 & m8 & Hst & HWf & Hch & _ & H1).
  apply (rt_stsei_step_inv _ _ _ _ _ ts) in Hst; [|exact Hs].
  destruct Hst as (ts' & o2 & Hmint & -> & ->).
  cbn [stsei_execute] in Hmint. bind_inv Hmint as t1 Htm. injection Hmint as E1 E2. subst ts' o2.
  cbn [map] in Hch. apply Exec_nil_inv in Hch. subst w2.
  apply rt_cons_inv_wired in H1; [|exact HWf|reflexivity].
  destruct H1 as (wg & out & w2 & m9 & m10 & Hst & HWg & Hch & _ & H1).
  apply Exec_nil_inv in H1. subst w2.
  apply (rt_bsei_step_inv _ _ _ _ _ tb1) in Hst; [|reflexivity].
  destruct Hst as (tb2 & o3 & Hburn & -> & ->).
  destruct (bsei_burn_mirror _ _ _ _ _ _ Hburn) as (rc & Hrc2 & -> & _ & Hl2).
  match type of Hrc2 with query_reward_contract ?W _ = _ =>
    rewrite (wired_query_reward W W tb1 HWf eq_refl eq_refl eq_refl) in Hrc2 end.
  inversion Hrc2; subst rc; clear Hrc2.
  cbn [map] in Hch. apply rt_cons_inv_wired in Hch; [|exact HWg|reflexivity].
  destruct Hch as (wh & out & w2 & m11 & m12 & Hst & _ & Hch & _ & H1).
  apply Exec_nil_inv in H1. subst w2.
  apply rt_reward_step_inv in Hst; [|exact HWg|eauto]. destruct Hst as (-> & r3 & r4 & Hr3 & ->).
  apply Exec_nil_inv in Hch. subst w'.
  apply tok_mint_spec in Htm. destruct Htm as (Hmpos & _ & _ & Tsup & _ & _ & _ & Tbal & Toth).
  (* net effect on the bSei ledger *)
  assert (Hnet : forall o, lbal tb2 o + dl o user amount = lbal tb o).
  { intros ix. specialize (Hl1 ix). specialize (Hl2 ix). lia. }
  exists s, h', tb2, t1.
  split; [unfold hub_query_state; rewrite Hh; exact Hq0|]. split; [exact Hser|]. cbv zeta.
  fold fee d m.
  split; [exact Hmpos|]. split; [exact Hfee|]. split; [exact Hdle|]. split; [exact Hle|].
  cbn [w_hub w_bsei w_stsei w_env set_reward set_bsei set_stsei set_hub set_env].
  split; [reflexivity|]. split; [reflexivity|]. split; [reflexivity|].
  split; [specialize (Hnet None); cbn [lbal] in Hnet; rewrite rt_dl_total in Hnet; exact Hnet|].
  split; [specialize (Hnet (Some user)); cbn [lbal] in Hnet; rewrite rt_dl_same in Hnet; exact Hnet|].
  split; [intros a Ha; specialize (Hnet (Some a)); cbn [lbal] in Hnet; rewrite rt_dl_other in Hnet by exact Ha; lia|].
  split; [exact Tsup|]. split; [exact Tbal|]. split; [exact Toth|].
  split; [apply all_delegations_same_del; exact Hdel1|].
  split; [unfold booked in Hbk; cbn [h_state set_h_state] in Hbk; exact Hbk|].
  subst h'. cbn [h_batch h_cfg h_params h_state set_h_state set_bonded set_rates hs_bb hs_bst].
  split; [reflexivity|]. split; [reflexivity|]. split; [reflexivity|].
  split; [reflexivity|]. split; [reflexivity|].
  intros s' Hq'. unfold hub_query_state in Hq'.
  cbn [w_hub set_reward set_bsei set_stsei set_hub set_env bind] in Hq'.
  match type of Hq' with query_actual_state ?W _ ?H' = _ => set (wf := W) in *; set (h' := H') in * end.
  assert (Tsb : tk_supply tb2 = tk_supply tb - amount).
  { specialize (Hnet None). cbn [lbal] in Hnet. rewrite rt_dl_total in Hnet. lia. }
  destruct (rt_supplies wf h' tb2 t1 Wb Ws eq_refl eq_refl) as [Sb' Ss'].
  assert (Hdpos : 0 < d).
  { destruct (N.eq_dec d 0) as [Ez|]; [|lia]. exfalso. unfold m in Hmpos. rewrite Ez in Hmpos.
    rewrite N.mul_0_l, N.div_0_l in Hmpos by exact Hser. lia. }
  destruct (rt_query_nosync wf h' s' _ _ Wu Sb' Ss' Hq') as (Q1 & Q2 & Q3 & Q4).
  - unfold booked, h'. cbn [h_state set_h_state set_bonded set_rates hs_bb hs_bst]. lia.
  - unfold booked in *. unfold h', wf, wd, wa.
    cbn [h_state set_h_state set_bonded set_rates hs_bb hs_bst w_env set_reward set_bsei set_stsei set_hub set_env].
    cbn [h_state set_h_state] in Hbk.
    rewrite (delegated_same_del (w_env w) e1 A_hub Hdel1). lia.
  - unfold h' in *. cbn [h_state h_batch set_h_state set_bonded set_rates hs_bb hs_bst] in *.
    rewrite Tsb in Q3. rewrite Tsup in Q4. repeat split; assumption.
Qed.

(** ** stSei -> bSei *)
Theorem convert_st_b_tx_effect w user amount funds w' tr h tb ts :
  Wired w -> EntWf w ->
  w_hub w = Some h -> w_bsei w = Some tb -> w_stsei w = Some ts ->
  run tx_fuel w [(user, MWasm A_stsei (WCw20 (CSend A_hub amount HkConvert)) funds)] [] = Some (w', tr) ->
  exists s h' tb' ts',
    hub_query_state w A_hub = Some s /\ hs_ber s <> 0 /\
    let d := amount * hs_ser s / D in
    let m0 := d * D / hs_ber s in
    let fee := conv_stb_fee h s (tk_supply tb) d m0 in
    let m := m0 - fee in
    0 < m /\ fee <= m0 /\ d <= hs_bst s /\ amount <= tbal ts user /\
    w_hub w' = Some h' /\ w_bsei w' = Some tb' /\ w_stsei w' = Some ts' /\
    tk_supply ts' + amount = tk_supply ts /\ tbal ts' user + amount = tbal ts user /\
    (forall a, a <> user -> tbal ts' a = tbal ts a) /\
    tk_supply tb' = tk_supply tb + m /\ tbal tb' user = tbal tb user + m /\
    (forall a, a <> user -> tbal tb' a = tbal tb a) /\
    all_delegations (w_env w') A_hub = all_delegations (w_env w) A_hub /\
    hs_bb s + hs_bst s <= delegated (w_env w) A_hub /\
    h_batch h' = h_batch h /\ h_cfg h' = h_cfg h /\ h_params h' = h_params h /\
    hs_bb (h_state h') = hs_bb s + d /\ hs_bst (h_state h') = hs_bst s - d /\
    (forall s', hub_query_state w' A_hub = Some s' ->
       hs_bb s' = hs_bb s + d /\ hs_bst s' = hs_bst s - d /\
       hs_ber s' = rate_of (hs_bb s + d) (tk_supply tb + m + cb_reqb (h_batch h)) /\
       hs_ser s' = rate_of (hs_bst s - d) (tk_supply ts - amount + cb_reqst (h_batch h))).
Proof.
  intros HW [Hwf Hent] Hh Hb Hs H.
  destruct (Wired_inv _ HW) as (h0 & r & dp & g & tb0 & ts0 & Hh0 & Hr & _ & _ & Hb0 & Hs0 &
                                Wd & Wr & Wb & Ws & Wu & _ & _ & _ & _ & _ & _ & Wts).
  rewrite Hh in Hh0. inversion Hh0; subst h0; clear Hh0.
  rewrite Hb in Hb0. inversion Hb0; subst tb0; clear Hb0.
  rewrite Hs in Hs0. inversion Hs0; subst ts0; clear Hs0.
  apply run_Exec in H. destruct H as [n H].
  apply rt_cons_inv_wired in H; [|exact HW|reflexivity].
  destruct H as (wb & out & w2 & n1 & n2 & Hroot & HWb & H1 & _ & H2).
  apply Exec_nil_inv in H2. subst w2.
  (* the root: funds, then the token's Send *)
  cbn [step_msg] in Hroot. bind_inv Hroot as e1 Hsend. bind_inv Hroot as rr Hc.
  rewrite rt_call_stsei in Hc. cbn [w_stsei set_env] in Hc. rewrite Hs in Hc. cbn [bind] in Hc.
  bind_inv Hc as x Hx. destruct x as [ts1 o1]. inversion Hc; subst rr; clear Hc.
  cbn [fst snd] in Hroot. inversion Hroot; subst wb out; clear Hroot.
  pose proof (rt_send_del _ _ _ _ _ Hsend) as Hdel1.
  cbn [stsei_execute] in Hx. check_inv Hx as Hnz. bind_inv Hx as t1 Hmv. injection Hx as E1 E2. subst ts1 o1.
  pose proof (tok_move_lbal _ _ _ _ _ Hmv) as Hl1.
  apply tok_move_spec in Hmv. destruct Hmv as (Hle & _ & Hsup1 & _ & _ & Hhub1 & _).
  cbn [map] in H1.
  (* the hub's Receive hook *)
  apply rt_cons_inv_wired in H1; [|exact HWb|reflexivity].
  destruct H1 as (we & out & w2 & m5 & m6 & Hst & HWe & Hch & _ & H1).
  apply Exec_nil_inv in H1. subst w2.
  apply rt_receive_inv in Hst. destruct Hst as (h0 & h' & o & Hh0 & Hpz & Hrc & -> & ->).
  cbn [w_hub set_stsei set_env] in Hh0. rewrite Hh in Hh0. inversion Hh0; subst h0; clear Hh0.
  unfold receive_cw20 in Hrc. rewrite Wb, Ws in Hrc. cbn [bind] in Hrc.
  change (A_stsei =? A_bsei) with false in Hrc. change (A_stsei =? A_stsei) with true in Hrc. cbv iota in Hrc.
  match type of Hrc with convert_stsei_bsei ?W _ _ _ _ = _ => set (wd := W) in * end.
  destruct (rt_supplies' wd h (tk_supply tb) (tk_supply ts) tb t1 Wb Ws Hb eq_refl eq_refl Hsup1) as [Sb Ss].
  destruct (convert_st_b_prices _ _ _ _ _ _ _ _ _ Hrc Sb Ss) as (h1 & stok & btok & Hsl & Hst & Hbt & E).
  rewrite Ws in Hst. rewrite Wb in Hbt. inversion Hst; inversion Hbt; subst stok btok; clear Hst Hbt.
  cbv zeta in E. destruct E as (Hber & Hfee & Hdle & Hale & Eo & Eh).
  assert (Hdeld : e_del (w_env wd) = e_del (w_env w)) by exact Hdel1.
  assert (Hbk : booked h1 <= delegated (w_env w) A_hub).
  { rewrite <- (delegated_same_del (w_env w) (w_env wd) A_hub Hdeld).
    apply (slashing_restores wd A_hub h h1 Hsl).
    rewrite (all_delegations_same_del (w_env w) (w_env wd) A_hub Hdeld). apply Hent. exact Hh. }
  unfold slashing in Hsl. bind_inv Hsl as s Hq. inversion Hsl; subst h1; clear Hsl.
  cbn [h_state set_h_state] in *.
  assert (Hq0 : query_actual_state w A_hub h = Some s).
  { rewrite <- Hq. symmetry. apply rt_qas_supply.
    - apply all_delegations_same_del. exact Hdeld.
    - rewrite Sb. symmetry. apply (rt_supplies w h tb ts Wb Ws Hb Hs).
    - rewrite Ss. symmetry. apply (rt_supplies w h tb ts Wb Ws Hb Hs). }
  set (d := amount * hs_ser s / D) in *.
  set (m0 := d * D / hs_ber s) in *.
  fold (conv_stb_fee h s (tk_supply tb) d m0) in Hfee, Eo, Eh.
  set (fee := conv_stb_fee h s (tk_supply tb) d m0) in *.
  (* Mint bSei + IncreaseBalance user *)
  rewrite Eo in Hch. cbn [map] in Hch.
  apply rt_cons_inv_wired in Hch; [|exact HWe|reflexivity].
  destruct Hch as (wf & out & w2 & m7 & m8 & Hst & HWf & Hch & HW2 & H1).
  apply (rt_bsei_step_inv _ _ _ _ _ tb) in Hst; [|exact Hb].
  destruct Hst as (tb' & o2 & Hmint & -> & ->).
  destruct (bsei_mint_mirror _ _ _ _ _ _ _ Hmint) as (rc & Hrc2 & -> & _).
  match type of Hrc2 with query_reward_contract ?W _ = _ =>
    rewrite (wired_query_reward W W tb HWe Hb eq_refl eq_refl) in Hrc2 end.
  inversion Hrc2; subst rc; clear Hrc2.
  cbn [bsei_execute] in Hmint. bind_inv Hmint as rc0 Hrc0. bind_inv Hmint as tb1 Htm. injection Hmint as E1 _. subst tb'.
  cbn [map] in Hch. apply rt_cons_inv_wired in Hch; [|exact HWf|reflexivity].
  destruct Hch as (wg & out & w3 & m9 & m10 & Hst & HWg & Hch & _ & H3).
  apply Exec_nil_inv in H3. subst w3.
  apply rt_reward_step_inv in Hst; [|exact HWf|eauto]. destruct Hst as (-> & r3 & r4 & Hr3 & ->).
  apply Exec_nil_inv in Hch. subst w2.
  (* Burn stSei + CheckSlashing *)
  apply rt_cons_inv_wired in H1; [|exact HW2|reflexivity].
  destruct H1 as (wh & out & w3 & m11 & m12 & Hst & HWh & Hch & _ & H3).
  apply Exec_nil_inv in H3. subst w3.
  apply (rt_stsei_step_inv _ _ _ _ _ t1) in Hst; [|reflexivity].
  destruct Hst as (ts2 & o3 & Hburn & -> & ->).
  cbn [stsei_execute] in Hburn. check_inv Hburn as Hsd. check_inv Hburn as Hnz2. bind_inv Hburn as t2 Hbn.
  injection Hburn as E1 E2. subst ts2 o3.
  pose proof (tok_burn_lbal _ _ _ _ Hbn) as Hl2.
  rewrite Hhub1, Wts in Hch. unfold m_check_slashing in Hch. cbn [map] in Hch.
  apply Exec_cons_inv in Hch. destruct Hch as (wi & out & w3 & m13 & m14 & Hst & Hch & H3 & _).
  apply Exec_nil_inv in H3. subst w3.
  apply rt_root_inv in Hst. destruct Hst as (hx & ex & h2 & ox & Hhx & Hsx & Hex & -> & ->).
  change (send_coins ?E A_stsei A_hub []) with (Some E) in Hsx. inversion Hsx; subst ex; clear Hsx.
  rewrite rt_set_env_same in *.
  cbn [w_hub set_stsei set_reward set_bsei set_hub] in Hhx. inversion Hhx; subst hx; clear Hhx.
  cbn [hub_execute] in Hex. check_inv Hex as Hpz2. bind_inv Hex as h3 Hsl2. injection Hex as E1 E2. subst h2 ox.
  cbn [map] in Hch. apply Exec_nil_inv in Hch. subst w'.
  apply tok_mint_spec in Htm. destruct Htm as (Hmpos & _ & _ & Tsup & _ & _ & _ & Tbal & Toth).
  assert (Hnet : forall ix, lbal t2 ix + dl ix user amount = lbal ts ix).
  { intros ix. specialize (Hl1 ix). specialize (Hl2 ix). lia. }
  (* the final CheckSlashing finds no loss *)
  pose proof (slashing_frame _ _ _ _ Hsl2) as (G1 & G2 & G3 & _).
  assert (Hpools : hs_bb (h_state h3) = hs_bb (h_state h') /\ hs_bst (h_state h3) = hs_bst (h_state h')).
  { apply (slashing_noop _ _ _ _ Hsl2).
    - subst h'. exact Wu.
    - subst h'. unfold booked in *.
      cbn [h_state set_h_state set_bonded set_rates hs_bb hs_bst w_env set_stsei set_reward set_bsei set_hub] in *.
      unfold wd. cbn [w_env set_stsei set_env]. rewrite (delegated_same_del (w_env w) e1 A_hub Hdel1). lia. }
  destruct Hpools as [P1 P2].
  exists s, h3, tb1, t2.
  split; [unfold hub_query_state; rewrite Hh; exact Hq0|]. split; [exact Hber|]. cbv zeta.
  fold d m0 fee.
  split; [exact Hmpos|]. split; [exact Hfee|]. split; [exact Hdle|]. split; [exact Hle|].
  cbn [w_hub w_bsei w_stsei w_env set_reward set_bsei set_stsei set_hub set_env].
  split; [reflexivity|]. split; [reflexivity|]. split; [reflexivity|].
  split; [specialize (Hnet None); cbn [lbal] in Hnet; rewrite rt_dl_total in Hnet; exact Hnet|].
  split; [specialize (Hnet (Some user)); cbn [lbal] in Hnet; rewrite rt_dl_same in Hnet; exact Hnet|].
  split; [intros a Ha; specialize (Hnet (Some a)); cbn [lbal] in Hnet; rewrite rt_dl_other in Hnet by exact Ha; lia|].
  split; [exact Tsup|]. split; [exact Tbal|]. split; [exact Toth|].
  split; [unfold wd; cbn [w_env set_stsei set_env]; apply all_delegations_same_del; exact Hdel1|].
  split; [unfold booked in Hbk; cbn [h_state set_h_state] in Hbk; exact Hbk|].
  rewrite G1, G2, G3, P1, P2. subst h'.
  cbn [h_batch h_cfg h_params h_state set_h_state set_bonded set_rates hs_bb hs_bst].
  split; [reflexivity|]. split; [reflexivity|]. split; [reflexivity|].
  split; [reflexivity|]. split; [reflexivity|].
  intros s' Hq'. unfold hub_query_state in Hq'.
  cbn [w_hub set_reward set_bsei set_stsei set_hub set_env bind] in Hq'.
  match type of Hq' with query_actual_state ?W _ _ = _ => set (wf := W) in * end.
  assert (Tss : tk_supply t2 = tk_supply ts - amount).
  { specialize (Hnet None). cbn [lbal] in Hnet. rewrite rt_dl_total in Hnet. lia. }
  assert (Wb3 : hc_bsei (h_cfg h3) = Some A_bsei) by (rewrite G1; exact Wb).
  assert (Ws3 : hc_stsei (h_cfg h3) = Some A_stsei) by (rewrite G1; exact Ws).
  assert (Wu3 : hp_underlying (h_params h3) = usei) by (rewrite G2; exact Wu).
  destruct (rt_supplies wf h3 tb1 t2 Wb3 Ws3 eq_refl eq_refl) as [Sb' Ss'].
  assert (Hdpos : 0 < d).
  { destruct (N.eq_dec d 0) as [Ez|]; [|lia]. exfalso. unfold m0 in Hmpos. rewrite Ez in Hmpos.
    rewrite N.mul_0_l, N.div_0_l in Hmpos by exact Hber. lia. }
  cbn [h_state set_h_state set_bonded set_rates hs_bb hs_bst h_batch] in P1, P2, G3.
  destruct (rt_query_nosync wf h3 s' _ _ Wu3 Sb' Ss' Hq') as (Q1 & Q2 & Q3 & Q4).
  - unfold booked. rewrite P1, P2. lia.
  - unfold booked in *. rewrite P1, P2. unfold wf, wd.
    cbn [w_env set_reward set_bsei set_stsei set_hub set_env].
    cbn [h_state set_h_state] in Hbk.
    rewrite (delegated_same_del (w_env w) e1 A_hub Hdel1). lia.
  - rewrite P1, P2, G3 in *. rewrite Tsup in Q3. rewrite Tss in Q4. repeat split; assumption.
Qed.

(** ** C04 at transaction level for the conversions *)
Theorem convert_b_st_tx_rate_mono w user amount funds w' tr s s' :
  Wired w -> EntWf w -> SoundRates w ->
  run tx_fuel w [(user, MWasm A_bsei (WCw20 (CSend A_hub amount HkConvert)) funds)] [] = Some (w', tr) ->
  hub_query_state w A_hub = Some s -> hub_query_state w' A_hub = Some s' ->
  (0 < w_claims_b w' -> hs_ber s <= hs_ber s') /\
  hs_ser s <= hs_ser s' /\ 0 < w_claims_st w' /\
  Backed (hs_bb s') (w_claims_b w') /\ Backed (hs_bst s') (w_claims_st w') /\
  hs_ber s' = rate_of (hs_bb s') (w_claims_b w') /\ hs_ser s' = rate_of (hs_bst s') (w_claims_st w').
Proof.
  intros HW HE HS H Hq Hq'.
  destruct (Wired_inv _ HW) as (h & r & dp & g & tb & ts & Hh & _ & _ & _ & Hb & Hs & _).
  destruct (convert_b_st_tx_effect w user amount funds w' tr h tb ts HW HE Hh Hb Hs H)
    as (s0 & h' & tb' & ts' & Hq0 & Hser & E).
  cbv zeta in E. rewrite Hq in Hq0. inversion Hq0; subst s0; clear Hq0.
  set (fee := conv_bst_fee h s (tk_supply tb) amount) in *.
  set (d := (amount - fee) * hs_ber s / D) in *.
  set (m := d * D / hs_ser s) in *.
  destruct E as (Hm & Hfee & Hdle & _ & Hh' & Hb' & Hs' & Tb & _ & _ & Ts & _ & _ & _ & _ & Hbt & _ & _ & _ & _ & Hrep).
  destruct (Hrep s' Hq') as (Q1 & Q2 & Q3 & Q4).
  destruct (HS s Hq) as [[Rb Lb] [Rs Ls]].
  rewrite (rt_claims_b w h tb Hh Hb) in Lb. rewrite (rt_claims_st w h ts Hh Hs) in Ls.
  rewrite (rt_claims_b w' h' tb' Hh' Hb'), (rt_claims_st w' h' ts' Hh' Hs'), Hbt, Ts.
  assert (Tb' : tk_supply tb' = tk_supply tb - amount) by lia. rewrite Tb'.
  rewrite Q1, Q2, Q3, Q4.
  assert (Hd : d * D <= (amount - fee) * hs_ber s) by apply div_mul_le_l.
  assert (Hmr : m * hs_ser s <= d * D) by apply div_mul_le_l.
  assert (Hk2 : hs_ser s * (tk_supply ts + m + cb_reqst (h_batch h)) <= (hs_bst s + d) * D)
    by (clearbody m d; lia).
  assert (Hk1 : hs_ber s * (tk_supply tb - amount + cb_reqb (h_batch h)) <= (hs_bb s - d) * D).
  { pose proof (arith_redeem (hs_ber s) (hs_bb s) (tk_supply tb + cb_reqb (h_batch h)) amount
                  (amount - fee) d Lb) as K.
    replace (tk_supply tb + cb_reqb (h_batch h) - amount) with (tk_supply tb - amount + cb_reqb (h_batch h)) in K by lia.
    apply K; [lia|lia|exact Hd|exact Hdle]. }
  destruct (rate_step _ _ _ Rb Hk1) as [Kb Kr]. destruct (rate_step _ _ _ Rs Hk2) as [Kb' Kr'].
  split; [exact Kr|]. split; [apply Kr'; lia|]. split; [lia|]. repeat split; assumption.
Qed.

Theorem convert_st_b_tx_rate_mono w user amount funds w' tr s s' :
  Wired w -> EntWf w -> SoundRates w ->
  run tx_fuel w [(user, MWasm A_stsei (WCw20 (CSend A_hub amount HkConvert)) funds)] [] = Some (w', tr) ->
  hub_query_state w A_hub = Some s -> hub_query_state w' A_hub = Some s' ->
  hs_ber s <= hs_ber s' /\ 0 < w_claims_b w' /\
  (0 < w_claims_st w' -> hs_ser s <= hs_ser s') /\
  Backed (hs_bb s') (w_claims_b w') /\ Backed (hs_bst s') (w_claims_st w') /\
  hs_ber s' = rate_of (hs_bb s') (w_claims_b w') /\ hs_ser s' = rate_of (hs_bst s') (w_claims_st w').
Proof.
  intros HW HE HS H Hq Hq'.
  destruct (Wired_inv _ HW) as (h & r & dp & g & tb & ts & Hh & _ & _ & _ & Hb & Hs & _).
  destruct (convert_st_b_tx_effect w user amount funds w' tr h tb ts HW HE Hh Hb Hs H)
    as (s0 & h' & tb' & ts' & Hq0 & Hber & E).
  cbv zeta in E. rewrite Hq in Hq0. inversion Hq0; subst s0; clear Hq0.
  set (d := amount * hs_ser s / D) in *.
  set (m0 := d * D / hs_ber s) in *.
  set (fee := conv_stb_fee h s (tk_supply tb) d m0) in *.
  destruct E as (Hm & Hfee & Hdle & _ & Hh' & Hb' & Hs' & Ts & _ & _ & Tb & _ & _ & _ & _ & Hbt & _ & _ & _ & _ & Hrep).
  destruct (Hrep s' Hq') as (Q1 & Q2 & Q3 & Q4).
  destruct (HS s Hq) as [[Rb Lb] [Rs Ls]].
  rewrite (rt_claims_b w h tb Hh Hb) in Lb. rewrite (rt_claims_st w h ts Hh Hs) in Ls.
  rewrite (rt_claims_b w' h' tb' Hh' Hb'), (rt_claims_st w' h' ts' Hh' Hs'), Hbt, Tb.
  assert (Ts' : tk_supply ts' = tk_supply ts - amount) by lia. rewrite Ts'.
  rewrite Q1, Q2, Q3, Q4.
  assert (Hd : d * D <= amount * hs_ser s) by apply div_mul_le_l.
  assert (Hmr : (m0 - fee) * hs_ber s <= d * D) by apply round_mint.
  set (m := m0 - fee) in *.
  assert (Hk1 : hs_ber s * (tk_supply tb + m + cb_reqb (h_batch h)) <= (hs_bb s + d) * D)
    by (clearbody m d; lia).
  assert (Hk2 : hs_ser s * (tk_supply ts - amount + cb_reqst (h_batch h)) <= (hs_bst s - d) * D).
  { pose proof (arith_redeem (hs_ser s) (hs_bst s) (tk_supply ts + cb_reqst (h_batch h)) amount
                  amount d Ls (N.le_refl _)) as K.
    replace (tk_supply ts + cb_reqst (h_batch h) - amount) with (tk_supply ts - amount + cb_reqst (h_batch h)) in K by lia.
    apply K; [lia|exact Hd|exact Hdle]. }
  destruct (rate_step _ _ _ Rb Hk1) as [Kb Kr]. destruct (rate_step _ _ _ Rs Hk2) as [Kb' Kr'].
  split; [apply Kr; lia|]. split; [lia|]. split; [exact Kr'|]. repeat split; assumption.
Qed.

(** the invariants are re-established by a conversion *)
Theorem convert_tx_invariants w user tok amount funds w' tr :
  Wired w -> EntWf w -> SoundRates w -> tok = A_bsei \/ tok = A_stsei ->
  run tx_fuel w [(user, MWasm tok (WCw20 (CSend A_hub amount HkConvert)) funds)] [] = Some (w', tr) ->
  Wired w' /\ EntWf w' /\ RatesExact w' /\ BackedW w' /\
  (w_claims_b w' <= LIM -> w_claims_st w' <= LIM -> SoundRates w').
Proof.
  intros HW HE HS Hk H.
  assert (HW' : Wired w').
  { eapply Wired_wdata; [|exact HW]. eapply tx_wdata; [|exact H]. reflexivity. }
  assert (HE' : EntWf w') by (eapply tx_entwf; eauto).
  assert (HXB : RatesExact w' /\ BackedW w').
  { destruct (Wired_inv _ HW) as (h & r & d & g & tb & ts & Hh & _ & _ & _ & Hb & Hs & _).
    destruct (hub_query_state w A_hub) as [s|] eqn:Hq.
    - split; intros s' Hq'; destruct Hk as [-> | ->].
      + destruct (convert_b_st_tx_rate_mono w user amount funds w' tr s s' HW HE HS H Hq Hq') as (_ & _ & _ & A & B & C & E). auto.
      + destruct (convert_st_b_tx_rate_mono w user amount funds w' tr s s' HW HE HS H Hq Hq') as (_ & _ & _ & A & B & C & E). auto.
      + destruct (convert_b_st_tx_rate_mono w user amount funds w' tr s s' HW HE HS H Hq Hq') as (_ & _ & _ & A & B & C & E). auto.
      + destruct (convert_st_b_tx_rate_mono w user amount funds w' tr s s' HW HE HS H Hq Hq') as (_ & _ & _ & A & B & C & E). auto.
    - exfalso. destruct Hk as [-> | ->].
      + destruct (convert_b_st_tx_effect w user amount funds w' tr h tb ts HW HE Hh Hb Hs H) as (s0 & h' & tb' & ts' & Hq0 & _).
        congruence.
      + destruct (convert_st_b_tx_effect w user amount funds w' tr h tb ts HW HE Hh Hb Hs H) as (s0 & h' & tb' & ts' & Hq0 & _).
        congruence. }
  destruct HXB as [HX HB].
  split; [exact HW'|]. split; [exact HE'|]. split; [exact HX|]. split; [exact HB|].
  intros L1 L2. apply rt_sound_of_exact; assumption.
Qed.

(** history-level: one Convert operation, successful or not *)
Theorem rate_monotone_step_convert w user tok amount funds s s' :
  Wired w -> EntWf w -> SoundRates w -> tok = A_bsei \/ tok = A_stsei ->
  let w' := fst (step w (OTx user tok (WCw20 (CSend A_hub amount HkConvert)) funds)) in
  hub_query_state w A_hub = Some s -> hub_query_state w' A_hub = Some s' ->
  (0 < w_claims_b w' -> hs_ber s <= hs_ber s') /\ (0 < w_claims_st w' -> hs_ser s <= hs_ser s').
Proof.
  intros HW HE HS Hk w' Hq Hq'. subst w'.
  destruct (step_tx_cases w user tok (WCw20 (CSend A_hub amount HkConvert)) funds) as [E | (w1 & tr & Hrun & E)];
    rewrite E in *.
  - rewrite Hq in Hq'. inversion Hq'; subst s'. split; intros _; lia.
  - destruct Hk as [-> | ->].
    + destruct (convert_b_st_tx_rate_mono w user amount funds w1 tr s s' HW HE HS Hrun Hq Hq') as (A & B & _). auto.
    + destruct (convert_st_b_tx_rate_mono w user amount funds w1 tr s s' HW HE HS Hrun Hq Hq') as (A & _ & B & _). auto.
Qed.

Lemma def_conv_bst_fee : forall h s sb amount, conv_bst_fee h s sb amount =
  if hs_ber s <? hp_thr (h_params h)
  then N.min (amount * hp_pegfee (h_params h) / D)
             (if hs_bb s =? 0 then sb + cb_reqb (h_batch h) - hs_bb s
              else (sb + cb_reqb (h_batch h) - hs_bb s) * (sb + cb_reqb (h_batch h) - amount) / hs_bb s)
  else 0.
Proof. reflexivity. Qed.

Lemma def_conv_stb_fee : forall h s sb d m0, conv_stb_fee h s sb d m0 =
  if hs_ber s <? hp_thr (h_params h)
  then N.min (m0 * hp_pegfee (h_params h) / D) (sb + m0 + cb_reqb (h_batch h) - (hs_bb s + d))
  else 0.
Proof. reflexivity. Qed.

Theorem rate_step_invariants_convert w user tok amount funds :
  Wired w -> EntWf w -> SoundRates w -> tok = A_bsei \/ tok = A_stsei ->
  let w' := fst (step w (OTx user tok (WCw20 (CSend A_hub amount HkConvert)) funds)) in
  Wired w' /\ EntWf w' /\ (w_claims_b w' <= LIM -> w_claims_st w' <= LIM -> SoundRates w').
Proof.
  intros HW HE HS Hk w'. subst w'.
  destruct (step_tx_cases w user tok (WCw20 (CSend A_hub amount HkConvert)) funds) as [E | (w1 & tr & Hrun & E)];
    rewrite E.
  - auto.
  - destruct (convert_tx_invariants w user tok amount funds w1 tr HW HE HS Hk Hrun) as (A & B & _ & _ & C). auto.
Qed.

(** ** histories of Bond / BondForStSei / Convert operations *)
Definition rate_op (o : op) : Prop :=
  (exists user hm funds, o = OTx user A_hub (WHub hm) funds /\ (hm = HBond \/ hm = HBondSt)) \/
  (exists user tok amount funds,
     o = OTx user tok (WCw20 (CSend A_hub amount HkConvert)) funds /\ (tok = A_bsei \/ tok = A_stsei)).

(** within E1 the State query answers *)
Lemma rt_query_some w : Wired w -> RateE1 w -> exists s, hub_query_state w A_hub = Some s.
Proof.
  intros HW HE.
  destruct (Wired_inv _ HW) as (h & r & d & g & tb & ts & Hh & _ & _ & _ & Hb & Hs & _ & _ & Wb & Ws & Wu & _).
  destruct (rt_E1_inv w h tb ts HE Hh Hb Hs) as (E1 & E2 & E3 & E4 & _).
  destruct (qas_ok w A_hub h tb ts Wu Wb Ws Hb Hs E1 E2 E3 E4) as (s & Hq & _).
  exists s. unfold hub_query_state. rewrite Hh. exact Hq.
Qed.

Lemma rt_E1_claims w : Wired w -> RateE1 w -> w_claims_b w <= LIM /\ w_claims_st w <= LIM.
Proof.
  intros HW HE.
  destruct (Wired_inv _ HW) as (h & r & d & g & tb & ts & Hh & _ & _ & _ & Hb & Hs & _).
  destruct (rt_E1_inv w h tb ts HE Hh Hb Hs) as (_ & _ & E3 & E4 & _).
  unfold w_claims_b, w_claims_st. rewrite Hh, Hb, Hs. auto.
Qed.

(** the envelope along a history: E1 and both tokens in circulation in every visited world *)
Definition RateEnv (w : world) : Prop := RateE1 w /\ 0 < w_claims_b w /\ 0 < w_claims_st w.

Theorem rate_monotone_history : forall ops w s s',
  Forall rate_op ops -> Wired w -> EntWf w -> SoundRates w -> always RateEnv ops w ->
  hub_query_state w A_hub = Some s -> hub_query_state (run_ops ops w) A_hub = Some s' ->
  hs_ber s <= hs_ber s' /\ hs_ser s <= hs_ser s'.
Proof.
  induction ops as [|o ops IH]; intros w s s' Hops HW HE HS HA Hq Hq'.
  - cbn [run_ops fold_left] in Hq'. rewrite Hq in Hq'. inversion Hq'; subst. split; lia.
  - apply Forall_cons_iff in Hops. destruct Hops as [Ho Hops].
    cbn [always] in HA. destruct HA as [_ HA]. pose proof (always_head _ _ _ HA) as (HE1 & Hcb & Hcs).
    change (run_ops (o :: ops) w) with (run_ops ops (fst (step w o))) in Hq'.
    set (w1 := fst (step w o)) in *.
    assert (Hstep : Wired w1 /\ EntWf w1 /\ (w_claims_b w1 <= LIM -> w_claims_st w1 <= LIM -> SoundRates w1) /\
                    forall s1, hub_query_state w1 A_hub = Some s1 ->
                      (0 < w_claims_b w1 -> hs_ber s <= hs_ber s1) /\ (0 < w_claims_st w1 -> hs_ser s <= hs_ser s1)).
    { destruct Ho as [(user & hm & funds & -> & Hk) | (user & tok & amount & funds & -> & Hk)].
      - destruct (rate_step_invariants w user hm funds HW HE HS Hk) as (A & B & C).
        split; [exact A|]. split; [exact B|]. split; [exact C|].
        intros s1 Hq1. exact (rate_monotone_step w user hm funds s s1 HW HE HS Hk Hq Hq1).
      - destruct (rate_step_invariants_convert w user tok amount funds HW HE HS Hk) as (A & B & C).
        split; [exact A|]. split; [exact B|]. split; [exact C|].
        intros s1 Hq1. exact (rate_monotone_step_convert w user tok amount funds s s1 HW HE HS Hk Hq Hq1). }
    destruct Hstep as (HW1 & HEnt1 & HS1 & Hmono).
    destruct (rt_E1_claims w1 HW1 HE1) as [L1 L2].
    destruct (rt_query_some w1 HW1 HE1) as [s1 Hq1].
    destruct (Hmono s1 Hq1) as [M1 M2].
    destruct (IH w1 s1 s' Hops HW1 HEnt1 (HS1 L1 L2) HA Hq1 Hq') as [I1 I2].
    split; [specialize (M1 Hcb) | specialize (M2 Hcs)]; lia.
Qed.

Lemma def_rate_op : forall o, rate_op o <->
  (exists user hm funds, o = OTx user A_hub (WHub hm) funds /\ (hm = HBond \/ hm = HBondSt)) \/
  (exists user tok amount funds,
     o = OTx user tok (WCw20 (CSend A_hub amount HkConvert)) funds /\ (tok = A_bsei \/ tok = A_stsei)).
Proof. intros o. reflexivity. Qed.

Lemma def_RateEnv : forall w, RateEnv w <-> RateE1 w /\ 0 < w_claims_b w /\ 0 < w_claims_st w.
Proof. intros w. reflexivity. Qed.
