(** * PauseHist: C11 (pause) at WORLD / HISTORY level — capstone.
    Helpers: PauseHistFrozen (part 1), PauseHistLegacy (part 2), PauseHistFlag / PauseHistSim /
    PauseHistFree (part 3).  Property file: Props/C11h.v.

    Part 1 (PauseHistFrozen):  [paused_frozen], [paused_frozen_history], [paused_tx_hub_messages],
      [paused_tx_needing_hub_fails] and its instances, [params_tx_effect], [migrate_tx_effect].
    Part 2 (PauseHistLegacy):  [LegacyLocked], [step_legacy], [legacy_locked_history],
      [legacy_locked_always], [legacy_locked_reachable], [no_unpause_along_history],
      [oldwait_only_migrate], [migrate_tx_oldwait], [legacy_inject_witness].
    Part 3 (PauseHistFlag, PauseHistSim, PauseHistFree):  [hub_execute_sim], [step_sim],
      [run_ops_sim], [wsim_queries], [run_flag], [step_flag], [run_ops_flag].

    This file:
    - [pause_op], [unpause_op], [CycleReady]: the owner's two flag-only UpdateParams, and the worlds
      in which a pause / un-pause cycle can be run (hub un-paused, no legacy entries, parameters in
      range, [owner] is the hub's owner);
    - [flag_update_ok], [params_tx_ok], [pause_step], [unpause_step]: the two transactions succeed
      and set exactly the flag;
    - [pause_unpause_identity]: pause; un-pause with nothing in between is the identity up to [~];
    - [pause_mid_unpause]: pause; ANY non-exempt history; un-pause: the hub is frozen in between
      and is, after the un-pause, the hub from before the pause up to [~];
    - [pause_cycle_transparent]: if moreover the history in between is hub-free when run WITHOUT the
      cycle, then running it inside the cycle gives the same outcomes and a [~]-related world;
    - [pause_cycle_history]: the same inserted anywhere in a history, followed by any history:
      all outcomes equal, final worlds [~]-related;
    - non-vacuity examples and [pause_cycle_blocked_witness] (the hub-free hypothesis is needed:
      an Unbond in between succeeds without the cycle and is rejected inside it): Proofs/PauseHistEx.v. *)
From Krp Require Import Tactics Prelude Fixed FMap Types Env Registry Cw20 Reward Dispatcher Hub Exec
     ExecP Hist HubFrame HubAdmin Auth Pause MirrorWire ExitWorld
     PauseHistFrozen PauseHistLegacy PauseHistFlag PauseHistSim PauseHistFree.
Open Scope N_scope.

Definition pause_op (owner : addr) : op :=
  OTx owner A_hub (WHub (HParams None None None None (Some true) None)) [].
Definition unpause_op (owner : addr) (pz : option bool) : op :=
  OTx owner A_hub (WHub (HParams None None None None pz None)) [].

Definition CycleReady (w : world) (owner : addr) : Prop :=
  exists h, w_hub w = Some h /\ hc_creator (h_cfg h) = owner /\ paused h = false /\
            h_oldwait h = [] /\ HPInv h.

Lemma flag_update_ok h pz :
  HPInv h -> (pz <> Some true -> h_oldwait h = []) ->
  execute_update_params h (hc_creator (h_cfg h)) None None None None pz None =
  Some (with_paused h pz, []).
Proof.
  intros [_ Ht] Ho. unfold execute_update_params. rewrite N.eqb_refl.
  assert (Hz : match pz with Some true => true | _ => match h_oldwait h with [] => true | _ => false end end = true).
  { destruct pz as [[|]|]; [reflexivity| |]; rewrite Ho by congruence; reflexivity. }
  rewrite Hz. cbn [opt_or]. unfold with_paused.
  replace (N.min (hp_thr (h_params h)) D) with (hp_thr (h_params h)) by lia. reflexivity.
Qed.

Lemma run_root_params f w h sender a b c d pz fd h' :
  w_hub w = Some h -> execute_update_params h sender a b c d pz fd = Some (h', []) ->
  run (S f) w [(sender, MWasm A_hub (WHub (HParams a b c d pz fd)) [])] [] =
  Some (set_hub w h', [(sender, MWasm A_hub (WHub (HParams a b c d pz fd)) [])]).
Proof.
  intros Hw He. cbn [run]. unfold step_msg.
  cbn [send_coins foldM bind]. unfold call. rewrite N.eqb_refl. cbn [w_hub set_env]. rewrite Hw.
  cbn [bind]. unfold hub_execute. rewrite He. cbn [bind fst snd map app].
  destruct f; reflexivity.
Qed.

Lemma params_tx_ok w h sender a b c d pz f h' :
  w_hub w = Some h -> execute_update_params h sender a b c d pz f = Some (h', []) ->
  step w (OTx sender A_hub (WHub (HParams a b c d pz f)) []) =
  (set_hub w h', (true, [(sender, MWasm A_hub (WHub (HParams a b c d pz f)) [])])).
Proof.
  intros Hw He. cbn [step]. unfold tx_fuel.
  rewrite (run_root_params _ _ _ _ _ _ _ _ _ _ _ Hw He). reflexivity.
Qed.

Lemma pause_step w h owner :
  w_hub w = Some h -> hc_creator (h_cfg h) = owner -> HPInv h ->
  step w (pause_op owner) =
  (set_hub w (with_paused h (Some true)),
   (true, [(owner, MWasm A_hub (WHub (HParams None None None None (Some true) None)) [])])).
Proof.
  intros Hw <- Hi. apply (params_tx_ok w h); [exact Hw|]. apply flag_update_ok; [exact Hi | congruence].
Qed.

Lemma unpause_step w h owner pz :
  w_hub w = Some h -> hc_creator (h_cfg h) = owner -> HPInv h -> h_oldwait h = [] ->
  step w (unpause_op owner pz) =
  (set_hub w (with_paused h pz),
   (true, [(owner, MWasm A_hub (WHub (HParams None None None None pz None)) [])])).
Proof.
  intros Hw <- Hi Ho. apply (params_tx_ok w h); [exact Hw|]. apply flag_update_ok; [exact Hi | auto].
Qed.

Lemma wsim_set_hub_flag w h pz :
  w_hub w = Some h -> flag_val pz = paused h -> wsim w (set_hub w (with_paused h pz)).
Proof.
  intros Hw Hf. unfold wsim, wrel, set_hub. cbn [w_hub w_reward w_disp w_reg w_bsei w_stsei w_env].
  rewrite Hw. cbn [opt_rel]. split; [apply hub_eqv_wp; exact Hf | tauto].
Qed.

Lemma wflag_set_hub_flag w h pz :
  w_hub w = Some h -> wflag w (set_hub w (with_paused h pz)).
Proof.
  intros Hw. unfold wflag, wrel, set_hub. cbn [w_hub w_reward w_disp w_reg w_bsei w_stsei w_env].
  rewrite Hw. cbn [opt_rel]. split; [reflexivity | tauto].
Qed.

Lemma flag_val_unpause pz : pz <> Some true -> flag_val pz = false.
Proof. destruct pz as [[|]|]; [congruence | reflexivity | reflexivity]. Qed.

(** pause; un-pause = identity up to [~] *)
Theorem pause_unpause_identity w owner pz :
  CycleReady w owner -> pz <> Some true ->
  exists w1 w2 t1 t2,
    step w (pause_op owner) = (w1, (true, t1)) /\ HubPaused w1 /\
    step w1 (unpause_op owner pz) = (w2, (true, t2)) /\ wsim w w2.
Proof.
  intros (h & Hw & Hown & Hp & Ho & Hi) Hz.
  pose proof (pause_step w h owner Hw Hown Hi) as E1.
  set (w1 := set_hub w (with_paused h (Some true))) in *.
  assert (Hw1 : w_hub w1 = Some (with_paused h (Some true))) by reflexivity.
  pose proof (unpause_step w1 _ owner pz Hw1 Hown Hi Ho) as E2.
  eexists _, _, _, _. split; [exact E1|]. split; [eexists; split; [exact Hw1 | reflexivity]|].
  split; [exact E2|]. rewrite with_paused_twice. unfold w1.
  change (set_hub (set_hub w (with_paused h (Some true))) (with_paused h pz))
    with (set_hub w (with_paused h pz)).
  apply wsim_set_hub_flag; [exact Hw|]. rewrite Hp. apply flag_val_unpause. exact Hz.
Qed.

(** pause; any history of non-exempt operations; un-pause *)
Theorem pause_mid_unpause w owner pz mid :
  CycleReady w owner -> pz <> Some true -> Forall (fun o => hub_exempt_op o = false) mid ->
  let w1 := fst (step w (pause_op owner)) in
  let w2 := run_ops mid w1 in
  let w3 := fst (step w2 (unpause_op owner pz)) in
  HubPaused w1 /\ w_hub w2 = w_hub w1 /\
  fst (snd (step w2 (unpause_op owner pz))) = true /\
  wsim (set_w_hub w2 (w_hub w)) w3.
Proof.
  intros (h & Hw & Hown & Hp & Ho & Hi) Hz Hmid. cbn zeta.
  rewrite (pause_step w h owner Hw Hown Hi). cbn [fst].
  set (w1 := set_hub w (with_paused h (Some true))).
  assert (Hw1 : w_hub w1 = Some (with_paused h (Some true))) by reflexivity.
  assert (Hp1 : HubPaused w1) by (eexists; split; [exact Hw1 | reflexivity]).
  pose proof (paused_frozen_history mid w1 Hp1 Hmid) as Hk.
  split; [exact Hp1|]. split; [exact Hk|].
  assert (Hw2 : w_hub (run_ops mid w1) = Some (with_paused h (Some true))) by congruence.
  rewrite (unpause_step (run_ops mid w1) _ owner pz Hw2 Hown Hi Ho). cbn [fst snd].
  split; [reflexivity|]. rewrite with_paused_twice. rewrite Hw.
  change (set_hub (run_ops mid w1) (with_paused h pz))
    with (set_hub (set_w_hub (run_ops mid w1) (Some h)) (with_paused h pz)).
  apply wsim_set_hub_flag; [reflexivity|]. rewrite Hp. apply flag_val_unpause. exact Hz.
Qed.

(** the cycle is transparent for a hub-free history in between *)
Theorem pause_cycle_transparent w owner pz mid :
  CycleReady w owner -> pz <> Some true -> Forall (fun o => hub_exempt_op o = false) mid ->
  guarded hub_free mid w ->
  outcomes mid w = outcomes mid (fst (step w (pause_op owner))) /\
  wsim (run_ops mid w) (run_ops (pause_op owner :: mid ++ [unpause_op owner pz]) w).
Proof.
  intros (h & Hw & Hown & Hp & Ho & Hi) Hz Hmid Hfree.
  change (run_ops (pause_op owner :: mid ++ [unpause_op owner pz]) w)
    with (run_ops (mid ++ [unpause_op owner pz]) (fst (step w (pause_op owner)))).
  rewrite (pause_step w h owner Hw Hown Hi). cbn [fst].
  set (w1 := set_hub w (with_paused h (Some true))).
  assert (Hw1 : w_hub w1 = Some (with_paused h (Some true))) by reflexivity.
  assert (Hp1 : HubPaused w1) by (eexists; split; [exact Hw1 | reflexivity]).
  assert (Hf : wflag w w1) by (apply wflag_set_hub_flag; exact Hw).
  destruct (run_ops_flag mid w w1 Hf Hp1 Hmid Hfree) as (Eo & Hf2 & Hk & Hk1).
  split; [exact Eo|].
  rewrite run_ops_app. change (run_ops [unpause_op owner pz] (run_ops mid w1))
    with (fst (step (run_ops mid w1) (unpause_op owner pz))).
  assert (Hw2 : w_hub (run_ops mid w1) = Some (with_paused h (Some true))) by congruence.
  rewrite (unpause_step (run_ops mid w1) _ owner pz Hw2 Hown Hi Ho). cbn [fst].
  rewrite with_paused_twice.
  destruct Hf2 as (_ & E1 & E2 & E3 & E4 & E5 & E6).
  unfold wsim, wrel, set_hub. cbn [w_hub w_reward w_disp w_reg w_bsei w_stsei w_env].
  rewrite Hk, Hw. cbn [opt_rel].
  split; [|tauto]. apply hub_eqv_wp. rewrite Hp. apply flag_val_unpause. exact Hz.
Qed.

Lemma outcomes_app ops1 : forall ops2 w,
  outcomes (ops1 ++ ops2) w = outcomes ops1 w ++ outcomes ops2 (run_ops ops1 w).
Proof.
  induction ops1 as [|o ops1 IH]; intros ops2 w; [reflexivity|].
  cbn [app outcomes]. rewrite IH. reflexivity.
Qed.

(** a cycle inserted anywhere in a history *)
Theorem pause_cycle_history ops1 mid ops2 w0 owner pz :
  CycleReady (run_ops ops1 w0) owner -> pz <> Some true ->
  Forall (fun o => hub_exempt_op o = false) mid -> guarded hub_free mid (run_ops ops1 w0) ->
  let plain := ops1 ++ mid ++ ops2 in
  let cycled := ops1 ++ pause_op owner :: mid ++ unpause_op owner pz :: ops2 in
  wsim (run_ops plain w0) (run_ops cycled w0) /\
  outcomes mid (run_ops ops1 w0) = outcomes mid (run_ops (ops1 ++ [pause_op owner]) w0) /\
  outcomes ops2 (run_ops (ops1 ++ mid) w0) =
  outcomes ops2 (run_ops (ops1 ++ pause_op owner :: mid ++ [unpause_op owner pz]) w0).
Proof.
  intros Hr Hz Hmid Hfree. cbn zeta.
  destruct (pause_cycle_transparent _ owner pz mid Hr Hz Hmid Hfree) as [Eo Hs].
  set (w := run_ops ops1 w0) in *.
  assert (E1 : run_ops (ops1 ++ mid) w0 = run_ops mid w) by (rewrite run_ops_app; reflexivity).
  assert (E2 : run_ops (ops1 ++ pause_op owner :: mid ++ [unpause_op owner pz]) w0 =
               run_ops (pause_op owner :: mid ++ [unpause_op owner pz]) w)
    by (rewrite run_ops_app; reflexivity).
  destruct (run_ops_sim ops2 _ _ Hs) as [Eo2 Hs2].
  split; [|split].
  - rewrite (app_assoc ops1 mid ops2), run_ops_app, E1.
    replace (ops1 ++ pause_op owner :: mid ++ unpause_op owner pz :: ops2)
      with ((ops1 ++ pause_op owner :: mid ++ [unpause_op owner pz]) ++ ops2).
    + rewrite run_ops_app, E2. exact Hs2.
    + rewrite <- app_assoc. cbn [app]. rewrite <- app_assoc. reflexivity.
  - rewrite run_ops_app. exact Eo.
  - rewrite E1, E2. exact Eo2.
Qed.

(** UpdateParams from anybody but the owner is rejected as a whole (paused or not) *)
Theorem params_nonowner_rejected w h sender a b c d pz f funds :
  w_hub w = Some h -> sender <> hc_creator (h_cfg h) ->
  step w (OTx sender A_hub (WHub (HParams a b c d pz f)) funds) = (w, (false, [])).
Proof.
  intros Hw Hne. apply tx_root_rejected. intros e1 _. unfold call. rewrite N.eqb_refl.
  cbn [w_hub set_env]. rewrite Hw. cbn [bind]. unfold hub_execute.
  rewrite update_params_unauth; [reflexivity | exact Hne].
Qed.
