(** * Auth: every privileged message succeeds only for its designated principal (C10).
    All lemmas hold for EVERY world / contract state (no reachability needed), so they cover fresh
    and evolved states and states after completed or abandoned ownership transfers. *)
From Krp Require Import Tactics Prelude Fixed FMap Types Env Registry Cw20 Reward Dispatcher Hub Exec
     HubFrame HubAdmin.
Open Scope N_scope.

(** ** hub *)
Lemma auth_hub w h self sender funds m h' out :
  hub_execute w h self sender funds m = Some (h', out) ->
  match m with
  | HConfig _ _ _ _ _ _ _ | HParams _ _ _ _ _ _ | HSetOwner _ => sender = hc_creator (h_cfg h)
  | HAccept => sender = h_newowner h
  | HBondRewards => hc_disp (h_cfg h) = Some sender
  | HRedelProxy _ _ => hc_reg (h_cfg h) = Some sender
  | HUpdateGlobal _ => sender = hc_updater (h_cfg h) \/ hc_reg (h_cfg h) = Some sender
  | HSwapHook _ _ => sender = self
  | HClaimAirdrop _ _ _ => hc_airdrop (h_cfg h) = Some sender
  | HReceive _ _ _ => hc_bsei (h_cfg h) = Some sender \/ hc_stsei (h_cfg h) = Some sender
  | _ => True
  end.
Proof.
  intros H. destruct m; try exact I.
  - (* BondRewards *) unfold hub_execute in H. check_inv H as Hp. unfold execute_bond in H.
    bind_inv H as d Hd. check_inv H as Hs. apply N.eqb_eq in Hs. congruence.
  - (* UpdateGlobal *) unfold hub_execute in H. check_inv H as Hp. unfold execute_update_global in H.
    check_inv H as Hs. apply orb_true_iff in Hs. destruct Hs as [Hs|Hs].
    + left. apply N.eqb_eq. exact Hs.
    + right. unfold opt_eqb in Hs. destruct (hc_reg (h_cfg h)); [|discriminate].
      apply N.eqb_eq in Hs. subst. reflexivity.
  - (* Params *) unfold hub_execute in H. apply update_params_spec in H. tauto.
  - (* Config *) unfold hub_execute in H. check_inv H as Hp. apply update_config_spec in H. tauto.
  - apply hub_set_owner_spec in H. tauto.
  - apply hub_accept_spec in H. tauto.
  - (* RedelProxy *) unfold hub_execute in H. check_inv H as Hp. bind_inv H as reg Hr.
    check_inv H as Hs. apply N.eqb_eq in Hs. subst. reflexivity.
  - (* SwapHook *) unfold hub_execute in H. check_inv H as Hp. check_inv H as Hs.
    apply N.eqb_eq. exact Hs.
  - (* ClaimAirdrop *) unfold hub_execute in H. check_inv H as Hp. bind_inv H as reg Hr.
    check_inv H as Hs. apply N.eqb_eq in Hs. subst. reflexivity.
  - (* Receive *) unfold hub_execute in H. check_inv H as Hp. unfold receive_cw20 in H.
    bind_inv H as b Hb. bind_inv H as st Hst.
    destruct h0; [| |discriminate].
    + destruct (sender =? b) eqn:E1; [apply N.eqb_eq in E1; subst; auto|].
      destruct (sender =? st) eqn:E2; [apply N.eqb_eq in E2; subst; auto|discriminate].
    + destruct (sender =? b) eqn:E1; [apply N.eqb_eq in E1; subst; auto|].
      destruct (sender =? st) eqn:E2; [apply N.eqb_eq in E2; subst; auto|discriminate].
Qed.

(** ** dispatcher *)
Lemma auth_disp w dp self sender m dp' out :
  disp_execute w dp self sender m = Some (dp', out) ->
  match m with
  | DSwap _ _ | DDispatch => sender = dp_hub dp
  | DAccept => sender = dp_newowner dp
  | _ => sender = dp_owner dp
  end.
Proof.
  intros H. destruct m; cbn [disp_execute] in H; check_inv H as Hs; apply N.eqb_eq in Hs; congruence.
Qed.

(** ** reward contract *)
Lemma auth_reward w r self sender m r' out :
  reward_execute w r self sender m = Some (r', out) ->
  match m with
  | RConfig _ _ _ | RSetOwner _ | RSwapDenom _ _ => sender = rw_owner r
  | RAccept => sender = rw_newowner r
  | RSwap | RUpdateIndex => query_dispatcher_addr w (rw_hub r) = Some sender
  | RInc _ _ | RDec _ _ => query_bsei_addr w (rw_hub r) = Some sender
  | RClaim _ => True
  end.
Proof.
  intros H. destruct m; cbn [reward_execute] in H; try exact I.
  - check_inv H as Hs. apply N.eqb_eq in Hs. congruence.
  - check_inv H as Hs. apply N.eqb_eq in Hs. congruence.
  - check_inv H as Hs. apply N.eqb_eq in Hs. congruence.
  - bind_inv H as d Hd. check_inv H as Hs. apply N.eqb_eq in Hs. congruence.
  - bind_inv H as d Hd. check_inv H as Hs. apply N.eqb_eq in Hs. congruence.
  - bind_inv H as t Ht. check_inv H as Hs. apply N.eqb_eq in Hs. congruence.
  - bind_inv H as t Ht. check_inv H as Hs. apply N.eqb_eq in Hs. congruence.
  - check_inv H as Hs. apply N.eqb_eq in Hs. congruence.
Qed.

(** ** validators registry *)
Lemma auth_reg w g sender m g' out :
  reg_execute w g sender m = Some (g', out) ->
  match m with
  | GAdd _ => sender = rg_owner g \/ sender = rg_hub g
  | GRemove _ | GConfig _ | GSetOwner _ => sender = rg_owner g
  | GAccept => sender = rg_newowner g
  | GRedelegations _ => True
  end.
Proof.
  intros H. destruct m; cbn [reg_execute] in H; try exact I.
  - check_inv H as Hs. apply orb_true_iff in Hs. destruct Hs as [Hs|Hs]; apply N.eqb_eq in Hs; auto.
  - check_inv H as Hs. apply N.eqb_eq in Hs. congruence.
  - check_inv H as Hs. apply N.eqb_eq in Hs. congruence.
  - check_inv H as Hs. apply N.eqb_eq in Hs. congruence.
  - check_inv H as Hs. apply N.eqb_eq in Hs. congruence.
Qed.

(** ** tokens: only the minter mints, only the hub burns its own holdings *)
Lemma tok_mint_auth t sender to amt t' :
  tok_mint t sender to amt = Some t' -> exists cap, tk_minter t = Some (sender, cap).
Proof.
  unfold tok_mint. intros H. check_inv H as Hz.
  destruct (tk_minter t) as [[m cap]|]; [|discriminate].
  check_inv H as Hs. apply N.eqb_eq in Hs. subst. eauto.
Qed.

Lemma auth_bsei w t sender m t' out :
  bsei_execute w t sender m = Some (t', out) ->
  match m with
  | CMint _ _ => exists cap, tk_minter t = Some (sender, cap)
  | CBurn _ => sender = tk_hub t
  | _ => True
  end.
Proof.
  intros H. destruct m; try exact I; unfold bsei_execute in H.
  - bind_inv H as rc Hrc. check_inv H as Hs. apply N.eqb_eq in Hs. exact Hs.
  - bind_inv H as rc Hrc. bind_inv H as t1 Ht1. eapply tok_mint_auth; eauto.
Qed.

Lemma auth_stsei w t sender m t' out :
  stsei_execute w t sender m = Some (t', out) ->
  match m with
  | CMint _ _ => exists cap, tk_minter t = Some (sender, cap)
  | CBurn _ => sender = tk_hub t
  | CUpdMinter _ => exists cap, tk_minter t = Some (sender, cap)
  | _ => True
  end.
Proof.
  intros H. destruct m; try exact I; unfold stsei_execute in H.
  - check_inv H as Hs. apply N.eqb_eq in Hs. exact Hs.
  - bind_inv H as t1 Ht1. eapply tok_mint_auth; eauto.
  - destruct (tk_minter t) as [[mn cap]|]; [|discriminate]. check_inv H as Hs.
    apply N.eqb_eq in Hs. subst. eauto.
Qed.

(** ** a rejected transaction changes nothing *)
Lemma tx_rejected_unchanged w sender target m funds w' tr :
  step w (OTx sender target m funds) = (w', (false, tr)) -> w' = w /\ tr = [].
Proof.
  cbn [step]. destruct (run tx_fuel w _ []) as [[w1 tr1]|]; intros H; inversion H; auto.
Qed.

(** the root call of a transaction is rejected when the handler rejects it *)
Lemma tx_root_rejected w sender target m funds :
  (forall e1, send_coins (w_env w) sender target funds = Some e1 ->
              call (set_env w e1) sender target m funds = None) ->
  step w (OTx sender target m funds) = (w, (false, [])).
Proof.
  intros Hc. cbn [step]. unfold tx_fuel. cbn [run]. unfold step_msg.
  destruct (send_coins (w_env w) sender target funds) as [e1|] eqn:E; cbn [bind]; [|reflexivity].
  rewrite (Hc e1 eq_refl). reflexivity.
Qed.
