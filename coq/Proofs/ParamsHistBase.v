(** * ParamsHistBase (helper of ParamsHist, C20 at transaction / history level): views of the stored
    parameters and configuration, exact handler-level effect of every message on them, and the
    generic "only the root message of a transaction can touch configuration" lemma.

    - views: [hub_params_of], [hub_config_of], [hub_underlying], [disp_std], [disp_config_of],
      [reward_config_of], [reg_hub_of] (all [None] when the contract is not instantiated);
    - [set_flag], [migrate_params_cases], [hub_execute_params_cases], [hub_execute_cfg_cases]:
      what a successful hub handler does to the parameter record / the config record;
    - [disp_execute_spec], [reward_execute_spec], [reg_execute_spec]: exact effect of every
      dispatcher / reward / registry message on the stored configuration;
    - [static_view], [step_msg_emitok_static], [run_emitok_static]: a white-listed (= emitted, see
      Proofs/AuthHistEmit.v) message leaves hub config / parameters / nominee / legacy list, the whole
      dispatcher record, the reward config and the whole registry record unchanged; hence so does
      everything that runs below the root of a transaction;
    - [run_root]: a successful transaction is its root message followed by white-listed messages;
    - [step_msg_hub_inv] ... [step_msg_reg_inv]: inversion of a root message sent to one of the four
      configurable contracts;
    - [trace_root_only]: in the trace of a successful transaction every owner-only ([admin_msg])
      message is the root. *)
From Krp Require Import Tactics Prelude Fixed FMap Types Env Registry Cw20 Reward Dispatcher Hub Exec
     ExecP Hist HubFrame HubAdmin MirrorWire TokenTx AuthHistEmit AuthHistOwn.
Open Scope N_scope.

(** * Views *)
Definition hub_params_of (w : world) : option hub_params := option_map h_params (w_hub w).
Definition hub_config_of (w : world) : option hub_config := option_map h_cfg (w_hub w).
Definition hub_underlying (w : world) : option denom :=
  option_map (fun h => hp_underlying (h_params h)) (w_hub w).
Definition disp_std (w : world) : option denom := option_map dp_std (w_disp w).

(** the dispatcher's configuration proper (everything except owner and nominee) *)
Definition dp_config (d : disp) :=
  (dp_hub d, dp_reward d, dp_std d, dp_bd d, dp_keeper d, dp_rate d, dp_swap d, dp_denoms d, dp_oracle d).
Definition disp_config_of (w : world) := option_map dp_config (w_disp w).

(** the reward contract's configuration proper (everything except owner, nominee and the index state) *)
Definition rw_config (r : reward) := (rw_hub r, rw_denom r, rw_swap r, rw_denoms r).
Definition reward_config_of (w : world) := option_map rw_config (w_reward w).

Definition reg_hub_of (w : world) : option addr := option_map rg_hub (w_reg w).

(** * Hub handlers *)

(** the parameter record with another pause flag *)
Definition set_flag (p : hub_params) (b : option bool) : hub_params :=
  mkHubParams (hp_epoch p) (hp_underlying p) (hp_unbonding p) (hp_pegfee p) (hp_thr p) (hp_rdenom p) b.

Lemma migrate_params_cases h limit :
  h_params (migrate_wait_lists h limit) = h_params h \/
  h_params (migrate_wait_lists h limit) = set_flag (h_params h) (Some false).
Proof.
  unfold migrate_wait_lists. cbn zeta.
  destruct (firstn _ (h_oldwait h)) as [|e0 er]; [left; reflexivity|].
  destruct (fold_left _ _ (h_oldwait h)); [right|left]; reflexivity.
Qed.

Lemma paused_true_flag h : paused h = true -> hp_paused (h_params h) = Some true.
Proof. unfold paused. destruct (hp_paused (h_params h)) as [[|]|]; congruence. Qed.

Lemma hub_execute_params_cases w h self s f m h' out :
  hub_execute w h self s f m = Some (h', out) ->
  h_params h' = h_params h \/
  (exists e u pf t pz rd, m = HParams e u pf t pz rd /\
      execute_update_params h s e u pf t pz rd = Some (h', out)) \/
  (exists lim, m = HMigrate lim /\ out = [] /\ hp_paused (h_params h) = Some true /\
      h_params h' = set_flag (h_params h) (Some false)).
Proof.
  intros H. destruct (is_admin_msg m) eqn:Ha.
  - unfold hub_execute in H. destruct m; try discriminate Ha.
    + right. left. do 6 eexists. split; [reflexivity|exact H].
    + left. check_inv H as Hp. apply update_config_spec in H. tauto.
    + left. check_inv H as Hp. check_inv H as Hs. inversion H; subst. reflexivity.
    + left. check_inv H as Hp. check_inv H as Hs. inversion H; subst. reflexivity.
    + destruct (Hub.paused h) eqn:Hp; [|discriminate]. inversion H; subst.
      destruct (migrate_params_cases h limit) as [E|E]; [left; exact E|].
      right. right. exists limit. repeat split; [apply paused_true_flag; exact Hp | exact E].
  - left. apply hub_execute_static in H; [|exact Ha]. destruct H as (_ & Hp & _). exact Hp.
Qed.

(** the config record with another creator (owner) *)
Definition set_creator (c : hub_config) (a : addr) : hub_config :=
  mkHubConfig a (hc_updater c) (hc_disp c) (hc_reg c) (hc_bsei c) (hc_stsei c) (hc_airdrop c)
              (hc_rewards c).

Lemma hub_execute_cfg_cases w h self s f m h' out :
  hub_execute w h self s f m = Some (h', out) ->
  h_cfg h' = h_cfg h \/
  (exists a b c d e f0 g, m = HConfig a b c d e f0 g /\ Hub.paused h = false /\
      execute_update_config h s a b c d e f0 g = Some (h', out)) \/
  (m = HAccept /\ Hub.paused h = false /\ s = h_newowner h /\ out = [] /\
      h' = set_h_cfg h (set_creator (h_cfg h) (h_newowner h))).
Proof.
  intros H. destruct (is_admin_msg m) eqn:Ha.
  - unfold hub_execute in H. destruct m; try discriminate Ha.
    + left. apply update_params_spec in H. destruct H as (_ & _ & _ & _ & ->). reflexivity.
    + right. left. check_inv H as Hp. apply negb_true_iff in Hp.
      do 7 eexists. split; [reflexivity|]. split; [exact Hp|exact H].
    + left. check_inv H as Hp. check_inv H as Hs. inversion H; subst. reflexivity.
    + right. right. check_inv H as Hp. check_inv H as Hs. inversion H; subst.
      apply negb_true_iff in Hp. apply N.eqb_eq in Hs. repeat split; assumption.
    + left. destruct (Hub.paused h); [|discriminate]. inversion H; subst.
      pose proof (migrate_params h limit) as M. cbn zeta in M. tauto.
  - left. apply hub_execute_static in H; [|exact Ha]. destruct H as (Hc & _). exact Hc.
Qed.

Lemma hub_execute_underlying w h self s f m h' out :
  hub_execute w h self s f m = Some (h', out) ->
  hp_underlying (h_params h') = hp_underlying (h_params h).
Proof.
  intros H. destruct (hub_execute_params_cases _ _ _ _ _ _ _ _ H)
    as [E | [(e & u & pf & t & pz & rd & _ & E) | (lim & _ & _ & _ & E)]].
  - rewrite E. reflexivity.
  - apply update_params_spec in E. destruct E as (_ & _ & _ & _ & ->). reflexivity.
  - rewrite E. reflexivity.
Qed.

(** * Dispatcher, reward, registry: exact effect of every message on the stored record *)

Definition opt_addr (o : option addr) (d : addr) : addr := match o with Some x => x | None => d end.

Lemma disp_execute_spec w dp self s m dp' out :
  disp_execute w dp self s m = Some (dp', out) ->
  match m with
  | DSwap _ _ | DDispatch => dp' = dp
  | DConfig hubaddr rewardaddr std bd keeper rate =>
      s = dp_owner dp /\ std = None /\ (forall r, rate = Some r -> r <= D) /\ out = [] /\
      dp' = mkDisp (dp_owner dp)
                   (match hubaddr with Some a => a | None => dp_hub dp end)
                   (match rewardaddr with Some a => a | None => dp_reward dp end)
                   (dp_std dp)
                   (match bd with Some x => x | None => dp_bd dp end)
                   (match keeper with Some a => a | None => dp_keeper dp end)
                   (match rate with Some x => x | None => dp_rate dp end)
                   (dp_swap dp) (dp_denoms dp) (dp_oracle dp) (dp_newowner dp)
  | DSetOwner a =>
      s = dp_owner dp /\ out = [] /\
      dp' = mkDisp (dp_owner dp) (dp_hub dp) (dp_reward dp) (dp_std dp) (dp_bd dp) (dp_keeper dp)
                   (dp_rate dp) (dp_swap dp) (dp_denoms dp) (dp_oracle dp) a
  | DAccept =>
      s = dp_newowner dp /\ out = [] /\
      dp' = mkDisp (dp_newowner dp) (dp_hub dp) (dp_reward dp) (dp_std dp) (dp_bd dp) (dp_keeper dp)
                   (dp_rate dp) (dp_swap dp) (dp_denoms dp) (dp_oracle dp) (dp_newowner dp)
  | DSwapContract a =>
      s = dp_owner dp /\ out = [] /\
      dp' = mkDisp (dp_owner dp) (dp_hub dp) (dp_reward dp) (dp_std dp) (dp_bd dp) (dp_keeper dp)
                   (dp_rate dp) a (dp_denoms dp) (dp_oracle dp) (dp_newowner dp)
  | DSwapDenom d add =>
      s = dp_owner dp /\ out = [] /\
      dp' = mkDisp (dp_owner dp) (dp_hub dp) (dp_reward dp) (dp_std dp) (dp_bd dp) (dp_keeper dp)
                   (dp_rate dp) (dp_swap dp)
                   (if add then dp_denoms dp ++ [d] else filter (fun x => negb (x =? d)) (dp_denoms dp))
                   (dp_oracle dp) (dp_newowner dp)
  | DOracle a =>
      s = dp_owner dp /\ out = [] /\
      dp' = mkDisp (dp_owner dp) (dp_hub dp) (dp_reward dp) (dp_std dp) (dp_bd dp) (dp_keeper dp)
                   (dp_rate dp) (dp_swap dp) (dp_denoms dp) a (dp_newowner dp)
  end.
Proof.
  intros H. destruct m; cbn [disp_execute] in H.
  - check_inv H as Hs. bind_inv H as r Hr. destruct r as [[tsei tusd] msgs].
    check_inv H as Hor. bind_inv H as s2u Hs2u. bind_inv H as u2s Hu2s. bind_inv H as info Hinfo.
    destruct info as [[od oa] ask]. inversion H; subst. reflexivity.
  - check_inv H as Hs. bind_inv H as m1 Hm1. bind_inv H as m2 Hm2. inversion H; subst. reflexivity.
  - check_inv H as Hs. check_inv H as Hstd. check_inv H as Hrate. inversion H; subst.
    apply N.eqb_eq in Hs. split; [exact Hs|]. split; [destruct std; [discriminate|reflexivity]|].
    split; [intros r ->; apply N.leb_le; exact Hrate|]. split; reflexivity.
  - check_inv H as Hs. inversion H; subst. apply N.eqb_eq in Hs. repeat split; assumption.
  - check_inv H as Hs. inversion H; subst. apply N.eqb_eq in Hs. repeat split; assumption.
  - check_inv H as Hs. inversion H; subst. apply N.eqb_eq in Hs. repeat split; auto.
  - check_inv H as Hs. inversion H; subst. apply N.eqb_eq in Hs. repeat split; auto.
  - check_inv H as Hs. inversion H; subst. apply N.eqb_eq in Hs. repeat split; auto.
Qed.

Lemma disp_execute_std w dp self s m dp' out :
  disp_execute w dp self s m = Some (dp', out) -> dp_std dp' = dp_std dp.
Proof.
  intros H. apply disp_execute_spec in H. destruct m.
  - subst. reflexivity.
  - subst. reflexivity.
  - destruct H as (_ & _ & _ & _ & ->). reflexivity.
  - destruct H as (_ & _ & ->). reflexivity.
  - destruct H as (_ & _ & ->). reflexivity.
  - destruct H as (_ & _ & ->). reflexivity.
  - destruct H as (_ & _ & ->). reflexivity.
  - destruct H as (_ & _ & ->). reflexivity.
Qed.

Lemma reward_execute_spec w r self s m r' out :
  reward_execute w r self s m = Some (r', out) ->
  match m with
  | RConfig hubaddr d swap =>
      s = rw_owner r /\ out = [] /\
      r' = mkReward (rw_owner r)
                    (match hubaddr with Some a => a | None => rw_hub r end)
                    (match d with Some x => x | None => rw_denom r end)
                    (match swap with Some a => a | None => rw_swap r end)
                    (rw_denoms r) (rw_gi r) (rw_total r) (rw_prev r) (rw_holders r) (rw_newowner r)
  | RSwapDenom d add =>
      s = rw_owner r /\ out = [] /\
      r' = mkReward (rw_owner r) (rw_hub r) (rw_denom r) (rw_swap r)
                    (if add then rw_denoms r ++ [d] else filter (fun x => negb (x =? d)) (rw_denoms r))
                    (rw_gi r) (rw_total r) (rw_prev r) (rw_holders r) (rw_newowner r)
  | RSetOwner a =>
      s = rw_owner r /\ out = [] /\ rw_config r' = rw_config r /\ rw_owner r' = rw_owner r
  | RAccept =>
      s = rw_newowner r /\ out = [] /\ rw_config r' = rw_config r /\ rw_newowner r' = rw_newowner r
  | _ => rw_config r' = rw_config r /\ rw_owner r' = rw_owner r /\ rw_newowner r' = rw_newowner r
  end.
Proof.
  intros H. destruct m; cbn [reward_execute] in H.
  - bind_inv H as all Hall. bind_inv H as rewards Hrw. bind_inv H as whole Hwh.
    bind_inv H as decimals Hdec. check_inv H as Hnz. bind_inv H as prev Hprev.
    inversion H; subst. repeat split.
  - check_inv H as Hs. inversion H; subst. apply N.eqb_eq in Hs. repeat split; assumption.
  - check_inv H as Hs. inversion H; subst. apply N.eqb_eq in Hs. repeat split; assumption.
  - check_inv H as Hs. inversion H; subst. apply N.eqb_eq in Hs. repeat split; assumption.
  - bind_inv H as dp Hdp. check_inv H as Hs. inversion H; subst. repeat split.
  - bind_inv H as dp Hdp. check_inv H as Hs.
    destruct (rw_total r =? 0); [inversion H; subst; repeat split|].
    bind_inv H as claimed Hc. bind_inv H as q Hq. bind_inv H as gi Hgi. inversion H; subst.
    repeat split.
  - bind_inv H as tok Htok. check_inv H as Hs. bind_inv H as rewards Hrw. bind_inv H as pend Hpend.
    bind_inv H as b Hb. bind_inv H as tot Htot. inversion H; subst. repeat split.
  - bind_inv H as tok Htok. check_inv H as Hs. check_inv H as Hle.
    bind_inv H as rewards Hrw. bind_inv H as pend Hpend.
    bind_inv H as b Hb. bind_inv H as tot Htot. inversion H; subst. repeat split.
  - check_inv H as Hs. inversion H; subst. apply N.eqb_eq in Hs. repeat split; auto.
Qed.

Lemma reg_execute_spec w g s m g' out :
  reg_execute w g s m = Some (g', out) ->
  match m with
  | GConfig h =>
      s = rg_owner g /\ out = [] /\
      g' = mkReg (rg_owner g) (match h with Some a => a | None => rg_hub g end) (rg_vals g)
                 (rg_newowner g)
  | _ => rg_hub g' = rg_hub g
  end.
Proof.
  intros H. destruct m; cbn [reg_execute] in H.
  - check_inv H as Hs. inversion H; subst. reflexivity.
  - check_inv H as Hs. cbn [rg_vals set_rg_vals] in H.
    destruct (remove_val v (rg_vals g)) as [|x l]; [discriminate|].
    bind_inv H as msgs Hm. inversion H; subst. reflexivity.
  - check_inv H as Hs. inversion H; subst. apply N.eqb_eq in Hs.
    repeat split; [exact Hs|]. destruct hub; [reflexivity|]. destruct g; reflexivity.
  - check_inv H as Hs. bind_inv H as msgs Hm. inversion H; subst. reflexivity.
  - check_inv H as Hs. inversion H; subst. reflexivity.
  - check_inv H as Hs. inversion H; subst. reflexivity.
Qed.

(** * White-listed messages never touch configuration *)

Definition static_view (w : world) :=
  (option_map (fun h => (h_cfg h, h_params h, h_newowner h, h_oldwait h)) (w_hub w),
   w_disp w,
   option_map (fun r => (rw_config r, rw_owner r, rw_newowner r)) (w_reward w),
   w_reg w).

Lemma emit_hub_nonadmin hm : emit_wasm_ok (WHub hm) = true -> is_admin_msg hm = false.
Proof. destruct hm; cbn; congruence. Qed.

Lemma step_msg_emitok_static w s m w' out :
  emit_ok m = true -> step_msg w s m = Some (w', out) -> static_view w' = static_view w.
Proof.
  intros Hok H. apply step_msg_inv in H.
  destruct H as [e' -> _ _ | to wm funds e1 o -> _ Hc _]; [reflexivity|].
  cbn [emit_ok] in Hok.
  call_cases Hc; subst w'; try subst wm; unfold static_view;
    cbn [w_hub w_reward w_disp w_reg set_hub set_reward set_disp set_reg set_bsei set_stsei set_env] in *;
    try reflexivity.
  - (* hub *) rewrite Hw. cbn [option_map].
    apply hub_execute_static in He; [|apply emit_hub_nonadmin; exact Hok].
    destruct He as (E1 & E2 & E3 & E4). rewrite E1, E2, E3, E4. reflexivity.
  - (* reward *) rewrite Hw. cbn [option_map]. apply reward_execute_spec in He.
    destruct Em as [-> | (n & -> & ->)].
    + destruct rm0; try discriminate Hok; destruct He as (E1 & E2 & E3); rewrite E1, E2, E3; reflexivity.
    + destruct He as (E1 & E2 & E3). rewrite E1, E2, E3. reflexivity.
  - (* dispatcher *) rewrite Hw. apply disp_execute_spec in He.
    destruct dm0; try discriminate Hok; subst d0'; reflexivity.
  - (* registry: nothing white-listed *) discriminate Hok.
Qed.

Lemma run_emitok_static fuel w stack tr w' tr' :
  run fuel w stack tr = Some (w', tr') -> Forall emitok_s stack -> static_view w' = static_view w.
Proof.
  intros H HF.
  pose (J := fun (w1 : world) (st : list (addr * cmsg)) =>
               static_view w1 = static_view w /\ Forall emitok_s st).
  assert (HJ : J w' []).
  { eapply (run_preserves_stack J); [|split; [reflexivity|exact HF]|exact H].
    intros w1 s m rest w2 out [Iv HF1] Hs. inversion HF1 as [|? ? Hk Hrest]; subst.
    unfold emitok_s, emitok in Hk. cbn [snd] in Hk. split.
    - rewrite <- Iv. eapply step_msg_emitok_static; eauto.
    - apply Forall_app. split; [eapply step_msg_emits_emitok; eauto|exact Hrest]. }
  exact (proj1 HJ).
Qed.

(** a successful run from a single root message: the root executes, then only white-listed messages *)
Lemma run_root fuel w s m tr w' tr' :
  run fuel w [(s, m)] tr = Some (w', tr') ->
  exists w1 out f, step_msg w s m = Some (w1, out) /\ static_view w' = static_view w1 /\
    Forall emitok_s out /\ fuel = S f /\ run f w1 out (tr ++ [(s, m)]) = Some (w', tr') /\
    (out = [] -> w' = w1 /\ tr' = tr ++ [(s, m)]).
Proof.
  intros H. destruct fuel as [|f]; cbn [run] in H; [discriminate|].
  bind_inv H as r Hr. destruct r as [w1 out]. cbn [fst snd] in H. rewrite app_nil_r in H.
  exists w1, out, f. split; [reflexivity|].
  pose proof (step_msg_emits_emitok _ _ _ _ _ Hr) as Hem.
  split; [eapply run_emitok_static; eauto|]. split; [exact Hem|]. split; [reflexivity|].
  split; [exact H|]. intros ->. rewrite run_nil in H. inversion H; subst. auto.
Qed.

(** projections of [static_view] *)
Lemma static_view_proj w w' : static_view w' = static_view w ->
  hub_params_of w' = hub_params_of w /\ hub_config_of w' = hub_config_of w /\
  hub_underlying w' = hub_underlying w /\ w_disp w' = w_disp w /\
  reward_config_of w' = reward_config_of w /\ w_reg w' = w_reg w.
Proof.
  unfold static_view, hub_params_of, hub_config_of, hub_underlying, reward_config_of. intros E.
  inversion E as [[Eh Ed Er Eg]]. clear E.
  destruct (w_hub w') as [h'|], (w_hub w) as [h|]; cbn [option_map] in *; try discriminate Eh;
    destruct (w_reward w') as [r'|], (w_reward w) as [r|]; cbn [option_map] in *; try discriminate Er;
    try (inversion Eh; subst); try (inversion Er; subst); repeat split; congruence.
Qed.

(** * Inversion of a message delivered to one of the four configurable contracts *)
Lemma step_msg_hub_inv w s hm f w1 out :
  step_msg w s (MWasm A_hub (WHub hm) f) = Some (w1, out) ->
  exists e1 h h' o, send_coins (w_env w) s A_hub f = Some e1 /\ w_hub w = Some h /\
    hub_execute (set_env w e1) h A_hub s f hm = Some (h', o) /\
    w1 = set_hub (set_env w e1) h' /\ out = map (fun x => (A_hub, x)) o.
Proof.
  intros H. apply step_msg_wasm_inv in H. destruct H as (e1 & o & Hsend & Hc & Hout).
  call_cases Hc; try discriminate Et.
  inversion Em; subst hm0. cbn [w_hub set_env] in Hw. exists e1, h0, h0', o. auto 6.
Qed.

Lemma step_msg_disp_inv w s dm f w1 out :
  step_msg w s (MWasm A_disp (WDisp dm) f) = Some (w1, out) ->
  exists e1 d d' o, send_coins (w_env w) s A_disp f = Some e1 /\ w_disp w = Some d /\
    disp_execute (set_env w e1) d A_disp s dm = Some (d', o) /\
    w1 = set_disp (set_env w e1) d' /\ out = map (fun x => (A_disp, x)) o.
Proof.
  intros H. apply step_msg_wasm_inv in H. destruct H as (e1 & o & Hsend & Hc & Hout).
  call_cases Hc; try discriminate Et.
  inversion Em; subst dm0. cbn [w_disp set_env] in Hw. exists e1, d0, d0', o. auto 6.
Qed.

Lemma step_msg_reward_inv w s rm f w1 out :
  step_msg w s (MWasm A_reward (WReward rm) f) = Some (w1, out) ->
  exists e1 r r' o, send_coins (w_env w) s A_reward f = Some e1 /\ w_reward w = Some r /\
    reward_execute (set_env w e1) r A_reward s rm = Some (r', o) /\
    w1 = set_reward (set_env w e1) r' /\ out = map (fun x => (A_reward, x)) o.
Proof.
  intros H. apply step_msg_wasm_inv in H. destruct H as (e1 & o & Hsend & Hc & Hout).
  call_cases Hc; try discriminate Et.
  destruct Em as [Em | (n & Em & _)]; [|discriminate Em]. inversion Em; subst rm0.
  cbn [w_reward set_env] in Hw. exists e1, r0, r0', o. auto 6.
Qed.

Lemma step_msg_reg_inv w s gm f w1 out :
  step_msg w s (MWasm A_reg (WReg gm) f) = Some (w1, out) ->
  exists e1 g g' o, send_coins (w_env w) s A_reg f = Some e1 /\ w_reg w = Some g /\
    reg_execute (set_env w e1) g s gm = Some (g', o) /\
    w1 = set_reg (set_env w e1) g' /\ out = map (fun x => (A_reg, x)) o.
Proof.
  intros H. apply step_msg_wasm_inv in H. destruct H as (e1 & o & Hsend & Hc & Hout).
  call_cases Hc; try discriminate Et.
  inversion Em; subst gm0. cbn [w_reg set_env] in Hw. exists e1, g0, g0', o. auto 6.
Qed.

(** * In the trace of a transaction, owner-only messages occur only as the root *)
Lemma Trace_emitok w stack ex w' :
  Trace w stack ex w' -> Forall emitok_s stack -> Forall emitok_s ex.
Proof.
  induction 1 as [w | w s m rest w1 out ex w' Hs HT IH]; intros HF; [constructor|].
  inversion HF as [|? ? Hk Hrest]; subst. constructor; [exact Hk|].
  apply IH. apply Forall_app. split; [eapply step_msg_emits_emitok; eauto|exact Hrest].
Qed.

Lemma Trace_root w s m ex w' :
  Trace w [(s, m)] ex w' ->
  exists w1 out ex', step_msg w s m = Some (w1, out) /\ ex = (s, m) :: ex' /\
                     Trace w1 (out ++ []) ex' w'.
Proof. intros HT. inversion HT; subst. eauto 6. Qed.

Theorem trace_root_only w s tgt m f w' tr pre x to wm ff post :
  step w (OTx s tgt m f) = (w', (true, tr)) ->
  tr = pre ++ (x, MWasm to wm ff) :: post -> admin_msg wm = true ->
  pre = [] /\ x = s /\ to = tgt /\ wm = m /\ ff = f.
Proof.
  intros H E Ha.
  assert (Hrun : run tx_fuel w [(s, MWasm tgt m f)] [] = Some (w', tr)).
  { cbn [step] in H. destruct (run tx_fuel w _ []) as [[w1 tr1]|]; inversion H; reflexivity. }
  apply run_Trace in Hrun. destruct Hrun as (ex & Etr & HT). cbn [app] in Etr. subst ex.
  apply Trace_root in HT. destruct HT as (w1 & out & ex' & Hs & E2 & HT').
  rewrite E in E2. destruct pre as [|p pre]; cbn [app] in E2.
  - inversion E2; subst. auto 6.
  - exfalso. inversion E2; subst.
    assert (HF : Forall emitok_s (pre ++ (x, MWasm to wm ff) :: post)).
    { eapply Trace_emitok; [exact HT'|]. rewrite app_nil_r. eapply step_msg_emits_emitok; eauto. }
    rewrite Forall_forall in HF. specialize (HF (x, MWasm to wm ff)).
    assert (Hin : In (x, MWasm to wm ff) (pre ++ (x, MWasm to wm ff) :: post))
      by (apply in_or_app; right; left; reflexivity).
    apply HF in Hin. unfold emitok_s, emitok in Hin. cbn [snd emit_ok] in Hin.
    apply emit_ok_noadmin in Hin. congruence.
Qed.
