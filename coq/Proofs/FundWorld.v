(** * FundWorld: the funding invariant of C01 lifted to the executor and to every history.

    "At every moment the hub's liquid balance of the staking coin covers the sum of all matured
    (released) withdrawal claims."

    Vocabulary
    - [FW_HubOK h]     : the hub stakes usei, parameters in range (C20), no legacy wait list (E6),
                         [ClaimsInv] (C07) and [LifeInv] (C08);
    - [FW w]           : operation-level invariant: if the hub is instantiated, [FW_HubOK] and
                         [WD_Fund h (bal A_hub usei)], i.e. WD_R h <= prev_hub_balance <= bank balance;
    - [FW_pend stack]  : usei that the pending messages SENT BY THE HUB still carry away from it;
    - [FW_J w stack]   : message-level invariant over (world, pending stack):
                         WD_R h <= prev_hub_balance and prev_hub_balance + FW_pend stack <= bank, no
                         pending call of WithdrawUnbonded, no pending hub message with funds attached;
    - [FW_RelEnv w]    : envelope E1' in world [w]: [GR_E1'] for the group of batches that a withdrawal
                         at the current block time would release and the coins arrived so far,
                         balance - prev_hub_balance (coins attached to the withdrawal only add to
                         them, and E1' is monotone in the arrived coins: [FW_E1'_mono]);
    - [FW_no_hub_root], [FW_hub_usei] : per-operation envelope clauses: no transaction is signed by
                         the hub's own address; the hub is instantiated with underlying = usei (E4).

    Main theorems
    - [FW_step_J]      : one executed message preserves [FW_J] (any message but a withdrawal);
    - [FW_root_withdraw]: a WithdrawUnbonded transaction root establishes [FW_J] for its Bank message;
    - [FW_tx], [FW_step]: one transaction / one operation of a history preserves [FW];
    - [FW_reachable]   : [FW] holds in every world reached from the empty world by a history inside
                         the envelope; [FW_funded]: hence WD_R h <= bank balance there;
    - [FW_withdraw_succeeds]: in every such world the handler pays any claimant whose released claims
                         are worth >= 1 exactly their value; [FW_withdraw_tx_succeeds]: the whole
                         WithdrawUnbonded transaction (handler and bank transfer) succeeds;
    - [FW_nonvacuous], [FW_withdraw_nonvacuous] : a concrete history (instantiate, wire, bond, slash,
                         unbond, advance, withdraw) satisfying every hypothesis;
    - [FW_hub_root_witness] : the clause [FW_no_hub_root] cannot be dropped in the model. *)
From Krp Require Import Tactics Prelude Fixed FMap Types Env Registry Cw20 Reward Dispatcher Hub Exec
     ExecP Hist HubFrame HubAdmin ClaimsStep ClaimsP LifeP GroupRelease WithdrawP RewardP RewardWorld
     FundWorldHub.
Open Scope N_scope.
Ltac Zify.zify_post_hook ::= idtac.

(** ** 1. hub-state part of the invariant *)
Definition FW_HubOK (h : hub) : Prop :=
  hp_underlying (h_params h) = usei /\ HPInv h /\ h_oldwait h = [] /\ ClaimsInv h /\ LifeInv h.

Lemma FW_hubok_execute w h self sender funds m h' out :
  FW_HubOK h -> hub_execute w h self sender funds m = Some (h', out) -> FW_HubOK h'.
Proof.
  intros (Hu & Hp & Ho & Hc & Hl) H.
  destruct (hub_execute_pinv _ _ _ _ _ _ _ _ H Hp) as [Hp' Hu'].
  destruct (claims_inv_execute _ _ _ _ _ _ _ _ Ho Hc H) as [Ho' Hc'].
  pose proof (life_inv_execute _ _ _ _ _ _ _ _ Hl H) as Hl'.
  unfold FW_HubOK. rewrite Hu'. auto.
Qed.

Lemma FW_hubok_instantiate sender now epoch unbonding pegfee thr updater rdenom h :
  hub_instantiate sender now epoch unbonding pegfee thr updater usei rdenom = Some h ->
  FW_HubOK h /\ hs_phb (h_state h) = 0 /\ WD_R h = 0.
Proof.
  intros H.
  destruct (hub_instantiate_pinv _ _ _ _ _ _ _ _ _ _ H) as (Hp & Hu & _).
  destruct (claims_inv_instantiate _ _ _ _ _ _ _ _ _ _ H) as [Ho Hc].
  pose proof (life_inv_instantiate _ _ _ _ _ _ _ _ _ _ H) as Hl.
  split; [unfold FW_HubOK; auto|].
  unfold hub_instantiate in H. check_inv H as Hf. inversion H; subst. split; reflexivity.
Qed.

Lemma FW_hubok_open h : FW_HubOK h -> WD_open_unreleased h.
Proof. intros (_ & _ & _ & _ & (Hs & _)). apply FW_open_unreleased. exact Hs. Qed.

(** ** 2. pending hub outflow *)
Definition FW_pend (stack : list (addr * cmsg)) : N :=
  sumN (map (fun sm : addr * cmsg => if fst sm =? A_hub then outflow usei (snd sm) else 0) stack).

Lemma FW_pend_app s1 s2 : FW_pend (s1 ++ s2) = FW_pend s1 + FW_pend s2.
Proof. unfold FW_pend. rewrite map_app, sumN_app. reflexivity. Qed.

Lemma FW_pend_cons s m rest :
  FW_pend ((s, m) :: rest) = (if s =? A_hub then outflow usei m else 0) + FW_pend rest.
Proof. reflexivity. Qed.

Lemma FW_pend_tagged_hub o : FW_pend (map (fun x => (A_hub, x)) o) = sumN (map (outflow usei) o).
Proof.
  unfold FW_pend. induction o as [|x o IH]; cbn [map sumN fst snd]; [reflexivity|].
  rewrite N.eqb_refl, IH. reflexivity.
Qed.

Lemma FW_pend_tagged_other to o : to <> A_hub -> FW_pend (map (fun x => (to, x)) o) = 0.
Proof.
  intros Hne. apply N.eqb_neq in Hne. unfold FW_pend.
  induction o as [|x o IH]; cbn [map sumN fst snd]; [reflexivity|]. rewrite Hne, IH. reflexivity.
Qed.

(** pending messages: no call of WithdrawUnbonded; the hub attaches no funds to a contract call *)
Definition FW_stk_ok (sm : addr * cmsg) : Prop :=
  FW_nwb (snd sm) = true /\
  (fst sm = A_hub -> match snd sm with MWasm _ _ f => f = [] | _ => True end).

Lemma FW_stk_ok_tagged_other to o rest :
  to <> A_hub -> forallb FW_nwb o = true -> Forall FW_stk_ok rest ->
  Forall FW_stk_ok (map (fun x => (to, x)) o ++ rest).
Proof.
  intros Hne Ho Hr. apply Forall_app. split; [|exact Hr].
  apply Forall_forall. intros sm Hin. apply in_map_iff in Hin. destruct Hin as (x & <- & Hx).
  rewrite forallb_forall in Ho. split; [apply Ho; exact Hx | intros E; cbn [fst] in E; contradiction].
Qed.

Lemma FW_stk_ok_tagged_hub o rest :
  forallb FW_okd o = true -> Forall FW_stk_ok rest ->
  Forall FW_stk_ok (map (fun x => (A_hub, x)) o ++ rest).
Proof.
  intros Ho Hr. apply Forall_app. split; [|exact Hr].
  apply Forall_forall. intros sm Hin. apply in_map_iff in Hin. destruct Hin as (x & <- & Hx).
  rewrite forallb_forall in Ho. specialize (Ho x Hx). split; cbn [fst snd].
  - apply FW_okd_nwb. exact Ho.
  - intros _. pose proof (FW_okd_nofunds x Ho) as Hf. destruct x; auto.
Qed.

(** ** 3. message-level invariant *)
Definition FW_J (w : world) (stack : list (addr * cmsg)) : Prop :=
  Forall FW_stk_ok stack /\
  forall h, w_hub w = Some h ->
    FW_HubOK h /\ WD_R h <= hs_phb (h_state h) /\
    hs_phb (h_state h) + FW_pend stack <= bal (w_env w) A_hub usei.

Lemma FW_nwb_hub_msg to hm f : FW_nwb (MWasm to (WHub hm) f) = true -> hm <> HWithdraw.
Proof. intros H ->. discriminate H. Qed.

Theorem FW_step_J w s m rest w' out :
  FW_J w ((s, m) :: rest) -> step_msg w s m = Some (w', out) -> FW_J w' (out ++ rest).
Proof.
  intros (HF & HH) H. inversion HF as [|x l Hhead HFr]; subst.
  pose proof (step_msg_bal_lower _ _ _ _ _ A_hub usei H) as Hbal.
  destruct Hhead as [Hnw Hnf]. cbn [fst snd] in Hnw, Hnf.
  apply step_msg_inv in H. destruct H as [e' -> -> Hn | to wm funds e1 o -> Hsend Hc ->].
  - (* staking / bank message *)
    cbn [app]. split; [exact HFr|]. intros h Hh. cbn [w_hub set_env] in Hh.
    destruct (HH h Hh) as (A & B & C). split; [exact A|]. split; [exact B|].
    rewrite FW_pend_cons in C. cbn [w_env set_env] in *. lia.
  - destruct (N.eq_dec to A_hub) as [->|Hne].
    + (* a call into the hub: not a withdrawal *)
      destruct Hc as [h hm h' _ -> Hw He -> | r rm r' Et _ _ _ _ | d dm d' Et _ _ _ _
                     | g gm g' Et _ _ _ _ | t cm t' Et _ _ _ _ | t cm t' Et _ _ _ _
                     | sm e' Et _ _ _ _ | Et _ _]; try (exfalso; vm_compute in Et; discriminate Et).
      cbn [w_hub set_env] in Hw.
      pose proof (FW_nwb_hub_msg _ _ _ Hnw) as Hnw'.
      destruct (HH h Hw) as (Hok & HR & Hb). pose proof Hok as (Hu & _ & Hold & _).
      destruct (FW_hub_out _ _ _ _ _ _ _ _ He Hnw') as (Hokd & p & Hsum & Hp).
      pose proof (WD_hub_execute_keeps _ _ _ _ _ _ _ _ He Hnw' Hold (FW_hubok_open h Hok)) as [Kp KR].
      rewrite FW_pend_cons in Hb.
      assert (Hbank : hs_phb (h_state h) + p + FW_pend rest <= bal e1 A_hub usei).
      { destruct (N.eq_dec s A_hub) as [->|Hs].
        - rewrite (Hnf eq_refl) in Hsend, Hp. inversion Hsend; subst e1.
          destruct Hp as [->|Hp]; [lia | discriminate Hp].
        - pose proof (FW_send_coins_credit _ _ _ _ _ usei Hsend Hs) as Hcr.
          destruct Hp as [->|Hp]; [lia|]. rewrite Hp, Hu in Hcr.
          unfold coin_sum, coin_amt in Hcr. cbn [map sumN fst snd] in Hcr. rewrite N.eqb_refl in Hcr. lia. }
      split; [apply FW_stk_ok_tagged_hub; assumption|].
      intros h0 E. cbn [w_hub set_hub] in E. inversion E; subst h0. clear E.
      split; [eapply FW_hubok_execute; eauto|]. rewrite Kp, KR. split; [exact HR|].
      rewrite FW_pend_app, FW_pend_tagged_hub. cbn [w_env set_hub set_env]. lia.
    + (* a call into another contract *)
      destruct (FW_call_other _ _ _ _ _ _ _ Hc Hne) as [Hsame Ho].
      split; [apply FW_stk_ok_tagged_other; assumption|].
      intros h Hh. rewrite Hsame in Hh. cbn [w_hub set_env] in Hh.
      destruct (HH h Hh) as (A & B & C). split; [exact A|]. split; [exact B|].
      rewrite FW_pend_cons in C. rewrite FW_pend_app, (FW_pend_tagged_other to o Hne). lia.
Qed.

(** ** 4. operation-level invariant and envelope *)
Definition FW (w : world) : Prop :=
  forall h, w_hub w = Some h -> FW_HubOK h /\ WD_Fund h (bal (w_env w) A_hub usei).

(** E1' for the group of batches that a withdrawal at the current block time would release, with
    the coins that have arrived so far (current balance - prev_hub_balance) *)
Definition FW_RelEnv (w : world) : Prop :=
  forall h, w_hub w = Some h ->
    GR_E1' (GR_group h (e_now (w_env w) - hp_unbonding (h_params h)))
           (bal (w_env w) A_hub usei - hs_phb (h_state h)).

(** contracts hold no keys: the hub's own address signs no transaction *)
Definition FW_no_hub_root (o : op) : bool :=
  match o with OTx s _ _ _ => negb (s =? A_hub) | _ => true end.

(** E4: the hub's underlying coin is the staking coin *)
Definition FW_hub_usei (o : op) : bool :=
  match o with OInstHub _ _ _ _ _ _ u _ => u =? usei | _ => true end.

Lemma FW_J_final w : FW_J w [] -> FW w.
Proof.
  intros (_ & HH) h Hh. destruct (HH h Hh) as (A & B & C). split; [exact A|].
  unfold FW_pend in C. cbn [map sumN] in C. split; lia.
Qed.

Lemma FW_J_start w s m :
  s <> A_hub -> FW_nwb m = true -> FW w -> FW_J w [(s, m)].
Proof.
  intros Hs Hnw HI. split.
  - constructor; [|constructor]. split; [exact Hnw | intros E; cbn [fst] in E; contradiction].
  - intros h Hh. destruct (HI h Hh) as (A & B & C). split; [exact A|]. split; [exact C|].
    rewrite FW_pend_cons. apply N.eqb_neq in Hs. rewrite Hs. unfold FW_pend. cbn [map sumN]. lia.
Qed.

(** the root message of a WithdrawUnbonded transaction *)
Theorem FW_root_withdraw w s to funds w1 out :
  s <> A_hub -> FW_RelEnv w -> FW w ->
  step_msg w s (MWasm to (WHub HWithdraw) funds) = Some (w1, out) -> FW_J w1 out.
Proof.
  intros Hs HE HI H.
  pose proof (step_msg_bal_lower _ _ _ _ _ A_hub usei H) as Hbal.
  assert (Es : (s =? A_hub) = false) by (apply N.eqb_neq; exact Hs). rewrite Es, N.add_0_r in Hbal.
  apply step_msg_inv in H.
  destruct H as [e' _ _ Hn | to' wm funds' e1 o Em Hsend Hc ->]; [exfalso; eapply Hn; reflexivity|].
  inversion Em; subst to' wm funds'. clear Em.
  destruct (N.eq_dec to A_hub) as [->|Hne].
  - destruct Hc as [h hm h' _ Em Hw He -> | r rm r' Et _ _ _ _ | d dm d' Et _ _ _ _
                   | g gm g' Et _ _ _ _ | t cm t' Et _ _ _ _ | t cm t' Et _ _ _ _
                   | sm e' Et _ _ _ _ | Et _ _]; try (exfalso; vm_compute in Et; discriminate Et).
    inversion Em; subst hm. clear Em. cbn [w_hub set_env] in Hw.
    destruct (HI h Hw) as (Hok & HFd). pose proof Hok as (Hu & _ & Hold & Hcl & _).
    pose proof (FW_hubok_execute _ _ _ _ _ _ _ _ Hok He) as Hok'.
    unfold hub_execute in He. check_inv He as Hp.
    pose proof (send_coins_bal_lower _ _ _ _ _ A_hub usei Hsend) as Hge. rewrite Es, N.add_0_r in Hge.
    pose proof (send_coins_now _ _ _ _ _ Hsend) as Hnow.
    assert (HFd1 : WD_Fund h (bal e1 A_hub usei)) by (destruct HFd as [F1 F2]; split; lia).
    pose proof (WD_fund_withdraw _ _ _ _ _ _ He) as Hw1. cbv zeta in Hw1.
    cbn [w_env set_env] in Hw1. rewrite Hu, Hnow in Hw1.
    assert (HE1 : GR_E1' (GR_group h (e_now (w_env w) - hp_unbonding (h_params h)))
                        (bal e1 A_hub usei - hs_phb (h_state h))).
    { eapply FW_E1'_mono; [|exact (HE h Hw)]. lia. }
    destruct (Hw1 HFd1 HE1 (FW_claims_le h _ Hcl)) as (amount & -> & Hle & HF' & Hphb).
    split.
    + cbn [map app]. constructor; [|constructor]. split; [reflexivity | intros _; exact I].
    + intros h0 E. cbn [w_hub set_hub] in E. inversion E; subst h0. clear E.
      split; [exact Hok'|].
      destruct HF' as [F1 F2]. split; [exact F2|].
      cbn [map app]. rewrite FW_pend_cons, N.eqb_refl. cbn [outflow w_env set_hub set_env].
      unfold coin_sum, coin_amt, FW_pend. cbn [map sumN fst snd]. rewrite N.eqb_refl. lia.
  - destruct (FW_call_other _ _ _ _ _ _ _ Hc Hne) as [Hsame Ho]. split.
    + rewrite <- (app_nil_r (map _ o)). apply FW_stk_ok_tagged_other; [assumption | assumption | constructor].
    + intros h Hh. rewrite Hsame in Hh. cbn [w_hub set_env] in Hh.
      destruct (HI h Hh) as (A & B & C). split; [exact A|]. split; [exact C|].
      rewrite (FW_pend_tagged_other to o Hne). lia.
Qed.

Lemma FW_nwb_false m : FW_nwb m = false -> exists to f, m = MWasm to (WHub HWithdraw) f.
Proof.
  destruct m as [to wm f| | | | | |]; try discriminate. destruct wm; try discriminate.
  destruct m; try discriminate. eauto.
Qed.

(** one transaction *)
Theorem FW_tx w s target m funds w' tr :
  s <> A_hub -> FW_RelEnv w -> FW w ->
  run tx_fuel w [(s, MWasm target m funds)] [] = Some (w', tr) -> FW w'.
Proof.
  intros Hs HE HI H. apply FW_J_final.
  destruct (FW_nwb (MWasm target m funds)) eqn:Enw.
  - eapply (run_preserves_stack FW_J); [|apply (FW_J_start w s _ Hs Enw HI) | exact H].
    intros. eapply FW_step_J; eauto.
  - apply FW_nwb_false in Enw. destruct Enw as (to & f & Em). inversion Em; subst. clear Em.
    unfold tx_fuel in H. rewrite run_S in H. bind_inv H as x Hx. destruct x as [w1 out].
    cbn [fst snd] in H. rewrite app_nil_r in H.
    pose proof (FW_root_withdraw _ _ _ _ _ _ Hs HE HI Hx) as HJ.
    eapply (run_preserves_stack FW_J); [|exact HJ | exact H].
    intros. eapply FW_step_J; eauto.
Qed.

Lemma FW_env w e :
  bal (w_env w) A_hub usei <= bal e A_hub usei -> FW w -> FW (set_env w e).
Proof.
  intros Hge HI h Hh. cbn [w_hub set_env] in Hh. cbn [w_env set_env].
  destruct (HI h Hh) as (A & F1 & F2). split; [exact A|]. split; lia.
Qed.

(** one operation of a history *)
Theorem FW_step w o :
  not_legacy o = true -> FW_no_hub_root o = true -> FW_hub_usei o = true ->
  FW_RelEnv w -> FW w -> FW (fst (step w o)).
Proof.
  intros Hl Hr Hu HE HI. destruct o; cbn [step] in *.
  - intros h Hh. discriminate Hh.
  - destruct (e_now (w_env w) + dt <=? 18446744073); cbn [fst]; [|exact HI].
    apply FW_env; [|exact HI]. unfold ev_advance.
    exact (deliver_matured_bal_ge (set_now (w_env w) (e_now (w_env w) + dt)) A_hub usei).
  - destruct (ev_slash (w_env w) v num den unb) as [e'|] eqn:E; cbn [fst]; [|exact HI].
    apply FW_env; [|exact HI]. unfold ev_slash in E.
    check_inv E as E1. check_inv E as E2. inversion E; subst. apply N.le_refl.
  - destruct (ev_accrue (w_env w) A_hub v d a) as [e'|] eqn:E; cbn [fst]; [|exact HI].
    apply FW_env; [|exact HI]. unfold ev_accrue in E.
    destruct (delegation (w_env w) A_hub v); [|discriminate]. inversion E; subst. apply N.le_refl.
  - cbn [fst]. apply FW_env; [|exact HI]. apply bal_credit_ge.
  - destruct (p =? 0); cbn [fst]; [exact HI|]. apply FW_env; [|exact HI]. apply N.le_refl.
  - cbn [fst]. apply FW_env; [|exact HI]. apply N.le_refl.
  - cbn [fst]. apply FW_env; [|exact HI]. apply N.le_refl.
  - cbn [fst]. apply FW_env; [|exact HI]. apply N.le_refl.
  - discriminate Hl.
  - cbn [fst]. intros h Hh. cbn [w_hub set_w_hub] in Hh. cbn [w_env set_w_hub].
    cbn [FW_hub_usei] in Hu. apply N.eqb_eq in Hu. subst underlying.
    destruct (FW_hubok_instantiate _ _ _ _ _ _ _ _ _ Hh) as (A & B & C).
    split; [exact A|]. unfold WD_Fund. rewrite B, C. split; lia.
  - cbn [fst]. exact HI.
  - cbn [fst]. exact HI.
  - cbn [fst]. exact HI.
  - cbn [fst]. exact HI.
  - cbn [fst]. exact HI.
  - destruct (run tx_fuel w [(sender, MWasm target m funds)] []) as [[w' tr]|] eqn:E; cbn [fst] in *;
      [|exact HI].
    cbn [FW_no_hub_root] in Hr. apply negb_true_iff, N.eqb_neq in Hr.
    exact (FW_tx w sender target m funds w' tr Hr HE HI E).
Qed.

(** ** 5. every history inside the envelope *)
Theorem FW_history ops : forall w0,
  legacy_free ops = true -> forallb FW_no_hub_root ops = true -> forallb FW_hub_usei ops = true ->
  always FW_RelEnv ops w0 -> FW w0 -> FW (run_ops ops w0).
Proof.
  unfold run_ops, legacy_free. induction ops as [|o ops IH]; intros w0 Hl Hr Hu HA HI; cbn [fold_left]; [exact HI|].
  cbn [forallb] in Hl, Hr, Hu. apply andb_true_iff in Hl, Hr, Hu.
  destruct Hl as [Hl1 Hl2], Hr as [Hr1 Hr2], Hu as [Hu1 Hu2].
  cbn [always] in HA. destruct HA as [HE HA].
  apply IH; try assumption. apply FW_step; assumption.
Qed.

Theorem FW_reachable ut ops :
  legacy_free ops = true -> forallb FW_no_hub_root ops = true -> forallb FW_hub_usei ops = true ->
  always FW_RelEnv ops (empty_world ut) -> FW (run_ops ops (empty_world ut)).
Proof. intros. apply FW_history; try assumption. intros h Hh. discriminate Hh. Qed.

(** C01, first sentence, for every reachable world *)
Theorem FW_funded ut ops h :
  legacy_free ops = true -> forallb FW_no_hub_root ops = true -> forallb FW_hub_usei ops = true ->
  always FW_RelEnv ops (empty_world ut) ->
  let w := run_ops ops (empty_world ut) in
  w_hub w = Some h ->
  WD_Fund h (bal (w_env w) A_hub usei) /\ WD_R h <= bal (w_env w) A_hub usei /\
  hp_underlying (h_params h) = usei.
Proof.
  intros Hl Hr Hu HA w Hh. destruct (FW_reachable ut ops Hl Hr Hu HA h Hh) as ((Hus & _) & F1 & F2).
  fold w in F1. split; [split; assumption|]. split; [lia | exact Hus].
Qed.

(** ** 6. the envelope holds in the final world too; a checkable sufficient condition *)
Lemma FW_always_last E : forall ops w0, always E ops w0 -> E (run_ops ops w0).
Proof.
  unfold run_ops. induction ops as [|o ops IH]; intros w0 HA; cbn [fold_left].
  - eapply always_head; exact HA.
  - cbn [always] in HA. apply IH. apply HA.
Qed.

(** (k - 1) * (coins the group expects) <= 1e18 per token type, k = batches released together *)
Definition FW_relenv_b (w : world) : bool :=
  match w_hub w with
  | None => true
  | Some h =>
      let g := GR_group h (e_now (w_env w) - hp_unbonding (h_params h)) in
      ((N.of_nat (length g) - 1) * GR_tot_s g <=? D) && ((N.of_nat (length g) - 1) * GR_tot_b g <=? D)
  end.

Lemma FW_relenv_check w : FW_relenv_b w = true -> FW_RelEnv w.
Proof.
  unfold FW_relenv_b. intros H h Hh. rewrite Hh in H. cbv zeta in H.
  apply andb_true_iff in H. destruct H as [H1 H2]. apply N.leb_le in H1, H2.
  apply FW_E1'_from_expected; assumption.
Qed.

Fixpoint FW_always_b (f : world -> bool) (ops : list op) (w : world) : bool :=
  f w && match ops with [] => true | o :: r => FW_always_b f r (fst (step w o)) end.

Lemma FW_always_check (f : world -> bool) (E : world -> Prop) :
  (forall w, f w = true -> E w) -> forall ops w, FW_always_b f ops w = true -> always E ops w.
Proof.
  intros Hf. induction ops as [|o ops IH]; intros w H; cbn [FW_always_b always] in *;
    apply andb_true_iff in H; destruct H as [H1 H2]; (split; [apply Hf; exact H1|]); [exact I|].
  apply IH. exact H2.
Qed.

(** ** 7. WithdrawUnbonded succeeds in every reachable world *)
Theorem FW_withdraw_succeeds ut ops h u :
  legacy_free ops = true -> forallb FW_no_hub_root ops = true -> forallb FW_hub_usei ops = true ->
  always FW_RelEnv ops (empty_world ut) ->
  let w := run_ops ops (empty_world ut) in
  w_hub w = Some h ->
  let balance := bal (w_env w) A_hub usei in
  let t := e_now (w_env w) - hp_unbonding (h_params h) in
  hp_unbonding (h_params h) <= e_now (w_env w) ->
  WD_E1 (GR_group h t) balance ->
  exists h1,
    process_withdraw_rate h t balance = Some h1 /\
    WD_R h1 <= balance /\
    (1 <= WD_user_val h1 u ->
     WD_user_val h1 u <= balance /\
     execute_withdraw w h A_hub u =
     Some (WD_paid h1 u balance, [MBank u [(usei, WD_user_val h1 u)]])).
Proof.
  intros Hl Hr Hu HA w Hh balance t Ht HE1.
  destruct (FW_reachable ut ops Hl Hr Hu HA h Hh) as ((Hus & _ & _ & Hcl & _) & HFd).
  pose proof (FW_always_last _ _ _ HA h Hh) as HE1'.
  pose proof (WD_withdraw_succeeds w h A_hub u) as S. cbv zeta in S. rewrite Hus in S.
  destruct (S Ht HFd HE1 HE1' (FW_claims_le h _ Hcl)) as (h1 & P1 & P2 & P3).
  exists h1. split; [exact P1|]. split; [exact P2|]. intros H1. split; [|apply P3; exact H1].
  pose proof (WD_user_val_le_R h1 u). unfold balance in *. lia.
Qed.

(** a WithdrawUnbonded transaction whose handler pays [v] out of a balance that covers [v] runs
    to completion: handler, then the bank transfer *)
Lemma FW_withdraw_tx_runs w h u h' v :
  w_hub w = Some h -> paused h = false ->
  execute_withdraw w h A_hub u = Some (h', [MBank u [(usei, v)]]) ->
  v <> 0 -> v <= bal (w_env w) A_hub usei ->
  exists e1,
    debit (w_env w) A_hub usei v = Some e1 /\
    step w (OTx u A_hub (WHub HWithdraw) []) =
    (set_env (set_hub w h') (credit e1 u usei v),
     (true, [(u, MWasm A_hub (WHub HWithdraw) []); (A_hub, MBank u [(usei, v)])])).
Proof.
  intros Hh Hp He Hnz Hle.
  destruct (debit_ok (w_env w) A_hub usei v Hle) as (e1 & Hd). exists e1. split; [exact Hd|].
  assert (S1 : step_msg w u (MWasm A_hub (WHub HWithdraw) []) =
               Some (set_hub w h', [(A_hub, MBank u [(usei, v)])])).
  { cbn [step_msg]. rewrite FW_send_coins_nil. cbn [bind]. unfold call.
    change (A_hub =? A_hub) with true. cbv iota. cbn [w_hub set_env]. rewrite Hh. cbn [bind].
    unfold hub_execute. rewrite Hp. cbn [negb].
    change (execute_withdraw (set_env w (w_env w)) h A_hub u) with (execute_withdraw w h A_hub u).
    rewrite He. cbn [bind fst snd map]. reflexivity. }
  assert (S2 : step_msg (set_hub w h') A_hub (MBank u [(usei, v)]) =
               Some (set_env (set_hub w h') (credit e1 u usei v), [])).
  { cbn [step_msg bank_send]. unfold send_coins. cbn [foldM]. unfold send_coin.
    apply N.eqb_neq in Hnz. rewrite Hnz. cbn [negb w_env set_hub]. rewrite Hd. cbn [bind]. reflexivity. }
  cbn [step]. unfold tx_fuel. rewrite run_S, S1. cbn [bind fst snd app].
  rewrite run_S, S2. cbn [bind fst snd app]. rewrite run_nil. reflexivity.
Qed.

Theorem FW_withdraw_tx_succeeds ut ops h u :
  legacy_free ops = true -> forallb FW_no_hub_root ops = true -> forallb FW_hub_usei ops = true ->
  always FW_RelEnv ops (empty_world ut) ->
  let w := run_ops ops (empty_world ut) in
  w_hub w = Some h -> paused h = false ->
  let balance := bal (w_env w) A_hub usei in
  let t := e_now (w_env w) - hp_unbonding (h_params h) in
  hp_unbonding (h_params h) <= e_now (w_env w) ->
  WD_E1 (GR_group h t) balance ->
  exists h1,
    process_withdraw_rate h t balance = Some h1 /\
    (1 <= WD_user_val h1 u ->
     let v := WD_user_val h1 u in
     exists w',
       step w (OTx u A_hub (WHub HWithdraw) []) =
       (w', (true, [(u, MWasm A_hub (WHub HWithdraw) []); (A_hub, MBank u [(usei, v)])])) /\
       w_hub w' = Some (WD_paid h1 u balance) /\
       (u <> A_hub -> bal (w_env w') u usei = bal (w_env w) u usei + v /\
                      bal (w_env w') A_hub usei = balance - v)).
Proof.
  intros Hl Hr Hu HA w Hh Hp balance t Ht HE1.
  destruct (FW_withdraw_succeeds ut ops h u Hl Hr Hu HA Hh Ht HE1) as (h1 & P1 & _ & P3).
  exists h1. split; [exact P1|]. intros H1. cbv zeta. destruct (P3 H1) as [Hle He].
  fold w in He. fold balance in He, Hle.
  destruct (FW_withdraw_tx_runs w h u _ _ Hh Hp He ltac:(lia) Hle) as (e1 & Hd & Hs).
  eexists. split; [exact Hs|]. split; [reflexivity|]. intros Hne. cbn [w_env set_env].
  destruct (debit_spec _ _ _ _ _ Hd) as (_ & D1 & D2). split.
  - rewrite bal_credit_same. rewrite D2 by congruence. reflexivity.
  - rewrite bal_credit_other by congruence. exact D1.
Qed.

(** ** 8. non-vacuity: a concrete history inside the envelope
    (ClaimsP.v: deploy and wire the six contracts, alice bonds 100000 usei for bSei, bob 50000 for
    stSei, validator 0 is slashed by 1 %, alice and bob unbond — directly and through an allowance —,
    31 s later a further unbond closes batch 1 and undelegates, 100 s later the unbonded coins are
    delivered and alice withdraws) *)
Definition FW_ex_pre : list op := cx_setup ++ cx_acts1 ++ cx_acts2 ++ [OAdvance 100].
Definition FW_ex_ops : list op := cx_setup ++ cx_acts1 ++ cx_acts2 ++ cx_acts3.

Lemma FW_ex_envelope ops : ops = FW_ex_pre \/ ops = FW_ex_ops ->
  legacy_free ops = true /\ forallb FW_no_hub_root ops = true /\ forallb FW_hub_usei ops = true /\
  always FW_RelEnv ops (empty_world 100).
Proof.
  intros [-> | ->]; (split; [reflexivity|]; split; [reflexivity|]; split; [reflexivity|];
    apply (FW_always_check FW_relenv_b); [exact FW_relenv_check | vm_compute; reflexivity]).
Qed.

(** after alice's withdrawal bob's released claims (worth 14906) are covered: 14906 <= 14907 <= 14907 *)
Example FW_nonvacuous :
  legacy_free FW_ex_ops = true /\ forallb FW_no_hub_root FW_ex_ops = true /\
  forallb FW_hub_usei FW_ex_ops = true /\ always FW_RelEnv FW_ex_ops (empty_world 100) /\
  let w := run_ops FW_ex_ops (empty_world 100) in
  exists h, w_hub w = Some h /\ WD_Fund h (bal (w_env w) A_hub usei) /\
            WD_R h = 14906 /\ hs_phb (h_state h) = 14907 /\ bal (w_env w) A_hub usei = 14907.
Proof.
  destruct (FW_ex_envelope FW_ex_ops (or_intror eq_refl)) as (A & B & C & E).
  split; [exact A|]. split; [exact B|]. split; [exact C|]. split; [exact E|]. cbv zeta.
  destruct (w_hub (run_ops FW_ex_ops (empty_world 100))) as [h|] eqn:Eh; [|vm_compute in Eh; discriminate].
  exists h. split; [reflexivity|].
  split; [exact (proj1 (FW_funded 100 FW_ex_ops h A B C E Eh))|].
  vm_compute in Eh. inversion Eh; subst h. repeat split; vm_compute; reflexivity.
Qed.

(** just before it: every hypothesis of [FW_withdraw_tx_succeeds] holds, the release makes alice's
    claims worth 20816 and bob's 14906, out of a balance of 35723 *)
Example FW_withdraw_nonvacuous :
  legacy_free FW_ex_pre = true /\ forallb FW_no_hub_root FW_ex_pre = true /\
  forallb FW_hub_usei FW_ex_pre = true /\ always FW_RelEnv FW_ex_pre (empty_world 100) /\
  let w := run_ops FW_ex_pre (empty_world 100) in
  exists h h1, w_hub w = Some h /\ paused h = false /\
    hp_unbonding (h_params h) <= e_now (w_env w) /\
    WD_E1 (GR_group h (e_now (w_env w) - hp_unbonding (h_params h))) (bal (w_env w) A_hub usei) /\
    process_withdraw_rate h (e_now (w_env w) - hp_unbonding (h_params h)) (bal (w_env w) A_hub usei)
      = Some h1 /\
    WD_user_val h1 cx_alice = 20816 /\ WD_user_val h1 cx_bob = 14906 /\
    bal (w_env w) A_hub usei = 35723 /\
    snd (step w (OTx cx_bob A_hub (WHub HWithdraw) []))
    = (true, [(cx_bob, MWasm A_hub (WHub HWithdraw) []); (A_hub, MBank cx_bob [(usei, 14906)])]).
Proof.
  destruct (FW_ex_envelope FW_ex_pre (or_introl eq_refl)) as (A & B & C & E).
  split; [exact A|]. split; [exact B|]. split; [exact C|]. split; [exact E|]. cbv zeta.
  destruct (w_hub (run_ops FW_ex_pre (empty_world 100))) as [h|] eqn:Eh; [|vm_compute in Eh; discriminate].
  vm_compute in Eh. inversion Eh; subst h. clear Eh.
  eexists _, _. split; [reflexivity|]. split; [reflexivity|].
  split; [apply N.leb_le; vm_compute; reflexivity|].
  split.
  { split; [apply N.leb_le; vm_compute; reflexivity|].
    split; [apply N.leb_le; vm_compute; reflexivity|].
    intros i e Hin. vm_compute in Hin. destruct Hin as [Hin|[]]. inversion Hin; subst i e.
    cbn [he_samt he_bamt he_swithdraw he_bwithdraw].
    repeat split; apply N.leb_le; vm_compute; reflexivity. }
  split; [vm_compute; reflexivity|].
  repeat split; vm_compute; reflexivity.
Qed.

(** the clause "the hub's address signs no transaction" is needed in the model: if the hub account
    itself bonds 10000 usei after the history above, the attached coins go from the hub to the hub
    and the Delegate messages then take 10000 out of the coins reserved for bob (14906 > 4907), whose
    withdrawal fails.  (Contracts hold no keys, so this is not a behaviour of the real chain.) *)
Lemma FW_hub_root_witness :
  let ops := FW_ex_ops ++ [OTx A_hub A_hub (WHub HBond) [(usei, 10000)]] in
  let w := run_ops ops (empty_world 100) in
  forallb FW_no_hub_root ops = false /\
  exists h, w_hub w = Some h /\ WD_R h = 14906 /\ bal (w_env w) A_hub usei = 4907 /\
            step w (OTx cx_bob A_hub (WHub HWithdraw) []) = (w, (false, [])).
Proof.
  cbv zeta. split; [reflexivity|].
  destruct (w_hub (run_ops (FW_ex_ops ++ [OTx A_hub A_hub (WHub HBond) [(usei, 10000)]]) (empty_world 100)))
    as [h|] eqn:Eh; [|vm_compute in Eh; discriminate].
  exists h. split; [reflexivity|]. vm_compute in Eh. inversion Eh; subst h. clear Eh.
  split; [vm_compute; reflexivity|]. split; [vm_compute; reflexivity|].
  cbn [step].
  destruct (run tx_fuel _ [(cx_bob, MWasm A_hub (WHub HWithdraw) [])] []) as [[w' tr]|] eqn:E;
    [vm_compute in E; discriminate E | reflexivity].
Qed.

(* restore the development's default arithmetic hook for files loaded after this one *)
Ltac Zify.zify_post_hook ::= Z.div_mod_to_equations.
