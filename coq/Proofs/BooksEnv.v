(** * BooksEnv: the staking part of the environment as seen through [delegated] (C02 a, C13).

    Main facts (all for EVERY environment satisfying the stated well-formedness):
    - [delegated_sum]        : [delegated e x] is the sum over the chain validators [VALS] of the
                               per-validator stake [dv e x v];
    - [DelWf]                : well-formedness of the delegation table (unique keys, every entry on a
                               chain validator); preserved by every staking operation and by slashing;
    - [do_delegate_spec]     : a delegation raises [delegated e x] by exactly the amount, lowers the
                               delegator's usei balance by the amount (rewards going elsewhere), keeps
                               every other delegator;
    - [do_undelegate_spec]   : an undelegation lowers [delegated e x] by exactly the amount, appends
                               one unbonding entry, never lowers a bank balance;
    - [do_redelegate_spec]   : a redelegation keeps [delegated e x] (also when src = dst), moves the
                               amount from src to dst;
    - [ev_slash_spec]        : slashing only lowers per-validator stakes, keeps the set of entries;
    - [payout_spec]          : reward payouts never touch delegations and only credit the withdraw
                               address. *)
From Krp Require Import Tactics Prelude Fixed FMap Types Env Registry Cw20 Reward Dispatcher Hub Exec
     ExecP Hist Inv.
Open Scope N_scope.

(** ** association-list facts not in Base/FMap.v *)
Section FMapMore.
  Context {K V : Type}.
  Variable eqb : K -> K -> bool.
  Hypothesis eqb_eq : forall a b, eqb a b = true <-> a = b.

  Lemma get_notin (m : fmap K V) k : ~ In k (keys m) -> get eqb m k = None.
  Proof.
    induction m as [|[k' v'] r IH]; cbn [get keys map fst In]; [reflexivity|].
    intros Hn. destruct (eqb k k') eqn:E.
    - apply eqb_eq in E. subst. exfalso. apply Hn. left. reflexivity.
    - apply IH. intros Hi. apply Hn. right. exact Hi.
  Qed.

  Lemma get_in_keys (m : fmap K V) k v : get eqb m k = Some v -> In k (keys m).
  Proof.
    induction m as [|[k' v'] r IH]; cbn [get keys map fst In]; [discriminate|].
    destruct (eqb k k') eqn:E.
    - apply eqb_eq in E. subst. auto.
    - intros H. right. apply IH. exact H.
  Qed.

  Lemma get_In (m : fmap K V) k v : get eqb m k = Some v -> In (k, v) m.
  Proof.
    induction m as [|[k' v'] r IH]; cbn [get In]; [discriminate|].
    destruct (eqb k k') eqn:E.
    - apply eqb_eq in E. subst. intros H. inversion H; subst. auto.
    - intros H. right. apply IH. exact H.
  Qed.

  Lemma keys_set (m : fmap K V) k v k' : In k' (keys (set eqb m k v)) -> k' = k \/ In k' (keys m).
  Proof.
    induction m as [|[k0 v0] r IH]; cbn [set keys map fst In].
    - intros [H|[]]; auto.
    - destruct (eqb k k0) eqn:E; cbn [map fst In].
      + intros [H|H]; auto.
      + intros [H|H]; [auto|]. destruct (IH H); auto.
  Qed.

  Lemma nodup_set (m : fmap K V) k v : NoDup (keys m) -> NoDup (keys (set eqb m k v)).
  Proof.
    induction m as [|[k0 v0] r IH]; cbn [set keys map fst]; intros Hn.
    - constructor; [intros []|constructor].
    - destruct (eqb k k0) eqn:E; cbn [map fst].
      + apply eqb_eq in E. subst. exact Hn.
      + inversion Hn as [|? ? Hnotin Hr]; subst. constructor; [|apply IH; exact Hr].
        intros Hi. apply keys_set in Hi. destruct Hi as [->|Hi]; [|contradiction].
        rewrite (eqb_refl eqb eqb_eq) in E. discriminate.
  Qed.

  Lemma keys_del (m : fmap K V) k k' : In k' (keys (del eqb m k)) -> In k' (keys m).
  Proof.
    induction m as [|[k0 v0] r IH]; cbn [del keys map fst In]; [auto|].
    destruct (eqb k k0); cbn [map fst In]; [auto|]. intros [H|H]; auto.
  Qed.

  Lemma nodup_del (m : fmap K V) k : NoDup (keys m) -> NoDup (keys (del eqb m k)).
  Proof.
    induction m as [|[k0 v0] r IH]; cbn [del keys map fst]; intros Hn; [constructor|].
    inversion Hn as [|? ? Hnotin Hr]; subst.
    destruct (eqb k k0); cbn [map fst]; [exact Hr|].
    constructor; [|apply IH; exact Hr]. intros Hi. apply keys_del in Hi. contradiction.
  Qed.

  Lemma get_del_same (m : fmap K V) k : NoDup (keys m) -> get eqb (del eqb m k) k = None.
  Proof.
    induction m as [|[k0 v0] r IH]; cbn [del keys map fst]; intros Hn; [reflexivity|].
    inversion Hn as [|? ? Hnotin Hr]; subst.
    destruct (eqb k k0) eqn:E.
    - apply eqb_eq in E. subst. apply get_notin. exact Hnotin.
    - cbn [get]. rewrite E. apply IH. exact Hr.
  Qed.

  Lemma In_set (m : fmap K V) k v kv : In kv (set eqb m k v) -> kv = (k, v) \/ In kv m.
  Proof.
    induction m as [|[k0 v0] r IH]; cbn [set In].
    - intros [H|[]]; auto.
    - destruct (eqb k k0); cbn [In].
      + intros [H|H]; auto.
      + intros [H|H]; [auto|]. destruct (IH H); auto.
  Qed.

  Lemma In_del (m : fmap K V) k kv : In kv (del eqb m k) -> In kv m.
  Proof.
    induction m as [|[k0 v0] r IH]; cbn [del In]; [auto|].
    destruct (eqb k k0); cbn [In]; [auto|]. intros [H|H]; auto.
  Qed.
End FMapMore.

(** ** sums over a duplicate-free list of validators *)
Lemma sumN_map_ext (f g : val -> N) l :
  (forall v, In v l -> g v = f v) -> sumN (map g l) = sumN (map f l).
Proof.
  induction l as [|a l IH]; cbn [map sumN]; intros H; [reflexivity|].
  rewrite (H a) by (left; reflexivity). rewrite IH; [reflexivity|].
  intros v Hv. apply H. right. exact Hv.
Qed.

Lemma sumN_map_le (f g : val -> N) l :
  (forall v, In v l -> g v <= f v) -> sumN (map g l) <= sumN (map f l).
Proof.
  induction l as [|a l IH]; cbn [map sumN]; intros H; [lia|].
  pose proof (H a (or_introl eq_refl)) as Ha.
  assert (Hr : sumN (map g l) <= sumN (map f l)) by (apply IH; intros v Hv; apply H; right; exact Hv).
  lia.
Qed.

Lemma sumN_map_upd (f g : val -> N) v0 l :
  NoDup l -> In v0 l -> (forall v, v <> v0 -> g v = f v) ->
  sumN (map g l) + f v0 = sumN (map f l) + g v0.
Proof.
  induction l as [|a l IH]; cbn [map sumN In]; intros Hn Hi He; [contradiction|].
  inversion Hn as [|? ? Hnotin Hr]; subst.
  destruct Hi as [->|Hi].
  - assert (E : sumN (map g l) = sumN (map f l)).
    { apply sumN_map_ext. intros v Hv. apply He. intros ->. contradiction. }
    lia.
  - assert (Hne : a <> v0) by (intros ->; contradiction).
    rewrite (He a Hne). specialize (IH Hr Hi He). lia.
Qed.

Lemma VALS_nodup : NoDup VALS.
Proof. unfold VALS. repeat (constructor; [cbn [In]; intuition discriminate|]). constructor. Qed.

Lemma is_val_In v : is_val v = true -> In v VALS.
Proof.
  unfold is_val, VALS. intros H.
  assert (C : v = 0 \/ v = 1 \/ v = 2 \/ v = 3 \/ v = 4 \/ v = 5 \/ v = 6 \/ v = 7 \/
              v = 8 \/ v = 9 \/ v = 10 \/ v = 11) by lia.
  cbn [In]. intuition.
Qed.

Lemma In_VALS_is_val v : In v VALS -> is_val v = true.
Proof. unfold VALS, is_val. cbn [In]. intros H. intuition; subst; reflexivity. Qed.

(** ** per-validator stake and [delegated] *)
Definition dv (e : env) (x : addr) (v : val) : N :=
  match delegation e x v with Some a => a | None => 0 end.

Lemma delegated_sum_gen e x l :
  sumN (map snd (flat_map (fun v => match delegation e x v with Some a => [(v, a)] | None => [] end) l))
  = sumN (map (dv e x) l).
Proof.
  induction l as [|a l IH]; cbn [flat_map map sumN]; [reflexivity|].
  rewrite map_app, sumN_app, IH. unfold dv at 2.
  destruct (delegation e x a); cbn [map snd sumN]; lia.
Qed.

Lemma delegated_sum e x : delegated e x = sumN (map (dv e x) VALS).
Proof. unfold delegated, all_delegations. apply delegated_sum_gen. Qed.

(** the list returned by AllDelegations is in VALS order and lists exactly the existing entries *)
Lemma all_delegations_In e x v a :
  In (v, a) (all_delegations e x) <-> (In v VALS /\ delegation e x v = Some a).
Proof.
  unfold all_delegations. rewrite in_flat_map. split.
  - intros (v' & Hv & Hi). destruct (delegation e x v') eqn:E; [|contradiction].
    destruct Hi as [Hi|[]]. inversion Hi; subst. auto.
  - intros (Hv & E). exists v. split; [exact Hv|]. rewrite E. left. reflexivity.
Qed.

Lemma all_delegations_vals e x :
  map fst (all_delegations e x) = filter (fun v => is_some (delegation e x v)) VALS.
Proof.
  unfold all_delegations. induction VALS as [|a l IH]; cbn [flat_map filter map]; [reflexivity|].
  rewrite map_app, IH. destruct (delegation e x a); cbn [is_some map fst app]; reflexivity.
Qed.

Lemma all_delegations_ext e e' x :
  (forall v, In v VALS -> delegation e' x v = delegation e x v) ->
  all_delegations e' x = all_delegations e x.
Proof.
  unfold all_delegations. induction VALS as [|a l IH]; cbn [flat_map]; intros H; [reflexivity|].
  rewrite (H a) by (left; reflexivity). rewrite IH; [reflexivity|].
  intros v Hv. apply H. right. exact Hv.
Qed.

Lemma all_delegations_same_del e e' x : e_del e' = e_del e -> all_delegations e' x = all_delegations e x.
Proof. intros H. apply all_delegations_ext. intros v _. unfold delegation. rewrite H. reflexivity. Qed.

Lemma delegated_same_del e e' x : e_del e' = e_del e -> delegated e' x = delegated e x.
Proof. intros H. unfold delegated. rewrite (all_delegations_same_del e e' x H). reflexivity. Qed.

Lemma all_delegations_nil e x :
  all_delegations e x = [] <-> (forall v, In v VALS -> delegation e x v = None).
Proof.
  split.
  - intros H v Hv. destruct (delegation e x v) as [a|] eqn:E; [|reflexivity].
    assert (Hi : In (v, a) (all_delegations e x)) by (apply all_delegations_In; auto).
    rewrite H in Hi. contradiction.
  - intros H. destruct (all_delegations e x) as [|[v a] r] eqn:E; [reflexivity|].
    assert (Hi : In (v, a) (all_delegations e x)) by (rewrite E; left; reflexivity).
    apply all_delegations_In in Hi. destruct Hi as (Hv & Hd). rewrite (H v Hv) in Hd. discriminate.
Qed.

Lemma delegated_pos_entries e x : 0 < delegated e x -> all_delegations e x <> [].
Proof. unfold delegated. intros H E. rewrite E in H. cbn in H. lia. Qed.

Lemma dv_le_delegated e x v : is_val v = true -> dv e x v <= delegated e x.
Proof.
  intros Hv. rewrite delegated_sum. apply is_val_In in Hv.
  induction VALS as [|a l IH]; cbn [map sumN In] in *; [contradiction|].
  destruct Hv as [->|Hv]; [lia|]. specialize (IH Hv). lia.
Qed.

(** ** well-formed delegation tables *)
Definition DelWf (e : env) : Prop :=
  NoDup (keys (e_del e)) /\ (forall k a, In (k, a) (e_del e) -> is_val (snd k) = true).

Lemma DelWf_same_del e e' : e_del e' = e_del e -> DelWf e -> DelWf e'.
Proof. unfold DelWf. intros ->. auto. Qed.

Lemma DelWf_entry e x v a : DelWf e -> delegation e x v = Some a -> is_val v = true.
Proof.
  intros [_ Hv] H. unfold delegation in H. apply (get_In eqbNN eqbNN_eq) in H.
  apply (Hv (x, v) a H).
Qed.

Lemma DelWf_set e k a : DelWf e -> is_val (snd k) = true -> DelWf (set_del e (set eqbNN (e_del e) k a)).
Proof.
  intros [Hn Hv] Hk. split; cbn [e_del set_del].
  - apply (nodup_set eqbNN eqbNN_eq). exact Hn.
  - intros k' a' Hi. apply In_set in Hi. destruct Hi as [Hi|Hi]; [inversion Hi; subst; exact Hk|].
    eapply Hv; eauto.
Qed.

Lemma DelWf_del e k : DelWf e -> DelWf (set_del e (del eqbNN (e_del e) k)).
Proof.
  intros [Hn Hv]. split; cbn [e_del set_del].
  - apply nodup_del. exact Hn.
  - intros k' a' Hi. apply In_del in Hi. eapply Hv; eauto.
Qed.

Lemma DelWf_empty ut : DelWf (empty_env ut).
Proof. split; cbn; [constructor | intros k a []]. Qed.

(** ** bank primitives *)
Lemma bal_credit_same e a d x : bal (credit e a d x) a d = bal e a d + x.
Proof. unfold bal at 1, getN, credit. cbn [e_bank set_bank]. rewrite (get_set_same eqbNN eqbNN_eq). reflexivity. Qed.

Lemma bal_credit_other e a d x a' d' : (a', d') <> (a, d) -> bal (credit e a d x) a' d' = bal e a' d'.
Proof.
  intros Hne. unfold bal, getN, credit. cbn [e_bank set_bank].
  rewrite (get_set_other eqbNN eqbNN_eq) by exact Hne. reflexivity.
Qed.

Lemma bal_credit_ge e a d x a' d' : bal e a' d' <= bal (credit e a d x) a' d'.
Proof.
  destruct (eqbNN (a', d') (a, d)) eqn:E.
  - apply eqbNN_eq in E. inversion E; subst. rewrite bal_credit_same. lia.
  - rewrite bal_credit_other; [lia|]. intros Heq. apply eqbNN_eq in Heq. congruence.
Qed.

Lemma debit_spec e a d x e' :
  debit e a d x = Some e' ->
  x <= bal e a d /\ bal e' a d = bal e a d - x /\
  (forall a' d', (a', d') <> (a, d) -> bal e' a' d' = bal e a' d') /\
  e' = set_bank e (e_bank e').
Proof.
  unfold debit. intros H. check_inv H as Hle. inversion H; subst. clear H.
  split; [lia|]. split.
  - unfold bal at 1, getN. cbn [e_bank set_bank]. rewrite (get_set_same eqbNN eqbNN_eq). reflexivity.
  - split; [|reflexivity]. intros a' d' Hne. unfold bal, getN. cbn [e_bank set_bank].
    rewrite (get_set_other eqbNN eqbNN_eq) by exact Hne. reflexivity.
Qed.

(** everything except bank and pending rewards *)
Definition env_static (e e' : env) : Prop :=
  e_now e' = e_now e /\ e_ut e' = e_ut e /\ e_del e' = e_del e /\ e_unb e' = e_unb e /\
  e_wdaddr e' = e_wdaddr e /\ e_noredel e' = e_noredel e.

Lemma env_static_refl e : env_static e e. Proof. repeat split. Qed.
Lemma env_static_trans a b c : env_static a b -> env_static b c -> env_static a c.
Proof.
  unfold env_static. intros (A1 & A2 & A3 & A4 & A5 & A6) (B1 & B2 & B3 & B4 & B5 & B6).
  repeat split; congruence.
Qed.

Lemma credit_static e a d x : env_static e (credit e a d x). Proof. repeat split. Qed.
Lemma debit_static e a d x e' : debit e a d x = Some e' -> env_static e e'.
Proof. unfold debit. intros H. check_inv H as Hle. inversion H; subst. repeat split. Qed.

Lemma withdraw_addr_static e e' x : env_static e e' -> withdraw_addr e' x = withdraw_addr e x.
Proof. intros (_ & _ & _ & _ & H & _). unfold withdraw_addr. rewrite H. reflexivity. Qed.

(** ** reward payout: credits only the withdraw address, never touches delegations *)
Definition pay_rel (e0 : env) (to : addr) (e : env) : Prop :=
  env_static e0 e /\
  (forall a d, a <> to -> bal e a d = bal e0 a d) /\ (forall a d, bal e0 a d <= bal e a d).

Lemma payout_spec e x v : pay_rel e (withdraw_addr e x) (payout e x v).
Proof.
  unfold payout.
  assert (G : forall l e1, pay_rel e (withdraw_addr e x) e1 ->
            pay_rel e (withdraw_addr e x)
              (fold_left (fun e d => let p := pending e x v d in
                 if p =? 0 then e
                 else credit (set_pend e (set eqbAVD (e_pend e) (x, (v, d)) 0)) (withdraw_addr e x) d p) l e1)).
  { induction l as [|d l IH]; intros e1 H1; cbn [fold_left]; [exact H1|].
    apply IH. cbn zeta. destruct (pending e1 x v d =? 0); [exact H1|].
    destruct H1 as (Hs & Ho & Hg).
    assert (Hw : withdraw_addr e1 x = withdraw_addr e x) by (apply withdraw_addr_static; exact Hs).
    rewrite Hw. split; [|split].
    - eapply env_static_trans; [exact Hs|]. repeat split.
    - intros a d' Hne. rewrite bal_credit_other by congruence. apply Ho. exact Hne.
    - intros a d'. eapply N.le_trans; [apply Hg|]. eapply N.le_trans; [|apply bal_credit_ge].
      unfold bal. cbn [e_bank set_pend]. lia. }
  apply G. split; [apply env_static_refl|]. split; intros; lia.
Qed.

Lemma payout_if_entry_spec e x v : pay_rel e (withdraw_addr e x) (payout_if_entry e x v).
Proof.
  unfold payout_if_entry. destruct (delegation e x v); [apply payout_spec|].
  split; [apply env_static_refl|]. split; intros; lia.
Qed.

Lemma pay_rel_del e to e1 : pay_rel e to e1 -> e_del e1 = e_del e.
Proof. intros ((_ & _ & H & _) & _). exact H. Qed.

(** ** delegation lookups after a table update *)
Lemma delegation_set e k a x v :
  delegation (set_del e (set eqbNN (e_del e) k a)) x v = if eqbNN (x, v) k then Some a else delegation e x v.
Proof.
  unfold delegation. cbn [e_del set_del]. destruct (eqbNN (x, v) k) eqn:E.
  - apply eqbNN_eq in E. subst. apply (get_set_same eqbNN eqbNN_eq).
  - apply (get_set_other eqbNN eqbNN_eq). intros Heq. apply eqbNN_eq in Heq. congruence.
Qed.

Lemma delegation_del e k x v : NoDup (keys (e_del e)) ->
  delegation (set_del e (del eqbNN (e_del e) k)) x v = if eqbNN (x, v) k then None else delegation e x v.
Proof.
  intros Hn. unfold delegation. cbn [e_del set_del]. destruct (eqbNN (x, v) k) eqn:E.
  - apply eqbNN_eq in E. subst. apply (get_del_same eqbNN eqbNN_eq). exact Hn.
  - apply (get_del_other eqbNN eqbNN_eq). intros Heq. apply eqbNN_eq in Heq. congruence.
Qed.

Lemma eqbNN_pair_false (x y : addr) (v v' : val) : (x, v) <> (y, v') -> eqbNN (x, v) (y, v') = false.
Proof. intros H. destruct (eqbNN (x, v) (y, v')) eqn:E; [apply eqbNN_eq in E; contradiction|reflexivity]. Qed.

(** a change of one validator's entry, seen through [delegated] *)
Lemma delegated_upd e e' x v0 :
  is_val v0 = true -> (forall v, v <> v0 -> dv e' x v = dv e x v) ->
  delegated e' x + dv e x v0 = delegated e x + dv e' x v0.
Proof.
  intros Hv He. rewrite !delegated_sum.
  apply sumN_map_upd; [apply VALS_nodup | apply is_val_In; exact Hv | exact He].
Qed.

Lemma delegated_other e e' x :
  (forall v, dv e' x v = dv e x v) -> delegated e' x = delegated e x.
Proof. intros H. rewrite !delegated_sum. apply sumN_map_ext. intros v _. apply H. Qed.

(** ** MsgDelegate *)
Lemma do_delegate_spec e x v c e' :
  do_delegate e x v c = Some e' ->
  fst c = usei /\ 0 < snd c /\ is_val v = true /\ snd c <= bal e x usei /\
  delegation e' x v = Some (dv e x v + snd c) /\
  (forall y v', (y, v') <> (x, v) -> delegation e' y v' = delegation e y v') /\
  delegated e' x = delegated e x + snd c /\
  (forall y, y <> x -> all_delegations e' y = all_delegations e y) /\
  e_unb e' = e_unb e /\ e_wdaddr e' = e_wdaddr e /\ e_noredel e' = e_noredel e /\
  e_now e' = e_now e /\ e_ut e' = e_ut e /\
  (withdraw_addr e x <> x -> bal e' x usei = bal e x usei - snd c) /\
  (forall a d, (a, d) <> (x, usei) -> bal e a d <= bal e' a d) /\
  (forall a d, a <> x -> a <> withdraw_addr e x -> bal e' a d = bal e a d) /\
  (DelWf e -> DelWf e').
Proof.
  unfold do_delegate. intros H. check_inv H as Hc. check_inv H as Hv. check_inv H as Hb.
  unfold staking_coin_ok in Hc. apply andb_true_iff in Hc. destruct Hc as [Hd Hnz].
  pose proof (payout_if_entry_spec e x v) as (Hst & Hoth & Hge).
  set (e1 := payout_if_entry e x v) in *.
  bind_inv H as e2 He2. pose proof (debit_static _ _ _ _ _ He2) as Hst2.
  apply debit_spec in He2. destruct He2 as (Hle2 & Hb2 & Hbo2 & _).
  inversion H; subst e'. clear H.
  assert (Hdel2 : e_del e2 = e_del e).
  { destruct Hst as (_ & _ & A & _). destruct Hst2 as (_ & _ & B & _). congruence. }
  assert (Hd2 : forall y v', delegation e2 y v' = delegation e y v').
  { intros. unfold delegation. rewrite Hdel2. reflexivity. }
  assert (Hcur : match delegation e2 x v with Some a => a | None => 0 end = dv e x v).
  { unfold dv. rewrite Hd2. reflexivity. }
  rewrite Hcur.
  assert (Hsame : delegation (set_del e2 (set eqbNN (e_del e2) (x, v) (dv e x v + snd c))) x v
                  = Some (dv e x v + snd c)).
  { rewrite delegation_set. rewrite (eqb_refl eqbNN eqbNN_eq). reflexivity. }
  assert (Hothd : forall y v', (y, v') <> (x, v) ->
            delegation (set_del e2 (set eqbNN (e_del e2) (x, v) (dv e x v + snd c))) y v' = delegation e y v').
  { intros y v' Hne. rewrite delegation_set, (eqbNN_pair_false _ _ _ _ Hne). apply Hd2. }
  split; [lia|]. split; [lia|]. split; [reflexivity|]. split; [lia|].
  split; [exact Hsame|]. split; [exact Hothd|].
  split.
  { pose proof (delegated_upd e (set_del e2 (set eqbNN (e_del e2) (x, v) (dv e x v + snd c))) x v Hv) as U.
    assert (Hn : dv (set_del e2 (set eqbNN (e_del e2) (x, v) (dv e x v + snd c))) x v = dv e x v + snd c).
    { unfold dv at 1. rewrite Hsame. reflexivity. }
    rewrite Hn in U.
    assert (Ho : forall v1, v1 <> v ->
              dv (set_del e2 (set eqbNN (e_del e2) (x, v) (dv e x v + snd c))) x v1 = dv e x v1).
    { intros v1 Hne. unfold dv. rewrite Hothd by congruence. reflexivity. }
    specialize (U Ho). lia. }
  split.
  { intros y Hne. apply all_delegations_ext. intros v1 _. apply Hothd. congruence. }
  destruct Hst as (S1 & S2 & S3 & S4 & S5 & S6). destruct Hst2 as (T1 & T2 & T3 & T4 & T5 & T6).
  cbn [e_unb e_wdaddr e_noredel e_now e_ut set_del].
  split; [congruence|]. split; [congruence|]. split; [congruence|]. split; [congruence|].
  split; [congruence|].
  split.
  { intros Hw. unfold bal at 1. cbn [e_bank set_del]. fold (bal e2 x usei). rewrite Hb2.
    rewrite Hoth by congruence. reflexivity. }
  split.
  { intros a d Hne. unfold bal at 2. cbn [e_bank set_del]. fold (bal e2 a d).
    rewrite Hbo2 by exact Hne. apply Hge. }
  split.
  { intros a d Hna Hnw. unfold bal at 1. cbn [e_bank set_del]. fold (bal e2 a d).
    rewrite Hbo2 by congruence. apply Hoth. exact Hnw. }
  intros Hwf. assert (Hwf2 : DelWf e2) by (eapply DelWf_same_del; [exact Hdel2|exact Hwf]).
  apply DelWf_set; [exact Hwf2 | exact Hv].
Qed.

(** ** MsgUndelegate *)
Lemma do_undelegate_spec e x v c e' :
  do_undelegate e x v c = Some e' -> DelWf e ->
  fst c = usei /\ 0 < snd c /\ snd c <= dv e x v /\ is_val v = true /\
  dv e' x v = dv e x v - snd c /\
  (forall y v', (y, v') <> (x, v) -> delegation e' y v' = delegation e y v') /\
  delegated e' x + snd c = delegated e x /\
  (forall y, y <> x -> all_delegations e' y = all_delegations e y) /\
  e_unb e' = e_unb e ++ [(x, v, snd c, e_now e + e_ut e)] /\
  e_wdaddr e' = e_wdaddr e /\ e_noredel e' = e_noredel e /\ e_now e' = e_now e /\ e_ut e' = e_ut e /\
  (forall a d, a <> withdraw_addr e x -> bal e' a d = bal e a d) /\
  (forall a d, bal e a d <= bal e' a d) /\
  DelWf e'.
Proof.
  unfold do_undelegate. intros H Hwf. check_inv H as Hc.
  unfold staking_coin_ok in Hc. apply andb_true_iff in Hc. destruct Hc as [Hd Hnz].
  destruct (delegation e x v) as [cur|] eqn:Ecur; [|discriminate]. check_inv H as Hle.
  pose proof (DelWf_entry e x v cur Hwf Ecur) as Hv.
  pose proof (payout_spec e x v) as (Hst & Hoth & Hge).
  set (e1 := payout e x v) in *.
  assert (Hdel1 : e_del e1 = e_del e) by (destruct Hst as (_ & _ & A & _); exact A).
  assert (Hwf1 : DelWf e1) by (eapply DelWf_same_del; [exact Hdel1|exact Hwf]).
  assert (Hd1 : forall y v', delegation e1 y v' = delegation e y v').
  { intros. unfold delegation. rewrite Hdel1. reflexivity. }
  assert (Hdv : dv e x v = cur) by (unfold dv; rewrite Ecur; reflexivity).
  set (dl := if cur - snd c =? 0 then del eqbNN (e_del e1) (x, v) else set eqbNN (e_del e1) (x, v) (cur - snd c)) in *.
  inversion H; subst e'. clear H.
  assert (Hget : forall y v', delegation (set_del e1 dl) y v' =
            if eqbNN (y, v') (x, v) then (if cur - snd c =? 0 then None else Some (cur - snd c))
            else delegation e y v').
  { intros y v'. unfold dl. destruct (cur - snd c =? 0).
    - rewrite delegation_del by (apply Hwf1). destruct (eqbNN (y, v') (x, v)); [reflexivity|apply Hd1].
    - rewrite delegation_set. destruct (eqbNN (y, v') (x, v)); [reflexivity|apply Hd1]. }
  assert (Hdl_same : forall y v', delegation (set_unb (set_del e1 dl) (e_unb e1 ++ [(x, v, snd c, e_now e + e_ut e)])) y v'
                                  = delegation (set_del e1 dl) y v') by reflexivity.
  set (e' := set_unb (set_del e1 dl) (e_unb e1 ++ [(x, v, snd c, e_now e + e_ut e)])) in *.
  assert (Hsame : dv e' x v = cur - snd c).
  { unfold dv. rewrite Hdl_same, Hget, (eqb_refl eqbNN eqbNN_eq).
    destruct (cur - snd c =? 0) eqn:Ez; lia. }
  assert (Hothd : forall y v', (y, v') <> (x, v) -> delegation e' y v' = delegation e y v').
  { intros y v' Hne. rewrite Hdl_same, Hget, (eqbNN_pair_false _ _ _ _ Hne). reflexivity. }
  split; [lia|]. split; [lia|]. split; [lia|]. split; [exact Hv|].
  split; [rewrite Hdv; exact Hsame|]. split; [exact Hothd|].
  split.
  { pose proof (delegated_upd e e' x v Hv) as U.
    assert (Ho : forall v1, v1 <> v -> dv e' x v1 = dv e x v1).
    { intros v1 Hne. unfold dv. rewrite Hothd by congruence. reflexivity. }
    specialize (U Ho). lia. }
  split.
  { intros y Hne. apply all_delegations_ext. intros v1 _. apply Hothd. congruence. }
  destruct Hst as (S1 & S2 & S3 & S4 & S5 & S6).
  unfold e'. cbn [e_unb e_wdaddr e_noredel e_now e_ut set_del set_unb].
  split; [rewrite S4; reflexivity|]. split; [exact S5|]. split; [exact S6|]. split; [exact S1|].
  split; [exact S2|].
  split; [intros a d Hne; apply Hoth; exact Hne|]. split; [intros a d; apply Hge|].
  apply (DelWf_same_del (set_del e1 dl)); [reflexivity|].
  unfold dl. destruct (cur - snd c =? 0); [apply DelWf_del; exact Hwf1 | apply DelWf_set; [exact Hwf1|exact Hv]].
Qed.

(** ** single-entry updates of the delegation table *)
Lemma entry_set_spec e (x : addr) (v : val) a :
  DelWf e -> is_val v = true ->
  let e1 := set_del e (set eqbNN (e_del e) (x, v) a) in
  delegation e1 x v = Some a /\
  (forall (y : addr) (v' : val), (y, v') <> (x, v) -> delegation e1 y v' = delegation e y v') /\ DelWf e1.
Proof.
  intros Hwf Hv e1. unfold e1. split; [|split].
  - rewrite delegation_set, (eqb_refl eqbNN eqbNN_eq). reflexivity.
  - intros y v' Hne. rewrite delegation_set, (eqbNN_pair_false _ _ _ _ Hne). reflexivity.
  - apply DelWf_set; assumption.
Qed.

Lemma entry_lower_spec e (x : addr) (v : val) r :
  DelWf e -> is_val v = true ->
  let e1 := set_del e (if r =? 0 then del eqbNN (e_del e) (x, v) else set eqbNN (e_del e) (x, v) r) in
  delegation e1 x v = (if r =? 0 then None else Some r) /\
  (forall (y : addr) (v' : val), (y, v') <> (x, v) -> delegation e1 y v' = delegation e y v') /\ DelWf e1.
Proof.
  intros Hwf Hv e1. unfold e1. destruct (r =? 0).
  - split; [|split].
    + rewrite delegation_del by apply Hwf. rewrite (eqb_refl eqbNN eqbNN_eq). reflexivity.
    + intros y v' Hne. rewrite delegation_del by apply Hwf. rewrite (eqbNN_pair_false _ _ _ _ Hne). reflexivity.
    + apply DelWf_del. exact Hwf.
  - apply entry_set_spec; assumption.
Qed.

Lemma delegated_point e e1 (x : addr) (v : val) :
  is_val v = true ->
  (forall (y : addr) (v' : val), (y, v') <> (x, v) -> delegation e1 y v' = delegation e y v') ->
  delegated e1 x + dv e x v = delegated e x + dv e1 x v /\
  (forall y, y <> x -> all_delegations e1 y = all_delegations e y).
Proof.
  intros Hv Ho. split.
  - apply delegated_upd; [exact Hv|]. intros v1 Hne. unfold dv. rewrite Ho by congruence. reflexivity.
  - intros y Hne. apply all_delegations_ext. intros v1 _. apply Ho. congruence.
Qed.

(** ** MsgBeginRedelegate *)
Lemma do_redelegate_spec e x src dst c e' :
  do_redelegate e x src dst c = Some e' -> DelWf e ->
  fst c = usei /\ 0 < snd c /\ can_redelegate e src = true /\ snd c <= dv e x src /\
  is_val src = true /\ is_val dst = true /\
  (src <> dst -> dv e' x src = dv e x src - snd c /\ dv e' x dst = dv e x dst + snd c /\
                 (snd c = dv e x src -> delegation e' x src = None)) /\
  (src = dst -> dv e' x src = dv e x src) /\
  (forall y v', (y, v') <> (x, src) -> (y, v') <> (x, dst) -> delegation e' y v' = delegation e y v') /\
  delegated e' x = delegated e x /\
  (forall y, y <> x -> all_delegations e' y = all_delegations e y) /\
  delegation e' x dst <> None /\
  e_unb e' = e_unb e /\ e_wdaddr e' = e_wdaddr e /\ e_noredel e' = e_noredel e /\
  e_now e' = e_now e /\ e_ut e' = e_ut e /\
  (forall a d, a <> withdraw_addr e x -> bal e' a d = bal e a d) /\
  (forall a d, bal e a d <= bal e' a d) /\
  DelWf e'.
Proof.
  unfold do_redelegate. intros H Hwf. check_inv H as Hc.
  unfold staking_coin_ok in Hc. apply andb_true_iff in Hc. destruct Hc as [Hd Hnz].
  check_inv H as Hcan.
  destruct (delegation e x src) as [cur|] eqn:Ecur; [|discriminate]. check_inv H as Hle.
  destruct (is_val dst) eqn:Hdst; [|discriminate].
  pose proof (DelWf_entry e x src cur Hwf Ecur) as Hsrc.
  pose proof (payout_spec e x src) as (Hst1 & Hoth1 & Hge1).
  set (e1 := payout e x src) in *.
  pose proof (payout_if_entry_spec e1 x dst) as (Hst2 & Hoth2 & Hge2).
  set (e2 := payout_if_entry e1 x dst) in *.
  assert (Hw1 : withdraw_addr e1 x = withdraw_addr e x) by (apply withdraw_addr_static; exact Hst1).
  rewrite Hw1 in Hoth2.
  pose proof (env_static_trans _ _ _ Hst1 Hst2) as Hst.
  assert (Hdel2 : e_del e2 = e_del e) by (destruct Hst as (_ & _ & A & _); exact A).
  assert (Hwf2 : DelWf e2) by (eapply DelWf_same_del; [exact Hdel2|exact Hwf]).
  assert (Hd2 : forall y v', delegation e2 y v' = delegation e y v').
  { intros. unfold delegation. rewrite Hdel2. reflexivity. }
  assert (Hdv : dv e x src = cur) by (unfold dv; rewrite Ecur; reflexivity).
  set (amt := snd c) in *. set (rest := cur - amt) in *.
  set (dl := if rest =? 0 then del eqbNN (e_del e2) (x, src) else set eqbNN (e_del e2) (x, src) rest) in *.
  set (em := set_del e2 dl) in *.
  assert (Hm : delegation em x src = (if rest =? 0 then None else Some rest) /\
               (forall (y : addr) (v' : val), (y, v') <> (x, src) -> delegation em y v' = delegation e2 y v') /\
               DelWf em) by (apply entry_lower_spec; assumption).
  destruct Hm as (Hm1 & Hm2 & Hwfm).
  assert (Hdcur : match get eqbNN dl (x, dst) with Some a => a | None => 0 end = dv em x dst) by reflexivity.
  rewrite Hdcur in H.
  inversion H; subst e'. clear H.
  set (e' := set_del e2 (set eqbNN dl (x, dst) (dv em x dst + amt))) in *.
  assert (Hf : delegation e' x dst = Some (dv em x dst + amt) /\
               (forall (y : addr) (v' : val), (y, v') <> (x, dst) -> delegation e' y v' = delegation em y v') /\
               DelWf e') by (apply (entry_set_spec em x dst (dv em x dst + amt) Hwfm Hdst)).
  destruct Hf as (Hf1 & Hf2 & Hwf').
  (* per-validator values *)
  assert (Hm_src : dv em x src = rest).
  { unfold dv. rewrite Hm1. destruct (rest =? 0) eqn:Ez; lia. }
  assert (Hf_dst : dv e' x dst = dv em x dst + amt) by (unfold dv at 1; rewrite Hf1; reflexivity).
  pose proof (delegated_point e2 em x src Hsrc Hm2) as (P1 & Q1).
  pose proof (delegated_point em e' x dst Hdst Hf2) as (P2 & Q2).
  assert (Hdeq : delegated e2 x = delegated e x) by (apply delegated_same_del; exact Hdel2).
  assert (Hdv2 : dv e2 x src = cur) by (unfold dv; rewrite Hd2, Ecur; reflexivity).
  split; [lia|]. split; [lia|]. split; [reflexivity|]. split; [lia|]. split; [exact Hsrc|].
  split; [reflexivity|].
  split.
  { intros Hne. assert (Hne' : (x, src) <> (x, dst)) by congruence.
    assert (Hne'' : (x, dst) <> (x, src)) by congruence.
    assert (A : dv e' x src = rest).
    { unfold dv. rewrite Hf2 by exact Hne'. fold (dv em x src). exact Hm_src. }
    assert (B : dv em x dst = dv e x dst).
    { unfold dv. rewrite Hm2 by exact Hne''. rewrite Hd2. reflexivity. }
    split; [lia|]. split; [lia|].
    intros Hall. rewrite Hf2 by exact Hne'. rewrite Hm1.
    assert (Ez : (rest =? 0) = true) by lia. rewrite Ez. reflexivity. }
  split.
  { intros <-. rewrite Hf_dst, Hm_src. lia. }
  split.
  { intros y v' N1 N2. rewrite Hf2 by exact N2. rewrite Hm2 by exact N1. apply Hd2. }
  split; [lia|].
  split.
  { intros y Hne. rewrite Q2 by exact Hne. rewrite Q1 by exact Hne.
    apply all_delegations_same_del. exact Hdel2. }
  split; [rewrite Hf1; discriminate|].
  destruct Hst as (S1 & S2 & S3 & S4 & S5 & S6).
  unfold e'. cbn [e_unb e_wdaddr e_noredel e_now e_ut set_del].
  split; [exact S4|]. split; [exact S5|]. split; [exact S6|]. split; [exact S1|]. split; [exact S2|].
  split.
  { intros a d Hne. unfold bal. cbn [e_bank set_del]. fold (bal e2 a d) (bal e a d).
    rewrite Hoth2 by exact Hne. apply Hoth1. exact Hne. }
  split.
  { intros a d. unfold bal at 2. cbn [e_bank set_del]. fold (bal e2 a d).
    eapply N.le_trans; [apply Hge1|apply Hge2]. }
  exact Hwf'.
Qed.

(** ** slashing event *)
Lemma slash_amt_le a num den : num <= den -> den <> 0 -> slash_amt a num den <= a.
Proof.
  intros H1 H2. unfold slash_amt. apply N.div_le_upper_bound; [exact H2|].
  rewrite (N.mul_comm den a). apply N.mul_le_mono_l. lia.
Qed.

Lemma ev_slash_spec e v num den unb e' :
  ev_slash e v num den unb = Some e' ->
  num <= den /\ den <> 0 /\
  (forall x v', delegation e' x v' =
     match delegation e x v' with
     | Some a => Some (if v' =? v then slash_amt a num den else a)
     | None => None
     end) /\
  (forall x v', dv e' x v' <= dv e x v') /\
  (forall x v', v' <> v -> dv e' x v' = dv e x v') /\
  (forall x, delegated e' x <= delegated e x) /\
  (forall x, all_delegations e' x = [] <-> all_delegations e x = []) /\
  e_bank e' = e_bank e /\ e_wdaddr e' = e_wdaddr e /\ e_now e' = e_now e /\
  (DelWf e -> DelWf e').
Proof.
  unfold ev_slash. intros H. check_inv H as H1. check_inv H as H2. inversion H; subst e'. clear H.
  assert (Hle : num <= den) by lia. assert (Hnz : den <> 0) by lia.
  set (f := fun kv : (addr * val) * N => let '((x, v'), a) := kv in
              if v' =? v then ((x, v'), slash_amt a num den) else kv).
  assert (Hget : forall m x v', get eqbNN (map f m) (x, v') =
            match get eqbNN m (x, v') with
            | Some a => Some (if v' =? v then slash_amt a num den else a)
            | None => None end).
  { induction m as [|[[y w] a] r IH]; intros x v'; cbn [map get]; [reflexivity|].
    assert (Ef : f ((y, w), a) = ((y, w), if w =? v then slash_amt a num den else a)).
    { unfold f. destruct (w =? v); reflexivity. }
    rewrite Ef. destruct (eqbNN (x, v') (y, w)) eqn:E.
    - apply eqbNN_eq in E. inversion E; subst. reflexivity.
    - apply IH. }
  assert (Hd : forall x v', delegation (set_unb (set_del e (map f (e_del e)))
              (if unb then map (fun u => let '(x, v', a, t) := u in
                                 if v' =? v then (x, v', slash_amt a num den, t) else u) (e_unb e)
               else e_unb e)) x v' =
            match delegation e x v' with
            | Some a => Some (if v' =? v then slash_amt a num den else a)
            | None => None end).
  { intros x v'. unfold delegation at 1. cbn [e_del set_del set_unb]. apply Hget. }
  set (e' := set_unb (set_del e (map f (e_del e))) _) in *.
  assert (Hdvle : forall x v', dv e' x v' <= dv e x v').
  { intros x v'. unfold dv. rewrite Hd. destruct (delegation e x v') as [a|]; [|lia].
    destruct (v' =? v); [apply slash_amt_le; assumption|lia]. }
  split; [exact Hle|]. split; [exact Hnz|]. split; [exact Hd|]. split; [exact Hdvle|].
  split.
  { intros x v' Hne. unfold dv. rewrite Hd. destruct (delegation e x v') as [a|]; [|reflexivity].
    assert (E : (v' =? v) = false) by lia. rewrite E. reflexivity. }
  split.
  { intros x. rewrite !delegated_sum. apply sumN_map_le. intros v' _. apply Hdvle. }
  split.
  { intros x. rewrite !all_delegations_nil. split; intros Hn v' Hv'; specialize (Hn v' Hv').
    - rewrite Hd in Hn. destruct (delegation e x v'); [discriminate|reflexivity].
    - rewrite Hd, Hn. reflexivity. }
  split; [reflexivity|]. split; [reflexivity|]. split; [reflexivity|].
  intros [Hn Hv].
  change (NoDup (keys (map f (e_del e))) /\
          (forall k a, In (k, a) (map f (e_del e)) -> is_val (snd k) = true)). split.
  - assert (Hk : keys (map f (e_del e)) = keys (e_del e)).
    { unfold keys. rewrite map_map. apply map_ext. intros [[y w] a]. unfold f.
      destruct (w =? v); reflexivity. }
    rewrite Hk. exact Hn.
  - intros k a Hi. apply in_map_iff in Hi. destruct Hi as ([[y w] a0] & Hf & Hi).
    assert (Hk : k = (y, w)). { unfold f in Hf. destruct (w =? v); inversion Hf; reflexivity. }
    subst k. apply (Hv (y, w) a0 Hi).
Qed.

(** ** operations that leave the delegation table alone *)
Lemma send_coin_static e from to c e' : send_coin e from to c = Some e' -> env_static e e'.
Proof.
  unfold send_coin. destruct c as [d x]. intros H. check_inv H as Hz. bind_inv H as e1 He1.
  inversion H; subst. eapply env_static_trans; [eapply debit_static; eauto|apply credit_static].
Qed.

Lemma send_coins_static cs : forall e from to e', send_coins e from to cs = Some e' -> env_static e e'.
Proof.
  unfold send_coins. induction cs as [|c cs IH]; intros e from to e' H; cbn [foldM] in H.
  - inversion H; subst. apply env_static_refl.
  - bind_inv H as e1 He1. eapply env_static_trans; [eapply send_coin_static; eauto|eapply IH; eauto].
Qed.

Lemma bank_send_static e from to cs e' : bank_send e from to cs = Some e' -> env_static e e'.
Proof. unfold bank_send. destruct cs; [discriminate|]. apply send_coins_static. Qed.

Lemma swap_execute_static e sender m e' : swap_execute e sender m = Some e' -> env_static e e'.
Proof.
  unfold swap_execute. destruct m as [from target to]. intros H.
  destruct (e_swapmode e); [|discriminate|].
  - bind_inv H as out Ho. destruct (out =? 0); inversion H; subst; [apply env_static_refl|apply credit_static].
  - inversion H; subst. apply credit_static.
Qed.

Lemma do_withdraw_reward_static e x v e' : do_withdraw_reward e x v = Some e' -> env_static e e'.
Proof.
  unfold do_withdraw_reward. destruct (delegation e x v); [|discriminate]. intros H. inversion H; subst.
  apply payout_spec.
Qed.

Lemma deliver_matured_del e : e_del (deliver_matured e) = e_del e.
Proof.
  unfold deliver_matured.
  assert (G : forall l e1, e_del e1 = e_del e ->
    e_del (fold_left (fun e0 u => let '(x, v, amt, t) := u in
             if t <=? e_now e then credit e0 x usei amt else set_unb e0 (e_unb e0 ++ [u])) l e1) = e_del e).
  { induction l as [|[[[x v] amt] t] l IH]; intros e1 H1; cbn [fold_left]; [exact H1|].
    apply IH. destruct (t <=? e_now e); exact H1. }
  apply G. reflexivity.
Qed.

Lemma ev_advance_del e dt : e_del (ev_advance e dt) = e_del e.
Proof. unfold ev_advance. rewrite deliver_matured_del. reflexivity. Qed.

Lemma ev_accrue_del e x v d a e' : ev_accrue e x v d a = Some e' -> e_del e' = e_del e.
Proof. unfold ev_accrue. destruct (delegation e x v); [|discriminate]. intros H. inversion H; subst. reflexivity. Qed.

(** ** one executed message: what it does to the delegation table *)
Lemma step_msg_env_del w s m w' out :
  step_msg w s m = Some (w', out) ->
  match m with
  | MDelegate v c => do_delegate (w_env w) s v c = Some (w_env w')
  | MUndelegate v c => do_undelegate (w_env w) s v c = Some (w_env w')
  | MRedelegate a b c => do_redelegate (w_env w) s a b c = Some (w_env w')
  | _ => e_del (w_env w') = e_del (w_env w)
  end.
Proof.
  intros H. pose proof H as H0. apply step_msg_inv in H0.
  destruct m; cbn [step_msg] in H.
  - (* MWasm *) destruct H0 as [e' -> _ Hn | to' wm funds' e1 o Hm Hsend Hc _]; [exfalso; eapply Hn; reflexivity|].
    inversion Hm; subst. apply send_coins_static in Hsend.
    assert (E1 : e_del e1 = e_del (w_env w)) by (destruct Hsend as (_ & _ & A & _); exact A).
    destruct Hc as [h hm h' -> -> Hw He -> | r rm r' -> _ Hw He -> | d dm d' -> -> Hw He ->
                   | g gm g' -> -> Hw He -> | t cm t' -> -> Hw He -> | t cm t' -> -> Hw He ->
                   | sm e' -> -> He -> -> | -> -> ->];
      cbn [w_env set_hub set_reward set_disp set_reg set_bsei set_stsei set_env] in *; try exact E1.
    apply swap_execute_static in He. destruct He as (_ & _ & A & _). congruence.
  - bind_inv H as e1 He1. inversion H; subst. cbn [w_env set_env].
    apply bank_send_static in He1. destruct He1 as (_ & _ & A & _). exact A.
  - bind_inv H as e1 He1. inversion H; subst. reflexivity.
  - bind_inv H as e1 He1. inversion H; subst. reflexivity.
  - bind_inv H as e1 He1. inversion H; subst. reflexivity.
  - bind_inv H as e1 He1. inversion H; subst. cbn [w_env set_env].
    apply do_withdraw_reward_static in He1. destruct He1 as (_ & _ & A & _). exact A.
  - inversion H; subst. reflexivity.
Qed.

(** ** bank effects, exactly *)
Definition coin_amt (d : denom) (cs : list coin) : N :=
  sumN (map (fun c : coin => if fst c =? d then snd c else 0) cs).

Lemma send_coin_bal e from to c e' :
  send_coin e from to c = Some e' ->
  0 < snd c /\
  forall a d, bal e' a d + (if eqbNN (a, d) (from, fst c) then snd c else 0)
              = bal e a d + (if eqbNN (a, d) (to, fst c) then snd c else 0).
Proof.
  unfold send_coin. destruct c as [dn x]. cbn [fst snd]. intros H. check_inv H as Hz.
  bind_inv H as e1 He1. inversion H; subst e'. clear H.
  apply debit_spec in He1. destruct He1 as (Hle & Hs & Ho & _).
  split; [lia|]. intros a d.
  destruct (eqbNN (a, d) (to, dn)) eqn:Et.
  - apply eqbNN_eq in Et. inversion Et; subst a d. rewrite bal_credit_same.
    destruct (eqbNN (to, dn) (from, dn)) eqn:Ef.
    + apply eqbNN_eq in Ef. inversion Ef; subst. rewrite Hs. lia.
    + rewrite Ho; [lia|]. intros E. apply eqbNN_eq in E. congruence.
  - rewrite bal_credit_other by (intros E; apply eqbNN_eq in E; congruence).
    destruct (eqbNN (a, d) (from, dn)) eqn:Ef.
    + apply eqbNN_eq in Ef. inversion Ef; subst. rewrite Hs. lia.
    + rewrite Ho; [lia|]. intros E. apply eqbNN_eq in E. congruence.
Qed.

Lemma send_coins_bal cs : forall e from to e',
  send_coins e from to cs = Some e' ->
  forall a d, bal e' a d + (if a =? from then coin_amt d cs else 0)
              = bal e a d + (if a =? to then coin_amt d cs else 0).
Proof.
  unfold send_coins, coin_amt. induction cs as [|c cs IH]; intros e from to e' H a d; cbn [foldM map sumN] in *.
  - inversion H; subst. destruct (a =? from), (a =? to); lia.
  - bind_inv H as e1 He1. apply send_coin_bal in He1. destruct He1 as [_ He1].
    specialize (IH _ _ _ _ H a d). specialize (He1 a d).
    unfold eqbNN in He1. cbn [fst snd] in He1.
    destruct (a =? from), (a =? to), (d =? fst c) eqn:Ed; cbn [andb] in He1;
      rewrite ?(N.eqb_sym (fst c) d), ?Ed; lia.
Qed.

Lemma swap_execute_bal e sender m e' :
  swap_execute e sender m = Some e' -> forall a d, bal e a d <= bal e' a d.
Proof.
  unfold swap_execute. destruct m as [from target to]. intros H a d.
  destruct (e_swapmode e); [|discriminate|].
  - bind_inv H as out Ho. destruct (out =? 0); inversion H; subst; [lia|apply bal_credit_ge].
  - inversion H; subst. apply bal_credit_ge.
Qed.

(** the swap stub credits only the recipient, only in the target denom *)
Lemma swap_execute_bal_other e sender from target to e' a d :
  swap_execute e sender (SSwapDenom from target to) = Some e' ->
  (a, d) <> ((match to with Some x => x | None => sender end), target) -> bal e' a d = bal e a d.
Proof.
  unfold swap_execute. intros H Hne.
  destruct (e_swapmode e); [|discriminate|].
  - bind_inv H as out Ho. destruct (out =? 0); inversion H; subst; [reflexivity|].
    apply bal_credit_other. exact Hne.
  - inversion H; subst. apply bal_credit_other. exact Hne.
Qed.

Lemma do_delegate_bal_ge e x v c e' :
  do_delegate e x v c = Some e' -> bal e x usei - snd c <= bal e' x usei.
Proof.
  unfold do_delegate. intros H. check_inv H as Hc. check_inv H as Hv. check_inv H as Hb.
  pose proof (payout_if_entry_spec e x v) as (_ & _ & Hge).
  bind_inv H as e2 He2. apply debit_spec in He2. destruct He2 as (_ & Hb2 & _ & _).
  inversion H; subst e'. unfold bal at 2. cbn [e_bank set_del]. fold (bal e2 x usei).
  rewrite Hb2. specialize (Hge x usei). lia.
Qed.

Lemma do_withdraw_reward_bal e x v e' :
  do_withdraw_reward e x v = Some e' ->
  (forall a d, bal e a d <= bal e' a d) /\ (forall a d, a <> withdraw_addr e x -> bal e' a d = bal e a d).
Proof.
  unfold do_withdraw_reward. destruct (delegation e x v); [|discriminate]. intros H. inversion H; subst.
  destruct (payout_spec e x v) as (_ & A & B). auto.
Qed.

Ltac splits := repeat match goal with |- _ /\ _ => split end.

(** ** concise statements used by the property files *)
Theorem delegate_effect e x v c e' :
  do_delegate e x v c = Some e' ->
  fst c = usei /\ 0 < snd c /\ is_val v = true /\ snd c <= bal e x usei /\
  delegated e' x = delegated e x + snd c /\
  dv e' x v = dv e x v + snd c /\ (forall v', v' <> v -> dv e' x v' = dv e x v') /\
  (forall y, y <> x -> delegated e' y = delegated e y) /\
  (withdraw_addr e x <> x -> bal e' x usei = bal e x usei - snd c) /\
  (forall a d, a <> x -> a <> withdraw_addr e x -> bal e' a d = bal e a d) /\
  e_unb e' = e_unb e.
Proof.
  intros H. apply do_delegate_spec in H.
  destruct H as (A1 & A2 & A3 & A4 & A5 & A6 & A7 & A8 & A9 & _ & _ & _ & _ & A14 & _ & A16 & _).
  splits; auto.
  - unfold dv at 1. rewrite A5. reflexivity.
  - intros v' Hne. unfold dv. rewrite A6 by congruence. reflexivity.
  - intros y Hy. unfold delegated. rewrite A8 by exact Hy. reflexivity.
Qed.

Theorem undelegate_effect e x v c e' :
  do_undelegate e x v c = Some e' -> DelWf e ->
  fst c = usei /\ 0 < snd c /\ snd c <= dv e x v /\
  delegated e' x + snd c = delegated e x /\
  dv e' x v = dv e x v - snd c /\ (forall v', v' <> v -> dv e' x v' = dv e x v') /\
  (forall y, y <> x -> delegated e' y = delegated e y) /\
  e_unb e' = e_unb e ++ [(x, v, snd c, e_now e + e_ut e)] /\
  (forall a d, a <> withdraw_addr e x -> bal e' a d = bal e a d) /\
  (forall a d, bal e a d <= bal e' a d) /\ DelWf e'.
Proof.
  intros H Hwf. apply do_undelegate_spec in H; [|exact Hwf].
  destruct H as (A1 & A2 & A3 & _ & A5 & A6 & A7 & A8 & A9 & _ & _ & _ & _ & A14 & A15 & A16).
  splits; auto.
  - intros v' Hne. unfold dv. rewrite A6 by congruence. reflexivity.
  - intros y Hy. unfold delegated. rewrite A8 by exact Hy. reflexivity.
Qed.

Theorem redelegate_effect e x src dst c e' :
  do_redelegate e x src dst c = Some e' -> DelWf e ->
  fst c = usei /\ 0 < snd c /\ snd c <= dv e x src /\ can_redelegate e src = true /\ is_val dst = true /\
  delegated e' x = delegated e x /\
  (src <> dst -> dv e' x src = dv e x src - snd c /\ dv e' x dst = dv e x dst + snd c) /\
  (src = dst -> dv e' x src = dv e x src) /\
  (forall v', v' <> src -> v' <> dst -> dv e' x v' = dv e x v') /\
  (forall y, y <> x -> delegated e' y = delegated e y) /\
  e_unb e' = e_unb e /\ (forall a d, a <> withdraw_addr e x -> bal e' a d = bal e a d) /\ DelWf e'.
Proof.
  intros H Hwf. apply do_redelegate_spec in H; [|exact Hwf].
  destruct H as (A1 & A2 & A3 & A4 & _ & A6 & A7 & A8 & A9 & A10 & A11 & _ & A13 & _ & _ & _ & _ & A18 & _ & A20).
  splits; auto.
  - intros Hne. destruct (A7 Hne) as (B1 & B2 & _). auto.
  - intros v' N1 N2. unfold dv. rewrite A9 by congruence. reflexivity.
  - intros y Hy. unfold delegated. rewrite A11 by exact Hy. reflexivity.
Qed.

Theorem slash_effect e v num den unb e' :
  ev_slash e v num den unb = Some e' ->
  (forall x v', dv e' x v' <= dv e x v') /\ (forall x v', v' <> v -> dv e' x v' = dv e x v') /\
  (forall x, delegated e' x <= delegated e x) /\
  (forall x, all_delegations e' x = [] <-> all_delegations e x = []) /\
  e_bank e' = e_bank e /\ (DelWf e -> DelWf e').
Proof.
  intros H. apply ev_slash_spec in H.
  destruct H as (_ & _ & _ & A4 & A5 & A6 & A7 & A8 & _ & _ & A11). splits; auto.
Qed.

Theorem payout_effect e x v :
  e_del (payout e x v) = e_del e /\ e_unb (payout e x v) = e_unb e /\
  (forall a d, a <> withdraw_addr e x -> bal (payout e x v) a d = bal e a d) /\
  (forall a d, bal e a d <= bal (payout e x v) a d).
Proof. destruct (payout_spec e x v) as ((_ & _ & A & B & _) & C & D). auto. Qed.

Theorem all_delegations_order e x :
  map fst (all_delegations e x) = filter (fun v => is_some (delegation e x v)) VALS /\
  delegated e x = sumN (map (dv e x) VALS).
Proof. split; [exact (all_delegations_vals e x) | exact (delegated_sum e x)]. Qed.
