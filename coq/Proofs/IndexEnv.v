(** * IndexEnv: environment-level facts used by C19 — bank transfers, the distribution module's
    payout of pending rewards, delegation entries.
    Main results:
    - [bal_credit], [bal_debited], [send_coin_ok]/[send_coin_inv]: exact effect of bank moves;
    - [payout_pending], [payout_bal]: [payout e x v] zeroes the pending rewards of (x, v) in every
      chain denom and credits exactly those amounts to x's withdraw address, nothing else changes;
    - [withdraw_all_*]: the same for a list of validators (the MWithdrawReward messages of one
      UpdateGlobalIndex), with [withdraw_all_foldM] tying it to [do_withdraw_reward];
    - [sel_*]: the list of delegation entries [all_delegations]; [delegated_set]: a delegation of
      [amt] raises the delegated total by [amt];
    - [stable_sort_perm]: the registry's stable sort is a permutation. *)
From Coq Require Import Permutation.
From Krp Require Import Tactics Prelude Fixed FMap Types Env Registry Inv.
Open Scope N_scope.

(** ** key equalities *)
Lemma eqbAVD_eq a b : eqbAVD a b = true <-> a = b.
Proof.
  destruct a as [a [v d]], b as [a' [v' d']]. unfold eqbAVD, eqbNN. cbn [fst snd].
  rewrite !andb_true_iff, !N.eqb_eq. split; [intros [-> [-> ->]]; reflexivity | intros H; inversion H; auto].
Qed.

Lemma eqbAVD_split x v d x' v' d' :
  eqbAVD (x, (v, d)) (x', (v', d')) = (x =? x') && ((v =? v') && (d =? d')).
Proof. reflexivity. Qed.

(** ** bank *)
Definition debited (e : env) (a : addr) (d : denom) (x : N) : env :=
  set_bank e (set eqbNN (e_bank e) (a, d) (bal e a d - x)).

Definition xfer (e : env) (from to : addr) (d : denom) (x : N) : env :=
  credit (debited e from d x) to d x.

Lemma bal_credit e a d x a' d' :
  bal (credit e a d x) a' d' = if (a' =? a) && (d' =? d) then bal e a d + x else bal e a' d'.
Proof.
  unfold credit. unfold bal, getN. cbn [e_bank set_bank].
  destruct ((a' =? a) && (d' =? d)) eqn:E.
  - apply andb_true_iff in E. destruct E as [E1 E2]. apply N.eqb_eq in E1, E2. subst.
    rewrite (get_set_same eqbNN eqbNN_eq). reflexivity.
  - rewrite (get_set_other eqbNN eqbNN_eq); [reflexivity|].
    intros H; inversion H; subst. rewrite !N.eqb_refl in E. discriminate.
Qed.

Lemma bal_debited e a d x a' d' :
  bal (debited e a d x) a' d' = if (a' =? a) && (d' =? d) then bal e a d - x else bal e a' d'.
Proof.
  unfold debited. unfold bal, getN. cbn [e_bank set_bank].
  destruct ((a' =? a) && (d' =? d)) eqn:E.
  - apply andb_true_iff in E. destruct E as [E1 E2]. apply N.eqb_eq in E1, E2. subst.
    rewrite (get_set_same eqbNN eqbNN_eq). reflexivity.
  - rewrite (get_set_other eqbNN eqbNN_eq); [reflexivity|].
    intros H; inversion H; subst. rewrite !N.eqb_refl in E. discriminate.
Qed.

Lemma debit_ok e a d x : x <= bal e a d -> debit e a d x = Some (debited e a d x).
Proof. intros H. unfold debit. assert (E : (x <=? bal e a d) = true) by lia. rewrite E. reflexivity. Qed.

Lemma debit_inv e a d x e' : debit e a d x = Some e' -> x <= bal e a d /\ e' = debited e a d x.
Proof. unfold debit. intros H. check_inv H as E. inversion H; subst. split; [lia|reflexivity]. Qed.

Lemma send_coin_ok e from to d x :
  x <> 0 -> x <= bal e from d -> send_coin e from to (d, x) = Some (xfer e from to d x).
Proof.
  intros Hx Hle. unfold send_coin. assert (E : (x =? 0) = false) by lia. rewrite E. cbn [negb].
  rewrite debit_ok by exact Hle. reflexivity.
Qed.

Lemma send_coin_inv e from to d x e' :
  send_coin e from to (d, x) = Some e' -> x <> 0 /\ x <= bal e from d /\ e' = xfer e from to d x.
Proof.
  unfold send_coin. intros H. check_inv H as E. bind_inv H as e1 He1. apply debit_inv in He1.
  destruct He1 as [Hle ->]. inversion H; subst. repeat split; [|exact Hle].
  destruct (x =? 0) eqn:Ex; [discriminate | lia].
Qed.

Lemma send_coins_one e from to d x : send_coins e from to [(d, x)] = send_coin e from to (d, x).
Proof. unfold send_coins. cbn [foldM]. destruct (send_coin e from to (d, x)); reflexivity. Qed.

Lemma bank_send_one e from to d x : bank_send e from to [(d, x)] = send_coin e from to (d, x).
Proof. unfold bank_send. apply send_coins_one. Qed.

(** everything but the bank is untouched *)
Definition same_nonbank (e e' : env) : Prop :=
  e_now e' = e_now e /\ e_ut e' = e_ut e /\ e_del e' = e_del e /\ e_unb e' = e_unb e /\
  e_pend e' = e_pend e /\ e_wdaddr e' = e_wdaddr e /\ e_noredel e' = e_noredel e /\
  e_price e' = e_price e /\ e_swapmode e' = e_swapmode e /\ e_oraclemode e' = e_oraclemode e.

Lemma same_nonbank_refl e : same_nonbank e e.
Proof. unfold same_nonbank. repeat split. Qed.

Lemma same_nonbank_trans e1 e2 e3 : same_nonbank e1 e2 -> same_nonbank e2 e3 -> same_nonbank e1 e3.
Proof. unfold same_nonbank. intuition congruence. Qed.

Lemma same_nonbank_credit e a d x : same_nonbank e (credit e a d x).
Proof. unfold same_nonbank. repeat split. Qed.

Lemma same_nonbank_debited e a d x : same_nonbank e (debited e a d x).
Proof. unfold same_nonbank. repeat split. Qed.

Lemma same_nonbank_xfer e a b d x : same_nonbank e (xfer e a b d x).
Proof. unfold same_nonbank. repeat split. Qed.

(** ** distribution: pending rewards and their payout *)
Definition pay1 (x : addr) (v : val) (e : env) (d : denom) : env :=
  let p := pending e x v d in
  if p =? 0 then e
  else credit (set_pend e (set eqbAVD (e_pend e) (x, (v, d)) 0)) (withdraw_addr e x) d p.

Lemma payout_eq e x v : payout e x v = fold_left (pay1 x v) DENOMS e.
Proof. reflexivity. Qed.

Lemma pay1_frame x v e d :
  e_now (pay1 x v e d) = e_now e /\ e_ut (pay1 x v e d) = e_ut e /\ e_del (pay1 x v e d) = e_del e /\
  e_unb (pay1 x v e d) = e_unb e /\ e_wdaddr (pay1 x v e d) = e_wdaddr e /\
  e_noredel (pay1 x v e d) = e_noredel e /\ e_price (pay1 x v e d) = e_price e /\
  e_swapmode (pay1 x v e d) = e_swapmode e /\ e_oraclemode (pay1 x v e d) = e_oraclemode e.
Proof. unfold pay1. cbn zeta. destruct (pending e x v d =? 0); repeat split. Qed.

Lemma pay1_pending x v e d x' v' d' :
  pending (pay1 x v e d) x' v' d' =
  if (x' =? x) && ((v' =? v) && (d' =? d)) then 0 else pending e x' v' d'.
Proof.
  unfold pay1. cbn zeta. destruct (pending e x v d =? 0) eqn:Ep.
  - destruct ((x' =? x) && ((v' =? v) && (d' =? d))) eqn:E; [|reflexivity].
    apply andb_true_iff in E. destruct E as [E1 E]. apply andb_true_iff in E. destruct E as [E2 E3].
    apply N.eqb_eq in E1, E2, E3. subst. lia.
  - unfold pending at 1. unfold getN. cbn [e_pend credit set_bank set_pend].
    rewrite <- eqbAVD_split.
    destruct (eqbAVD (x', (v', d')) (x, (v, d))) eqn:E.
    + apply eqbAVD_eq in E. inversion E; subst. rewrite (get_set_same eqbAVD eqbAVD_eq). reflexivity.
    + rewrite (get_set_other eqbAVD eqbAVD_eq); [reflexivity|].
      intros H. apply eqbAVD_eq in H. congruence.
Qed.

Lemma pay1_bal x v e d a d' :
  bal (pay1 x v e d) a d' =
  if (a =? withdraw_addr e x) && (d' =? d) then bal e a d' + pending e x v d else bal e a d'.
Proof.
  unfold pay1. cbn zeta. destruct (pending e x v d =? 0) eqn:Ep.
  - apply N.eqb_eq in Ep. rewrite Ep, N.add_0_r. destruct ((a =? withdraw_addr e x) && (d' =? d)); reflexivity.
  - rewrite bal_credit. change (withdraw_addr (set_pend e _) x) with (withdraw_addr e x).
    destruct ((a =? withdraw_addr e x) && (d' =? d)) eqn:E; [|reflexivity].
    apply andb_true_iff in E. destruct E as [E1 E2]. apply N.eqb_eq in E1, E2. subst. reflexivity.
Qed.

Lemma pay1_wd x v e d y : withdraw_addr (pay1 x v e d) y = withdraw_addr e y.
Proof. unfold withdraw_addr. destruct (pay1_frame x v e d) as (_ & _ & _ & _ & -> & _). reflexivity. Qed.

Lemma pay1_noop x v e d : pending e x v d = 0 -> pay1 x v e d = e.
Proof. intros H. unfold pay1. rewrite H. reflexivity. Qed.

(** payout over a list of denoms *)
Lemma payL_frame x v ds : forall e,
  let e' := fold_left (pay1 x v) ds e in
  e_now e' = e_now e /\ e_ut e' = e_ut e /\ e_del e' = e_del e /\
  e_unb e' = e_unb e /\ e_wdaddr e' = e_wdaddr e /\
  e_noredel e' = e_noredel e /\ e_price e' = e_price e /\
  e_swapmode e' = e_swapmode e /\ e_oraclemode e' = e_oraclemode e.
Proof.
  induction ds as [|d r IH]; intros e; cbn [fold_left]; [repeat split|].
  specialize (IH (pay1 x v e d)). cbn zeta in IH.
  pose proof (pay1_frame x v e d) as F. intuition congruence.
Qed.

Lemma payL_pending x v ds : forall e x' v' d',
  pending (fold_left (pay1 x v) ds e) x' v' d' =
  if (x' =? x) && ((v' =? v) && existsb (N.eqb d') ds) then 0 else pending e x' v' d'.
Proof.
  induction ds as [|d r IH]; intros e x' v' d'; cbn [fold_left existsb].
  - rewrite !andb_false_r. reflexivity.
  - rewrite IH, pay1_pending.
    destruct (x' =? x), (v' =? v), (d' =? d), (existsb (N.eqb d') r); reflexivity.
Qed.

Lemma payL_bal x v ds : forall e a d',
  bal (fold_left (pay1 x v) ds e) a d' =
  bal e a d' + (if (a =? withdraw_addr e x) && existsb (N.eqb d') ds then pending e x v d' else 0).
Proof.
  induction ds as [|d r IH]; intros e a d'; cbn [fold_left existsb].
  - rewrite andb_false_r. lia.
  - rewrite IH, pay1_bal, pay1_pending, pay1_wd, !N.eqb_refl. cbn [andb].
    destruct (a =? withdraw_addr e x); cbn [andb]; [|lia].
    destruct (d' =? d) eqn:E; cbn [orb].
    + apply N.eqb_eq in E. subst. destruct (existsb (N.eqb d) r); lia.
    + destruct (existsb (N.eqb d') r); lia.
Qed.

Lemma payL_noop x v ds : forall e, (forall d, In d ds -> pending e x v d = 0) ->
  fold_left (pay1 x v) ds e = e.
Proof.
  induction ds as [|d r IH]; intros e H; cbn [fold_left]; [reflexivity|].
  rewrite pay1_noop by (apply H; left; reflexivity). apply IH. intros d' Hd. apply H. right. exact Hd.
Qed.

Definition in_denoms (d : denom) : bool := existsb (N.eqb d) DENOMS.

Lemma in_denoms_In d : in_denoms d = true <-> In d DENOMS.
Proof.
  unfold in_denoms. rewrite existsb_exists. split.
  - intros [y [Hy E]]. apply N.eqb_eq in E. subst. exact Hy.
  - intros H. exists d. split; [exact H | apply N.eqb_refl].
Qed.

(** *** C19.2 for one validator: [payout] zeroes the pending rewards of (x, v) in every chain denom,
    credits exactly them to x's withdraw address, and changes nothing else *)
Lemma payout_pending e x v x' v' d' :
  pending (payout e x v) x' v' d' =
  if (x' =? x) && ((v' =? v) && in_denoms d') then 0 else pending e x' v' d'.
Proof. rewrite payout_eq. apply payL_pending. Qed.

Lemma payout_bal e x v a d' :
  bal (payout e x v) a d' =
  bal e a d' + (if (a =? withdraw_addr e x) && in_denoms d' then pending e x v d' else 0).
Proof. rewrite payout_eq. apply payL_bal. Qed.

Lemma payout_frame e x v :
  let e' := payout e x v in
  e_now e' = e_now e /\ e_ut e' = e_ut e /\ e_del e' = e_del e /\
  e_unb e' = e_unb e /\ e_wdaddr e' = e_wdaddr e /\
  e_noredel e' = e_noredel e /\ e_price e' = e_price e /\
  e_swapmode e' = e_swapmode e /\ e_oraclemode e' = e_oraclemode e.
Proof. rewrite payout_eq. apply payL_frame. Qed.

Lemma payout_noop e x v : (forall d, In d DENOMS -> pending e x v d = 0) -> payout e x v = e.
Proof. rewrite payout_eq. apply payL_noop. Qed.

Lemma payout_wd e x v y : withdraw_addr (payout e x v) y = withdraw_addr e y.
Proof. unfold withdraw_addr. destruct (payout_frame e x v) as (_ & _ & _ & _ & -> & _). reflexivity. Qed.

Lemma payout_delegation e x v y u : delegation (payout e x v) y u = delegation e y u.
Proof. unfold delegation. destruct (payout_frame e x v) as (_ & _ & -> & _). reflexivity. Qed.

(** *** the withdrawals of one UpdateGlobalIndex: payout for a list of validators *)
Definition withdraw_all (x : addr) (vs : list val) (e : env) : env :=
  fold_left (fun e v => payout e x v) vs e.

Definition pend_total (e : env) (x : addr) (vs : list val) (d : denom) : N :=
  sumN (map (fun v => pending e x v d) vs).

Lemma withdraw_all_frame x vs : forall e,
  let e' := withdraw_all x vs e in
  e_now e' = e_now e /\ e_ut e' = e_ut e /\ e_del e' = e_del e /\
  e_unb e' = e_unb e /\ e_wdaddr e' = e_wdaddr e /\
  e_noredel e' = e_noredel e /\ e_price e' = e_price e /\
  e_swapmode e' = e_swapmode e /\ e_oraclemode e' = e_oraclemode e.
Proof.
  induction vs as [|v r IH]; intros e; cbn [withdraw_all fold_left]; [repeat split|].
  specialize (IH (payout e x v)). cbn zeta in IH. unfold withdraw_all in IH.
  pose proof (payout_frame e x v) as F. cbn zeta in F. intuition congruence.
Qed.

Lemma withdraw_all_wd x vs e y : withdraw_addr (withdraw_all x vs e) y = withdraw_addr e y.
Proof. unfold withdraw_addr. destruct (withdraw_all_frame x vs e) as (_ & _ & _ & _ & -> & _). reflexivity. Qed.

Lemma withdraw_all_pending x vs : forall e x' v' d',
  pending (withdraw_all x vs e) x' v' d' =
  if (x' =? x) && (existsb (N.eqb v') vs && in_denoms d') then 0 else pending e x' v' d'.
Proof.
  induction vs as [|v r IH]; intros e x' v' d'; cbn [withdraw_all fold_left existsb].
  - rewrite andb_false_r. reflexivity.
  - fold (withdraw_all x r (payout e x v)). rewrite IH, payout_pending.
    destruct (x' =? x), (v' =? v), (existsb (N.eqb v') r), (in_denoms d'); reflexivity.
Qed.

Lemma withdraw_all_bal x vs : NoDup vs -> forall e a d',
  bal (withdraw_all x vs e) a d' =
  bal e a d' + (if (a =? withdraw_addr e x) && in_denoms d' then pend_total e x vs d' else 0).
Proof.
  induction 1 as [|v r Hnin Hnd IH]; intros e a d'; cbn [withdraw_all fold_left].
  - unfold pend_total. cbn [map sumN]. destruct ((a =? withdraw_addr e x) && in_denoms d'); lia.
  - fold (withdraw_all x r (payout e x v)). rewrite IH, payout_bal, payout_wd.
    destruct ((a =? withdraw_addr e x) && in_denoms d'); [|lia].
    unfold pend_total. cbn [map sumN].
    assert (E : map (fun v0 => pending (payout e x v) x v0 d') r = map (fun v0 => pending e x v0 d') r).
    { apply map_ext_in. intros u Hu. rewrite payout_pending, N.eqb_refl.
      assert (Huv : (u =? v) = false) by (apply N.eqb_neq; intros ->; contradiction).
      rewrite Huv. reflexivity. }
    rewrite E. lia.
Qed.

(** executing MWithdrawReward for every validator of [vs] succeeds when each has a delegation entry *)
Lemma withdraw_all_foldM x vs : forall e,
  (forall v, In v vs -> delegation e x v <> None) ->
  foldM (fun e v => do_withdraw_reward e x v) vs e = Some (withdraw_all x vs e).
Proof.
  induction vs as [|v r IH]; intros e H; cbn [foldM withdraw_all fold_left]; [reflexivity|].
  unfold do_withdraw_reward at 1.
  destruct (delegation e x v) eqn:Ed; [|exfalso; apply (H v); [left; reflexivity | exact Ed]].
  cbn [bind]. apply IH. intros u Hu. rewrite payout_delegation. apply H. right. exact Hu.
Qed.

(** ** delegation entries *)
Section Sel.
  Definition sel (f : val -> option N) (L : list val) : list (val * N) :=
    flat_map (fun v => match f v with Some a => [(v, a)] | None => [] end) L.

  Lemma all_delegations_sel e x : all_delegations e x = sel (delegation e x) VALS.
  Proof. reflexivity. Qed.

  Lemma sel_cons f u L : sel f (u :: L) = (match f u with Some a => [(u, a)] | None => [] end) ++ sel f L.
  Proof. reflexivity. Qed.

  Lemma In_sel f L v a : In (v, a) (sel f L) <-> In v L /\ f v = Some a.
  Proof.
    induction L as [|u r IH]; [cbn; tauto|]. rewrite sel_cons, in_app_iff, IH. cbn [In].
    destruct (f u) as [b|] eqn:Eu; cbn [In]; split.
    - intros [[H|[]]|[H1 H2]]; [inversion H; subst; auto | auto].
    - intros [[->|H1] H2]; [left; left; congruence | right; auto].
    - intros [[]|[H1 H2]]; auto.
    - intros [[->|H1] H2]; [congruence | right; auto].
  Qed.

  Lemma In_fst_sel f L v : In v (map fst (sel f L)) <-> In v L /\ f v <> None.
  Proof.
    rewrite in_map_iff. split.
    - intros [[u a] [E H]]. cbn in E. subst u. apply In_sel in H. destruct H as [H1 H2]. split; congruence.
    - intros [H1 H2]. destruct (f v) as [a|] eqn:E; [|congruence]. exists (v, a). split; [reflexivity|].
      apply In_sel. auto.
  Qed.

  Lemma NoDup_fst_sel f L : NoDup L -> NoDup (map fst (sel f L)).
  Proof.
    induction 1 as [|u r Hnin Hnd IH]; [constructor|]. rewrite sel_cons, map_app.
    destruct (f u) as [a|]; cbn [map app]; [|exact IH].
    constructor; [|exact IH]. intros H. apply In_fst_sel in H. tauto.
  Qed.

  Lemma get_sel f L v : get N.eqb (sel f L) v = if existsb (N.eqb v) L then f v else None.
  Proof.
    induction L as [|u r IH]; [reflexivity|]. rewrite sel_cons. cbn [existsb].
    destruct (f u) as [a|] eqn:Eu; cbn [app get].
    - destruct (v =? u) eqn:E; cbn [orb]; [apply N.eqb_eq in E; subst; congruence | exact IH].
    - destruct (v =? u) eqn:E; cbn [orb]; [|exact IH].
      apply N.eqb_eq in E; subst. rewrite IH, Eu. destruct (existsb (N.eqb u) r); reflexivity.
  Qed.

  Lemma sel_ext f g L : (forall v, In v L -> f v = g v) -> sel f L = sel g L.
  Proof.
    induction L as [|u r IH]; intros H; [reflexivity|]. rewrite !sel_cons.
    rewrite (H u) by (left; reflexivity). f_equal. apply IH. intros v Hv. apply H. right. exact Hv.
  Qed.

  Lemma sel_entry_le f L v a : In v L -> f v = Some a -> a <= sumN (map snd (sel f L)).
  Proof.
    induction L as [|u r IH]; intros Hin Hf; [contradiction|]. rewrite sel_cons, map_app, sumN_app.
    destruct Hin as [->|Hin].
    - rewrite Hf. cbn. lia.
    - specialize (IH Hin Hf). lia.
  Qed.

  (** updating one entry *)
  Lemma sel_sum_update f g L v0 amt :
    NoDup L -> In v0 L ->
    g v0 = Some ((match f v0 with Some a => a | None => 0 end) + amt) ->
    (forall v, v <> v0 -> g v = f v) ->
    sumN (map snd (sel g L)) = sumN (map snd (sel f L)) + amt.
  Proof.
    intros Hnd. revert v0. induction Hnd as [|u r Hnin Hnd IH]; intros v0 Hin Hg Hoth; [contradiction|].
    rewrite !sel_cons, !map_app, !sumN_app.
    destruct Hin as [->|Hin].
    - rewrite Hg. rewrite (sel_ext g f r).
      + destruct (f v0); cbn; lia.
      + intros v Hv. apply Hoth. intros ->. contradiction.
    - rewrite (Hoth u) by (intros ->; contradiction). rewrite (IH v0 Hin Hg Hoth). lia.
  Qed.
End Sel.

Lemma VALS_NoDup : NoDup VALS.
Proof.
  unfold VALS. repeat (constructor; [cbn; intros H; repeat (destruct H as [H|H]; [discriminate|]); exact H|]).
  constructor.
Qed.

Lemma In_VALS v : In v VALS <-> is_val v = true.
Proof.
  unfold is_val, VALS. split.
  - intros H. cbn in H. repeat (destruct H as [<-|H]; [reflexivity|]). contradiction.
  - intros H. assert (Hv : v < 12) by lia. cbn.
    assert (v = 0 \/ v = 1 \/ v = 2 \/ v = 3 \/ v = 4 \/ v = 5 \/ v = 6 \/ v = 7 \/
            v = 8 \/ v = 9 \/ v = 10 \/ v = 11) by lia.
    intuition.
Qed.

Lemma DENOMS_NoDup : NoDup DENOMS.
Proof.
  unfold DENOMS. repeat (constructor; [cbn; intros H; repeat (destruct H as [H|H]; [discriminate|]); exact H|]).
  constructor.
Qed.

Lemma delegation_set_del e m x v : delegation (set_del e m) x v = get eqbNN m (x, v).
Proof. reflexivity. Qed.

Lemma delegation_set e e2 x v y x' v' :
  e_del e2 = e_del e ->
  delegation (set_del e2 (set eqbNN (e_del e2) (x, v) y)) x' v' =
  if (x' =? x) && (v' =? v) then Some y else delegation e x' v'.
Proof.
  intros He. rewrite delegation_set_del, He. unfold delegation.
  destruct ((x' =? x) && (v' =? v)) eqn:E.
  - apply andb_true_iff in E. destruct E as [E1 E2]. apply N.eqb_eq in E1, E2. subst.
    apply (get_set_same eqbNN eqbNN_eq).
  - apply (get_set_other eqbNN eqbNN_eq). intros H. inversion H; subst. rewrite !N.eqb_refl in E. discriminate.
Qed.

(** a delegation of [amt] to a real validator raises the delegated total by [amt], and leaves
    other delegators alone *)
Lemma delegated_set e e' x v amt :
  is_val v = true ->
  (forall x' v', delegation e' x' v' =
     if (x' =? x) && (v' =? v)
     then Some ((match delegation e x v with Some a => a | None => 0 end) + amt)
     else delegation e x' v') ->
  delegated e' x = delegated e x + amt /\ (forall y, y <> x -> delegated e' y = delegated e y).
Proof.
  intros Hv H. unfold delegated. rewrite !all_delegations_sel. split.
  - apply (sel_sum_update (delegation e x) (delegation e' x) VALS v amt VALS_NoDup).
    + apply In_VALS. exact Hv.
    + rewrite H, !N.eqb_refl. reflexivity.
    + intros u Hu. rewrite H, N.eqb_refl. assert (E : (u =? v) = false) by lia. rewrite E. reflexivity.
  - intros y Hy. rewrite !all_delegations_sel. f_equal. f_equal. apply sel_ext. intros u _. rewrite H.
    assert (E : (y =? x) = false) by lia. rewrite E. reflexivity.
Qed.

Lemma all_delegations_ext e e' x : e_del e' = e_del e -> all_delegations e' x = all_delegations e x.
Proof. intros H. unfold all_delegations, delegation. rewrite H. reflexivity. Qed.

Lemma delegated_ext e e' x : e_del e' = e_del e -> delegated e' x = delegated e x.
Proof. intros H. unfold delegated. rewrite (all_delegations_ext e e' x H). reflexivity. Qed.

(** validators the hub delegates to *)
Definition del_vals (e : env) (x : addr) : list val := map fst (all_delegations e x).

Lemma del_vals_NoDup e x : NoDup (del_vals e x).
Proof. unfold del_vals. rewrite all_delegations_sel. apply NoDup_fst_sel. exact VALS_NoDup. Qed.

Lemma In_del_vals e x v : In v (del_vals e x) <-> is_val v = true /\ delegation e x v <> None.
Proof. unfold del_vals. rewrite all_delegations_sel, In_fst_sel, In_VALS. reflexivity. Qed.

(** ** stable sort is a permutation *)
Section SortPerm.
  Context {A : Type} (before : A -> A -> bool).

  Lemma insert_sorted_perm x l : Permutation (insert_sorted before x l) (x :: l).
  Proof.
    induction l as [|y r IH]; cbn [insert_sorted]; [apply Permutation_refl|].
    destruct (before x y); [apply Permutation_refl|].
    eapply Permutation_trans; [apply perm_skip; exact IH | apply perm_swap].
  Qed.

  Lemma stable_sort_fold_perm l : forall acc,
    Permutation (fold_left (fun acc x => insert_sorted before x acc) l acc) (l ++ acc).
  Proof.
    induction l as [|x r IH]; intros acc; cbn [fold_left app]; [apply Permutation_refl|].
    eapply Permutation_trans; [apply IH|].
    eapply Permutation_trans; [apply Permutation_app_head; apply insert_sorted_perm|].
    apply Permutation_sym. apply Permutation_middle.
  Qed.

  Lemma stable_sort_perm l : Permutation (stable_sort before l) l.
  Proof. unfold stable_sort. rewrite <- (app_nil_r l) at 2. apply stable_sort_fold_perm. Qed.
End SortPerm.

Lemma sumN_perm l l' : Permutation l l' -> sumN l = sumN l'.
Proof. induction 1; cbn [sumN]; lia. Qed.
