(** * RewardHist: the two history / transaction level statements left open for C14 and C15.

    PART A (C14, "nothing is stranded ... total claimed never exceeds total rewards delivered",
    at HISTORY level).  Ghost quantities are computed by a function over the history:
    - [wghost] = (delivered, claimed, totals seen by the effective index updates);
    - [gmsg d0 w s m w' g]: ghost update for ONE executed message [(s, m)] taking world [w] to [w']:
      [delivered] grows by every increase of the reward contract's bank balance of its reward coin
      [d0]; [claimed] grows by the payout [acc r s / D] of every executed ClaimRewards handler;
      [wg_upds] records the mirrored supply [rw_total] seen by every executed UpdateGlobalIndex
      with a non-zero supply (so [length (wg_upds g)] is the number of effective updates);
    - [grun]: [Exec.run] instrumented with [gmsg] ([grun_world]: same resulting world);
    - [gstep], [gfold]: the ghosts of one operation / of a whole history ([OReset] restarts them,
      environment events and gifts count as deliveries when they raise the balance).
    Main theorems:
    - [exec_ghost]: contract level — what one successful handler does to dust and index bounds;
    - [reward_call_is_cstep]: every reward call inside a transaction is a [cstep] of RewardP.v's
      contract-level trace semantics with [bank] = the real balance at that moment;
    - [ghost_msg_step], [step_msg_GJ]: message-level invariant [GJ] over (world, stack, ghosts);
    - [tx_ghost], [gstep_inv], [ghost_reachable], [ghost_from_empty]: along every history inside
      the envelope of C14_reachable ([REnv d0] in every visited world, [NoRewardRoot]) the
      invariant [GW] holds in every reached world:
        bank + claimed = delivered,
        prev * D <= sum_acc + SUM (t - 1) over the recorded update totals t,
        global index <= (prev + claimed) * D;
    - [hist_claimed_le_delivered], [hist_stranded_dust]: the C14 sentences, in every reached world;
      the "one base unit per update" form of the dust bound needs E1 for the supply seen by the
      executed updates, [Forall (fun t => t <= LIM) (wg_upds g)]; PART C derives it from an
      always-style predicate on the visited worlds.
    - [ghost_nonvacuous]: the hypotheses hold on the concrete history [ex_ops] of RewardWorld.v
      (delivered 10, claimed 4, one update with supply 7); [ghost_wired_nonvacuous]: a full
      deployment of the six contracts (delivered 1000, claimed 562, one update with supply 800).

    PART B (C15 (e), TRANSACTION level).
    - [calm]: the class of messages [exit_class] (NonInterf.v) minus reward ClaimRewards /
      UpdateGlobalIndex; it contains every cw20 message of both tokens, the hub's Bond / Receive
      (Unbond, Convert) / WithdrawUnbonded / CheckSlashing, ...;
    - [emit_no_reward_call], [calm_closed]: while executing a message of [exit_class], no contract
      other than the bSei token emits a [WReward] message, and the token emits only
      Increase/DecreaseBalance; hence [calm] is closed under emission;
    - [run_trace_calm]: every message executed by a transaction with a calm root is calm — in
      particular the trace contains no index update and no claim;
    - [calm_step_acc]: a calm message leaves every address's accrued atomics, the global index
      and the recorded balance unchanged;
    - [calm_tx_preserves_acc]: a successful transaction with a calm root (any sender, any world)
      leaves [acc r a] unchanged for EVERY address [a];
    - [bsei_tx_rewards_stay]: specialisation to bSei token roots in a Wired, Mirror world, with
      the mirror re-established at the end ([tx_mirror]);
    - [late_tokens_tx]: tokens acquired by a calm transaction after an index update earn nothing
      from that update;
    - [calm_tx_nonvacuous]: a concrete wired world and a successful Transfer transaction.

    PART C (end of the file; E1 for the executed updates from a world-level predicate).
    - [nosettle]: the complement class of [calm] ([calm_or_nosettle]); [nosettle_closed]: closed
      under emission; [nosettle_step_total]: its messages never change [rw_total];
    - [tx_UB], [upds_bounded]: if every visited world has [rw_total <= M] ([always (RTot M)]), then
      every executed effective index update saw a supply [<= M];
    - [hist_stranded_dust_E1], [hist_stranded_dust_E1_empty]: the dust bound in closed form
      [prev * D - sum_acc <= updates * (D - 1)] under [always (RTot LIM)];
    - [dust_E1_nonvacuous]. *)
From Krp Require Import Tactics Prelude Fixed FMap Types Env Registry Cw20 Reward Dispatcher Hub Exec
     ExecP Hist Inv HubAdmin BooksEnv BooksHub MirrorWire MirrorP NonInterf RewardP RewardWorld.
Open Scope N_scope.
Ltac Zify.zify_post_hook ::= idtac.

(** * PART A — ghost accounting along histories *)

(** ** A1. ghosts *)
Record wghost := mkWG { wg_delivered : N; wg_claimed : N; wg_upds : list N }.

(** the reward message a chain message delivers to the reward contract, if any *)
Definition rmsg_of (m : cmsg) : option reward_msg :=
  match m with
  | MWasm to wm _ =>
      if to =? A_reward then
        match wm with
        | WReward rm => Some rm
        | WHub (HUpdateGlobal _) => Some RUpdateIndex
        | _ => None
        end
      else None
  | _ => None
  end.

(** the supply seen by an effective index update *)
Definition eff_tot (r : reward) (rm : reward_msg) : list N :=
  match rm with RUpdateIndex => if rw_total r =? 0 then [] else [rw_total r] | _ => [] end.

(** ghost update for one executed message: [w] is the world before, [w'] the world after *)
Definition gmsg (d0 : denom) (w : world) (s : addr) (m : cmsg) (w' : world) (g : wghost) : wghost :=
  let out := if s =? A_reward then outflow d0 m else 0 in
  let dlv := bal (w_env w') A_reward d0 + out - bal (w_env w) A_reward d0 in
  match w_reward w, rmsg_of m with
  | Some r, Some rm =>
      mkWG (wg_delivered g + dlv) (wg_claimed g + payout_of r s rm) (eff_tot r rm ++ wg_upds g)
  | _, _ => mkWG (wg_delivered g + dlv) (wg_claimed g) (wg_upds g)
  end.

(** [Exec.run] instrumented with the ghosts *)
Fixpoint grun (d0 : denom) (fuel : nat) (w : world) (stack : list (addr * cmsg)) (g : wghost)
  : result (world * wghost) :=
  match stack with
  | [] => Some (w, g)
  | (s, m) :: rest =>
      match fuel with
      | O => None
      | S f =>
          do r <- step_msg w s m;
          grun d0 f (fst r) (snd r ++ rest) (gmsg d0 w s m (fst r) g)
      end
  end.

(** ghosts of one operation of a history *)
Definition gstep (d0 : denom) (w : world) (o : op) (g : wghost) : wghost :=
  match o with
  | OReset _ => mkWG 0 0 []
  | OTx s t m f =>
      match grun d0 tx_fuel w [(s, MWasm t m f)] g with
      | Some (_, g') => g'
      | None => g
      end
  | _ => mkWG (wg_delivered g + (bal (w_env (fst (step w o))) A_reward d0 - bal (w_env w) A_reward d0))
              (wg_claimed g) (wg_upds g)
  end.

Fixpoint gfold (d0 : denom) (ops : list op) (w : world) (g : wghost) : wghost :=
  match ops with
  | [] => g
  | o :: r => gfold d0 r (fst (step w o)) (gstep d0 w o g)
  end.

(** the dust allowance: each effective update that saw supply [t] may strand at most [t - 1] atomics *)
Definition cap (g : wghost) : N := sumN (map (fun t => t - 1) (wg_upds g)).
Definition eff_cap (r : reward) (m : reward_msg) : N :=
  match m with RUpdateIndex => if rw_total r =? 0 then 0 else rw_total r - 1 | _ => 0 end.

Lemma cap_eff r rm c u l :
  cap (mkWG c u (eff_tot r rm ++ l)) = eff_cap r rm + cap (mkWG c u l).
Proof.
  unfold cap. cbn [wg_upds]. destruct rm; cbn [eff_tot eff_cap app]; try lia.
  destruct (rw_total r =? 0); cbn [app map sumN]; lia.
Qed.

Lemma cap_bound g :
  Forall (fun t => t <= LIM) (wg_upds g) -> cap g <= N.of_nat (length (wg_upds g)) * (D - 1).
Proof.
  unfold cap. generalize (wg_upds g) as l. induction l as [|t l IH]; intros HF.
  - cbn [map sumN length]. lia.
  - inversion HF as [|x y Hx Hl]; subst. specialize (IH Hl). unfold LIM in Hx.
    cbn [map sumN length]. rewrite Nat2N.inj_succ, N.mul_succ_l. lia.
Qed.

(** ** A2. contract level: one successful handler *)
Lemma exec_ghost w r self s m r' out bank cp cl :
  RInv r bank -> bal (w_env w) self (rw_denom r) = bank ->
  reward_execute w r self s m = Some (r', out) ->
  rw_prev r * D <= sum_acc r + cp -> rw_gi r <= (rw_prev r + cl) * D ->
  rw_prev r' * D <= sum_acc r' + (cp + eff_cap r m) /\
  rw_gi r' <= (rw_prev r' + (cl + payout_of r s m)) * D.
Proof.
  intros [HC Hpb] Hbank H Hdust Hgi. pose proof HC as (H1 & H2 & H3 & _).
  destruct m; cbn [payout_of eff_cap] in *;
    try (cbn [reward_execute] in H; check_inv H as Hs; inversion H; subst;
         rewrite !N.add_0_r; split; assumption).
  - (* claim *)
    apply rclaim_iff in H. destruct H as (_ & _ & Hp & -> & _).
    change (rw_prev (claim_state r s)) with (rw_prev r - acc r s / D).
    change (rw_gi (claim_state r s)) with (rw_gi r).
    pose proof (sum_acc_claim r s) as Hs. rewrite N.mul_sub_distr_r.
    replace (rw_prev r - acc r s / D + (cl + acc r s / D)) with (rw_prev r + cl) by lia.
    rewrite N.add_0_r. split; [lia | exact Hgi].
  - (* swap *)
    cbn [reward_execute] in H. bind_inv H as dp Hdp. check_inv H as Hs. inversion H; subst.
    rewrite !N.add_0_r. split; assumption.
  - (* update *)
    apply rupdate_iff in H. rewrite Hbank in H.
    destruct H as (_ & _ & [[Ht ->] | (Ht & Hp & _ & _ & ->)]).
    + rewrite Ht. change (0 =? 0) with true. cbv iota. rewrite !N.add_0_r. split; assumption.
    + apply N.eqb_neq in Ht. rewrite Ht. apply N.eqb_neq in Ht. rewrite N.add_0_r.
      rewrite (sum_acc_update r bank H3).
      change (rw_prev (update_state r bank)) with bank.
      change (rw_gi (update_state r bank)) with (rw_gi r + index_step r bank).
      pose proof (index_step_mul r bank Ht) as Hm. rewrite <- H2.
      pose proof (N.mod_lt ((bank - rw_prev r) * D) (rw_total r) Ht) as Hlt.
      pose proof (index_step_le r bank Ht) as Hle.
      assert (Hb : bank * D = rw_prev r * D + (bank - rw_prev r) * D)
        by (rewrite <- N.mul_add_distr_r; f_equal; lia).
      rewrite N.mul_add_distr_r in *. split; lia.
  - (* inc *)
    apply rinc_iff in H. destruct H as (_ & _ & _ & _ & -> & _). rewrite sum_acc_inc, !N.add_0_r.
    split; assumption.
  - (* dec *)
    apply rdec_iff in H. destruct H as (_ & _ & _ & _ & -> & _). rewrite sum_acc_dec, !N.add_0_r.
    split; assumption.
Qed.

(** ** A3. what one executed message does to the reward contract *)
Inductive geffect (w : world) (s : addr) (m : cmsg) (w' : world) (out : list (addr * cmsg)) : Prop :=
| GE_frame to :
    rmsg_of m = None -> w_reward w' = w_reward w -> to <> A_reward ->
    (exists o, out = map (fun x => (to, x)) o) -> geffect w s m w' out
| GE_exec w1 r rm r' o :
    rmsg_of m = Some rm -> w_reward w = Some r -> w_env w1 = w_env w' ->
    reward_execute w1 r A_reward s rm = Some (r', o) -> w_reward w' = Some r' ->
    out = map (fun x => (A_reward, x)) o -> geffect w s m w' out.

Ltac neq_addr := let X := fresh "X" in intro X; vm_compute in X; discriminate X.

Lemma step_msg_geffect w s m w' out :
  step_msg w s m = Some (w', out) -> geffect w s m w' out.
Proof.
  intros H. pose proof (step_msg_inv _ _ _ _ _ H) as HE.
  destruct HE as [e' -> -> Hnw | to wm funds e1 o -> Hsend Hc ->].
  - apply (GE_frame _ _ _ _ _ A_hub); [|reflexivity | neq_addr | exists []; reflexivity].
    destruct m; try reflexivity. exfalso. eapply Hnw. reflexivity.
  - destruct Hc as [h hm h' -> _ _ _ -> | r rm r' -> Hrm Hr He -> | dd dm d' -> _ _ _ ->
                   | g gm g' -> _ _ _ -> | t cm t' -> _ _ _ -> | t cm t' -> _ _ _ ->
                   | sm e' -> _ _ -> -> | -> -> ->];
      try (match goal with |- geffect _ _ _ _ (map (fun x => (?t, x)) _) =>
             apply (GE_frame _ _ _ _ _ t); [reflexivity | reflexivity | neq_addr | eexists; reflexivity] end).
    eapply (GE_exec _ _ _ _ _ (set_env w e1) r rm r' o); try reflexivity; try eassumption.
    destruct Hrm as [-> | (n & -> & ->)]; reflexivity.
Qed.

Lemma leaf_rmsg m : leaf m -> rmsg_of m = None.
Proof.
  destruct m as [to wm f| | | | | |]; cbn [leaf rmsg_of]; try tauto.
  destruct wm; try tauto. intros _. destruct (to =? A_reward); reflexivity.
Qed.

(** every reward call inside a transaction is a step of the contract-level trace semantics of
    RewardP.v, with [bank] equal to the contract's real balance at the moment the handler runs
    (after the funds attached to the call have arrived) *)
Theorem reward_call_is_cstep w s m w' out r rm :
  step_msg w s m = Some (w', out) -> w_reward w = Some r -> rmsg_of m = Some rm ->
  exists w1 r' o,
    w_env w1 = w_env w' /\ w_reward w' = Some r' /\
    reward_execute w1 r A_reward s rm = Some (r', o) /\
    out = map (fun x => (A_reward, x)) o /\
    forall g, cstep (r, bal (w_env w1) A_reward (rw_denom r), g)
                    (r', bal (w_env w1) A_reward (rw_denom r) - payout_of r s rm,
                     mkGhost (g_delivered g) (g_claimed g + payout_of r s rm)
                             (g_updates g + effective_update r rm)).
Proof.
  intros H Hr Hrm. destruct (step_msg_geffect _ _ _ _ _ H)
    as [to Hn _ _ _ | w1 r0 rm0 r' o Hrm0 Hr0 Henv He Hr' ->]; [congruence|].
  assert (r0 = r) by congruence. assert (rm0 = rm) by congruence. subst r0 rm0.
  exists w1, r', o. repeat split; try assumption.
  intros g. eapply CS_exec; [reflexivity | exact He].
Qed.

(** ** A4. message-level invariant *)
(** dust and index bounds of a reward state against the ghosts *)
Definition DG (r : reward) (g : wghost) : Prop :=
  rw_prev r * D <= sum_acc r + cap g /\ rw_gi r <= (rw_prev r + wg_claimed g) * D.

Lemma owed_tagged_other d to o : to <> A_reward -> owed d (map (fun x => (to, x)) o) = 0.
Proof.
  intros Hne. apply owed_no_rw. rewrite <- (app_nil_r (map _ o)).
  apply no_rw_tagged; [exact Hne | constructor].
Qed.

Lemma ghost_msg_step d0 w s m w' out g ow :
  step_msg w s m = Some (w', out) ->
  bal (w_env w) A_reward d0 + wg_claimed g
    = wg_delivered g + (if s =? A_reward then outflow d0 m else 0) + ow ->
  (s = A_reward -> leaf m) ->
  (s <> A_reward -> forall r, w_reward w = Some r ->
     rw_denom r = d0 /\ ~ In d0 (rw_denoms r) /\ RCore r /\ rw_prev r <= bal (w_env w) A_reward d0) ->
  (forall r, w_reward w = Some r -> DG r g) ->
  bal (w_env w') A_reward d0 + wg_claimed (gmsg d0 w s m w' g)
    = wg_delivered (gmsg d0 w s m w' g) + owed d0 out + ow /\
  (forall r', w_reward w' = Some r' -> DG r' (gmsg d0 w s m w' g)).
Proof.
  intros H Hid Hleaf Hcfg HDG.
  pose proof (step_msg_bal_lower _ _ _ _ _ A_reward d0 H) as Hbal.
  unfold gmsg. destruct (s =? A_reward) eqn:Es.
  - (* a pending leaf message of the reward contract *)
    apply N.eqb_eq in Es. pose proof (Hleaf Es) as HL.
    destruct (leaf_step _ _ _ _ _ HL H) as [-> Hrw]. rewrite (leaf_rmsg _ HL).
    assert (Ho : owed d0 [] = 0) by reflexivity. rewrite Ho.
    destruct (w_reward w) as [r|] eqn:Hr; cbn [wg_delivered wg_claimed].
    + split; [lia|]. intros r' Hr'. rewrite Hrw in Hr'. inversion Hr'; subst r'.
      exact (HDG r eq_refl).
    + split; [lia|]. intros r' Hr'. rewrite Hrw in Hr'. discriminate Hr'.
  - apply N.eqb_neq in Es. rewrite N.add_0_r in Hbal, Hid. rewrite N.add_0_r.
    destruct (step_msg_geffect _ _ _ _ _ H)
      as [to Hn Hrw Hne (o & ->) | w1 r rm r' o Hrm Hr Henv He Hr' ->].
    + rewrite Hn, (owed_tagged_other d0 to o Hne).
      destruct (w_reward w) as [r|] eqn:Hr; cbn [wg_delivered wg_claimed].
      * split; [lia|]. intros r' Hr'. rewrite Hrw in Hr'. inversion Hr'; subst r'.
        exact (HDG r eq_refl).
      * split; [lia|]. intros r' Hr'. rewrite Hrw in Hr'. discriminate Hr'.
    + rewrite Hr, Hrm. cbn [wg_delivered wg_claimed].
      destruct (Hcfg Es r Hr) as (Hd & Hnin & Hcore & Hpb).
      pose proof (reward_out_spec _ _ _ _ _ _ _ He) as [_ Hpay]. rewrite Hd in Hpay.
      rewrite owed_tagged_reward, (Hpay Hnin). split; [lia|].
      intros r0 Hr0. rewrite Hr' in Hr0. inversion Hr0; subst r0. clear Hr0.
      destruct (HDG r Hr) as [Hdust Hgi].
      assert (HI : RInv r (bal (w_env w') A_reward d0)) by (split; [exact Hcore | lia]).
      assert (Hbk : bal (w_env w1) A_reward (rw_denom r) = bal (w_env w') A_reward d0)
        by (rewrite Hd, Henv; reflexivity).
      destruct (exec_ghost _ _ _ _ _ _ _ _ (cap g) (wg_claimed g) HI Hbk He Hdust Hgi) as [A B].
      unfold DG. cbn [wg_claimed]. rewrite cap_eff. unfold cap in *. cbn [wg_upds].
      split; [lia | exact B].
Qed.

(** the invariant carried through a transaction: RewardWorld's [J] (leaves of the reward contract
    on top of the stack, E4 configuration, RCore, prev + owed <= bank) plus the ghost identities *)
Definition GJ (d0 : denom) (w : world) (st : list (addr * cmsg)) (g : wghost) : Prop :=
  RewardWorld.J d0 w st /\
  bal (w_env w) A_reward d0 + wg_claimed g = wg_delivered g + owed d0 st /\
  forall r, w_reward w = Some r -> DG r g.

Lemma owed_cons d s m rest :
  owed d ((s, m) :: rest) = (if s =? A_reward then outflow d m else 0) + owed d rest.
Proof. reflexivity. Qed.

Theorem step_msg_GJ d0 w s m rest w' out g :
  GJ d0 w ((s, m) :: rest) g -> step_msg w s m = Some (w', out) ->
  GJ d0 w' (out ++ rest) (gmsg d0 w s m w' g).
Proof.
  intros (HJ & Hid & HDG) H. split; [eapply step_msg_J; eauto|].
  destruct HJ as (HK & HF & HR). rewrite owed_cons in Hid. rewrite owed_app.
  assert (X : bal (w_env w') A_reward d0 + wg_claimed (gmsg d0 w s m w' g)
              = wg_delivered (gmsg d0 w s m w' g) + owed d0 out + owed d0 rest /\
              (forall r', w_reward w' = Some r' -> DG r' (gmsg d0 w s m w' g))).
  { apply ghost_msg_step; [exact H | lia | | | exact HDG].
    - intros ->. cbn [K fst snd] in HK. rewrite N.eqb_refl in HK. tauto.
    - intros Hne r Hr. cbn [K fst snd] in HK. apply N.eqb_neq in Hne. rewrite Hne in HK.
      destruct (HR r Hr) as ((Hd & Hnin & _) & Hcore & Hb).
      rewrite owed_cons, Hne, (owed_no_rw d0 rest HK) in Hb.
      split; [exact Hd | split; [exact Hnin | split; [exact Hcore | lia]]]. }
  destruct X as [X1 X2]. split; [lia | exact X2].
Qed.

(** ** A5. transactions *)
Lemma grun_nil d0 f w g : grun d0 f w [] g = Some (w, g).
Proof. destruct f; reflexivity. Qed.

Lemma grun_S d0 f w s m rest g :
  grun d0 (S f) w ((s, m) :: rest) g
  = bind (step_msg w s m) (fun r => grun d0 f (fst r) (snd r ++ rest) (gmsg d0 w s m (fst r) g)).
Proof. reflexivity. Qed.

(** the instrumented run reaches exactly the world of [Exec.run] *)
Lemma grun_world d0 : forall fuel w st g tr,
  option_map fst (grun d0 fuel w st g) = option_map fst (run fuel w st tr).
Proof.
  induction fuel as [|f IH]; intros w st g tr.
  - destruct st as [|[s m] rest]; reflexivity.
  - destruct st as [|[s m] rest]; [reflexivity|]. cbn [grun run].
    destruct (step_msg w s m) as [[w1 o]|]; cbn [bind fst snd]; [apply IH | reflexivity].
Qed.

Lemma grun_preserves d0 (JJ : world -> list (addr * cmsg) -> wghost -> Prop) :
  (forall w s m rest w' out g,
      JJ w ((s, m) :: rest) g -> step_msg w s m = Some (w', out) ->
      JJ w' (out ++ rest) (gmsg d0 w s m w' g)) ->
  forall fuel w st g w' g', JJ w st g -> grun d0 fuel w st g = Some (w', g') -> JJ w' [] g'.
Proof.
  intros Hstep. induction fuel as [|f IH]; intros w st g w' g' HJ H.
  - destruct st as [|[s m] rest]; cbn [grun] in H; [inversion H; subst; exact HJ | discriminate].
  - destruct st as [|[s m] rest]; cbn [grun] in H; [inversion H; subst; exact HJ|].
    bind_inv H as r Hr. destruct r as [w1 out]. cbn [fst snd] in H.
    eapply IH; [|exact H]. eapply Hstep; eauto.
Qed.

(** the ghost part of the operation-level invariant (the solvency part is RewardWorld's [RWInv]) *)
Definition GW (d0 : denom) (w : world) (g : wghost) : Prop :=
  bal (w_env w) A_reward d0 + wg_claimed g = wg_delivered g /\
  forall r, w_reward w = Some r -> DG r g.

Lemma tx_ghost d0 w s target m funds w' g g' :
  s <> A_reward -> REnv d0 w -> RWInv w -> GW d0 w g ->
  grun d0 tx_fuel w [(s, MWasm target m funds)] g = Some (w', g') -> GW d0 w' g'.
Proof.
  intros Hs HE HI [Hid HDG] H. unfold tx_fuel in H. rewrite grun_S in H.
  bind_inv H as x Hx. destruct x as [w1 out]. cbn [fst snd] in H. rewrite app_nil_r in H.
  assert (X : bal (w_env w1) A_reward d0
                + wg_claimed (gmsg d0 w s (MWasm target m funds) w1 g)
              = wg_delivered (gmsg d0 w s (MWasm target m funds) w1 g) + owed d0 out + 0 /\
              (forall r', w_reward w1 = Some r' ->
                 DG r' (gmsg d0 w s (MWasm target m funds) w1 g))).
  { apply ghost_msg_step; [exact Hx | | | | exact HDG].
    - apply N.eqb_neq in Hs. rewrite Hs. lia.
    - intros E. contradiction.
    - intros _ r Hr. destruct (HE r Hr) as (Hd & Hnin & _). destruct (HI r Hr) as [Hcore Hb].
      rewrite Hd in Hb. split; [exact Hd | split; [exact Hnin | split; [exact Hcore | exact Hb]]]. }
  destruct X as [X1 X2]. rewrite N.add_0_r in X1.
  destruct (root_step d0 _ _ _ _ _ Hs HE HI Hx) as [HJ | [-> _]].
  - assert (HG : GJ d0 w' [] g').
    { eapply (grun_preserves d0 (GJ d0)); [|
        |exact H].
      - intros. eapply step_msg_GJ; eauto.
      - split; [exact HJ|]. split; assumption. }
    destruct HG as (_ & Y1 & Y2). split; [|exact Y2].
    assert (Ho : owed d0 [] = 0) by reflexivity. rewrite Ho in Y1. lia.
  - rewrite grun_nil in H. inversion H; subst w' g'. split; [|exact X2].
    assert (Ho : owed d0 [] = 0) by reflexivity. rewrite Ho in X1. lia.
Qed.

(** ** A6. operations of a history *)
Definition frame_op (o : op) : bool :=
  match o with OReset _ | OTx _ _ _ _ | OInstReward _ _ _ _ _ => false | _ => true end.

Lemma step_frame_reward w o : frame_op o = true -> w_reward (fst (step w o)) = w_reward w.
Proof.
  intros Ho. destruct o; try discriminate Ho; cbn [step].
  - destruct (e_now (w_env w) + dt <=? 18446744073); reflexivity.
  - destruct (ev_slash (w_env w) v num den unb); reflexivity.
  - destruct (ev_accrue (w_env w) A_hub v d a); reflexivity.
  - reflexivity.
  - destruct (p =? 0); reflexivity.
  - reflexivity.
  - reflexivity.
  - reflexivity.
  - destruct (w_hub w); reflexivity.
  - reflexivity.
  - reflexivity.
  - reflexivity.
  - reflexivity.
  - reflexivity.
Qed.

Lemma step_frame_bal w o a d :
  match o with OReset _ | OTx _ _ _ _ => False | _ => True end ->
  bal (w_env w) a d <= bal (w_env (fst (step w o))) a d.
Proof.
  intros Ho. destruct o; try contradiction; cbn [step].
  - destruct (e_now (w_env w) + dt <=? 18446744073); cbn [fst w_env set_env]; [|lia].
    unfold ev_advance.
    exact (deliver_matured_bal_ge (set_now (w_env w) (e_now (w_env w) + dt)) a d).
  - destruct (ev_slash (w_env w) v num den unb) as [e'|] eqn:E; cbn [fst w_env set_env]; [|lia].
    unfold ev_slash in E. check_inv E as E1. check_inv E as E2. inversion E; subst. apply N.le_refl.
  - destruct (ev_accrue (w_env w) A_hub v d0 a0) as [e'|] eqn:E; cbn [fst w_env set_env]; [|lia].
    unfold ev_accrue in E. destruct (delegation (w_env w) A_hub v); [|discriminate].
    inversion E; subst. apply N.le_refl.
  - cbn [fst w_env set_env]. apply bal_credit_ge.
  - destruct (p =? 0); cbn [fst w_env set_env]; apply N.le_refl.
  - apply N.le_refl.
  - apply N.le_refl.
  - apply N.le_refl.
  - destruct (w_hub w); apply N.le_refl.
  - apply N.le_refl.
  - apply N.le_refl.
  - apply N.le_refl.
  - apply N.le_refl.
  - apply N.le_refl.
  - apply N.le_refl.
Qed.

Lemma GW_frame d0 w w' g :
  w_reward w' = w_reward w ->
  bal (w_env w) A_reward d0 <= bal (w_env w') A_reward d0 -> GW d0 w g ->
  GW d0 w' (mkWG (wg_delivered g + (bal (w_env w') A_reward d0 - bal (w_env w) A_reward d0))
                 (wg_claimed g) (wg_upds g)).
Proof.
  intros Hrw Hge [Hid HDG]. split; cbn [wg_delivered wg_claimed]; [lia|].
  intros r Hr. rewrite Hrw in Hr. exact (HDG r Hr).
Qed.

Theorem gstep_inv d0 w o g :
  match o with OTx s _ _ _ => s <> A_reward | _ => True end ->
  REnv d0 w -> RWInv w -> GW d0 w g -> GW d0 (fst (step w o)) (gstep d0 w o g).
Proof.
  intros Hok HE HI HG.
  destruct o;
    try (cbn [gstep]; apply GW_frame;
         [apply step_frame_reward; reflexivity | apply step_frame_bal; exact I | exact HG]).
  - (* reset *)
    cbn [step gstep fst]. split; [reflexivity|]. intros r Hr. discriminate Hr.
  - (* (re-)instantiation of the reward contract *)
    cbn [gstep]. pose proof (step_frame_bal w (OInstReward sender hubaddr d swap denoms) A_reward d0 I) as Hge.
    cbn [step fst] in *. cbn [w_env set_w_reward] in *. destruct HG as [Hid _].
    split; cbn [wg_delivered wg_claimed w_env set_w_reward]; [lia|].
    intros r Hr. cbn [w_reward set_w_reward] in Hr. inversion Hr; subst r.
    unfold DG, reward_instantiate. cbn [rw_prev rw_gi]. split; lia.
  - (* transaction *)
    cbn [step gstep].
    pose proof (grun_world d0 tx_fuel w [(sender, MWasm target m funds)] g []) as Hw.
    destruct (grun d0 tx_fuel w [(sender, MWasm target m funds)] g) as [[w1 g1]|] eqn:Eg;
      destruct (run tx_fuel w [(sender, MWasm target m funds)] []) as [[w2 tr]|] eqn:Er;
      cbn [option_map fst] in Hw; try discriminate Hw; cbn [fst]; [|exact HG].
    inversion Hw; subst w2. eapply tx_ghost; eauto.
Qed.

(** ** A7. histories *)
Theorem ghost_reachable d0 ops : forall w0 g0,
  NoRewardRoot ops -> always (REnv d0) ops w0 -> RWInv w0 -> GW d0 w0 g0 ->
  RWInv (run_ops ops w0) /\ GW d0 (run_ops ops w0) (gfold d0 ops w0 g0).
Proof.
  unfold run_ops. induction ops as [|o ops IH]; intros w0 g0 Hok HA HI HG;
    cbn [fold_left gfold]; [split; assumption|].
  cbn [always] in HA. destruct HA as [HE HA]. inversion Hok as [|x l Ho Hl]; subst.
  apply IH; [exact Hl | exact HA | |].
  - eapply step_rwinv; eauto. eapply always_head; exact HA.
  - apply gstep_inv; assumption.
Qed.

Definition g_zero : wghost := mkWG 0 0 [].

Lemma GW_empty d0 ut : GW d0 (empty_world ut) g_zero.
Proof. split; [reflexivity|]. intros r Hr. discriminate Hr. Qed.

Corollary ghost_from_empty d0 ut ops :
  NoRewardRoot ops -> always (REnv d0) ops (empty_world ut) ->
  RWInv (run_ops ops (empty_world ut)) /\
  GW d0 (run_ops ops (empty_world ut)) (gfold d0 ops (empty_world ut) g_zero).
Proof.
  intros Hok HA. apply ghost_reachable; auto; [|apply GW_empty]. intros r Hr. discriminate Hr.
Qed.

(** C14, history level: total claimed never exceeds total delivered; the bank balance is exactly
    delivered - claimed; what was claimed plus everything still accrued never exceeds what was
    delivered *)
Theorem hist_claimed_le_delivered d0 ops w0 g0 r :
  NoRewardRoot ops -> always (REnv d0) ops w0 -> RWInv w0 -> GW d0 w0 g0 ->
  w_reward (run_ops ops w0) = Some r ->
  bal (w_env (run_ops ops w0)) A_reward d0 + wg_claimed (gfold d0 ops w0 g0)
    = wg_delivered (gfold d0 ops w0 g0) /\
  wg_claimed (gfold d0 ops w0 g0) <= wg_delivered (gfold d0 ops w0 g0) /\
  wg_claimed (gfold d0 ops w0 g0) * D + sum_acc r <= wg_delivered (gfold d0 ops w0 g0) * D /\
  rw_prev r + wg_claimed (gfold d0 ops w0 g0) <= wg_delivered (gfold d0 ops w0 g0) /\
  rw_gi r <= wg_delivered (gfold d0 ops w0 g0) * D.
Proof.
  intros Hok HA HI HG Hr.
  destruct (ghost_reachable d0 ops w0 g0 Hok HA HI HG) as [HI' [Hid HDG]].
  destruct (HI' r Hr) as [(H1 & _) Hpb]. destruct (HDG r Hr) as [_ Hgi].
  assert (Hd : rw_denom r = d0).
  { assert (HE : REnv d0 (run_ops ops w0)).
    { clear - HA. revert w0 HA. unfold run_ops. induction ops as [|o ops IH]; intros w0 HA;
        cbn [fold_left]; [eapply always_head; exact HA|]. apply IH. cbn [always] in HA. tauto. }
    destruct (HE r Hr) as (Hd & _). exact Hd. }
  rewrite Hd in Hpb. set (g := gfold d0 ops w0 g0) in *.
  set (bank := bal (w_env (run_ops ops w0)) A_reward d0) in *.
  rewrite <- Hid. rewrite N.mul_add_distr_r in *.
  assert (rw_prev r * D <= bank * D) by (apply N.mul_le_mono_r; exact Hpb).
  repeat split; lia.
Qed.

(** C14, history level: nothing is stranded.  The recorded balance exceeds the holders' accrued
    rewards by at most [t - 1] atomics per effective index update that saw supply [t]; under E1 for
    those supplies this is less than one base unit per update, however many holders there are; and
    every delivered coin is claimed, accrued to a holder, waiting for the next update, or dust *)
Theorem hist_stranded_dust d0 ops w0 g0 r :
  NoRewardRoot ops -> always (REnv d0) ops w0 -> RWInv w0 -> GW d0 w0 g0 ->
  w_reward (run_ops ops w0) = Some r ->
  sum_acc r <= rw_prev r * D /\
  rw_prev r * D - sum_acc r <= cap (gfold d0 ops w0 g0) /\
  (Forall (fun t => t <= LIM) (wg_upds (gfold d0 ops w0 g0)) ->
   rw_prev r * D - sum_acc r
     <= N.of_nat (length (wg_upds (gfold d0 ops w0 g0))) * (D - 1)) /\
  wg_delivered (gfold d0 ops w0 g0) * D
    <= wg_claimed (gfold d0 ops w0 g0) * D + sum_acc r
       + (bal (w_env (run_ops ops w0)) A_reward d0 - rw_prev r) * D + cap (gfold d0 ops w0 g0).
Proof.
  intros Hok HA HI HG Hr.
  destruct (hist_claimed_le_delivered d0 ops w0 g0 r Hok HA HI HG Hr) as (Hid & _ & _ & Hpc & _).
  destruct (ghost_reachable d0 ops w0 g0 Hok HA HI HG) as [HI' [_ HDG]].
  destruct (HI' r Hr) as [(H1 & _) _]. destruct (HDG r Hr) as [Hdust _].
  set (g := gfold d0 ops w0 g0) in *.
  set (bank := bal (w_env (run_ops ops w0)) A_reward d0) in *.
  split; [exact H1|]. split; [lia|]. split.
  - intros HF. pose proof (cap_bound g HF). lia.
  - rewrite <- Hid. rewrite N.mul_add_distr_r.
    assert (Hb : bank * D = rw_prev r * D + (bank - rw_prev r) * D)
      by (rewrite <- N.mul_add_distr_r; f_equal; lia).
    lia.
Qed.

(** the same from the empty chain (all ghosts start at 0), in one statement *)
Corollary hist_from_empty d0 ut ops r :
  NoRewardRoot ops -> always (REnv d0) ops (empty_world ut) ->
  w_reward (run_ops ops (empty_world ut)) = Some r ->
  bal (w_env (run_ops ops (empty_world ut))) A_reward d0
    + wg_claimed (gfold d0 ops (empty_world ut) g_zero)
    = wg_delivered (gfold d0 ops (empty_world ut) g_zero) /\
  wg_claimed (gfold d0 ops (empty_world ut) g_zero)
    <= wg_delivered (gfold d0 ops (empty_world ut) g_zero) /\
  rw_prev r + wg_claimed (gfold d0 ops (empty_world ut) g_zero)
    <= wg_delivered (gfold d0 ops (empty_world ut) g_zero) /\
  sum_acc r <= rw_prev r * D /\
  rw_prev r * D - sum_acc r <= cap (gfold d0 ops (empty_world ut) g_zero) /\
  (Forall (fun t => t <= LIM) (wg_upds (gfold d0 ops (empty_world ut) g_zero)) ->
   rw_prev r * D - sum_acc r
     <= N.of_nat (length (wg_upds (gfold d0 ops (empty_world ut) g_zero))) * (D - 1)).
Proof.
  intros Hok HA Hr.
  assert (HI : RWInv (empty_world ut)) by (intros x Hx; discriminate Hx).
  destruct (hist_claimed_le_delivered d0 ops _ g_zero r Hok HA HI (GW_empty d0 ut) Hr)
    as (A1 & A2 & _ & A4 & _).
  destruct (hist_stranded_dust d0 ops _ g_zero r Hok HA HI (GW_empty d0 ut) Hr)
    as (B1 & B2 & B3 & _).
  repeat split; assumption.
Qed.

(** ** A8. non-vacuity: the history [ex_ops] of RewardWorld.v (two increases, a gift of 10 coins,
    an index update over supply 7, a claim of 4 coins) *)
Example ghost_nonvacuous :
  NoRewardRoot ex_ops /\ always (REnv uusd) ex_ops (empty_world 100) /\
  RWInv (empty_world 100) /\ GW uusd (empty_world 100) g_zero /\
  gfold uusd ex_ops (empty_world 100) g_zero = mkWG 10 4 [7] /\
  Forall (fun t => t <= LIM) (wg_upds (gfold uusd ex_ops (empty_world 100) g_zero)) /\
  exists r, w_reward (run_ops ex_ops (empty_world 100)) = Some r /\
            rw_prev r = 6 /\ dust r = 3 /\ bal (w_env (run_ops ex_ops (empty_world 100))) A_reward uusd = 6.
Proof.
  split; [exact ex_no_reward_root|]. split; [exact ex_always|].
  split; [intros r Hr; discriminate Hr|]. split; [apply GW_empty|].
  assert (E : gfold uusd ex_ops (empty_world 100) g_zero = mkWG 10 4 [7]) by (vm_compute; reflexivity).
  split; [exact E|]. rewrite E. cbn [wg_upds].
  split; [repeat constructor; vm_compute; intro X; discriminate X|].
  eexists. split; [vm_compute; reflexivity|]. repeat split; vm_compute; reflexivity.
Qed.

(** * PART B — C15 (e) at transaction level *)

(** ** B1. the class of messages that never reach an index update or a claim *)
Definition settle_wasm (m : wasm_msg) : bool :=
  match m with WReward (RClaim _) | WReward RUpdateIndex => false | _ => true end.

(** [exit_class] of NonInterf.v (everything except WSwap, DSwap, DDispatch, hub UpdateGlobalIndex,
    reward SwapToRewardDenom, registry RemoveValidator / Redelegations) minus the reward
    contract's ClaimRewards and UpdateGlobalIndex *)
Definition calm (m : cmsg) : bool :=
  match m with MWasm _ wm _ => exit_wasm wm && settle_wasm wm | _ => true end.
Definition calm_s (sm : addr * cmsg) : Prop := calm (snd sm) = true.

Lemma calm_exit m : calm m = true -> exit_class m = true.
Proof.
  destruct m as [to wm f| | | | | |]; cbn [calm exit_class]; try reflexivity.
  intros H. apply andb_true_iff in H. tauto.
Qed.

(** every cw20 message of either token is in the class, whatever its target and arguments *)
Lemma calm_cw20 to cm f : calm (MWasm to (WCw20 cm) f) = true.
Proof. reflexivity. Qed.

(** a calm message is neither an index update (in either wire format) nor a claim *)
Lemma calm_no_update_no_claim sm :
  calm_s sm ->
  rmsg_of (snd sm) <> Some RUpdateIndex /\ forall rcp, rmsg_of (snd sm) <> Some (RClaim rcp).
Proof.
  destruct sm as [s m]. unfold calm_s. cbn [snd].
  destruct m as [to wm f| | | | | |]; cbn [calm rmsg_of]; try (intros _; split; [|intros rcp]; discriminate).
  intros H. destruct (to =? A_reward); [|split; [|intros rcp]; discriminate].
  destruct wm as [hm|rm| | | | |]; try (split; [|intros rcp]; discriminate).
  - destruct hm; split; try intros rcp; discriminate.
  - destruct rm; try discriminate H; split; try intros rcp; discriminate.
Qed.

(** ** B2. who emits reward calls: only the bSei token, and only Increase/DecreaseBalance *)
Definition no_rcall (m : cmsg) : Prop :=
  match m with
  | MWasm _ (WReward rm) _ => match rm with RInc _ _ | RDec _ _ => True | _ => False end
  | _ => True
  end.

Lemma hub_execute_no_rcall w h self sender funds hm h' out :
  hub_execute w h self sender funds hm = Some (h', out) -> Forall no_rcall out.
Proof.
  unfold hub_execute. intros H. apply Forall_forall. intros m Hi.
  destruct hm.
  - check_inv H as Hp. apply bond_delegates_all in H.
    destruct H as (pay & h1 & g & _ & _ & _ & _ & _ & _ & _ & _ & _ & _ & Hall).
    destruct (Hall m Hi) as [(v & c & ->)|(tok & mint & ->)]; exact I.
  - check_inv H as Hp. apply bond_delegates_all in H.
    destruct H as (pay & h1 & g & _ & _ & _ & _ & _ & _ & _ & _ & _ & _ & Hall).
    destruct (Hall m Hi) as [(v & c & ->)|(tok & mint & ->)]; exact I.
  - check_inv H as Hp. apply bond_delegates_all in H.
    destruct H as (pay & h1 & g & _ & _ & _ & _ & _ & _ & _ & _ & _ & _ & Hall).
    destruct (Hall m Hi) as [(v & c & ->)|(tok & mint & ->)]; exact I.
  - check_inv H as Hp. apply execute_update_global_pools in H.
    destruct H as (_ & _ & d & hooks & _ & Hh & ->).
    apply in_app_or in Hi. destruct Hi as [Hi|Hi]; [destruct (Hh m Hi) as (a & ->); exact I|].
    apply in_app_or in Hi. destruct Hi as [Hi|Hi].
    + apply in_map_iff in Hi. destruct Hi as (x & <- & _). exact I.
    + destruct Hi as [<-|[<-|[]]]; exact I.
  - check_inv H as Hp. apply execute_withdraw_pools in H. destruct H as (_ & _ & amount & _ & _ & ->).
    destruct Hi as [<-|[]]. exact I.
  - check_inv H as Hp. bind_inv H as h1 Hh1. inversion H; subst. destruct Hi.
  - apply update_params_spec in H. destruct H as (_ & _ & _ & -> & _). destruct Hi.
  - check_inv H as Hp. unfold execute_update_config in H.
    check_inv H as C1. check_inv H as C2. check_inv H as C3. inversion H; subst.
    destruct disp; [|destruct Hi]. destruct Hi as [<-|[]]. exact I.
  - check_inv H as Hp. check_inv H as Hs. inversion H; subst. destruct Hi.
  - check_inv H as Hp. check_inv H as Hs. inversion H; subst. destruct Hi.
  - check_inv H as Hp. bind_inv H as reg Hreg. check_inv H as Hs. inversion H; subst.
    apply in_map_iff in Hi. destruct Hi as (x & <- & _). exact I.
  - check_inv H as Hp. check_inv H as Hs. bind_inv H as t Ht. check_inv H as Hb. inversion H; subst.
    destruct Hi as [<-|[]]. exact I.
  - check_inv H as Hp. bind_inv H as reg Hreg. check_inv H as Hs. inversion H; subst.
    destruct Hi as [<-|[<-|[]]]; exact I.
  - destruct (paused h); [|discriminate]. inversion H; subst. destruct Hi.
  - check_inv H as Hp. unfold receive_cw20 in H. bind_inv H as b Hb. bind_inv H as st Hst.
    destruct h0; [| |discriminate].
    + assert (S : exists msgs tok, out = msgs ++ [MWasm tok (WCw20 (CBurn amt)) []] /\
                                   forall m, In m msgs -> exists v c, m = MUndelegate v c).
      { destruct (sender =? b); [eapply execute_unbond_shape; eauto|].
        destruct (sender =? st); [eapply execute_unbond_stsei_shape; eauto|discriminate]. }
      destruct S as (msgs & tok & -> & Hm). apply in_app_or in Hi. destruct Hi as [Hi|[<-|[]]].
      * destruct (Hm m Hi) as (v & c & ->). exact I.
      * exact I.
    + assert (S : exists a b c d, out = [MWasm a (WCw20 b) []; MWasm c (WCw20 d) []]).
      { destruct (sender =? b); [eapply convert_shape; eauto|].
        destruct (sender =? st); [eapply convert_shape; eauto|discriminate]. }
      destruct S as (a1 & b1 & c1 & d1 & ->). destruct Hi as [<-|[<-|[]]]; exact I.
Qed.

Lemma leaf_no_rcall m : leaf m -> no_rcall m.
Proof. destruct m as [to wm f| | | | | |]; cbn [leaf no_rcall]; try tauto. destruct wm; tauto. Qed.

Ltac rcall_list := repeat (constructor; [exact I|]); constructor.

Lemma bsei_execute_no_rcall w t sender m t' out :
  bsei_execute w t sender m = Some (t', out) -> Forall no_rcall out.
Proof.
  intros H. apply bsei_execute_out in H.
  destruct m; try contradiction; try (subst out; constructor);
    destruct H as (rc & _ & ->); rcall_list.
Qed.

Lemma stsei_execute_no_rcall w t sender m t' out :
  stsei_execute w t sender m = Some (t', out) -> Forall no_rcall out.
Proof.
  unfold stsei_execute. intros H. destruct m.
  - check_inv H as Hz. bind_inv H as t1 Ht1. inversion H; subst. rcall_list.
  - check_inv H as Hs. check_inv H as Hz. bind_inv H as t1 Ht1. inversion H; subst. rcall_list.
  - bind_inv H as t1 Ht1. inversion H; subst. rcall_list.
  - check_inv H as Hz. bind_inv H as t1 Ht1. inversion H; subst. rcall_list.
  - bind_inv H as t1 Ht1. inversion H; subst. rcall_list.
  - bind_inv H as t1 Ht1. inversion H; subst. rcall_list.
  - bind_inv H as t1 Ht1. bind_inv H as t2 Ht2. inversion H; subst. rcall_list.
  - bind_inv H as t1 Ht1. bind_inv H as t2 Ht2. inversion H; subst. rcall_list.
  - bind_inv H as t1 Ht1. bind_inv H as t2 Ht2. inversion H; subst. rcall_list.
  - destruct (tk_minter t) as [[mn cp]|]; [|discriminate]. check_inv H as Hs. inversion H; subst. rcall_list.
Qed.

Lemma disp_execute_no_rcall w d self sender m d' out :
  disp_execute w d self sender m = Some (d', out) -> exit_wasm (WDisp m) = true -> out = [].
Proof.
  intros H Hm. unfold disp_execute in H. destruct m; cbn [exit_wasm] in Hm; try discriminate Hm;
    inv_all H; reflexivity.
Qed.

Lemma reg_execute_no_rcall w g sender m g' out :
  reg_execute w g sender m = Some (g', out) -> exit_wasm (WReg m) = true -> out = [].
Proof.
  intros H Hm. unfold reg_execute in H. destruct m; cbn [exit_wasm] in Hm; try discriminate Hm;
    inv_all H; reflexivity.
Qed.

(** no handler executing a message of the class emits a reward call other than the token's
    Increase/DecreaseBalance *)
Theorem emit_no_reward_call w s m w' out :
  step_msg w s m = Some (w', out) -> exit_class m = true ->
  Forall (fun sm => no_rcall (snd sm)) out.
Proof.
  intros H Hm. apply step_msg_inv in H. destruct H as [e' -> -> _ | to wm funds e1 o -> He1 Hc ->].
  - constructor.
  - cbn [exit_class] in Hm.
    assert (Ho : Forall no_rcall o).
    { destruct Hc as [h hm h' -> -> Hh Hx _ | r rm r' -> Hrm Hr Hx _ | d dm d' -> -> Hd Hx _
                     | g gm g' -> -> Hg Hx _ | t cm t' -> -> Ht Hx _ | t cm t' -> -> Ht Hx _
                     | sm e' -> -> _ _ -> | -> _ ->].
      - eapply hub_execute_no_rcall; eauto.
      - pose proof (reward_out_spec _ _ _ _ _ _ _ Hx) as [HL _].
        eapply Forall_impl; [|exact HL]. intros a. apply leaf_no_rcall.
      - rewrite (disp_execute_no_rcall _ _ _ _ _ _ _ Hx Hm). constructor.
      - rewrite (reg_execute_no_rcall _ _ _ _ _ _ Hx Hm). constructor.
      - eapply bsei_execute_no_rcall; eauto.
      - eapply stsei_execute_no_rcall; eauto.
      - constructor.
      - constructor. }
    apply Forall_forall. intros [a c] Hin. apply in_map_iff in Hin.
    destruct Hin as (x & Hx & Hin). inversion Hx; subst. cbn [snd].
    exact (proj1 (Forall_forall _ _) Ho c Hin).
Qed.

Lemma exit_no_rcall_calm m : exit_class m = true -> no_rcall m -> calm m = true.
Proof.
  destruct m as [to wm f| | | | | |]; cbn [exit_class no_rcall calm]; try reflexivity.
  intros He Hn. rewrite He. cbn [andb]. destruct wm as [hm|rm| | | | |]; try reflexivity.
  destruct rm; try contradiction; reflexivity.
Qed.

(** the class is closed under "emitted while executing a message of the class" *)
Theorem calm_closed w s m w' out :
  step_msg w s m = Some (w', out) -> calm m = true -> Forall calm_s out.
Proof.
  intros H Hm. pose proof (calm_exit _ Hm) as He.
  pose proof (exit_class_closed _ _ _ _ _ H He) as H1. rewrite forallb_forall in H1.
  pose proof (emit_no_reward_call _ _ _ _ _ H He) as H2. rewrite Forall_forall in H2.
  apply Forall_forall. intros sm Hin. apply exit_no_rcall_calm; [apply H1 | apply H2]; exact Hin.
Qed.

(** every message executed by a run that starts with a calm stack is calm *)
Theorem run_trace_calm : forall fuel w st tr w' tr',
  run fuel w st tr = Some (w', tr') -> Forall calm_s st -> Forall calm_s tr -> Forall calm_s tr'.
Proof.
  induction fuel as [|f IH]; intros w st tr w' tr' H Hst Htr.
  - destruct st as [|[s m] rest]; cbn [run] in H; [inversion H; subst; exact Htr | discriminate].
  - destruct st as [|[s m] rest]; cbn [run] in H; [inversion H; subst; exact Htr|].
    bind_inv H as r Hr. destruct r as [w1 out]. cbn [fst snd] in H.
    apply Forall_cons_iff in Hst. destruct Hst as [Hm Hrest].
    eapply IH; [exact H | |].
    + apply Forall_app. split; [eapply calm_closed; eauto | exact Hrest].
    + apply Forall_app. split; [exact Htr | constructor; [exact Hm | constructor]].
Qed.

(** ** B3. a calm message moves nobody's accrued rewards *)
Definition AccSame (r0 : reward) (w : world) : Prop :=
  exists r, w_reward w = Some r /\ rw_gi r = rw_gi r0 /\ rw_prev r = rw_prev r0 /\
            forall a, acc r a = acc r0 a.

Lemma acc_ext r r' a :
  rw_gi r' = rw_gi r -> holder_of r' a = holder_of r a -> acc r' a = acc r a.
Proof. intros E1 E2. unfold acc. rewrite E1, E2. reflexivity. Qed.

Theorem calm_step_acc r0 w s m w' out :
  calm m = true -> step_msg w s m = Some (w', out) -> AccSame r0 w -> AccSame r0 w'.
Proof.
  intros Hm H (r & Hr & Hgi & Hpv & Hacc).
  destruct (reward_state_changes_only_by_handler _ _ _ _ _ H)
    as [E | (w1 & r1 & rm & r' & o & Hr1 & Hr' & He & wm & funds & -> & Hwm)].
  - exists r. rewrite E. auto.
  - assert (r1 = r) by congruence. subst r1. cbn [calm] in Hm. apply andb_true_iff in Hm.
    destruct Hm as [Hex Hst].
    destruct Hwm as [-> | (n & -> & _)]; [|discriminate Hex].
    exists r'. split; [exact Hr'|].
    destruct rm; try discriminate Hex; try discriminate Hst;
      try (destruct (reward_execute_cfg_effect _ _ _ _ _ _ _ He eq_refl) as (_ & G1 & _ & G3 & G4);
           split; [congruence|]; split; [congruence|]; intros b; rewrite <- Hacc;
           apply acc_ext; [exact G1 | unfold holder_of; rewrite G4; reflexivity]).
    + destruct (inc_preserves_acc _ _ _ _ _ _ _ _ He) as (Ha & _ & G1 & G3 & _ & _ & Hoth).
      split; [congruence|]. split; [congruence|]. intros b. rewrite <- Hacc.
      destruct (N.eq_dec b a) as [->|Hne]; [exact Ha | apply acc_ext; [exact G1 | apply Hoth; exact Hne]].
    + destruct (dec_preserves_acc _ _ _ _ _ _ _ _ He) as (Ha & _ & _ & G1 & G3 & _ & _ & Hoth).
      split; [congruence|]. split; [congruence|]. intros b. rewrite <- Hacc.
      destruct (N.eq_dec b a) as [->|Hne]; [exact Ha | apply acc_ext; [exact G1 | apply Hoth; exact Hne]].
Qed.

(** ** B4. transactions *)
(** A successful transaction whose root message is in the class — in particular every bSei (and
    stSei) token message: Transfer, Send to any contract with any hook (hence unbonding and
    converting through the hub), TransferFrom, SendFrom, BurnFrom, Burn, Mint, allowances; also
    the hub's Bond, WithdrawUnbonded, CheckSlashing — executes no index update and no claim, and
    leaves the accrued atomics of EVERY address (sender, recipient, owner, spender, the hub,
    bystanders), the global index and the recorded reward balance unchanged.  No hypothesis on
    the world or the sender. *)
Theorem calm_tx_preserves_acc w sender target m funds w' tr r :
  calm (MWasm target m funds) = true -> w_reward w = Some r ->
  run tx_fuel w [(sender, MWasm target m funds)] [] = Some (w', tr) ->
  Forall calm_s tr /\
  exists r', w_reward w' = Some r' /\ rw_gi r' = rw_gi r /\ rw_prev r' = rw_prev r /\
             forall a, acc r' a = acc r a.
Proof.
  intros Hm Hr H. split.
  - eapply run_trace_calm; [exact H | constructor; [exact Hm | constructor] | constructor].
  - pose (JJ := fun (x : world) (st : list (addr * cmsg)) => Forall calm_s st /\ AccSame r x).
    assert (HJ : JJ w' []).
    { eapply (run_preserves_stack JJ); [| |exact H].
      - intros x s0 m0 rest x' out [Hst HA] Hs. apply Forall_cons_iff in Hst.
        destruct Hst as [Hm0 Hrest]. split.
        + apply Forall_app. split; [eapply calm_closed; eauto | exact Hrest].
        + eapply calm_step_acc; eauto.
      - split; [constructor; [exact Hm | constructor]|]. exists r. auto. }
    exact (proj2 HJ).
Qed.

(** bSei token roots in a wired, mirrored world: additionally the mirror is exact again at the
    end, so the reward-side balances are the new token balances while all accrued rewards stayed *)
Theorem bsei_tx_rewards_stay w sender cm funds w' tr r :
  Wired w -> Mirror w -> sender <> A_bsei -> w_reward w = Some r ->
  run tx_fuel w [(sender, MWasm A_bsei (WCw20 cm) funds)] [] = Some (w', tr) ->
  Wired w' /\ Mirror w' /\ Forall calm_s tr /\
  exists r', w_reward w' = Some r' /\ rw_gi r' = rw_gi r /\ rw_prev r' = rw_prev r /\
             forall a, acc r' a = acc r a.
Proof.
  intros HW HM Hs Hr H.
  destruct (tx_mirror w sender A_bsei (WCw20 cm) funds w' tr HW HM Hs eq_refl H) as [HM' HW'].
  destruct (calm_tx_preserves_acc w sender A_bsei (WCw20 cm) funds w' tr r eq_refl Hr H) as [Htr Hacc].
  auto.
Qed.

(** tokens acquired after an index update earn nothing from it: after an update (handler level,
    state [r] to [r1]) any calm transaction — e.g. the Transfer / Send / bond by which an address
    acquires tokens — leaves the address with exactly what its OLD balance earned *)
Theorem late_tokens_tx w0 r self s r1 o1 w sender target m funds w' tr a :
  reward_execute w0 r self s RUpdateIndex = Some (r1, o1) -> rw_total r <> 0 ->
  ho_idx (holder_of r a) <= rw_gi r ->
  w_reward w = Some r1 -> calm (MWasm target m funds) = true ->
  run tx_fuel w [(sender, MWasm target m funds)] [] = Some (w', tr) ->
  exists r2, w_reward w' = Some r2 /\
    acc r2 a = acc r a + ho_bal (holder_of r a) * index_step r (bal (w_env w0) self (rw_denom r)).
Proof.
  intros H1 Ht Hi Hr1 Hm H.
  destruct (accrual_step _ _ _ _ _ _ a H1 Hi) as (_ & _ & Hs). destruct (Hs Ht) as [_ Ha].
  destruct (calm_tx_preserves_acc _ _ _ _ _ _ _ _ Hm Hr1 H) as [_ (r2 & Hr2 & _ & _ & Hacc)].
  exists r2. split; [exact Hr2|]. rewrite Hacc. exact Ha.
Qed.

(** ** B5. non-vacuity: the wired, mirrored world [ex_w2] of MirrorP.v (alice 450 bSei, bob 350),
    1000 reward coins delivered and indexed, then alice transfers 100 bSei to bob *)
Definition hx_ops : list op :=
  [ OGift A_reward uusd 1000; OTx A_disp A_reward (WReward RUpdateIndex) [] ].
Definition hx_w3 : world := Eval vm_compute in run_ops hx_ops ex_w2.
Definition hx_tx : list (addr * cmsg) := [(ex_alice, MWasm A_bsei (WCw20 (CTransfer ex_bob 100)) [])].
Definition hx_w4 : world :=
  Eval vm_compute in match run tx_fuel hx_w3 hx_tx [] with Some (w, _) => w | None => hx_w3 end.

Lemma hx_w3_eq : run_ops hx_ops ex_w2 = hx_w3.
Proof. vm_compute. reflexivity. Qed.

Lemma hx_w3_mirror : Wired hx_w3 /\ Mirror hx_w3.
Proof.
  split; [vm_compute; repeat split|].
  rewrite <- hx_w3_eq. apply mirror_final.
  - vm_compute. repeat split.
  - repeat constructor; discriminate.
  - exact (proj1 (proj2 example_mirror_nonvacuous)).
Qed.

Example calm_tx_nonvacuous :
  Wired hx_w3 /\ Mirror hx_w3 /\ ex_alice <> A_bsei /\
  exists r tr r',
    w_reward hx_w3 = Some r /\
    run tx_fuel hx_w3 hx_tx [] = Some (hx_w4, tr) /\ length tr = 3%nat /\
    w_reward hx_w4 = Some r' /\
    acc r ex_alice = 562500000000000000000 /\ acc r' ex_alice = 562500000000000000000 /\
    acc r ex_bob = 437500000000000000000 /\ acc r' ex_bob = 437500000000000000000 /\
    ho_bal (holder_of r ex_alice) = 450 /\ ho_bal (holder_of r' ex_alice) = 350 /\
    ho_bal (holder_of r ex_bob) = 350 /\ ho_bal (holder_of r' ex_bob) = 450.
Proof.
  split; [exact (proj1 hx_w3_mirror)|]. split; [exact (proj2 hx_w3_mirror)|].
  split; [intro X; discriminate X|].
  do 3 eexists. split; [vm_compute; reflexivity|]. split; [vm_compute; reflexivity|].
  split; [reflexivity|]. split; [vm_compute; reflexivity|]. repeat split; vm_compute; reflexivity.
Qed.

(** ** B6. Part A on the same deployment: the whole history from the empty chain (deployment of
    the six contracts, bond, transfers, unbond, allowance; 1000 coins delivered and indexed over
    supply 800; a transfer; alice claims her 562 whole coins) *)
Definition hx_all : list op :=
  ex_setup ++ ex_acts ++ hx_ops ++
  [ OTx ex_alice A_bsei (WCw20 (CTransfer ex_bob 100)) [];
    OTx ex_alice A_reward (WReward (RClaim None)) [] ].

Example ghost_wired_nonvacuous :
  NoRewardRoot hx_all /\ always (REnv uusd) hx_all (empty_world 50) /\
  gfold uusd hx_all (empty_world 50) g_zero = mkWG 1000 562 [800] /\
  exists r, w_reward (run_ops hx_all (empty_world 50)) = Some r /\
            rw_prev r = 438 /\ dust r = 0 /\ acc r ex_alice = 500000000000000000 /\
            bal (w_env (run_ops hx_all (empty_world 50))) A_reward uusd = 438 /\
            bal (w_env (run_ops hx_all (empty_world 50))) ex_alice uusd = 562.
Proof.
  split; [unfold NoRewardRoot, hx_all, ex_setup, ex_acts, hx_ops; cbn [app];
          repeat constructor; intro X; vm_compute in X; discriminate X|].
  split.
  { unfold hx_all, ex_setup, ex_acts, hx_ops. cbn [app always].
    repeat (split; [apply renv_check; vm_compute; try exact I;
                    repeat split; try reflexivity; intros [X|[]]; discriminate X|]).
    exact I. }
  split; [vm_compute; reflexivity|].
  eexists. split; [vm_compute; reflexivity|]. repeat split; vm_compute; reflexivity.
Qed.

(** * PART C — E1 for the executed index updates from a world-level predicate
    A transaction whose root is not calm can execute index updates, but then it never executes an
    Increase/DecreaseBalance: the class [nosettle] (the complement of [calm], closed under
    emission) leaves [rw_total] unchanged.  Hence every executed effective update sees the
    mirrored supply of the world in which its transaction started, and the bound on the recorded
    supplies follows from the bound in the visited worlds. *)
Definition nosettle_wasm (m : wasm_msg) : bool :=
  match m with
  | WSwap _ | WOpaque => true
  | WDisp (DSwap _ _) | WDisp DDispatch => true
  | WHub (HUpdateGlobal _) | WHub HBondRewards | WHub (HRedelProxy _ _) => true
  | WReward RSwap | WReward (RClaim _) | WReward RUpdateIndex => true
  | WReg (GRemove _) | WReg (GRedelegations _) => true
  | _ => false
  end.
Definition nosettle (m : cmsg) : bool :=
  match m with MWasm _ wm _ => nosettle_wasm wm | _ => true end.
Definition nosettle_s (sm : addr * cmsg) : Prop := nosettle (snd sm) = true.

(** every message is in one of the two classes *)
Lemma calm_or_nosettle m : calm m = true \/ nosettle m = true.
Proof.
  destruct m as [to wm f| | | | | |]; try (left; reflexivity). cbn [calm nosettle].
  destruct wm as [hm|rm|dm|gm|cm|sm|]; try (left; reflexivity); try (right; reflexivity).
  - destruct hm; try (left; reflexivity); right; reflexivity.
  - destruct rm; try (left; reflexivity); right; reflexivity.
  - destruct dm; try (left; reflexivity); right; reflexivity.
  - destruct gm; try (left; reflexivity); right; reflexivity.
Qed.

Lemma execute_bond_rw_out w h self sender funds h' ms :
  execute_bond w h self sender funds BkRw = Some (h', ms) ->
  exists vals xs d, ms = delegate_msgs vals xs d.
Proof.
  unfold execute_bond. intros H.
  bind_inv H as dispaddr Hd. check_inv H as Hauth. check_inv H as Hlen.
  bind_inv H as pay Hpay. bind_inv H as h1 Hh1.
  bind_inv H as supply Hsupply. bind_inv H as s' Hs'.
  bind_inv H as vals Hvals.
  destruct vals as [|v0 vr]; [discriminate|].
  bind_inv H as r Hr. inversion H; subst. eauto.
Qed.

Lemma delegate_msgs_nosettle vals xs d : Forall (fun m => nosettle m = true) (delegate_msgs vals xs d).
Proof.
  unfold delegate_msgs. apply Forall_flat_map_all. intros p.
  destruct (snd p =? 0); repeat constructor.
Qed.

Lemma hub_execute_nosettle w h self sender funds hm h' out :
  hub_execute w h self sender funds hm = Some (h', out) -> nosettle_wasm (WHub hm) = true ->
  Forall (fun m => nosettle m = true) out.
Proof.
  unfold hub_execute. intros H Hm. destruct hm; try discriminate Hm.
  - check_inv H as Hp. apply execute_bond_rw_out in H. destruct H as (vals & xs & d & ->).
    apply delegate_msgs_nosettle.
  - check_inv H as Hp. apply execute_update_global_pools in H.
    destruct H as (_ & _ & d & hooks & _ & Hh & ->).
    apply Forall_app. split; [|apply Forall_app; split].
    + apply Forall_forall. intros m Hi. destruct (Hh m Hi) as (a & ->). reflexivity.
    + apply Forall_map_all. intros x. reflexivity.
    + repeat constructor.
  - check_inv H as Hp. bind_inv H as reg Hreg. check_inv H as Hs. inversion H; subst.
    apply Forall_map_all. intros x. reflexivity.
Qed.

Lemma leaf_nosettle m : leaf m -> nosettle m = true.
Proof. destruct m as [to wm f| | | | | |]; cbn [leaf nosettle]; try tauto. destruct wm; tauto. Qed.

Lemma convert_loop_nosettle w dp : forall coins tsei tusd msgs r,
  Forall (fun m => nosettle m = true) msgs -> convert_loop w dp coins tsei tusd msgs = Some r ->
  Forall (fun m => nosettle m = true) (snd r).
Proof.
  induction coins as [|c cs IH]; intros tsei tusd msgs r Hm H; cbn [convert_loop] in H.
  - inversion H; subst. exact Hm.
  - destruct (negb (existsb (N.eqb (fst c)) (dp_denoms dp))); [eapply IH; eauto|].
    destruct (fst c =? dp_std dp); [bind_inv H as t Ht; eapply IH; eauto|].
    destruct (fst c =? dp_bd dp); [bind_inv H as t Ht; eapply IH; eauto|].
    destruct (negb (snd c =? 0)); [|eapply IH; eauto].
    check_inv H as Hsw. bind_inv H as ret Hret. bind_inv H as t Ht.
    eapply IH; [|exact H]. apply Forall_app. split; [exact Hm|]. repeat constructor.
Qed.

Lemma disp_execute_nosettle w dp self sender m dp' out :
  disp_execute w dp self sender m = Some (dp', out) -> nosettle_wasm (WDisp m) = true ->
  Forall (fun m => nosettle m = true) out.
Proof.
  intros H Hm. destruct m; try discriminate Hm; cbn [disp_execute] in H.
  - check_inv H as Hs. bind_inv H as r Hr.
    pose proof (convert_loop_nosettle _ _ _ _ _ _ _ (Forall_nil _) Hr) as Hms.
    destruct r as [[tsei tusd] msgs]. cbn [snd] in Hms.
    check_inv H as Ho. bind_inv H as a1 E1. bind_inv H as a2 E2. bind_inv H as info E3.
    destruct info as [[od oa] ask]. inversion H; subst.
    destruct (oa =? 0); [exact Hms|]. apply Forall_app. split; [exact Hms | repeat constructor].
  - check_inv H as Hs. bind_inv H as m1 E1. bind_inv H as m2 E2. inversion H; subst.
    apply Forall_app. split; [|apply Forall_app; split].
    + match type of E1 with context [if ?b then _ else _] => destruct b end;
        [inversion E1; subst; constructor|].
      bind_inv E1 as k Hk. bind_inv E1 as rest Hrest. inversion E1; subst. repeat constructor.
    + match type of E2 with context [if ?b then _ else _] => destruct b end;
        [inversion E2; subst; constructor|].
      bind_inv E2 as k Hk. bind_inv E2 as rebond Hrb. inversion E2; subst.
      constructor; [reflexivity|]. destruct (rebond =? 0); repeat constructor.
    + repeat constructor.
Qed.

Lemma reg_redelegate_msgs_nosettle w g v out :
  reg_redelegate_msgs w g v = Some out -> Forall (fun m => nosettle m = true) out.
Proof.
  unfold reg_redelegate_msgs. intros H.
  destruct (delegation (w_env w) (rg_hub g) v) as [amount|]; [|inversion H; subst; constructor].
  match type of H with (if ?b then _ else _) = _ => destruct b end; [inversion H; subst; constructor|].
  bind_inv H as r Hr. inversion H; subst. repeat constructor.
Qed.

Lemma reg_execute_nosettle w g sender m g' out :
  reg_execute w g sender m = Some (g', out) -> nosettle_wasm (WReg m) = true ->
  Forall (fun m => nosettle m = true) out.
Proof.
  intros H Hm. destruct m; try discriminate Hm; cbn [reg_execute] in H.
  - check_inv H as Hs.
    destruct (rg_vals (set_rg_vals g (remove_val v (rg_vals g)))); [discriminate|].
    bind_inv H as msgs Hmsgs. inversion H; subst. eapply reg_redelegate_msgs_nosettle; eauto.
  - check_inv H as Hs. bind_inv H as msgs Hmsgs. inversion H; subst.
    eapply reg_redelegate_msgs_nosettle; eauto.
Qed.

(** the class is closed under emission *)
Theorem nosettle_closed w s m w' out :
  step_msg w s m = Some (w', out) -> nosettle m = true -> Forall nosettle_s out.
Proof.
  intros H Hm. apply step_msg_inv in H. destruct H as [e' -> -> _ | to wm funds e1 o -> He1 Hc ->].
  - constructor.
  - cbn [nosettle] in Hm.
    assert (Ho : Forall (fun m => nosettle m = true) o).
    { destruct Hc as [h hm h' -> -> Hh Hx _ | r rm r' -> Hrm Hr Hx _ | d dm d' -> -> Hd Hx _
                     | g gm g' -> -> Hg Hx _ | t cm t' -> -> Ht Hx _ | t cm t' -> -> Ht Hx _
                     | sm e' -> -> _ _ -> | -> _ ->]; try discriminate Hm; try constructor.
      - eapply hub_execute_nosettle; eauto.
      - pose proof (reward_out_spec _ _ _ _ _ _ _ Hx) as [HL _].
        eapply Forall_impl; [|exact HL]. intros a. apply leaf_nosettle.
      - eapply disp_execute_nosettle; eauto.
      - eapply reg_execute_nosettle; eauto. }
    apply Forall_forall. intros [a c] Hin. apply in_map_iff in Hin.
    destruct Hin as (x & Hx & Hin). inversion Hx; subst. unfold nosettle_s. cbn [snd].
    exact (proj1 (Forall_forall _ _) Ho c Hin).
Qed.

(** a message of the class never changes the mirrored supply *)
Definition RTot (M : N) (w : world) : Prop := forall r, w_reward w = Some r -> rw_total r <= M.

Lemma nosettle_step_total M w s m w' out :
  nosettle m = true -> step_msg w s m = Some (w', out) -> RTot M w -> RTot M w'.
Proof.
  intros Hm H HT.
  destruct (reward_state_changes_only_by_handler _ _ _ _ _ H)
    as [E | (w1 & r1 & rm & r' & o & Hr1 & Hr' & He & wm & funds & -> & Hwm)].
  - intros r Hr. rewrite E in Hr. exact (HT r Hr).
  - intros r0 Hr0. rewrite Hr' in Hr0. inversion Hr0; subst r0. specialize (HT r1 Hr1).
    cbn [nosettle] in Hm.
    assert (Hrm : rm = RSwap \/ (exists rcp, rm = RClaim rcp) \/ rm = RUpdateIndex).
    { destruct Hwm as [-> | (n & -> & ->)]; [|auto].
      destruct rm; try discriminate Hm; eauto. }
    destruct Hrm as [-> | [(rcp & ->) | ->]].
    + cbn [reward_execute] in He. bind_inv He as dp Hdp. check_inv He as Hs. inversion He; subst.
      exact HT.
    + apply rclaim_iff in He. destruct He as (_ & _ & _ & -> & _). exact HT.
    + apply rupdate_iff in He. destruct He as (_ & _ & [[_ ->] | (_ & _ & _ & _ & ->)]); exact HT.
Qed.

Definition UB (M : N) (g : wghost) : Prop := Forall (fun t => t <= M) (wg_upds g).

Lemma gmsg_UB_total d0 M w s m w' g : RTot M w -> UB M g -> UB M (gmsg d0 w s m w' g).
Proof.
  intros HT HU. unfold UB, gmsg.
  destruct (w_reward w) as [r|] eqn:Hr; [|exact HU].
  destruct (rmsg_of m) as [rm|]; [|exact HU]. cbn [wg_upds].
  apply Forall_app. split; [|exact HU].
  destruct rm; cbn [eff_tot]; try constructor.
  destruct (rw_total r =? 0); constructor; [exact (HT r Hr) | constructor].
Qed.

Lemma gmsg_UB_calm d0 M w s m w' g : calm m = true -> UB M g -> UB M (gmsg d0 w s m w' g).
Proof.
  intros Hm HU. unfold UB, gmsg.
  destruct (w_reward w) as [r|] eqn:Hr; [|exact HU].
  destruct (rmsg_of m) as [rm|] eqn:Hrm; [|exact HU]. cbn [wg_upds].
  destruct (calm_no_update_no_claim (s, m) Hm) as [Hnu _]. cbn [snd] in Hnu.
  destruct rm; cbn [eff_tot app]; try exact HU. congruence.
Qed.

Lemma tx_UB d0 M w s target m funds w' g g' :
  RTot M w -> UB M g ->
  grun d0 tx_fuel w [(s, MWasm target m funds)] g = Some (w', g') -> UB M g'.
Proof.
  intros HT HU H. destruct (calm_or_nosettle (MWasm target m funds)) as [Hc | Hn].
  - pose (JJ := fun (x : world) (st : list (addr * cmsg)) (y : wghost) =>
                  Forall calm_s st /\ UB M y).
    assert (HJ : JJ w' [] g').
    { eapply (grun_preserves d0 JJ); [| |exact H].
      - intros x s0 m0 rest x' out y [Hst Hy] Hs. apply Forall_cons_iff in Hst.
        destruct Hst as [Hm0 Hrest]. split.
        + apply Forall_app. split; [eapply calm_closed; eauto | exact Hrest].
        + apply gmsg_UB_calm; assumption.
      - split; [constructor; [exact Hc | constructor] | exact HU]. }
    exact (proj2 HJ).
  - pose (JJ := fun (x : world) (st : list (addr * cmsg)) (y : wghost) =>
                  Forall nosettle_s st /\ RTot M x /\ UB M y).
    assert (HJ : JJ w' [] g').
    { eapply (grun_preserves d0 JJ); [| |exact H].
      - intros x s0 m0 rest x' out y (Hst & Hx & Hy) Hs. apply Forall_cons_iff in Hst.
        destruct Hst as [Hm0 Hrest]. split; [|split].
        + apply Forall_app. split; [eapply nosettle_closed; eauto | exact Hrest].
        + eapply nosettle_step_total; eauto.
        + apply gmsg_UB_total; assumption.
      - split; [constructor; [exact Hn | constructor] | split; assumption]. }
    exact (proj2 (proj2 HJ)).
Qed.

Lemma gstep_UB d0 M w o g : RTot M w -> UB M g -> UB M (gstep d0 w o g).
Proof.
  intros HT HU. destruct o; try exact HU.
  - constructor.
  - cbn [gstep].
    destruct (grun d0 tx_fuel w [(sender, MWasm target m funds)] g) as [[w1 g1]|] eqn:E; [|exact HU].
    eapply tx_UB; eauto.
Qed.

(** along a history whose visited worlds keep the mirrored supply within [M], every executed
    effective index update saw a supply within [M] *)
Theorem upds_bounded d0 M ops : forall w0 g0,
  always (RTot M) ops w0 -> UB M g0 -> UB M (gfold d0 ops w0 g0).
Proof.
  induction ops as [|o ops IH]; intros w0 g0 HA HU; cbn [gfold]; [exact HU|].
  cbn [always] in HA. destruct HA as [HT HA]. apply IH; [exact HA|]. apply gstep_UB; assumption.
Qed.

(** C14 "nothing is stranded", closed form, with E1 as an always-style predicate on the visited
    worlds: less than one base unit per effective index update, however many holders *)
Theorem hist_stranded_dust_E1 d0 ops w0 g0 r :
  NoRewardRoot ops -> always (REnv d0) ops w0 -> always (RTot LIM) ops w0 ->
  RWInv w0 -> GW d0 w0 g0 -> UB LIM g0 ->
  w_reward (run_ops ops w0) = Some r ->
  sum_acc r <= rw_prev r * D /\
  rw_prev r * D - sum_acc r
    <= N.of_nat (length (wg_upds (gfold d0 ops w0 g0))) * (D - 1).
Proof.
  intros Hok HA HT HI HG HU Hr.
  destruct (hist_stranded_dust d0 ops w0 g0 r Hok HA HI HG Hr) as (B1 & _ & B3 & _).
  split; [exact B1|]. apply B3. exact (upds_bounded d0 LIM ops w0 g0 HT HU).
Qed.

Corollary hist_stranded_dust_E1_empty d0 ut ops r :
  NoRewardRoot ops -> always (REnv d0) ops (empty_world ut) ->
  always (RTot LIM) ops (empty_world ut) ->
  w_reward (run_ops ops (empty_world ut)) = Some r ->
  sum_acc r <= rw_prev r * D /\
  rw_prev r * D - sum_acc r
    <= N.of_nat (length (wg_upds (gfold d0 ops (empty_world ut) g_zero))) * (D - 1).
Proof.
  intros Hok HA HT Hr. apply (hist_stranded_dust_E1 d0 ops (empty_world ut) g_zero r); auto.
  - intros x Hx. discriminate Hx.
  - apply GW_empty.
  - constructor.
Qed.

(** non-vacuity of the always-style E1 hypothesis on the full deployment history [hx_all] *)
Lemma rtot_check M w :
  match w_reward w with Some r => rw_total r <= M | None => True end -> RTot M w.
Proof. intros H r Hr. rewrite Hr in H. exact H. Qed.

Example dust_E1_nonvacuous :
  NoRewardRoot hx_all /\ always (REnv uusd) hx_all (empty_world 50) /\
  always (RTot LIM) hx_all (empty_world 50) /\
  length (wg_upds (gfold uusd hx_all (empty_world 50) g_zero)) = 1%nat.
Proof.
  split; [exact (proj1 ghost_wired_nonvacuous)|].
  split; [exact (proj1 (proj2 ghost_wired_nonvacuous))|]. split.
  - unfold hx_all, ex_setup, ex_acts, hx_ops. cbn [app always].
    repeat (split; [apply rtot_check; vm_compute; try exact I; intro X; discriminate X|]).
    exact I.
  - rewrite (proj1 (proj2 (proj2 ghost_wired_nonvacuous))). reflexivity.
Qed.

(* restore the development's default arithmetic hook for files loaded after this one *)
Ltac Zify.zify_post_hook ::= Z.div_mod_to_equations.
