(** * HubAdmin: the hub's configuration messages — parameters, config, two-step ownership, pause and
    legacy migration (used by C10, C11, C20). *)
From Krp Require Import Tactics Prelude Fixed FMap Types Env Registry Cw20 Hub HubFrame.
Open Scope N_scope.

(** ** UpdateParams: exact effect *)
Definition new_params (p : hub_params) (epoch unbonding pegfee thr : option N) (pz : option bool)
           (rdenom : option denom) : hub_params :=
  mkHubParams (opt_or epoch (hp_epoch p)) (hp_underlying p) (opt_or unbonding (hp_unbonding p))
              (opt_or pegfee (hp_pegfee p)) (N.min (opt_or thr (hp_thr p)) D)
              (opt_or rdenom (hp_rdenom p)) pz.

Lemma update_params_spec h sender epoch unbonding pegfee thr pz rdenom h' out :
  execute_update_params h sender epoch unbonding pegfee thr pz rdenom = Some (h', out) ->
  sender = hc_creator (h_cfg h) /\
  (forall f, pegfee = Some f -> f <= D) /\
  (pz <> Some true -> h_oldwait h = []) /\
  out = [] /\
  h' = set_h_params h (new_params (h_params h) epoch unbonding pegfee thr pz rdenom).
Proof.
  unfold execute_update_params. intros H.
  check_inv H as Hs. check_inv H as Hf. check_inv H as Hz. inversion H; subst.
  apply N.eqb_eq in Hs. repeat split; try assumption; try reflexivity.
  - intros f ->. lia.
  - intros Hne. destruct pz as [[|]|]; try congruence; destruct (h_oldwait h); congruence.
Qed.

Lemma update_params_unauth h sender epoch unbonding pegfee thr pz rdenom :
  sender <> hc_creator (h_cfg h) ->
  execute_update_params h sender epoch unbonding pegfee thr pz rdenom = None.
Proof.
  intros Hne. unfold execute_update_params.
  assert (E : (sender =? hc_creator (h_cfg h)) = false) by (apply N.eqb_neq; exact Hne).
  rewrite E. reflexivity.
Qed.

(** ** UpdateConfig: exact effect *)
Lemma update_config_spec h sender a b c d e f g h' out :
  execute_update_config h sender a b c d e f g = Some (h', out) ->
  sender = hc_creator (h_cfg h) /\
  (c <> None -> hc_bsei (h_cfg h) = None) /\ (d <> None -> hc_stsei (h_cfg h) = None) /\
  h_params h' = h_params h /\ h_newowner h' = h_newowner h /\ h_oldwait h' = h_oldwait h /\
  h_state h' = h_state h /\ h_batch h' = h_batch h /\ h_wait h' = h_wait h /\ h_hist h' = h_hist h /\
  hc_creator (h_cfg h') = hc_creator (h_cfg h) /\
  hc_updater (h_cfg h') = opt_or g (hc_updater (h_cfg h)) /\
  hc_disp (h_cfg h') = (match a with Some x => Some x | None => hc_disp (h_cfg h) end) /\
  hc_reg (h_cfg h') = (match b with Some x => Some x | None => hc_reg (h_cfg h) end) /\
  hc_bsei (h_cfg h') = (match c with Some x => Some x | None => hc_bsei (h_cfg h) end) /\
  hc_stsei (h_cfg h') = (match d with Some x => Some x | None => hc_stsei (h_cfg h) end) /\
  hc_airdrop (h_cfg h') = (match e with Some x => Some x | None => hc_airdrop (h_cfg h) end) /\
  hc_rewards (h_cfg h') = (match f with Some x => Some x | None => hc_rewards (h_cfg h) end).
Proof.
  unfold execute_update_config. intros H.
  check_inv H as Hs. check_inv H as Hb. check_inv H as Hst. inversion H; subst.
  apply N.eqb_eq in Hs. cbn.
  repeat split; try assumption; try reflexivity.
  - intros Hc. destruct c; [|congruence]. destruct (hc_bsei (h_cfg h)); [discriminate|reflexivity].
  - intros Hd. destruct d; [|congruence]. destruct (hc_stsei (h_cfg h)); [discriminate|reflexivity].
Qed.

(** the token addresses cannot be changed once set *)
Lemma token_addr_immutable h sender a b c d e f g h' out x :
  execute_update_config h sender a b c d e f g = Some (h', out) ->
  (hc_bsei (h_cfg h) = Some x -> hc_bsei (h_cfg h') = Some x) /\
  (hc_stsei (h_cfg h) = Some x -> hc_stsei (h_cfg h') = Some x).
Proof.
  intros H. apply update_config_spec in H.
  destruct H as (_ & Hb & Hs & _ & _ & _ & _ & _ & _ & _ & _ & _ & _ & _ & Eb & Es & _).
  split; intros Hx.
  - rewrite Eb. destruct c; [|exact Hx]. rewrite Hb in Hx by congruence. discriminate.
  - rewrite Es. destruct d; [|exact Hx]. rewrite Hs in Hx by congruence. discriminate.
Qed.

(** ** parameter range invariant (C20) *)
Definition HPInv (h : hub) : Prop := hp_pegfee (h_params h) <= D /\ hp_thr (h_params h) <= D.

Lemma hub_instantiate_pinv sender now epoch unbonding pegfee thr updater underlying rdenom h :
  hub_instantiate sender now epoch unbonding pegfee thr updater underlying rdenom = Some h ->
  HPInv h /\ hp_underlying (h_params h) = underlying /\ hp_paused (h_params h) = Some false.
Proof.
  unfold hub_instantiate. intros H. check_inv H as Hf. inversion H; subst. unfold HPInv. cbn.
  repeat split; lia.
Qed.

Lemma migrate_params h limit :
  let h' := migrate_wait_lists h limit in
  hp_epoch (h_params h') = hp_epoch (h_params h) /\
  hp_underlying (h_params h') = hp_underlying (h_params h) /\
  hp_unbonding (h_params h') = hp_unbonding (h_params h) /\
  hp_pegfee (h_params h') = hp_pegfee (h_params h) /\
  hp_thr (h_params h') = hp_thr (h_params h) /\
  hp_rdenom (h_params h') = hp_rdenom (h_params h) /\
  h_cfg h' = h_cfg h /\ h_newowner h' = h_newowner h /\
  h_state h' = h_state h /\ h_batch h' = h_batch h /\ h_hist h' = h_hist h.
Proof.
  unfold migrate_wait_lists. cbn zeta.
  destruct (firstn _ (h_oldwait h)) as [|e0 er]; [repeat split|].
  destruct (fold_left _ _ (h_oldwait h)); cbn; repeat split.
Qed.

Lemma hub_execute_pinv w h self sender funds m h' out :
  hub_execute w h self sender funds m = Some (h', out) -> HPInv h ->
  HPInv h' /\ hp_underlying (h_params h') = hp_underlying (h_params h).
Proof.
  intros H Hi. unfold HPInv in *.
  destruct (is_admin_msg m) eqn:Ha.
  - unfold hub_execute in H. destruct m; try discriminate Ha.
    + (* HParams *) apply update_params_spec in H. destruct H as (_ & Hf & _ & _ & ->). cbn.
      repeat split; try lia.
      destruct pegfee as [f|]; cbn; [apply Hf; reflexivity | tauto].
    + (* HConfig *) check_inv H as Hp. apply update_config_spec in H.
      destruct H as (_ & _ & _ & Hpar & _). rewrite Hpar. tauto.
    + check_inv H as Hp. check_inv H as Hs. inversion H; subst. cbn. tauto.
    + check_inv H as Hp. check_inv H as Hs. inversion H; subst. cbn. tauto.
    + (* HMigrate *) destruct (paused h); [|discriminate]. inversion H; subst.
      pose proof (migrate_params h limit) as M. cbn zeta in M.
      destruct M as (_ & M2 & _ & M4 & M5 & _). rewrite M2, M4, M5. tauto.
  - apply hub_execute_static in H; [|exact Ha]. destruct H as (_ & Hpar & _). rewrite Hpar. tauto.
Qed.

(** ** two-step ownership of the hub *)
Lemma hub_set_owner_spec w h self sender funds a h' out :
  hub_execute w h self sender funds (HSetOwner a) = Some (h', out) ->
  paused h = false /\ sender = hc_creator (h_cfg h) /\ h' = set_h_newowner h a /\ out = [].
Proof.
  unfold hub_execute. intros H. check_inv H as Hp. check_inv H as Hs. inversion H; subst.
  apply N.eqb_eq in Hs. apply negb_true_iff in Hp. auto.
Qed.

Lemma hub_accept_spec w h self sender funds h' out :
  hub_execute w h self sender funds HAccept = Some (h', out) ->
  paused h = false /\ sender = h_newowner h /\ hc_creator (h_cfg h') = h_newowner h /\
  h_newowner h' = h_newowner h /\ out = [].
Proof.
  unfold hub_execute. intros H. check_inv H as Hp. check_inv H as Hs. inversion H; subst.
  apply N.eqb_eq in Hs. apply negb_true_iff in Hp. cbn. auto.
Qed.
