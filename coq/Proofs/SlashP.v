(** * SlashP: property C06 -- slashing is recognised exactly and shared pro rata between the two
    pools; loss on stake slashed while unbonding is spread over the batches released together in
    proportion to their size, per token type.

    Main theorems (D = 10^18, LIM = 10^18 = envelope E1; A = delegated total, bb/bst = booked pools,
    T = bb + bst):
    - [actual_bonded_exact], [actual_bonded_inv]: the hub's view of the chain, [actual_bonded], is the
      sum of its delegations (when the underlying denom is usei).
    - [sync_exact]: a successful check with A < T books bb' + bst' = A exactly,
      bb' = floor(A * floor(bb*D/T) / D), bst' = A - bb'; other state fields untouched.
    - [sync_prorata]: under E1 (A <= LIM) bb'*T <= A*bb < (bb'+2)*T and A*bst <= bst'*T < A*bst + 2T
      (each pool within two base units of its exact share), also in quotient form.
    - [sync_empty_bsei_pool], [sync_empty_stsei_pool]: an empty pool stays empty, the other gets A.
    - [sync_noop]: T <= A  =>  both pools unchanged.  [sync_no_delegations], [sync_zero_books]:
      no delegation entry / empty books => state returned unchanged.
    - [sync_books_min]: with a delegation entry, bb' + bst' = min(T, A).
    - [sync_never_raises]: the booked total and the bSei pool never rise; under E1 the stSei pool
      rises by at most 1 unit, and not at all if A*T <= bst*D.
      [sync_st_pool_rise_witness] / [sync_st_pool_rise_exists]: that one unit does happen.
    - [slash_lowers_delegated], [slash_then_check]: the environment's slashing event keeps entries and
      only lowers the delegated total; the following check books min(T, surviving amount).
    - [slashing_idempotent]: a second check in the same world changes nothing.
    - [sync_in_bond], [sync_in_unbond], [sync_in_unbond_stsei], [sync_in_convert_stsei_bsei],
      [sync_in_convert_bsei_stsei], [sync_in_every_pricing_msg]: each pricing handler fails if the
      check fails, returns what it returns on the synchronised hub, and factors through the check.
    - [check_slashing_result], [check_slashing_succeeds], [check_slashing_tx], [check_slashing_tx_inv]:
      CheckSlashing returns exactly the synchronised hub and no messages (handler and transaction level).
    - [sync_succeeds]: under E1 and the token wiring the check never fails.
    - [group_charge_exact] (+ [group_charge_zero_total], [group_empty_batch]): in the loss branch a
      batch expecting u of the group's U coins is charged s = min(u, floor(floor(u*D/U)*L/D) + [L<>0]),
      new rate floor((u - s)*D/amount).  [group_surplus_exact]: surplus branch.
    - [group_charge_prorata]: under E1, s <= u, s*U <= u*L + U, u*L < (s+1)*U (within one unit of u*L/U).
    - [group_refloor], [group_no_loss_rate]: effect of re-flooring the rate; L = 0 never raises it.
    - [group_split_prorata]: b_actual + st_actual = A exactly, each within one unit of pro rata (E1).
    - [group_release_spec], [group_release_prorata]: inside [process_withdraw_rate] every batch of the
      release group gets, per token type, exactly these rates (computed from the group totals and
      that type's part of the arriving coins); other batches and the pools are untouched.
    Non-vacuity examples are in section 10/11 (two non-empty pools with a 1 % loss; a group of three
    batches). *)
From Krp Require Import Tactics Prelude Fixed FMap Types Env Registry Cw20 Reward Dispatcher Hub Exec
     Inv HubFrame.
Open Scope N_scope.

(** ** 0. Pure arithmetic (the scale is a variable [d]; it is instantiated with [D] later, which
       keeps the literal 10^18 away from [lia]) *)

Lemma Slash_div_spec a b : 0 < b -> b * (a / b) <= a /\ a < b * (a / b + 1).
Proof.
  intros Hb. split.
  - apply N.mul_div_le. lia.
  - rewrite N.add_1_r. apply N.mul_succ_div_gt. lia.
Qed.

(** two successive floors, x = floor(A * floor(b*d/T) / d), against the exact share A*b/T :
    A*b/T - 2 < x <= A*b/T  whenever A <= d *)
Lemma Slash_dfloor A b T d :
  0 < T -> 0 < d -> A <= d ->
  A * (b * d / T) / d * T <= A * b /\ A * b < (A * (b * d / T) / d + 2) * T.
Proof.
  intros HT Hd HA.
  destruct (Slash_div_spec (b * d) T HT) as [R1 R2].
  set (r := b * d / T) in *.
  destruct (Slash_div_spec (A * r) d Hd) as [X1 X2].
  set (x := A * r / d) in *. clearbody x r.
  split.
  - assert (P1 : T * (d * x) <= T * (A * r)) by (apply N.mul_le_mono_l; exact X1).
    assert (P2 : A * (T * r) <= A * (b * d)) by (apply N.mul_le_mono_l; exact R1).
    apply (N.mul_le_mono_pos_r _ _ d Hd). lia.
  - assert (P1 : A * (b * d) <= A * (T * (r + 1))) by (apply N.mul_le_mono_l; lia).
    assert (P2 : T * (A * r) < T * (d * (x + 1))) by (apply N.mul_lt_mono_pos_l; assumption).
    assert (P3 : T * A <= T * d) by (apply N.mul_le_mono_l; exact HA).
    apply (N.mul_lt_mono_pos_r d); [exact Hd|]. lia.
Qed.

(** the floored ratio of a part to the whole is at most one, so the scaled amount is at most A *)
Lemma Slash_dfloor_le A b T d : 0 < T -> 0 < d -> b <= T -> A * (b * d / T) / d <= A.
Proof.
  intros HT Hd Hb.
  assert (R : b * d / T <= d).
  { apply N.div_le_upper_bound; [lia|]. apply N.mul_le_mono_r. exact Hb. }
  apply N.div_le_upper_bound; [lia|]. rewrite (N.mul_comm d A). apply N.mul_le_mono_l. exact R.
Qed.

(** from bounds on x*T to bounds on the complement y = A - x against the complementary share *)
Lemma Slash_complement A b c T x :
  T = b + c -> x <= A -> x * T <= A * b -> A * b < (x + 2) * T ->
  A * c <= (A - x) * T /\ (A - x) * T < A * c + 2 * T.
Proof.
  intros -> Hx H1 H2.
  assert (E : (A - x) * (b + c) + x * (b + c) = A * (b + c)).
  { rewrite <- N.mul_add_distr_r. f_equal. lia. }
  split; lia.
Qed.

(** integer form -> quotient form *)
Lemma Slash_quot_lower x n T : 0 < T -> x * T <= n -> x <= n / T.
Proof. intros HT H. apply N.div_le_lower_bound; [lia|]. lia. Qed.

Lemma Slash_quot_upper x n T : 0 < T -> n < x * T -> n / T < x.
Proof. intros HT H. apply N.div_lt_upper_bound; [lia|]. lia. Qed.

(** ** 1. inversion lemmas for the fixed-point primitives *)

Lemma Slash_mulU_val a r x : mulU a r = Some x -> x = a * r / D.
Proof.
  unfold mulU, narrow128. destruct ((a =? 0) || (r =? 0)) eqn:E.
  - intros H. inversion H; subst.
    assert (Z : a * r = 0) by (apply orb_true_iff in E; destruct E as [E|E]; apply N.eqb_eq in E; subst; lia).
    rewrite Z. symmetry. apply N.div_0_l. exact D_nz.
  - destruct (fits128 (a * r / D)); intros H; inversion H; reflexivity.
Qed.

Lemma Slash_ratio_val a b r : ratio a b = Some r -> b <> 0 /\ r = a * D / b.
Proof.
  unfold ratio, narrow128. destruct (b =? 0) eqn:E; [discriminate|].
  destruct (fits128 (a * D / b)); intros H; inversion H. split; [lia | reflexivity].
Qed.

Lemma Slash_sub128_val a b c : sub128 a b = Some c -> b <= a /\ c = a - b.
Proof. unfold sub128. destruct (b <=? a) eqn:E; intros H; inversion H. split; [lia | reflexivity]. Qed.

Lemma Slash_add128_val a b c : add128 a b = Some c -> c = a + b /\ fits128 c = true.
Proof.
  unfold add128, narrow128. destruct (fits128 (a + b)) eqn:E; intros H; inversion H; subst. split; [reflexivity | exact E].
Qed.

(** ** 2. [actual_bonded] is the sum of the hub's delegations *)

Lemma Slash_fold_add (l : list (val * N)) : forall acc r,
  foldM (fun acc d => add128 acc (snd d)) l acc = Some r -> r = acc + sumN (map snd l).
Proof.
  induction l as [|d l IH]; intros acc r H; cbn [foldM map sumN] in *.
  - inversion H. lia.
  - bind_inv H as a1 Ha. apply Slash_add128_val in Ha. destruct Ha as [-> _].
    apply IH in H. lia.
Qed.

Lemma Slash_fold_add_ok (l : list (val * N)) : forall acc,
  fits128 (acc + sumN (map snd l)) = true ->
  foldM (fun acc d => add128 acc (snd d)) l acc = Some (acc + sumN (map snd l)).
Proof.
  induction l as [|d l IH]; intros acc F; cbn [foldM map sumN] in *.
  - f_equal. lia.
  - assert (F1 : fits128 (acc + snd d) = true) by (unfold fits128 in *; lia).
    unfold add128 at 1, narrow128. rewrite F1. cbn [bind].
    rewrite IH; [f_equal; lia|]. rewrite <- F. f_equal. lia.
Qed.

(** Target 1 *)
Theorem actual_bonded_exact w self h :
  hp_underlying (h_params h) = usei ->
  fits128 (delegated (w_env w) self) = true ->
  actual_bonded w self h = Some (delegated (w_env w) self).
Proof.
  intros Hu F. unfold actual_bonded, delegated in *. rewrite Hu, N.eqb_refl.
  rewrite Slash_fold_add_ok; [reflexivity | exact F].
Qed.

Theorem actual_bonded_inv w self h a :
  actual_bonded w self h = Some a ->
  hp_underlying (h_params h) = usei ->
  a = delegated (w_env w) self.
Proof.
  intros H Hu. unfold actual_bonded, delegated in *. rewrite Hu, N.eqb_refl in H.
  apply Slash_fold_add in H. lia.
Qed.

(** ** 3. [query_actual_state] : case analysis of a successful check *)

(** the synchronised pools in the slashed case *)
Definition Slash_bb (A bb bst : N) : N := A * (bb * D / (bb + bst)) / D.

Lemma Slash_query_inv w self h s' :
  query_actual_state w self h = Some s' ->
  all_delegations (w_env w) self <> [] ->
  let s := h_state h in
  exists A T, actual_bonded w self h = Some A /\ T = hs_bb s + hs_bst s /\ fits128 T = true /\
    ((T = 0 /\ s' = s) \/
     (T <> 0 /\ exists bi si s1 ber ser,
        hub_bsei_supply w h = Some bi /\ hub_stsei_supply w h = Some si /\
        ((A < T /\ Slash_bb A (hs_bb s) (hs_bst s) <= A /\
          s1 = set_bonded s (Slash_bb A (hs_bb s) (hs_bst s)) (A - Slash_bb A (hs_bb s) (hs_bst s)))
         \/ (T <= A /\ s1 = s)) /\
        exchange_rate (hs_bb s1) bi (cb_reqb (h_batch h)) = Some ber /\
        exchange_rate (hs_bst s1) si (cb_reqst (h_batch h)) = Some ser /\
        s' = set_rates s1 ber ser)).
Proof.
  unfold query_actual_state. intros H Hne. cbv zeta.
  destruct (all_delegations (w_env w) self) as [|d0 dl] eqn:Hd; [contradiction|].
  bind_inv H as A HA. bind_inv H as T HT.
  apply Slash_add128_val in HT. destruct HT as [HT HF].
  exists A, T. split; [reflexivity|]. split; [exact HT|]. split; [exact HF|].
  destruct (T =? 0) eqn:HT0.
  - left. split; [lia | inversion H; reflexivity].
  - right. split; [lia|].
    bind_inv H as bi Hbi. bind_inv H as si Hsi. bind_inv H as s1 Hs1.
    bind_inv H as ber Hber. bind_inv H as ser Hser. inversion H; subst s'. clear H.
    exists bi, si, s1, ber, ser. repeat split; try assumption.
    destruct (A <? T) eqn:HAT.
    + left. bind_inv Hs1 as r Hr. bind_inv Hs1 as bb Hbb. bind_inv Hs1 as bst Hbst.
      apply Slash_ratio_val in Hr. destruct Hr as [_ ->].
      apply Slash_mulU_val in Hbb. apply Slash_sub128_val in Hbst. destruct Hbst as [Hle ->].
      inversion Hs1; subst s1. unfold Slash_bb. rewrite <- HT, <- Hbb.
      split; [lia|]. split; [exact Hle | reflexivity].
    + right. inversion Hs1; subst s1. split; [lia | reflexivity].
Qed.

Lemma Slash_query_nodel w self h :
  all_delegations (w_env w) self = [] -> query_actual_state w self h = Some (h_state h).
Proof. intros E. unfold query_actual_state. rewrite E. reflexivity. Qed.

(** Target 2: exactness and the closed form of the two pools after a check that sees a loss *)
Theorem sync_exact w self h s' :
  query_actual_state w self h = Some s' ->
  hp_underlying (h_params h) = usei ->
  all_delegations (w_env w) self <> [] ->
  delegated (w_env w) self < booked h ->
  let A := delegated (w_env w) self in
  let bb := hs_bb (h_state h) in
  let bst := hs_bst (h_state h) in
  hs_bb s' + hs_bst s' = A /\
  hs_bb s' = A * (bb * D / (bb + bst)) / D /\
  hs_bst s' = A - hs_bb s' /\
  hs_lim s' = hs_lim (h_state h) /\ hs_phb s' = hs_phb (h_state h) /\
  hs_lut s' = hs_lut (h_state h) /\ hs_lpb s' = hs_lpb (h_state h).
Proof.
  intros H Hu Hne Hlt. cbv zeta.
  destruct (Slash_query_inv _ _ _ _ H Hne) as (A & T & HA & HT & HF & Hc).
  apply actual_bonded_inv in HA; [|exact Hu]. subst A.
  unfold booked in Hlt. cbv zeta in *.
  destruct Hc as [[HT0 _] | (HTnz & bi & si & s1 & ber & ser & _ & _ & Hs1 & _ & _ & ->)]; [lia|].
  destruct Hs1 as [(_ & Hle & ->) | (Hge & _)]; [|lia].
  unfold Slash_bb in *. cbn [set_rates set_bonded hs_bb hs_bst hs_lim hs_phb hs_lut hs_lpb].
  repeat split; lia.
Qed.

(** Target 2, pro-rata part: under E1 (delegated total at most 10^18 = LIM) each pool is within two
    base units of its exact share A*pool/T; integer form (no division) and quotient form *)
Theorem sync_prorata w self h s' :
  query_actual_state w self h = Some s' ->
  hp_underlying (h_params h) = usei ->
  all_delegations (w_env w) self <> [] ->
  delegated (w_env w) self < booked h ->
  delegated (w_env w) self <= LIM ->
  let A := delegated (w_env w) self in
  let bb := hs_bb (h_state h) in
  let bst := hs_bst (h_state h) in
  let T := bb + bst in
  (hs_bb s' * T <= A * bb /\ A * bb < (hs_bb s' + 2) * T) /\
  (A * bst <= hs_bst s' * T /\ hs_bst s' * T < A * bst + 2 * T) /\
  (hs_bb s' <= A * bb / T /\ A * bb / T < hs_bb s' + 2) /\
  (A * bst / T <= hs_bst s' /\ hs_bst s' <= A * bst / T + 2).
Proof.
  intros H Hu Hne Hlt HE. cbv zeta.
  destruct (sync_exact _ _ _ _ H Hu Hne Hlt) as (Hsum & Hbb & Hbst & _). cbv zeta in *.
  unfold booked in Hlt.
  set (A := delegated (w_env w) self) in *.
  set (bb := hs_bb (h_state h)) in *. set (bst := hs_bst (h_state h)) in *.
  assert (HT : 0 < bb + bst) by lia.
  destruct (Slash_dfloor A bb (bb + bst) D HT D_pos HE) as [L1 L2].
  rewrite <- Hbb in L1, L2.
  assert (Hx : hs_bb s' <= A) by lia.
  destruct (Slash_complement A bb bst (bb + bst) (hs_bb s') eq_refl Hx L1 L2) as [C1 C2].
  rewrite <- Hbst in C1, C2.
  clearbody A bb bst. clear H Hbb.
  repeat split; try assumption.
  - apply Slash_quot_lower; assumption.
  - apply Slash_quot_upper; [exact HT | exact L2].
  - apply N.div_le_upper_bound; [lia|]. lia.
  - assert (Q : hs_bst s' - 2 <= A * bst / (bb + bst)).
    { apply N.div_le_lower_bound; [lia|].
      assert (E : (bb + bst) * (hs_bst s' - 2) <= hs_bst s' * (bb + bst) - 2 * (bb + bst)).
      { rewrite N.mul_sub_distr_l. lia. }
      lia. }
    lia.
Qed.

(** empty-pool cases of Target 2: the whole surviving amount goes to the only non-empty pool *)
Theorem sync_empty_bsei_pool w self h s' :
  query_actual_state w self h = Some s' ->
  hp_underlying (h_params h) = usei ->
  all_delegations (w_env w) self <> [] ->
  delegated (w_env w) self < booked h ->
  hs_bb (h_state h) = 0 ->
  hs_bb s' = 0 /\ hs_bst s' = delegated (w_env w) self.
Proof.
  intros H Hu Hne Hlt Hz.
  destruct (sync_exact _ _ _ _ H Hu Hne Hlt) as (Hsum & Hbb & Hbst & _). cbv zeta in *.
  rewrite Hz in Hbb. rewrite N.mul_0_l in Hbb.
  rewrite N.div_0_l in Hbb by (unfold booked in Hlt; lia).
  rewrite N.mul_0_r in Hbb. rewrite N.div_0_l in Hbb by exact D_nz. lia.
Qed.

Theorem sync_empty_stsei_pool w self h s' :
  query_actual_state w self h = Some s' ->
  hp_underlying (h_params h) = usei ->
  all_delegations (w_env w) self <> [] ->
  delegated (w_env w) self < booked h ->
  hs_bst (h_state h) = 0 ->
  hs_bb s' = delegated (w_env w) self /\ hs_bst s' = 0.
Proof.
  intros H Hu Hne Hlt Hz.
  destruct (sync_exact _ _ _ _ H Hu Hne Hlt) as (Hsum & Hbb & Hbst & _). cbv zeta in *.
  unfold booked in Hlt. rewrite Hz in Hbb, Hlt. rewrite N.add_0_r in Hbb, Hlt.
  assert (R : hs_bb (h_state h) * D / hs_bb (h_state h) = D).
  { rewrite N.mul_comm. apply N.div_mul. lia. }
  rewrite R in Hbb. rewrite N.div_mul in Hbb by exact D_nz. lia.
Qed.

(** Target 3: when the delegated amount is not below the books, both pools are unchanged *)
Theorem sync_noop w self h s' :
  query_actual_state w self h = Some s' ->
  hp_underlying (h_params h) = usei ->
  booked h <= delegated (w_env w) self ->
  hs_bb s' = hs_bb (h_state h) /\ hs_bst s' = hs_bst (h_state h) /\
  hs_lim s' = hs_lim (h_state h) /\ hs_phb s' = hs_phb (h_state h) /\
  hs_lut s' = hs_lut (h_state h) /\ hs_lpb s' = hs_lpb (h_state h).
Proof.
  intros H Hu Hge.
  destruct (all_delegations (w_env w) self) as [|d0 dl] eqn:Hd.
  - rewrite Slash_query_nodel in H by exact Hd. inversion H. repeat split.
  - assert (Hne : all_delegations (w_env w) self <> []) by (rewrite Hd; discriminate).
    destruct (Slash_query_inv _ _ _ _ H Hne) as (A & T & HA & HT & HF & Hc).
    apply actual_bonded_inv in HA; [|exact Hu]. subst A. unfold booked in Hge. cbv zeta in *.
    destruct Hc as [[_ ->] | (HTnz & bi & si & s1 & ber & ser & _ & _ & Hs1 & _ & _ & ->)];
      [repeat split|].
    destruct Hs1 as [(Hlt & _) | (_ & ->)]; [lia|].
    cbn [set_rates hs_bb hs_bst hs_lim hs_phb hs_lut hs_lpb]. repeat split.
Qed.

(** no delegation entries at all, or empty books: the stored state is returned as it is *)
Theorem sync_no_delegations w self h :
  all_delegations (w_env w) self = [] -> query_actual_state w self h = Some (h_state h).
Proof. exact (Slash_query_nodel w self h). Qed.

Theorem sync_zero_books w self h s' :
  query_actual_state w self h = Some s' -> booked h = 0 -> s' = h_state h.
Proof.
  intros H Hz.
  destruct (all_delegations (w_env w) self) as [|d0 dl] eqn:Hd.
  - rewrite Slash_query_nodel in H by exact Hd. inversion H. reflexivity.
  - assert (Hne : all_delegations (w_env w) self <> []) by (rewrite Hd; discriminate).
    destruct (Slash_query_inv _ _ _ _ H Hne) as (A & T & HA & HT & HF & Hc). cbv zeta in *.
    unfold booked in Hz.
    destruct Hc as [[_ ->] | (HTnz & _)]; [reflexivity | lia].
Qed.

(** *** "a check can never raise a pool" *)

Lemma Slash_dfloor_upper A b T d :
  0 < T -> 0 < d -> A * (b * d / T) / d * T <= A * b.
Proof.
  intros HT Hd.
  destruct (Slash_div_spec (b * d) T HT) as [R1 _].
  set (r := b * d / T) in *.
  destruct (Slash_div_spec (A * r) d Hd) as [X1 _].
  set (x := A * r / d) in *. clearbody x r.
  assert (P1 : T * (d * x) <= T * (A * r)) by (apply N.mul_le_mono_l; exact X1).
  assert (P2 : A * (T * r) <= A * (b * d)) by (apply N.mul_le_mono_l; exact R1).
  apply (N.mul_le_mono_pos_r _ _ d Hd). lia.
Qed.

(** the stSei pool does not rise when it is not dust relative to the total: A*T <= bst*d *)
Lemma Slash_no_rise A bb bst d :
  0 < d -> A < bb + bst -> A * (bb + bst) <= bst * d ->
  A - A * (bb * d / (bb + bst)) / d <= bst.
Proof.
  intros Hd HA Hbig.
  destruct (N.le_gt_cases A bst) as [Hle | Hgt].
  { apply N.le_trans with A; [apply N.le_sub_l | exact Hle]. }
  assert (HT : 0 < bb + bst) by lia.
  destruct (Slash_div_spec (bb * d) (bb + bst) HT) as [_ R2].
  set (r := bb * d / (bb + bst)) in *. clearbody r.
  assert (K : A - bst <= A * r / d).
  { apply N.div_le_lower_bound; [lia|].
    apply (N.mul_le_mono_pos_r _ _ (bb + bst) HT).
    assert (P1 : A * (bb * d) <= A * ((bb + bst) * (r + 1))) by (apply N.mul_le_mono_l; lia).
    assert (P2 : (A - bst + 1) * (d * bst) <= bb * (d * bst)) by (apply N.mul_le_mono_r; lia).
    assert (P3 : (A - bst) * (d * (bb + bst)) + bst * (d * (bb + bst)) = A * (d * (bb + bst))).
    { rewrite <- N.mul_add_distr_r. f_equal. lia. }
    lia. }
  lia.
Qed.

(** the books never rise as a whole; the bSei pool never rises; under E1 the stSei pool rises by
    at most one base unit, and not at all unless it is dust (bst * 10^18 < A * T) *)
Theorem sync_never_raises w self h s' :
  query_actual_state w self h = Some s' ->
  hp_underlying (h_params h) = usei ->
  hs_bb s' + hs_bst s' <= booked h /\
  hs_bb s' <= hs_bb (h_state h) /\
  (delegated (w_env w) self <= LIM -> hs_bst s' <= hs_bst (h_state h) + 1) /\
  (delegated (w_env w) self * booked h <= hs_bst (h_state h) * D -> hs_bst s' <= hs_bst (h_state h)).
Proof.
  intros H Hu.
  destruct (N.le_gt_cases (booked h) (delegated (w_env w) self)) as [Hge | Hlt].
  { destruct (sync_noop _ _ _ _ H Hu Hge) as (-> & -> & _). unfold booked. repeat split; lia. }
  destruct (all_delegations (w_env w) self) as [|d0 dl] eqn:Hd.
  { rewrite Slash_query_nodel in H by exact Hd. inversion H. unfold booked. repeat split; lia. }
  assert (Hne : all_delegations (w_env w) self <> []) by (rewrite Hd; discriminate).
  destruct (sync_exact _ _ _ _ H Hu Hne Hlt) as (Hsum & Hbb & Hbst & _). cbv zeta in *.
  unfold booked in *.
  set (A := delegated (w_env w) self) in *.
  set (bb := hs_bb (h_state h)) in *. set (bst := hs_bst (h_state h)) in *.
  assert (HT : 0 < bb + bst) by lia.
  pose proof (Slash_dfloor_upper A bb (bb + bst) D HT D_pos) as U1. rewrite <- Hbb in U1.
  clearbody A bb bst. clear H Hd Hne.
  assert (Bb : hs_bb s' <= bb).
  { destruct (N.eq_dec bb 0) as [->|Hnz]; [nia|].
    assert (P : A * bb < (bb + bst) * bb) by (apply N.mul_lt_mono_pos_r; lia).
    apply N.lt_succ_r. rewrite <- N.add_1_r.
    apply (N.mul_lt_mono_pos_r (bb + bst)); [exact HT|]. lia. }
  split; [lia|]. split; [exact Bb|]. split.
  - intros HE.
    destruct (Slash_dfloor A bb (bb + bst) D HT D_pos HE) as [L1 L2]. rewrite <- Hbb in L1, L2.
    assert (Hx : hs_bb s' <= A) by lia.
    destruct (Slash_complement A bb bst (bb + bst) (hs_bb s') eq_refl Hx L1 L2) as [_ C2].
    rewrite <- Hbst in C2.
    assert (P : A * bst <= (bb + bst) * bst) by (apply N.mul_le_mono_r; lia).
    apply N.lt_succ_r. rewrite <- N.add_1_r.
    apply (N.mul_lt_mono_pos_r (bb + bst)); [exact HT|]. lia.
  - intros Hbig. rewrite Hbst, Hbb. apply Slash_no_rise; [exact D_pos | exact Hlt | exact Hbig].
Qed.

(** ** 4. the check is idempotent, and every pricing handler starts with it *)

Lemma Slash_query_idem w self h s' :
  query_actual_state w self h = Some s' ->
  query_actual_state w self (set_h_state h s') = Some s'.
Proof.
  intros H.
  destruct (all_delegations (w_env w) self) as [|d0 dl] eqn:Hd.
  { apply Slash_query_nodel. exact Hd. }
  assert (Hne : all_delegations (w_env w) self <> []) by (rewrite Hd; discriminate).
  destruct (Slash_query_inv _ _ _ _ H Hne) as (A & T & HA & HT & HF & Hc). cbv zeta in *.
  assert (EA : actual_bonded w self (set_h_state h s') = Some A) by exact HA.
  unfold query_actual_state. cbv zeta. rewrite Hd, EA. cbn [bind h_state set_h_state h_batch].
  destruct Hc as [[HT0 ->] | (HTnz & bi & si & s1 & ber & ser & Hbi & Hsi & Hs1 & Hber & Hser & ->)].
  - unfold add128, narrow128. rewrite <- HT, HF. cbn [bind]. rewrite HT0. reflexivity.
  - assert (Ebi : hub_bsei_supply w (set_h_state h (set_rates s1 ber ser)) = Some bi) by exact Hbi.
    assert (Esi : hub_stsei_supply w (set_h_state h (set_rates s1 ber ser)) = Some si) by exact Hsi.
    destruct Hs1 as [(Hlt & Hle & ->) | (Hge & ->)].
    + cbn [set_rates set_bonded hs_bb hs_bst] in *.
      set (x := Slash_bb A (hs_bb (h_state h)) (hs_bst (h_state h))) in *.
      assert (Ex : x + (A - x) = A) by lia.
      assert (FA : fits128 A = true) by (unfold fits128 in *; lia).
      unfold add128 at 1, narrow128. rewrite Ex, FA. cbn [bind].
      destruct (A =? 0) eqn:EA0; [reflexivity|].
      rewrite Ebi, Esi. cbn [bind]. rewrite N.ltb_irrefl. cbn [bind].
      change (hs_bb (set_rates (set_bonded (h_state h) x (A - x)) ber ser)) with x.
      change (hs_bst (set_rates (set_bonded (h_state h) x (A - x)) ber ser)) with (A - x).
      rewrite Hber. cbn [bind]. rewrite Hser. reflexivity.
    + cbn [set_rates hs_bb hs_bst] in *.
      unfold add128 at 1, narrow128. rewrite <- HT, HF. cbn [bind].
      assert (E0 : (T =? 0) = false) by lia. rewrite E0.
      rewrite Ebi, Esi. cbn [bind].
      assert (E1 : (A <? T) = false) by lia. rewrite E1. cbn [bind].
      change (hs_bb (set_rates (h_state h) ber ser)) with (hs_bb (h_state h)).
      change (hs_bst (set_rates (h_state h) ber ser)) with (hs_bst (h_state h)).
      rewrite Hber. cbn [bind]. rewrite Hser. reflexivity.
Qed.

Theorem slashing_idempotent w self h h1 :
  slashing w self h = Some h1 -> slashing w self h1 = Some h1.
Proof.
  unfold slashing. intros H. bind_inv H as s' Hs. inversion H; subst h1. clear H.
  rewrite (Slash_query_idem _ _ _ _ Hs). reflexivity.
Qed.

(** generic shape of the linking statement: [f] fails when the check fails, and on a hub whose
    check succeeds it computes what it computes on the synchronised hub *)
Lemma Slash_link {R} (f : hub -> result R) w self :
  (forall h r, f h = Some r -> exists h1, slashing w self h = Some h1) ->
  (forall h h1, slashing w self h = Some h1 -> f h = f h1) ->
  forall h,
    (forall r, f h = Some r -> exists h1, slashing w self h = Some h1 /\ f h1 = Some r) /\
    (forall h', slashing w self h = slashing w self h' -> f h = f h').
Proof.
  intros Hn Hb h. split.
  - intros r Hr. destruct (Hn _ _ Hr) as [h1 H1]. exists h1. split; [exact H1|].
    rewrite <- (Hb _ _ H1). exact Hr.
  - intros h' E. destruct (slashing w self h) as [h1|] eqn:E1.
    + rewrite (Hb _ _ E1), (Hb h' h1 (eq_sym E)). reflexivity.
    + destruct (f h) as [r|] eqn:F.
      { destruct (Hn _ _ F) as [x Hx]. congruence. }
      destruct (f h') as [r'|] eqn:F'; [|reflexivity].
      destruct (Hn _ _ F') as [x Hx]. congruence.
Qed.

Lemma Slash_bond_sync w self sender funds k h r :
  execute_bond w h self sender funds k = Some r -> exists h1, slashing w self h = Some h1.
Proof.
  unfold execute_bond. intros H.
  bind_inv H as dispaddr Hd. check_inv H as Hauth. check_inv H as Hlen.
  bind_inv H as pay Hpay. bind_inv H as h1 Hh1. exists h1. reflexivity.
Qed.

Lemma Slash_bond_on_synced w self sender funds k h h1 :
  slashing w self h = Some h1 ->
  execute_bond w h self sender funds k = execute_bond w h1 self sender funds k.
Proof.
  intros Hs. pose proof (slashing_idempotent _ _ _ _ Hs) as Hi.
  destruct (slashing_frame _ _ _ _ Hs) as (F1 & F2 & F3 & _).
  unfold execute_bond. rewrite F1, F2, F3, Hi, Hs. reflexivity.
Qed.

Lemma Slash_unbond_sync w self amount user h r :
  execute_unbond w h self amount user = Some r -> exists h1, slashing w self h = Some h1.
Proof. unfold execute_unbond. intros H. bind_inv H as h1 Hh1. exists h1. reflexivity. Qed.

Lemma Slash_unbond_on_synced w self amount user h h1 :
  slashing w self h = Some h1 ->
  execute_unbond w h self amount user = execute_unbond w h1 self amount user.
Proof.
  intros Hs. pose proof (slashing_idempotent _ _ _ _ Hs) as Hi.
  destruct (slashing_frame _ _ _ _ Hs) as (F1 & F2 & F3 & _).
  unfold execute_unbond. rewrite F2, Hi, Hs. reflexivity.
Qed.

Lemma Slash_unbond_st_sync w self amount user h r :
  execute_unbond_stsei w h self amount user = Some r -> exists h1, slashing w self h = Some h1.
Proof. unfold execute_unbond_stsei. intros H. bind_inv H as h1 Hh1. exists h1. reflexivity. Qed.

Lemma Slash_unbond_st_on_synced w self amount user h h1 :
  slashing w self h = Some h1 ->
  execute_unbond_stsei w h self amount user = execute_unbond_stsei w h1 self amount user.
Proof.
  intros Hs. pose proof (slashing_idempotent _ _ _ _ Hs) as Hi.
  unfold execute_unbond_stsei. rewrite Hi, Hs. reflexivity.
Qed.

Lemma Slash_conv_sb_sync w self amount user h r :
  convert_stsei_bsei w h self amount user = Some r -> exists h1, slashing w self h = Some h1.
Proof. unfold convert_stsei_bsei. intros H. bind_inv H as h1 Hh1. exists h1. reflexivity. Qed.

Lemma Slash_conv_sb_on_synced w self amount user h h1 :
  slashing w self h = Some h1 ->
  convert_stsei_bsei w h self amount user = convert_stsei_bsei w h1 self amount user.
Proof.
  intros Hs. pose proof (slashing_idempotent _ _ _ _ Hs) as Hi.
  unfold convert_stsei_bsei. rewrite Hi, Hs. reflexivity.
Qed.

Lemma Slash_conv_bs_sync w self amount user h r :
  convert_bsei_stsei w h self amount user = Some r -> exists h1, slashing w self h = Some h1.
Proof. unfold convert_bsei_stsei. intros H. bind_inv H as h1 Hh1. exists h1. reflexivity. Qed.

Lemma Slash_conv_bs_on_synced w self amount user h h1 :
  slashing w self h = Some h1 ->
  convert_bsei_stsei w h self amount user = convert_bsei_stsei w h1 self amount user.
Proof.
  intros Hs. pose proof (slashing_idempotent _ _ _ _ Hs) as Hi.
  unfold convert_bsei_stsei. rewrite Hi, Hs. reflexivity.
Qed.

(** Target 4.  For each pricing handler [f]:
    (i) if [f] succeeds on [h] then the check succeeded, producing [h1], and [f] returns on [h] exactly
        what it returns on the already synchronised hub [h1] (where the inner check is a no-op by
        [slashing_idempotent]);
    (ii) [f] factors through the check: two hubs with the same check result give the same result. *)
Theorem sync_in_bond w self sender funds k h :
  (forall r, execute_bond w h self sender funds k = Some r ->
     exists h1, slashing w self h = Some h1 /\ execute_bond w h1 self sender funds k = Some r) /\
  (forall h', slashing w self h = slashing w self h' ->
     execute_bond w h self sender funds k = execute_bond w h' self sender funds k).
Proof.
  apply (Slash_link (fun h => execute_bond w h self sender funds k)).
  - intros h0 r. apply Slash_bond_sync.
  - intros h0 h1. apply Slash_bond_on_synced.
Qed.

Theorem sync_in_unbond w self amount user h :
  (forall r, execute_unbond w h self amount user = Some r ->
     exists h1, slashing w self h = Some h1 /\ execute_unbond w h1 self amount user = Some r) /\
  (forall h', slashing w self h = slashing w self h' ->
     execute_unbond w h self amount user = execute_unbond w h' self amount user).
Proof.
  apply (Slash_link (fun h => execute_unbond w h self amount user)).
  - intros h0 r. apply Slash_unbond_sync.
  - intros h0 h1. apply Slash_unbond_on_synced.
Qed.

Theorem sync_in_unbond_stsei w self amount user h :
  (forall r, execute_unbond_stsei w h self amount user = Some r ->
     exists h1, slashing w self h = Some h1 /\ execute_unbond_stsei w h1 self amount user = Some r) /\
  (forall h', slashing w self h = slashing w self h' ->
     execute_unbond_stsei w h self amount user = execute_unbond_stsei w h' self amount user).
Proof.
  apply (Slash_link (fun h => execute_unbond_stsei w h self amount user)).
  - intros h0 r. apply Slash_unbond_st_sync.
  - intros h0 h1. apply Slash_unbond_st_on_synced.
Qed.

Theorem sync_in_convert_stsei_bsei w self amount user h :
  (forall r, convert_stsei_bsei w h self amount user = Some r ->
     exists h1, slashing w self h = Some h1 /\ convert_stsei_bsei w h1 self amount user = Some r) /\
  (forall h', slashing w self h = slashing w self h' ->
     convert_stsei_bsei w h self amount user = convert_stsei_bsei w h' self amount user).
Proof.
  apply (Slash_link (fun h => convert_stsei_bsei w h self amount user)).
  - intros h0 r. apply Slash_conv_sb_sync.
  - intros h0 h1. apply Slash_conv_sb_on_synced.
Qed.

Theorem sync_in_convert_bsei_stsei w self amount user h :
  (forall r, convert_bsei_stsei w h self amount user = Some r ->
     exists h1, slashing w self h = Some h1 /\ convert_bsei_stsei w h1 self amount user = Some r) /\
  (forall h', slashing w self h = slashing w self h' ->
     convert_bsei_stsei w h self amount user = convert_bsei_stsei w h' self amount user).
Proof.
  apply (Slash_link (fun h => convert_bsei_stsei w h self amount user)).
  - intros h0 r. apply Slash_conv_bs_sync.
  - intros h0 h1. apply Slash_conv_bs_on_synced.
Qed.

(** the explicit CheckSlashing message: exactly the synchronised hub, no messages *)
Theorem check_slashing_result w h self sender funds h' out :
  hub_execute w h self sender funds HCheckSlashing = Some (h', out) ->
  slashing w self h = Some h' /\ out = [] /\ paused h = false.
Proof.
  cbn [hub_execute]. intros H. destruct (paused h); [discriminate|]. cbn [negb] in H.
  bind_inv H as h1 Hh1. inversion H; subst. repeat split.
Qed.

Theorem check_slashing_succeeds w h self sender funds h1 :
  paused h = false -> slashing w self h = Some h1 ->
  hub_execute w h self sender funds HCheckSlashing = Some (h1, []).
Proof. intros Hp Hs. cbn [hub_execute]. rewrite Hp, Hs. reflexivity. Qed.

(** all hub messages that price tokens, and the explicit check *)
Definition pricing_msg (m : hub_msg) : bool :=
  match m with
  | HBond | HBondSt | HBondRewards | HCheckSlashing => true
  | HReceive _ _ HkUnbond | HReceive _ _ HkConvert => true
  | _ => false
  end.

Lemma Slash_msg_on_synced w self sender funds m h h1 :
  pricing_msg m = true -> slashing w self h = Some h1 ->
  hub_execute w h self sender funds m = hub_execute w h1 self sender funds m.
Proof.
  intros Hp Hs. pose proof (slashing_idempotent _ _ _ _ Hs) as Hi.
  destruct (slashing_frame _ _ _ _ Hs) as (F1 & F2 & F3 & _).
  assert (P : paused h1 = paused h) by (unfold paused; rewrite F2; reflexivity).
  destruct m; try discriminate Hp; cbn [hub_execute]; rewrite P.
  - rewrite (Slash_bond_on_synced _ _ _ _ _ _ _ Hs). reflexivity.
  - rewrite (Slash_bond_on_synced _ _ _ _ _ _ _ Hs). reflexivity.
  - rewrite (Slash_bond_on_synced _ _ _ _ _ _ _ Hs). reflexivity.
  - rewrite Hs, Hi. reflexivity.
  - unfold receive_cw20. rewrite F1.
    rewrite <- (Slash_unbond_on_synced _ _ _ _ _ _ Hs), <- (Slash_unbond_st_on_synced _ _ _ _ _ _ Hs),
            <- (Slash_conv_sb_on_synced _ _ _ _ _ _ Hs), <- (Slash_conv_bs_on_synced _ _ _ _ _ _ Hs).
    reflexivity.
Qed.

Lemma Slash_msg_sync w self sender funds m h r :
  pricing_msg m = true -> hub_execute w h self sender funds m = Some r ->
  exists h1, slashing w self h = Some h1.
Proof.
  intros Hp H.
  destruct m as [ | | | n | | | e1 e2 e3 e4 e5 e6 | c1 c2 c3 c4 c5 c6 c7 | a | | src l | tok swapc
                | tok airdropc swapc | limit | user amt hk ];
    try discriminate Hp; cbn [hub_execute] in H;
    (destruct (paused h); [discriminate H|]); cbn [negb] in H.
  - eapply Slash_bond_sync; exact H.
  - eapply Slash_bond_sync; exact H.
  - eapply Slash_bond_sync; exact H.
  - bind_inv H as h1 Hh1. exists h1. reflexivity.
  - unfold receive_cw20 in H. bind_inv H as b Hb. bind_inv H as st Hst.
    destruct hk; try discriminate Hp.
    + destruct (sender =? b); [eapply Slash_unbond_sync; exact H|].
      destruct (sender =? st); [eapply Slash_unbond_st_sync; exact H | discriminate].
    + destruct (sender =? b); [eapply Slash_conv_bs_sync; exact H|].
      destruct (sender =? st); [eapply Slash_conv_sb_sync; exact H | discriminate].
Qed.

(** Target 4 at the level of the hub's entry point *)
Theorem sync_in_every_pricing_msg w self sender funds m h :
  pricing_msg m = true ->
  (forall r, hub_execute w h self sender funds m = Some r ->
     exists h1, slashing w self h = Some h1 /\ hub_execute w h1 self sender funds m = Some r) /\
  (forall h', slashing w self h = slashing w self h' ->
     hub_execute w h self sender funds m = hub_execute w h' self sender funds m).
Proof.
  intros Hp. apply (Slash_link (fun h => hub_execute w h self sender funds m)).
  - intros h0 r. apply Slash_msg_sync. exact Hp.
  - intros h0 h1. apply Slash_msg_on_synced. exact Hp.
Qed.

(** ** 5. release groups: the per-batch share of a loss ([calculate_new_withdraw_rate]) *)

Lemma Slash_mulU256_val a r x : mulU256 a r = Some x -> x = a * r / D.
Proof.
  unfold mulU256, mul256, narrow256. destruct ((a =? 0) || (r =? 0)) eqn:E.
  - intros H. inversion H; subst.
    assert (Z : a * r = 0) by (apply orb_true_iff in E; destruct E as [E|E]; apply N.eqb_eq in E; subst; lia).
    rewrite Z. symmetry. apply N.div_0_l. exact D_nz.
  - destruct (fits256 (a * r)); cbn [bind]; intros H; inversion H; reflexivity.
Qed.

Lemma Slash_ratio256_val a b x : ratio256 a b = Some x -> b <> 0 /\ x = a * D / b.
Proof.
  unfold ratio256, mul256, narrow256. destruct (b =? 0) eqn:E; [discriminate|].
  destruct (fits256 (a * D)); cbn [bind]; intros H; inversion H. split; [lia | reflexivity].
Qed.

Lemma Slash_add256_val a b c : add256 a b = Some c -> c = a + b.
Proof. unfold add256, narrow256. destruct (fits256 (a + b)); intros H; inversion H; reflexivity. Qed.

Lemma Slash_sub256_val a b c : sub256 a b = Some c -> b <= a /\ c = a - b.
Proof. unfold sub256. destruct (b <=? a) eqn:E; intros H; inversion H. split; [lia | reflexivity]. Qed.

Lemma Slash_signed_sub_val a b d :
  signed_sub a b = Some d ->
  (b <= a /\ d = (a - b, false)) \/ (a < b /\ d = (b - a, true)).
Proof.
  unfold signed_sub. destruct (fits128 a); [|discriminate]. destruct (fits128 b); [|discriminate].
  destruct (b <=? a) eqn:E; intros H; inversion H; [left | right]; split; (lia || reflexivity).
Qed.

Lemma Slash_narrow128_val a x : narrow128 a = Some x -> x = a.
Proof. unfold narrow128. destruct (fits128 a); intros H; inversion H; reflexivity. Qed.

(** coins a batch of [amount] tokens expects at withdraw rate [wrate] *)
Definition batch_expected (amount wrate : N) : N := amount * wrate / D.

(** what a batch expecting [u] of the group's [U] coins is charged for a loss [L]:
    floor(floor(u*D/U) * L / D), plus one unit whenever there is a loss, capped at [u] *)
Definition batch_charge (u U L : N) : N :=
  N.min u (L * (u * D / U) / D + (if L =? 0 then 0 else 1)).

(** Target 5, closed form in the loss branch (neg = false) *)
Theorem group_charge_exact amount wrate U L r :
  new_withdraw_rate amount wrate U L false = Some r ->
  amount <> 0 -> U <> 0 ->
  let u := batch_expected amount wrate in
  r = (u - batch_charge u U L) * D / amount.
Proof.
  unfold new_withdraw_rate. intros H Ham HU. cbv zeta.
  bind_inv H as unb Hunb. apply Slash_mulU256_val in Hunb.
  assert (EU : (U =? 0) = false) by lia. rewrite EU in H.
  bind_inv H as wgt Hw. apply Slash_ratio256_val in Hw. destruct Hw as [_ Hw].
  bind_inv H as sb Hsb. apply Slash_mulU256_val in Hsb.
  bind_inv H as actual Hact.
  assert (EA : (amount =? 0) = false) by lia. rewrite EA in H.
  bind_inv H as a128 Ha. apply Slash_narrow128_val in Ha.
  apply Slash_ratio_val in H. destruct H as [_ ->].
  bind_inv Hact as sb' Hsb'. bind_inv Hact as dd Hd. inversion Hact; subst actual. clear Hact.
  unfold batch_expected, batch_charge. rewrite <- Hunb, <- Hw, <- Hsb.
  assert (Es : sb' = sb + (if L =? 0 then 0 else 1)).
  { destruct (L =? 0); [inversion Hsb'; lia | apply Slash_add256_val in Hsb'; exact Hsb']. }
  rewrite <- Es. subst a128.
  apply Slash_signed_sub_val in Hd.
  destruct Hd as [(Hle & ->) | (Hlt & ->)]; cbn [fst snd]; f_equal; f_equal; lia.
Qed.

(** closed form in the surplus branch (neg = true): the batch is credited its weighted part of the
    surplus minus one unit (truncated subtraction: nothing when that part is 0 or 1) *)
Theorem group_surplus_exact amount wrate U L r :
  new_withdraw_rate amount wrate U L true = Some r ->
  amount <> 0 -> U <> 0 ->
  let u := batch_expected amount wrate in
  r = (u + (L * (u * D / U) / D - 1)) * D / amount.
Proof.
  unfold new_withdraw_rate. intros H Ham HU. cbv zeta.
  bind_inv H as unb Hunb. apply Slash_mulU256_val in Hunb.
  assert (EU : (U =? 0) = false) by lia. rewrite EU in H.
  bind_inv H as wgt Hw. apply Slash_ratio256_val in Hw. destruct Hw as [_ Hw].
  bind_inv H as sb Hsb. apply Slash_mulU256_val in Hsb.
  bind_inv H as actual Hact. apply Slash_add256_val in Hact.
  assert (EA : (amount =? 0) = false) by lia. rewrite EA in H.
  bind_inv H as a128 Ha. apply Slash_narrow128_val in Ha.
  apply Slash_ratio_val in H. destruct H as [_ ->].
  unfold batch_expected. rewrite <- Hunb, <- Hw, <- Hsb. subst a128 actual.
  f_equal. f_equal. destruct (1 <? sb) eqn:E; lia.
Qed.

(** a batch without tokens of the type keeps its rate *)
Theorem group_empty_batch wrate U L neg r :
  new_withdraw_rate 0 wrate U L neg = Some r -> r = wrate.
Proof.
  unfold new_withdraw_rate. intros H.
  bind_inv H as unb Hunb. bind_inv H as wgt Hw. bind_inv H as sb Hsb. bind_inv H as actual Hact.
  cbn in H. inversion H. reflexivity.
Qed.

(** pro rata: the charge is within one unit of the exact share u*L/U (real-valued:
    u*L/U - 1 < s <= u*L/U + 1), never more than the batch expected, and zero when L = 0 *)
Theorem group_charge_prorata u U L :
  0 < U -> L <= U -> L <= LIM ->
  let s := batch_charge u U L in
  s <= u /\ s * U <= u * L + U /\ u * L < (s + 1) * U /\ (L = 0 -> s = 0).
Proof.
  intros HU HLU HE. cbv zeta. unfold batch_charge.
  destruct (Slash_dfloor L u U D HU D_pos HE) as [Q1 Q2].
  set (q := L * (u * D / U) / D) in *. clearbody q.
  destruct (L =? 0) eqn:EL.
  - assert (L = 0) by lia. subst L.
    assert (q = 0) by nia. subst q.
    rewrite N.add_0_r, N.min_0_r. repeat split; lia.
  - assert (P : u * L <= u * U) by (apply N.mul_le_mono_l; exact HLU).
    destruct (N.min_spec u (q + 1)) as [[Hc ->] | [Hc ->]].
    + assert (P2 : u * U <= q * U) by (apply N.mul_le_mono_r; lia).
      repeat split; lia.
    + repeat split; lia.
Qed.

(** re-flooring: a batch credited [c] coins gets rate floor(c*D/amount); all its [amount] tokens
    together are then worth floor(amount*rate/D) coins, which is c or (for amount <= 10^18) c - 1;
    nothing is ever created by the rounding *)
Theorem group_refloor c amount :
  amount <> 0 ->
  let r := c * D / amount in
  amount * r / D <= c /\ (amount <= LIM -> c <= amount * r / D + 1).
Proof.
  intros Ham. cbv zeta.
  assert (Hp : 0 < amount) by lia.
  destruct (Slash_div_spec (c * D) amount Hp) as [R1 R2].
  set (r := c * D / amount) in *. clearbody r.
  split.
  - apply N.div_le_upper_bound; [exact D_nz|]. lia.
  - intros HE. unfold LIM in HE.
    assert (K : c - 1 <= amount * r / D).
    { apply N.div_le_lower_bound; [exact D_nz|].
      assert (E : D * (c - 1) <= c * D - D) by (rewrite N.mul_sub_distr_l; lia).
      lia. }
    lia.
Qed.

(** with no loss (L = 0) the rate is only re-floored: it never rises, and it falls by less than
    1 + D/amount rate units *)
Theorem group_no_loss_rate amount wrate U r :
  new_withdraw_rate amount wrate U 0 false = Some r ->
  amount <> 0 -> U <> 0 ->
  r = batch_expected amount wrate * D / amount /\
  r <= wrate /\ amount * wrate < (r + 1) * amount + D.
Proof.
  intros H Ham HU.
  pose proof (group_charge_exact _ _ _ _ _ H Ham HU) as E. cbv zeta in E.
  assert (Z : batch_charge (batch_expected amount wrate) U 0 = 0).
  { unfold batch_charge. rewrite N.eqb_refl, N.mul_0_l.
    rewrite N.div_0_l by exact D_nz. rewrite N.add_0_r. apply N.min_0_r. }
  rewrite Z, N.sub_0_r in E. split; [exact E|].
  unfold batch_expected in *.
  destruct (Slash_div_spec (amount * wrate) D D_pos) as [X1 X2].
  set (u := amount * wrate / D) in *. clearbody u.
  assert (Hp : 0 < amount) by lia.
  destruct (Slash_div_spec (u * D) amount Hp) as [R1 R2]. rewrite <- E in R1, R2.
  split.
  - apply N.lt_succ_r. rewrite <- N.add_1_r.
    apply (N.mul_lt_mono_pos_l amount); [exact Hp|]. lia.
  - lia.
Qed.

Theorem group_charge_zero_total amount wrate L r :
  new_withdraw_rate amount wrate 0 L false = Some r ->
  amount <> 0 ->
  let u := batch_expected amount wrate in
  r = (u - N.min u (if L =? 0 then 0 else 1)) * D / amount.
Proof.
  unfold new_withdraw_rate. intros H Ham. cbv zeta.
  bind_inv H as unb Hunb. apply Slash_mulU256_val in Hunb.
  rewrite N.eqb_refl in H. cbn [bind] in H.
  bind_inv H as sb Hsb. apply Slash_mulU256_val in Hsb.
  rewrite N.mul_0_r in Hsb. rewrite N.div_0_l in Hsb by exact D_nz. subst sb.
  bind_inv H as actual Hact.
  assert (EA : (amount =? 0) = false) by lia. rewrite EA in H.
  bind_inv H as a128 Ha. apply Slash_narrow128_val in Ha.
  apply Slash_ratio_val in H. destruct H as [_ ->].
  bind_inv Hact as sb' Hsb'. bind_inv Hact as dd Hd. inversion Hact; subst actual. clear Hact.
  unfold batch_expected. rewrite <- Hunb.
  assert (Es : sb' = if L =? 0 then 0 else 1).
  { destruct (L =? 0); [inversion Hsb'; lia | apply Slash_add256_val in Hsb'; lia]. }
  rewrite <- Es. subst a128.
  apply Slash_signed_sub_val in Hd.
  destruct Hd as [(Hle & ->) | (Hlt & ->)]; cbn [fst snd]; f_equal; f_equal; lia.
Qed.

(** ** 6. the split of the arriving coins between the two token types *)

(** the bSei part of [A] arriving coins when the group expects [st] (stSei) and [bt] (bSei) coins *)
Definition split_b (A st bt : N) : N :=
  A * (if 0 <? st + bt then D - st * D / (st + bt) else 0) / D.

Lemma Slash_split_le A st bt : split_b A st bt <= A.
Proof.
  unfold split_b. apply N.div_le_upper_bound; [exact D_nz|].
  rewrite (N.mul_comm D A). apply N.mul_le_mono_l.
  destruct (0 <? st + bt); [apply N.le_sub_l | apply N.le_0_l].
Qed.

(** exact split (nothing lost, nothing created) and each side within one unit of pro rata:
    A*bt/(st+bt) - 1 < b_actual < A*bt/(st+bt) + 1  and the same for st_actual = A - b_actual *)
Theorem group_split_prorata A st bt :
  0 < st + bt -> A <= LIM ->
  let ba := split_b A st bt in
  let sa := A - ba in
  ba + sa = A /\
  (A * bt < (ba + 1) * (st + bt) /\ ba * (st + bt) < A * bt + (st + bt)) /\
  (A * st < (sa + 1) * (st + bt) /\ sa * (st + bt) < A * st + (st + bt)).
Proof.
  intros HT HE. cbv zeta. pose proof (Slash_split_le A st bt) as Hle.
  unfold split_b in *. assert (E0 : (0 <? st + bt) = true) by lia. rewrite E0 in *.
  destruct (Slash_div_spec (st * D) (st + bt) HT) as [S1 S2].
  assert (Hsr : st * D / (st + bt) <= D).
  { apply N.div_le_upper_bound; [lia|]. apply N.mul_le_mono_r. lia. }
  set (sr := st * D / (st + bt)) in *. clearbody sr.
  destruct (Slash_div_spec (A * (D - sr)) D D_pos) as [X1 X2].
  set (ba := A * (D - sr) / D) in *. clearbody ba.
  pose proof D_pos as HD. unfold LIM in HE.
  assert (B1 : bt * D <= (D - sr) * (st + bt)).
  { rewrite N.mul_sub_distr_r. lia. }
  assert (B2 : (D - sr) * (st + bt) < bt * D + (st + bt)).
  { rewrite N.mul_sub_distr_r. lia. }
  set (br := D - sr) in *. clearbody br. clear S1 S2 Hsr.
  assert (P1 : A * (bt * D) <= A * (br * (st + bt))) by (apply N.mul_le_mono_l; exact B1).
  assert (P2 : A * (br * (st + bt)) <= A * (bt * D + (st + bt) - 1)) by (apply N.mul_le_mono_l; lia).
  assert (P3 : (st + bt) * (D * ba) <= (st + bt) * (A * br)) by (apply N.mul_le_mono_l; exact X1).
  assert (P4 : (st + bt) * (A * br) < (st + bt) * (D * (ba + 1))) by (apply N.mul_lt_mono_pos_l; assumption).
  assert (P5 : A * (st + bt) <= D * (st + bt)) by (apply N.mul_le_mono_r; exact HE).
  assert (L1 : A * bt < (ba + 1) * (st + bt)).
  { apply (N.mul_lt_mono_pos_r D); [exact HD|]. lia. }
  assert (L2 : ba * (st + bt) < A * bt + (st + bt)).
  { apply (N.mul_lt_mono_pos_r D); [exact HD|].
    assert (Q : A * (bt * D + (st + bt) - 1) + A = A * (bt * D + (st + bt))).
    { rewrite <- (N.mul_1_r A) at 2. rewrite <- N.mul_add_distr_l. f_equal. lia. }
    destruct (N.eq_dec A 0) as [->|HA0]; [|lia].
    assert (ba = 0) by nia. subst ba. lia. }
  assert (E : (A - ba) * (st + bt) + ba * (st + bt) = A * (st + bt)).
  { rewrite <- N.mul_add_distr_r. f_equal. lia. }
  split; [lia|]. split; [split; assumption|]. split; lia.
Qed.

(** ** 7. [process_withdraw_rate]: what every batch of the release group receives *)

Lemma Slash_get_hist_put_same m i e : get N.eqb (hist_put m i e) i = Some e.
Proof.
  induction m as [|[j e'] r IH]; cbn [hist_put get].
  - rewrite N.eqb_refl. reflexivity.
  - destruct (i =? j) eqn:E1; cbn [get].
    + rewrite N.eqb_refl. reflexivity.
    + destruct (i <? j); cbn [get]; [rewrite N.eqb_refl; reflexivity|].
      rewrite E1. exact IH.
Qed.

Lemma Slash_get_hist_put_other m i e k : k <> i -> get N.eqb (hist_put m i e) k = get N.eqb m k.
Proof.
  intros Hne. assert (Eki : (k =? i) = false) by lia.
  induction m as [|[j e'] r IH]; cbn [hist_put get].
  - rewrite Eki. reflexivity.
  - destruct (i =? j) eqn:E1; cbn [get].
    + assert (i = j) by lia. subst j. rewrite Eki. reflexivity.
    + destruct (i <? j); cbn [get]; [rewrite Eki; reflexivity|].
      destruct (k =? j); [reflexivity | exact IH].
Qed.

Lemma Slash_rg_ge hist historical fuel : forall i j e,
  In (j, e) (release_group hist i historical fuel) -> i <= j.
Proof.
  induction fuel as [|f IH]; intros i j e Hin; cbn [release_group] in Hin; [contradiction|].
  destruct (get N.eqb hist i) as [e0|]; [|contradiction].
  destruct (historical <? he_time e0); [contradiction|].
  destruct (he_released e0); [contradiction|].
  destruct Hin as [Heq | Hin]; [inversion Heq; lia|].
  apply IH in Hin. lia.
Qed.

Lemma Slash_rg_nodup hist historical fuel : forall i,
  NoDup (map fst (release_group hist i historical fuel)).
Proof.
  induction fuel as [|f IH]; intros i; cbn [release_group]; [constructor|].
  destruct (get N.eqb hist i) as [e0|]; [|constructor].
  destruct (historical <? he_time e0); [constructor|].
  destruct (he_released e0); [constructor|].
  cbn [map fst]. constructor; [|apply IH].
  intros Hin. apply in_map_iff in Hin. destruct Hin as [[j e] [Hj Hin]]. cbn [fst] in Hj. subst j.
  apply Slash_rg_ge in Hin. lia.
Qed.

Lemma Slash_rg_entry hist historical fuel : forall i j e,
  In (j, e) (release_group hist i historical fuel) ->
  get N.eqb hist j = Some e /\ he_released e = false /\ he_time e <= historical.
Proof.
  induction fuel as [|f IH]; intros i j e Hin; cbn [release_group] in Hin; [contradiction|].
  destruct (get N.eqb hist i) as [e0|] eqn:Hg; [|contradiction].
  destruct (historical <? he_time e0) eqn:Ht; [contradiction|].
  destruct (he_released e0) eqn:Hr; [contradiction|].
  destruct Hin as [Heq | Hin]; [inversion Heq; subst; repeat split; [assumption.. | lia]|].
  eapply IH; exact Hin.
Qed.

(** signed difference "expected - arrived" as (magnitude, surplus?) *)
Definition loss_of (expected arrived : N) : N * bool :=
  if arrived <=? expected then (expected - arrived, false) else (arrived - expected, true).

Lemma Slash_signed_sub_loss a b d : signed_sub a b = Some d -> d = loss_of a b.
Proof.
  intros H. apply Slash_signed_sub_val in H. unfold loss_of.
  destruct H as [(Hle & ->) | (Hlt & ->)].
  - assert (E : (b <=? a) = true) by lia. rewrite E. reflexivity.
  - assert (E : (b <=? a) = false) by lia. rewrite E. reflexivity.
Qed.

(** the per-batch update of the second loop of [process_withdraw_rate] *)
Definition Slash_upd (st sL : N) (sN : bool) (bt bL : N) (bN : bool)
           (hist : fmap N hist_entry) (ie : N * hist_entry) : result (fmap N hist_entry) :=
  let '(i, e) := ie in
  do sr <- new_withdraw_rate (he_samt e) (he_swithdraw e) st sL sN;
  do br <- new_withdraw_rate (he_bamt e) (he_bwithdraw e) bt bL bN;
  Some (hist_put hist i
          (mkHist (he_time e) (he_bamt e) (he_bapplied e) br (he_samt e) (he_sapplied e) sr true)).

Lemma Slash_fold_other st sL sN bt bL bN g : forall hist hist',
  foldM (Slash_upd st sL sN bt bL bN) g hist = Some hist' ->
  forall k, ~ In k (map fst g) -> get N.eqb hist' k = get N.eqb hist k.
Proof.
  induction g as [|[i e] g IH]; intros hist hist' H k Hk; cbn [foldM] in H.
  - inversion H. reflexivity.
  - bind_inv H as h1 Hh1. unfold Slash_upd in Hh1.
    bind_inv Hh1 as sr Hsr. bind_inv Hh1 as br Hbr. inversion Hh1; subst h1. clear Hh1.
    cbn [map fst In] in Hk.
    rewrite (IH _ _ H k) by tauto.
    apply Slash_get_hist_put_other. intros ->. tauto.
Qed.

Lemma Slash_fold_in st sL sN bt bL bN g : forall hist hist',
  foldM (Slash_upd st sL sN bt bL bN) g hist = Some hist' ->
  NoDup (map fst g) ->
  forall i e, In (i, e) g ->
  exists sr br,
    new_withdraw_rate (he_samt e) (he_swithdraw e) st sL sN = Some sr /\
    new_withdraw_rate (he_bamt e) (he_bwithdraw e) bt bL bN = Some br /\
    get N.eqb hist' i =
      Some (mkHist (he_time e) (he_bamt e) (he_bapplied e) br (he_samt e) (he_sapplied e) sr true).
Proof.
  induction g as [|[i0 e0] g IH]; intros hist hist' H Hnd i e Hin; [contradiction|].
  cbn [foldM] in H. bind_inv H as h1 Hh1.
  cbn [map fst] in Hnd. inversion Hnd as [|x l Hnotin Hnd']; subst.
  destruct Hin as [Heq | Hin].
  - inversion Heq; subst i0 e0. unfold Slash_upd in Hh1.
    bind_inv Hh1 as sr Hsr. bind_inv Hh1 as br Hbr. inversion Hh1; subst h1. clear Hh1.
    exists sr, br. split; [reflexivity|]. split; [reflexivity|].
    rewrite (Slash_fold_other _ _ _ _ _ _ _ _ _ H i Hnotin).
    apply Slash_get_hist_put_same.
  - eapply IH; eauto.
Qed.

Lemma Slash_group_totals_acc (g : list (N * hist_entry)) : forall (acc : N * N) st bt,
  foldM (fun (acc : N * N) (ie : N * hist_entry) =>
           let e := snd ie in
           do su <- mulU256 (he_samt e) (he_swithdraw e);
           do bu <- mulU256 (he_bamt e) (he_bwithdraw e);
           do st <- add256 (fst acc) su;
           do bt <- add256 (snd acc) bu;
           Some (st, bt)) g acc = Some (st, bt) ->
  st = fst acc + sumN (map (fun ie => batch_expected (he_samt (snd ie)) (he_swithdraw (snd ie))) g) /\
  bt = snd acc + sumN (map (fun ie => batch_expected (he_bamt (snd ie)) (he_bwithdraw (snd ie))) g).
Proof.
  induction g as [|ie g IH]; intros acc st bt H; cbn [foldM map sumN] in *.
  - inversion H. cbn [fst snd]. lia.
  - bind_inv H as a1 Ha1. cbv zeta in Ha1.
    bind_inv Ha1 as su Hsu. bind_inv Ha1 as bu Hbu. bind_inv Ha1 as st1 Hst1. bind_inv Ha1 as bt1 Hbt1.
    inversion Ha1; subst a1. clear Ha1.
    apply Slash_mulU256_val in Hsu, Hbu. apply Slash_add256_val in Hst1, Hbt1.
    apply IH in H. cbn [fst snd] in H. unfold batch_expected in *. lia.
Qed.

Lemma Slash_group_totals g st bt :
  group_totals g = Some (st, bt) ->
  st = sumN (map (fun ie => batch_expected (he_samt (snd ie)) (he_swithdraw (snd ie))) g) /\
  bt = sumN (map (fun ie => batch_expected (he_bamt (snd ie)) (he_bwithdraw (snd ie))) g).
Proof. unfold group_totals. intros H. apply Slash_group_totals_acc in H. cbn [fst snd] in H. lia. Qed.

(** Targets 5/6 inside the handler: every batch of the release group gets, per token type, the rate
    computed by [new_withdraw_rate] from the group totals and that type's part of the arriving coins *)
Theorem group_release_spec h historical bal h' :
  process_withdraw_rate h historical bal = Some h' ->
  let s := h_state h in
  let g := release_group (h_hist h) (hs_lpb s + 1) historical (length (h_hist h)) in
  g <> [] ->
  let st := sumN (map (fun ie => batch_expected (he_samt (snd ie)) (he_swithdraw (snd ie))) g) in
  let bt := sumN (map (fun ie => batch_expected (he_bamt (snd ie)) (he_bwithdraw (snd ie))) g) in
  hs_phb s <= bal /\
  let A := bal - hs_phb s in
  let ba := split_b A st bt in
  let sa := A - ba in
  (forall i e, In (i, e) g ->
     get N.eqb (h_hist h) i = Some e /\ he_released e = false /\
     exists sr br,
       new_withdraw_rate (he_samt e) (he_swithdraw e) st (fst (loss_of st sa)) (snd (loss_of st sa)) = Some sr /\
       new_withdraw_rate (he_bamt e) (he_bwithdraw e) bt (fst (loss_of bt ba)) (snd (loss_of bt ba)) = Some br /\
       get N.eqb (h_hist h') i =
         Some (mkHist (he_time e) (he_bamt e) (he_bapplied e) br (he_samt e) (he_sapplied e) sr true)) /\
  (forall k, ~ In k (map fst g) -> get N.eqb (h_hist h') k = get N.eqb (h_hist h) k) /\
  hs_bb (h_state h') = hs_bb s /\ hs_bst (h_state h') = hs_bst s /\ hs_phb (h_state h') = hs_phb s.
Proof.
  unfold process_withdraw_rate. cbv zeta. intros H Hg.
  set (g := release_group (h_hist h) (hs_lpb (h_state h) + 1) historical (length (h_hist h))) in *.
  destruct g as [|ie0 g0] eqn:Eg; [contradiction|]. rewrite <- Eg in *. clear Hg.
  assert (Hnd : NoDup (map fst g)) by apply Slash_rg_nodup.
  assert (Hent : forall j e, In (j, e) g ->
            get N.eqb (h_hist h) j = Some e /\ he_released e = false /\ he_time e <= historical)
    by (intros j e; apply Slash_rg_entry).
  clearbody g.
  bind_inv H as tot Htot. destruct tot as [st bt].
  apply Slash_group_totals in Htot. destruct Htot as [Est Ebt]. rewrite <- Est, <- Ebt.
  bind_inv H as change Hch. check_inv H as Hneg.
  apply Slash_signed_sub_val in Hch.
  destruct Hch as [(Hle & ->) | (Hlt & ->)]; [|discriminate Hneg]. cbn [fst snd] in H.
  bind_inv H as both Hboth. apply Slash_add256_val in Hboth. subst both.
  bind_inv H as b_ratio Hbr.
  bind_inv H as b_actual Hba. apply Slash_mulU256_val in Hba.
  assert (Eba : b_actual = split_b (bal - hs_phb (h_state h)) st bt).
  { unfold split_b. destruct (0 <? st + bt).
    - bind_inv Hbr as sr Hsr. apply Slash_ratio256_val in Hsr. destruct Hsr as [_ ->].
      apply Slash_sub256_val in Hbr. destruct Hbr as [_ ->]. exact Hba.
    - inversion Hbr; subst b_ratio. exact Hba. }
  clear Hba Hbr. subst b_actual.
  bind_inv H as b_sl Hbsl. apply Slash_signed_sub_loss in Hbsl.
  bind_inv H as st_actual Hsa. apply Slash_sub256_val in Hsa. destruct Hsa as [_ ->].
  bind_inv H as st_sl Hssl. apply Slash_signed_sub_loss in Hssl.
  bind_inv H as hist' Hfold. inversion H; subst h'. clear H.
  cbn [h_hist h_state set_h_state set_h_hist hs_bb hs_bst hs_phb].
  change (foldM (Slash_upd st (fst st_sl) (snd st_sl) bt (fst b_sl) (snd b_sl)) g (h_hist h) = Some hist')
    in Hfold.
  subst b_sl st_sl.
  split; [exact Hle|]. split; [|split; [|repeat split]].
  - intros i e Hin. destruct (Hent _ _ Hin) as (G1 & G2 & _).
    split; [exact G1|]. split; [exact G2|].
    eapply Slash_fold_in; eauto.
  - intros k Hk. eapply Slash_fold_other; eauto.
Qed.

Lemma Slash_in_sum {X} (f : X -> N) (l : list X) x : In x l -> f x <= sumN (map f l).
Proof.
  induction l as [|y l IH]; intros Hin; [contradiction|]. cbn [map sumN].
  destruct Hin as [-> | Hin]; [lia | apply IH in Hin; lia].
Qed.

Lemma Slash_charge_zero U L : batch_charge 0 U L = 0.
Proof. unfold batch_charge. apply N.min_0_l. Qed.

(** closed form of the new rates inside the handler, loss case, per token type *)
Theorem group_release_prorata h historical bal h' :
  process_withdraw_rate h historical bal = Some h' ->
  let s := h_state h in
  let g := release_group (h_hist h) (hs_lpb s + 1) historical (length (h_hist h)) in
  g <> [] ->
  let st := sumN (map (fun ie => batch_expected (he_samt (snd ie)) (he_swithdraw (snd ie))) g) in
  let bt := sumN (map (fun ie => batch_expected (he_bamt (snd ie)) (he_bwithdraw (snd ie))) g) in
  let A := bal - hs_phb s in
  let ba := split_b A st bt in
  let sa := A - ba in
  forall i e, In (i, e) g ->
    exists e', get N.eqb (h_hist h') i = Some e' /\ he_released e' = true /\
      he_samt e' = he_samt e /\ he_bamt e' = he_bamt e /\
      (he_samt e <> 0 -> sa <= st ->
         let u := batch_expected (he_samt e) (he_swithdraw e) in
         he_swithdraw e' = (u - batch_charge u st (st - sa)) * D / he_samt e) /\
      (he_bamt e <> 0 -> ba <= bt ->
         let u := batch_expected (he_bamt e) (he_bwithdraw e) in
         he_bwithdraw e' = (u - batch_charge u bt (bt - ba)) * D / he_bamt e).
Proof.
  intros H. cbv zeta. intros Hg i e Hin.
  destruct (group_release_spec _ _ _ _ H Hg) as (_ & Hall & _). cbv zeta in Hall.
  destruct (Hall i e Hin) as (_ & _ & sr & br & Hsr & Hbr & Hget). clear Hall.
  eexists. split; [exact Hget|]. cbn [he_released he_samt he_bamt he_swithdraw he_bwithdraw].
  split; [reflexivity|]. split; [reflexivity|]. split; [reflexivity|].
  set (g := release_group (h_hist h) (hs_lpb (h_state h) + 1) historical (length (h_hist h))) in *.
  pose proof (Slash_in_sum (fun ie : N * hist_entry => batch_expected (he_samt (snd ie)) (he_swithdraw (snd ie)))
                g (i, e) Hin) as Us.
  pose proof (Slash_in_sum (fun ie : N * hist_entry => batch_expected (he_bamt (snd ie)) (he_bwithdraw (snd ie)))
                g (i, e) Hin) as Ub.
  cbn [snd] in Us, Ub.
  set (st := sumN (map (fun ie : N * hist_entry => batch_expected (he_samt (snd ie)) (he_swithdraw (snd ie))) g)) in *.
  set (bt := sumN (map (fun ie : N * hist_entry => batch_expected (he_bamt (snd ie)) (he_bwithdraw (snd ie))) g)) in *.
  set (ba := split_b (bal - hs_phb (h_state h)) st bt) in *.
  set (sa := bal - hs_phb (h_state h) - ba) in *.
  clearbody st bt ba sa. clear Hget.
  split.
  - intros Ham Hle. unfold loss_of in Hsr.
    assert (E : (sa <=? st) = true) by lia. rewrite E in Hsr. cbn [fst snd] in Hsr.
    destruct (N.eq_dec st 0) as [Hz | Hnz].
    + subst st. apply group_charge_zero_total in Hsr; [|exact Ham]. cbv zeta in Hsr.
      assert (Z : batch_expected (he_samt e) (he_swithdraw e) = 0) by lia.
      rewrite Z in *. rewrite Slash_charge_zero. rewrite N.min_0_l in Hsr. exact Hsr.
    + apply group_charge_exact in Hsr; [exact Hsr | exact Ham | exact Hnz].
  - intros Ham Hle. unfold loss_of in Hbr.
    assert (E : (ba <=? bt) = true) by lia. rewrite E in Hbr. cbn [fst snd] in Hbr.
    destruct (N.eq_dec bt 0) as [Hz | Hnz].
    + subst bt. apply group_charge_zero_total in Hbr; [|exact Ham]. cbv zeta in Hbr.
      assert (Z : batch_expected (he_bamt e) (he_bwithdraw e) = 0) by lia.
      rewrite Z in *. rewrite Slash_charge_zero. rewrite N.min_0_l in Hbr. exact Hbr.
    + apply group_charge_exact in Hbr; [exact Hbr | exact Ham | exact Hnz].
Qed.

(** ** 8. under E1 the check never fails (no 128-bit guard is hit) *)

Lemma Slash_LIM_fits : LIM <= U128MAX. Proof. vm_compute. discriminate. Qed.
Lemma Slash_LIM_sq_fits : LIM * LIM <= U128MAX. Proof. vm_compute. discriminate. Qed.

Lemma Slash_fits_le x : x <= U128MAX -> fits128 x = true.
Proof. unfold fits128. lia. Qed.

Lemma Slash_exchange_rate_ok bonded issued requested :
  bonded <= LIM -> issued + requested <= LIM ->
  exists r, exchange_rate bonded issued requested = Some r.
Proof.
  intros Hb Hs. pose proof Slash_LIM_fits as F1. pose proof Slash_LIM_sq_fits as F2.
  unfold exchange_rate, add128, narrow128.
  rewrite (Slash_fits_le (issued + requested)) by lia. cbn [bind].
  destruct ((bonded =? 0) || (issued + requested =? 0)) eqn:E; [eauto|].
  apply orb_false_iff in E. destruct E as [_ E2].
  unfold ratio, narrow128. rewrite E2.
  assert (Q : bonded * D / (issued + requested) <= LIM * LIM).
  { apply N.le_trans with (bonded * D).
    - apply N.div_le_upper_bound; [lia|].
      rewrite <- (N.mul_1_l (bonded * D)) at 1. apply N.mul_le_mono_r. lia.
    - unfold LIM in *. apply N.mul_le_mono_r. exact Hb. }
  rewrite (Slash_fits_le _ (N.le_trans _ _ _ Q F2)). eauto.
Qed.

Lemma Slash_s1_ok s A :
  hs_bb s + hs_bst s <> 0 -> A <= LIM -> hs_bb s + hs_bst s <= LIM ->
  exists s1,
    (if A <? hs_bb s + hs_bst s then
       do r <- ratio (hs_bb s) (hs_bb s + hs_bst s);
       do bb <- mulU A r;
       do bst <- sub128 A bb;
       Some (set_bonded s bb bst)
     else Some s) = Some s1 /\ hs_bb s1 <= LIM /\ hs_bst s1 <= LIM.
Proof.
  intros HT HA HL. pose proof Slash_LIM_fits as F1.
  destruct (A <? hs_bb s + hs_bst s) eqn:E; [|exists s; repeat split; lia].
  set (T := hs_bb s + hs_bst s) in *.
  assert (HTp : 0 < T) by lia.
  assert (R : hs_bb s * D / T <= D).
  { apply N.div_le_upper_bound; [lia|]. apply N.mul_le_mono_r. lia. }
  unfold ratio at 1, narrow128. assert (ET : (T =? 0) = false) by lia. rewrite ET.
  rewrite (Slash_fits_le (hs_bb s * D / T)) by (unfold LIM in *; lia). cbn [bind].
  pose proof (Slash_dfloor_le A (hs_bb s) T D HTp D_pos ltac:(lia)) as X.
  set (r := hs_bb s * D / T) in *.
  assert (M : mulU A r = Some (A * r / D)).
  { unfold mulU, narrow128. destruct ((A =? 0) || (r =? 0)) eqn:Z.
    - f_equal. assert (Z0 : A * r = 0).
      { apply orb_true_iff in Z. destruct Z as [Z|Z]; apply N.eqb_eq in Z; rewrite Z; lia. }
      rewrite Z0. symmetry. apply N.div_0_l. exact D_nz.
    - rewrite (Slash_fits_le (A * r / D)) by (apply N.le_trans with A; [exact X | lia]). reflexivity. }
  rewrite M. cbn [bind]. unfold sub128.
  assert (EL : (A * r / D <=? A) = true) by (apply N.leb_le; exact X). rewrite EL. cbn [bind].
  eexists. split; [reflexivity|]. cbn [set_bonded hs_bb hs_bst].
  set (x := A * r / D) in *. clearbody x. split; lia.
Qed.

Theorem sync_succeeds w self h tb ts :
  hp_underlying (h_params h) = usei ->
  hc_bsei (h_cfg h) = Some A_bsei -> hc_stsei (h_cfg h) = Some A_stsei ->
  w_bsei w = Some tb -> w_stsei w = Some ts ->
  delegated (w_env w) self <= LIM -> booked h <= LIM ->
  tk_supply tb + cb_reqb (h_batch h) <= LIM -> tk_supply ts + cb_reqst (h_batch h) <= LIM ->
  exists s', query_actual_state w self h = Some s'.
Proof.
  intros Hu Hcb Hcs Hwb Hws HA HT Hb Hs. pose proof Slash_LIM_fits as F1. unfold booked in HT.
  unfold query_actual_state. cbv zeta.
  destruct (all_delegations (w_env w) self) as [|d0 dl] eqn:Hd; [eauto|].
  rewrite (actual_bonded_exact w self h Hu) by (apply Slash_fits_le; lia). cbn [bind].
  unfold add128 at 1, narrow128. rewrite (Slash_fits_le (hs_bb (h_state h) + hs_bst (h_state h))) by lia.
  cbn [bind].
  destruct (hs_bb (h_state h) + hs_bst (h_state h) =? 0) eqn:E0; [eauto|].
  assert (Ebi : hub_bsei_supply w h = Some (tk_supply tb)).
  { unfold hub_bsei_supply. rewrite Hcb. cbn [bind]. unfold query_total_supply, token_at.
    change (A_bsei =? A_bsei) with true. cbv iota. rewrite Hwb. reflexivity. }
  assert (Esi : hub_stsei_supply w h = Some (tk_supply ts)).
  { unfold hub_stsei_supply. rewrite Hcs. cbn [bind]. unfold query_total_supply, token_at.
    change (A_stsei =? A_bsei) with false. change (A_stsei =? A_stsei) with true. cbv iota.
    rewrite Hws. reflexivity. }
  rewrite Ebi, Esi. cbn [bind].
  destruct (Slash_s1_ok (h_state h) (delegated (w_env w) self) ltac:(lia) HA HT) as (s1 & -> & B1 & B2).
  cbn [bind].
  destruct (Slash_exchange_rate_ok (hs_bb s1) (tk_supply tb) (cb_reqb (h_batch h)) B1 Hb) as [ber ->].
  destruct (Slash_exchange_rate_ok (hs_bst s1) (tk_supply ts) (cb_reqst (h_batch h)) B2 Hs) as [ser ->].
  cbn [bind]. eauto.
Qed.

(** ** 9. the CheckSlashing transaction as an operation of a history *)

Lemma Slash_run_cons f w s m rest tr :
  run (S f) w ((s, m) :: rest) tr =
  (do r <- step_msg w s m; run f (fst r) (snd r ++ rest) (tr ++ [(s, m)])).
Proof. reflexivity. Qed.

Lemma Slash_run_nil f w tr : run f w [] tr = Some (w, tr).
Proof. destruct f; reflexivity. Qed.

Lemma Slash_step_check w sender :
  step_msg w sender (MWasm A_hub (WHub HCheckSlashing) []) =
  (do h <- w_hub w;
   check negb (paused h);
   do h1 <- slashing w A_hub h; Some (set_hub w h1, [])).
Proof.
  destruct w as [wh wr wd wg wb ws we].
  cbn [step_msg send_coins foldM bind w_env]. unfold call.
  change (A_hub =? A_hub) with true. cbv iota. cbn [set_env w_hub].
  destruct wh as [h|]; cbn [bind]; [|reflexivity].
  cbn [hub_execute]. destruct (paused h); cbn [negb bind]; [reflexivity|].
  change (slashing (mkWorld (Some h) wr wd wg wb ws we) A_hub h) with
         (slashing (set_env (mkWorld (Some h) wr wd wg wb ws we) we) A_hub h).
  cbn [set_env w_hub w_reward w_disp w_reg w_bsei w_stsei].
  destruct (slashing _ A_hub h) as [h1|]; cbn [bind fst snd map]; reflexivity.
Qed.

Theorem check_slashing_tx w sender h h1 :
  w_hub w = Some h -> paused h = false -> slashing w A_hub h = Some h1 ->
  step w (OTx sender A_hub (WHub HCheckSlashing) []) =
    (set_hub w h1, (true, [(sender, MWasm A_hub (WHub HCheckSlashing) [])])).
Proof.
  intros Hh Hp Hs. cbn [step]. change tx_fuel with (S 399).
  rewrite Slash_run_cons, Slash_step_check, Hh. cbn [bind]. rewrite Hp. cbn [negb].
  rewrite Hs. cbn [bind fst snd app]. rewrite Slash_run_nil. reflexivity.
Qed.

Theorem check_slashing_tx_inv w sender w' tr :
  step w (OTx sender A_hub (WHub HCheckSlashing) []) = (w', (true, tr)) ->
  exists h h1, w_hub w = Some h /\ paused h = false /\ slashing w A_hub h = Some h1 /\
               w' = set_hub w h1 /\ w_env w' = w_env w.
Proof.
  cbn [step]. change tx_fuel with (S 399).
  rewrite Slash_run_cons, Slash_step_check. intros H.
  destruct (w_hub w) as [h|] eqn:Hh; cbn [bind] in H; [|inversion H].
  destruct (paused h) eqn:Hp; cbn [negb bind] in H; [inversion H|].
  destruct (slashing w A_hub h) as [h1|] eqn:Hs; cbn [bind fst snd app] in H; [|inversion H].
  rewrite Slash_run_nil in H. injection H as Hw Ht. subst w'.
  exists h, h1. repeat split; try assumption; reflexivity.
Qed.


(** ** 10. Non-vacuity: concrete worlds satisfying the hypotheses, and witnesses *)

Definition Slash_ex_hub (bb bst : N) (hist : fmap N hist_entry) (phb : N) : hub :=
  mkHub (mkHubConfig A_owner A_owner (Some A_disp) (Some A_reg) (Some A_bsei) (Some A_stsei) None None)
        (mkHubState D D bb bst 0 phb 0 0)
        (mkHubParams 30 usei 100 0 D uusd (Some false))
        (mkBatch 1 0 0) A_owner [] hist [].
Definition Slash_ex_tok (supply : N) : token :=
  mkToken A_hub supply (Some (A_hub, None)) [(20, supply)] [].
Definition Slash_ex_env (dels : list (val * N)) : env :=
  mkEnv 1000000 100 [] (map (fun p => ((A_hub, fst p), snd p)) dels) [] [] [] [] D SwOk OrOk.
Definition Slash_ex_world (bb bst sb ss : N) (e : env) : world :=
  mkWorld (Some (Slash_ex_hub bb bst [] 0)) None None (Some (mkReg A_owner A_hub [0; 1] A_owner))
          (Some (Slash_ex_tok sb)) (Some (Slash_ex_tok ss)) e.

(** two validators, both slashed by 1 % (through the environment's [ev_slash]);
    pools 700000001 (bSei) and 300000000 (stSei), both non-empty *)
Definition Slash_ex_e0 : env := Slash_ex_env [(0, 500000000); (1, 500000001)].
Definition Slash_ex_e1 : env :=
  match ev_slash Slash_ex_e0 0 1 100 false with
  | Some e => match ev_slash e 1 1 100 false with Some e' => e' | None => Slash_ex_e0 end
  | None => Slash_ex_e0
  end.
Definition Slash_ex_h : hub := Slash_ex_hub 700000001 300000000 [] 0.
Definition Slash_ex_w0 : world := Slash_ex_world 700000001 300000000 700000001 300000000 Slash_ex_e0.
Definition Slash_ex_w1 : world := Slash_ex_world 700000001 300000000 700000001 300000000 Slash_ex_e1.

Example sync_exact_nonvacuous :
  delegated (w_env Slash_ex_w0) A_hub = 1000000001 /\
  delegated (w_env Slash_ex_w1) A_hub = 990000000 /\
  hp_underlying (h_params Slash_ex_h) = usei /\
  all_delegations (w_env Slash_ex_w1) A_hub <> [] /\
  delegated (w_env Slash_ex_w1) A_hub < booked Slash_ex_h /\
  delegated (w_env Slash_ex_w1) A_hub <= LIM /\
  delegated (w_env Slash_ex_w1) A_hub * booked Slash_ex_h <= hs_bst (h_state Slash_ex_h) * D /\
  query_actual_state Slash_ex_w1 A_hub Slash_ex_h =
    Some (mkHubState 989999998585714287 990000000000000000 693000000 297000000 0 0 0 0).
Proof. vm_compute. repeat split; discriminate. Qed.

(** before the slash the same check changes neither pool (hypotheses of [sync_noop]) *)
Example sync_noop_nonvacuous :
  booked Slash_ex_h <= delegated (w_env Slash_ex_w0) A_hub /\
  query_actual_state Slash_ex_w0 A_hub Slash_ex_h =
    Some (mkHubState D D 700000001 300000000 0 0 0 0).
Proof. vm_compute. split; [discriminate | reflexivity]. Qed.

(** an empty bSei pool / an empty stSei pool *)
Example sync_empty_pool_nonvacuous :
  query_actual_state (Slash_ex_world 0 1000 0 1000 (Slash_ex_env [(3, 990)])) A_hub (Slash_ex_hub 0 1000 [] 0)
    = Some (mkHubState D 990000000000000000 0 990 0 0 0 0) /\
  query_actual_state (Slash_ex_world 1000 0 1000 0 (Slash_ex_env [(3, 990)])) A_hub (Slash_ex_hub 1000 0 [] 0)
    = Some (mkHubState 990000000000000000 D 990 0 0 0 0 0).
Proof. vm_compute. split; reflexivity. Qed.

(** hypotheses of [sync_succeeds] *)
Example sync_succeeds_nonvacuous :
  hc_bsei (h_cfg Slash_ex_h) = Some A_bsei /\ hc_stsei (h_cfg Slash_ex_h) = Some A_stsei /\
  w_bsei Slash_ex_w1 = Some (Slash_ex_tok 700000001) /\ w_stsei Slash_ex_w1 = Some (Slash_ex_tok 300000000) /\
  booked Slash_ex_h <= LIM /\
  tk_supply (Slash_ex_tok 700000001) + cb_reqb (h_batch Slash_ex_h) <= LIM /\
  tk_supply (Slash_ex_tok 300000000) + cb_reqst (h_batch Slash_ex_h) <= LIM.
Proof. vm_compute. repeat split; discriminate. Qed.

(** WITNESS: in the slashed case the stSei pool can RISE by one base unit (and its rate with it):
    bSei pool 10000000000006 (10 M SEI), stSei pool 1, one base unit lost.  The bSei pool is charged 2,
    the stSei pool goes from 1 to 2 and the stSei rate from 1 to 2.  Both pools are still within two
    units of their exact shares, so C06's tolerance is respected; "a check can never raise a pool"
    holds for the no-loss case ([sync_noop]), for the total and the bSei pool ([sync_never_raises]),
    and for the stSei pool only up to this one unit. *)
Example sync_st_pool_rise_witness :
  let h := Slash_ex_hub 10000000000006 1 [] 0 in
  let w := Slash_ex_world 10000000000006 1 10000000000006 1 (Slash_ex_env [(0, 10000000000006)]) in
  delegated (w_env w) A_hub = 10000000000006 /\ booked h = 10000000000007 /\
  query_actual_state w A_hub h =
    Some (mkHubState 999999999999800000 2000000000000000000 10000000000004 2 0 0 0 0).
Proof. vm_compute. repeat split; reflexivity. Qed.

(** the floor-quotient form of the stSei upper bound cannot be strict: here A*bst/T = 0 (floor of
    0.99..), and the new stSei pool is 2 = 0 + 2 *)
Example sync_st_quotient_bound_tight :
  10000000000006 * 1 / 10000000000007 + 2 = 2.
Proof. vm_compute. reflexivity. Qed.

(** every pricing handler succeeds on the slashed world, i.e. the premises "f = Some r" of the linking
    theorems are satisfiable; the bond mints 5050 for 5000 coins: it is priced at the synchronised
    rate 0.99, not at the stored rate 1 *)
Example sync_in_handlers_nonvacuous :
  let w := Slash_ex_world 700000001 300000000 700000001 300000000 (credit Slash_ex_e1 A_hub usei 5000) in
  is_some (execute_unbond Slash_ex_w1 Slash_ex_h A_hub 1000 20) = true /\
  is_some (execute_unbond_stsei Slash_ex_w1 Slash_ex_h A_hub 1000 20) = true /\
  is_some (convert_bsei_stsei Slash_ex_w1 Slash_ex_h A_hub 1000 20) = true /\
  is_some (convert_stsei_bsei Slash_ex_w1 Slash_ex_h A_hub 1000 20) = true /\
  option_map snd (execute_bond w Slash_ex_h A_hub 20 [(usei, 5000)] BkB) =
    Some [MDelegate 0 (usei, 2500); MDelegate 1 (usei, 2500); MWasm A_bsei (WCw20 (CMint 20 5050)) []] /\
  option_map snd (execute_bond w Slash_ex_h A_hub 20 [(usei, 5000)] BkSt) =
    Some [MDelegate 0 (usei, 2500); MDelegate 1 (usei, 2500); MWasm A_stsei (WCw20 (CMint 20 5050)) []] /\
  is_some (execute_bond w Slash_ex_h A_hub A_disp [(usei, 5000)] BkRw) = true.
Proof. vm_compute. repeat split; reflexivity. Qed.

(** the CheckSlashing transaction on the slashed world *)
Example check_slashing_tx_nonvacuous :
  snd (step Slash_ex_w1 (OTx 20 A_hub (WHub HCheckSlashing) [])) =
    (true, [(20, MWasm A_hub (WHub HCheckSlashing) [])]) /\
  option_map h_state (w_hub (fst (step Slash_ex_w1 (OTx 20 A_hub (WHub HCheckSlashing) [])))) =
    Some (mkHubState 989999998585714287 990000000000000000 693000000 297000000 0 0 0 0).
Proof. vm_compute. split; reflexivity. Qed.

(** a release group of three batches: stSei 100 / 200 / 700 at rate 1 (expects 1000 coins),
    bSei 300 / 0 / 500 at rate 0.9 (expects 720 coins); 1700 of the 1720 coins arrive *)
Definition Slash_ex_hist3 : fmap N hist_entry :=
  [(1, mkHist 10 300 D (9 * D / 10) 100 D D false);
   (2, mkHist 20 0 D (9 * D / 10) 200 D D false);
   (3, mkHist 30 500 D (9 * D / 10) 700 D D false)].
Definition Slash_ex_h3 : hub := Slash_ex_hub 0 0 Slash_ex_hist3 50.

Example group_nonvacuous :
  release_group Slash_ex_hist3 1 1000 3 = Slash_ex_hist3 /\
  group_totals Slash_ex_hist3 = Some (1000, 720) /\
  split_b 1700 1000 720 = 711 /\                              (* exact share 711.6 *)
  loss_of 1000 (1700 - 711) = (11, false) /\ loss_of 720 711 = (9, false) /\
  batch_charge 100 1000 11 = 2 /\ batch_charge 200 1000 11 = 3 /\ batch_charge 700 1000 11 = 8 /\
                                                              (* exact shares 1.1, 2.2, 7.7 *)
  batch_charge 270 720 9 = 4 /\ batch_charge 450 720 9 = 6 /\  (* exact shares 3.375, 5.625 *)
  option_map h_hist (process_withdraw_rate Slash_ex_h3 1000 1750) =
    Some [(1, mkHist 10 300 D 886666666666666666 100 D 980000000000000000 true);
          (2, mkHist 20 0 D (9 * D / 10) 200 D 985000000000000000 true);
          (3, mkHist 30 500 D 888000000000000000 700 D 988571428571428571 true)].
Proof. vm_compute. repeat split; reflexivity. Qed.

Example group_charge_nonvacuous :
  new_withdraw_rate 700 D 1000 11 false = Some 988571428571428571 /\
  new_withdraw_rate 700 D 1000 11 true = Some 1008571428571428571 /\
  new_withdraw_rate 700 D 1000 0 false = Some D /\
  new_withdraw_rate 5 D 0 3 false = Some 800000000000000000 /\
  new_withdraw_rate 0 (9 * D / 10) 720 9 false = Some (9 * D / 10) /\
  (0 < 1000 /\ 11 <= 1000 /\ 11 <= LIM) /\ (0 < 1000 + 720 /\ 1700 <= LIM).
Proof. vm_compute. repeat split; try reflexivity; discriminate. Qed.

(** ** 11. the check after a slashing event *)

(** one statement for both cases: with at least one delegation entry, the booked total after a
    check is the smaller of the old books and the delegated amount *)
Theorem sync_books_min w self h s' :
  query_actual_state w self h = Some s' ->
  hp_underlying (h_params h) = usei ->
  all_delegations (w_env w) self <> [] ->
  hs_bb s' + hs_bst s' = N.min (booked h) (delegated (w_env w) self).
Proof.
  intros H Hu Hne.
  destruct (N.le_gt_cases (booked h) (delegated (w_env w) self)) as [Hge | Hlt].
  - destruct (sync_noop _ _ _ _ H Hu Hge) as (-> & -> & _). unfold booked in *. lia.
  - destruct (sync_exact _ _ _ _ H Hu Hne Hlt) as (Hsum & _). cbv zeta in Hsum. lia.
Qed.

Lemma Slash_slash_amt_le a num den : den <> 0 -> slash_amt a num den <= a.
Proof.
  intros Hd. unfold slash_amt. apply N.div_le_upper_bound; [exact Hd|].
  rewrite (N.mul_comm den a). apply N.mul_le_mono_l. apply N.le_sub_l.
Qed.

Lemma Slash_get_map_del (f : (addr * val) * N -> N) (l : fmap (addr * val) N) k :
  get eqbNN (map (fun kv => (fst kv, f kv)) l) k =
  match get eqbNN l k with Some a => Some (f (k, a)) | None => None end.
Proof.
  induction l as [|[k' a] l IH]; cbn [map get fst]; [reflexivity|].
  destruct (eqbNN k k') eqn:E; [|exact IH].
  apply eqbNN_eq in E. subst k'. reflexivity.
Qed.

(** the environment's slashing event keeps every delegation entry and lowers no-one's stake below
    zero nor above what it was: the delegated total of every delegator can only fall *)
Theorem slash_lowers_delegated e v num den unb e' x :
  ev_slash e v num den unb = Some e' ->
  map fst (all_delegations e' x) = map fst (all_delegations e x) /\
  delegated e' x <= delegated e x.
Proof.
  unfold ev_slash. intros H. check_inv H as Hle. check_inv H as Hden. inversion H; subst e'. clear H.
  assert (Hd : den <> 0) by lia.
  set (f := fun kv : (addr * val) * N =>
              if snd (fst kv) =? v then slash_amt (snd kv) num den else snd kv).
  unfold delegated, all_delegations, delegation.
  cbn [set_unb set_del e_del].
  match goal with
  | |- context [get eqbNN (map ?g (e_del e))] =>
      assert (Emap : map g (e_del e) = map (fun kv => (fst kv, f kv)) (e_del e))
  end.
  { apply map_ext. intros [[x0 v'] a]. unfold f. cbn [fst snd]. destruct (v' =? v); reflexivity. }
  rewrite Emap. clear Emap.
  induction VALS as [|v0 vs IH]; cbn [flat_map]; [split; [reflexivity | lia]|].
  repeat rewrite map_app. rewrite !sumN_app. destruct IH as [IH1 IH2]. rewrite IH1.
  rewrite Slash_get_map_del.
  destruct (get eqbNN (e_del e) (x, v0)) as [a|]; cbn [map fst snd sumN app]; [|split; [reflexivity | lia]].
  split; [reflexivity|].
  match goal with |- ?t + 0 + _ <= _ => assert (Q : t <= a); [|set (fa := t) in *] end.
  { unfold f. cbn [fst snd]. destruct (v0 =? v); [apply Slash_slash_amt_le; exact Hd | lia]. }
  match type of IH2 with ?s1 <= ?s2 => set (S1 := s1) in *; set (S2 := s2) in * end.
  clearbody S1 S2 fa. lia.
Qed.

(** "After validators are slashed, the next check sets the booked stake to exactly the surviving
    delegated amount": if the books did not exceed the delegations before the slash (invariant C02)
    and the hub has a delegation entry, the check in the slashed world books
    min(old books, surviving delegations) -- the surviving amount exactly whenever the slash bit
    into the booked stake *)
Theorem slash_then_check w h v num den unb e' s' :
  ev_slash (w_env w) v num den unb = Some e' ->
  hp_underlying (h_params h) = usei ->
  all_delegations (w_env w) A_hub <> [] ->
  query_actual_state (set_env w e') A_hub h = Some s' ->
  hs_bb s' + hs_bst s' = N.min (booked h) (delegated e' A_hub) /\
  delegated e' A_hub <= delegated (w_env w) A_hub /\
  (delegated e' A_hub < booked h -> hs_bb s' + hs_bst s' = delegated e' A_hub).
Proof.
  intros Hsl Hu Hne Hq.
  destruct (slash_lowers_delegated _ _ _ _ _ _ A_hub Hsl) as [Hk Hl].
  assert (Hne' : all_delegations (w_env (set_env w e')) A_hub <> []).
  { cbn [set_env w_env]. intros E. rewrite E in Hk. cbn [map] in Hk.
    destruct (all_delegations (w_env w) A_hub); [apply Hne; reflexivity | discriminate Hk]. }
  pose proof (sync_books_min _ _ _ _ Hq Hu Hne') as Hm. cbn [set_env w_env] in Hm.
  split; [exact Hm|]. split; [exact Hl|]. intros Hlt. lia.
Qed.

Example slash_then_check_nonvacuous :
  ev_slash (w_env Slash_ex_w0) 0 1 100 false =
    Some (Slash_ex_env [(0, 495000000); (1, 500000001)]) /\
  all_delegations (w_env Slash_ex_w0) A_hub <> [] /\
  query_actual_state (set_env Slash_ex_w0 (Slash_ex_env [(0, 495000000); (1, 500000001)])) A_hub Slash_ex_h =
    Some (mkHubState 994999998578571430 995000003333333333 696500000 298500001 0 0 0 0).
Proof. vm_compute. repeat split; discriminate. Qed.

(** existential form of the witness (no auxiliary definitions in the statement) *)
Theorem sync_st_pool_rise_exists :
  exists w self h s',
    query_actual_state w self h = Some s' /\ hp_underlying (h_params h) = usei /\
    delegated (w_env w) self <= LIM /\ booked h <= LIM /\
    delegated (w_env w) self < booked h /\
    hs_bst (h_state h) < hs_bst s' /\ hs_ser (h_state h) < hs_ser s'.
Proof.
  exists (Slash_ex_world 10000000000006 1 10000000000006 1 (Slash_ex_env [(0, 10000000000006)])),
         A_hub, (Slash_ex_hub 10000000000006 1 [] 0),
         (mkHubState 999999999999800000 2000000000000000000 10000000000004 2 0 0 0 0).
  vm_compute. repeat split; discriminate.
Qed.

(** the short definitions used in the statements, unfolded *)
Lemma Slash_defs :
  (forall amount wrate, batch_expected amount wrate = amount * wrate / D) /\
  (forall u U L, batch_charge u U L = N.min u (L * (u * D / U) / D + (if L =? 0 then 0 else 1))) /\
  (forall A st bt, split_b A st bt = A * (if 0 <? st + bt then D - st * D / (st + bt) else 0) / D) /\
  (forall x a, loss_of x a = if a <=? x then (x - a, false) else (a - x, true)) /\
  (forall m, pricing_msg m = true <->
     m = HBond \/ m = HBondSt \/ m = HBondRewards \/ m = HCheckSlashing \/
     (exists u a, m = HReceive u a HkUnbond) \/ (exists u a, m = HReceive u a HkConvert)).
Proof.
  repeat split; try reflexivity.
  - intros Hp. destruct m as [ | | | n | | | e1 e2 e3 e4 e5 e6 | c1 c2 c3 c4 c5 c6 c7 | a | | src l | tok swapc
                | tok airdropc swapc | limit | user amt hk ]; try discriminate Hp; auto.
    destruct hk; try discriminate Hp; [right; right; right; right; left | right; right; right; right; right]; eauto.
  - intros [-> | [-> | [-> | [-> | [(u & a & ->) | (u & a & ->)]]]]]; reflexivity.
Qed.
