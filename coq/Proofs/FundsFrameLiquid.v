(** * FundsFrameLiquid: attached coins and the hub's liquid balance (corollaries of
    FundsFrame.FF_tx_success_iff and BooksLiquid.tx_liquid_eq / tx_liquid_ge).

    - [FF_transfer_hub_usei]  the transfer of the attached coins changes the hub's usei balance by exactly
                              the attached usei if the target is the hub, and not at all otherwise;
    - [FF_tx_liquid_eq]       a successful transaction with attached coins whose handler does not read
                              them, and whose plain trace meets the conditions of C02 theorem 16 (no
                              WithdrawUnbonded, no gift), changes the hub's usei balance by exactly the
                              attached usei amount when the target is the hub, and not at all otherwise;
    - [FF_tx_liquid_ge]       with only "no WithdrawUnbonded" (C02 theorem 15): by at least that amount;
    - [FF_tx_liquid_nonvacuous]  the hypotheses hold for CheckSlashing with 5 usei attached in the
                              example world FF_w: the hub's balance goes from 701 000 to 701 005. *)
From Krp Require Import Tactics Prelude Fixed FMap Types Env Registry Cw20 Reward Dispatcher Hub Exec
     ExecP Hist BooksEnv BooksLiquid ExitWorld FundsFrame FundsFrameEx.
Open Scope N_scope.

Lemma FF_transfer_hub_usei e s t f e1 :
  s <> A_hub -> send_coins e s t f = Some e1 ->
  bal e1 A_hub usei = bal e A_hub usei + (if t =? A_hub then coin_amt usei f else 0).
Proof.
  intros Hs H. rewrite (send_coins_hub_eq _ _ _ _ _ H); [|intros E; contradiction].
  rewrite (N.eqb_sym A_hub t). reflexivity.
Qed.

Lemma FF_plain_run w s t m w' tr :
  step w (OTx s t m []) = (w', (true, tr)) ->
  run tx_fuel w [(s, MWasm t m [])] [] = Some (w', tr).
Proof.
  cbn [step]. destruct (run tx_fuel w [(s, MWasm t m [])] []) as [[w2 tr2]|]; intros H;
    inversion H; subst; reflexivity.
Qed.

Theorem FF_tx_liquid_eq w s t m f w' tr :
  (forall h, w_hub w = Some h -> hp_underlying (h_params h) = usei) ->
  NoRewardsToHub (w_env w) -> s <> A_hub ->
  FF_reads_funds t m = false ->
  step w (OTx s t m f) = (w', (true, tr)) ->
  Forall (fun sm => not_withdraw sm /\ no_gift sm) ((s, MWasm t m []) :: tl tr) ->
  bal (w_env w') A_hub usei
  = bal (w_env w) A_hub usei + (if t =? A_hub then coin_amt usei f else 0).
Proof.
  intros Hu Hnr Hs Hr H HF.
  apply (FF_tx_success_iff w s t m f w' tr Hr) in H. destruct H as (e1 & rest & Es & Ep & ->).
  cbn [tl] in HF. apply FF_plain_run in Ep.
  rewrite <- (FF_transfer_hub_usei _ _ _ _ _ Hs Es).
  change e1 with (w_env (set_env w e1)).
  apply (tx_liquid_eq (set_env w e1) s t m [] w' ((s, MWasm t m []) :: rest)); [exact Hu | | reflexivity | exact Ep | exact HF].
  cbn [w_env set_env]. eapply NoRewardsToHub_same; [|exact Hnr].
  exact (proj1 (proj2 (proj2 (proj2 (proj2 (send_coins_static _ _ _ _ _ Es)))))).
Qed.

Theorem FF_tx_liquid_ge w s t m f w' tr :
  (forall h, w_hub w = Some h -> hp_underlying (h_params h) = usei) ->
  s <> A_hub ->
  FF_reads_funds t m = false ->
  step w (OTx s t m f) = (w', (true, tr)) ->
  Forall not_withdraw ((s, MWasm t m []) :: tl tr) ->
  bal (w_env w) A_hub usei + (if t =? A_hub then coin_amt usei f else 0)
  <= bal (w_env w') A_hub usei.
Proof.
  intros Hu Hs Hr H HF.
  apply (FF_tx_success_iff w s t m f w' tr Hr) in H. destruct H as (e1 & rest & Es & Ep & ->).
  cbn [tl] in HF. apply FF_plain_run in Ep.
  rewrite <- (FF_transfer_hub_usei _ _ _ _ _ Hs Es).
  change e1 with (w_env (set_env w e1)) at 1.
  apply (tx_liquid_ge (set_env w e1) s t m [] w' ((s, MWasm t m []) :: rest)); [exact Hu | reflexivity | exact Ep | exact HF].
Qed.

(** non-vacuity: CheckSlashing with 5 usei attached *)
Lemma FF_w_norewards : NoRewardsToHub (w_env FF_w).
Proof.
  intros x. unfold withdraw_addr.
  assert (E : e_wdaddr (w_env FF_w) = [(A_hub, A_disp)]) by (vm_compute; reflexivity).
  rewrite E. cbn [get]. unfold eqbA. destruct (x =? A_hub) eqn:Ex.
  - intros X. vm_compute in X. discriminate X.
  - apply N.eqb_neq in Ex. exact Ex.
Qed.

Example FF_tx_liquid_nonvacuous :
  let f := [(usei, 5)] in
  let tx := OTx alice A_hub (WHub HCheckSlashing) f in
  (forall h, w_hub FF_w = Some h -> hp_underlying (h_params h) = usei) /\
  NoRewardsToHub (w_env FF_w) /\ alice <> A_hub /\
  FF_reads_funds A_hub (WHub HCheckSlashing) = false /\
  step FF_w tx = (fst (step FF_w tx), (true, [(alice, MWasm A_hub (WHub HCheckSlashing) f)])) /\
  Forall (fun sm => not_withdraw sm /\ no_gift sm) [(alice, MWasm A_hub (WHub HCheckSlashing) [])] /\
  bal (w_env FF_w) A_hub usei = 701000 /\ coin_amt usei f = 5 /\
  bal (w_env (fst (step FF_w tx))) A_hub usei = 701005.
Proof.
  cbv zeta.
  split. { intros h Hh. vm_compute in Hh. inversion Hh; subst h. reflexivity. }
  split; [exact FF_w_norewards|]. split; [discriminate|]. split; [reflexivity|].
  split; [vm_compute; reflexivity|].
  split.
  { constructor; [|constructor]. split.
    - intros f0 X. discriminate X.
    - unfold no_gift. cbn [snd]. split; [intros _; left; reflexivity | intros X; discriminate X]. }
  split; [vm_compute; reflexivity|]. split; vm_compute; reflexivity.
Qed.
