(** * IndexHist: C19 capstone — the state premises of the whole-transaction UpdateGlobalIndex theorem
    (Proofs/IndexP.v, Props/C19.v) are discharged from reachability, so that "a global index update
    delivers all staking rewards to the right parties" reads over HISTORIES.

    The premises of [update_global_index_effect] sorted into three classes:
    (a) INVARIANTS of every reached world (proved, not assumed):
        [RewardSolvent]          from C14 ([rwinv_from_empty]; history envelope [REnv d0], [user_roots]);
        [RewardsToDispatcher]    from [IndexHist_WdInv_reachable] (Proofs/IndexHistInv.v): the withdraw
                                 address of the hub account always equals the hub's dispatcher field;
        keeper rate <= 1         from C20 ([PInv_reachable]);
        registry without repetition  from [IndexHist_RegNoDup_reachable];
        component states present from [Wired].
    (b) CONFIGURATION at the reached world, which the owners can change ([IndexCfgNow]): [Wired],
        [RewardWired], dispatcher uses the swap / oracle stubs, keeper is an outside account,
        registry non-empty and made of real validators.
    (c) facts about the CURRENT world that are not invariants ([IndexEnvNow]): stub behaviour
        [StubsOk], magnitudes [IndexE1], [HubReady] (not paused, stake bonded, authorised sender), and
        for the balances the dispatcher holds before DispatchRewards: <= 1e18 and outside finding F2.

    Main theorems ([w] is always [run_ops ops (empty_world ut)]):
    - [IndexHist_premises_reachable] : every class-(a) premise holds in [w].
    - [IndexHist_update_global_index_reachable] : CAPSTONE — in [w], under [IndexCfgNow w] and
        [IndexEnvNow w sender], the pre-dispatch world exists and the UpdateGlobalIndex transaction of
        [sender] SUCCEEDS, with the end state of [C19_update_global_index_effect].
    - [IndexHist_nothing_left], [IndexHist_hub_and_unbonders_untouched], [IndexHist_pools_and_tokens],
      [IndexHist_holders_accrual] : the history-level corollaries (dispatcher empty; hub liquid
        balance, open batch, history, wait lists, unbonding entries unchanged; bSei pool only
        slashing-synchronised, token ledgers unchanged, nothing minted; the holders' total accrued
        reward grows by the coins indexed minus less than one unit — composing with C14 and C16).
    - [IndexHist_nonvacuous_1], [IndexHist_nonvacuous_2] : concrete histories satisfying every
        hypothesis; success obtained THROUGH the capstone (first update, and a repeated update on the
        [ExitWorld.genesis_ops] deployment).
    - [IndexHist_F2_gift_witness] : finding F2 is reachable by a THIRD PARTY: with no pending rewards
        the update succeeds; after a gift of ONE base unit of uusd / usei / uatom to the dispatcher
        (a plain bank transfer by anybody) it fails while stake is bonded (class [Known_F2], dust). *)
From Krp Require Import Tactics Prelude Fixed FMap Types Env Registry Cw20 Reward Dispatcher Hub Exec
     ExecP Hist Inv HubFrame HubAdmin Params DispatcherP RewardP RewardWorld MirrorWire MirrorP
     ExitWorld ExitHist IndexRun IndexEnv IndexHandlers IndexSwap IndexPhases IndexP IndexHistInv.
Open Scope N_scope.

(** ** 1. the two predicates on the reached world *)

(** (b) owner-controlled configuration: E4 wiring of the six contracts, reward coin discipline, the
    dispatcher talks to the stubs, the keeper is an account outside the protocol, the registry is
    non-empty and lists validators that exist *)
Definition IndexCfgNow (w : world) : Prop :=
  Wired w /\ RewardWired w /\
  match w_disp w, w_reg w with
  | Some d, Some g =>
      dp_swap d = A_swap /\ dp_oracle d = A_oracle /\
      dp_keeper d <> A_disp /\ dp_keeper d <> A_hub /\ dp_keeper d <> A_reward /\
      rg_vals g <> [] /\ (forall v, In v (rg_vals g) -> is_val v = true)
  | _, _ => False
  end.

(** (c) not invariants: stubs behave (E7), magnitudes (E1), hub not paused / stake bonded / sender
    authorised, and the balances the dispatcher holds just before DispatchRewards are within E1 and
    outside the known finding F2 *)
Definition IndexEnvNow (w : world) (sender : addr) : Prop :=
  StubsOk (w_env w) /\ IndexE1 w /\ HubReady w sender /\
  forall w1 dp, pre_dispatch w sender = Some w1 -> w_disp w = Some dp ->
    bal (w_env w1) A_disp (dp_bd dp) <= LIM /\ bal (w_env w1) A_disp usei <= LIM /\
    ~ Known_F2 (dp_rate dp) (bal (w_env w1) A_disp (dp_bd dp)) (bal (w_env w1) A_disp usei).

(** ** 2. class (a): every invariant premise, in every reached world *)
Lemma IndexHist_premises_inv w :
  IndexHist_WdInv w -> PInv w -> IndexHist_RegSorted w -> RWInv w -> IndexCfgNow w ->
  Wired w /\ RewardWired w /\ RewardsToDispatcher w /\ IndexWiring w /\ RewardSolvent w.
Proof.
  intros HWd [_ HPd] HRs HRw (HW & HRW & HC).
  destruct (Wired_inv w HW) as (h & r & d & g & tb & ts & Eh & Er & Ed & Eg & _).
  split; [exact HW|]. split; [exact HRW|].
  split; [apply IndexHist_WdInv_wired; assumption|].
  split.
  - pose proof (HPd d Ed) as Hrate. pose proof (HRs g Eg) as Hsort.
    unfold IndexWiring. rewrite Ed, Eg in HC. rewrite Ed, Eg.
    destruct HC as (C1 & C2 & C3 & C4 & C5 & C6 & C7).
    split; [exact C1|]. split; [exact C2|]. split; [exact Hrate|].
    split; [exact C3|]. split; [exact C4|]. split; [exact C5|].
    split; [exact C6|]. split; [apply IndexHist_sorted_NoDup; exact Hsort | exact C7].
  - unfold RewardSolvent. rewrite Er. destruct (HRw r Er) as [_ Hs]. exact Hs.
Qed.

Theorem IndexHist_premises_reachable d0 ut ops :
  user_roots ops -> always (REnv d0) ops (empty_world ut) ->
  let w := run_ops ops (empty_world ut) in
  IndexCfgNow w ->
  Wired w /\ RewardWired w /\ RewardsToDispatcher w /\ IndexWiring w /\ RewardSolvent w.
Proof.
  intros Hur HRE w HC.
  apply IndexHist_premises_inv;
    [apply IndexHist_WdInv_reachable | apply PInv_reachable | apply IndexHist_RegSorted_reachable
    | apply (rwinv_from_empty d0); [apply user_roots_no_reward; exact Hur | exact HRE] | exact HC].
Qed.

Corollary IndexHist_rewards_to_dispatcher_reachable ut ops :
  Wired (run_ops ops (empty_world ut)) -> RewardsToDispatcher (run_ops ops (empty_world ut)).
Proof. apply IndexHist_WdInv_wired. apply IndexHist_WdInv_reachable. Qed.

(** ** 3. the capstone *)

(** what holds in the pre-dispatch world [w1] (hub handler, every withdrawal and the swap leg done) *)
Definition IndexHist_pre_state (w : world) (h : hub) (r : reward) (dp : disp) (g : registry)
           (tb ts : token) (w1 : world) : Prop :=
  let e := w_env w in
  let e1 := w_env w1 in
  w_hub w1 = Some (set_h_state h (touch_lim (h_state h) (e_now e))) /\ w_reward w1 = Some r /\
  w_disp w1 = Some dp /\ w_reg w1 = Some g /\ w_bsei w1 = Some tb /\ w_stsei w1 = Some ts /\
  e_del e1 = e_del e /\ e_unb e1 = e_unb e /\ e_now e1 = e_now e /\
  (forall v d, In v (del_vals e A_hub) -> In d DENOMS -> pending e1 A_hub v d = 0) /\
  (forall a d, a <> A_disp -> a <> A_swap -> bal e1 a d = bal e a d).

(** the end state of [C19_update_global_index_effect] *)
Definition IndexHist_end_state (w : world) (h : hub) (r : reward) (dp : disp) (g : registry)
           (tb ts : token) (w1 w' : world) : Prop :=
  let e := w_env w in
  let now := e_now e in
  let bd := dp_bd dp in
  let keeper := dp_keeper dp in
  let e1 := w_env w1 in
  let X_b := bal e1 A_disp bd in
  let X_st := bal e1 A_disp usei in
  let kb := X_b * dp_rate dp / D in
  let ks := X_st * dp_rate dp / D in
  let rb := X_st - ks in
  let e' := w_env w' in
  w_bsei w' = Some tb /\ w_stsei w' = Some ts /\ w_disp w' = Some dp /\ w_reg w' = Some g /\
  w_reward w' = Some (index_updated r (bal e A_reward bd + (X_b - kb))) /\
  (exists h', w_hub w' = Some h' /\
     h_cfg h' = h_cfg h /\ h_params h' = h_params h /\ h_batch h' = h_batch h /\
     h_wait h' = h_wait h /\ h_hist h' = h_hist h /\ h_oldwait h' = h_oldwait h /\
     h_newowner h' = h_newowner h /\
     (rb = 0 -> h_state h' = touch_lim (h_state h) now) /\
     (rb <> 0 -> exists s1,
        query_actual_state w A_hub h = Some s1 /\
        h_state h' = mkHubState (hs_ber s1) (rate_of (hs_bst s1 + rb) (claims_st h ts))
                                (hs_bb s1) (hs_bst s1 + rb) now
                                (hs_phb (h_state h)) (hs_lut (h_state h)) (hs_lpb (h_state h)))) /\
  bal e' A_disp bd = 0 /\ bal e' A_disp usei = 0 /\
  (forall d, bal e' A_hub d = bal e A_hub d) /\
  bal e' A_reward bd = bal e A_reward bd + (X_b - kb) /\
  bal e' keeper bd = bal e1 keeper bd + kb /\ bal e' keeper usei = bal e1 keeper usei + ks /\
  (forall a d, a <> A_disp -> a <> A_swap -> a <> keeper -> a <> A_reward -> bal e' a d = bal e a d) /\
  delegated e' A_hub = delegated e A_hub + rb /\
  (forall y, y <> A_hub -> delegated e' y = delegated e y) /\
  (forall v d, In v (del_vals e A_hub) -> In d DENOMS -> pending e' A_hub v d = 0) /\
  e_unb e' = e_unb e /\ e_now e' = now.

(** the transaction-level theorem with its invariant premises discharged *)
Lemma IndexHist_update_inv w sender :
  IndexHist_WdInv w -> PInv w -> IndexHist_RegSorted w -> RWInv w ->
  IndexCfgNow w -> IndexEnvNow w sender ->
  exists h r dp g tb ts w1 w' tr,
    w_hub w = Some h /\ w_reward w = Some r /\ w_disp w = Some dp /\ w_reg w = Some g /\
    w_bsei w = Some tb /\ w_stsei w = Some ts /\
    pre_dispatch w sender = Some w1 /\ IndexHist_pre_state w h r dp g tb ts w1 /\
    step w (OTx sender A_hub (WHub (HUpdateGlobal 0)) []) = (w', (true, tr)) /\
    IndexHist_end_state w h r dp g tb ts w1 w'.
Proof.
  intros HWd HP HRs HRw HC (HS & HE1 & HR & HX).
  destruct (IndexHist_premises_inv w HWd HP HRs HRw HC) as (HW & HRW & HRD & HIW & HSol).
  destruct (Wired_inv w HW) as (h & r & dp & g & tb & ts & Eh & Er & Ed & Eg & Eb & Es & _).
  destruct (update_global_index_effect w sender h r dp g tb ts HW HRW HRD HIW HS HE1 HSol HR
              Eh Er Ed Eg Eb Es) as (w1 & Hpre & T).
  cbv zeta in T.
  destruct T as (A1 & A2 & A3 & A4 & A5 & A6 & A7 & A8 & A9 & A10 & A11 & T).
  destruct (HX w1 dp Hpre Ed) as (B1 & B2 & B3).
  destruct (T B1 B2 B3) as (w' & tr & Hrun & Hend).
  exists h, r, dp, g, tb, ts, w1, w', tr.
  do 6 (split; [assumption|]). split; [exact Hpre|].
  split. { unfold IndexHist_pre_state. cbv zeta. repeat (split; [assumption|]). assumption. }
  split.
  - cbn [step]. change (MWasm A_hub (WHub (HUpdateGlobal 0)) []) with root_msg. rewrite Hrun. reflexivity.
  - exact Hend.
Qed.

Theorem IndexHist_update_global_index_reachable d0 ut ops sender :
  user_roots ops -> always (REnv d0) ops (empty_world ut) ->
  let w := run_ops ops (empty_world ut) in
  IndexCfgNow w -> IndexEnvNow w sender ->
  exists h r dp g tb ts w1 w' tr,
    w_hub w = Some h /\ w_reward w = Some r /\ w_disp w = Some dp /\ w_reg w = Some g /\
    w_bsei w = Some tb /\ w_stsei w = Some ts /\
    pre_dispatch w sender = Some w1 /\ IndexHist_pre_state w h r dp g tb ts w1 /\
    step w (OTx sender A_hub (WHub (HUpdateGlobal 0)) []) = (w', (true, tr)) /\
    IndexHist_end_state w h r dp g tb ts w1 w'.
Proof.
  intros Hur HRE w HC HN.
  apply IndexHist_update_inv;
    [apply IndexHist_WdInv_reachable | apply PInv_reachable | apply IndexHist_RegSorted_reachable
    | apply (rwinv_from_empty d0); [apply user_roots_no_reward; exact Hur | exact HRE]
    | exact HC | exact HN].
Qed.

(** success flag only *)
Corollary IndexHist_update_succeeds d0 ut ops sender :
  user_roots ops -> always (REnv d0) ops (empty_world ut) ->
  let w := run_ops ops (empty_world ut) in
  IndexCfgNow w -> IndexEnvNow w sender ->
  fst (snd (step w (OTx sender A_hub (WHub (HUpdateGlobal 0)) []))) = true.
Proof.
  intros Hur HRE w HC HN.
  destruct (IndexHist_update_global_index_reachable d0 ut ops sender Hur HRE HC HN)
    as (h & r & dp & g & tb & ts & w1 & w' & tr & _ & _ & _ & _ & _ & _ & _ & _ & Hs & _).
  fold w in Hs. rewrite Hs. reflexivity.
Qed.

(** ** 4. corollaries over histories *)

(** no reward coin is left behind in the dispatcher *)
Theorem IndexHist_nothing_left d0 ut ops sender :
  user_roots ops -> always (REnv d0) ops (empty_world ut) ->
  let w := run_ops ops (empty_world ut) in
  IndexCfgNow w -> IndexEnvNow w sender ->
  let w' := fst (step w (OTx sender A_hub (WHub (HUpdateGlobal 0)) [])) in
  forall dp, w_disp w = Some dp ->
    bal (w_env w') A_disp (dp_bd dp) = 0 /\ bal (w_env w') A_disp usei = 0 /\
    forall v d, In v (del_vals (w_env w) A_hub) -> In d DENOMS -> pending (w_env w') A_hub v d = 0.
Proof.
  intros Hur HRE w HC HN w' dp0 Ed0.
  destruct (IndexHist_update_global_index_reachable d0 ut ops sender Hur HRE HC HN)
    as (h & r & dp & g & tb & ts & w1 & w2 & tr & _ & _ & Ed & _ & _ & _ & _ & _ & Hs & Hend).
  fold w in Ed, Hs, Hend. unfold w'. rewrite Hs. cbn [fst].
  assert (dp0 = dp) by congruence. subst dp0.
  unfold IndexHist_end_state in Hend. cbv zeta in Hend.
  destruct Hend as (_ & _ & _ & _ & _ & _ & Z1 & Z2 & _ & _ & _ & _ & _ & _ & _ & Z3 & _).
  split; [exact Z1|]. split; [exact Z2|exact Z3].
Qed.

(** the hub's own liquid balance (every coin), its configuration and parameters, the open batch, the
    batch history, both wait lists and the chain's unbonding entries are unaffected *)
Theorem IndexHist_hub_and_unbonders_untouched d0 ut ops sender :
  user_roots ops -> always (REnv d0) ops (empty_world ut) ->
  let w := run_ops ops (empty_world ut) in
  IndexCfgNow w -> IndexEnvNow w sender ->
  let w' := fst (step w (OTx sender A_hub (WHub (HUpdateGlobal 0)) [])) in
  (forall d, bal (w_env w') A_hub d = bal (w_env w) A_hub d) /\
  e_unb (w_env w') = e_unb (w_env w) /\
  exists h h', w_hub w = Some h /\ w_hub w' = Some h' /\
    h_cfg h' = h_cfg h /\ h_params h' = h_params h /\ h_batch h' = h_batch h /\
    h_wait h' = h_wait h /\ h_hist h' = h_hist h /\ h_oldwait h' = h_oldwait h.
Proof.
  intros Hur HRE w HC HN w'.
  destruct (IndexHist_update_global_index_reachable d0 ut ops sender Hur HRE HC HN)
    as (h & r & dp & g & tb & ts & w1 & w2 & tr & Eh & _ & _ & _ & _ & _ & _ & _ & Hs & Hend).
  fold w in Eh, Hs, Hend. unfold w'. rewrite Hs. cbn [fst].
  unfold IndexHist_end_state in Hend. cbv zeta in Hend.
  destruct Hend as (_ & _ & _ & _ & _ & (h' & Eh' & G1 & G2 & G3 & G4 & G5 & G6 & _) & _ & _ & Z3
                    & _ & _ & _ & _ & _ & _ & _ & Z4 & _).
  split; [exact Z3|]. split; [exact Z4|].
  exists h, h'. repeat (split; [assumption|]). assumption.
Qed.

(** both token ledgers are unchanged (nothing is minted); the stake re-bonded is exactly what the hub's
    delegations grew by; the bSei pool and the bSei rate change only by the slashing synchronisation
    [query_actual_state] (not at all when nothing is re-bonded); the stSei pool grows by the
    re-bonded amount and the stSei rate becomes (pool + re-bonded) / claims *)
Theorem IndexHist_pools_and_tokens d0 ut ops sender :
  user_roots ops -> always (REnv d0) ops (empty_world ut) ->
  let w := run_ops ops (empty_world ut) in
  IndexCfgNow w -> IndexEnvNow w sender ->
  let w' := fst (step w (OTx sender A_hub (WHub (HUpdateGlobal 0)) [])) in
  w_bsei w' = w_bsei w /\ w_stsei w' = w_stsei w /\
  exists h h' ts rb, w_hub w = Some h /\ w_hub w' = Some h' /\ w_stsei w = Some ts /\
    delegated (w_env w') A_hub = delegated (w_env w) A_hub + rb /\
    (rb = 0 -> hs_bb (h_state h') = hs_bb (h_state h) /\ hs_bst (h_state h') = hs_bst (h_state h) /\
               hs_ber (h_state h') = hs_ber (h_state h) /\ hs_ser (h_state h') = hs_ser (h_state h)) /\
    (rb <> 0 -> exists s1, query_actual_state w A_hub h = Some s1 /\
               hs_bb (h_state h') = hs_bb s1 /\ hs_ber (h_state h') = hs_ber s1 /\
               hs_bst (h_state h') = hs_bst s1 + rb /\
               hs_ser (h_state h') = rate_of (hs_bst s1 + rb) (claims_st h ts)).
Proof.
  intros Hur HRE w HC HN w'.
  destruct (IndexHist_update_global_index_reachable d0 ut ops sender Hur HRE HC HN)
    as (h & r & dp & g & tb & ts & w1 & w2 & tr & Eh & _ & _ & _ & Eb & Es & _ & _ & Hs & Hend).
  fold w in Eh, Eb, Es, Hs, Hend. unfold w'. rewrite Hs. cbn [fst].
  unfold IndexHist_end_state in Hend. cbv zeta in Hend.
  destruct Hend as (Eb' & Es' & _ & _ & _ & (h' & Eh' & _ & _ & _ & _ & _ & _ & _ & G8 & G9) & _ & _ & _
                    & _ & _ & _ & _ & Z5 & _).
  split; [congruence|]. split; [congruence|].
  exists h, h', ts. eexists. split; [exact Eh|]. split; [exact Eh'|]. split; [exact Es|].
  split; [exact Z5|]. split.
  - intros E. rewrite (G8 E). repeat split.
  - intros E. destruct (G9 E) as (s1 & Hq & Hst). exists s1. split; [exact Hq|]. rewrite Hst. repeat split.
Qed.

(** composing with C14 ([RCore]: total = sum of balances, holder indices <= global index) and C16
    ([Mirror]: the reward contract's total is the bSei supply, <= 1e18 by [IndexE1]): the reward
    contract ends with recorded balance = real balance, and the holders' total accrued reward (in
    18-decimal atomics) grows by (coins not yet indexed + coins delivered by this update) minus the
    division remainder, which is less than ONE base unit; with no bSei in existence the state is
    unchanged (the coins wait for the next update) *)
Theorem IndexHist_holders_accrual d0 ut ops sender :
  user_roots ops -> always (REnv d0) ops (empty_world ut) ->
  always MirrorEnv ops (empty_world ut) -> insts_fresh ops (empty_world ut) ->
  let w := run_ops ops (empty_world ut) in
  IndexCfgNow w -> IndexEnvNow w sender ->
  let w' := fst (step w (OTx sender A_hub (WHub (HUpdateGlobal 0)) [])) in
  forall r dp w1, w_reward w = Some r -> w_disp w = Some dp -> pre_dispatch w sender = Some w1 ->
  let bd := dp_bd dp in
  let X_b := bal (w_env w1) A_disp bd in
  let delivered := X_b - X_b * dp_rate dp / D in
  let backlog := bal (w_env w) A_reward bd - rw_prev r in
  bal (w_env w') A_reward bd = bal (w_env w) A_reward bd + delivered /\
  exists r', w_reward w' = Some r' /\
    (rw_total r = 0 -> r' = r) /\
    (rw_total r <> 0 ->
       rw_prev r' = bal (w_env w') A_reward bd /\ rw_total r' = rw_total r /\
       sum_acc r' <= sum_acc r + (backlog + delivered) * D /\
       sum_acc r + (backlog + delivered) * D < sum_acc r' + D).
Proof.
  intros Hur HRE HME HF w HC HN w' r0 dp0 w10 Er0 Ed0 Hpre0.
  pose proof (always_final _ _ _ (mirror_genesis ut ops HME (user_roots_ops_ok ops _ Hur HF))) as HM.
  pose proof (rwinv_from_empty d0 ut ops (user_roots_no_reward ops Hur) HRE) as HRw.
  fold w in HM, HRw.
  destruct (IndexHist_update_global_index_reachable d0 ut ops sender Hur HRE HC HN)
    as (h & r & dp & g & tb & ts & w1 & w2 & tr & Eh & Er & Ed & _ & Eb & Es & Hpre & _ & Hs & Hend).
  fold w in Eh, Er, Ed, Eb, Es, Hpre, Hs, Hend. unfold w'. rewrite Hs. cbn [fst].
  assert (r0 = r) by congruence. assert (dp0 = dp) by congruence. assert (w10 = w1) by congruence.
  subst r0 dp0 w10. cbv zeta.
  unfold IndexHist_end_state in Hend. cbv zeta in Hend.
  destruct Hend as (_ & _ & _ & _ & Er' & _ & _ & _ & _ & Z4 & _).
  split; [exact Z4|].
  destruct (HRw r Er) as [HCore Hsol].
  assert (Hbd : rw_denom r = dp_bd dp).
  { destruct HC as (_ & HRW & _). unfold RewardWired in HRW. rewrite Er, Ed in HRW. tauto. }
  rewrite Hbd in Hsol.
  assert (Htot : rw_total r <= D).
  { destruct (HM tb r Eb Er) as [_ Ht]. destruct HN as (_ & HE1 & _).
    unfold IndexE1 in HE1. rewrite Eh, Er, Eb, Es in HE1. cbv zeta in HE1.
    destruct HE1 as (_ & _ & Hcb & _). unfold claims_b, LIM in Hcb. lia. }
  eexists. split; [exact Er'|].
  set (bank := bal (w_env w) A_reward (dp_bd dp) +
               (bal (w_env w1) A_disp (dp_bd dp) - bal (w_env w1) A_disp (dp_bd dp) * dp_rate dp / D)) in *.
  unfold index_updated. split.
  - intros E. rewrite E. reflexivity.
  - intros E. apply N.eqb_neq in E. rewrite E. apply N.eqb_neq in E.
    change (set_rw_state r (rw_gi r + (bank - rw_prev r) * D / rw_total r) (rw_total r) bank)
      with (update_state r bank).
    destruct HCore as (_ & H2 & H3 & _).
    split; [rewrite Z4; reflexivity|]. split; [reflexivity|].
    rewrite (sum_acc_update r bank H3), <- H2.
    pose proof (index_step_mul r bank E) as Hm.
    pose proof (N.mod_lt ((bank - rw_prev r) * D) (rw_total r) E) as Hlt.
    assert (Hb : bank - rw_prev r =
                 bal (w_env w) A_reward (dp_bd dp) - rw_prev r +
                 (bal (w_env w1) A_disp (dp_bd dp) - bal (w_env w1) A_disp (dp_bd dp) * dp_rate dp / D))
      by (unfold bank; lia).
    rewrite <- Hb.
    set (q := index_step r bank * rw_total r) in *. set (m := ((bank - rw_prev r) * D) mod rw_total r) in *.
    set (t := (bank - rw_prev r) * D) in *. clearbody q m t. clear - Hm Hlt Htot. split; lia.
Qed.

(** ** the predicates of Props/C19h.v, unfolded *)
Lemma IndexHist_def_IndexCfgNow : forall w, IndexCfgNow w <->
  Wired w /\ RewardWired w /\
  match w_disp w, w_reg w with
  | Some d, Some g =>
      dp_swap d = A_swap /\ dp_oracle d = A_oracle /\
      dp_keeper d <> A_disp /\ dp_keeper d <> A_hub /\ dp_keeper d <> A_reward /\
      rg_vals g <> [] /\ (forall v, In v (rg_vals g) -> is_val v = true)
  | _, _ => False
  end.
Proof. intros w. unfold IndexCfgNow. tauto. Qed.

Lemma IndexHist_def_IndexEnvNow : forall w sender, IndexEnvNow w sender <->
  StubsOk (w_env w) /\ IndexE1 w /\ HubReady w sender /\
  forall w1 dp, pre_dispatch w sender = Some w1 -> w_disp w = Some dp ->
    bal (w_env w1) A_disp (dp_bd dp) <= LIM /\ bal (w_env w1) A_disp usei <= LIM /\
    ~ Known_F2 (dp_rate dp) (bal (w_env w1) A_disp (dp_bd dp)) (bal (w_env w1) A_disp usei).
Proof. intros w sender. unfold IndexEnvNow. tauto. Qed.

Lemma IndexHist_def_pre_state : forall w h r dp g tb ts w1,
  IndexHist_pre_state w h r dp g tb ts w1 <->
  let e := w_env w in
  let e1 := w_env w1 in
  w_hub w1 = Some (set_h_state h (touch_lim (h_state h) (e_now e))) /\ w_reward w1 = Some r /\
  w_disp w1 = Some dp /\ w_reg w1 = Some g /\ w_bsei w1 = Some tb /\ w_stsei w1 = Some ts /\
  e_del e1 = e_del e /\ e_unb e1 = e_unb e /\ e_now e1 = e_now e /\
  (forall v d, In v (del_vals e A_hub) -> In d DENOMS -> pending e1 A_hub v d = 0) /\
  (forall a d, a <> A_disp -> a <> A_swap -> bal e1 a d = bal e a d).
Proof. intros. unfold IndexHist_pre_state. split; intros H; exact H. Qed.

Lemma IndexHist_def_end_state : forall w h r dp g tb ts w1 w',
  IndexHist_end_state w h r dp g tb ts w1 w' <->
  let e := w_env w in
  let now := e_now e in
  let bd := dp_bd dp in
  let keeper := dp_keeper dp in
  let e1 := w_env w1 in
  let X_b := bal e1 A_disp bd in
  let X_st := bal e1 A_disp usei in
  let kb := X_b * dp_rate dp / D in
  let ks := X_st * dp_rate dp / D in
  let rb := X_st - ks in
  let e' := w_env w' in
  w_bsei w' = Some tb /\ w_stsei w' = Some ts /\ w_disp w' = Some dp /\ w_reg w' = Some g /\
  w_reward w' = Some (index_updated r (bal e A_reward bd + (X_b - kb))) /\
  (exists h', w_hub w' = Some h' /\
     h_cfg h' = h_cfg h /\ h_params h' = h_params h /\ h_batch h' = h_batch h /\
     h_wait h' = h_wait h /\ h_hist h' = h_hist h /\ h_oldwait h' = h_oldwait h /\
     h_newowner h' = h_newowner h /\
     (rb = 0 -> h_state h' = touch_lim (h_state h) now) /\
     (rb <> 0 -> exists s1,
        query_actual_state w A_hub h = Some s1 /\
        h_state h' = mkHubState (hs_ber s1) (rate_of (hs_bst s1 + rb) (claims_st h ts))
                                (hs_bb s1) (hs_bst s1 + rb) now
                                (hs_phb (h_state h)) (hs_lut (h_state h)) (hs_lpb (h_state h)))) /\
  bal e' A_disp bd = 0 /\ bal e' A_disp usei = 0 /\
  (forall d, bal e' A_hub d = bal e A_hub d) /\
  bal e' A_reward bd = bal e A_reward bd + (X_b - kb) /\
  bal e' keeper bd = bal e1 keeper bd + kb /\ bal e' keeper usei = bal e1 keeper usei + ks /\
  (forall a d, a <> A_disp -> a <> A_swap -> a <> keeper -> a <> A_reward -> bal e' a d = bal e a d) /\
  delegated e' A_hub = delegated e A_hub + rb /\
  (forall y, y <> A_hub -> delegated e' y = delegated e y) /\
  (forall v d, In v (del_vals e A_hub) -> In d DENOMS -> pending e' A_hub v d = 0) /\
  e_unb e' = e_unb e /\ e_now e' = now.
Proof. intros. unfold IndexHist_end_state. split; intros H; exact H. Qed.

(** ** 5. non-vacuity *)

(** closed side conditions by computation *)
Ltac ih_le := apply N.leb_le; vm_compute; reflexivity.
Ltac ih_lt := apply N.ltb_lt; vm_compute; reflexivity.

(** [always (REnv d0)] of a concrete history (any length of the reward contract's swap list) *)
Ltac ih_renv :=
  cbn [always app];
  repeat (split; [apply renv_check; vm_compute; try exact I;
                  repeat split; try reflexivity;
                  let X := fresh "X" in intros X; repeat (destruct X as [X|X]; [discriminate X|]); exact X|]);
  exact I.

(** [IndexCfgNow] of a literal world whose registry has at most four validators *)
Ltac ih_cfg :=
  split; [unfold Wired; cbn; repeat split|];
  split; [unfold RewardWired; cbn; split; [reflexivity|]; split; [discriminate|];
          let H := fresh in intros H; cbn in H;
          repeat (destruct H as [H|H]; [discriminate H|]); exact H|];
  cbn [w_disp w_reg dp_swap dp_oracle dp_keeper rg_vals];
  split; [reflexivity|]; split; [reflexivity|];
  split; [discriminate|]; split; [discriminate|]; split; [discriminate|];
  split; [discriminate|];
  let v := fresh "v" in let Hv := fresh "Hv" in
  intros v Hv; cbn in Hv; repeat (destruct Hv as [<-|Hv]; [reflexivity|]); contradiction.

(** *** 5a. the history behind [W_ok] of Proofs/IndexP.v: deploy, wire through the hub's UpdateConfig,
    one bSei bond and one stSei bond, 50000 usei accrue at validator 0 and 7000 uusd at validator 1 *)
Definition IndexHist_r5 : N := 50000000000000000.

Definition IndexHist_ops1 : list op :=
  index_setup IndexHist_r5 ++ [OAccrue 0 usei 50000; OAccrue 1 uusd 7000].

Lemma IndexHist_ops1_world : run_ops IndexHist_ops1 (empty_world 100) = W_ok.
Proof. unfold W_ok, index_world, IndexHist_ops1, IndexHist_r5. reflexivity. Qed.

Lemma IndexHist_ops1_roots : user_roots IndexHist_ops1.
Proof. vm_compute. reflexivity. Qed.

Lemma IndexHist_ops1_renv : always (REnv uusd) IndexHist_ops1 (empty_world 100).
Proof. unfold IndexHist_ops1, index_setup. ih_renv. Qed.

Lemma IndexHist_W_ok_cfg : IndexCfgNow W_ok.
Proof. rewrite W_ok_eq. unfold W_ok_lit, IndexCfgNow. ih_cfg. Qed.

Lemma IndexHist_W_ok_pre :
  option_map (fun w1 => (bal (w_env w1) A_disp uusd, bal (w_env w1) A_disp usei)) (pre_dispatch W_ok 11)
  = Some (19000, 38000).
Proof. vm_compute. reflexivity. Qed.

Lemma IndexHist_W_ok_disp :
  option_map (fun d => (dp_bd d, dp_rate d)) (w_disp W_ok) = Some (uusd, IndexHist_r5).
Proof. vm_compute. reflexivity. Qed.

Lemma IndexHist_W_ok_env : IndexEnvNow W_ok 11.
Proof.
  split; [|split; [|split]].
  - rewrite W_ok_eq. unfold W_ok_lit, StubsOk. cbn [w_env e_swapmode e_oraclemode e_price].
    split; [reflexivity|]. split; [reflexivity|]. split; [ih_lt | ih_le].
  - rewrite W_ok_eq. unfold W_ok_lit, IndexE1. cbn [w_hub w_reward w_bsei w_stsei w_env].
    split; [ih_le|]. split; [ih_le|]. split; [ih_le|]. split; [ih_le|].
    split; [|split; ih_le].
    intros d. eapply N.le_trans.
    + apply N.add_le_mono.
      * apply (bal_bound_b _ 10000000). vm_compute. reflexivity.
      * apply (pend_total_bound_b _ 50000). vm_compute. reflexivity.
    + ih_le.
  - rewrite W_ok_eq. unfold W_ok_lit, HubReady. cbn [w_hub].
    split; [reflexivity|]. split; [ih_lt | left; reflexivity].
  - intros w1 dp Hpre Ed.
    pose proof IndexHist_W_ok_pre as Hb. rewrite Hpre in Hb. cbn [option_map] in Hb.
    pose proof IndexHist_W_ok_disp as Hd. rewrite Ed in Hd. cbn [option_map] in Hd.
    inversion Hd as [[Hbd Hrate]]. rewrite Hbd in *. inversion Hb as [[Hx1 Hx2]].
    rewrite Hx1, Hx2, Hrate.
    split; [ih_le|]. split; [ih_le|].
    intros [[_ [H|H]]|[_ H]]; vm_compute in H; discriminate H.
Qed.

(** every hypothesis of the capstone holds for this history; the success of the updater's
    UpdateGlobalIndex, the empty dispatcher and the unchanged liquid balance of the hub are obtained
    from the theorems *)
Example IndexHist_nonvacuous_1 :
  user_roots IndexHist_ops1 /\ always (REnv uusd) IndexHist_ops1 (empty_world 100) /\
  let w := run_ops IndexHist_ops1 (empty_world 100) in
  IndexCfgNow w /\ IndexEnvNow w 11 /\
  fst (snd (step w (OTx 11 A_hub (WHub (HUpdateGlobal 0)) []))) = true /\
  let w' := fst (step w (OTx 11 A_hub (WHub (HUpdateGlobal 0)) [])) in
  bal (w_env w') A_disp uusd = 0 /\ bal (w_env w') A_disp usei = 0 /\
  (forall d, bal (w_env w') A_hub d = bal (w_env w) A_hub d).
Proof.
  split; [exact IndexHist_ops1_roots|]. split; [exact IndexHist_ops1_renv|]. cbv zeta.
  pose proof (IndexHist_update_succeeds uusd 100 IndexHist_ops1 11 IndexHist_ops1_roots IndexHist_ops1_renv) as T1.
  pose proof (IndexHist_nothing_left uusd 100 IndexHist_ops1 11 IndexHist_ops1_roots IndexHist_ops1_renv) as T2.
  pose proof (IndexHist_hub_and_unbonders_untouched uusd 100 IndexHist_ops1 11 IndexHist_ops1_roots
                IndexHist_ops1_renv) as T3.
  cbv zeta in T1, T2, T3. rewrite IndexHist_ops1_world in *.
  pose proof IndexHist_W_ok_cfg as HC. pose proof IndexHist_W_ok_env as HN.
  split; [exact HC|]. split; [exact HN|]. split; [exact (T1 HC HN)|].
  pose proof IndexHist_W_ok_disp as Hd.
  destruct (w_disp W_ok) as [dp|] eqn:Ed; [|discriminate Hd]. cbn [option_map] in Hd.
  injection Hd as Hbd Hrate.
  destruct (T2 HC HN dp eq_refl) as (Z1 & Z2 & _). rewrite Hbd in Z1.
  split; [exact Z1|]. split; [exact Z2|]. exact (proj1 (T3 HC HN)).
Qed.

(** *** 5b. a REPEATED update on the deployment [ExitWorld.genesis_ops]: rewards accrue, the updater
    (address 13) runs UpdateGlobalIndex, five seconds pass, rewards accrue again (other validators);
    in the reached world (global index > 0, stSei pool already raised once) the second update
    succeeds — by the capstone *)
Definition IndexHist_ops2 : list op :=
  genesis_ops ++
  [ OAccrue 0 usei 50000; OAccrue 1 uusd 7000;
    OTx updater A_hub (WHub (HUpdateGlobal 0)) [];
    OAdvance 5;
    OAccrue 2 usei 80000; OAccrue 0 uusd 900 ].

Definition IndexHist_w2 : world := run_ops IndexHist_ops2 (empty_world 100).
Definition IndexHist_w2_lit : world := Eval vm_compute in IndexHist_w2.

Lemma IndexHist_w2_eq : run_ops IndexHist_ops2 (empty_world 100) = IndexHist_w2_lit.
Proof. vm_compute. reflexivity. Qed.

Lemma IndexHist_ops2_roots : user_roots IndexHist_ops2.
Proof. vm_compute. reflexivity. Qed.

Lemma IndexHist_ops2_renv : always (REnv uusd) IndexHist_ops2 (empty_world 100).
Proof. unfold IndexHist_ops2, genesis_ops. xh_renv. Qed.

Lemma IndexHist_ops2_mirror_env : always MirrorEnv IndexHist_ops2 (empty_world 100).
Proof. xh_mirror_env. Qed.

Lemma IndexHist_ops2_insts_fresh : insts_fresh IndexHist_ops2 (empty_world 100).
Proof. xh_ops_ok. Qed.

Lemma IndexHist_w2_cfg : IndexCfgNow IndexHist_w2_lit.
Proof. unfold IndexHist_w2_lit, IndexCfgNow. ih_cfg. Qed.

Lemma IndexHist_w2_pre :
  option_map (fun w1 => (bal (w_env w1) A_disp uusd <=? LIM) && (bal (w_env w1) A_disp usei <=? LIM) &&
                        (0 <? bal (w_env w1) A_disp uusd * (D / 20) / D) &&
                        (bal (w_env w1) A_disp uusd * (D / 20) / D <? bal (w_env w1) A_disp uusd) &&
                        (0 <? bal (w_env w1) A_disp usei * (D / 20) / D))
             (pre_dispatch IndexHist_w2_lit updater)
  = Some true.
Proof. vm_compute. reflexivity. Qed.

Lemma IndexHist_w2_disp :
  option_map (fun d => (dp_bd d, dp_rate d)) (w_disp IndexHist_w2_lit) = Some (uusd, D / 20).
Proof. vm_compute. reflexivity. Qed.

Lemma IndexHist_w2_env : IndexEnvNow IndexHist_w2_lit updater.
Proof.
  split; [|split; [|split]].
  - unfold IndexHist_w2_lit, StubsOk. cbn [w_env e_swapmode e_oraclemode e_price].
    split; [reflexivity|]. split; [reflexivity|]. split; [ih_lt | ih_le].
  - unfold IndexHist_w2_lit, IndexE1. cbn [w_hub w_reward w_bsei w_stsei w_env].
    split; [ih_le|]. split; [ih_le|]. split; [ih_le|]. split; [ih_le|].
    split; [|split; ih_le].
    intros d. eapply N.le_trans.
    + apply N.add_le_mono.
      * apply (bal_bound_b _ 10000000). vm_compute. reflexivity.
      * apply (pend_total_bound_b _ 80000). vm_compute. reflexivity.
    + ih_le.
  - unfold IndexHist_w2_lit, HubReady. cbn [w_hub].
    split; [reflexivity|]. split; [ih_lt | left; reflexivity].
  - intros w1 dp Hpre Ed.
    pose proof IndexHist_w2_pre as Hb. rewrite Hpre in Hb. cbn [option_map] in Hb.
    pose proof IndexHist_w2_disp as Hd. rewrite Ed in Hd. cbn [option_map] in Hd.
    injection Hd as Hbd Hrate. rewrite Hbd in *. injection Hb as Hb.
    apply andb_true_iff in Hb. destruct Hb as [Hb Hx5].
    apply andb_true_iff in Hb. destruct Hb as [Hb Hx4].
    apply andb_true_iff in Hb. destruct Hb as [Hb Hx3].
    apply andb_true_iff in Hb. destruct Hb as [Hx1 Hx2].
    apply N.leb_le in Hx1. apply N.leb_le in Hx2. apply N.ltb_lt in Hx3. apply N.ltb_lt in Hx4.
    apply N.ltb_lt in Hx5.
    split; [exact Hx1|]. split; [exact Hx2|]. rewrite Hrate.
    intros [[_ [H|H]]|[_ H]]; lia.
Qed.

Example IndexHist_nonvacuous_2 :
  user_roots IndexHist_ops2 /\ always (REnv uusd) IndexHist_ops2 (empty_world 100) /\
  always MirrorEnv IndexHist_ops2 (empty_world 100) /\ insts_fresh IndexHist_ops2 (empty_world 100) /\
  let w := run_ops IndexHist_ops2 (empty_world 100) in
  IndexCfgNow w /\ IndexEnvNow w updater /\
  (exists r, w_reward w = Some r /\ 0 < rw_gi r /\ 0 < rw_total r) /\
  fst (snd (step w (OTx updater A_hub (WHub (HUpdateGlobal 0)) []))) = true.
Proof.
  split; [exact IndexHist_ops2_roots|]. split; [exact IndexHist_ops2_renv|].
  split; [exact IndexHist_ops2_mirror_env|]. split; [exact IndexHist_ops2_insts_fresh|]. cbv zeta.
  pose proof (IndexHist_update_succeeds uusd 100 IndexHist_ops2 updater IndexHist_ops2_roots
                IndexHist_ops2_renv) as T1.
  cbv zeta in T1. rewrite IndexHist_w2_eq in *.
  pose proof IndexHist_w2_cfg as HC. pose proof IndexHist_w2_env as HN.
  split; [exact HC|]. split; [exact HN|]. split; [|exact (T1 HC HN)].
  unfold IndexHist_w2_lit. cbn [w_reward]. eexists. split; [reflexivity|]. cbn [rw_gi rw_total].
  split; ih_lt.
Qed.

(** ** 6. finding F2 can be triggered by a third party (KNOWN FINDING F2, class dust).
    Same deployment as [W_ok], 5 % keeper, NO pending rewards: the updater's UpdateGlobalIndex
    succeeds.  After ONE base unit of uusd (or usei, or uatom) has been sent to the dispatcher's
    address — a plain bank transfer any account can make, modelled by [OGift] — the same transaction
    FAILS although stake is bonded and the hub is not paused: the dispatcher then holds 1 unit of the
    reward coin, floor(1 * 5 %) = 0, and it emits a zero-coin bank send.  The pre-dispatch balances
    are in the class [Known_F2].  A coin the dispatcher does not know (ujunk) has no effect, and with
    enough genuine rewards pending the gift is harmless. *)
Lemma IndexHist_F2_gift_witness :
  let w0 := index_world IndexHist_r5 [] in
  let w := index_world IndexHist_r5 [OGift A_disp uusd 1] in
  Wired w0 /\ HubReady w0 11 /\ fst (snd (step w0 ugi_op)) = true /\
  Wired w /\ HubReady w 11 /\ fst (snd (step w ugi_op)) = false /\ fst (step w ugi_op) = w /\
  (exists w1, pre_dispatch w 11 = Some w1 /\
     Known_F2 IndexHist_r5 (bal (w_env w1) A_disp uusd) (bal (w_env w1) A_disp usei)) /\
  fst (snd (step (index_world IndexHist_r5 [OGift A_disp usei 1]) ugi_op)) = false /\
  fst (snd (step (index_world IndexHist_r5 [OGift A_disp uatom 1]) ugi_op)) = false /\
  fst (snd (step (index_world IndexHist_r5 [OGift A_disp ujunk 1]) ugi_op)) = true /\
  fst (snd (step (index_world IndexHist_r5 [OGift A_disp uusd 1; OAccrue 0 usei 50000]) ugi_op)) = true.
Proof.
  cbv zeta.
  split; [vm_compute; repeat split|].
  split; [vm_compute; split; [reflexivity|]; split; [reflexivity|left; reflexivity]|].
  split; [vm_compute; reflexivity|].
  split; [vm_compute; repeat split|].
  split; [vm_compute; split; [reflexivity|]; split; [reflexivity|left; reflexivity]|].
  split; [vm_compute; reflexivity|]. split; [vm_compute; reflexivity|].
  split.
  { eexists. split; [vm_compute; reflexivity|].
    left. split; [vm_compute; reflexivity | left; vm_compute; reflexivity]. }
  split; [vm_compute; reflexivity|]. split; [vm_compute; reflexivity|].
  split; vm_compute; reflexivity.
Qed.
