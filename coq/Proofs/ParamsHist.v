(** * ParamsHist: TRANSACTION / HISTORY level capstone of C20 (stored parameters and configuration).
    Helper files: Proofs/ParamsHistBase.v (views, handler-level effects, "only the root of a
    transaction can touch configuration"), Proofs/ParamsHistTx.v (exact world after a successful root
    configuration transaction, ranges at acceptance, rejections, instantiate), Proofs/ParamsHistEx.v
    (non-vacuity examples and witnesses).

    All theorems hold for EVERY world and EVERY operation of the alphabet of Model/Exec.v; no
    reachability / invariant hypothesis is needed.

    PART 1 (denominations).
    - [underlying_step], [stdenom_step]: [step w o] keeps the hub's underlying coin denomination unless
      [o] resets the world or (re-)instantiates the hub ([keeps_hub]); it keeps the dispatcher's stSei
      reward denomination unless [o] resets the world or (re-)instantiates the dispatcher ([keeps_disp]);
    - [underlying_history], [stdenom_history]: hence along every history of such operations;
    - [underlying_fixed_by_instantiate], [stdenom_fixed_by_instantiate]: after an accepted instantiate
      and any number of such operations the denomination read is the one of the instantiate message;
      [underlying_failed_instantiate], [stdenom_failed_instantiate]: a rejected instantiate leaves NO
      instance in the model.
    PART 3 (who can change what).
    - [hub_params_step]: the hub's parameter record changes only by reset / hub instantiate, by a root
      UpdateParams signed by the owner (trace = that single message), or by a root
      MigrateUnbondWaitList (anybody; only effect on the record: pause flag [Some true] -> [Some false]);
    - [hub_config_step]: the hub's config record changes only by reset / hub instantiate, a root
      UpdateConfig signed by the owner, or a root AcceptOwnership signed by the nominee (creator only);
    - [disp_config_step], [reward_config_step], [reg_hub_step]: likewise (root owner messages only);
    - [*_changes]: the same read as "if the record differs then ...";
    - [hub_params_op] ... [reg_hub_op]: the operations that can change each record;
      [hub_params_stretch] ... [reg_hub_stretch]: the record is constant along every history that
      contains none of them; [hub_params_stranger_tx]: a transaction not signed by the owner and not a
      migration never changes the hub's parameters, whatever its target and message;
      [hub_params_stranger_history]: nor does any sequence of such transactions signed by addresses
      that are neither owner nor nominee ([stranger_op]), interleaved with every non-transaction
      operation except reset / hub instantiate. *)
From Krp Require Import Tactics Prelude Fixed FMap Types Env Registry Cw20 Reward Dispatcher Hub Exec
     ExecP Hist HubFrame HubAdmin MirrorWire TokenTx AuthHistEmit AuthHistOwn
     ParamsHistBase ParamsHistTx.
Open Scope N_scope.

(** operations that neither reset the world nor (re-)instantiate the dispatcher *)
Definition keeps_disp (o : op) : Prop :=
  match o with OReset _ | OInstDisp _ _ _ _ _ _ _ _ _ _ => False | _ => True end.

Lemma run_ops_cons o ops w : run_ops (o :: ops) w = run_ops ops (fst (step w o)).
Proof. reflexivity. Qed.

(** generic lifting of a step-level frame property to histories *)
Lemma view_history {T} (V : world -> T) (P : op -> Prop) :
  (forall w o, P o -> V (fst (step w o)) = V w) ->
  forall ops w, Forall P ops -> V (run_ops ops w) = V w.
Proof.
  intros Hs. induction ops as [|o ops IH]; intros w HF; [reflexivity|].
  inversion HF as [|? ? Ho HF']; subst. rewrite run_ops_cons, IH by exact HF'. apply Hs. exact Ho.
Qed.

(** * PART 1 — denominations *)

Lemma step_msg_denoms w s m w' out :
  step_msg w s m = Some (w', out) ->
  hub_underlying w' = hub_underlying w /\ disp_std w' = disp_std w.
Proof.
  intros H. apply step_msg_inv in H.
  destruct H as [e' -> _ _ | to wm funds e1 o _ _ Hc _]; [split; reflexivity|].
  call_cases Hc; subst w'; unfold hub_underlying, disp_std;
    cbn [w_hub w_disp set_hub set_reward set_disp set_reg set_bsei set_stsei set_env] in *;
    try (split; reflexivity).
  - rewrite Hw. cbn [option_map]. erewrite hub_execute_underlying by exact He. split; reflexivity.
  - rewrite Hw. cbn [option_map]. erewrite disp_execute_std by exact He. split; reflexivity.
Qed.

Lemma run_denoms fuel w stack tr w' tr' :
  run fuel w stack tr = Some (w', tr') ->
  hub_underlying w' = hub_underlying w /\ disp_std w' = disp_std w.
Proof.
  intros H.
  eapply (run_preserves (fun w1 => hub_underlying w1 = hub_underlying w /\ disp_std w1 = disp_std w));
    [|split; reflexivity|exact H].
  intros w1 s m w2 out [I1 I2] Hs. apply step_msg_denoms in Hs. destruct Hs as [S1 S2].
  split; congruence.
Qed.

Ltac env_ops w :=
  try (destruct (e_now (w_env w) + _ <=? 18446744073));
  try (destruct (ev_slash _ _ _ _ _));
  try (destruct (ev_accrue _ _ _ _ _));
  try (match goal with |- context [?p =? 0] => destruct (p =? 0) end).

Theorem underlying_step w o : keeps_hub o -> hub_underlying (fst (step w o)) = hub_underlying w.
Proof.
  intros Hk. destruct o; cbn [keeps_hub] in Hk; try contradiction; cbn [step]; env_ops w;
    try reflexivity.
  - unfold hub_underlying. destruct (w_hub w) as [h|] eqn:Eh; cbn [fst]; [|rewrite Eh; reflexivity].
    reflexivity.
  - destruct (run tx_fuel w _ []) as [[w1 tr1]|] eqn:E; cbn [fst]; [|reflexivity].
    apply run_denoms in E. tauto.
Qed.

Theorem stdenom_step w o : keeps_disp o -> disp_std (fst (step w o)) = disp_std w.
Proof.
  intros Hk. destruct o; cbn [keeps_disp] in Hk; try contradiction; cbn [step]; env_ops w;
    try reflexivity.
  - destruct (w_hub w) as [h|] eqn:Eh; reflexivity.
  - destruct (run tx_fuel w _ []) as [[w1 tr1]|] eqn:E; cbn [fst]; [|reflexivity].
    apply run_denoms in E. tauto.
Qed.

Theorem underlying_history ops w :
  Forall keeps_hub ops -> hub_underlying (run_ops ops w) = hub_underlying w.
Proof. apply view_history. intros w0 o. apply underlying_step. Qed.

Theorem stdenom_history ops w :
  Forall keeps_disp ops -> disp_std (run_ops ops w) = disp_std w.
Proof. apply view_history. intros w0 o. apply stdenom_step. Qed.

Theorem underlying_fixed_by_instantiate ops1 sender epoch unbonding pegfee thr upd underlying rdenom ops2 w :
  pegfee <= D -> Forall keeps_hub ops2 ->
  hub_underlying (run_ops (ops1 ++ OInstHub sender epoch unbonding pegfee thr upd underlying rdenom :: ops2) w)
  = Some underlying.
Proof.
  intros Hf HF. rewrite run_ops_app, run_ops_cons, underlying_history by exact HF.
  rewrite inst_hub_step. assert (E : (pegfee <=? D) = true) by (apply N.leb_le; exact Hf).
  rewrite E. reflexivity.
Qed.

Theorem underlying_failed_instantiate ops1 sender epoch unbonding pegfee thr upd underlying rdenom ops2 w :
  D < pegfee -> Forall keeps_hub ops2 ->
  hub_underlying (run_ops (ops1 ++ OInstHub sender epoch unbonding pegfee thr upd underlying rdenom :: ops2) w)
  = None.
Proof.
  intros Hf HF. rewrite run_ops_app, run_ops_cons, underlying_history by exact HF.
  rewrite inst_hub_step. assert (E : (pegfee <=? D) = false) by (apply N.leb_gt; exact Hf).
  rewrite E. reflexivity.
Qed.

Theorem stdenom_fixed_by_instantiate ops1 sender hubaddr rewardaddr std bd keeper rate swap oracle denoms ops2 w :
  rate <= D -> Forall keeps_disp ops2 ->
  disp_std (run_ops (ops1 ++ OInstDisp sender hubaddr rewardaddr std bd keeper rate swap oracle denoms :: ops2) w)
  = Some std.
Proof.
  intros Hf HF. rewrite run_ops_app, run_ops_cons, stdenom_history by exact HF.
  rewrite inst_disp_step. assert (E : (rate <=? D) = true) by (apply N.leb_le; exact Hf).
  rewrite E. reflexivity.
Qed.

Theorem stdenom_failed_instantiate ops1 sender hubaddr rewardaddr std bd keeper rate swap oracle denoms ops2 w :
  D < rate -> Forall keeps_disp ops2 ->
  disp_std (run_ops (ops1 ++ OInstDisp sender hubaddr rewardaddr std bd keeper rate swap oracle denoms :: ops2) w)
  = None.
Proof.
  intros Hf HF. rewrite run_ops_app, run_ops_cons, stdenom_history by exact HF.
  rewrite inst_disp_step. assert (E : (rate <=? D) = false) by (apply N.leb_gt; exact Hf).
  rewrite E. reflexivity.
Qed.

(** * PART 3 — parameters and configuration change only through root transactions of the owner *)

(** ** what a root message does to each record *)
Lemma root_hub_params w s tgt m f w1 out :
  step_msg w s (MWasm tgt m f) = Some (w1, out) ->
  hub_params_of w1 = hub_params_of w \/
  (tgt = A_hub /\ exists e u pf t pz rd, m = WHub (HParams e u pf t pz rd)) \/
  (tgt = A_hub /\ exists lim p, m = WHub (HMigrate lim) /\ out = [] /\
     hub_params_of w = Some p /\ hp_paused p = Some true /\
     hub_params_of w1 = Some (set_flag p (Some false))).
Proof.
  intros H. apply step_msg_wasm_inv in H. destruct H as (e1 & o & _ & Hc & ->).
  call_cases Hc; subst w1; unfold hub_params_of;
    cbn [w_hub set_hub set_reward set_disp set_reg set_bsei set_stsei set_env] in *;
    try (left; reflexivity).
  rewrite Hw. cbn [option_map].
  destruct (hub_execute_params_cases _ _ _ _ _ _ _ _ He)
    as [E | [(e & u & pf & t & pz & rd & -> & _) | (lim & -> & -> & Hp & E)]].
  - left. rewrite E. reflexivity.
  - right. left. split; [exact Et|]. subst m. do 6 eexists. reflexivity.
  - right. right. split; [exact Et|]. subst m. exists lim, (h_params h0). rewrite E. auto 6.
Qed.

Lemma root_hub_config w s tgt m f w1 out :
  step_msg w s (MWasm tgt m f) = Some (w1, out) ->
  hub_config_of w1 = hub_config_of w \/
  (tgt = A_hub /\ exists a b c d e f0 g, m = WHub (HConfig a b c d e f0 g)) \/
  (tgt = A_hub /\ m = WHub HAccept /\ out = [] /\ exists h, w_hub w = Some h /\ s = h_newowner h /\
     hub_config_of w1 = Some (set_creator (h_cfg h) s)).
Proof.
  intros H. apply step_msg_wasm_inv in H. destruct H as (e1 & o & _ & Hc & ->).
  call_cases Hc; subst w1; unfold hub_config_of;
    cbn [w_hub set_hub set_reward set_disp set_reg set_bsei set_stsei set_env] in *;
    try (left; reflexivity).
  rewrite Hw. cbn [option_map].
  destruct (hub_execute_cfg_cases _ _ _ _ _ _ _ _ He)
    as [E | [(a & b & c & d & e & f0 & g & -> & _) | (-> & _ & Hs & -> & ->)]].
  - left. rewrite E. reflexivity.
  - right. left. split; [exact Et|]. subst m. do 7 eexists. reflexivity.
  - right. right. split; [exact Et|]. subst m. split; [reflexivity|]. split; [reflexivity|].
    exists h0. split; [reflexivity|]. split; [exact Hs|]. subst s. reflexivity.
Qed.

Definition disp_cfg_msg (dm : disp_msg) : Prop :=
  match dm with
  | DConfig _ _ _ _ _ _ | DSwapContract _ | DSwapDenom _ _ | DOracle _ => True
  | _ => False
  end.

Lemma root_disp_config w s tgt m f w1 out :
  step_msg w s (MWasm tgt m f) = Some (w1, out) ->
  disp_config_of w1 = disp_config_of w \/
  (tgt = A_disp /\ out = [] /\ exists dm dp, m = WDisp dm /\ disp_cfg_msg dm /\
     w_disp w = Some dp /\ s = dp_owner dp).
Proof.
  intros H. apply step_msg_wasm_inv in H. destruct H as (e1 & o & _ & Hc & ->).
  call_cases Hc; subst w1; unfold disp_config_of;
    cbn [w_disp set_hub set_reward set_disp set_reg set_bsei set_stsei set_env] in *;
    try (left; reflexivity).
  rewrite Hw. cbn [option_map]. apply disp_execute_spec in He. subst m.
  destruct dm0; cbn [disp_cfg_msg].
  - left. subst. reflexivity.
  - left. subst. reflexivity.
  - right. destruct He as (Hs & _ & _ & -> & _). split; [exact Et|]. split; [reflexivity|].
    eexists _, _. split; [reflexivity|]. split; [exact I|]. split; [reflexivity|exact Hs].
  - left. destruct He as (_ & _ & ->). reflexivity.
  - left. destruct He as (_ & _ & ->). reflexivity.
  - right. destruct He as (Hs & -> & _). split; [exact Et|]. split; [reflexivity|].
    eexists _, _. split; [reflexivity|]. split; [exact I|]. split; [reflexivity|exact Hs].
  - right. destruct He as (Hs & -> & _). split; [exact Et|]. split; [reflexivity|].
    eexists _, _. split; [reflexivity|]. split; [exact I|]. split; [reflexivity|exact Hs].
  - right. destruct He as (Hs & -> & _). split; [exact Et|]. split; [reflexivity|].
    eexists _, _. split; [reflexivity|]. split; [exact I|]. split; [reflexivity|exact Hs].
Qed.

Definition reward_cfg_msg (rm : reward_msg) : Prop :=
  match rm with RConfig _ _ _ | RSwapDenom _ _ => True | _ => False end.

Lemma root_reward_config w s tgt m f w1 out :
  step_msg w s (MWasm tgt m f) = Some (w1, out) ->
  reward_config_of w1 = reward_config_of w \/
  (tgt = A_reward /\ out = [] /\ exists rm r, m = WReward rm /\ reward_cfg_msg rm /\
     w_reward w = Some r /\ s = rw_owner r).
Proof.
  intros H. apply step_msg_wasm_inv in H. destruct H as (e1 & o & _ & Hc & ->).
  call_cases Hc; subst w1; unfold reward_config_of;
    cbn [w_reward set_hub set_reward set_disp set_reg set_bsei set_stsei set_env] in *;
    try (left; reflexivity).
  rewrite Hw. cbn [option_map]. apply reward_execute_spec in He.
  destruct Em as [-> | (n & -> & ->)].
  - destruct rm0; cbn [reward_cfg_msg];
      try (left; destruct He as (E & _); rewrite E; reflexivity).
    + right. destruct He as (Hs & -> & _). split; [exact Et|]. split; [reflexivity|].
    eexists _, _. split; [reflexivity|]. split; [exact I|]. split; [reflexivity|exact Hs].
    + left. destruct He as (_ & _ & E & _). rewrite E. reflexivity.
    + left. destruct He as (_ & _ & E & _). rewrite E. reflexivity.
    + right. destruct He as (Hs & -> & _). split; [exact Et|]. split; [reflexivity|].
    eexists _, _. split; [reflexivity|]. split; [exact I|]. split; [reflexivity|exact Hs].
  - left. destruct He as (E & _). rewrite E. reflexivity.
Qed.

Lemma root_reg_hub w s tgt m f w1 out :
  step_msg w s (MWasm tgt m f) = Some (w1, out) ->
  reg_hub_of w1 = reg_hub_of w \/
  (tgt = A_reg /\ out = [] /\ exists a g, m = WReg (GConfig (Some a)) /\
     w_reg w = Some g /\ s = rg_owner g /\ reg_hub_of w1 = Some a).
Proof.
  intros H. apply step_msg_wasm_inv in H. destruct H as (e1 & o & _ & Hc & ->).
  call_cases Hc; subst w1; unfold reg_hub_of;
    cbn [w_reg set_hub set_reward set_disp set_reg set_bsei set_stsei set_env] in *;
    try (left; reflexivity).
  rewrite Hw. cbn [option_map]. apply reg_execute_spec in He. subst m.
  destruct gm0; try (left; rewrite He; reflexivity).
  destruct He as (Hs & -> & ->). destruct hub as [a|]; [|left; reflexivity].
  right. split; [exact Et|]. split; [reflexivity|]. exists a, g0. auto 6.
Qed.

(** ** non-transaction operations *)
Lemma reinst_hub_keeps o : ~ reinst CHub o -> keeps_hub o.
Proof. destruct o; cbn; tauto. Qed.

Lemma nontx_hub w o :
  (forall s t m f, o <> OTx s t m f) -> ~ reinst CHub o ->
  hub_params_of (fst (step w o)) = hub_params_of w /\ hub_config_of (fst (step w o)) = hub_config_of w.
Proof.
  intros Hno Hr. destruct o; cbn [reinst] in Hr; try (exfalso; apply Hr; exact I);
    try (exfalso; eapply Hno; reflexivity); cbn [step]; env_ops w; try (split; reflexivity).
  unfold hub_params_of, hub_config_of. destruct (w_hub w) as [h|] eqn:Eh; cbn [fst];
    [|rewrite Eh; split; reflexivity]. split; reflexivity.
Qed.

Lemma nontx_others w o :
  (forall s t m f, o <> OTx s t m f) ->
  (~ reinst CDisp o -> w_disp (fst (step w o)) = w_disp w) /\
  (~ reinst CReward o -> w_reward (fst (step w o)) = w_reward w) /\
  (~ reinst CReg o -> w_reg (fst (step w o)) = w_reg w).
Proof.
  intros Hno. destruct o; try (exfalso; eapply Hno; reflexivity); cbn [step reinst]; env_ops w;
    try (destruct (w_hub w)); cbn [fst];
    (split; [|split]); intros Hr; try reflexivity; exfalso; apply Hr; exact I.
Qed.

Lemma tx_or_not (o : op) :
  (exists s t m f, o = OTx s t m f) \/ (forall s t m f, o <> OTx s t m f).
Proof. destruct o; try (right; intros; discriminate). left. eauto. Qed.

Lemma reinst_dec c o : reinst c o \/ ~ reinst c o.
Proof. destruct o, c; cbn; tauto. Qed.

Lemma step_tx_eq w s tgt m f :
  step w (OTx s tgt m f) = (w, (false, [])) \/
  exists w' tr, step w (OTx s tgt m f) = (w', (true, tr)).
Proof.
  cbn [step]. destruct (run tx_fuel w _ []) as [[w' tr]|]; [right; eauto|left; reflexivity].
Qed.

(** ** hub parameters *)
Theorem hub_params_step w o :
  hub_params_of (fst (step w o)) = hub_params_of w \/
  reinst CHub o \/
  (exists s e u pf t pz rd f, o = OTx s A_hub (WHub (HParams e u pf t pz rd)) f /\
     hub_owner w = Some s /\
     snd (step w o) = (true, [(s, MWasm A_hub (WHub (HParams e u pf t pz rd)) f)])) \/
  (exists s lim f p, o = OTx s A_hub (WHub (HMigrate lim)) f /\
     hub_params_of w = Some p /\ hp_paused p = Some true /\
     hub_params_of (fst (step w o)) = Some (set_flag p (Some false)) /\
     snd (step w o) = (true, [(s, MWasm A_hub (WHub (HMigrate lim)) f)])).
Proof.
  destruct (reinst_dec CHub o) as [Hr|Hr]; [right; left; exact Hr|].
  destruct (tx_or_not o) as [(s & tgt & m & f & ->) | Hno]; [|left; apply nontx_hub; assumption].
  destruct (step_tx_eq w s tgt m f) as [E | (w' & tr & E)]; [left; rewrite E; reflexivity|].
  pose proof (tx_success_root _ _ _ _ _ _ _ E) as (w1 & out & fu & Hs & Hv & _ & _ & Hnil).
  apply static_view_proj in Hv. destruct Hv as (Hv & _).
  destruct (root_hub_params _ _ _ _ _ _ _ Hs)
    as [Es | [(-> & e & u & pf & t & pz & rd & ->) | (-> & lim & p & -> & -> & Hp & Hf & Hp1)]].
  - left. rewrite E. cbn [fst]. congruence.
  - right. right. left. pose proof (hub_params_tx _ _ _ _ _ _ _ _ _ _ _ E)
      as (h & e1 & Hw & Hown & _ & _ & _ & -> & _).
    exists s, e, u, pf, t, pz, rd, f. split; [reflexivity|]. split.
    + unfold hub_owner. rewrite Hw. cbn [option_map]. congruence.
    + rewrite E. reflexivity.
  - right. right. right. destruct (Hnil eq_refl) as [-> ->].
    exists s, lim, f, p. rewrite E. cbn [fst snd]. auto 6.
Qed.

Theorem hub_params_changes w o :
  hub_params_of (fst (step w o)) <> hub_params_of w ->
  reinst CHub o \/
  (exists s e u pf t pz rd f, o = OTx s A_hub (WHub (HParams e u pf t pz rd)) f /\
     hub_owner w = Some s /\
     snd (step w o) = (true, [(s, MWasm A_hub (WHub (HParams e u pf t pz rd)) f)])) \/
  (exists s lim f p, o = OTx s A_hub (WHub (HMigrate lim)) f /\
     hub_params_of w = Some p /\ hp_paused p = Some true /\
     hub_params_of (fst (step w o)) = Some (set_flag p (Some false)) /\
     snd (step w o) = (true, [(s, MWasm A_hub (WHub (HMigrate lim)) f)])).
Proof. intros Hne. destruct (hub_params_step w o) as [E|H]; [contradiction|exact H]. Qed.

(** ** hub config *)
Theorem hub_config_step w o :
  hub_config_of (fst (step w o)) = hub_config_of w \/
  reinst CHub o \/
  (exists s a b c d e f0 g f, o = OTx s A_hub (WHub (HConfig a b c d e f0 g)) f /\
     hub_owner w = Some s /\
     snd (step w o) = (true, (s, MWasm A_hub (WHub (HConfig a b c d e f0 g)) f) ::
                             match a with Some x => [(A_hub, MSetWithdrawAddr x)] | None => [] end)) \/
  (exists s f c, o = OTx s A_hub (WHub HAccept) f /\
     hub_nominee w = Some s /\ hub_config_of w = Some c /\
     hub_config_of (fst (step w o)) = Some (set_creator c s) /\
     snd (step w o) = (true, [(s, MWasm A_hub (WHub HAccept) f)])).
Proof.
  destruct (reinst_dec CHub o) as [Hr|Hr]; [right; left; exact Hr|].
  destruct (tx_or_not o) as [(s & tgt & m & f & ->) | Hno]; [|left; apply nontx_hub; assumption].
  destruct (step_tx_eq w s tgt m f) as [E | (w' & tr & E)]; [left; rewrite E; reflexivity|].
  pose proof (tx_success_root _ _ _ _ _ _ _ E) as (w1 & out & fu & Hs & Hv & _ & _ & Hnil).
  apply static_view_proj in Hv. destruct Hv as (_ & Hv & _).
  destruct (root_hub_config _ _ _ _ _ _ _ Hs)
    as [Es | [(-> & a & b & c & d & e & f0 & g & ->) | (-> & -> & -> & h & Hw & Hn & Hc1)]].
  - left. rewrite E. cbn [fst]. congruence.
  - right. right. left. pose proof (hub_config_tx _ _ _ _ _ _ _ _ _ _ _ _ E)
      as (h & e1 & Hw & Hown & _ & _ & _ & _ & -> & _).
    exists s, a, b, c, d, e, f0, g, f. split; [reflexivity|]. split.
    + unfold hub_owner. rewrite Hw. cbn [option_map]. congruence.
    + rewrite E. reflexivity.
  - right. right. right. destruct (Hnil eq_refl) as [-> ->].
    exists s, f, (h_cfg h). rewrite E. cbn [fst snd]. split; [reflexivity|].
    unfold hub_nominee, hub_config_of. rewrite Hw. cbn [option_map]. subst s. auto.
Qed.

Theorem hub_config_changes w o :
  hub_config_of (fst (step w o)) <> hub_config_of w ->
  reinst CHub o \/
  (exists s a b c d e f0 g f, o = OTx s A_hub (WHub (HConfig a b c d e f0 g)) f /\
     hub_owner w = Some s /\
     snd (step w o) = (true, (s, MWasm A_hub (WHub (HConfig a b c d e f0 g)) f) ::
                             match a with Some x => [(A_hub, MSetWithdrawAddr x)] | None => [] end)) \/
  (exists s f c, o = OTx s A_hub (WHub HAccept) f /\
     hub_nominee w = Some s /\ hub_config_of w = Some c /\
     hub_config_of (fst (step w o)) = Some (set_creator c s) /\
     snd (step w o) = (true, [(s, MWasm A_hub (WHub HAccept) f)])).
Proof. intros Hne. destruct (hub_config_step w o) as [E|H]; [contradiction|exact H]. Qed.

(** ** dispatcher config *)
Theorem disp_config_step w o :
  disp_config_of (fst (step w o)) = disp_config_of w \/
  reinst CDisp o \/
  (exists s dm f, o = OTx s A_disp (WDisp dm) f /\ disp_cfg_msg dm /\ disp_owner w = Some s /\
     snd (step w o) = (true, [(s, MWasm A_disp (WDisp dm) f)])).
Proof.
  destruct (reinst_dec CDisp o) as [Hr|Hr]; [right; left; exact Hr|].
  destruct (tx_or_not o) as [(s & tgt & m & f & ->) | Hno].
  2:{ left. unfold disp_config_of. destruct (nontx_others w o Hno) as (Hd & _). rewrite Hd by exact Hr.
      reflexivity. }
  destruct (step_tx_eq w s tgt m f) as [E | (w' & tr & E)]; [left; rewrite E; reflexivity|].
  pose proof (tx_success_root _ _ _ _ _ _ _ E) as (w1 & out & fu & Hs & Hv & _ & _ & Hnil).
  apply static_view_proj in Hv. destruct Hv as (_ & _ & _ & Hv & _).
  destruct (root_disp_config _ _ _ _ _ _ _ Hs) as [Es | (-> & -> & dm & dp & -> & Hm & Hw & Hown)].
  - left. rewrite E. cbn [fst]. unfold disp_config_of in *. rewrite Hv. exact Es.
  - right. right. destruct (Hnil eq_refl) as [-> ->]. exists s, dm, f. rewrite E. cbn [snd].
    split; [reflexivity|]. split; [exact Hm|]. split; [|reflexivity].
    unfold disp_owner. rewrite Hw. cbn [option_map]. congruence.
Qed.

Theorem disp_config_changes w o :
  disp_config_of (fst (step w o)) <> disp_config_of w ->
  reinst CDisp o \/
  (exists s dm f, o = OTx s A_disp (WDisp dm) f /\ disp_cfg_msg dm /\ disp_owner w = Some s /\
     snd (step w o) = (true, [(s, MWasm A_disp (WDisp dm) f)])).
Proof. intros Hne. destruct (disp_config_step w o) as [E|H]; [contradiction|exact H]. Qed.

(** ** reward config *)
Theorem reward_config_step w o :
  reward_config_of (fst (step w o)) = reward_config_of w \/
  reinst CReward o \/
  (exists s rm f, o = OTx s A_reward (WReward rm) f /\ reward_cfg_msg rm /\ reward_owner w = Some s /\
     snd (step w o) = (true, [(s, MWasm A_reward (WReward rm) f)])).
Proof.
  destruct (reinst_dec CReward o) as [Hr|Hr]; [right; left; exact Hr|].
  destruct (tx_or_not o) as [(s & tgt & m & f & ->) | Hno].
  2:{ left. unfold reward_config_of. destruct (nontx_others w o Hno) as (_ & Hd & _).
      rewrite Hd by exact Hr. reflexivity. }
  destruct (step_tx_eq w s tgt m f) as [E | (w' & tr & E)]; [left; rewrite E; reflexivity|].
  pose proof (tx_success_root _ _ _ _ _ _ _ E) as (w1 & out & fu & Hs & Hv & _ & _ & Hnil).
  apply static_view_proj in Hv. destruct Hv as (_ & _ & _ & _ & Hv & _).
  destruct (root_reward_config _ _ _ _ _ _ _ Hs) as [Es | (-> & -> & rm & r & -> & Hm & Hw & Hown)].
  - left. rewrite E. cbn [fst]. congruence.
  - right. right. destruct (Hnil eq_refl) as [-> ->]. exists s, rm, f. rewrite E. cbn [snd].
    split; [reflexivity|]. split; [exact Hm|]. split; [|reflexivity].
    unfold reward_owner. rewrite Hw. cbn [option_map]. congruence.
Qed.

Theorem reward_config_changes w o :
  reward_config_of (fst (step w o)) <> reward_config_of w ->
  reinst CReward o \/
  (exists s rm f, o = OTx s A_reward (WReward rm) f /\ reward_cfg_msg rm /\ reward_owner w = Some s /\
     snd (step w o) = (true, [(s, MWasm A_reward (WReward rm) f)])).
Proof. intros Hne. destruct (reward_config_step w o) as [E|H]; [contradiction|exact H]. Qed.

(** ** registry: the hub address *)
Theorem reg_hub_step w o :
  reg_hub_of (fst (step w o)) = reg_hub_of w \/
  reinst CReg o \/
  (exists s a f, o = OTx s A_reg (WReg (GConfig (Some a))) f /\ reg_owner w = Some s /\
     reg_hub_of (fst (step w o)) = Some a /\
     snd (step w o) = (true, [(s, MWasm A_reg (WReg (GConfig (Some a))) f)])).
Proof.
  destruct (reinst_dec CReg o) as [Hr|Hr]; [right; left; exact Hr|].
  destruct (tx_or_not o) as [(s & tgt & m & f & ->) | Hno].
  2:{ left. unfold reg_hub_of. destruct (nontx_others w o Hno) as (_ & _ & Hd).
      rewrite Hd by exact Hr. reflexivity. }
  destruct (step_tx_eq w s tgt m f) as [E | (w' & tr & E)]; [left; rewrite E; reflexivity|].
  pose proof (tx_success_root _ _ _ _ _ _ _ E) as (w1 & out & fu & Hs & Hv & _ & _ & Hnil).
  apply static_view_proj in Hv. destruct Hv as (_ & _ & _ & _ & _ & Hv).
  destruct (root_reg_hub _ _ _ _ _ _ _ Hs) as [Es | (-> & -> & a & g & -> & Hw & Hown & Ha)].
  - left. rewrite E. cbn [fst]. unfold reg_hub_of in *. rewrite Hv. exact Es.
  - right. right. destruct (Hnil eq_refl) as [-> ->]. exists s, a, f. rewrite E. cbn [fst snd].
    split; [reflexivity|]. split; [|split; [exact Ha|reflexivity]].
    unfold reg_owner. rewrite Hw. cbn [option_map]. congruence.
Qed.

Theorem reg_hub_changes w o :
  reg_hub_of (fst (step w o)) <> reg_hub_of w ->
  reinst CReg o \/
  (exists s a f, o = OTx s A_reg (WReg (GConfig (Some a))) f /\ reg_owner w = Some s /\
     reg_hub_of (fst (step w o)) = Some a /\
     snd (step w o) = (true, [(s, MWasm A_reg (WReg (GConfig (Some a))) f)])).
Proof. intros Hne. destruct (reg_hub_step w o) as [E|H]; [contradiction|exact H]. Qed.

(** ** the operations that can change each record, and the stretches between them *)
Definition hub_params_op (o : op) : Prop :=
  match o with
  | OReset _ | OInstHub _ _ _ _ _ _ _ _ => True
  | OTx _ tgt (WHub (HParams _ _ _ _ _ _)) _ | OTx _ tgt (WHub (HMigrate _)) _ => tgt = A_hub
  | _ => False
  end.

Definition hub_config_op (o : op) : Prop :=
  match o with
  | OReset _ | OInstHub _ _ _ _ _ _ _ _ => True
  | OTx _ tgt (WHub (HConfig _ _ _ _ _ _ _)) _ | OTx _ tgt (WHub HAccept) _ => tgt = A_hub
  | _ => False
  end.

Definition disp_config_op (o : op) : Prop :=
  match o with
  | OReset _ | OInstDisp _ _ _ _ _ _ _ _ _ _ => True
  | OTx _ tgt (WDisp dm) _ => tgt = A_disp /\ disp_cfg_msg dm
  | _ => False
  end.

Definition reward_config_op (o : op) : Prop :=
  match o with
  | OReset _ | OInstReward _ _ _ _ _ => True
  | OTx _ tgt (WReward rm) _ => tgt = A_reward /\ reward_cfg_msg rm
  | _ => False
  end.

Definition reg_hub_op (o : op) : Prop :=
  match o with
  | OReset _ | OInstReg _ _ _ => True
  | OTx _ tgt (WReg (GConfig (Some _))) _ => tgt = A_reg
  | _ => False
  end.

Lemma hub_params_quiet w o : ~ hub_params_op o -> hub_params_of (fst (step w o)) = hub_params_of w.
Proof.
  intros Hn. destruct (hub_params_step w o)
    as [E | [Hr | [(s & e & u & pf & t & pz & rd & f & -> & _) | (s & lim & f & p & -> & _)]]];
    [exact E| | |]; exfalso; apply Hn; [destruct o; cbn in *; tauto | reflexivity | reflexivity].
Qed.

Lemma hub_config_quiet w o : ~ hub_config_op o -> hub_config_of (fst (step w o)) = hub_config_of w.
Proof.
  intros Hn. destruct (hub_config_step w o)
    as [E | [Hr | [(s & a & b & c & d & e & f0 & g & f & -> & _) | (s & f & c & -> & _)]]];
    [exact E| | |]; exfalso; apply Hn; [destruct o; cbn in *; tauto | reflexivity | reflexivity].
Qed.

Lemma disp_config_quiet w o : ~ disp_config_op o -> disp_config_of (fst (step w o)) = disp_config_of w.
Proof.
  intros Hn. destruct (disp_config_step w o) as [E | [Hr | (s & dm & f & -> & Hm & _)]];
    [exact E| |]; exfalso; apply Hn; [destruct o; cbn in *; tauto | split; [reflexivity|exact Hm]].
Qed.

Lemma reward_config_quiet w o :
  ~ reward_config_op o -> reward_config_of (fst (step w o)) = reward_config_of w.
Proof.
  intros Hn. destruct (reward_config_step w o) as [E | [Hr | (s & rm & f & -> & Hm & _)]];
    [exact E| |]; exfalso; apply Hn; [destruct o; cbn in *; tauto | split; [reflexivity|exact Hm]].
Qed.

Lemma reg_hub_quiet w o : ~ reg_hub_op o -> reg_hub_of (fst (step w o)) = reg_hub_of w.
Proof.
  intros Hn. destruct (reg_hub_step w o) as [E | [Hr | (s & a & f & -> & _)]];
    [exact E| |]; exfalso; apply Hn; [destruct o; cbn in *; tauto | reflexivity].
Qed.

Theorem hub_params_stretch ops w :
  Forall (fun o => ~ hub_params_op o) ops -> hub_params_of (run_ops ops w) = hub_params_of w.
Proof. apply (view_history hub_params_of (fun o => ~ hub_params_op o)). exact hub_params_quiet. Qed.

Theorem hub_config_stretch ops w :
  Forall (fun o => ~ hub_config_op o) ops -> hub_config_of (run_ops ops w) = hub_config_of w.
Proof. apply (view_history hub_config_of (fun o => ~ hub_config_op o)). exact hub_config_quiet. Qed.

Theorem disp_config_stretch ops w :
  Forall (fun o => ~ disp_config_op o) ops -> disp_config_of (run_ops ops w) = disp_config_of w.
Proof. apply (view_history disp_config_of (fun o => ~ disp_config_op o)). exact disp_config_quiet. Qed.

Theorem reward_config_stretch ops w :
  Forall (fun o => ~ reward_config_op o) ops -> reward_config_of (run_ops ops w) = reward_config_of w.
Proof. apply (view_history reward_config_of (fun o => ~ reward_config_op o)). exact reward_config_quiet. Qed.

Theorem reg_hub_stretch ops w :
  Forall (fun o => ~ reg_hub_op o) ops -> reg_hub_of (run_ops ops w) = reg_hub_of w.
Proof. apply (view_history reg_hub_of (fun o => ~ reg_hub_op o)). exact reg_hub_quiet. Qed.

(** along a history from the empty world: between two parameter-changing operations the record read
    is the one left by the earlier of them *)
Theorem hub_params_stretch_reachable ut ops1 ops2 :
  Forall (fun o => ~ hub_params_op o) ops2 ->
  hub_params_of (run_ops (ops1 ++ ops2) (empty_world ut)) = hub_params_of (run_ops ops1 (empty_world ut)).
Proof. intros HF. rewrite run_ops_app. apply hub_params_stretch. exact HF. Qed.

(** a transaction that is not signed by the hub's owner and is not a migration never changes the
    hub's parameters, whatever its target and payload *)
Theorem hub_params_stranger_tx w s tgt m f :
  hub_owner w <> Some s -> (forall lim, m <> WHub (HMigrate lim)) ->
  hub_params_of (fst (step w (OTx s tgt m f))) = hub_params_of w.
Proof.
  intros Hs Hm. destruct (hub_params_step w (OTx s tgt m f))
    as [E | [Hr | [(s' & e & u & pf & t & pz & rd & f' & Eo & Ho & _) | (s' & lim & f' & p & Eo & _)]]].
  - exact E.
  - contradiction.
  - inversion Eo; subst. contradiction.
  - inversion Eo; subst. exfalso. eapply Hm. reflexivity.
Qed.

(** ... nor does any sequence of such transactions, interleaved with every other operation except
    reset / hub instantiate: [stranger_op own nom o] = a transaction (any target, payload, funds)
    signed by somebody who is neither the owner nor the nominee and whose root is not a migration,
    or a non-transaction operation that is not [reinst CHub] *)
Definition stranger_op (own nom : addr) (o : op) : Prop :=
  match o with
  | OTx s _ m _ => s <> own /\ s <> nom /\ (forall lim, m <> WHub (HMigrate lim))
  | _ => ~ reinst CHub o
  end.

Lemma stranger_outsider own nom o : stranger_op own nom o -> outsider_op CHub own nom o.
Proof. destruct o; cbn [stranger_op outsider_op]; tauto. Qed.

Lemma hub_params_stranger_step own nom w o :
  stranger_op own nom o -> hub_owner w = Some own ->
  hub_params_of (fst (step w o)) = hub_params_of w.
Proof.
  intros Hop Ho. destruct (hub_params_step w o)
    as [E | [Hr | [(s & e & u & pf & t & pz & rd & f & -> & Hs & _) | (s & lim & f & p & -> & _)]]].
  - exact E.
  - exfalso. destruct o; cbn [stranger_op reinst] in *; tauto.
  - exfalso. cbn [stranger_op] in Hop. destruct Hop as (Hne & _). congruence.
  - exfalso. cbn [stranger_op] in Hop. destruct Hop as (_ & _ & Hm). eapply Hm. reflexivity.
Qed.

Theorem hub_params_stranger_history own nom : forall ops w,
  Forall (stranger_op own nom) ops -> hub_owner w = Some own -> hub_nominee w = Some nom ->
  hub_params_of (run_ops ops w) = hub_params_of w /\
  hub_owner (run_ops ops w) = Some own /\ hub_nominee (run_ops ops w) = Some nom.
Proof.
  induction ops as [|o ops IH]; intros w HF Ho Hn; [auto|].
  inversion HF as [|? ? Hop HF']; subst. rewrite run_ops_cons.
  destruct (outsider_step CHub w o own nom (stranger_outsider _ _ _ Hop) Ho Hn) as [Ho' Hn'].
  destruct (IH _ HF' Ho' Hn') as (Ip & Io & In). split; [|split; assumption].
  rewrite Ip. eapply hub_params_stranger_step; eauto.
Qed.
