(** * AccrualHist: C15 at HISTORY level — closed form of a holder's accrued reward along chain
    histories, independence from other holders, split accounts.

    Ghosts (not part of the model; computed by functions over the history, like [gfold] of
    RewardHist.v), for ONE observed holder [a]:
    - [aupd] = one executed EFFECTIVE index update (UpdateGlobalIndex with non-zero mirrored supply):
      [au_bal] = the reward-contract balance of [a] at that moment (= its bSei balance, C16),
      [au_new] = the coins newly delivered to the reward contract (bank balance - recorded balance),
      [au_tot] = the mirrored supply;  [au_q u = au_new u * D / au_tot u] is the index increment
      (reward per bSei, 18 decimals, rounded down), [au_term u = au_bal u * au_q u];
    - [aghost] = { [ag_base]: accrued atomics of [a] at the last (re)start; [ag_upds]: the executed
      effective updates, most recent first; [ag_claims]: the whole units paid by each executed
      ClaimRewards signed by [a], most recent first };  [ag_claimed g = sumN (ag_claims g) * D];
    - [amsg a w s m w' g]: ghost after ONE executed message; [arun]: [Exec.run] threading the ghost;
      [astep] / [afold]: one operation / a whole history ([OReset] and a re-instantiation of the
      reward contract restart the ghost at [ag_zero]; a failed transaction leaves it unchanged).

    Main theorems:
    - [AccrualHist_msg_step]: one executed message keeps [AInv]
        = RCore r /\ acc r a + ag_claimed g = ag_base g + SUM of au_term over ag_upds g;
    - [AccrualHist_arun_world]: the instrumentation does not change the execution;
    - [AccrualHist_step_inv], [AccrualHist_reachable]: [AInv] along every history.  No envelope is
      needed beyond [RCoreW] of the start world (implied by C14's [RWInv]: [RWInv_RCoreW]; trivial
      for the empty chain): [RCore] is preserved by every handler unconditionally;
    - [AccrualHist_closed_form], [AccrualHist_closed_form_empty], [AccrualHist_closed_form_from]:
      (1) the closed form in every reached world; [AccrualHist_base_noreinst]: [ag_base] is the
      start value when the history contains no reset / reward re-instantiation;
    - [AccrualHist_claim_is_payout]: a recorded claim is exactly the bank send of the handler;
    - [AccrualHist_between_updates]: (i) while no effective update executes, acc changes only by
      the holder's own claims, whatever any account does;
    - [AccrualHist_increment]: over any continuation of a history "accrued + claimed" grows by
      exactly the terms of the updates executed in the continuation;
    - [AccrualHist_tx_upds], [AccrualHist_step_upds], [AccrualHist_step_upds_mirror]: the updates
      recorded by one operation carry the balance / supply of the world in which the operation
      started (under C16's [Mirror]: the bSei balance and the bSei supply);
    - [AccrualHist_upds_append], [AccrualHist_late_tokens]: (iii) the list of terms is append-only
      — whatever happens later (tokens reaching [a]) never changes an earlier term;
    - [AccrualHist_upds_ok]: every recorded update has [T <> 0], [b <= T], and [T <= M] under
      [always (RTot M)]; [AccrualHist_term_rounding], [AccrualHist_term_rounding_E1],
      [AccrualHist_term_base_units]: (ii) each term against the ideal share [b * c / T]: never
      more, short by less than [b] atomics (< 1 base unit under E1), within one base unit in
      whole units;
    - [AccrualHist_upds_match_C14w]: the recorded updates are those of C14w's ghost [wg_upds];
    - [AccrualHist_independent], [AccrualHist_independent_lists], [AccrualHist_independent_empty]:
      (2) two executions with the same effective updates (b_k, q_k) as seen by the observed holder
      and the same claims give it the same accrued reward — whatever the other holders are or do,
      in whatever order; [AccrualHist_reorder_segment]: two continuations without effective update;
    - [calm_op], [AccrualHist_calm_segment], [AccrualHist_swap_calm]: along any sequence of calm
      operations (all cw20 messages, bond, unbond, convert, withdraw ...) by anybody nobody's
      accrued reward moves; swapping two adjacent calm operations changes nothing;
    - [AccrualHist_swap_needs_same_rate_witness]: the hypothesis "same q_k" cannot be dropped:
      swapping two adjacent operations of ANOTHER holder changes the supply seen by a later
      update, hence the reward per bSei (the pro-rata rule itself, not a defect);
    - [AccrualHist_ct_same]: in one history all observed holders see the same (c_k, T_k);
    - [SplitUpds], [SplitBal], [AccrualHist_split], [AccrualHist_split_units],
      [AccrualHist_split_same_history]: (3) one account or two;
    - [AccrualHist_nonvacuous], [AccrualHist_balances_nonvacuous], [AccrualHist_between_nonvacuous],
      [AccrualHist_independent_nonvacuous], [AccrualHist_split_nonvacuous]: (4) concrete chain
      histories on the deployment of ExitWorld.v (four bSei holders, two effective updates through
      the real hub -> dispatcher -> reward pipeline, transfers and an unbond in between, a claim). *)
From Krp Require Import Tactics Prelude Fixed FMap Types Env Registry Cw20 Reward Dispatcher Hub Exec
     ExecP Hist Inv HubAdmin BooksEnv BooksHub MirrorWire MirrorP NonInterf RewardP RewardWorld RewardHist.
Open Scope N_scope.
Ltac Zify.zify_post_hook ::= idtac.

(** * 1. ghosts *)
Record aupd := mkAU { au_bal : N; au_new : N; au_tot : N }.
Definition au_q (u : aupd) : N := au_new u * D / au_tot u.
Definition au_term (u : aupd) : N := au_bal u * au_q u.
Definition au_sum (l : list aupd) : N := sumN (map au_term l).

Record aghost := mkAG { ag_base : N; ag_upds : list aupd; ag_claims : list N }.
Definition ag_claimed (g : aghost) : N := sumN (ag_claims g) * D.
Definition ag_zero : aghost := mkAG 0 [] [].

(** ghost update for one executed message: [w] is the world before, [w'] the world after *)
Definition amsg (a : addr) (w : world) (s : addr) (m : cmsg) (w' : world) (g : aghost) : aghost :=
  match w_reward w with
  | Some r =>
      match rmsg_of m with
      | Some RUpdateIndex =>
          if rw_total r =? 0 then g
          else mkAG (ag_base g)
                    (mkAU (ho_bal (holder_of r a))
                          (bal (w_env w') A_reward (rw_denom r) - rw_prev r) (rw_total r) :: ag_upds g)
                    (ag_claims g)
      | Some (RClaim _) =>
          if s =? a then mkAG (ag_base g) (ag_upds g) (acc r a / D :: ag_claims g) else g
      | _ => g
      end
  | None => g
  end.

Fixpoint arun (a : addr) (fuel : nat) (w : world) (stack : list (addr * cmsg)) (g : aghost)
  : result (world * aghost) :=
  match stack with
  | [] => Some (w, g)
  | (s, m) :: rest =>
      match fuel with
      | O => None
      | S f =>
          do r <- step_msg w s m;
          arun a f (fst r) (snd r ++ rest) (amsg a w s m (fst r) g)
      end
  end.

(** operations that (re)start the reward contract's state *)
Definition reinst (o : op) : bool :=
  match o with OReset _ | OInstReward _ _ _ _ _ => true | _ => false end.
Definition NoReinst (ops : list op) : Prop := Forall (fun o => reinst o = false) ops.

Definition astep (a : addr) (w : world) (o : op) (g : aghost) : aghost :=
  match o with
  | OReset _ => ag_zero
  | OInstReward _ _ _ _ _ => ag_zero
  | OTx s t m f =>
      match arun a tx_fuel w [(s, MWasm t m f)] g with
      | Some (_, g') => g'
      | None => g
      end
  | _ => g
  end.

Fixpoint afold (a : addr) (ops : list op) (w : world) (g : aghost) : aghost :=
  match ops with
  | [] => g
  | o :: r => afold a r (fst (step w o)) (astep a w o g)
  end.

(** the ghost of the start world: nothing executed yet, base = what [a] has accrued so far *)
Definition ag_init (a : addr) (w : world) : aghost :=
  mkAG (match w_reward w with Some r => acc r a | None => 0 end) [] [].

(** the invariant: core invariant of the reward state and the closed form *)
Definition AInv (a : addr) (w : world) (g : aghost) : Prop :=
  forall r, w_reward w = Some r ->
    RCore r /\ acc r a + ag_claimed g = ag_base g + au_sum (ag_upds g).

Definition RCoreW (w : world) : Prop := forall r, w_reward w = Some r -> RCore r.

Lemma ag_claimed_cons b u x l :
  ag_claimed (mkAG b u (x :: l)) = x * D + ag_claimed (mkAG b u l).
Proof. unfold ag_claimed. cbn [ag_claims sumN]. lia. Qed.

Lemma au_sum_cons u l : au_sum (u :: l) = au_term u + au_sum l.
Proof. reflexivity. Qed.

Lemma au_sum_app l1 l2 : au_sum (l1 ++ l2) = au_sum l1 + au_sum l2.
Proof. unfold au_sum. rewrite map_app, sumN_app. reflexivity. Qed.

(** * 2. one executed message *)
Lemma acc_claim_self r a : acc (claim_state r a) a = acc r a mod D.
Proof.
  unfold acc at 1. unfold claim_state. rewrite holder_of_upd_same.
  change (rw_gi (upd r a ?h ?t ?p)) with (rw_gi r). apply hacc_fresh.
Qed.

Theorem AccrualHist_msg_step a w s m w' out g :
  step_msg w s m = Some (w', out) -> AInv a w g -> AInv a w' (amsg a w s m w' g).
Proof.
  intros H HI. unfold amsg.
  destruct (step_msg_geffect _ _ _ _ _ H)
    as [to Hn Hrw _ _ | w1 r rm r' o Hrm Hr Henv He Hr' _].
  - rewrite Hn. intros r' Hr'. rewrite Hrw in Hr'.
    destruct (w_reward w) as [r|] eqn:Er; [|discriminate Hr']. inversion Hr'; subst r'.
    exact (HI r Er).
  - rewrite Hr, Hrm. intros r0 Hr0. rewrite Hr' in Hr0. inversion Hr0; subst r0. clear Hr0.
    destruct (HI r Hr) as [HC Heq].
    split; [exact (reward_execute_rcore _ _ _ _ _ _ _ HC He)|].
    destruct rm;
      try (destruct (other_holder_untouched _ _ _ _ _ _ _ a He) as [_ Ho];
           [cbn [target_of]; discriminate|];
           destruct Ho as [_ Ha]; [discriminate|]; rewrite Ha; exact Heq).
    + (* claim *)
      destruct (s =? a) eqn:Es.
      * apply N.eqb_eq in Es. subst s. apply rclaim_iff in He. destruct He as (_ & _ & _ & -> & _).
        rewrite acc_claim_self, ag_claimed_cons. cbn [ag_base ag_upds].
        pose proof (div_D_decomp (acc r a)) as Hd.
        change (ag_claimed (mkAG (ag_base g) (ag_upds g) (ag_claims g))) with (ag_claimed g). lia.
      * apply N.eqb_neq in Es.
        destruct (other_holder_untouched _ _ _ _ _ _ _ a He) as [_ Ho];
          [cbn [target_of]; congruence|].
        destruct Ho as [_ Ha]; [discriminate|]. rewrite Ha. exact Heq.
    + (* index update *)
      destruct (accrual_step _ _ _ _ _ _ a He (rcore_holder_idx r a HC)) as (_ & H0 & Hn).
      destruct (rw_total r =? 0) eqn:Et.
      * apply N.eqb_eq in Et. rewrite (H0 Et). exact Heq.
      * apply N.eqb_neq in Et. destruct (Hn Et) as [_ Ha]. rewrite Ha.
        cbn [ag_base ag_upds]. rewrite au_sum_cons. unfold au_term at 1, au_q.
        cbn [au_bal au_new au_tot]. unfold index_step in Ha |- *. rewrite <- Henv.
        change (ag_claimed (mkAG (ag_base g) (?u :: ag_upds g) (ag_claims g))) with (ag_claimed g).
        lia.
    + (* increase *)
      destruct (N.eq_dec a0 a) as [->|Hne].
      * destruct (inc_preserves_acc _ _ _ _ _ _ _ _ He) as (Ha & _). rewrite Ha. exact Heq.
      * destruct (other_holder_untouched _ _ _ _ _ _ _ a He) as [_ Ho];
          [cbn [target_of]; congruence|].
        destruct Ho as [_ Ha]; [discriminate|]. rewrite Ha. exact Heq.
    + (* decrease *)
      destruct (N.eq_dec a0 a) as [->|Hne].
      * destruct (dec_preserves_acc _ _ _ _ _ _ _ _ He) as (Ha & _). rewrite Ha. exact Heq.
      * destruct (other_holder_untouched _ _ _ _ _ _ _ a He) as [_ Ho];
          [cbn [target_of]; congruence|].
        destruct Ho as [_ Ha]; [discriminate|]. rewrite Ha. exact Heq.
Qed.

(** * 3. transactions *)
Lemma arun_nil a f w g : arun a f w [] g = Some (w, g).
Proof. destruct f; reflexivity. Qed.

Theorem AccrualHist_arun_world a : forall fuel w st g tr,
  option_map fst (arun a fuel w st g) = option_map fst (run fuel w st tr).
Proof.
  induction fuel as [|f IH]; intros w st g tr.
  - destruct st as [|[s m] rest]; reflexivity.
  - destruct st as [|[s m] rest]; [reflexivity|]. cbn [arun run].
    destruct (step_msg w s m) as [[w1 o]|]; cbn [bind fst snd]; [apply IH | reflexivity].
Qed.

Lemma arun_preserves a (JJ : world -> list (addr * cmsg) -> aghost -> Prop) :
  (forall w s m rest w' out g,
      JJ w ((s, m) :: rest) g -> step_msg w s m = Some (w', out) ->
      JJ w' (out ++ rest) (amsg a w s m w' g)) ->
  forall fuel w st g w' g', JJ w st g -> arun a fuel w st g = Some (w', g') -> JJ w' [] g'.
Proof.
  intros Hstep. induction fuel as [|f IH]; intros w st g w' g' HJ H.
  - destruct st as [|[s m] rest]; cbn [arun] in H; [inversion H; subst; exact HJ | discriminate].
  - destruct st as [|[s m] rest]; cbn [arun] in H; [inversion H; subst; exact HJ|].
    bind_inv H as r Hr. destruct r as [w1 out]. cbn [fst snd] in H.
    eapply IH; [|exact H]. eapply Hstep; eauto.
Qed.

Lemma atx_inv a fuel w st g w' g' :
  AInv a w g -> arun a fuel w st g = Some (w', g') -> AInv a w' g'.
Proof.
  intros HI H.
  exact (arun_preserves a (fun x _ y => AInv a x y)
           (fun x s m rest x' out y HJ Hs => AccrualHist_msg_step a x s m x' out y Hs HJ)
           fuel w st g w' g' HI H).
Qed.

(** * 4. operations and histories *)
Lemma acc_instantiate s hubaddr d swap denoms a :
  acc (reward_instantiate s hubaddr d swap denoms) a = 0.
Proof. reflexivity. Qed.

Theorem AccrualHist_step_inv a w o g :
  AInv a w g -> AInv a (fst (step w o)) (astep a w o g).
Proof.
  intros HI.
  destruct o;
    try (cbn [astep]; intros r Hr; rewrite step_frame_reward in Hr by reflexivity; exact (HI r Hr)).
  - cbn [step astep fst]. intros r Hr. discriminate Hr.
  - cbn [step astep fst]. intros r Hr. cbn [w_reward set_w_reward] in Hr. inversion Hr; subst r.
    split; [apply rcore_instantiate|]. rewrite acc_instantiate. reflexivity.
  - cbn [step astep].
    pose proof (AccrualHist_arun_world a tx_fuel w [(sender, MWasm target m funds)] g []) as Hw.
    destruct (arun a tx_fuel w [(sender, MWasm target m funds)] g) as [[w1 g1]|] eqn:Eg;
      destruct (run tx_fuel w [(sender, MWasm target m funds)] []) as [[w2 tr]|] eqn:Er;
      cbn [option_map fst] in Hw; try discriminate Hw; cbn [fst]; [|exact HI].
    inversion Hw; subst w2. eapply atx_inv; eauto.
Qed.

Theorem AccrualHist_reachable a ops : forall w0 g0,
  AInv a w0 g0 -> AInv a (run_ops ops w0) (afold a ops w0 g0).
Proof.
  unfold run_ops. induction ops as [|o ops IH]; intros w0 g0 HI; cbn [fold_left afold]; [exact HI|].
  apply IH. apply AccrualHist_step_inv. exact HI.
Qed.

Lemma AInv_init a w : RCoreW w -> AInv a w (ag_init a w).
Proof.
  intros HC r Hr. split; [exact (HC r Hr)|]. unfold ag_init. rewrite Hr.
  unfold ag_claimed, au_sum. cbn [ag_claims ag_upds ag_base map sumN]. lia.
Qed.

Lemma RCoreW_empty ut : RCoreW (empty_world ut).
Proof. intros r Hr. discriminate Hr. Qed.

Lemma RWInv_RCoreW w : RWInv w -> RCoreW w.
Proof. intros HI r Hr. exact (proj1 (HI r Hr)). Qed.

(** ** the base value *)
Lemma amsg_base a w s m w' g : ag_base (amsg a w s m w' g) = ag_base g.
Proof.
  unfold amsg. destruct (w_reward w) as [r|]; [|reflexivity].
  destruct (rmsg_of m) as [rm|]; [|reflexivity]. destruct rm; try reflexivity.
  - destruct (s =? a); reflexivity.
  - destruct (rw_total r =? 0); reflexivity.
Qed.

Lemma arun_base a fuel w st g w' g' : arun a fuel w st g = Some (w', g') -> ag_base g' = ag_base g.
Proof.
  intros H.
  exact (arun_preserves a (fun _ _ y => ag_base y = ag_base g)
           (fun x s m rest x' out y HJ _ => eq_trans (amsg_base a x s m x' y) HJ)
           fuel w st g w' g' eq_refl H).
Qed.

Lemma astep_base a w o g : reinst o = false -> ag_base (astep a w o g) = ag_base g.
Proof.
  intros Ho. destruct o; try discriminate Ho; try reflexivity. cbn [astep].
  destruct (arun a tx_fuel w [(sender, MWasm target m funds)] g) as [[w1 g1]|] eqn:E; [|reflexivity].
  eapply arun_base; eauto.
Qed.

Theorem AccrualHist_base_noreinst a ops : forall w g,
  NoReinst ops -> ag_base (afold a ops w g) = ag_base g.
Proof.
  induction ops as [|o ops IH]; intros w g Hn; cbn [afold]; [reflexivity|].
  inversion Hn as [|x l Ho Hl]; subst. rewrite (IH _ _ Hl). apply astep_base. exact Ho.
Qed.

Lemma astep_base_zero a w o g : ag_base g = 0 -> ag_base (astep a w o g) = 0.
Proof.
  intros Hg. destruct (reinst o) eqn:Ho.
  - destruct o; try discriminate Ho; reflexivity.
  - rewrite astep_base by exact Ho. exact Hg.
Qed.

Lemma afold_base_zero a ops : forall w g, ag_base g = 0 -> ag_base (afold a ops w g) = 0.
Proof.
  induction ops as [|o ops IH]; intros w g Hg; cbn [afold]; [exact Hg|].
  apply IH. apply astep_base_zero. exact Hg.
Qed.

(** ** (1) the closed form, in every reached world (the theorem holds for every [ops], hence
    for every prefix of a history) *)
Theorem AccrualHist_closed_form a ops w0 r :
  RCoreW w0 -> w_reward (run_ops ops w0) = Some r ->
  acc r a + ag_claimed (afold a ops w0 (ag_init a w0))
    = ag_base (afold a ops w0 (ag_init a w0)) + au_sum (ag_upds (afold a ops w0 (ag_init a w0))) /\
  acc r a = ag_base (afold a ops w0 (ag_init a w0)) + au_sum (ag_upds (afold a ops w0 (ag_init a w0)))
            - ag_claimed (afold a ops w0 (ag_init a w0)).
Proof.
  intros HC Hr.
  destruct (AccrualHist_reachable a ops w0 (ag_init a w0) (AInv_init a w0 HC) r Hr) as [_ Heq].
  split; [exact Heq | lia].
Qed.

Theorem AccrualHist_closed_form_empty a ut ops r :
  w_reward (run_ops ops (empty_world ut)) = Some r ->
  acc r a + ag_claimed (afold a ops (empty_world ut) ag_zero)
    = au_sum (ag_upds (afold a ops (empty_world ut) ag_zero)) /\
  acc r a = au_sum (ag_upds (afold a ops (empty_world ut) ag_zero))
            - ag_claimed (afold a ops (empty_world ut) ag_zero).
Proof.
  intros Hr.
  destruct (AccrualHist_closed_form a ops (empty_world ut) r (RCoreW_empty ut) Hr) as [Heq _].
  change (ag_init a (empty_world ut)) with ag_zero in Heq.
  rewrite (afold_base_zero a ops (empty_world ut) ag_zero eq_refl) in Heq. split; lia.
Qed.

(** without reset / re-instantiation the base is what [a] had accrued in the start world *)
Theorem AccrualHist_closed_form_from a ops w0 r0 r :
  RCoreW w0 -> NoReinst ops -> w_reward w0 = Some r0 -> w_reward (run_ops ops w0) = Some r ->
  acc r a + ag_claimed (afold a ops w0 (ag_init a w0))
    = acc r0 a + au_sum (ag_upds (afold a ops w0 (ag_init a w0))).
Proof.
  intros HC Hn Hr0 Hr. destruct (AccrualHist_closed_form a ops w0 r HC Hr) as [Heq _].
  rewrite (AccrualHist_base_noreinst a ops w0 _ Hn) in Heq. unfold ag_init at 2 in Heq.
  rewrite Hr0 in Heq. exact Heq.
Qed.

(** (i) between two consecutive index updates: a history (starting in ANY world, e.g. right after
    an update) that executes no effective index update changes [a]'s accrued reward only by
    [a]'s own claims — whatever any account, including [a], transfers, sends, unbonds, burns,
    bonds, converts, and whoever else claims *)
Theorem AccrualHist_between_updates a ops w0 r0 r :
  RCoreW w0 -> NoReinst ops -> w_reward w0 = Some r0 -> w_reward (run_ops ops w0) = Some r ->
  ag_upds (afold a ops w0 (ag_init a w0)) = [] ->
  acc r a + ag_claimed (afold a ops w0 (ag_init a w0)) = acc r0 a /\
  (ag_claims (afold a ops w0 (ag_init a w0)) = [] -> acc r a = acc r0 a).
Proof.
  intros HC Hn Hr0 Hr Hu.
  pose proof (AccrualHist_closed_form_from a ops w0 r0 r HC Hn Hr0 Hr) as Heq.
  rewrite Hu in Heq. unfold au_sum in Heq. cbn [map sumN] in Heq. split; [lia|].
  intros Hc. unfold ag_claimed in Heq. rewrite Hc in Heq. cbn [sumN] in Heq. lia.
Qed.

(** * 5. which balance and which supply an executed update records *)
(** the pair (mirrored balance of [a], mirrored supply) of a world *)
Definition abt (a : addr) (w : world) : option (N * N) :=
  option_map (fun r => (ho_bal (holder_of r a), rw_total r)) (w_reward w).

(** [u] was recorded with the balance and the (non-zero) supply of world [w] *)
Definition AUfrom (a : addr) (w : world) (u : aupd) : Prop :=
  abt a w = Some (au_bal u, au_tot u) /\ au_tot u <> 0.

Lemma nosettle_step_abt a w s m w' out :
  nosettle m = true -> step_msg w s m = Some (w', out) -> abt a w' = abt a w.
Proof.
  intros Hm H. unfold abt.
  destruct (reward_state_changes_only_by_handler _ _ _ _ _ H)
    as [E | (w1 & r1 & rm & r' & o & Hr1 & Hr' & He & wm & funds & -> & Hwm)].
  - rewrite E. reflexivity.
  - rewrite Hr1, Hr'. cbn [option_map]. cbn [nosettle] in Hm.
    assert (Hrm : rm = RSwap \/ (exists rcp, rm = RClaim rcp) \/ rm = RUpdateIndex).
    { destruct Hwm as [-> | (n & -> & ->)]; [|auto].
      destruct rm; try discriminate Hm; eauto. }
    destruct Hrm as [-> | [(rcp & ->) | ->]].
    + cbn [reward_execute] in He. bind_inv He as dp Hdp. check_inv He as Hs. inversion He; subst.
      reflexivity.
    + apply rclaim_iff in He. destruct He as (_ & _ & _ & -> & _).
      change (rw_total (claim_state r1 s)) with (rw_total r1). f_equal. f_equal.
      unfold claim_state. destruct (N.eq_dec a s) as [->|Hne].
      * rewrite holder_of_upd_same. reflexivity.
      * rewrite holder_of_upd_other by exact Hne. reflexivity.
    + apply rupdate_iff in He. destruct He as (_ & _ & [[_ ->] | (_ & _ & _ & _ & ->)]); reflexivity.
Qed.

Lemma amsg_upds_calm a w s m w' g : calm m = true -> ag_upds (amsg a w s m w' g) = ag_upds g.
Proof.
  intros Hm. unfold amsg. destruct (w_reward w) as [r|]; [|reflexivity].
  destruct (rmsg_of m) as [rm|] eqn:Hrm; [|reflexivity].
  destruct (calm_no_update_no_claim (s, m) Hm) as [Hnu _]. cbn [snd] in Hnu.
  destruct rm; try reflexivity; [destruct (s =? a); reflexivity | congruence].
Qed.

Lemma amsg_upds_new a w s m w' g :
  exists new, ag_upds (amsg a w s m w' g) = new ++ ag_upds g /\ Forall (AUfrom a w) new.
Proof.
  unfold amsg, AUfrom, abt. destruct (w_reward w) as [r|]; [|exists []; split; [reflexivity|constructor]].
  destruct (rmsg_of m) as [rm|]; [|exists []; split; [reflexivity|constructor]].
  destruct rm; try (exists []; split; [reflexivity|constructor]).
  - destruct (s =? a); exists []; (split; [reflexivity|constructor]).
  - destruct (rw_total r =? 0) eqn:Et; [exists []; split; [reflexivity|constructor]|].
    apply N.eqb_neq in Et. eexists [_]. split; [reflexivity|].
    constructor; [|constructor]. cbn [au_bal au_tot option_map]. split; [reflexivity | exact Et].
Qed.

(** one transaction: the effective updates it executes all see the balance of [a] and the supply
    of the world in which the transaction STARTED (a transaction that executes an index update
    executes no Increase/DecreaseBalance) *)
Theorem AccrualHist_tx_upds a w s t m f w' g g' :
  arun a tx_fuel w [(s, MWasm t m f)] g = Some (w', g') ->
  exists new, ag_upds g' = new ++ ag_upds g /\ Forall (AUfrom a w) new.
Proof.
  intros H. destruct (calm_or_nosettle (MWasm t m f)) as [Hc | Hn].
  - pose (JJ := fun (x : world) (st : list (addr * cmsg)) (y : aghost) =>
                  Forall calm_s st /\ ag_upds y = ag_upds g).
    assert (HJ : JJ w' [] g').
    { eapply (arun_preserves a JJ); [| |exact H].
      - intros x s0 m0 rest x' out y [Hst Hy] Hs. apply Forall_cons_iff in Hst.
        destruct Hst as [Hm0 Hrest]. split.
        + apply Forall_app. split; [eapply calm_closed; eauto | exact Hrest].
        + rewrite amsg_upds_calm by exact Hm0. exact Hy.
      - split; [constructor; [exact Hc | constructor] | reflexivity]. }
    exists []. split; [exact (proj2 HJ) | constructor].
  - pose (JJ := fun (x : world) (st : list (addr * cmsg)) (y : aghost) =>
                  Forall nosettle_s st /\ abt a x = abt a w /\
                  exists new, ag_upds y = new ++ ag_upds g /\ Forall (AUfrom a w) new).
    assert (HJ : JJ w' [] g').
    { eapply (arun_preserves a JJ); [| |exact H].
      - intros x s0 m0 rest x' out y (Hst & Hx & new & Hy & Hnew) Hs. apply Forall_cons_iff in Hst.
        destruct Hst as [Hm0 Hrest]. split; [|split].
        + apply Forall_app. split; [eapply nosettle_closed; eauto | exact Hrest].
        + rewrite (nosettle_step_abt a _ _ _ _ _ Hm0 Hs). exact Hx.
        + destruct (amsg_upds_new a x s0 m0 x' y) as (n1 & E1 & F1).
          exists (n1 ++ new). split; [rewrite E1, Hy, app_assoc; reflexivity|].
          apply Forall_app. split; [|exact Hnew].
          eapply Forall_impl; [|exact F1]. intros u [U1 U2]. split; [rewrite <- Hx; exact U1 | exact U2].
      - split; [constructor; [exact Hn | constructor]|]. split; [reflexivity|].
        exists []. split; [reflexivity | constructor]. }
    exact (proj2 (proj2 HJ)).
Qed.

Theorem AccrualHist_step_upds a w o g :
  reinst o = false ->
  exists new, ag_upds (astep a w o g) = new ++ ag_upds g /\ Forall (AUfrom a w) new.
Proof.
  intros Ho. destruct o; try discriminate Ho;
    try (exists []; split; [reflexivity | constructor]).
  cbn [astep].
  destruct (arun a tx_fuel w [(sender, MWasm target m funds)] g) as [[w1 g1]|] eqn:E;
    [|exists []; split; [reflexivity | constructor]].
  eapply AccrualHist_tx_upds; eauto.
Qed.

(** under C16's mirror: the recorded balance is the bSei balance of [a] and the recorded supply the
    bSei total supply, in the world in which the operation started *)
Theorem AccrualHist_step_upds_mirror a w o g tb :
  reinst o = false -> Mirror w -> w_bsei w = Some tb ->
  exists new, ag_upds (astep a w o g) = new ++ ag_upds g /\
    Forall (fun u => au_bal u = tbal tb a /\ au_tot u = tk_supply tb /\ au_tot u <> 0) new.
Proof.
  intros Ho HM Hb. destruct (AccrualHist_step_upds a w o g Ho) as (new & E & F).
  exists new. split; [exact E|]. eapply Forall_impl; [|exact F].
  intros u [U1 U2]. unfold abt in U1. destruct (w_reward w) as [r|] eqn:Hr; [|discriminate U1].
  cbn [option_map] in U1. inversion U1 as [[E1 E2]]. destruct (HM tb r Hb Hr) as [M1 M2].
  rewrite <- M1, <- M2. repeat split; congruence.
Qed.

(** ** the list of terms is append-only *)
Lemma afold_app a ops1 : forall ops2 w g,
  afold a (ops1 ++ ops2) w g = afold a ops2 (run_ops ops1 w) (afold a ops1 w g).
Proof.
  unfold run_ops. induction ops1 as [|o ops1 IH]; intros ops2 w g; cbn [app afold fold_left]; [reflexivity|].
  apply IH.
Qed.

Theorem AccrualHist_upds_append a ops : forall w g,
  NoReinst ops -> exists new, ag_upds (afold a ops w g) = new ++ ag_upds g.
Proof.
  induction ops as [|o ops IH]; intros w g Hn; cbn [afold]; [exists []; reflexivity|].
  inversion Hn as [|x l Ho Hl]; subst.
  destruct (IH (fst (step w o)) (astep a w o g) Hl) as (n2 & E2).
  destruct (AccrualHist_step_upds a w o g Ho) as (n1 & E1 & _).
  exists (n2 ++ n1). rewrite E2, E1, app_assoc. reflexivity.
Qed.

(** (iii) whatever happens after a prefix [ops1] of a history — in particular tokens reaching [a]
    by transfer, send, bond, convert — the terms recorded during [ops1] stay exactly as they are:
    later operations only add terms for later updates *)
Theorem AccrualHist_late_tokens a ops1 ops2 w0 g0 :
  NoReinst ops2 ->
  exists new,
    ag_upds (afold a (ops1 ++ ops2) w0 g0) = new ++ ag_upds (afold a ops1 w0 g0) /\
    au_sum (ag_upds (afold a (ops1 ++ ops2) w0 g0))
      = au_sum new + au_sum (ag_upds (afold a ops1 w0 g0)).
Proof.
  intros Hn. rewrite afold_app.
  destruct (AccrualHist_upds_append a ops2 (run_ops ops1 w0) (afold a ops1 w0 g0) Hn) as (new & E).
  exists new. split; [exact E|]. rewrite E. apply au_sum_app.
Qed.

(** ** magnitudes of the recorded updates *)
Definition AUok (M : N) (u : aupd) : Prop := au_tot u <> 0 /\ au_bal u <= au_tot u /\ au_tot u <= M.

Lemma afold_upds_P a (E : world -> Prop) (P : aupd -> Prop) :
  (forall w u, E w -> RCoreW w -> AUfrom a w u -> P u) ->
  forall ops w0 g0,
    always E ops w0 -> AInv a w0 g0 -> Forall P (ag_upds g0) -> Forall P (ag_upds (afold a ops w0 g0)).
Proof.
  intros HP. induction ops as [|o ops IH]; intros w0 g0 HA HI HF; cbn [afold]; [exact HF|].
  cbn [always] in HA. destruct HA as [HE HA].
  apply IH; [exact HA | apply AccrualHist_step_inv; exact HI|].
  destruct (reinst o) eqn:Ho.
  - destruct o; try discriminate Ho; constructor.
  - destruct (AccrualHist_step_upds a w0 o g0 Ho) as (new & E1 & F1). rewrite E1.
    apply Forall_app. split; [|exact HF]. eapply Forall_impl; [|exact F1].
    intros u Hu. apply (HP w0 u HE); [|exact Hu]. intros r Hr. exact (proj1 (HI r Hr)).
Qed.

Lemma AUfrom_ok a M w u : RTot M w -> RCoreW w -> AUfrom a w u -> AUok M u.
Proof.
  intros HT HC [U1 U2]. unfold abt in U1. destruct (w_reward w) as [r|] eqn:Hr; [|discriminate U1].
  cbn [option_map] in U1. inversion U1 as [[E1 E2]]. destruct (HC r Hr) as (_ & H2 & _).
  pose proof (bal_le_sum r a) as Hb. pose proof (HT r Hr) as Ht.
  unfold AUok. rewrite <- E1, <- E2. repeat split; lia.
Qed.

(** every executed effective update saw a non-zero supply, [a] held at most the supply, and — if
    the mirrored supply stays within [M] in every visited world — the supply was within [M] *)
Theorem AccrualHist_upds_ok a M ops w0 :
  RCoreW w0 -> always (RTot M) ops w0 ->
  Forall (AUok M) (ag_upds (afold a ops w0 (ag_init a w0))).
Proof.
  intros HC HA. apply (afold_upds_P a (RTot M) (AUok M)); [| exact HA | apply AInv_init; exact HC | constructor].
  intros w u HT HCw Hu. eapply AUfrom_ok; eauto.
Qed.

(** (ii) the term of one update against the ideal pro-rata share [b * c / T] (in atomics
    [b * (c * D) / T]): never more, short by less than [b] atomics *)
Theorem AccrualHist_term_rounding u :
  au_tot u <> 0 ->
  au_term u <= au_bal u * (au_new u * D) / au_tot u /\
  (0 < au_bal u -> au_bal u * (au_new u * D) / au_tot u < au_term u + au_bal u).
Proof. intros Ht. exact (accrual_rounding (au_bal u) (au_new u) (au_tot u) Ht). Qed.

(** under E1 ([b <= T <= 10^18]) the shortfall is below one base unit (D atomics) *)
Theorem AccrualHist_term_rounding_E1 u :
  AUok LIM u ->
  au_term u <= au_bal u * (au_new u * D) / au_tot u /\
  au_bal u * (au_new u * D) / au_tot u < au_term u + D.
Proof.
  intros (Ht & Hb & Hl). unfold LIM in Hl.
  destruct (AccrualHist_term_rounding u Ht) as [H1 H2]. split; [exact H1|].
  destruct (N.eq_dec (au_bal u) 0) as [E|Hne].
  - rewrite E, N.mul_0_l, N.div_0_l by exact Ht. pose proof D_pos. lia.
  - assert (Hp : 0 < au_bal u) by lia. specialize (H2 Hp). lia.
Qed.

(** the same in whole base units: the whole units contained in the term and the whole-unit
    pro-rata share [floor (b * c / T)] differ by at most one *)
Theorem AccrualHist_term_base_units u :
  AUok LIM u ->
  au_term u / D <= au_bal u * au_new u / au_tot u /\
  au_bal u * au_new u / au_tot u <= au_term u / D + 1.
Proof.
  intros (Ht & Hb & Hl). unfold LIM in Hl. unfold au_term, au_q.
  set (b := au_bal u) in *. set (c := au_new u) in *. set (T := au_tot u) in *.
  pose proof D_pos as HD. assert (Dnz : D <> 0) by lia.
  pose proof (N.div_mod (c * D) T Ht) as Hx. pose proof (N.mod_lt (c * D) T Ht) as Hr.
  set (q := c * D / T) in *. set (rm := (c * D) mod T) in *.
  pose proof (N.mul_div_le (b * q) D Dnz) as Hk1.
  pose proof (N.mul_succ_div_gt (b * q) D Dnz) as Hk2.
  set (k := b * q / D) in *. clearbody k q rm b c T.
  assert (Hy : b * c * D = T * (b * q) + b * rm) by nia.
  split.
  - apply N.div_le_lower_bound; [exact Ht|].
    assert (T * k * D <= b * c * D) by nia.
    apply (N.mul_le_mono_pos_r _ _ D HD). exact H.
  - assert (Hlt : b * c / T < k + 2); [|lia].
    apply N.div_lt_upper_bound; [exact Ht|].
    assert (Hbr : b * rm < D * T) by nia.
    assert (b * c * D < T * (k + 2) * D) by nia.
    apply (N.mul_lt_mono_pos_r D _ _ HD). exact H.
Qed.

(** * 6. (2) independence from other holders *)
(** what [a] sees of an update: its own balance and the reward per bSei *)
Definition au_bq (u : aupd) : N * N := (au_bal u, au_q u).

Lemma au_sum_bq l1 l2 : map au_bq l1 = map au_bq l2 -> au_sum l1 = au_sum l2.
Proof.
  intros H. unfold au_sum.
  assert (E : forall l, map au_term l = map (fun p => fst p * snd p) (map au_bq l)).
  { intros l. rewrite map_map. reflexivity. }
  rewrite !E, H. reflexivity.
Qed.

(** Two executions — arbitrary histories [opsA] from [wA] observing [aA], [opsB] from [wB]
    observing [aB]: whatever the other holders are, whatever anybody does in whatever order — in
    which the observed holder starts with the same accrued reward, the executed effective updates
    contribute the same total [SUM b_k * q_k] and the holder claimed the same total, end with the
    same accrued reward *)
Theorem AccrualHist_independent aA aB opsA opsB wA wB rA rB :
  RCoreW wA -> RCoreW wB ->
  w_reward (run_ops opsA wA) = Some rA -> w_reward (run_ops opsB wB) = Some rB ->
  ag_base (afold aA opsA wA (ag_init aA wA)) = ag_base (afold aB opsB wB (ag_init aB wB)) ->
  au_sum (ag_upds (afold aA opsA wA (ag_init aA wA)))
    = au_sum (ag_upds (afold aB opsB wB (ag_init aB wB))) ->
  ag_claimed (afold aA opsA wA (ag_init aA wA)) = ag_claimed (afold aB opsB wB (ag_init aB wB)) ->
  acc rA aA = acc rB aB.
Proof.
  intros HCA HCB HrA HrB Eb Es Ec.
  destruct (AccrualHist_closed_form aA opsA wA rA HCA HrA) as [HA _].
  destruct (AccrualHist_closed_form aB opsB wB rB HCB HrB) as [HB _]. lia.
Qed.

(** the form of the property text: same start world, same sequence of executed effective updates
    as seen by [a] (balance held, index delta), same sequence of claims by [a] *)
Theorem AccrualHist_independent_lists a opsA opsB w0 rA rB :
  RCoreW w0 -> NoReinst opsA -> NoReinst opsB ->
  w_reward (run_ops opsA w0) = Some rA -> w_reward (run_ops opsB w0) = Some rB ->
  map au_bq (ag_upds (afold a opsA w0 (ag_init a w0)))
    = map au_bq (ag_upds (afold a opsB w0 (ag_init a w0))) ->
  ag_claims (afold a opsA w0 (ag_init a w0)) = ag_claims (afold a opsB w0 (ag_init a w0)) ->
  acc rA a = acc rB a.
Proof.
  intros HC HnA HnB HrA HrB Eu Ec.
  apply (AccrualHist_independent a a opsA opsB w0 w0 rA rB HC HC HrA HrB).
  - rewrite !AccrualHist_base_noreinst by assumption. reflexivity.
  - apply au_sum_bq. exact Eu.
  - unfold ag_claimed. rewrite Ec. reflexivity.
Qed.

(** from the empty chain no condition on resets is needed *)
Theorem AccrualHist_independent_empty aA aB opsA opsB utA utB rA rB :
  w_reward (run_ops opsA (empty_world utA)) = Some rA ->
  w_reward (run_ops opsB (empty_world utB)) = Some rB ->
  map au_bq (ag_upds (afold aA opsA (empty_world utA) ag_zero))
    = map au_bq (ag_upds (afold aB opsB (empty_world utB) ag_zero)) ->
  ag_claims (afold aA opsA (empty_world utA) ag_zero)
    = ag_claims (afold aB opsB (empty_world utB) ag_zero) ->
  acc rA aA = acc rB aB.
Proof.
  intros HrA HrB Eu Ec.
  destruct (AccrualHist_closed_form_empty aA utA opsA rA HrA) as [HA _].
  destruct (AccrualHist_closed_form_empty aB utB opsB rB HrB) as [HB _].
  rewrite (au_sum_bq _ _ Eu) in HA. unfold ag_claimed in HA, HB. rewrite Ec in HA. lia.
Qed.

(** ** order of operations between two updates *)
(** after a common prefix, two arbitrary continuations [seg], [seg'] (e.g. one a permutation of
    the other, or with other holders' operations inserted / removed) that execute no effective
    index update and in which [a] makes the same claims leave [a] with the same accrued reward *)
Theorem AccrualHist_reorder_segment a pre seg seg' w0 r r' :
  RCoreW w0 -> NoReinst seg -> NoReinst seg' ->
  w_reward (run_ops (pre ++ seg) w0) = Some r -> w_reward (run_ops (pre ++ seg') w0) = Some r' ->
  ag_upds (afold a (pre ++ seg) w0 (ag_init a w0)) = ag_upds (afold a pre w0 (ag_init a w0)) ->
  ag_upds (afold a (pre ++ seg') w0 (ag_init a w0)) = ag_upds (afold a pre w0 (ag_init a w0)) ->
  ag_claims (afold a (pre ++ seg) w0 (ag_init a w0))
    = ag_claims (afold a (pre ++ seg') w0 (ag_init a w0)) ->
  acc r a = acc r' a.
Proof.
  intros HC Hn Hn' Hr Hr' Eu Eu' Ec.
  apply (AccrualHist_independent a a (pre ++ seg) (pre ++ seg') w0 w0 r r' HC HC Hr Hr').
  - rewrite !afold_app.
    rewrite (AccrualHist_base_noreinst a seg _ _ Hn), (AccrualHist_base_noreinst a seg' _ _ Hn').
    reflexivity.
  - rewrite Eu, Eu'. reflexivity.
  - unfold ag_claimed. rewrite Ec. reflexivity.
Qed.

(** operations whose root message is calm (every cw20 message of both tokens — Transfer, Send incl.
    unbond / convert hooks, Burn, TransferFrom, ... —, hub Bond, WithdrawUnbonded, ...; not
    ClaimRewards, not anything that can reach UpdateGlobalIndex) and every non-transaction
    operation except reset / reward re-instantiation *)
Definition calm_op (o : op) : Prop :=
  match o with
  | OTx _ t m f => calm (MWasm t m f) = true
  | _ => reinst o = false
  end.

Lemma amsg_calm a w s m w' g : calm m = true -> amsg a w s m w' g = g.
Proof.
  intros Hm. unfold amsg. destruct (w_reward w) as [r|]; [|reflexivity].
  destruct (rmsg_of m) as [rm|] eqn:Hrm; [|reflexivity].
  destruct (calm_no_update_no_claim (s, m) Hm) as [Hnu Hnc]. cbn [snd] in Hnu, Hnc.
  destruct rm; try reflexivity; [exfalso; eapply Hnc; exact Hrm | congruence].
Qed.

Lemma astep_calm a w o g : calm_op o -> astep a w o g = g.
Proof.
  intros Ho. destruct o; cbn [calm_op] in Ho; try discriminate Ho; try reflexivity.
  cbn [astep].
  destruct (arun a tx_fuel w [(sender, MWasm target m funds)] g) as [[w1 g1]|] eqn:E; [|reflexivity].
  pose (JJ := fun (x : world) (st : list (addr * cmsg)) (y : aghost) => Forall calm_s st /\ y = g).
  assert (HJ : JJ w1 [] g1).
  { eapply (arun_preserves a JJ); [| |exact E].
    - intros x s0 m0 rest x' out y [Hst Hy] Hs. apply Forall_cons_iff in Hst.
      destruct Hst as [Hm0 Hrest]. split.
      + apply Forall_app. split; [eapply calm_closed; eauto | exact Hrest].
      + rewrite amsg_calm by exact Hm0. exact Hy.
    - split; [constructor; [exact Ho | constructor] | reflexivity]. }
  exact (proj2 HJ).
Qed.

Lemma afold_calm a ops : forall w g, Forall calm_op ops -> afold a ops w g = g.
Proof.
  induction ops as [|o ops IH]; intros w g Hc; cbn [afold]; [reflexivity|].
  inversion Hc as [|x l Ho Hl]; subst. rewrite (astep_calm a w o g Ho). apply IH. exact Hl.
Qed.

(** history level "rewards already accrued stay with the holder who earned them": along any
    sequence of calm operations — by anybody, including [a] itself, in any order, of any length —
    the accrued reward of EVERY address [a] is exactly what it was before the sequence *)
Theorem AccrualHist_calm_segment a pre seg w0 r1 r :
  RCoreW w0 -> Forall calm_op seg ->
  w_reward (run_ops pre w0) = Some r1 -> w_reward (run_ops (pre ++ seg) w0) = Some r ->
  acc r a = acc r1 a.
Proof.
  intros HC Hc Hr1 Hr.
  destruct (AccrualHist_reachable a pre w0 (ag_init a w0) (AInv_init a w0 HC) r1 Hr1) as [_ H1].
  destruct (AccrualHist_reachable a (pre ++ seg) w0 (ag_init a w0) (AInv_init a w0 HC) r Hr) as [_ H2].
  rewrite afold_app, (afold_calm a seg _ _ Hc) in H2. lia.
Qed.

(** swapping two adjacent calm operations: same accrued reward right after them (and afterwards
    as long as the later updates deliver the same reward per bSei: [AccrualHist_independent_lists]) *)
Theorem AccrualHist_swap_calm a pre o1 o2 w0 r1 r r' :
  RCoreW w0 -> calm_op o1 -> calm_op o2 ->
  w_reward (run_ops pre w0) = Some r1 ->
  w_reward (run_ops (pre ++ [o1; o2]) w0) = Some r ->
  w_reward (run_ops (pre ++ [o2; o1]) w0) = Some r' ->
  acc r a = acc r' a /\ acc r a = acc r1 a.
Proof.
  intros HC H1 H2 Hr1 Hr Hr'.
  rewrite (AccrualHist_calm_segment a pre [o1; o2] w0 r1 r HC) by (repeat constructor; assumption).
  rewrite (AccrualHist_calm_segment a pre [o2; o1] w0 r1 r' HC) by (repeat constructor; assumption).
  split; reflexivity.
Qed.

(** * 7. all observed holders see the same updates *)
Definition au_ct (u : aupd) : N * N := (au_new u, au_tot u).

Lemma au_q_ct u u' : au_ct u = au_ct u' -> au_q u = au_q u'.
Proof. unfold au_ct, au_q. intros H. inversion H as [[E1 E2]]. rewrite E1, E2. reflexivity. Qed.

Lemma amsg_ct a a' w s m w' g g' :
  map au_ct (ag_upds g) = map au_ct (ag_upds g') ->
  map au_ct (ag_upds (amsg a w s m w' g)) = map au_ct (ag_upds (amsg a' w s m w' g')).
Proof.
  intros H. unfold amsg. destruct (w_reward w) as [r|]; [|exact H].
  destruct (rmsg_of m) as [rm|]; [|exact H]. destruct rm; try exact H.
  - destruct (s =? a), (s =? a'); exact H.
  - destruct (rw_total r =? 0); [exact H|]. cbn [ag_upds map]. rewrite H. reflexivity.
Qed.

Lemma arun_ct a a' : forall fuel w st g g',
  map au_ct (ag_upds g) = map au_ct (ag_upds g') ->
  match arun a fuel w st g, arun a' fuel w st g' with
  | Some (w1, g1), Some (w2, g2) => w1 = w2 /\ map au_ct (ag_upds g1) = map au_ct (ag_upds g2)
  | None, None => True
  | _, _ => False
  end.
Proof.
  induction fuel as [|f IH]; intros w st g g' H.
  - destruct st as [|[s m] rest]; cbn [arun]; [split; [reflexivity | exact H] | exact I].
  - destruct st as [|[s m] rest]; cbn [arun]; [split; [reflexivity | exact H]|].
    destruct (step_msg w s m) as [[w1 o]|]; cbn [bind fst snd]; [|exact I].
    apply IH. apply amsg_ct. exact H.
Qed.

Lemma astep_ct a a' w o g g' :
  map au_ct (ag_upds g) = map au_ct (ag_upds g') ->
  map au_ct (ag_upds (astep a w o g)) = map au_ct (ag_upds (astep a' w o g')).
Proof.
  intros H. destruct o; try exact H; try reflexivity. cbn [astep].
  pose proof (arun_ct a a' tx_fuel w [(sender, MWasm target m funds)] g g' H) as Hc.
  destruct (arun a tx_fuel w [(sender, MWasm target m funds)] g) as [[w1 g1]|];
    destruct (arun a' tx_fuel w [(sender, MWasm target m funds)] g') as [[w2 g2]|];
    try contradiction; [exact (proj2 Hc) | exact H].
Qed.

Theorem AccrualHist_ct_same a a' ops : forall w g g',
  map au_ct (ag_upds g) = map au_ct (ag_upds g') ->
  map au_ct (ag_upds (afold a ops w g)) = map au_ct (ag_upds (afold a' ops w g')).
Proof.
  induction ops as [|o ops IH]; intros w g g' H; cbn [afold]; [exact H|].
  apply IH. apply astep_ct. exact H.
Qed.

(** * 8. (3) one account or two *)
(** update by update: same reward per bSei, and the single account's balance is the sum of the
    two part accounts' balances *)
Fixpoint SplitUpds (l l1 l2 : list aupd) : Prop :=
  match l, l1, l2 with
  | [], [], [] => True
  | u :: l', u1 :: l1', u2 :: l2' =>
      au_q u = au_q u1 /\ au_q u = au_q u2 /\ au_bal u = au_bal u1 + au_bal u2 /\ SplitUpds l' l1' l2'
  | _, _, _ => False
  end.

(** balances only (for part accounts observed in the same history the rest is automatic) *)
Fixpoint SplitBal (l l1 l2 : list aupd) : Prop :=
  match l, l1, l2 with
  | [], [], [] => True
  | u :: l', u1 :: l1', u2 :: l2' => au_bal u = au_bal u1 + au_bal u2 /\ SplitBal l' l1' l2'
  | _, _, _ => False
  end.

Lemma SplitBal_ct l : forall l1 l2,
  SplitBal l l1 l2 -> map au_ct l = map au_ct l1 -> map au_ct l = map au_ct l2 -> SplitUpds l l1 l2.
Proof.
  induction l as [|u l IH]; intros [|u1 l1] [|u2 l2] HS E1 E2; cbn [SplitBal SplitUpds] in *;
    try contradiction; try exact I.
  cbn [map] in E1, E2. inversion E1 as [[A1 A2 A3]]. inversion E2 as [[B1 B2 B3]].
  destruct HS as [Hb HS].
  split; [unfold au_q; rewrite A1, A2; reflexivity|].
  split; [unfold au_q; rewrite B1, B2; reflexivity|]. split; [exact Hb|].
  apply IH; assumption.
Qed.

Lemma SplitUpds_sum l : forall l1 l2, SplitUpds l l1 l2 -> au_sum l = au_sum l1 + au_sum l2.
Proof.
  induction l as [|u l IH]; intros [|u1 l1] [|u2 l2] HS; cbn [SplitUpds] in HS; try contradiction.
  - reflexivity.
  - destruct HS as (Q1 & Q2 & Hb & HS). rewrite !au_sum_cons, (IH l1 l2 HS). unfold au_term.
    rewrite <- Q1, <- Q2, Hb. lia.
Qed.

(** history [opsA] with the position in the single account [a]; history [opsB] with the position
    split over [a1], [a2] (any other differences allowed): if at every executed effective update
    the reward per bSei agrees and b_k(a) = b_k(a1) + b_k(a2), then what the single account earned
    (still accrued + already claimed, above its start value) is EXACTLY the sum of what the two
    part accounts earned, in atomics *)
Theorem AccrualHist_split a a1 a2 opsA opsB wA wB rA rB :
  RCoreW wA -> RCoreW wB ->
  w_reward (run_ops opsA wA) = Some rA -> w_reward (run_ops opsB wB) = Some rB ->
  SplitUpds (ag_upds (afold a opsA wA (ag_init a wA)))
            (ag_upds (afold a1 opsB wB (ag_init a1 wB))) (ag_upds (afold a2 opsB wB (ag_init a2 wB))) ->
  acc rA a + ag_claimed (afold a opsA wA (ag_init a wA))
    + ag_base (afold a1 opsB wB (ag_init a1 wB)) + ag_base (afold a2 opsB wB (ag_init a2 wB))
  = (acc rB a1 + ag_claimed (afold a1 opsB wB (ag_init a1 wB)))
    + (acc rB a2 + ag_claimed (afold a2 opsB wB (ag_init a2 wB)))
    + ag_base (afold a opsA wA (ag_init a wA)).
Proof.
  intros HCA HCB HrA HrB HS.
  destruct (AccrualHist_closed_form a opsA wA rA HCA HrA) as [HA _].
  destruct (AccrualHist_closed_form a1 opsB wB rB HCB HrB) as [H1 _].
  destruct (AccrualHist_closed_form a2 opsB wB rB HCB HrB) as [H2 _].
  pose proof (SplitUpds_sum _ _ _ HS) as Hsum. lia.
Qed.

(** from the empty chain: earned = accrued + claimed; the totals add exactly, hence the whole
    units obtainable differ by less than one base unit (never in favour of the split position) *)
Theorem AccrualHist_split_units a a1 a2 opsA opsB utA utB rA rB :
  w_reward (run_ops opsA (empty_world utA)) = Some rA ->
  w_reward (run_ops opsB (empty_world utB)) = Some rB ->
  SplitUpds (ag_upds (afold a opsA (empty_world utA) ag_zero))
            (ag_upds (afold a1 opsB (empty_world utB) ag_zero))
            (ag_upds (afold a2 opsB (empty_world utB) ag_zero)) ->
  let e := acc rA a + ag_claimed (afold a opsA (empty_world utA) ag_zero) in
  let e1 := acc rB a1 + ag_claimed (afold a1 opsB (empty_world utB) ag_zero) in
  let e2 := acc rB a2 + ag_claimed (afold a2 opsB (empty_world utB) ag_zero) in
  e = e1 + e2 /\ e1 / D + e2 / D <= e / D /\ e / D <= e1 / D + e2 / D + 1.
Proof.
  intros HrA HrB HS e e1 e2.
  destruct (AccrualHist_closed_form_empty a utA opsA rA HrA) as [HA _].
  destruct (AccrualHist_closed_form_empty a1 utB opsB rB HrB) as [H1 _].
  destruct (AccrualHist_closed_form_empty a2 utB opsB rB HrB) as [H2 _].
  pose proof (SplitUpds_sum _ _ _ HS) as Hsum.
  assert (E : e = e1 + e2) by (unfold e, e1, e2; lia).
  split; [exact E|]. rewrite E. destruct (split_payout e1 e2) as (P1 & P2 & _). split; assumption.
Qed.

(** part accounts observed in the SAME history as each other: the (c_k, T_k) agree automatically,
    so against a single-account history only the (c_k, T_k) of the two histories and the balance
    sums have to be compared *)
Theorem AccrualHist_split_same_history a a1 a2 opsA opsB utA utB :
  map au_ct (ag_upds (afold a opsA (empty_world utA) ag_zero))
    = map au_ct (ag_upds (afold a1 opsB (empty_world utB) ag_zero)) ->
  SplitBal (ag_upds (afold a opsA (empty_world utA) ag_zero))
           (ag_upds (afold a1 opsB (empty_world utB) ag_zero))
           (ag_upds (afold a2 opsB (empty_world utB) ag_zero)) ->
  SplitUpds (ag_upds (afold a opsA (empty_world utA) ag_zero))
            (ag_upds (afold a1 opsB (empty_world utB) ag_zero))
            (ag_upds (afold a2 opsB (empty_world utB) ag_zero)).
Proof.
  intros E HS. apply SplitBal_ct; [exact HS | exact E|].
  rewrite E. apply AccrualHist_ct_same. reflexivity.
Qed.

(** * 8b. complements *)
(** the recorded claim is what the reward contract really paid: an executed ClaimRewards signed
    by [a] emits exactly one bank send of [acc r a / D] reward coins (to the recipient, by default
    [a]), records that amount, and leaves [a] with the sub-unit remainder *)
Theorem AccrualHist_claim_is_payout a w m w' out g r rcp :
  step_msg w a m = Some (w', out) -> w_reward w = Some r -> rmsg_of m = Some (RClaim rcp) ->
  amsg a w a m w' g = mkAG (ag_base g) (ag_upds g) (acc r a / D :: ag_claims g) /\
  acc r a / D <> 0 /\
  out = [(A_reward, MBank (claim_to rcp a) [(rw_denom r, acc r a / D)])] /\
  exists r', w_reward w' = Some r' /\ acc r' a = acc r a mod D /\
             ho_bal (holder_of r' a) = ho_bal (holder_of r a).
Proof.
  intros H Hr Hrm. split; [unfold amsg; rewrite Hr, Hrm, N.eqb_refl; reflexivity|].
  destruct (step_msg_geffect _ _ _ _ _ H)
    as [to Hn _ _ _ | w1 r0 rm r' o Hrm0 Hr0 Henv He Hr' ->]; [congruence|].
  assert (r0 = r) by congruence. assert (rm = RClaim rcp) by congruence. subst r0 rm.
  apply rclaim_iff in He. destruct He as (_ & Hnz & _ & -> & ->).
  split; [exact Hnz|]. split; [reflexivity|].
  exists (claim_state r a). split; [exact Hr'|]. split; [apply acc_claim_self|].
  unfold claim_state. rewrite holder_of_upd_same. reflexivity.
Qed.

(** increments: over ANY continuation [ops2] (no reset / re-instantiation) of a history [ops1]
    the quantity "accrued + claimed" of [a] grows by exactly the terms [b_k * q_k] of the effective
    updates executed during [ops2] — nothing else any account does contributes anything *)
Theorem AccrualHist_increment a ops1 ops2 w0 r1 r2 :
  RCoreW w0 -> NoReinst ops2 ->
  w_reward (run_ops ops1 w0) = Some r1 -> w_reward (run_ops (ops1 ++ ops2) w0) = Some r2 ->
  exists new,
    ag_upds (afold a (ops1 ++ ops2) w0 (ag_init a w0)) = new ++ ag_upds (afold a ops1 w0 (ag_init a w0)) /\
    acc r2 a + ag_claimed (afold a (ops1 ++ ops2) w0 (ag_init a w0))
      = acc r1 a + ag_claimed (afold a ops1 w0 (ag_init a w0)) + au_sum new.
Proof.
  intros HC Hn Hr1 Hr2.
  destruct (AccrualHist_late_tokens a ops1 ops2 w0 (ag_init a w0) Hn) as (new & E & Es).
  exists new. split; [exact E|].
  destruct (AccrualHist_closed_form a ops1 w0 r1 HC Hr1) as [H1 _].
  destruct (AccrualHist_closed_form a (ops1 ++ ops2) w0 r2 HC Hr2) as [H2 _].
  assert (Eb : ag_base (afold a (ops1 ++ ops2) w0 (ag_init a w0))
               = ag_base (afold a ops1 w0 (ag_init a w0)))
    by (rewrite afold_app; apply AccrualHist_base_noreinst; exact Hn).
  lia.
Qed.

(** the effective updates recorded here are those counted by the ghost [wg_upds] of C14w *)
Lemma amsg_gmsg_tot a d0 w s m w' g y :
  map au_tot (ag_upds g) = wg_upds y ->
  map au_tot (ag_upds (amsg a w s m w' g)) = wg_upds (gmsg d0 w s m w' y).
Proof.
  intros H. unfold amsg, gmsg. destruct (w_reward w) as [r|]; [|exact H].
  destruct (rmsg_of m) as [rm|]; [|exact H]. destruct rm; cbn [eff_tot wg_upds app]; try exact H.
  - destruct (s =? a); exact H.
  - destruct (rw_total r =? 0); [exact H|]. cbn [ag_upds map au_tot app]. rewrite H. reflexivity.
Qed.

Lemma arun_grun_tot a d0 : forall fuel w st g y,
  map au_tot (ag_upds g) = wg_upds y ->
  match arun a fuel w st g, grun d0 fuel w st y with
  | Some (_, g1), Some (_, y1) => map au_tot (ag_upds g1) = wg_upds y1
  | None, None => True
  | _, _ => False
  end.
Proof.
  induction fuel as [|f IH]; intros w st g y H.
  - destruct st as [|[s m] rest]; cbn [arun grun]; [exact H | exact I].
  - destruct st as [|[s m] rest]; cbn [arun grun]; [exact H|].
    destruct (step_msg w s m) as [[w1 o]|]; cbn [bind fst snd]; [|exact I].
    apply IH. apply amsg_gmsg_tot. exact H.
Qed.

Theorem AccrualHist_upds_match_C14w a d0 ops : forall w g y,
  Forall (fun o => match o with OInstReward _ _ _ _ _ => False | _ => True end) ops ->
  map au_tot (ag_upds g) = wg_upds y ->
  map au_tot (ag_upds (afold a ops w g)) = wg_upds (gfold d0 ops w y).
Proof.
  induction ops as [|o ops IH]; intros w g y Hn H; cbn [afold gfold]; [exact H|].
  inversion Hn as [|x l Ho Hl]; subst. apply IH; [exact Hl|].
  destruct o; try exact H; try reflexivity; try contradiction. cbn [astep gstep].
  pose proof (arun_grun_tot a d0 tx_fuel w [(sender, MWasm target m funds)] g y H) as Hc.
  destruct (arun a tx_fuel w [(sender, MWasm target m funds)] g) as [[w1 g1]|];
    destruct (grun d0 tx_fuel w [(sender, MWasm target m funds)] y) as [[w2 y2]|];
    try contradiction; [exact Hc | exact H].
Qed.

(** * 9. (4) non-vacuity: concrete chain histories
    Deployment [genesis_ops] of ExitWorld.v (six wired contracts, keeper rate 5 %, alice bonds
    1 000 000 usei for bSei, bob 2 000 000 usei for stSei); index updates run through the REAL
    pipeline (hub UpdateGlobalIndex -> withdraw staking rewards -> dispatcher swap / dispatch ->
    reward contract UpdateGlobalIndex in the hub-shaped wire format). *)
From Krp Require Import ExitWorld.

Definition ah_carol : addr := 15.
Definition ah_dave : addr := 16.
Definition ah_erin : addr := 17.
Definition ah_frank : addr := 18.
Definition ah_upd : op := OTx updater A_hub (WHub (HUpdateGlobal 0)) [].

(** history A: alice sends 300 000 bSei to carol; staking rewards accrue; index update 1 (supply
    1 000 000, 18 050 uusd reach the reward contract); alice sends 200 000 to dave; carol unbonds
    100 001 through Send/Receive (the hub burns them); rewards accrue; index update 2 (supply
    899 999, 12 204 uusd: the index increment is rounded); alice claims *)
Definition ah_acts : list op :=
  [ OTx alice A_bsei (WCw20 (CTransfer ah_carol 300000)) [];
    OAccrue 0 usei 50000; OAccrue 1 uusd 7000;
    ah_upd;
    OTx alice A_bsei (WCw20 (CTransfer ah_dave 200000)) [];
    OTx ah_carol A_bsei (WCw20 (CSend A_hub 100001 HkUnbond)) [];
    OAccrue 2 uusd 9001; OAccrue 0 usei 30000;
    ah_upd;
    OTx alice A_reward (WReward (RClaim None)) [] ].
Definition ah_ops : list op := genesis_ops ++ ah_acts.

Fixpoint ah_outcomes (ops : list op) (w : world) : list bool :=
  match ops with [] => [] | o :: r => fst (snd (step w o)) :: ah_outcomes r (fst (step w o)) end.

Lemma ah_no_reward_root : NoRewardRoot ah_ops.
Proof.
  unfold NoRewardRoot, ah_ops, genesis_ops, ah_acts. cbn [app].
  repeat constructor; intro X; vm_compute in X; discriminate X.
Qed.

Lemma ah_always_renv : always (REnv uusd) ah_ops (empty_world 100).
Proof.
  unfold ah_ops, genesis_ops, ah_acts. cbn [app always].
  repeat (split; [apply renv_check; vm_compute; try exact I;
                  repeat split; try reflexivity; intros [X|[]]; discriminate X|]).
  exact I.
Qed.

Lemma ah_always_rtot : always (RTot LIM) ah_ops (empty_world 100).
Proof.
  unfold ah_ops, genesis_ops, ah_acts. cbn [app always].
  repeat (split; [apply rtot_check; vm_compute; try exact I; intro X; discriminate X|]).
  exact I.
Qed.

Lemma ah_always_mirror : always Mirror ah_ops (empty_world 100).
Proof.
  apply mirror_genesis.
  - vm_compute.
    repeat match goal with
           | |- _ /\ _ => split
           | |- True => exact I
           | |- _ \/ _ =>
               first [ solve [ left; split; intros x E; first [discriminate E | inversion E; subst; split; reflexivity] ]
                     | solve [ right; repeat split ] ]
           end.
  - vm_compute.
    repeat match goal with
           | |- _ /\ _ => split
           | |- True => exact I
           | |- _ <> _ => discriminate
           | |- _ = _ -> False => discriminate
           | |- forall x, _ = Some x -> _ =>
               intros x E; first [discriminate E | inversion E; subst; split; reflexivity]
           end.
Qed.

(** every operation of the history succeeds; the hypotheses of all history theorems hold; the
    ghost of alice: 700 000 bSei at update 1 (q = 0.01805), 500 000 at update 2
    (q = 12204 * 10^18 / 899999 = 0.013560015066683407, rounded down), one claim of 19 415 uusd;
    closed form: 0.0075333417035 = 700000 * q1 + 500000 * q2 - 19415 (18 decimals) *)
Example AccrualHist_nonvacuous :
  Forall (fun b => b = true) (ah_outcomes ah_ops (empty_world 100)) /\
  RCoreW (empty_world 100) /\ NoRewardRoot ah_ops /\ always (REnv uusd) ah_ops (empty_world 100) /\
  always (RTot LIM) ah_ops (empty_world 100) /\ always Mirror ah_ops (empty_world 100) /\
  afold alice ah_ops (empty_world 100) ag_zero
    = mkAG 0 [mkAU 500000 12204 899999; mkAU 700000 18050 1000000] [19415] /\
  map au_bq (ag_upds (afold alice ah_ops (empty_world 100) ag_zero))
    = [(500000, 13560015066683407); (700000, 18050000000000000)] /\
  au_sum (ag_upds (afold alice ah_ops (empty_world 100) ag_zero)) = 19415007533341703500000 /\
  ag_claimed (afold alice ah_ops (empty_world 100) ag_zero) = 19415000000000000000000 /\
  Forall (AUok LIM) (ag_upds (afold alice ah_ops (empty_world 100) ag_zero)) /\
  wg_upds (gfold uusd ah_ops (empty_world 100) g_zero) = [899999; 1000000] /\
  exists r, w_reward (run_ops ah_ops (empty_world 100)) = Some r /\
    acc r alice = 7533341703500000 /\
    acc r ah_carol = 8126989453321614716593 /\ acc r ah_dave = 2712003013336681400000 /\
    bal (w_env (run_ops ah_ops (empty_world 100))) alice uusd = 19415.
Proof.
  split; [vm_compute; repeat constructor|]. split; [apply RCoreW_empty|].
  split; [exact ah_no_reward_root|]. split; [exact ah_always_renv|].
  split; [exact ah_always_rtot|]. split; [exact ah_always_mirror|].
  split; [vm_compute; reflexivity|]. split; [vm_compute; reflexivity|].
  split; [vm_compute; reflexivity|]. split; [vm_compute; reflexivity|].
  split; [apply (AccrualHist_upds_ok alice LIM ah_ops (empty_world 100) (RCoreW_empty 100) ah_always_rtot)|].
  split; [vm_compute; reflexivity|].
  eexists. split; [vm_compute; reflexivity|]. repeat split; vm_compute; reflexivity.
Qed.

(** the recorded balances are the bSei balances in the worlds in which the two updating
    transactions started *)
Example AccrualHist_balances_nonvacuous :
  exists t1 t2,
    w_bsei (run_ops (genesis_ops ++ firstn 3 ah_acts) (empty_world 100)) = Some t1 /\
    w_bsei (run_ops (genesis_ops ++ firstn 8 ah_acts) (empty_world 100)) = Some t2 /\
    tbal t1 alice = 700000 /\ tk_supply t1 = 1000000 /\
    tbal t2 alice = 500000 /\ tk_supply t2 = 899999 /\
    tbal t2 ah_carol = 199999 /\ tbal t2 ah_dave = 200000.
Proof. do 2 eexists. split; [vm_compute; reflexivity|]. split; [vm_compute; reflexivity|]. repeat split. Qed.

(** between the two updates (transfer to dave, carol's unbond, accruals at the validators):
    hypotheses of [AccrualHist_between_updates] from the world right after update 1 *)
Definition ah_w1 : world := Eval vm_compute in run_ops (genesis_ops ++ firstn 4 ah_acts) (empty_world 100).
Definition ah_seg : list op := firstn 4 (skipn 4 ah_acts).

Example AccrualHist_between_nonvacuous :
  RCoreW ah_w1 /\ NoReinst ah_seg /\ Forall calm_op ah_seg /\
  Forall (fun b => b = true) (ah_outcomes ah_seg ah_w1) /\
  ag_upds (afold alice ah_seg ah_w1 (ag_init alice ah_w1)) = [] /\
  ag_claims (afold alice ah_seg ah_w1 (ag_init alice ah_w1)) = [] /\
  exists r0 r, w_reward ah_w1 = Some r0 /\ w_reward (run_ops ah_seg ah_w1) = Some r /\
    acc r0 alice = 12635000000000000000000 /\ acc r alice = 12635000000000000000000 /\
    ho_bal (holder_of r0 alice) = 700000 /\ ho_bal (holder_of r alice) = 500000.
Proof.
  split.
  { apply RWInv_RCoreW.
    assert (E : run_ops (genesis_ops ++ firstn 4 ah_acts) (empty_world 100) = ah_w1)
      by (vm_compute; reflexivity).
    rewrite <- E. apply (rwinv_from_empty uusd).
    - unfold NoRewardRoot, genesis_ops, ah_acts. cbn [app firstn].
      repeat constructor; intro X; vm_compute in X; discriminate X.
    - unfold genesis_ops, ah_acts. cbn [app firstn always].
      repeat (split; [apply renv_check; vm_compute; try exact I;
                      repeat split; try reflexivity; intros [X|[]]; discriminate X|]).
      exact I. }
  split; [repeat constructor|]. split; [repeat constructor|].
  split; [vm_compute; repeat constructor|].
  split; [vm_compute; reflexivity|]. split; [vm_compute; reflexivity|].
  do 2 eexists. split; [vm_compute; reflexivity|]. split; [vm_compute; reflexivity|].
  repeat split; vm_compute; reflexivity.
Qed.

(** history B: the OTHER holders are different people doing different things in a different order
    (dave instead of carol, extra transfers to frank / erin / carol, the unbond before alice's
    transfer), alice holds the same balances at the two updates and claims once: hypotheses of
    [AccrualHist_independent_lists] / [AccrualHist_independent_empty], and the conclusion *)
Definition ah_actsB : list op :=
  [ OTx alice A_bsei (WCw20 (CTransfer ah_dave 300000)) [];
    OTx ah_dave A_bsei (WCw20 (CTransfer ah_frank 1234)) [];
    OAccrue 0 usei 50000; OAccrue 1 uusd 7000;
    ah_upd;
    OTx ah_dave A_bsei (WCw20 (CSend A_hub 100001 HkUnbond)) [];
    OTx alice A_bsei (WCw20 (CTransfer ah_erin 200000)) [];
    OTx ah_erin A_bsei (WCw20 (CTransfer ah_carol 77)) [];
    OTx ah_frank A_bsei (WCw20 (CTransfer ah_dave 234)) [];
    OAccrue 2 uusd 9001; OAccrue 0 usei 30000;
    ah_upd;
    OTx alice A_reward (WReward (RClaim None)) [] ].
Definition ah_w0 : world := Eval vm_compute in run_ops genesis_ops (empty_world 100).

Example AccrualHist_independent_nonvacuous :
  RCoreW ah_w0 /\ NoReinst ah_acts /\ NoReinst ah_actsB /\
  Forall (fun b => b = true) (ah_outcomes ah_actsB ah_w0) /\
  map au_bq (ag_upds (afold alice ah_acts ah_w0 (ag_init alice ah_w0)))
    = map au_bq (ag_upds (afold alice ah_actsB ah_w0 (ag_init alice ah_w0))) /\
  ag_claims (afold alice ah_acts ah_w0 (ag_init alice ah_w0))
    = ag_claims (afold alice ah_actsB ah_w0 (ag_init alice ah_w0)) /\
  exists rA rB, w_reward (run_ops ah_acts ah_w0) = Some rA /\ w_reward (run_ops ah_actsB ah_w0) = Some rB /\
    acc rA alice = 7533341703500000 /\ acc rB alice = 7533341703500000 /\
    acc rA ah_dave = 2712003013336681400000 /\ acc rB ah_dave = 8091155738254931309593.
Proof.
  split.
  { apply RWInv_RCoreW.
    assert (E : run_ops genesis_ops (empty_world 100) = ah_w0) by (vm_compute; reflexivity).
    rewrite <- E. apply (rwinv_from_empty uusd).
    - unfold NoRewardRoot, genesis_ops. repeat constructor; intro X; vm_compute in X; discriminate X.
    - unfold genesis_ops. cbn [always].
      repeat (split; [apply renv_check; vm_compute; try exact I;
                      repeat split; try reflexivity; intros [X|[]]; discriminate X|]).
      exact I. }
  split; [repeat constructor|]. split; [repeat constructor|].
  split; [vm_compute; repeat constructor|].
  split; [vm_compute; reflexivity|]. split; [vm_compute; reflexivity|].
  do 2 eexists. split; [vm_compute; reflexivity|]. split; [vm_compute; reflexivity|].
  repeat split; vm_compute; reflexivity.
Qed.

(** the hypothesis "same index deltas q_k" of the independence theorems cannot be dropped, and the
    order of OTHER holders' operations does matter beyond the next update: carol (not alice)
    bonds 100 000 usei and unbonds 350 000 bSei.  Bond first: both succeed, supply 750 000 at
    update 2.  Unbond first: it fails (carol holds 300 000), the bond succeeds, supply 1 100 000.
    Neither operation is signed by alice, touches her balance or executes an index update, and
    right after the two operations alice's accrued reward is the same — but update 2 then delivers
    a different reward per bSei, so alice (700 000 bSei in both runs) ends with different rewards.
    This is the pro-rata rule itself, not a defect. *)
Definition ah_sw_pre : list op := genesis_ops ++
  [ OTx alice A_bsei (WCw20 (CTransfer ah_carol 300000)) [];
    OAccrue 0 usei 50000; OAccrue 1 uusd 7000; ah_upd; OGift ah_carol usei 100000 ].
Definition ah_sw_o1 : op := OTx ah_carol A_hub (WHub HBond) [(usei, 100000)].
Definition ah_sw_o2 : op := OTx ah_carol A_bsei (WCw20 (CSend A_hub 350000 HkUnbond)) [].
Definition ah_sw_post : list op := [ OAccrue 2 uusd 9001; OAccrue 0 usei 30000; ah_upd ].

Example AccrualHist_swap_needs_same_rate_witness :
  calm_op ah_sw_o1 /\ calm_op ah_sw_o2 /\
  ag_upds (afold alice (ah_sw_pre ++ [ah_sw_o1; ah_sw_o2] ++ ah_sw_post) (empty_world 100) ag_zero)
    = [mkAU 700000 12996 750000; mkAU 700000 18050 1000000] /\
  ag_upds (afold alice (ah_sw_pre ++ [ah_sw_o2; ah_sw_o1] ++ ah_sw_post) (empty_world 100) ag_zero)
    = [mkAU 700000 12996 1100000; mkAU 700000 18050 1000000] /\
  exists r12 r21 r r',
    w_reward (run_ops (ah_sw_pre ++ [ah_sw_o1; ah_sw_o2]) (empty_world 100)) = Some r12 /\
    w_reward (run_ops (ah_sw_pre ++ [ah_sw_o2; ah_sw_o1]) (empty_world 100)) = Some r21 /\
    w_reward (run_ops (ah_sw_pre ++ [ah_sw_o1; ah_sw_o2] ++ ah_sw_post) (empty_world 100)) = Some r /\
    w_reward (run_ops (ah_sw_pre ++ [ah_sw_o2; ah_sw_o1] ++ ah_sw_post) (empty_world 100)) = Some r' /\
    acc r12 alice = 12635000000000000000000 /\ acc r21 alice = 12635000000000000000000 /\
    acc r alice = 24764600000000000000000 /\ acc r' alice = 20905181818181817800000.
Proof.
  split; [reflexivity|]. split; [reflexivity|].
  split; [vm_compute; reflexivity|]. split; [vm_compute; reflexivity|].
  do 4 eexists. split; [vm_compute; reflexivity|]. split; [vm_compute; reflexivity|].
  split; [vm_compute; reflexivity|]. split; [vm_compute; reflexivity|].
  repeat split; vm_compute; reflexivity.
Qed.

(** history S: alice's position split over alice and erin (250 000 moved to erin first; the later
    transfer to dave comes partly from each).  Hypotheses of [AccrualHist_split_units] /
    [AccrualHist_split_same_history]; earned(single alice) = earned(alice) + earned(erin) exactly;
    whole units 19 415 against 12 190 + 7 224 = 19 414 *)
Definition ah_actsS : list op :=
  [ OTx alice A_bsei (WCw20 (CTransfer ah_erin 250000)) [];
    OTx alice A_bsei (WCw20 (CTransfer ah_carol 300000)) [];
    OAccrue 0 usei 50000; OAccrue 1 uusd 7000;
    ah_upd;
    OTx alice A_bsei (WCw20 (CTransfer ah_dave 150000)) [];
    OTx ah_erin A_bsei (WCw20 (CTransfer ah_dave 50000)) [];
    OTx ah_carol A_bsei (WCw20 (CSend A_hub 100001 HkUnbond)) [];
    OAccrue 2 uusd 9001; OAccrue 0 usei 30000;
    ah_upd;
    OTx alice A_reward (WReward (RClaim None)) [] ].
Definition ah_opsS : list op := genesis_ops ++ ah_actsS.

Example AccrualHist_split_nonvacuous :
  map au_ct (ag_upds (afold alice ah_ops (empty_world 100) ag_zero))
    = map au_ct (ag_upds (afold alice ah_opsS (empty_world 100) ag_zero)) /\
  SplitBal (ag_upds (afold alice ah_ops (empty_world 100) ag_zero))
           (ag_upds (afold alice ah_opsS (empty_world 100) ag_zero))
           (ag_upds (afold ah_erin ah_opsS (empty_world 100) ag_zero)) /\
  SplitUpds (ag_upds (afold alice ah_ops (empty_world 100) ag_zero))
            (ag_upds (afold alice ah_opsS (empty_world 100) ag_zero))
            (ag_upds (afold ah_erin ah_opsS (empty_world 100) ag_zero)) /\
  ag_upds (afold alice ah_opsS (empty_world 100) ag_zero)
    = [mkAU 300000 12204 899999; mkAU 450000 18050 1000000] /\
  ag_upds (afold ah_erin ah_opsS (empty_world 100) ag_zero)
    = [mkAU 200000 12204 899999; mkAU 250000 18050 1000000] /\
  ag_claims (afold alice ah_opsS (empty_world 100) ag_zero) = [12190] /\
  ag_claims (afold ah_erin ah_opsS (empty_world 100) ag_zero) = [] /\
  exists rA rS,
    w_reward (run_ops ah_ops (empty_world 100)) = Some rA /\
    w_reward (run_ops ah_opsS (empty_world 100)) = Some rS /\
    acc rA alice + ag_claimed (afold alice ah_ops (empty_world 100) ag_zero) = 19415007533341703500000 /\
    acc rS alice + ag_claimed (afold alice ah_opsS (empty_world 100) ag_zero) = 12190504520005022100000 /\
    acc rS ah_erin + ag_claimed (afold ah_erin ah_opsS (empty_world 100) ag_zero) = 7224503013336681400000.
Proof.
  assert (E : map au_ct (ag_upds (afold alice ah_ops (empty_world 100) ag_zero))
              = map au_ct (ag_upds (afold alice ah_opsS (empty_world 100) ag_zero)))
    by (vm_compute; reflexivity).
  assert (S : SplitBal (ag_upds (afold alice ah_ops (empty_world 100) ag_zero))
                       (ag_upds (afold alice ah_opsS (empty_world 100) ag_zero))
                       (ag_upds (afold ah_erin ah_opsS (empty_world 100) ag_zero)))
    by (vm_compute; repeat split).
  split; [exact E|]. split; [exact S|].
  split; [exact (AccrualHist_split_same_history alice alice ah_erin ah_ops ah_opsS 100 100 E S)|].
  split; [vm_compute; reflexivity|]. split; [vm_compute; reflexivity|].
  split; [vm_compute; reflexivity|]. split; [vm_compute; reflexivity|].
  do 2 eexists. split; [vm_compute; reflexivity|]. split; [vm_compute; reflexivity|].
  repeat split; vm_compute; reflexivity.
Qed.

(* restore the development's default arithmetic hook for files loaded after this one *)
Ltac Zify.zify_post_hook ::= Z.div_mod_to_equations.
