(** * HubRates: pricing of the hub handlers (C03) and monotonicity of the exchange rates (C04).

    Level of the statements: the hub handlers of Model/Hub.v as functions of a world [w] (token
    supplies, delegations) and the hub state [h].  The effect of the emitted cw20 Mint / Burn
    messages on the token supply is explicit: the theorems name the minted / burned amount in the
    emitted message list and speak about [rate_of backing' (supply +/- amount + requests')].

    Vocabulary
    - [rate_of B C]  (Proofs/Inv.v): what the State query reports for backing B and claims C.
    - [Backed B C]   : claims are backed, [0 < C -> 0 < B]          (complement of finding F5).
    - [Sound r B C]  : [0 < r /\ r * C <= B * D]: the stored 18-decimal rate is positive and not
                       above backing over claims.  It holds for the synchronised rate of a backed
                       pool ([synced_sound]) and for a stale stored rate of a pool without claims.

    Main theorems (C03)
    - [exchange_rate_total], [exchange_rate_some] : exchange_rate b i r = Some (rate_of b (i+r)).
    - [reported_rate], [reported_rate_total]      : complete description of query_actual_state when
                                                    stake is bonded and booked; [reported_rate_nodeleg],
                                                    [reported_rate_unbooked]: degenerate cases.
    - [slashing_no_loss]                          : CheckSlashing without loss leaves both pools alone.
    - [bond_b_mints], [bond_st_mints], [bond_rw_mints] : what Bond / BondForStSei / BondRewards mint,
                                                    emit and store.
    - [bond_rejects_*], [mint_zero_rejected*]     : no payment / wrong denom / zero / two coins are
                                                    rejected; a CMint of 0 tokens is rejected by both tokens.
    - [convert_st_b_prices], [convert_b_st_prices]: conversion prices, pool moves, burn and mint.
    - [unbond_b_effect], [unbond_st_effect]       : unbond requests (peg fee, batch, burn) up to the
                                                    optional batch closing.
    - [unbond_b_cases], [unbond_st_cases]         : the two branches (request recorded / batch closed)
                                                    with the history entry, its rates and the
                                                    undelegated total.
    - [undelegation_value]                        : process_undelegations undelegates
                                                    mulU reqst ser + mulU reqb ber, records the rates,
                                                    subtracts exactly these amounts from the pools.
    - [round_mint], [round_value], [*_rounding]   : every rounding is in the pool's favour.
    Main theorems (C04)
    - [bond_b_rate_mono], [bond_st_rate_mono], [bond_rw_rate_mono], [unbond_b_rate_mono],
      [unbond_st_rate_mono], [convert_st_b_rate_mono], [convert_b_st_rate_mono] : no pricing handler
      lowers a rate of a token that still has claims; [Backed] is preserved.
    - [rate_step], [slashing_sound], [synced_sound]: arithmetic core; where [Sound] comes from.
    - [slashing_no_loss], [check_slashing_no_loss]: a synchronisation without loss changes no pool.
    - [coin_value_monotone]                       : floor(balance x rate) follows the rate.
    - [F5_backed_lost_witness], [F5_bond_lowers_rate_witness] : finding F5. *)
From Krp Require Import Tactics Prelude Fixed FMap Types Env Registry Cw20 Hub RegistryP Inv HubFrame.
Open Scope N_scope.

(** ** 1. Pure arithmetic (over an arbitrary positive scale [d], instantiated with [D]) *)

Definition Backed (B C : N) : Prop := 0 < C -> 0 < B.
Definition Sound (r B C : N) : Prop := 0 < r /\ r * C <= B * D.

Lemma div_mul_le_l a b : a / b * b <= a.
Proof.
  destruct (N.eq_dec b 0) as [->|Hb]; [lia|]. rewrite N.mul_comm. apply N.mul_div_le. exact Hb.
Qed.

Lemma rate_of_backed B C : 0 < B -> 0 < C -> rate_of B C = B * D / C.
Proof.
  intros HB HC. unfold rate_of.
  destruct (B =? 0) eqn:E1; [lia|]. destruct (C =? 0) eqn:E2; [lia|]. reflexivity.
Qed.

Lemma rate_of_le B C : Backed B C -> rate_of B C * C <= B * D.
Proof.
  intros Hb. destruct (N.eq_dec C 0) as [->|HC]; [lia|].
  assert (HB : 0 < B) by (apply Hb; lia).
  rewrite rate_of_backed by lia. apply div_mul_le_l.
Qed.

Lemma rate_ge r B C : 0 < B -> 0 < C -> r * C <= B * D -> r <= rate_of B C.
Proof.
  intros HB HC H. rewrite rate_of_backed by assumption.
  apply N.div_le_lower_bound; [lia|]. lia.
Qed.

Lemma Sound_backed r B C : Sound r B C -> Backed B C.
Proof.
  intros [Hr H] HC. destruct (N.eq_dec B 0) as [->|]; [|lia].
  assert (0 < r * C) by (apply N.mul_pos_pos; assumption). lia.
Qed.

(** the synchronised rate of a backed pool within E1 is sound *)
Lemma synced_sound B C : Backed B C -> C <= LIM -> Sound (rate_of B C) B C.
Proof.
  intros Hb HC. split; [|apply rate_of_le; exact Hb].
  destruct (N.eq_dec C 0) as [->|HC0].
  - unfold rate_of. rewrite Bool.orb_true_r. exact D_pos.
  - assert (HB : 0 < B) by (apply Hb; lia). rewrite rate_of_backed by lia.
    unfold LIM in HC. pose proof D_pos as HD.
    assert (1 <= B * D / C); [|lia]. apply N.div_le_lower_bound; [lia|].
    assert (1 * D <= B * D) by (apply N.mul_le_mono_r; lia). lia.
Qed.

(** a stale stored rate of a pool without claims is sound as long as it is positive *)
Lemma noclaims_sound r B : 0 < r -> Sound r B 0.
Proof. intros Hr. split; [exact Hr|lia]. Qed.

(** the generic conclusion: the new rate is not below [r], and the pool stays backed *)
Lemma rate_step r B' C' : 0 < r -> r * C' <= B' * D ->
  Backed B' C' /\ (0 < C' -> r <= rate_of B' C').
Proof.
  intros Hr H.
  assert (Hb : Backed B' C') by (apply (Sound_backed r); split; assumption).
  split; [exact Hb|]. intros HC. apply rate_ge; [apply Hb; exact HC|exact HC|exact H].
Qed.

(** bond-like step: backing grows by [p], claims by [m] with [m * r <= p * D] *)
Lemma arith_bond r B C p m : r * C <= B * D -> m * r <= p * D -> r * (C + m) <= (B + p) * D.
Proof. intros H1 H2. lia. Qed.

(** redeem-like step: claims fall by [q], backing by [u] with [u * D <= q' * r], [q' <= q] *)
Lemma arith_redeem r B C q q' u :
  r * C <= B * D -> q' <= q -> q <= C -> u * D <= q' * r -> u <= B -> r * (C - q) <= (B - u) * D.
Proof.
  intros H1 H2 H3 H4 H5. rewrite N.mul_sub_distr_l, N.mul_sub_distr_r.
  assert (q' * r <= q * r) by (apply N.mul_le_mono_r; exact H2). lia.
Qed.

(** C04: the coin value floor(balance x rate) of a holder follows the rate *)
Lemma coin_value_monotone a r r' : r <= r' -> a * r / D <= a * r' / D.
Proof. intros H. apply N.div_le_mono; [exact D_nz|]. apply N.mul_le_mono_l. exact H. Qed.

Ltac hr_norm :=
  cbn [h_state h_batch set_h_state set_h_batch set_ber set_ser set_bonded set_rates
       hs_bb hs_bst hs_ber hs_ser cb_reqb cb_reqst cb_id].

(** ** 2. Inversion of the fixed-point primitives (no magnitude bound needed) *)

Lemma add128_some a b x : add128 a b = Some x -> x = a + b /\ a + b <= U128MAX.
Proof.
  unfold add128, narrow128, fits128. destruct (a + b <=? U128MAX) eqn:E; [|discriminate].
  intros H. inversion H. split; [reflexivity|lia].
Qed.

Lemma sub128_some a b x : sub128 a b = Some x -> x = a - b /\ b <= a.
Proof.
  unfold sub128. destruct (b <=? a) eqn:E; [|discriminate]. intros H. inversion H. split; [reflexivity|lia].
Qed.

Lemma mulU_some a r x : mulU a r = Some x -> x = a * r / D.
Proof.
  unfold mulU, narrow128. destruct ((a =? 0) || (r =? 0)) eqn:E.
  - intros H. inversion H. apply Bool.orb_true_iff in E.
    assert (Hz : a * r = 0) by (destruct E; lia). rewrite Hz. symmetry. apply N.div_0_l. exact D_nz.
  - destruct (fits128 (a * r / D)); [|discriminate]. intros H. inversion H. reflexivity.
Qed.

Lemma ratio_some a b x : ratio a b = Some x -> b <> 0 /\ x = a * D / b.
Proof.
  unfold ratio, narrow128. destruct (b =? 0) eqn:E; [discriminate|].
  destruct (fits128 (a * D / b)); [|discriminate]. intros H. inversion H. split; [lia|reflexivity].
Qed.

Lemma ddiv_some a r m : ddiv a r = Some m -> r <> 0 /\ m = a * D / r.
Proof.
  unfold ddiv. intros H. bind_inv H as den Hden. bind_inv H as q Hq.
  apply mulU_some in Hden. apply ratio_some in Hq. apply mulU_some in H.
  assert (Hd : D * r / D = r) by (rewrite N.mul_comm; apply N.div_mul; exact D_nz).
  rewrite Hd in Hden. subst den. destruct Hq as [Hr Hq]. split; [exact Hr|].
  subst m q. rewrite N.mul_comm. apply N.div_mul. exact D_nz.
Qed.

Lemma exchange_rate_some b i r x : exchange_rate b i r = Some x -> x = rate_of b (i + r).
Proof.
  unfold exchange_rate, rate_of. intros H. bind_inv H as a Ha. apply add128_some in Ha.
  destruct Ha as [-> _]. destruct ((b =? 0) || (i + r =? 0)); [inversion H; reflexivity|].
  apply ratio_some in H. destruct H as [_ ->]. reflexivity.
Qed.

(** C03.1 (rate function): under the 128-bit / E1 bounds the rate computation succeeds *)
Lemma exchange_rate_total b i r :
  b <= LIM -> i + r <= U128MAX -> exchange_rate b i r = Some (rate_of b (i + r)).
Proof.
  intros Hb Hc. unfold exchange_rate, rate_of, add128, narrow128, fits128.
  assert (E : (i + r <=? U128MAX) = true) by lia. rewrite E. cbn [bind].
  destruct ((b =? 0) || (i + r =? 0)) eqn:Ez; [reflexivity|].
  apply Bool.orb_false_iff in Ez. destruct Ez as [Ez1 Ez2].
  unfold ratio, narrow128, fits128. rewrite Ez2.
  assert (Hq : b * D / (i + r) <= U128MAX).
  { apply N.le_trans with (b * D); [apply N.div_le_upper_bound; [lia|]|].
    - assert (1 * (b * D) <= (i + r) * (b * D)) by (apply N.mul_le_mono_r; lia). lia.
    - apply N.le_trans with (LIM * D); [apply N.mul_le_mono_r; exact Hb|]. vm_compute. discriminate. }
  assert (E2 : (b * D / (i + r) <=? U128MAX) = true) by lia. rewrite E2. reflexivity.
Qed.

Lemma supply_cfg w h h1 : h_cfg h1 = h_cfg h ->
  hub_bsei_supply w h1 = hub_bsei_supply w h /\ hub_stsei_supply w h1 = hub_stsei_supply w h.
Proof. intros E. unfold hub_bsei_supply, hub_stsei_supply. rewrite E. split; reflexivity. Qed.

(** ** 3. C03.1 — what the State query reports *)

(** the synchronisation of the books to the delegated total (pro-rata split of a slashing loss) *)
Definition sync_pools (actual bb bst : N) : N * N :=
  if actual <? bb + bst then
    let bb' := actual * (bb * D / (bb + bst)) / D in (bb', actual - bb')
  else (bb, bst).

Definition synced_state (s : hub_state) (actual cb cst : N) : hub_state :=
  let bb' := fst (sync_pools actual (hs_bb s) (hs_bst s)) in
  let bst' := snd (sync_pools actual (hs_bb s) (hs_bst s)) in
  mkHubState (rate_of bb' cb) (rate_of bst' cst) bb' bst' (hs_lim s) (hs_phb s) (hs_lut s) (hs_lpb s).

Lemma foldM_add128 (l : list (val * N)) : forall a,
  a + sumN (map snd l) <= U128MAX ->
  foldM (fun acc d => add128 acc (snd d)) l a = Some (a + sumN (map snd l)).
Proof.
  induction l as [|x l IH]; intros a Ha; cbn [foldM map sumN] in *.
  - f_equal. lia.
  - unfold add128 at 1, narrow128, fits128.
    assert (E : (a + snd x <=? U128MAX) = true) by lia. rewrite E. cbn [bind].
    rewrite IH by lia. f_equal. lia.
Qed.

(** the hub's view of its stake is the sum of its delegations *)
Lemma actual_bonded_delegated w self h :
  hp_underlying (h_params h) = usei -> delegated (w_env w) self <= U128MAX ->
  actual_bonded w self h = Some (delegated (w_env w) self).
Proof.
  intros Hu Hd. unfold actual_bonded, delegated in *. rewrite Hu.
  assert (E : (usei =? usei) = true) by reflexivity. rewrite E.
  rewrite foldM_add128 by lia. f_equal.
Qed.

Lemma qas_inv w self h s' :
  query_actual_state w self h = Some s' ->
  (all_delegations (w_env w) self = [] /\ s' = h_state h) \/
  (all_delegations (w_env w) self <> [] /\
   exists actual, actual_bonded w self h = Some actual /\
     ((booked h = 0 /\ s' = h_state h) \/
      (0 < booked h /\ exists sb ss,
         hub_bsei_supply w h = Some sb /\ hub_stsei_supply w h = Some ss /\
         s' = synced_state (h_state h) actual (sb + cb_reqb (h_batch h)) (ss + cb_reqst (h_batch h))))).
Proof.
  unfold query_actual_state. intros H.
  destruct (all_delegations (w_env w) self) as [|d0 dr] eqn:Ed.
  - left. inversion H. split; reflexivity.
  - right. split; [discriminate|].
    bind_inv H as actual Hact. exists actual. split; [reflexivity|].
    bind_inv H as total Htot. apply add128_some in Htot. destruct Htot as [Htot _].
    unfold booked. rewrite <- Htot.
    destruct (total =? 0) eqn:Ez.
    + left. inversion H. split; [lia|reflexivity].
    + right. split; [lia|].
      bind_inv H as sb Hsb. bind_inv H as ss Hss. exists sb, ss.
      split; [reflexivity|]. split; [reflexivity|].
      bind_inv H as s1 Hs1. bind_inv H as ber Hber. bind_inv H as ser Hser.
      apply exchange_rate_some in Hber. apply exchange_rate_some in Hser.
      inversion H; subst s' ber ser; clear H.
      unfold synced_state, sync_pools. rewrite <- Htot.
      destruct (actual <? total) eqn:Elt.
      * bind_inv Hs1 as r Hr. bind_inv Hs1 as bb Hbb. bind_inv Hs1 as bst Hbst.
        apply ratio_some in Hr. destruct Hr as [_ Hr]. apply mulU_some in Hbb.
        apply sub128_some in Hbst. destruct Hbst as [Hbst _].
        inversion Hs1; subst s1; clear Hs1. subst bst bb r. cbn. reflexivity.
      * inversion Hs1; subst s1; clear Hs1. cbn. destruct (h_state h); reflexivity.
Qed.

(** C03.1, effect form: whenever stake is bonded and booked, the reported state is the
    synchronised one and both rates are backing over claims of the same world *)
Theorem reported_rate w self h s' :
  query_actual_state w self h = Some s' ->
  all_delegations (w_env w) self <> [] -> 0 < booked h ->
  exists actual sb ss,
    actual_bonded w self h = Some actual /\
    hub_bsei_supply w h = Some sb /\ hub_stsei_supply w h = Some ss /\
    s' = synced_state (h_state h) actual (sb + cb_reqb (h_batch h)) (ss + cb_reqst (h_batch h)).
Proof.
  intros H Hne Hb. apply qas_inv in H. destruct H as [[He _]|[_ (actual & Ha & [[Hz _]|(_ & sb & ss & H1 & H2 & H3)])]].
  - contradiction.
  - lia.
  - exists actual, sb, ss. repeat split; assumption.
Qed.

Theorem reported_rate_nodeleg w self h :
  all_delegations (w_env w) self = [] -> query_actual_state w self h = Some (h_state h).
Proof. intros He. unfold query_actual_state. rewrite He. reflexivity. Qed.

Theorem reported_rate_unbooked w self h s' :
  query_actual_state w self h = Some s' -> booked h = 0 -> s' = h_state h.
Proof.
  intros H Hb. apply qas_inv in H.
  destruct H as [[_ He]|[_ (actual & Ha & [[_ Hz]|(Hp & _)])]]; [exact He|exact Hz|lia].
Qed.

Lemma sync_pools_sum actual bb bst : actual < bb + bst ->
  fst (sync_pools actual bb bst) + snd (sync_pools actual bb bst) = actual /\
  fst (sync_pools actual bb bst) * (bb + bst) <= actual * bb.
Proof.
  intros Hlt. unfold sync_pools. assert (E : (actual <? bb + bst) = true) by lia. rewrite E.
  cbn [fst snd]. set (r := bb * D / (bb + bst)).
  assert (Hr : r * (bb + bst) <= bb * D) by apply div_mul_le_l.
  assert (Hx : actual * r / D * D <= actual * r) by apply div_mul_le_l.
  assert (HrD : r <= D).
  { unfold r. apply N.div_le_upper_bound; [lia|]. apply N.mul_le_mono_r. lia. }
  assert (Hle : actual * r / D <= actual).
  { apply N.div_le_upper_bound; [exact D_nz|]. rewrite (N.mul_comm D). apply N.mul_le_mono_l. exact HrD. }
  split; [lia|].
  pose proof D_pos as HD. set (x := actual * r / D) in *.
  apply N.mul_le_mono_pos_r with D; [exact HD|].
  assert (x * (bb + bst) * D = x * D * (bb + bst)) by lia.
  assert (x * D * (bb + bst) <= actual * r * (bb + bst)) by (apply N.mul_le_mono_r; exact Hx).
  assert (actual * r * (bb + bst) = actual * (r * (bb + bst))) by lia.
  assert (actual * (r * (bb + bst)) <= actual * (bb * D)) by (apply N.mul_le_mono_l; exact Hr).
  lia.
Qed.

(** C03.1, success form under E1: the query cannot fail and returns exactly that state *)
Theorem reported_rate_total w self h actual sb ss :
  all_delegations (w_env w) self <> [] -> 0 < booked h ->
  actual_bonded w self h = Some actual ->
  hub_bsei_supply w h = Some sb -> hub_stsei_supply w h = Some ss ->
  hs_bb (h_state h) <= LIM -> hs_bst (h_state h) <= LIM -> actual <= LIM ->
  sb + cb_reqb (h_batch h) <= U128MAX -> ss + cb_reqst (h_batch h) <= U128MAX ->
  query_actual_state w self h =
  Some (synced_state (h_state h) actual (sb + cb_reqb (h_batch h)) (ss + cb_reqst (h_batch h))).
Proof.
  intros Hne Hb Ha Hsb Hss Lb Lst La Lcb Lcst.
  unfold query_actual_state, booked in *.
  destruct (all_delegations (w_env w) self) as [|d0 dr] eqn:Ed; [congruence|].
  rewrite Ha. cbn [bind]. unfold add128 at 1, narrow128, fits128.
  assert (HL : LIM + LIM <= U128MAX) by (vm_compute; discriminate).
  assert (E1 : (hs_bb (h_state h) + hs_bst (h_state h) <=? U128MAX) = true) by lia.
  rewrite E1. cbn [bind].
  assert (E2 : (hs_bb (h_state h) + hs_bst (h_state h) =? 0) = false) by lia. rewrite E2.
  rewrite Hsb, Hss. cbn [bind].
  set (s := h_state h) in *. set (T := hs_bb s + hs_bst s) in *.
  assert (HLU : LIM <= U128MAX) by (vm_compute; discriminate).
  destruct (actual <? T) eqn:Elt.
  - destruct (sync_pools_sum actual (hs_bb s) (hs_bst s)) as [Hsum _]; [fold T; lia|].
    unfold synced_state. unfold sync_pools in *. fold T in Hsum |- *. rewrite Elt in *. cbn [fst snd] in *.
    set (r := hs_bb s * D / T) in *. set (x := actual * r / D) in *.
    assert (HrD : r <= D).
    { unfold r. apply N.div_le_upper_bound; [lia|]. apply N.mul_le_mono_r. unfold T. lia. }
    unfold ratio, narrow128, fits128. rewrite E2. fold r.
    assert (E3 : (r <=? U128MAX) = true) by (unfold LIM in *; lia). rewrite E3. cbn [bind].
    assert (Hmul : mulU actual r = Some x).
    { unfold mulU, narrow128, fits128. destruct ((actual =? 0) || (r =? 0)) eqn:Ez.
      - f_equal. apply Bool.orb_true_iff in Ez. unfold x.
        assert (Hz : actual * r = 0) by (destruct Ez; lia). rewrite Hz. symmetry. apply N.div_0_l. exact D_nz.
      - fold x. assert (E4 : (x <=? U128MAX) = true) by lia. rewrite E4. reflexivity. }
    rewrite Hmul. cbn [bind]. unfold sub128. assert (E5 : (x <=? actual) = true) by lia. rewrite E5.
    cbn [bind set_bonded hs_bb hs_bst].
    rewrite exchange_rate_total by lia. cbn [bind]. rewrite exchange_rate_total by lia. cbn [bind].
    reflexivity.
  - unfold synced_state, sync_pools. fold T. rewrite Elt. cbn [fst snd bind].
    rewrite exchange_rate_total by lia. cbn [bind]. rewrite exchange_rate_total by lia. cbn [bind].
    destruct s; reflexivity.
Qed.

(** a synchronisation that finds no loss leaves both pools alone (CheckSlashing without slashing,
    and the first step of every pricing handler) *)
Theorem slashing_no_loss w self h h1 actual :
  slashing w self h = Some h1 -> actual_bonded w self h = Some actual -> booked h <= actual ->
  hs_bb (h_state h1) = hs_bb (h_state h) /\ hs_bst (h_state h1) = hs_bst (h_state h).
Proof.
  unfold slashing. intros H Ha Hle. bind_inv H as s' Hs. inversion H; subst h1; clear H. cbn [h_state set_h_state].
  apply qas_inv in Hs.
  destruct Hs as [[_ ->]|[_ (a' & Ha' & [[_ ->]|(_ & sb & ss & _ & _ & ->)])]]; try (split; reflexivity).
  rewrite Ha in Ha'. inversion Ha'; subst a'. unfold synced_state, sync_pools, booked in *.
  assert (E : (actual <? hs_bb (h_state h) + hs_bst (h_state h)) = false) by lia. rewrite E.
  cbn. split; reflexivity.
Qed.

(** after the synchronisation step the stored rates are backing over claims (bonded, booked case) *)
Lemma slashing_synced w self h h1 :
  slashing w self h = Some h1 ->
  all_delegations (w_env w) self <> [] -> 0 < booked h ->
  exists sb ss, hub_bsei_supply w h = Some sb /\ hub_stsei_supply w h = Some ss /\
    hs_ber (h_state h1) = rate_of (hs_bb (h_state h1)) (sb + cb_reqb (h_batch h1)) /\
    hs_ser (h_state h1) = rate_of (hs_bst (h_state h1)) (ss + cb_reqst (h_batch h1)).
Proof.
  unfold slashing. intros H Hne Hb. bind_inv H as s' Hs. inversion H; subst h1; clear H.
  destruct (reported_rate _ _ _ _ Hs Hne Hb) as (actual & sb & ss & _ & H1 & H2 & ->).
  exists sb, ss. cbn. repeat split; assumption.
Qed.

(** ** 4. C03.2 — bond *)

Lemma find_payment_single u funds c :
  (N.of_nat (length funds) <=? 1) = true -> find_payment u funds = Some c ->
  funds = [c] /\ fst c = u /\ 0 < snd c.
Proof.
  intros Hlen Hf. destruct funds as [|c0 [|c1 rest]].
  - unfold find_payment in Hf. cbn [filter] in Hf. discriminate Hf.
  - unfold find_payment in Hf. cbn [filter] in Hf.
    match type of Hf with context [if ?b then _ else _] => destruct b eqn:E end; [|discriminate Hf].
    inversion Hf; subst c0. apply Bool.andb_true_iff in E. destruct E as [E1 E2].
    split; [reflexivity|]. apply N.eqb_eq in E1. apply Bool.negb_true_iff in E2.
    apply N.eqb_neq in E2. split; [exact E1|]. apply N.neq_0_lt_0. exact E2.
  - cbn [length] in Hlen. lia.
Qed.

Lemma delegate_msgs_only_delegate vals xs dn :
  Forall (fun m => exists v c, m = MDelegate v c) (delegate_msgs vals xs dn).
Proof.
  unfold delegate_msgs. induction (combine vals xs) as [|p l IH]; cbn [flat_map]; [constructor|].
  destruct (snd p =? 0); cbn [app]; [exact IH|]. constructor; [eauto|exact IH].
Qed.

(** Bond (bSei): one payment coin [p > 0] of the underlying denom; mints
    [p * D / rate_b - fee] bSei to the sender in a single CMint message (all other messages
    are staking delegations); the new booked stake is [B_b + p] and the stored rate is backing
    over claims for the supply after the mint *)
Theorem bond_b_mints w h self sender funds h' out sb :
  execute_bond w h self sender funds BkB = Some (h', out) ->
  hub_bsei_supply w h = Some sb ->
  exists h1 p vals xs tok,
    slashing w self h = Some h1 /\
    funds = [(hp_underlying (h_params h), p)] /\ 0 < p /\
    hc_bsei (h_cfg h) = Some tok /\
    let s := h_state h1 in
    let r := hs_ber s in
    let m0 := p * D / r in
    let fee := if r <? hp_thr (h_params h)
               then N.min (m0 * hp_pegfee (h_params h) / D)
                          (sb + m0 + cb_reqb (h_batch h) - (hs_bb s + p))
               else 0 in
    r <> 0 /\ fee <= m0 /\
    out = delegate_msgs vals xs (hp_underlying (h_params h)) ++
          [MWasm tok (WCw20 (CMint sender (m0 - fee))) []] /\
    h' = set_h_state h1 (set_ber (set_bonded s (hs_bb s + p) (hs_bst s))
                                 (rate_of (hs_bb s + p) (sb + (m0 - fee) + cb_reqb (h_batch h)))).
Proof.
  unfold execute_bond. intros H Hsb.
  bind_inv H as dispaddr Hd. cbv beta iota zeta in H.
  check_inv H as Hlen. bind_inv H as pay Hpay. bind_inv H as h1 Hh1.
  destruct (find_payment_single _ _ _ Hlen Hpay) as (Hfunds & Hden & Hpos).
  pose proof (slashing_frame _ _ _ _ Hh1) as (F1 & F2 & F3 & F4 & F5 & F6 & F7).
  destruct (supply_cfg w h h1 F1) as [Sb _]. rewrite Sb, Hsb in H.
  bind_inv H as mint Hmint. bind_inv H as supply Hsupply. bind_inv H as s' Hs'.
  bind_inv H as vals Hvals. destruct vals as [|v0 vr]; [discriminate|].
  bind_inv H as rr Hr. bind_inv H as tok Htok. inversion H; subst h' out; clear H.
  cbn [h_cfg set_h_state] in Htok. rewrite F1 in Htok.
  destruct pay as [dn p]. cbn [fst snd] in *. subst dn.
  exists h1, p, (v0 :: vr), (snd rr), tok.
  split; [reflexivity|]. split; [exact Hfunds|]. split; [exact Hpos|]. split; [exact Htok|].
  cbv zeta.
  bind_inv Hmint as m Hm. apply ddiv_some in Hm. destruct Hm as [Hr0 Hm].
  apply add128_some in Hsupply. destruct Hsupply as [Hsupply _].
  split; [exact Hr0|].
  destruct (hs_ber (h_state h1) <? hp_thr (h_params h)) eqn:Ethr.
  - bind_inv Hmint as max_fee Hmf. apply mulU_some in Hmf.
    bind_inv Hmint as a1 Ha1. apply add128_some in Ha1. destruct Ha1 as [Ha1 _].
    bind_inv Hmint as a2 Ha2. apply add128_some in Ha2. destruct Ha2 as [Ha2 _].
    bind_inv Hmint as b1 Hb1. apply add128_some in Hb1. destruct Hb1 as [Hb1 _].
    bind_inv Hmint as required Hreq. apply sub128_some in Hreq. destruct Hreq as [Hreq _].
    apply sub128_some in Hmint. destruct Hmint as [Hmint Hfee]. unfold peg_fee in *.
    cbn [bind] in Hs'.
    bind_inv Hs' as ber Hber. apply exchange_rate_some in Hber. inversion Hs'; subst s'; clear Hs'.
    subst mint supply ber required b1 a2 a1 max_fee m.
    split; [exact Hfee|]. split; reflexivity.
  - inversion Hmint; subst mint; clear Hmint.
    bind_inv Hs' as bb Hbb. apply add128_some in Hbb. destruct Hbb as [Hbb _].
    bind_inv Hs' as ber Hber. apply exchange_rate_some in Hber. inversion Hs'; subst s'; clear Hs'.
    subst supply ber bb m.
    rewrite N.sub_0_r. split; [apply N.le_0_l|]. split; reflexivity.
Qed.

(** BondForStSei: mints [p * D / rate_st] stSei, no fee; the stored stSei rate is not recomputed *)
Theorem bond_st_mints w h self sender funds h' out :
  execute_bond w h self sender funds BkSt = Some (h', out) ->
  exists h1 p vals xs tok,
    slashing w self h = Some h1 /\
    funds = [(hp_underlying (h_params h), p)] /\ 0 < p /\
    hc_stsei (h_cfg h) = Some tok /\
    let s := h_state h1 in
    hs_ser s <> 0 /\
    out = delegate_msgs vals xs (hp_underlying (h_params h)) ++
          [MWasm tok (WCw20 (CMint sender (p * D / hs_ser s))) []] /\
    h' = set_h_state h1 (set_bonded s (hs_bb s) (hs_bst s + p)).
Proof.
  unfold execute_bond. intros H.
  bind_inv H as dispaddr Hd. cbv beta iota zeta in H.
  check_inv H as Hlen. bind_inv H as pay Hpay. bind_inv H as h1 Hh1.
  destruct (find_payment_single _ _ _ Hlen Hpay) as (Hfunds & Hden & Hpos).
  pose proof (slashing_frame _ _ _ _ Hh1) as (F1 & F2 & F3 & F4 & F5 & F6 & F7).
  bind_inv H as mint Hmint. bind_inv H as supply Hsupply. bind_inv H as s' Hs'.
  bind_inv H as vals Hvals. destruct vals as [|v0 vr]; [discriminate|].
  bind_inv H as rr Hr. bind_inv H as tok Htok. inversion H; subst h' out; clear H.
  cbn [h_cfg set_h_state] in Htok. rewrite F1 in Htok.
  destruct pay as [dn p]. cbn [fst snd] in *. subst dn.
  exists h1, p, (v0 :: vr), (snd rr), tok.
  split; [reflexivity|]. split; [exact Hfunds|]. split; [exact Hpos|]. split; [exact Htok|].
  cbv zeta. apply ddiv_some in Hmint. destruct Hmint as [Hr0 Hm].
  bind_inv Hs' as bst Hbst. apply add128_some in Hbst. destruct Hbst as [Hbst _].
  inversion Hs'; subst s' bst mint; clear Hs'.
  split; [exact Hr0|]. split; reflexivity.
Qed.

(** BondRewards (dispatcher only): no token message at all, stake goes to the stSei pool, the stSei
    rate is recomputed over unchanged claims *)
Theorem bond_rw_mints w h self sender funds h' out ss :
  execute_bond w h self sender funds BkRw = Some (h', out) ->
  hub_stsei_supply w h = Some ss ->
  exists h1 p vals xs,
    slashing w self h = Some h1 /\
    hc_disp (h_cfg h) = Some sender /\
    funds = [(hp_underlying (h_params h), p)] /\ 0 < p /\
    let s := h_state h1 in
    out = delegate_msgs vals xs (hp_underlying (h_params h)) /\
    h' = set_h_state h1 (set_ser (set_bonded s (hs_bb s) (hs_bst s + p))
                                 (rate_of (hs_bst s + p) (ss + cb_reqst (h_batch h)))).
Proof.
  unfold execute_bond. intros H Hss.
  bind_inv H as dispaddr Hd. cbv beta iota zeta in H.
  check_inv H as Hauth.
  check_inv H as Hlen. bind_inv H as pay Hpay. bind_inv H as h1 Hh1.
  destruct (find_payment_single _ _ _ Hlen Hpay) as (Hfunds & Hden & Hpos).
  pose proof (slashing_frame _ _ _ _ Hh1) as (F1 & F2 & F3 & F4 & F5 & F6 & F7).
  destruct (supply_cfg w h h1 F1) as [_ Ss]. rewrite Ss, Hss in H. cbn [bind] in H.
  bind_inv H as supply Hsupply. bind_inv H as s' Hs'.
  bind_inv H as vals Hvals. destruct vals as [|v0 vr]; [discriminate|].
  bind_inv H as rr Hr. inversion H; subst h' out; clear H.
  destruct pay as [dn p]. cbn [fst snd] in *. subst dn.
  exists h1, p, (v0 :: vr), (snd rr).
  split; [reflexivity|]. split; [f_equal; lia|]. split; [exact Hfunds|]. split; [exact Hpos|].
  cbv zeta. apply add128_some in Hsupply. destruct Hsupply as [Hsupply _].
  bind_inv Hs' as bst Hbst. apply add128_some in Hbst. destruct Hbst as [Hbst _].
  bind_inv Hs' as ser Hser. apply exchange_rate_some in Hser. inversion Hs'; subst s'; clear Hs'.
  subst supply ser bst. rewrite N.add_0_r. split; reflexivity.
Qed.

(** rejected payments: nothing, another denom, a zero coin, two coins *)
Lemma bond_rejects_nopay w h self sender funds k :
  find_payment (hp_underlying (h_params h)) funds = None ->
  execute_bond w h self sender funds k = None.
Proof.
  intros Hf. unfold execute_bond. destruct (hc_disp (h_cfg h)); [|reflexivity]. cbn [bind].
  destruct (match k with BkRw => sender =? a | _ => true end); [|reflexivity].
  destruct (N.of_nat (length funds) <=? 1); [|reflexivity]. rewrite Hf. reflexivity.
Qed.

Theorem bond_rejects_empty w h self sender k : execute_bond w h self sender [] k = None.
Proof. apply bond_rejects_nopay. reflexivity. Qed.

Theorem bond_rejects_zero w h self sender k dn : execute_bond w h self sender [(dn, 0)] k = None.
Proof.
  apply bond_rejects_nopay. unfold find_payment. cbn [filter fst snd].
  rewrite Bool.andb_false_r. reflexivity.
Qed.

Theorem bond_rejects_denom w h self sender k dn a :
  dn <> hp_underlying (h_params h) -> execute_bond w h self sender [(dn, a)] k = None.
Proof.
  intros Hd. apply bond_rejects_nopay. unfold find_payment. cbn [filter fst snd].
  assert (E : (dn =? hp_underlying (h_params h)) = false) by lia. rewrite E. reflexivity.
Qed.

Theorem bond_rejects_two w h self sender k c1 c2 rest :
  execute_bond w h self sender (c1 :: c2 :: rest) k = None.
Proof.
  unfold execute_bond. destruct (hc_disp (h_cfg h)); [|reflexivity]. cbn [bind].
  destruct (match k with BkRw => sender =? a | _ => true end); [|reflexivity].
  assert (E : (N.of_nat (length (c1 :: c2 :: rest)) <=? 1) = false) by (cbn [length]; lia).
  rewrite E. reflexivity.
Qed.

(** a Mint of 0 tokens is rejected by the token contracts, so a bond / convert whose price
    rounds to 0 tokens fails as a whole: no payment is taken for no tokens *)
Theorem mint_zero_rejected t sender to : tok_mint t sender to 0 = None.
Proof. reflexivity. Qed.

Theorem mint_zero_rejected_bsei w t sender to : bsei_execute w t sender (CMint to 0) = None.
Proof. unfold bsei_execute. destruct (query_reward_contract w t); reflexivity. Qed.

Theorem mint_zero_rejected_stsei w t sender to : stsei_execute w t sender (CMint to 0) = None.
Proof. reflexivity. Qed.

(** ** 5. C03.4 — closing a batch: what is undelegated *)

(** total amount of the Undelegate messages of a message list *)
Definition hr_undelegated (out : list cmsg) : N :=
  sumN (map (fun m => match m with MUndelegate _ c => snd c | _ => 0 end) out).

Lemma hr_undelegated_app a b : hr_undelegated (a ++ b) = hr_undelegated a + hr_undelegated b.
Proof. unfold hr_undelegated. rewrite map_app, sumN_app. reflexivity. Qed.

Lemma hr_pick_msgs_sum d : forall (vals : list (val * N)) ys, length ys = length vals ->
  let ms := flat_map (fun p : val * N * N => if snd p =? 0 then []
                        else [MUndelegate (fst (fst p)) (d, snd p)]) (combine vals ys) in
  hr_undelegated ms = sumN ys /\ Forall (fun m => exists v c, m = MUndelegate v c) ms.
Proof.
  induction vals as [|v vals IH]; intros [|y ys] Hl; try discriminate Hl.
  - split; [reflexivity|constructor].
  - cbn [combine flat_map]. injection Hl as Hl. destruct (IH ys Hl) as [IH1 IH2].
    cbv zeta. rewrite hr_undelegated_app. cbn [snd fst sumN]. split.
    + rewrite IH1. destruct (y =? 0) eqn:E; cbn; lia.
    + apply Forall_app. split; [|exact IH2]. destruct (y =? 0); [constructor|].
      constructor; [eauto|constructor].
Qed.

Lemma hr_pick_validator_spec w self h claim msgs : pick_validator w self h claim = Some msgs ->
  hr_undelegated msgs = claim /\ Forall (fun m => exists v c, m = MUndelegate v c) msgs.
Proof.
  unfold pick_validator. intros H. bind_inv H as ys Hys. inversion H; subst msgs; clear H.
  set (vals := sort_desc (all_delegations (w_env w) self)) in *.
  assert (Hn : undeleg claim (map snd vals) <> None) by congruence.
  rewrite undeleg_err_iff in Hn.
  destruct (undeleg_total claim (map snd vals)) as (ys' & E & Hlen & Hsum & _).
  - intros X. apply Hn. auto.
  - destruct (N.le_gt_cases claim (sumN (map snd vals))); [assumption|]. exfalso. apply Hn. auto.
  - destruct (N.le_gt_cases (sumN (map snd vals)) U128MAX); [assumption|]. exfalso. apply Hn. auto.
  - rewrite E in Hys. inversion Hys; subst ys'. rewrite map_length in Hlen.
    destruct (hr_pick_msgs_sum (hp_underlying (h_params h)) vals ys Hlen) as [S1 S2].
    split; [rewrite S1; exact Hsum | exact S2].
Qed.

Lemma hr_hist_put_same m i e : get N.eqb (hist_put m i e) i = Some e.
Proof.
  induction m as [|[j e'] r IH]; cbn [hist_put get].
  - rewrite N.eqb_refl. reflexivity.
  - destruct (i =? j) eqn:E1; cbn [get].
    + rewrite N.eqb_refl. reflexivity.
    + destruct (i <? j); cbn [get]; [rewrite N.eqb_refl; reflexivity|]. rewrite E1. exact IH.
Qed.

(** closing the open batch: the messages are Undelegate messages for
    [floor(reqb x rate_b) + floor(reqst x rate_st)] coins in total, exactly these amounts leave the
    two pools, and the two rates are recorded as applied and as withdraw rate of the batch *)
Theorem undelegation_value w self h h' msgs :
  process_undelegations w self h = Some (h', msgs) ->
  let s := h_state h in
  let cb := h_batch h in
  let b_und := cb_reqb cb * hs_ber s / D in
  let st_und := cb_reqst cb * hs_ser s / D in
  hr_undelegated msgs = b_und + st_und /\
  Forall (fun m => exists v c, m = MUndelegate v c) msgs /\
  b_und <= hs_bb s /\ st_und <= hs_bst s /\
  h_state h' = mkHubState (hs_ber s) (hs_ser s) (hs_bb s - b_und) (hs_bst s - st_und)
                          (hs_lim s) (hs_phb s) (e_now (w_env w)) (hs_lpb s) /\
  h_batch h' = mkBatch (cb_id cb + 1) 0 0 /\
  get N.eqb (h_hist h') (cb_id cb) =
    Some (mkHist (e_now (w_env w)) (cb_reqb cb) (hs_ber s) (hs_ber s)
                 (cb_reqst cb) (hs_ser s) (hs_ser s) false).
Proof.
  unfold process_undelegations. intros H.
  bind_inv H as sund Hsu. bind_inv H as bund Hbu. bind_inv H as claim Hcl. bind_inv H as ms Hms.
  bind_inv H as bst Hbst. bind_inv H as bb Hbb. bind_inv H as id' Hid. inversion H; subst h' msgs; clear H.
  apply hr_pick_validator_spec in Hms. destruct Hms as [Hsum Hall].
  apply mulU_some in Hsu. apply mulU_some in Hbu.
  apply add128_some in Hcl. destruct Hcl as [Hcl _].
  apply sub128_some in Hbst. destruct Hbst as [Hbst Hle1].
  apply sub128_some in Hbb. destruct Hbb as [Hbb Hle2].
  unfold add64 in Hid. destruct (fits64 (cb_id (h_batch h) + 1)); [|discriminate]. inversion Hid; subst id'.
  cbv zeta. subst claim bst bb sund bund. cbn [h_state h_batch h_hist set_h_state set_h_batch set_h_hist].
  rewrite hr_hist_put_same. repeat split; assumption.
Qed.

Lemma maybe_undelegate_cases w self h h' msgs :
  maybe_undelegate w self h = Some (h', msgs) ->
  (h' = h /\ msgs = []) \/
  (hp_epoch (h_params h) < e_now (w_env w) - hs_lut (h_state h) /\
   process_undelegations w self h = Some (h', msgs)).
Proof.
  unfold maybe_undelegate. intros H. bind_inv H as passed Hp.
  unfold sub64 in Hp. destruct (hs_lut (h_state h) <=? e_now (w_env w)); [|discriminate].
  inversion Hp; subst passed.
  destruct (hp_epoch (h_params h) <? e_now (w_env w) - hs_lut (h_state h)) eqn:E.
  - right. split; [lia|exact H].
  - left. inversion H. split; reflexivity.
Qed.

Lemma add_wait_keeps h u b is_b amt h' : add_wait h u b is_b amt = Some h' ->
  h_state h' = h_state h /\ h_batch h' = h_batch h /\ h_cfg h' = h_cfg h /\ h_params h' = h_params h /\
  h_hist h' = h_hist h.
Proof.
  unfold add_wait. destruct (wait_of h u b) as [x y]. intros H.
  bind_inv H as x' Hx. bind_inv H as y' Hy. inversion H; subst. repeat split.
Qed.

(** ** 6. unbond requests *)

(** Unbond (bSei): burns [amount], adds [amount - fee] to the open batch, recomputes the rate
    over the claims after the burn; then possibly closes the batch (section 5) *)
Theorem unbond_b_effect w h self amount user h' out sb :
  execute_unbond w h self amount user = Some (h', out) ->
  hub_bsei_supply w h = Some sb ->
  exists h1 h2 msgs tok,
    slashing w self h = Some h1 /\
    let s := h_state h1 in
    let cb := h_batch h in
    let fee := if hs_ber s <? hp_thr (h_params h)
               then N.min (amount * hp_pegfee (h_params h) / D) (sb + cb_reqb cb - hs_bb s)
               else 0 in
    let reqb' := cb_reqb cb + (amount - fee) in
    fee <= amount /\ amount <= sb /\
    add_wait h1 user (cb_id cb) true (amount - fee) = Some h2 /\
    maybe_undelegate w self
      (set_h_batch (set_h_state h2 (set_ber s (rate_of (hs_bb s) (sb - amount + reqb'))))
                   (mkBatch (cb_id cb) reqb' (cb_reqst cb))) = Some (h', msgs) /\
    hc_bsei (h_cfg h) = Some tok /\
    out = msgs ++ [MWasm tok (WCw20 (CBurn amount)) []].
Proof.
  unfold execute_unbond. intros H Hsb.
  bind_inv H as h1 Hh1.
  pose proof (slashing_frame _ _ _ _ Hh1) as (F1 & F2 & F3 & F4 & F5 & F6 & F7).
  destruct (supply_cfg w h h1 F1) as [Sb _]. rewrite Sb, Hsb in H. cbn [bind] in H.
  rewrite F3 in H.
  bind_inv H as awf Hawf. bind_inv H as reqb Hreqb. apply add128_some in Hreqb. destruct Hreqb as [Hreqb _].
  bind_inv H as h2 Hh2. bind_inv H as supply' Hs'. apply sub128_some in Hs'. destruct Hs' as [Hs' Hle].
  bind_inv H as ber Hber. apply exchange_rate_some in Hber.
  bind_inv H as r Hr. destruct r as [h4 msgs]. bind_inv H as tok Htok. inversion H; subst h' out; clear H.
  pose proof (maybe_undelegate_static _ _ _ _ _ Hr) as (G1 & _).
  cbn [h_cfg set_h_batch set_h_state] in G1.
  destruct (add_wait_keeps _ _ _ _ _ _ Hh2) as (_ & _ & K3 & _).
  rewrite G1, K3, F1 in Htok.
  exists h1, h2, msgs, tok. split; [reflexivity|]. cbv zeta.
  assert (Hfee : exists fee, fee <= amount /\ awf = amount - fee /\
     fee = (if hs_ber (h_state h1) <? hp_thr (h_params h)
            then N.min (amount * hp_pegfee (h_params h) / D) (sb + cb_reqb (h_batch h) - hs_bb (h_state h1))
            else 0)).
  { destruct (hs_ber (h_state h1) <? hp_thr (h_params h)) eqn:Ethr.
    - bind_inv Hawf as max_fee Hmf. apply mulU_some in Hmf.
      bind_inv Hawf as c Hc. apply add128_some in Hc. destruct Hc as [Hc _].
      bind_inv Hawf as required Hreq. apply sub128_some in Hreq. destruct Hreq as [Hreq _].
      apply sub128_some in Hawf. destruct Hawf as [Hawf Hf]. unfold peg_fee in *.
      subst required c max_fee. eexists. split; [exact Hf|]. split; [exact Hawf|reflexivity].
    - inversion Hawf; subst awf. exists 0. split; [apply N.le_0_l|]. split; [lia|reflexivity]. }
  destruct Hfee as (fee & Hf1 & Hf2 & Hf3). rewrite <- Hf3.
  subst awf reqb supply' ber.
  split; [exact Hf1|]. split; [exact Hle|]. split; [exact Hh2|]. split; [exact Hr|].
  split; [exact Htok|reflexivity].
Qed.

(** Unbond (stSei): burns [amount] and adds it to the open batch, no fee, no rate update *)
Theorem unbond_st_effect w h self amount user h' out :
  execute_unbond_stsei w h self amount user = Some (h', out) ->
  exists h1 h2 msgs tok,
    slashing w self h = Some h1 /\
    let cb := h_batch h in
    add_wait h1 user (cb_id cb) false amount = Some h2 /\
    maybe_undelegate w self
      (set_h_batch h2 (mkBatch (cb_id cb) (cb_reqb cb) (cb_reqst cb + amount))) = Some (h', msgs) /\
    hc_stsei (h_cfg h) = Some tok /\
    out = msgs ++ [MWasm tok (WCw20 (CBurn amount)) []].
Proof.
  unfold execute_unbond_stsei. intros H.
  bind_inv H as h1 Hh1.
  pose proof (slashing_frame _ _ _ _ Hh1) as (F1 & F2 & F3 & F4 & F5 & F6 & F7).
  rewrite F3 in H.
  bind_inv H as reqst Hreq. apply add128_some in Hreq. destruct Hreq as [Hreq _].
  bind_inv H as h2 Hh2.
  bind_inv H as r Hr. destruct r as [h4 msgs]. bind_inv H as tok Htok. inversion H; subst h' out; clear H.
  pose proof (maybe_undelegate_static _ _ _ _ _ Hr) as (G1 & _).
  cbn [h_cfg set_h_batch] in G1.
  destruct (add_wait_keeps _ _ _ _ _ _ Hh2) as (_ & _ & K3 & _).
  rewrite G1, K3, F1 in Htok. subst reqst.
  exists h1, h2, msgs, tok. split; [reflexivity|]. cbv zeta.
  split; [exact Hh2|]. split; [exact Hr|]. split; [exact Htok|reflexivity].
Qed.

(** the two branches of Unbond (bSei): request only, or the request closes the batch; in the
    second case the rate recorded in the history entry and used for the undelegation is backing
    over claims *including* the request that closed the batch *)
Theorem unbond_b_cases w h self amount user h' out sb :
  execute_unbond w h self amount user = Some (h', out) ->
  hub_bsei_supply w h = Some sb ->
  exists h1,
    slashing w self h = Some h1 /\
    let s := h_state h1 in
    let cb := h_batch h in
    let fee := if hs_ber s <? hp_thr (h_params h)
               then N.min (amount * hp_pegfee (h_params h) / D) (sb + cb_reqb cb - hs_bb s)
               else 0 in
    let reqb' := cb_reqb cb + (amount - fee) in
    let r1 := rate_of (hs_bb s) (sb - amount + reqb') in
    (h_batch h' = mkBatch (cb_id cb) reqb' (cb_reqst cb) /\ h_state h' = set_ber s r1 /\
     hr_undelegated out = 0)
    \/
    (hp_epoch (h_params h) < e_now (w_env w) - hs_lut s /\
     h_batch h' = mkBatch (cb_id cb + 1) 0 0 /\
     get N.eqb (h_hist h') (cb_id cb) =
       Some (mkHist (e_now (w_env w)) reqb' r1 r1 (cb_reqst cb) (hs_ser s) (hs_ser s) false) /\
     hr_undelegated out = reqb' * r1 / D + cb_reqst cb * hs_ser s / D /\
     hs_bb (h_state h') = hs_bb s - reqb' * r1 / D /\
     hs_bst (h_state h') = hs_bst s - cb_reqst cb * hs_ser s / D).
Proof.
  intros H Hsb.
  destruct (unbond_b_effect _ _ _ _ _ _ _ _ H Hsb) as (h1 & h2 & msgs & tok & E1 & E3).
  exists h1. split; [exact E1|]. cbv zeta in E3 |- *. destruct E3 as (_ & _ & Hw & Hmu & _ & Eo).
  destruct (add_wait_keeps _ _ _ _ _ _ Hw) as (K1 & K2 & K3 & K4 & K5).
  pose proof (slashing_frame _ _ _ _ E1) as (_ & F2 & _).
  subst out. rewrite hr_undelegated_app.
  assert (Hz : forall t a, hr_undelegated [MWasm t (WCw20 (CBurn a)) []] = 0) by reflexivity.
  rewrite Hz, N.add_0_r.
  apply maybe_undelegate_cases in Hmu. destruct Hmu as [[Eh' Em]|[Hep Hpu]].
  - left. subst h' msgs. hr_norm. repeat split.
  - right. cbn [h_params set_h_batch set_h_state h_state set_ber set_rates hs_lut] in Hep.
    rewrite K4, F2 in Hep. split; [exact Hep|].
    apply undelegation_value in Hpu. cbv zeta in Hpu.
    destruct Hpu as (Hsum & _ & _ & _ & Est & Eb & Ehist).
    cbn [h_state h_batch set_h_batch set_h_state set_ber set_rates hs_bb hs_bst hs_ber hs_ser
         cb_reqb cb_reqst cb_id] in Hsum, Est, Eb, Ehist.
    split; [exact Eb|]. split; [exact Ehist|]. split; [exact Hsum|]. rewrite Est. split; reflexivity.
Qed.

Theorem unbond_st_cases w h self amount user h' out :
  execute_unbond_stsei w h self amount user = Some (h', out) ->
  exists h1,
    slashing w self h = Some h1 /\
    let s := h_state h1 in
    let cb := h_batch h in
    let reqst' := cb_reqst cb + amount in
    (h_batch h' = mkBatch (cb_id cb) (cb_reqb cb) reqst' /\ h_state h' = s /\
     hr_undelegated out = 0)
    \/
    (hp_epoch (h_params h) < e_now (w_env w) - hs_lut s /\
     h_batch h' = mkBatch (cb_id cb + 1) 0 0 /\
     get N.eqb (h_hist h') (cb_id cb) =
       Some (mkHist (e_now (w_env w)) (cb_reqb cb) (hs_ber s) (hs_ber s)
                    reqst' (hs_ser s) (hs_ser s) false) /\
     hr_undelegated out = cb_reqb cb * hs_ber s / D + reqst' * hs_ser s / D /\
     hs_bb (h_state h') = hs_bb s - cb_reqb cb * hs_ber s / D /\
     hs_bst (h_state h') = hs_bst s - reqst' * hs_ser s / D).
Proof.
  intros H.
  destruct (unbond_st_effect _ _ _ _ _ _ _ H) as (h1 & h2 & msgs & tok & E1 & E3).
  exists h1. split; [exact E1|]. cbv zeta in E3 |- *. destruct E3 as (Hw & Hmu & _ & Eo).
  destruct (add_wait_keeps _ _ _ _ _ _ Hw) as (K1 & K2 & K3 & K4 & K5).
  pose proof (slashing_frame _ _ _ _ E1) as (_ & F2 & _).
  subst out. rewrite hr_undelegated_app.
  assert (Hz : forall t a, hr_undelegated [MWasm t (WCw20 (CBurn a)) []] = 0) by reflexivity.
  rewrite Hz, N.add_0_r.
  apply maybe_undelegate_cases in Hmu. destruct Hmu as [[Eh' Em]|[Hep Hpu]].
  - left. subst h' msgs. hr_norm. rewrite K1. repeat split.
  - right. cbn [h_params set_h_batch h_state] in Hep.
    rewrite K4, F2, K1 in Hep. split; [exact Hep|].
    apply undelegation_value in Hpu. cbv zeta in Hpu.
    destruct Hpu as (Hsum & _ & _ & _ & Est & Eb & Ehist).
    cbn [h_state h_batch set_h_batch cb_reqb cb_reqst cb_id] in Hsum, Est, Eb, Ehist.
    rewrite K1 in Hsum, Est, Ehist.
    split; [exact Eb|]. split; [exact Ehist|]. split; [exact Hsum|]. rewrite Est. split; reflexivity.
Qed.

(** ** 7. C03.3 — convert *)

Lemma mul_ratio_some a n d x : mul_ratio a n d = Some x -> d <> 0 /\ x = a * n / d.
Proof.
  unfold mul_ratio, narrow128. destruct (d =? 0) eqn:E; [discriminate|].
  destruct (fits128 (a * n / d)); [|discriminate]. intros H. inversion H. split; [lia|reflexivity].
Qed.

(** stSei -> bSei: burns [amount] stSei, moves [d = floor(amount x rate_st)] coins from the stSei
    pool to the bSei pool, mints [floor(d / rate_b) - fee] bSei *)
Theorem convert_st_b_prices w h self amount user h' out sb ss :
  convert_stsei_bsei w h self amount user = Some (h', out) ->
  hub_bsei_supply w h = Some sb -> hub_stsei_supply w h = Some ss ->
  exists h1 stok btok,
    slashing w self h = Some h1 /\
    hc_stsei (h_cfg h) = Some stok /\ hc_bsei (h_cfg h) = Some btok /\
    let s := h_state h1 in
    let cb := h_batch h in
    let d := amount * hs_ser s / D in
    let m0 := d * D / hs_ber s in
    let fee := if hs_ber s <? hp_thr (h_params h)
               then N.min (m0 * hp_pegfee (h_params h) / D) (sb + m0 + cb_reqb cb - (hs_bb s + d))
               else 0 in
    hs_ber s <> 0 /\ fee <= m0 /\ d <= hs_bst s /\ amount <= ss /\
    out = [MWasm btok (WCw20 (CMint user (m0 - fee))) []; MWasm stok (WCw20 (CBurn amount)) []] /\
    h' = set_h_state h1 (set_rates (set_bonded s (hs_bb s + d) (hs_bst s - d))
                           (rate_of (hs_bb s + d) (sb + (m0 - fee) + cb_reqb cb))
                           (rate_of (hs_bst s - d) (ss - amount + cb_reqst cb))).
Proof.
  unfold convert_stsei_bsei. intros H Hsb Hss.
  bind_inv H as h1 Hh1.
  pose proof (slashing_frame _ _ _ _ Hh1) as (F1 & F2 & F3 & F4 & F5 & F6 & F7).
  destruct (supply_cfg w h h1 F1) as [Sb Ss]. rewrite Sb, Ss, Hsb, Hss, F1, F2, F3 in H.
  bind_inv H as stok Hstok. bind_inv H as btok Hbtok.
  bind_inv H as d Hd. apply mulU_some in Hd.
  bind_inv H as m0 Hm0. apply ddiv_some in Hm0. destruct Hm0 as [Hr0 Hm0].
  cbn [bind] in H.
  bind_inv H as mint Hmint.
  bind_inv H as bb Hbb. apply add128_some in Hbb. destruct Hbb as [Hbb _].
  bind_inv H as bst Hbst. apply sub128_some in Hbst. destruct Hbst as [Hbst Hdle].
  bind_inv H as bsup' Hbsup. apply add128_some in Hbsup. destruct Hbsup as [Hbsup _].
  bind_inv H as ber Hber. apply exchange_rate_some in Hber.
  bind_inv H as ssup' Hssup. apply sub128_some in Hssup. destruct Hssup as [Hssup Hale].
  bind_inv H as ser Hser. apply exchange_rate_some in Hser.
  inversion H; subst h' out; clear H.
  exists h1, stok, btok. split; [reflexivity|]. split; [reflexivity|]. split; [reflexivity|]. cbv zeta.
  rewrite <- Hd, <- Hm0.
  assert (Hfee : exists fee, fee <= m0 /\ mint = m0 - fee /\
     fee = (if hs_ber (h_state h1) <? hp_thr (h_params h)
            then N.min (m0 * hp_pegfee (h_params h) / D)
                       (sb + m0 + cb_reqb (h_batch h) - (hs_bb (h_state h1) + d))
            else 0)).
  { destruct (hs_ber (h_state h1) <? hp_thr (h_params h)) eqn:Ethr.
    - bind_inv Hmint as max_fee Hmf. apply mulU_some in Hmf.
      bind_inv Hmint as a1 Ha1. apply add128_some in Ha1. destruct Ha1 as [Ha1 _].
      bind_inv Hmint as a2 Ha2. apply add128_some in Ha2. destruct Ha2 as [Ha2 _].
      cbn [bind] in Hmint.
      bind_inv Hmint as required Hreq. apply sub128_some in Hreq. destruct Hreq as [Hreq _].
      apply sub128_some in Hmint. destruct Hmint as [Hmint Hf]. unfold peg_fee in *.
      subst required a2 a1 max_fee bb. eexists. split; [exact Hf|]. split; [exact Hmint|reflexivity].
    - inversion Hmint; subst mint. exists 0. split; [apply N.le_0_l|]. split; [lia|reflexivity]. }
  destruct Hfee as (fee & Hf1 & Hf2 & Hf3). rewrite <- Hf3.
  subst mint bb bst bsup' ber ssup' ser.
  split; [exact Hr0|]. split; [exact Hf1|]. split; [exact Hdle|]. split; [exact Hale|].
  split; reflexivity.
Qed.

(** bSei -> stSei: burns [amount] bSei, moves [d = floor((amount - fee) x rate_b)] coins from the
    bSei pool to the stSei pool, mints [floor(d / rate_st)] stSei *)
Theorem convert_b_st_prices w h self amount user h' out sb ss :
  convert_bsei_stsei w h self amount user = Some (h', out) ->
  hub_bsei_supply w h = Some sb -> hub_stsei_supply w h = Some ss ->
  exists h1 stok btok,
    slashing w self h = Some h1 /\
    hc_stsei (h_cfg h) = Some stok /\ hc_bsei (h_cfg h) = Some btok /\
    let s := h_state h1 in
    let cb := h_batch h in
    let c := sb + cb_reqb cb in
    let gap := c - hs_bb s in
    let fee := if hs_ber s <? hp_thr (h_params h)
               then N.min (amount * hp_pegfee (h_params h) / D)
                          (if hs_bb s =? 0 then gap else gap * (c - amount) / hs_bb s)
               else 0 in
    let d := (amount - fee) * hs_ber s / D in
    let m := d * D / hs_ser s in
    hs_ser s <> 0 /\ fee <= amount /\ d <= hs_bb s /\ amount <= sb /\
    out = [MWasm stok (WCw20 (CMint user m)) []; MWasm btok (WCw20 (CBurn amount)) []] /\
    h' = set_h_state h1 (set_rates (set_bonded s (hs_bb s - d) (hs_bst s + d))
                           (rate_of (hs_bb s - d) (sb - amount + cb_reqb cb))
                           (rate_of (hs_bst s + d) (ss + m + cb_reqst cb))).
Proof.
  unfold convert_bsei_stsei. intros H Hsb Hss.
  bind_inv H as h1 Hh1.
  pose proof (slashing_frame _ _ _ _ Hh1) as (F1 & F2 & F3 & F4 & F5 & F6 & F7).
  destruct (supply_cfg w h h1 F1) as [Sb Ss]. rewrite Sb, Ss, Hsb, Hss, F1, F2, F3 in H.
  bind_inv H as stok Hstok. bind_inv H as btok Hbtok. cbn [bind] in H.
  bind_inv H as awf Hawf.
  bind_inv H as d Hd. apply mulU_some in Hd.
  bind_inv H as m Hm. apply ddiv_some in Hm. destruct Hm as [Hr0 Hm].
  bind_inv H as bb Hbb. apply sub128_some in Hbb. destruct Hbb as [Hbb Hdle].
  bind_inv H as bst Hbst. apply add128_some in Hbst. destruct Hbst as [Hbst _].
  bind_inv H as bsup' Hbsup. apply sub128_some in Hbsup. destruct Hbsup as [Hbsup Hale].
  bind_inv H as ber Hber. apply exchange_rate_some in Hber.
  bind_inv H as ssup' Hssup. apply add128_some in Hssup. destruct Hssup as [Hssup _].
  bind_inv H as ser Hser. apply exchange_rate_some in Hser.
  inversion H; subst h' out; clear H.
  exists h1, stok, btok. split; [reflexivity|]. split; [reflexivity|]. split; [reflexivity|]. cbv zeta.
  assert (Hfee : exists fee, fee <= amount /\ awf = amount - fee /\
     fee = (if hs_ber (h_state h1) <? hp_thr (h_params h)
            then N.min (amount * hp_pegfee (h_params h) / D)
                       (if hs_bb (h_state h1) =? 0 then sb + cb_reqb (h_batch h) - hs_bb (h_state h1)
                        else (sb + cb_reqb (h_batch h) - hs_bb (h_state h1)) *
                             (sb + cb_reqb (h_batch h) - amount) / hs_bb (h_state h1))
            else 0)).
  { destruct (hs_ber (h_state h1) <? hp_thr (h_params h)) eqn:Ethr.
    - bind_inv Hawf as max_fee Hmf. apply mulU_some in Hmf.
      bind_inv Hawf as c Hc. apply add128_some in Hc. destruct Hc as [Hc _].
      bind_inv Hawf as gap Hgap. apply sub128_some in Hgap. destruct Hgap as [Hgap _].
      bind_inv Hawf as required Hreq.
      apply sub128_some in Hawf. destruct Hawf as [Hawf Hf]. unfold peg_fee in *.
      destruct (hs_bb (h_state h1) =? 0) eqn:Ebb.
      + inversion Hreq; subst required. subst gap c max_fee.
        eexists. split; [exact Hf|]. split; [exact Hawf|reflexivity].
      + bind_inv Hreq as rest Hrest. apply sub128_some in Hrest. destruct Hrest as [Hrest _].
        apply mul_ratio_some in Hreq. destruct Hreq as [_ Hreq].
        subst required rest gap c max_fee.
        eexists. split; [exact Hf|]. split; [exact Hawf|reflexivity].
    - inversion Hawf; subst awf. exists 0. split; [apply N.le_0_l|]. split; [lia|reflexivity]. }
  destruct Hfee as (fee & Hf1 & Hf2 & Hf3). rewrite <- Hf3. rewrite <- Hf2, <- Hd, <- Hm.
  subst bb bst bsup' ber ssup' ser.
  split; [exact Hr0|]. split; [exact Hf1|]. split; [exact Hdle|]. split; [exact Hale|].
  split; reflexivity.
Qed.

(** ** 8. C03.5 — every rounding is in the pool's favour *)

Lemma hr_add_sub_l a x : a + x - a = x.
Proof. rewrite N.add_comm. apply N.add_sub. Qed.

(** tokens minted for a payment never exceed payment / rate (fee or not) *)
Lemma round_mint p r fee : (p * D / r - fee) * r <= p * D.
Proof.
  apply N.le_trans with (p * D / r * r); [apply N.mul_le_mono_r; apply N.le_sub_l|apply div_mul_le_l].
Qed.

(** the coin value of tokens never exceeds tokens x rate (fee or not) *)
Lemma round_value a fee r : (a - fee) * r / D * D <= a * r.
Proof.
  apply N.le_trans with ((a - fee) * r); [apply div_mul_le_l|apply N.mul_le_mono_r; apply N.le_sub_l].
Qed.

Theorem bond_b_rounding w h self sender funds h' out sb :
  execute_bond w h self sender funds BkB = Some (h', out) ->
  hub_bsei_supply w h = Some sb ->
  exists h1 p dmsgs tok mint,
    slashing w self h = Some h1 /\ funds = [(hp_underlying (h_params h), p)] /\
    out = dmsgs ++ [MWasm tok (WCw20 (CMint sender mint)) []] /\
    mint * hs_ber (h_state h1) <= p * D.
Proof.
  intros H Hsb. destruct (bond_b_mints _ _ _ _ _ _ _ _ H Hsb) as (h1 & p & vals & xs & tok & E1 & E2 & _ & _ & E3).
  cbv zeta in E3. destruct E3 as (_ & _ & E3 & _).
  exists h1, p, (delegate_msgs vals xs (hp_underlying (h_params h))), tok. eexists.
  split; [exact E1|]. split; [exact E2|]. split; [exact E3|]. apply round_mint.
Qed.

Theorem bond_st_rounding w h self sender funds h' out :
  execute_bond w h self sender funds BkSt = Some (h', out) ->
  exists h1 p dmsgs tok mint,
    slashing w self h = Some h1 /\ funds = [(hp_underlying (h_params h), p)] /\
    out = dmsgs ++ [MWasm tok (WCw20 (CMint sender mint)) []] /\
    mint * hs_ser (h_state h1) <= p * D.
Proof.
  intros H. destruct (bond_st_mints _ _ _ _ _ _ _ H) as (h1 & p & vals & xs & tok & E1 & E2 & _ & _ & E3).
  cbv zeta in E3. destruct E3 as (_ & E3 & _).
  exists h1, p, (delegate_msgs vals xs (hp_underlying (h_params h))), tok. eexists.
  split; [exact E1|]. split; [exact E2|]. split; [exact E3|]. apply div_mul_le_l.
Qed.

Theorem convert_st_b_rounding w h self amount user h' out sb ss :
  convert_stsei_bsei w h self amount user = Some (h', out) ->
  hub_bsei_supply w h = Some sb -> hub_stsei_supply w h = Some ss ->
  exists h1 stok btok mint,
    slashing w self h = Some h1 /\
    out = [MWasm btok (WCw20 (CMint user mint)) []; MWasm stok (WCw20 (CBurn amount)) []] /\
    let d := hs_bb (h_state h') - hs_bb (h_state h1) in
    hs_bst (h_state h') = hs_bst (h_state h1) - d /\ d <= hs_bst (h_state h1) /\
    d * D <= amount * hs_ser (h_state h1) /\ mint * hs_ber (h_state h1) <= d * D.
Proof.
  intros H Hsb Hss.
  destruct (convert_st_b_prices _ _ _ _ _ _ _ _ _ H Hsb Hss) as (h1 & stok & btok & E1 & _ & _ & E3).
  cbv zeta in E3. destruct E3 as (_ & _ & Hd & _ & Eo & Eh).
  exists h1, stok, btok. eexists. split; [exact E1|]. split; [exact Eo|]. subst h'.
  cbn [h_state set_h_state set_rates set_bonded hs_bb hs_bst]. cbv zeta.
  rewrite !hr_add_sub_l.
  split; [reflexivity|]. split; [exact Hd|]. split; [apply div_mul_le_l|apply round_mint].
Qed.

Theorem convert_b_st_rounding w h self amount user h' out sb ss :
  convert_bsei_stsei w h self amount user = Some (h', out) ->
  hub_bsei_supply w h = Some sb -> hub_stsei_supply w h = Some ss ->
  exists h1 stok btok mint,
    slashing w self h = Some h1 /\
    out = [MWasm stok (WCw20 (CMint user mint)) []; MWasm btok (WCw20 (CBurn amount)) []] /\
    let d := hs_bst (h_state h') - hs_bst (h_state h1) in
    hs_bb (h_state h') = hs_bb (h_state h1) - d /\ d <= hs_bb (h_state h1) /\
    d * D <= amount * hs_ber (h_state h1) /\ mint * hs_ser (h_state h1) <= d * D.
Proof.
  intros H Hsb Hss.
  destruct (convert_b_st_prices _ _ _ _ _ _ _ _ _ H Hsb Hss) as (h1 & stok & btok & E1 & _ & _ & E3).
  cbv zeta in E3. destruct E3 as (_ & _ & Hd & _ & Eo & Eh).
  exists h1, stok, btok. eexists. split; [exact E1|]. split; [exact Eo|]. subst h'.
  cbn [h_state set_h_state set_rates set_bonded hs_bb hs_bst]. cbv zeta.
  rewrite !hr_add_sub_l.
  split; [reflexivity|]. split; [exact Hd|]. split; [apply round_value|apply div_mul_le_l].
Qed.

Theorem undelegation_rounding w self h h' msgs :
  process_undelegations w self h = Some (h', msgs) ->
  hr_undelegated msgs * D <=
    cb_reqb (h_batch h) * hs_ber (h_state h) + cb_reqst (h_batch h) * hs_ser (h_state h).
Proof.
  intros H. apply undelegation_value in H. cbv zeta in H. destruct H as (E & _). rewrite E.
  rewrite N.mul_add_distr_r. apply N.add_le_mono; apply div_mul_le_l.
Qed.

(** ** 9. C04 — no pricing handler lowers a rate *)

Theorem bond_b_rate_mono w h self sender funds h' out sb h1 :
  execute_bond w h self sender funds BkB = Some (h', out) ->
  hub_bsei_supply w h = Some sb ->
  slashing w self h = Some h1 ->
  Sound (hs_ber (h_state h1)) (hs_bb (h_state h1)) (sb + cb_reqb (h_batch h1)) ->
  exists dmsgs tok mint,
    out = dmsgs ++ [MWasm tok (WCw20 (CMint sender mint)) []] /\
    Forall (fun m => exists v c, m = MDelegate v c) dmsgs /\
    let B' := hs_bb (h_state h') in
    let C' := sb + mint + cb_reqb (h_batch h') in
    Backed B' C' /\ (0 < C' -> hs_ber (h_state h1) <= rate_of B' C') /\
    hs_ber (h_state h') = rate_of B' C' /\
    hs_bst (h_state h') = hs_bst (h_state h1) /\ h_batch h' = h_batch h1.
Proof.
  intros H Hsb Hh1 [Hr Hs].
  destruct (bond_b_mints _ _ _ _ _ _ _ _ H Hsb) as (h1' & p & vals & xs & tok & E1 & _ & _ & _ & E3).
  rewrite Hh1 in E1. inversion E1; subst h1'; clear E1.
  pose proof (slashing_frame _ _ _ _ Hh1) as (_ & _ & F3 & _).
  cbv zeta in E3. destruct E3 as (_ & _ & Eo & Eh).
  exists (delegate_msgs vals xs (hp_underlying (h_params h))), tok. eexists.
  split; [exact Eo|]. split; [apply delegate_msgs_only_delegate|]. subst h'. hr_norm. cbv zeta.
  rewrite <- F3 in *.
  set (r := hs_ber (h_state h1)) in *. set (bb := hs_bb (h_state h1)) in *.
  set (q := cb_reqb (h_batch h1)) in *.
  match goal with |- context [sb + ?m + q] => set (mint := m) in * end.
  assert (Hm : mint * r <= p * D) by apply round_mint.
  assert (Hk : r * (sb + mint + q) <= (bb + p) * D) by (clearbody mint; lia).
  destruct (rate_step r (bb + p) (sb + mint + q) Hr Hk) as [Kb Kr].
  split; [exact Kb|]. split; [exact Kr|]. repeat split.
Qed.

Theorem bond_st_rate_mono w h self sender funds h' out ss h1 :
  execute_bond w h self sender funds BkSt = Some (h', out) ->
  slashing w self h = Some h1 ->
  Sound (hs_ser (h_state h1)) (hs_bst (h_state h1)) (ss + cb_reqst (h_batch h1)) ->
  exists dmsgs tok mint,
    out = dmsgs ++ [MWasm tok (WCw20 (CMint sender mint)) []] /\
    Forall (fun m => exists v c, m = MDelegate v c) dmsgs /\
    let B' := hs_bst (h_state h') in
    let C' := ss + mint + cb_reqst (h_batch h') in
    Backed B' C' /\ (0 < C' -> hs_ser (h_state h1) <= rate_of B' C') /\
    hs_bb (h_state h') = hs_bb (h_state h1) /\ h_batch h' = h_batch h1.
Proof.
  intros H Hh1 [Hr Hs].
  destruct (bond_st_mints _ _ _ _ _ _ _ H) as (h1' & p & vals & xs & tok & E1 & _ & _ & _ & E3).
  rewrite Hh1 in E1. inversion E1; subst h1'; clear E1.
  cbv zeta in E3. destruct E3 as (_ & Eo & Eh).
  exists (delegate_msgs vals xs (hp_underlying (h_params h))), tok. eexists.
  split; [exact Eo|]. split; [apply delegate_msgs_only_delegate|]. subst h'. hr_norm. cbv zeta.
  set (r := hs_ser (h_state h1)) in *. set (bst := hs_bst (h_state h1)) in *.
  set (q := cb_reqst (h_batch h1)) in *.
  assert (Hm : p * D / r * r <= p * D) by apply div_mul_le_l.
  set (mint := p * D / r) in *.
  assert (Hk : r * (ss + mint + q) <= (bst + p) * D) by (clearbody mint; lia).
  destruct (rate_step r (bst + p) (ss + mint + q) Hr Hk) as [Kb Kr].
  split; [exact Kb|]. split; [exact Kr|]. repeat split.
Qed.

(** BondRewards: no token message, the stSei backing strictly grows over unchanged claims, so the
    stSei rate does not fall (and its exact value backing/claims strictly rises); bSei untouched *)
Theorem bond_rw_rate_mono w h self sender funds h' out ss h1 :
  execute_bond w h self sender funds BkRw = Some (h', out) ->
  hub_stsei_supply w h = Some ss ->
  slashing w self h = Some h1 ->
  Sound (hs_ser (h_state h1)) (hs_bst (h_state h1)) (ss + cb_reqst (h_batch h1)) ->
  Forall (fun m => exists v c, m = MDelegate v c) out /\
  let B' := hs_bst (h_state h') in
  let C' := ss + cb_reqst (h_batch h') in
  hs_bst (h_state h1) < B' /\
  Backed B' C' /\ (0 < C' -> hs_ser (h_state h1) <= rate_of B' C') /\
  hs_ser (h_state h') = rate_of B' C' /\
  hs_bb (h_state h') = hs_bb (h_state h1) /\ hs_ber (h_state h') = hs_ber (h_state h1) /\
  h_batch h' = h_batch h1.
Proof.
  intros H Hss Hh1 [Hr Hs].
  destruct (bond_rw_mints _ _ _ _ _ _ _ _ H Hss) as (h1' & p & vals & xs & E1 & _ & _ & Hp & E3).
  rewrite Hh1 in E1. inversion E1; subst h1'; clear E1.
  pose proof (slashing_frame _ _ _ _ Hh1) as (_ & _ & F3 & _).
  cbv zeta in E3. destruct E3 as (Eo & Eh). subst out.
  split; [apply delegate_msgs_only_delegate|]. subst h'. hr_norm. cbv zeta. rewrite <- F3 in *.
  set (r := hs_ser (h_state h1)) in *. set (bst := hs_bst (h_state h1)) in *.
  set (q := cb_reqst (h_batch h1)) in *.
  assert (Hk : r * (ss + q) <= (bst + p) * D) by lia.
  destruct (rate_step r (bst + p) (ss + q) Hr Hk) as [Kb Kr].
  split; [lia|]. split; [exact Kb|]. split; [exact Kr|]. repeat split.
Qed.

(** the batch-closing step: if the stored rates are not above backing over claims (requests
    included), then after the undelegation they are not above backing over the remaining supply *)
Lemma close_step w self h3 h' msgs Sb Ss :
  process_undelegations w self h3 = Some (h', msgs) ->
  hs_ber (h_state h3) * (Sb + cb_reqb (h_batch h3)) <= hs_bb (h_state h3) * D ->
  hs_ser (h_state h3) * (Ss + cb_reqst (h_batch h3)) <= hs_bst (h_state h3) * D ->
  Forall (fun m => exists v c, m = MUndelegate v c) msgs /\
  cb_reqb (h_batch h') = 0 /\ cb_reqst (h_batch h') = 0 /\
  hs_ber (h_state h3) * Sb <= hs_bb (h_state h') * D /\
  hs_ser (h_state h3) * Ss <= hs_bst (h_state h') * D.
Proof.
  intros H Hb Hs. apply undelegation_value in H. cbv zeta in H.
  destruct H as (_ & Hall & Hle1 & Hle2 & Est & Ebatch & _).
  rewrite Est, Ebatch. cbn [hs_bb hs_bst cb_reqb cb_reqst].
  split; [exact Hall|]. split; [reflexivity|]. split; [reflexivity|].
  set (rb := hs_ber (h_state h3)) in *. set (rs := hs_ser (h_state h3)) in *.
  set (qb := cb_reqb (h_batch h3)) in *. set (qs := cb_reqst (h_batch h3)) in *.
  split.
  - pose proof (arith_redeem rb (hs_bb (h_state h3)) (Sb + qb) qb qb (qb * rb / D) Hb
                  (N.le_refl _)) as K.
    rewrite N.add_sub in K. apply K; [lia|apply div_mul_le_l|exact Hle1].
  - pose proof (arith_redeem rs (hs_bst (h_state h3)) (Ss + qs) qs qs (qs * rs / D) Hs
                  (N.le_refl _)) as K.
    rewrite N.add_sub in K. apply K; [lia|apply div_mul_le_l|exact Hle2].
Qed.

(** Unbond (bSei), both branches (request only / request that closes the batch) *)
Theorem unbond_b_rate_mono w h self amount user h' out sb ss h1 :
  execute_unbond w h self amount user = Some (h', out) ->
  hub_bsei_supply w h = Some sb ->
  slashing w self h = Some h1 ->
  Sound (hs_ber (h_state h1)) (hs_bb (h_state h1)) (sb + cb_reqb (h_batch h1)) ->
  Sound (hs_ser (h_state h1)) (hs_bst (h_state h1)) (ss + cb_reqst (h_batch h1)) ->
  exists msgs tok,
    out = msgs ++ [MWasm tok (WCw20 (CBurn amount)) []] /\
    Forall (fun m => exists v c, m = MUndelegate v c) msgs /\ amount <= sb /\
    let Cb' := sb - amount + cb_reqb (h_batch h') in
    let Cst' := ss + cb_reqst (h_batch h') in
    Backed (hs_bb (h_state h')) Cb' /\
    (0 < Cb' -> hs_ber (h_state h1) <= rate_of (hs_bb (h_state h')) Cb') /\
    Backed (hs_bst (h_state h')) Cst' /\
    (0 < Cst' -> hs_ser (h_state h1) <= rate_of (hs_bst (h_state h')) Cst').
Proof.
  intros H Hsb Hh1 [Hrb Hsndb] [Hrs Hsnds].
  destruct (unbond_b_effect _ _ _ _ _ _ _ _ H Hsb) as (h1' & h2 & msgs & tok & E1 & E3).
  rewrite Hh1 in E1. inversion E1; subst h1'; clear E1.
  pose proof (slashing_frame _ _ _ _ Hh1) as (_ & _ & F3 & _).
  cbv zeta in E3. destruct E3 as (Hfee & Hale & Hw & Hmu & _ & Eo).
  destruct (add_wait_keeps _ _ _ _ _ _ Hw) as (K1 & K2 & _).
  exists msgs, tok. split; [exact Eo|]. rewrite <- F3 in *.
  set (rb := hs_ber (h_state h1)) in *. set (rs := hs_ser (h_state h1)) in *.
  set (bb := hs_bb (h_state h1)) in *. set (bst := hs_bst (h_state h1)) in *.
  set (qb := cb_reqb (h_batch h1)) in *. set (qs := cb_reqst (h_batch h1)) in *.
  match type of Hfee with ?f <= _ => set (fee := f) in * end. clearbody fee.
  set (C1 := sb - amount + (qb + (amount - fee))) in *.
  assert (HC1 : C1 <= sb + qb) by (unfold C1; lia).
  assert (Hk1 : rb * C1 <= bb * D).
  { apply N.le_trans with (rb * (sb + qb)); [apply N.mul_le_mono_l; exact HC1|exact Hsndb]. }
  apply maybe_undelegate_cases in Hmu. destruct Hmu as [[Eh' Em]|[_ Hpu]].
  - subst h' msgs. hr_norm. cbv zeta. split; [constructor|]. split; [exact Hale|].
    fold C1. destruct (rate_step rb bb C1 Hrb Hk1) as [Kb Kr].
    destruct (rate_step rs bst (ss + qs) Hrs Hsnds) as [Kb' Kr'].
    fold bb bst. repeat split; assumption.
  - set (h3 := set_h_batch _ _) in Hpu.
    assert (G1 : hs_bb (h_state h3) = bb) by reflexivity.
    assert (G2 : hs_bst (h_state h3) = bst) by reflexivity.
    assert (G3 : hs_ser (h_state h3) = rs) by reflexivity.
    assert (G4 : hs_ber (h_state h3) = rate_of bb C1) by reflexivity.
    assert (G5 : cb_reqb (h_batch h3) = qb + (amount - fee)) by reflexivity.
    assert (G6 : cb_reqst (h_batch h3) = qs) by reflexivity.
    assert (Hbk : Backed bb C1).
    { intros HC. apply (Sound_backed rb bb (sb + qb)); [split; assumption|lia]. }
    destruct (close_step w self h3 h' msgs (sb - amount) ss Hpu) as (Hall & Z1 & Z2 & R1 & R2).
    + rewrite G1, G4, G5. fold C1. apply rate_of_le. exact Hbk.
    + rewrite G2, G3, G6. exact Hsnds.
    + split; [exact Hall|]. split; [exact Hale|]. cbv zeta. rewrite Z1, Z2, !N.add_0_r.
      rewrite G3 in R2. rewrite G4 in R1.
      assert (R1' : rb * (sb - amount) <= hs_bb (h_state h') * D).
      { destruct (N.eq_dec (sb - amount) 0) as [Ez|Enz]; [rewrite Ez; lia|].
        assert (HC1pos : 0 < C1) by (unfold C1; lia).
        assert (Hge : rb <= rate_of bb C1) by (apply rate_ge; [apply Hbk; exact HC1pos|exact HC1pos|exact Hk1]).
        apply N.le_trans with (rate_of bb C1 * (sb - amount)); [apply N.mul_le_mono_r; exact Hge|exact R1]. }
      destruct (rate_step rb _ _ Hrb R1') as [Kb Kr].
      destruct (rate_step rs _ _ Hrs R2) as [Kb' Kr'].
      repeat split; assumption.
Qed.

(** Unbond (stSei), both branches; [amount <= ss] says that the emitted Burn can succeed *)
Theorem unbond_st_rate_mono w h self amount user h' out sb ss h1 :
  execute_unbond_stsei w h self amount user = Some (h', out) ->
  slashing w self h = Some h1 ->
  amount <= ss ->
  Sound (hs_ber (h_state h1)) (hs_bb (h_state h1)) (sb + cb_reqb (h_batch h1)) ->
  Sound (hs_ser (h_state h1)) (hs_bst (h_state h1)) (ss + cb_reqst (h_batch h1)) ->
  exists msgs tok,
    out = msgs ++ [MWasm tok (WCw20 (CBurn amount)) []] /\
    Forall (fun m => exists v c, m = MUndelegate v c) msgs /\
    let Cb' := sb + cb_reqb (h_batch h') in
    let Cst' := ss - amount + cb_reqst (h_batch h') in
    Backed (hs_bb (h_state h')) Cb' /\
    (0 < Cb' -> hs_ber (h_state h1) <= rate_of (hs_bb (h_state h')) Cb') /\
    Backed (hs_bst (h_state h')) Cst' /\
    (0 < Cst' -> hs_ser (h_state h1) <= rate_of (hs_bst (h_state h')) Cst').
Proof.
  intros H Hh1 Hale [Hrb Hsndb] [Hrs Hsnds].
  destruct (unbond_st_effect _ _ _ _ _ _ _ H) as (h1' & h2 & msgs & tok & E1 & E3).
  rewrite Hh1 in E1. inversion E1; subst h1'; clear E1.
  pose proof (slashing_frame _ _ _ _ Hh1) as (_ & _ & F3 & _).
  cbv zeta in E3. destruct E3 as (Hw & Hmu & _ & Eo).
  destruct (add_wait_keeps _ _ _ _ _ _ Hw) as (K1 & K2 & _).
  exists msgs, tok. split; [exact Eo|]. rewrite <- F3 in *.
  set (rb := hs_ber (h_state h1)) in *. set (rs := hs_ser (h_state h1)) in *.
  set (bb := hs_bb (h_state h1)) in *. set (bst := hs_bst (h_state h1)) in *.
  set (qb := cb_reqb (h_batch h1)) in *. set (qs := cb_reqst (h_batch h1)) in *.
  assert (HC : ss - amount + (qs + amount) = ss + qs) by lia.
  apply maybe_undelegate_cases in Hmu. destruct Hmu as [[Eh' Em]|[_ Hpu]].
  - subst h' msgs. hr_norm. cbv zeta. split; [constructor|]. rewrite HC, K1. fold bb bst.
    destruct (rate_step rb bb (sb + qb) Hrb Hsndb) as [Kb Kr].
    destruct (rate_step rs bst (ss + qs) Hrs Hsnds) as [Kb' Kr'].
    repeat split; assumption.
  - set (h3 := set_h_batch _ _) in Hpu.
    assert (G1 : h_state h3 = h_state h1) by (unfold h3; hr_norm; exact K1).
    assert (G5 : cb_reqb (h_batch h3) = qb) by reflexivity.
    assert (G6 : cb_reqst (h_batch h3) = qs + amount) by reflexivity.
    destruct (close_step w self h3 h' msgs sb (ss - amount) Hpu) as (Hall & Z1 & Z2 & R1 & R2).
    + rewrite G1, G5. exact Hsndb.
    + rewrite G1, G6, HC. exact Hsnds.
    + split; [exact Hall|]. cbv zeta. rewrite Z1, Z2, !N.add_0_r. rewrite G1 in R1, R2.
      destruct (rate_step rb _ _ Hrb R1) as [Kb Kr].
      destruct (rate_step rs _ _ Hrs R2) as [Kb' Kr'].
      repeat split; assumption.
Qed.

(** stSei -> bSei *)
Theorem convert_st_b_rate_mono w h self amount user h' out sb ss h1 :
  convert_stsei_bsei w h self amount user = Some (h', out) ->
  hub_bsei_supply w h = Some sb -> hub_stsei_supply w h = Some ss ->
  slashing w self h = Some h1 ->
  Sound (hs_ber (h_state h1)) (hs_bb (h_state h1)) (sb + cb_reqb (h_batch h1)) ->
  Sound (hs_ser (h_state h1)) (hs_bst (h_state h1)) (ss + cb_reqst (h_batch h1)) ->
  exists stok btok mint,
    out = [MWasm btok (WCw20 (CMint user mint)) []; MWasm stok (WCw20 (CBurn amount)) []] /\
    amount <= ss /\ h_batch h' = h_batch h1 /\
    let Bb' := hs_bb (h_state h') in
    let Cb' := sb + mint + cb_reqb (h_batch h') in
    let Bst' := hs_bst (h_state h') in
    let Cst' := ss - amount + cb_reqst (h_batch h') in
    Backed Bb' Cb' /\ (0 < Cb' -> hs_ber (h_state h1) <= rate_of Bb' Cb') /\
    Backed Bst' Cst' /\ (0 < Cst' -> hs_ser (h_state h1) <= rate_of Bst' Cst') /\
    hs_ber (h_state h') = rate_of Bb' Cb' /\ hs_ser (h_state h') = rate_of Bst' Cst'.
Proof.
  intros H Hsb Hss Hh1 [Hrb Hsndb] [Hrs Hsnds].
  destruct (convert_st_b_prices _ _ _ _ _ _ _ _ _ H Hsb Hss) as (h1' & stok & btok & E1 & _ & _ & E3).
  rewrite Hh1 in E1. inversion E1; subst h1'; clear E1.
  pose proof (slashing_frame _ _ _ _ Hh1) as (_ & _ & F3 & _).
  cbv zeta in E3. destruct E3 as (_ & _ & Hdle & Hale & Eo & Eh).
  exists stok, btok. eexists. split; [exact Eo|]. split; [exact Hale|]. subst h'. hr_norm.
  split; [reflexivity|]. cbv zeta. rewrite <- F3 in *.
  set (rb := hs_ber (h_state h1)) in *. set (rs := hs_ser (h_state h1)) in *.
  set (bb := hs_bb (h_state h1)) in *. set (bst := hs_bst (h_state h1)) in *.
  set (qb := cb_reqb (h_batch h1)) in *. set (qs := cb_reqst (h_batch h1)) in *.
  set (d := amount * rs / D) in *.
  match goal with |- context [sb + ?m + qb] => set (mint := m) in * end.
  assert (Hd : d * D <= amount * rs) by apply div_mul_le_l.
  assert (Hm : mint * rb <= d * D) by apply round_mint.
  assert (Hk1 : rb * (sb + mint + qb) <= (bb + d) * D) by (clearbody mint d; lia).
  assert (Hk2 : rs * (ss - amount + qs) <= (bst - d) * D).
  { pose proof (arith_redeem rs bst (ss + qs) amount amount d Hsnds (N.le_refl _)) as K.
    replace (ss + qs - amount) with (ss - amount + qs) in K by lia.
    apply K; [lia|exact Hd|exact Hdle]. }
  destruct (rate_step rb _ _ Hrb Hk1) as [Kb Kr]. destruct (rate_step rs _ _ Hrs Hk2) as [Kb' Kr'].
  repeat split; assumption.
Qed.

(** bSei -> stSei *)
Theorem convert_b_st_rate_mono w h self amount user h' out sb ss h1 :
  convert_bsei_stsei w h self amount user = Some (h', out) ->
  hub_bsei_supply w h = Some sb -> hub_stsei_supply w h = Some ss ->
  slashing w self h = Some h1 ->
  Sound (hs_ber (h_state h1)) (hs_bb (h_state h1)) (sb + cb_reqb (h_batch h1)) ->
  Sound (hs_ser (h_state h1)) (hs_bst (h_state h1)) (ss + cb_reqst (h_batch h1)) ->
  exists stok btok mint,
    out = [MWasm stok (WCw20 (CMint user mint)) []; MWasm btok (WCw20 (CBurn amount)) []] /\
    amount <= sb /\ h_batch h' = h_batch h1 /\
    let Bb' := hs_bb (h_state h') in
    let Cb' := sb - amount + cb_reqb (h_batch h') in
    let Bst' := hs_bst (h_state h') in
    let Cst' := ss + mint + cb_reqst (h_batch h') in
    Backed Bb' Cb' /\ (0 < Cb' -> hs_ber (h_state h1) <= rate_of Bb' Cb') /\
    Backed Bst' Cst' /\ (0 < Cst' -> hs_ser (h_state h1) <= rate_of Bst' Cst') /\
    hs_ber (h_state h') = rate_of Bb' Cb' /\ hs_ser (h_state h') = rate_of Bst' Cst'.
Proof.
  intros H Hsb Hss Hh1 [Hrb Hsndb] [Hrs Hsnds].
  destruct (convert_b_st_prices _ _ _ _ _ _ _ _ _ H Hsb Hss) as (h1' & stok & btok & E1 & _ & _ & E3).
  rewrite Hh1 in E1. inversion E1; subst h1'; clear E1.
  pose proof (slashing_frame _ _ _ _ Hh1) as (_ & _ & F3 & _).
  cbv zeta in E3. destruct E3 as (_ & Hfee & Hdle & Hale & Eo & Eh).
  exists stok, btok. eexists. split; [exact Eo|]. split; [exact Hale|]. subst h'. hr_norm.
  split; [reflexivity|]. cbv zeta. rewrite <- F3 in *.
  set (rb := hs_ber (h_state h1)) in *. set (rs := hs_ser (h_state h1)) in *.
  set (bb := hs_bb (h_state h1)) in *. set (bst := hs_bst (h_state h1)) in *.
  set (qb := cb_reqb (h_batch h1)) in *. set (qs := cb_reqst (h_batch h1)) in *.
  match type of Hfee with ?f <= _ => set (fee := f) in * end. clearbody fee.
  set (d := (amount - fee) * rb / D) in *.
  set (mint := d * D / rs) in *.
  assert (Hd : d * D <= (amount - fee) * rb) by apply div_mul_le_l.
  assert (Hm : mint * rs <= d * D) by apply div_mul_le_l.
  assert (Hk2 : rs * (ss + mint + qs) <= (bst + d) * D) by (clearbody mint d; lia).
  assert (Hk1 : rb * (sb - amount + qb) <= (bb - d) * D).
  { pose proof (arith_redeem rb bb (sb + qb) amount (amount - fee) d Hsndb) as K.
    replace (sb + qb - amount) with (sb - amount + qb) in K by lia.
    apply K; [lia|lia|exact Hd|exact Hdle]. }
  destruct (rate_step rb _ _ Hrb Hk1) as [Kb Kr]. destruct (rate_step rs _ _ Hrs Hk2) as [Kb' Kr'].
  repeat split; assumption.
Qed.

(** CheckSlashing that finds no loss: no message, pools and batch untouched, hence both rates
    [rate_of pool claims] are what they were *)
Theorem check_slashing_no_loss w h self sender funds h' out actual :
  hub_execute w h self sender funds HCheckSlashing = Some (h', out) ->
  actual_bonded w self h = Some actual -> booked h <= actual ->
  out = [] /\ hs_bb (h_state h') = hs_bb (h_state h) /\ hs_bst (h_state h') = hs_bst (h_state h) /\
  h_batch h' = h_batch h.
Proof.
  unfold hub_execute. intros H Ha Hle. check_inv H as Hp. bind_inv H as h1 Hh1.
  inversion H; subst h' out; clear H.
  destruct (slashing_no_loss _ _ _ _ _ Hh1 Ha Hle) as [E1 E2].
  pose proof (slashing_frame _ _ _ _ Hh1) as (_ & _ & F3 & _).
  repeat split; assumption.
Qed.

(** the hypotheses [Sound] of the monotonicity theorems hold after the synchronisation step of a
    bonded, booked hub whose pools are backed and whose claims are within E1 *)
Theorem slashing_sound w self h h1 sb ss :
  slashing w self h = Some h1 ->
  all_delegations (w_env w) self <> [] -> 0 < booked h ->
  hub_bsei_supply w h = Some sb -> hub_stsei_supply w h = Some ss ->
  Backed (hs_bb (h_state h1)) (sb + cb_reqb (h_batch h1)) ->
  Backed (hs_bst (h_state h1)) (ss + cb_reqst (h_batch h1)) ->
  sb + cb_reqb (h_batch h1) <= LIM -> ss + cb_reqst (h_batch h1) <= LIM ->
  hs_ber (h_state h1) = rate_of (hs_bb (h_state h1)) (sb + cb_reqb (h_batch h1)) /\
  hs_ser (h_state h1) = rate_of (hs_bst (h_state h1)) (ss + cb_reqst (h_batch h1)) /\
  Sound (hs_ber (h_state h1)) (hs_bb (h_state h1)) (sb + cb_reqb (h_batch h1)) /\
  Sound (hs_ser (h_state h1)) (hs_bst (h_state h1)) (ss + cb_reqst (h_batch h1)).
Proof.
  intros H Hne Hb Hsb Hss Bb Bst Lb Lst.
  destruct (slashing_synced _ _ _ _ H Hne Hb) as (sb' & ss' & E1 & E2 & R1 & R2).
  rewrite Hsb in E1. rewrite Hss in E2. inversion E1; inversion E2; subst sb' ss'.
  split; [exact R1|]. split; [exact R2|]. rewrite R1, R2.
  split; apply synced_sound; assumption.
Qed.

(** ** 10. Finding F5 and non-vacuity: concrete worlds *)

Definition ex_cfg : hub_config :=
  mkHubConfig A_owner A_owner (Some A_disp) (Some A_reg) (Some A_bsei) (Some A_stsei) None None.
(** epoch 100, peg fee 0.5 %, threshold 1.0 *)
Definition ex_params : hub_params := mkHubParams 100 usei 100 5000000000000000 D usei (Some false).
Definition ex_tok (s : N) : token := mkToken A_hub s (Some (A_hub, None)) [(20, s)] [].
Definition ex_hub (bb bst lut : N) (cb : hub_batch) : hub :=
  mkHub ex_cfg (mkHubState D D bb bst 0 0 lut 0) ex_params cb A_owner [] [] [].
Definition ex_world (h : hub) (sb ss : N) (dels : fmap (addr * val) N) : world :=
  mkWorld (Some h) None None (Some (mkReg A_owner A_hub [0; 1] A_owner))
          (Some (ex_tok sb)) (Some (ex_tok ss)) (set_del (empty_env 100) dels).

Ltac hr_conc := vm_compute; first [reflexivity | let X := fresh in intro X; discriminate X].

(** F5: bSei pool 1 coin backing 1 bSei, stSei pool 10^6; a 1 % slashing (1 000 001 -> 990 000
    delegated) is split pro rata with floor: the bSei pool gets 0 coins while 1 bSei still exists;
    the reported bSei rate becomes 1.0 *)
Definition F5_h : hub := ex_hub 1 1000000 0 (mkBatch 1 0 0).
Definition F5_w : world := ex_world F5_h 1 1000000 [((A_hub, 0), 990000)].

Theorem F5_backed_lost_witness :
  hub_bsei_supply F5_w F5_h = Some 1 /\ Backed (hs_bb (h_state F5_h)) (1 + cb_reqb (h_batch F5_h)) /\
  exists s', query_actual_state F5_w A_hub F5_h = Some s' /\
    hs_bb s' = 0 /\ hs_bst s' = 990000 /\ hs_ber s' = D /\
    ~ Backed (hs_bb s') (1 + cb_reqb (h_batch F5_h)).
Proof.
  split; [reflexivity|]. split; [intros _; reflexivity|].
  eexists. split; [vm_compute; reflexivity|]. cbn [hs_bb hs_bst hs_ber].
  split; [reflexivity|]. split; [reflexivity|]. split; [reflexivity|].
  intros B. assert (X : 0 < 0) by (apply B; reflexivity). discriminate X.
Qed.

(** F5, consequence: in the state so reached (books already synchronised: 990 000 delegated =
    0 + 990 000 booked, nothing left to slash) the State query reports a bSei rate of 1.0; a Bond of
    1 coin mints 1 bSei and the rate becomes 0.5 - a fall without slashing *)
Definition F5_hs : hub := ex_hub 0 990000 0 (mkBatch 1 0 0).
Definition F5_ws : world := ex_world F5_hs 1 1000000 [((A_hub, 0), 990000)].

Theorem F5_bond_lowers_rate_witness :
  actual_bonded F5_ws A_hub F5_hs = Some (booked F5_hs) /\
  exists s h' dmsgs,
    query_actual_state F5_ws A_hub F5_hs = Some s /\ hs_bb s = 0 /\ hs_ber s = D /\
    execute_bond F5_ws F5_hs A_hub 20 [(usei, 1)] BkB =
      Some (h', dmsgs ++ [MWasm A_bsei (WCw20 (CMint 20 1)) []]) /\
    hs_bb (h_state h') = 1 /\
    hs_ber (h_state h') = rate_of 1 (1 + 1 + 0) /\ hs_ber (h_state h') < hs_ber s.
Proof.
  split; [vm_compute; reflexivity|].
  eexists. eexists. exists [MDelegate 1 (usei, 1)].
  split; [vm_compute; reflexivity|]. cbn [hs_bb hs_ber].
  split; [reflexivity|]. split; [reflexivity|].
  split; [vm_compute; reflexivity|]. cbn [h_state hs_bb hs_ber].
  split; [reflexivity|]. split; vm_compute; reflexivity.
Qed.

(** a healthy world: bSei pool 990 000 coins for 995 000 bSei + 5 000 requested (rate 0.99, below
    the threshold: the peg fee applies), stSei pool 2 000 000 coins for 1 893 000 stSei + 7 000
    requested (rate 1.0526...), 3 100 000 delegated (no loss).  [G_h]: epoch elapsed, the next
    unbond closes the batch; [G_hn]: epoch not elapsed *)
Definition G_batch : hub_batch := mkBatch 1 5000 7000.
Definition G_dels : fmap (addr * val) N := [((A_hub, 0), 1500000); ((A_hub, 1), 1600000)].
Definition G_h : hub := ex_hub 990000 2000000 0 G_batch.
Definition G_hn : hub := ex_hub 990000 2000000 1000000 G_batch.
Definition G_w : world := ex_world G_h 995000 1893000 G_dels.
Definition G_wn : world := ex_world G_hn 995000 1893000 G_dels.

Lemma G_sound : forall h, h = G_h \/ h = G_hn -> forall w, w = G_w \/ w = G_wn ->
  exists h1, slashing w A_hub h = Some h1 /\
    hub_bsei_supply w h = Some 995000 /\ hub_stsei_supply w h = Some 1893000 /\
    Sound (hs_ber (h_state h1)) (hs_bb (h_state h1)) (995000 + cb_reqb (h_batch h1)) /\
    Sound (hs_ser (h_state h1)) (hs_bst (h_state h1)) (1893000 + cb_reqst (h_batch h1)).
Proof.
  intros h [-> | ->] w [-> | ->]; eexists; (split; [vm_compute; reflexivity|]);
    (split; [reflexivity|]); (split; [reflexivity|]); unfold Sound; repeat split; hr_conc.
Qed.

Example reported_rate_nonvacuous :
  all_delegations (w_env G_w) A_hub <> [] /\ 0 < booked G_h /\
  all_delegations (w_env F5_w) A_hub <> [] /\ 0 < booked F5_h /\
  actual_bonded G_w A_hub G_h = Some 3100000 /\
  hs_bb (h_state G_h) <= LIM /\ hs_bst (h_state G_h) <= LIM /\ 3100000 <= LIM /\
  995000 + cb_reqb (h_batch G_h) <= U128MAX /\ 1893000 + cb_reqst (h_batch G_h) <= U128MAX /\
  exists s s5, query_actual_state G_w A_hub G_h = Some s /\ query_actual_state F5_w A_hub F5_h = Some s5.
Proof.
  repeat split; try hr_conc. eexists. eexists. split; vm_compute; reflexivity.
Qed.

Example slashing_sound_nonvacuous :
  exists h1, slashing G_w A_hub G_h = Some h1 /\
    all_delegations (w_env G_w) A_hub <> [] /\ 0 < booked G_h /\
    Backed (hs_bb (h_state h1)) (995000 + cb_reqb (h_batch h1)) /\
    Backed (hs_bst (h_state h1)) (1893000 + cb_reqst (h_batch h1)) /\
    995000 + cb_reqb (h_batch h1) <= LIM /\ 1893000 + cb_reqst (h_batch h1) <= LIM.
Proof.
  eexists. split; [vm_compute; reflexivity|]. unfold Backed. repeat split; try hr_conc.
Qed.

Example check_slashing_nonvacuous :
  exists r, hub_execute G_w G_h A_hub 20 [] HCheckSlashing = Some r /\
    actual_bonded G_w A_hub G_h = Some 3100000 /\ booked G_h <= 3100000.
Proof. eexists. split; [vm_compute; reflexivity|]. split; hr_conc. Qed.

Example bond_nonvacuous :
  (exists r, execute_bond G_w G_h A_hub 20 [(usei, 100000)] BkB = Some r /\
             snd r = [MDelegate 0 (usei, 100000); MWasm A_bsei (WCw20 (CMint 20 100505)) []]) /\
  (exists r, execute_bond G_w G_h A_hub 20 [(usei, 100000)] BkSt = Some r /\
             snd r = [MDelegate 0 (usei, 100000); MWasm A_stsei (WCw20 (CMint 20 95000)) []]) /\
  (exists r, execute_bond G_w G_h A_hub A_disp [(usei, 100000)] BkRw = Some r /\
             snd r = [MDelegate 0 (usei, 100000)]).
Proof. repeat split; eexists; split; vm_compute; reflexivity. Qed.

Example unbond_nonvacuous :
  (exists r, execute_unbond G_w G_h A_hub 1000 20 = Some r /\
             snd r = [MUndelegate 1 (usei, 13303); MWasm A_bsei (WCw20 (CBurn 1000)) []]) /\
  (exists r, execute_unbond G_wn G_hn A_hub 1000 20 = Some r /\
             snd r = [MWasm A_bsei (WCw20 (CBurn 1000)) []]) /\
  (exists r, execute_unbond_stsei G_w G_h A_hub 1000 20 = Some r /\
             snd r = [MUndelegate 1 (usei, 13371); MWasm A_stsei (WCw20 (CBurn 1000)) []]) /\
  (exists r, execute_unbond_stsei G_wn G_hn A_hub 1000 20 = Some r /\
             snd r = [MWasm A_stsei (WCw20 (CBurn 1000)) []]) /\
  1000 <= 1893000.
Proof. repeat split; try (eexists; split; vm_compute; reflexivity). hr_conc. Qed.

Example convert_nonvacuous :
  (exists r, convert_stsei_bsei G_w G_h A_hub 1000 20 = Some r /\
             snd r = [MWasm A_bsei (WCw20 (CMint 20 1057)) []; MWasm A_stsei (WCw20 (CBurn 1000)) []]) /\
  (exists r, convert_bsei_stsei G_w G_h A_hub 1000 20 = Some r /\
             snd r = [MWasm A_stsei (WCw20 (CMint 20 935)) []; MWasm A_bsei (WCw20 (CBurn 1000)) []]).
Proof. repeat split; eexists; split; vm_compute; reflexivity. Qed.

Example undelegation_nonvacuous :
  exists r, process_undelegations G_w A_hub G_h = Some r /\ hr_undelegated (snd r) = 5000 + 7000.
Proof. eexists. split; vm_compute; reflexivity. Qed.
